(* Proofs about the path event loop model (Model/PathSM.v): one state invariant, proved for every
   operation, then the per-step event facts and the trace theorems of C16, C18, C19, C20. *)
From Coq Require Import List ZArith Bool Lia.
Require Import MTX.Lib.Trace MTX.Model.PathSM.
Import ListNotations.
Local Open Scope Z_scope.

Definition is_some {A} (o : option A) : bool := match o with Some _ => true | None => false end.
Definition isnil {A} (l : list A) : bool := match l with [] => true | _ => false end.
Definition impb (a b : bool) : bool := negb a || b.

Definition is_snone (c : sub) : bool := match c with SNone => true | _ => false end.

(* conf.Path.validate: runOnDemand / runOnUnDemand only with source: publisher; alwaysAvailable excludes
   sourceOnDemand, runOnDemand and runOnUnDemand *)
Definition conf_ok (cf : pconf) : bool :=
  impb (c_static cf) (negb (c_hDemand cf))
  && impb (c_aa cf) (negb (c_sod cf) && negb (c_hDemand cf) && negb (c_hUnDemand cf)).

(* the current sub-stream is the one of the attached source: the attached publisher's, the ready static
   source's, the offline one of an alwaysAvailable stream without source, none without stream *)
Definition sub_b (s : pstate) : bool :=
  let cf := s_conf s in
  let up := is_some (s_stream s) in
  match s_sub s with
  | SNone => negb up
  | SOffline => up && c_aa cf && negb (is_some (s_source s)) && negb (s_instReady s)
  | SPub p => up && match s_source s with Some p' => p =? p' | None => false end
  | SStatic => up && c_static cf && s_instReady s
  end.

(* ---- the invariant ---------------------------------------------------------------------------- *)
(* finite part, as a boolean function of the state (lists enter through isnil only) *)
Definition core_b (fx : bool) (s : pstate) : bool :=
  let cf := s_conf s in
  let up := is_some (s_stream s) in
  conf_ok cf
  (* one source; on a publisher path the stream exists iff a publisher is attached; an alwaysAvailable
     path has its stream as long as it lives *)
  && (if c_static cf then negb (is_some (s_source s))
      else if c_aa cf then true else Bool.eqb (is_some (s_source s)) up)
  && impb (c_aa cf) up
  && sub_b s
  && impb up (s_hUnavail s)
  (* the online pair is open iff a source is attached (= the stream exists, unless alwaysAvailable) *)
  && Bool.eqb (s_hOffline s) (if c_aa cf then is_some (s_source s) || s_instReady s else up)
  && impb (negb up) (isnil (s_readers s))
  (* on-demand publisher automaton *)
  && Bool.eqb (s_pubReadyT s) (ods_eqb (s_pubState s) OdWaiting)
  && Bool.eqb (s_pubCloseT s) (ods_eqb (s_pubState s) OdClosing)
  && Bool.eqb (s_hUnDemand s) (negb (ods_eqb (s_pubState s) OdInitial))
  && impb (negb (ods_eqb (s_pubState s) OdInitial)) (od_pub cf && negb (od_static cf))
  && impb (ods_eqb (s_pubState s) OdWaiting) (negb up)
  && impb (fx && (ods_eqb (s_pubState s) OdReady || ods_eqb (s_pubState s) OdClosing)) up
  (* on-demand static source automaton, handler, instance *)
  && Bool.eqb (s_ssReadyT s) (ods_eqb (s_ssState s) OdWaiting)
  && Bool.eqb (s_ssCloseT s) (ods_eqb (s_ssState s) OdClosing)
  && Bool.eqb (s_ssRunning s) (c_static cf && (negb (c_sod cf) || negb (ods_eqb (s_ssState s) OdInitial)))
  && impb (negb (ods_eqb (s_ssState s) OdInitial)) (od_static cf)
  && (if c_aa cf then impb (s_instReady s) (c_static cf) else Bool.eqb (s_instReady s) (c_static cf && up))
  && impb (ods_eqb (s_ssState s) OdWaiting) (negb up)
  && impb (ods_eqb (s_ssState s) OdReady || ods_eqb (s_ssState s) OdClosing) up.

Definition no_holds_b (s : pstate) : bool := isnil (s_dhold s) && isnil (s_rhold s).

(* a request is on hold only while the matching on-demand automaton waits for its source *)
Definition hold_b (fx : bool) (s : pstate) : bool :=
  no_holds_b s
  || (negb (is_some (s_stream s))
      && if od_static (s_conf s) then ods_eqb (s_ssState s) OdWaiting
         else od_pub (s_conf s) && impb fx (ods_eqb (s_pubState s) OdWaiting)).

Definition closed_b (s : pstate) : bool :=
  no_holds_b s && negb (is_some (s_stream s)) && negb (is_some (s_source s)) && isnil (s_readers s)
  && negb (s_hOffline s) && negb (s_hUnDemand s) && is_snone (s_sub s) && conf_ok (s_conf s).

Definition inv_b (fx : bool) (s : pstate) : bool :=
  if s_closed s then closed_b s else core_b fx s && hold_b fx s.

(* list part *)
Definition ListInv (s : pstate) : Prop :=
  NoDup (s_readers s) /\
  (c_maxr (s_conf s) <> 0 -> Z.of_nat (length (s_readers s)) <= Z.max 0 (c_maxr (s_conf s))).

Definition Inv (fx : bool) (s : pstate) : Prop := inv_b fx s = true /\ ListInv s.

(* ---- automation --------------------------------------------------------------------------------- *)
Ltac destr_conf cf :=
  let a := fresh "c_st" in let b := fresh "c_sd" in let c := fresh "c_ov" in let d := fresh "c_mx" in
  destruct cf as [a b c d ? ? ? ? ? ? ?].

Ltac start s :=
  let cf := fresh "cf" in
  destruct s as [cf cl src str ng rd dh rh sst srt sct srun ir pst prt pct hud hua hof sb]; destr_conf cf.

(* case split on a finite variable, dropping the cases the invariant excludes *)
Ltac sp H x := destruct x; cbn in H; try discriminate H.

Lemma init_fields cf : s_readers (init_state cf) = [] /\ s_conf (init_state cf) = cf.
Proof. destr_conf cf. destruct c_aa, c_st, c_sd; split; reflexivity. Qed.

Lemma inv_init fx cf : conf_ok cf = true -> Inv fx (init_state cf).
Proof.
  intros Hc. split.
  - destr_conf cf. unfold conf_ok in Hc. cbn in Hc.
    destruct fx, c_st, c_sd, c_hDemand, c_hUnDemand, c_aa; cbn in Hc; try discriminate Hc; vm_compute; reflexivity.
  - destruct (init_fields cf) as [A B]. unfold ListInv. rewrite A, B. split; cbn; [constructor|intros _; lia].
Qed.

Lemma fst_bind f g s : fst ((f ;; g) s) = fst (g (fst (f s))).
Proof. unfold bindM. destruct (f s) as [s1 e1]. cbn. destruct (g s1); reflexivity. Qed.
Lemma snd_bind f g s : snd ((f ;; g) s) = snd (f s) ++ snd (g (fst (f s))).
Proof. unfold bindM. destruct (f s) as [s1 e1]. cbn. destruct (g s1); reflexivity. Qed.

Lemma eqb_eq' a b : Bool.eqb a b = true -> a = b.
Proof. destruct a, b; cbn; congruence. Qed.

(* split a boolean conjunction hypothesis into its conjuncts; turn eqb facts into equations *)
Ltac split_hyps :=
  repeat match goal with
         | H : _ && _ = true |- _ => apply andb_prop in H; destruct H
         end;
  repeat match goal with
         | H : Bool.eqb ?a ?b = true |- _ => apply eqb_eq' in H
         end.
Ltac prune :=
  cbn in * |-; try match goal with H : false = true |- _ => discriminate H end;
  repeat match goal with
         | H : isnil ?l = true |- _ => is_var l; destruct l; [clear H|discriminate H]
         | H : (?a =? ?b) = true |- _ => apply Z.eqb_eq in H; subst
         end.
Ltac spx x := destruct x; prune.

(* open the invariant of an explicit live state: afterwards every finite field is a constant *)
Ltac open_inv H :=
  unfold inv_b, core_b, sub_b, hold_b, no_holds_b, conf_ok, od_static, od_pub in H; cbn in H; split_hyps; subst; prune.

Arguments inv_b : simpl never.

(* enumerate the finite part of an explicit live state satisfying the invariant *)
Ltac enum H :=
  open_inv H;
  repeat match goal with
         | x : bool |- _ => match goal with Hx : context [x] |- _ => match type of Hx with _ = true => spx x end end
         | x : ods |- _ => match goal with Hx : context [x] |- _ => match type of Hx with _ = true => spx x end end
         | x : option Z |- _ => match goal with Hx : context [x] |- _ => match type of Hx with _ = true => spx x end end
         | x : sub |- _ => match goal with Hx : context [x] |- _ => match type of Hx with _ = true => spx x end end
         | x : list _ |- _ => match goal with Hx : context [isnil x] |- _ => match type of Hx with _ = true => spx x end end
         end.

Arguments open_logs : simpl never.
Arguments close_logs : simpl never.
Arguments closed_answer : simpl never.

Ltac split_ifs :=
  repeat (match goal with
          | |- context [if ?c then _ else _] => destruct c eqn:?
          | |- context [match ?l with [] => _ | _ :: _ => _ end] => destruct l eqn:?
          end; cbn).

Ltac leaf := cbn; split_ifs; unfold inv_b, core_b, sub_b, hold_b, no_holds_b, closed_b, conf_ok, od_static, od_pub; cbn;
  rewrite ?Z.eqb_refl; try reflexivity.

Ltac unf :=
  unfold step_gen, do_describe, do_add_reader, do_remove_reader, do_add_publisher, attach_publisher,
    do_remove_publisher, do_static_ready, do_static_not_ready, do_timer, do_close, clear_timers, close_source, close_demand, close_stream, execute_remove_publisher,
    source_gone, start_offline, attach_tail, aa, not_aa,
    set_not_available, set_available, set_online, set_offline, call_unavailable, hook_open, hook_close, panic,
    handler_start, handler_stop, ss_start, ss_schedule_close, ss_stop, pub_start, pub_schedule_close, pub_stop,
    add_reader_post, bump_on_demand, fail_on_hold, whenM, bindM, modify, emit, ret, timer_armed, disarm, cur_stream.

(* leaves whose handler is stuck on list conditions in the middle (cbn keeps the rest folded) *)
Ltac fin_live H := enum H; unf; leaf.

(* leaves whose handler is straight-line on an explicit state: kernel-style lazy evaluation *)
Ltac red_goal :=
  lazy beta iota zeta delta [fst snd
     step_gen do_describe do_add_reader do_remove_reader do_add_publisher attach_publisher
     do_remove_publisher do_static_ready do_static_not_ready do_timer do_close clear_timers close_source close_demand close_stream execute_remove_publisher
     source_gone start_offline attach_tail aa not_aa
     set_not_available set_available set_online set_offline call_unavailable hook_open hook_close panic
     handler_start handler_stop ss_start ss_schedule_close ss_stop pub_start pub_schedule_close pub_stop
     bump_on_demand fail_on_hold whenM bindM modify emit ret timer_armed disarm cur_stream
     set_closed set_source set_stream set_nextgen set_readers set_dhold set_rhold set_ssState set_ssReadyT
     set_ssCloseT set_ssRunning set_instReady set_pubState set_pubReadyT set_pubCloseT set_hUnDemand
     set_hUnavail set_hOffline set_sub
     s_conf s_closed s_source s_stream s_nextgen s_readers s_dhold s_rhold s_ssState s_ssReadyT s_ssCloseT
     s_ssRunning s_instReady s_pubState s_pubReadyT s_pubCloseT s_hUnDemand s_hUnavail s_hOffline s_sub
     PathSM.c_static PathSM.c_sod PathSM.c_override PathSM.c_maxr PathSM.c_hAvail PathSM.c_hUnavail
     PathSM.c_hOnline PathSM.c_hOffline PathSM.c_hDemand PathSM.c_hUnDemand PathSM.c_aa
     od_static od_pub ods_eqb andb orb negb
     inv_b core_b sub_b hold_b no_holds_b closed_b conf_ok is_some isnil is_snone impb Bool.eqb].
(* case split on the symbolic conditions of the handlers (list membership, id equality, reader limit) *)
Ltac split_atoms :=
  repeat (rewrite ?Z.eqb_refl; match goal with
          | |- context [mem ?r ?l] => destruct (mem r l) eqn:?
          | |- context [remove_z ?r ?l] => destruct (remove_z r l) eqn:?
          | |- context [Z.eqb ?a ?b] => destruct (Z.eqb a b) eqn:?
          | |- context [Z.leb ?a ?b] => destruct (Z.leb a b) eqn:?
          end; red_goal); rewrite ?Z.eqb_refl.
Ltac leaf' := red_goal; split_atoms; try reflexivity.
Ltac fin_live' H := enum H; leaf'.

Lemma fin_remove_reader fx s r : inv_b fx s = true -> inv_b fx (fst (step_gen fx s (RemoveReader r))) = true.
Proof. intros H. start s. destruct cl; [exact H|]. fin_live H. Qed.

Lemma fin_describe fx s q : inv_b fx s = true -> inv_b fx (fst (step_gen fx s (Describe q))) = true.
Proof. intros H. start s. destruct cl; [exact H|]. fin_live H. Qed.

Lemma fin_add_reader fx s q r : inv_b fx s = true -> inv_b fx (fst (step_gen fx s (AddReader q r))) = true.
Proof. intros H. start s. destruct cl; [exact H|]. fin_live H. Qed.

Lemma fin_remove_publisher fx s p : inv_b fx s = true -> inv_b fx (fst (step_gen fx s (RemovePublisher p))) = true.
Proof. intros H. start s. destruct cl; [exact H|]. fin_live' H. Qed.

Lemma fin_static_not_ready fx s : inv_b fx s = true -> inv_b fx (fst (step_gen fx s StaticNotReady)) = true.
Proof. intros H. start s. destruct cl; [exact H|]. fin_live' H. Qed.

Lemma fin_timer fx s t : inv_b fx s = true -> inv_b fx (fst (step_gen fx s (TimerFire t))) = true.
Proof. intros H. start s. destruct cl; [exact H|]. destruct t; fin_live' H. Qed.

Lemma fin_close fx s : inv_b fx s = true -> inv_b fx (fst (step_gen fx s Close)) = true.
Proof. intros H. start s. destruct cl; [exact H|]. fin_live' H. Qed.

(* ---- consumeOnHoldRequests: effect on the state ------------------------------------------------ *)
Lemma arp_cases q r s :
  fst (add_reader_post q r s) = s \/
  fst (add_reader_post q r s) = bump_on_demand (set_readers (s_readers s ++ [r]) s).
Proof.
  unfold add_reader_post. destruct (mem r (s_readers s)); [left; reflexivity|].
  destruct (negb (c_maxr (s_conf s) =? 0) && (c_maxr (s_conf s) <=? Z.of_nat (length (s_readers s))));
    [left|right]; reflexivity.
Qed.

Lemma bump_set_readers x s : bump_on_demand (set_readers x s) = set_readers x (bump_on_demand s).
Proof.
  destruct s as [cf ? ? ? ? ? ? ? sst ? ? ? ? pst ? ? ? ? ? ?]. unfold bump_on_demand. cbn.
  destruct (od_static cf); [destruct sst; reflexivity|]. destruct (od_pub cf); [destruct pst; reflexivity|reflexivity].
Qed.
Lemma bump_idem s : bump_on_demand (bump_on_demand s) = bump_on_demand s.
Proof.
  destruct s as [cf ? ? ? ? ? ? ? sst ? ? ? ? pst ? ? ? ? ? ?]. unfold bump_on_demand. cbn.
  destruct (od_static cf) eqn:E1; [destruct sst; cbn; rewrite ?E1; reflexivity|].
  destruct (od_pub cf) eqn:E2; [destruct pst; cbn; rewrite ?E1, ?E2; reflexivity|cbn; rewrite E1, E2; reflexivity].
Qed.
Lemma set_readers_twice a b s : set_readers a (set_readers b s) = set_readers a s.
Proof. destruct s; reflexivity. Qed.

Lemma arps_cases l : forall s,
  fst (add_readers_post l s) = s \/
  exists rd', rd' <> [] /\ fst (add_readers_post l s) = bump_on_demand (set_readers rd' s).
Proof.
  induction l as [|[q r] l IH]; intros s; [left; reflexivity|].
  cbn [add_readers_post]. rewrite fst_bind.
  destruct (arp_cases q r s) as [E|E]; rewrite E.
  - apply IH.
  - right. destruct (IH (bump_on_demand (set_readers (s_readers s ++ [r]) s))) as [E2|(rd' & Hne & E2)]; rewrite E2.
    + exists (s_readers s ++ [r]). split; [|reflexivity]. intros Hx. apply app_eq_nil in Hx. destruct Hx; discriminate.
    + exists rd'. split; [exact Hne|]. rewrite bump_set_readers, bump_idem, <- bump_set_readers, set_readers_twice. reflexivity.
Qed.

Lemma consume_cases s :
  fst (consume_on_hold s) = set_rhold [] (set_dhold [] s) \/
  exists rd', rd' <> [] /\
    fst (consume_on_hold s) = set_rhold [] (bump_on_demand (set_readers rd' (set_dhold [] s))).
Proof.
  unfold consume_on_hold. rewrite !fst_bind. cbn [fst modify].
  destruct (arps_cases (s_rhold s) (set_dhold [] s)) as [E|(rd' & Hne & E)]; rewrite E.
  - left; reflexivity.
  - right. exists rd'. split; [exact Hne|reflexivity].
Qed.

(* the part of doAddPublisher / doSourceStaticSetReady before consumeOnHoldRequests *)
Definition pre_tail (p : Z) : M :=
  modify (set_sub (SPub p)) ;; modify (set_source (Some p)) ;;
  whenM aa set_online ;;
  whenM (fun s => od_pub (s_conf s) && negb (ods_eqb (s_pubState s) OdInitial))
    (modify (set_pubReadyT false) ;; pub_schedule_close).
Definition pre_attach (p : Z) : M := whenM not_aa set_available ;; pre_tail p.
Definition pre_static_ready : M :=
  whenM not_aa set_available ;;
  modify (set_sub SStatic) ;;
  whenM aa set_online ;;
  whenM (fun s => od_static (s_conf s)) (modify (set_ssReadyT false) ;; ss_schedule_close).

Lemma conf_when_sa s : s_conf (fst (whenM not_aa set_available s)) = s_conf s.
Proof.
  destruct s as [[? ? ? ? ? ? ? ? ? ? a] ? ? ? ? ? ? ? ? ? ? ? ? ? ? ? ? ? h ?]; destruct a, h; reflexivity.
Qed.

Lemma fst_attach_tail q p s : fst (attach_tail q p s) = fst (consume_on_hold (fst (pre_tail p s))).
Proof. unfold attach_tail, pre_tail. rewrite !fst_bind. reflexivity. Qed.

(* a refused publisher (alwaysAvailable, other tracks) leaves the state as it is *)
Lemma fst_attach q p ok s :
  fst (attach_publisher q p ok s) =
  if aa s && negb ok then s else fst (consume_on_hold (fst (pre_attach p s))).
Proof.
  unfold attach_publisher, pre_attach. rewrite !fst_bind. unfold aa at 1. rewrite conf_when_sa. fold (aa s).
  destruct (aa s) eqn:E.
  - unfold whenM, not_aa. unfold aa in E. rewrite E. cbn [negb fst]. destruct ok; cbn [negb andb fst]; [apply fst_attach_tail|reflexivity].
  - cbn [andb]. apply fst_attach_tail.
Qed.

Arguments consume_on_hold : simpl never.
Arguments pre_attach : simpl never.
Arguments pre_tail : simpl never.
Arguments pre_static_ready : simpl never.

