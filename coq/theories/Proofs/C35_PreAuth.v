(* Proofs for C35: no slice / index expression of the pre-authentication code can panic,
   for every input; the guards that make this true are shown necessary by witnesses. *)
From Coq Require Import List ZArith Bool Lia.
Require Import MTX.Lib.PathClean MTX.Lib.Base64 MTX.Model.C34_Descriptors MTX.Model.C35_PreAuth.
Import ListNotations.
Local Open Scope Z_scope.

(* ---- the partial operations ---------------------------------------------------------- *)

Lemma len_nonneg s : 0 <= len s.
Proof. unfold len. lia. Qed.

Lemma len_cons c s : len (c :: s) = len s + 1.
Proof. unfold len. simpl List.length. lia. Qed.

Lemma len_nil : len [] = 0.
Proof. reflexivity. Qed.

Lemma len_app a b : len (a ++ b) = len a + len b.
Proof. unfold len. rewrite app_length. lia. Qed.

Lemma len_rev s : len (rev s) = len s.
Proof. unfold len. now rewrite rev_length. Qed.

Lemma emp_true s : emp s = true <-> s = [].
Proof. destruct s; simpl; split; congruence. Qed.

Lemma emp_false s : emp s = false <-> s <> [].
Proof. destruct s; simpl; split; congruence. Qed.

Lemma emp_len s : emp s = (len s =? 0).
Proof. destruct s; [reflexivity|]. rewrite len_cons. pose proof (len_nonneg s). simpl. symmetry. apply Z.eqb_neq. lia. Qed.

Lemma slice_ok s lo hi : 0 <= lo -> lo <= hi -> hi <= len s -> exists r, slice s lo hi = Ok r.
Proof.
  intros H1 H2 H3. unfold slice.
  replace ((0 <=? lo) && (lo <=? hi) && (hi <=? len s)) with true; [eauto|].
  symmetry. rewrite !andb_true_iff. repeat split; apply Z.leb_le; assumption.
Qed.

Lemma slice_panic s lo hi : slice s lo hi = Panic <-> ~ (0 <= lo /\ lo <= hi /\ hi <= len s).
Proof.
  unfold slice. destruct ((0 <=? lo) && (lo <=? hi) && (hi <=? len s)) eqn:E.
  - rewrite !andb_true_iff, !Z.leb_le in E. split; [discriminate|]. intros H; exfalso; apply H; tauto.
  - split; [intros _ H|reflexivity].
    assert ((0 <=? lo) && (lo <=? hi) && (hi <=? len s) = true) as E'; [|congruence].
    rewrite !andb_true_iff, !Z.leb_le. tauto.
Qed.

Lemma idx_ok s i : 0 <= i < len s -> exists c, idx s i = Ok c.
Proof.
  intros H. unfold idx. replace ((0 <=? i) && (i <? len s)) with true; [eauto|].
  symmetry. rewrite andb_true_iff, Z.leb_le, Z.ltb_lt. lia.
Qed.

Lemma idx_panic s i : idx s i = Panic <-> ~ (0 <= i < len s).
Proof.
  unfold idx. destruct ((0 <=? i) && (i <? len s)) eqn:E.
  - rewrite andb_true_iff, Z.leb_le, Z.ltb_lt in E. split; [discriminate|]. intros H; exfalso; apply H; lia.
  - split; [intros _ H|reflexivity].
    assert ((0 <=? i) && (i <? len s) = true) as E'; [|congruence].
    rewrite andb_true_iff, Z.leb_le, Z.ltb_lt. lia.
Qed.

Lemma idx_0_cons c s : idx (c :: s) 0 = Ok c.
Proof. unfold idx. rewrite len_cons. pose proof (len_nonneg s). replace (0 <? len s + 1) with true; [reflexivity|]. symmetry. apply Z.ltb_lt. lia. Qed.

Lemma slice_from_1_cons c s : slice_from (c :: s) 1 = Ok s.
Proof.
  unfold slice_from, slice. rewrite len_cons. pose proof (len_nonneg s).
  replace ((0 <=? 1) && (1 <=? len s + 1) && (len s + 1 <=? len s + 1)) with true.
  - f_equal. replace (len s + 1 - 1) with (len s) by lia. unfold len. rewrite Nat2Z.id. simpl skipn. apply firstn_all.
  - symmetry. rewrite !andb_true_iff, !Z.leb_le. lia.
Qed.

Lemma slice_from_app a b : slice_from (a ++ b) (len a) = Ok b.
Proof.
  unfold slice_from, slice. rewrite len_app. pose proof (len_nonneg a). pose proof (len_nonneg b).
  replace ((0 <=? len a) && (len a <=? len a + len b) && (len a + len b <=? len a + len b)) with true.
  - f_equal. replace (len a + len b - len a) with (len b) by lia. unfold len. rewrite !Nat2Z.id.
    rewrite skipn_app, skipn_all, Nat.sub_diag. simpl. apply firstn_all.
  - symmetry. rewrite !andb_true_iff, !Z.leb_le. lia.
Qed.

Lemma bind_ok {A B} (r : res A) (f : A -> res B) a : r = Ok a -> bind r f = f a.
Proof. intros ->. reflexivity. Qed.

Lemma bind_no_panic {A B} (r : res A) (f : A -> res B) :
  r <> Panic -> (forall a, r = Ok a -> f a <> Panic) -> bind r f <> Panic.
Proof. destruct r as [a|]; simpl; [intros _ H; apply H; reflexivity|congruence]. Qed.

Lemma ok_not_panic {A} (a : A) : Ok a <> Panic.
Proof. discriminate. Qed.

(* ---- prefixes and suffixes ------------------------------------------------------------- *)

Lemma strip_prefix_app p : forall s r, strip_prefix p s = Some r -> s = p ++ r.
Proof.
  induction p as [|x p IH]; simpl; intros s r H.
  - congruence.
  - destruct s as [|y s]; [discriminate|]. destruct (x =? y) eqn:E; [|discriminate].
    apply Z.eqb_eq in E. subst y. f_equal. apply IH. exact H.
Qed.

Lemma has_prefix_len p s : has_prefix p s = true -> len p <= len s.
Proof.
  unfold has_prefix. destruct (strip_prefix p s) as [r|] eqn:E; [|discriminate]. intros _.
  apply strip_prefix_app in E. subst s. rewrite len_app. pose proof (len_nonneg r). lia.
Qed.

Lemma has_suffix_len suf s : has_suffix suf s = true -> len suf <= len s.
Proof. unfold has_suffix. intros H. apply has_prefix_len in H. now rewrite !len_rev in H. Qed.

(* ---- handlerFilterRequests -------------------------------------------------------------- *)

Lemma filter_no_panic p : http_filter p <> Panic.
Proof.
  unfold http_filter. destruct p as [|c r]; simpl emp; cbv iota; [discriminate|].
  rewrite idx_0_cons. simpl. discriminate.
Qed.

Lemma filter_pass_iff p : http_filter p = Ok true <-> exists r, p = 47 :: r.
Proof.
  unfold http_filter. destruct p as [|c r]; simpl emp; cbv iota.
  - split; [discriminate|intros [? ?]; discriminate].
  - rewrite idx_0_cons. simpl. split.
    + intros H. injection H as H. apply Z.eqb_eq in H. subst c. eauto.
    + intros [r' H]. injection H as -> _. reflexivity.
Qed.

Lemma filter_unguarded_panics : http_filter_unguarded [] = Panic.
Proof. reflexivity. Qed.

(* ---- HLS ----------------------------------------------------------------------------------- *)

Lemma hls_route_no_panic pa : hls_route pa <> Panic.
Proof.
  unfold hls_route.
  destruct (has_suffix s_hls_min_js pa); [discriminate|].
  destruct (emp pa || beqb pa s_favicon || has_suffix s_hls_min_js_map pa); [discriminate|].
  destruct (has_suffix s_m3u8 pa); [discriminate|].
  destruct (has_suffix s_ts pa || has_suffix s_mp4 pa || has_suffix s_mp pa); [discriminate|].
  destruct (has_suffix s_slash pa) eqn:E; simpl negb; cbv iota; [|discriminate].
  apply has_suffix_len in E. change (len s_slash) with 1 in E.
  destruct (slice_ok pa 0 (len pa - 1)) as [d Hd]; try lia.
  rewrite Hd. simpl. discriminate.
Qed.

Lemma hls_dispatch_no_panic g p : http_filter p = Ok true -> hls_dispatch g p <> Panic.
Proof.
  intros H. apply filter_pass_iff in H. destruct H as [r ->]. unfold hls_dispatch.
  destruct g; simpl negb; cbv iota; [|discriminate].
  rewrite slice_from_1_cons. simpl. apply hls_route_no_panic.
Qed.

Lemma hls_dispatch_unfiltered_panics : hls_dispatch true [] = Panic.
Proof. reflexivity. Qed.

Lemma hls_front_no_panic g p : hls_front g p <> Panic.
Proof.
  unfold hls_front. destruct (http_filter p) as [[|]|] eqn:E; simpl.
  - pose proof (hls_dispatch_no_panic g p E) as H. destruct (hls_dispatch g p); [discriminate|congruence].
  - discriminate.
  - exfalso. exact (filter_no_panic p E).
Qed.

(* ---- pages (WebRTC, MoQ over HTTP/2) ------------------------------------------------------------ *)

Lemma page_dispatch_no_panic p : page_dispatch p <> Panic.
Proof.
  unfold page_dispatch. destruct (2 <=? len p) eqn:L; [|discriminate]. apply Z.leb_le in L.
  destruct ((len s_publish_suffix <? len p) && has_suffix s_publish_suffix p) eqn:E.
  - apply andb_true_iff in E. destruct E as [E _]. apply Z.ltb_lt in E. change (len s_publish_suffix) with 8 in *.
    destruct (slice_ok p 1 (len p - 8)) as [n Hn]; try lia. rewrite Hn. simpl. discriminate.
  - destruct (idx_ok p (len p - 1)) as [c Hc]; [lia|]. rewrite Hc. simpl.
    destruct (negb (c =? 47)); [discriminate|].
    destruct (slice_ok p 1 (len p - 1)) as [n Hn]; try lia. rewrite Hn. simpl. discriminate.
Qed.

Lemma page_no_len_guard_panics : page_dispatch_no_len_guard [47] = Panic /\ page_dispatch_no_len_guard [] = Panic.
Proof. split; reflexivity. Qed.

Lemma page_no_publish_guard_panics : page_dispatch_no_publish_guard s_publish_suffix = Panic.
Proof. reflexivity. Qed.

(* a page name can be empty: GET // and GET //publish *)
Lemma page_name_can_be_empty :
  page_dispatch [47; 47] = Ok (PPage [] false) /\ page_dispatch (47 :: s_publish_suffix) = Ok (PPage [] true).
Proof. split; reflexivity. Qed.

(* ---- WebRTC ---------------------------------------------------------------------------------------- *)

Lemma re_noid_shape p sm : re_noid p = Some sm -> exists n k, sm = [p; n; k] /\ n <> [] /\ (k = s_whip \/ k = s_whep).
Proof.
  unfold re_noid. destruct p as [|c r]; [discriminate|].
  destruct (negb (c =? 47)); [discriminate|].
  destruct (has_suffix s_whip_sfx r && negb (emp (drop_last 5 r)) && no_nl (drop_last 5 r)) eqn:E1.
  - intros H. injection H as <-. rewrite !andb_true_iff in E1. destruct E1 as [[_ E1] _].
    apply negb_true_iff, emp_false in E1. eauto 6.
  - destruct (has_suffix s_whep_sfx r && negb (emp (drop_last 5 r)) && no_nl (drop_last 5 r)) eqn:E2; [|discriminate].
    intros H. injection H as <-. rewrite !andb_true_iff in E2. destruct E2 as [[_ E2] _].
    apply negb_true_iff, emp_false in E2. eauto 6.
Qed.

Lemma re_withid_scan_shape r : forall nrev n k sec,
  re_withid_scan nrev r = Some (n, k, sec) -> n <> [] /\ sec <> [].
Proof.
  induction r as [|c r IH]; intros nrev n k sec; [discriminate|].
  cbn [re_withid_scan].
  destruct (emp nrev) eqn:En.
  - destruct (c =? 10); [discriminate|]. apply IH.
  - set (here := match strip_prefix s_whip_mid (c :: r) with
                 | Some rest => _ | None => _ end).
    assert (forall x, here = Some x -> let '(n', _, s') := x in n' <> [] /\ s' <> []) as Hh.
    { subst here. intros [[n' k'] s'].
      assert (rev nrev <> []) as Hn.
      { apply emp_false in En. destruct nrev; [congruence|]. simpl. intros H. apply app_eq_nil in H. destruct H; discriminate. }
      destruct (strip_prefix s_whip_mid (c :: r)) as [rest|].
      - destruct (negb (emp rest) && no_nl rest) eqn:E; [|discriminate].
        intros H. injection H as <- _ <-. apply andb_true_iff in E. destruct E as [E _].
        apply negb_true_iff, emp_false in E. split; assumption.
      - destruct (strip_prefix s_whep_mid (c :: r)) as [rest|]; [|discriminate].
        destruct (negb (emp rest) && no_nl rest) eqn:E; [|discriminate].
        intros H. injection H as <- _ <-. apply andb_true_iff in E. destruct E as [E _].
        apply negb_true_iff, emp_false in E. split; assumption. }
    destruct here as [x|].
    + intros H. injection H as ->. exact (Hh _ eq_refl).
    + destruct (c =? 10); [discriminate|]. apply IH.
Qed.

Lemma re_withid_shape p sm : re_withid p = Some sm -> exists n k sec, sm = [p; n; k; sec] /\ n <> [] /\ sec <> [].
Proof.
  unfold re_withid. destruct p as [|c r]; [discriminate|].
  destruct (negb (c =? 47)); [discriminate|].
  destruct (re_withid_scan [] r) as [[[n k] sec]|] eqn:E; [|discriminate].
  intros H. injection H as <-. apply re_withid_scan_shape in E. destruct E. eauto 8.
Qed.

Lemma webrtc_dispatch_no_panic m p : webrtc_dispatch m p <> Panic.
Proof.
  unfold webrtc_dispatch.
  destruct (re_noid p) as [sm|] eqn:E1.
  - apply re_noid_shape in E1. destruct E1 as (n & k & -> & _). simpl. discriminate.
  - destruct (re_withid p) as [sm|] eqn:E2.
    + apply re_withid_shape in E2. destruct E2 as (n & k & sec & -> & _). simpl. discriminate.
    + destruct m; try discriminate.
      destruct (has_suffix s_publisher_js p); [discriminate|].
      destruct (has_suffix s_reader_js p); [discriminate|].
      destruct (beqb p s_favicon_abs); [discriminate|].
      pose proof (page_dispatch_no_panic p) as H. destruct (page_dispatch p); [discriminate|congruence].
Qed.

Lemma webrtc_front_no_panic m p : webrtc_front m p <> Panic.
Proof.
  unfold webrtc_front. destruct (http_filter p) as [[|]|] eqn:E; simpl.
  - pose proof (webrtc_dispatch_no_panic m p) as H. destruct (webrtc_dispatch m p); [discriminate|congruence].
  - discriminate.
  - exfalso. exact (filter_no_panic p E).
Qed.

(* the names of the WHIP/WHEP endpoints are never empty *)
Lemma webrtc_whip_name_nonempty m p n b :
  webrtc_dispatch m p = Ok (WOptions n b) \/ webrtc_dispatch m p = Ok (WPost n b) -> n <> [].
Proof.
  unfold webrtc_dispatch.
  destruct (re_noid p) as [sm|] eqn:E1.
  - apply re_noid_shape in E1. destruct E1 as (n' & k & -> & Hn & _). simpl.
    destruct m; intros [H|H]; try discriminate; injection H as <- _; exact Hn.
  - destruct (re_withid p) as [sm|] eqn:E2.
    + apply re_withid_shape in E2. destruct E2 as (n' & k & sec & -> & _). simpl.
      destruct m; intros [H|H]; discriminate.
    + destruct m; try (intros [H|H]; discriminate).
      destruct (has_suffix s_publisher_js p); [intros [H|H]; discriminate|].
      destruct (has_suffix s_reader_js p); [intros [H|H]; discriminate|].
      destruct (beqb p s_favicon_abs); [intros [H|H]; discriminate|].
      destruct (page_dispatch p) as [[]|]; simpl; intros [H|H]; discriminate.
Qed.

Lemma webrtc_secret_nonempty m p s :
  webrtc_dispatch m p = Ok (WPatch s) \/ webrtc_dispatch m p = Ok (WDelete s) -> s <> [].
Proof.
  unfold webrtc_dispatch.
  destruct (re_noid p) as [sm|] eqn:E1.
  - apply re_noid_shape in E1. destruct E1 as (n' & k & -> & Hn & _). simpl.
    destruct m; intros [H|H]; discriminate.
  - destruct (re_withid p) as [sm|] eqn:E2.
    + apply re_withid_shape in E2. destruct E2 as (n' & k & sec & -> & _ & Hs). simpl.
      destruct m; intros [H|H]; try discriminate; injection H as <-; exact Hs.
    + destruct m; try (intros [H|H]; discriminate).
      destruct (has_suffix s_publisher_js p); [intros [H|H]; discriminate|].
      destruct (has_suffix s_reader_js p); [intros [H|H]; discriminate|].
      destruct (beqb p s_favicon_abs); [intros [H|H]; discriminate|].
      destruct (page_dispatch p) as [[]|]; simpl; intros [H|H]; discriminate.
Qed.

(* ---- MoQ ------------------------------------------------------------------------------------------------- *)

Lemma split_n2_length sep s : List.length (split_n2 sep s) = 2%nat \/ List.length (split_n2 sep s) = 1%nat.
Proof. unfold split_n2. destruct (cut1 sep s) as [[a b]|]; simpl; auto. Qed.

Lemma auth_mirror_no_panic hdr : auth_mirror hdr <> Panic.
Proof.
  unfold auth_mirror. destruct (has_prefix s_basic_sp hdr) eqn:E; simpl negb; cbv iota; [|discriminate].
  unfold has_prefix in E. destruct (strip_prefix s_basic_sp hdr) as [r|] eqn:E'; [|discriminate].
  apply strip_prefix_app in E'. subst hdr. rewrite slice_from_app. cbn [bind].
  destruct (b64_decode r) as [creds|]; [|discriminate].
  unfold split_n2. destruct (cut1 c_colon creds) as [[a b]|]; simpl; discriminate.
Qed.

Lemma auth_mirror_unguarded_panics : auth_mirror_unguarded [] = Panic.
Proof. reflexivity. Qed.

Lemma moq_h2_dispatch_no_panic m p hdr : moq_h2_dispatch m p hdr <> Panic.
Proof.
  unfold moq_h2_dispatch. destruct m; try discriminate.
  destruct (has_suffix s_authmirror p).
  { pose proof (auth_mirror_no_panic hdr) as H. destruct (auth_mirror hdr); [discriminate|congruence]. }
  destruct (has_suffix s_fingerprint p); [discriminate|].
  destruct (has_suffix s_reader_js p); [discriminate|].
  destruct (has_suffix s_publisher_js p); [discriminate|].
  destruct (beqb p s_favicon_abs); [discriminate|].
  pose proof (page_dispatch_no_panic p) as H. destruct (page_dispatch p); [discriminate|congruence].
Qed.

Lemma moq_h2_front_no_panic m p hdr : moq_h2_front m p hdr <> Panic.
Proof.
  unfold moq_h2_front. destruct (http_filter p) as [[|]|] eqn:E; simpl.
  - pose proof (moq_h2_dispatch_no_panic m p hdr) as H. destruct (moq_h2_dispatch m p hdr); [discriminate|congruence].
  - discriminate.
  - exfalso. exact (filter_no_panic p E).
Qed.

Lemma moq_h3_dispatch_no_panic m p : moq_h3_dispatch m p <> Panic.
Proof.
  unfold moq_h3_dispatch. destruct m; try discriminate.
  destruct (http_filter p) as [[|]|] eqn:E; simpl.
  - apply filter_pass_iff in E. destruct E as [r ->]. rewrite slice_from_1_cons. simpl. discriminate.
  - discriminate.
  - exfalso. exact (filter_no_panic p E).
Qed.

Lemma moq_h3_found_panics : moq_h3_dispatch_found MConnect [] = Panic.
Proof. reflexivity. Qed.

(* on the inputs the repaired code lets through, it does what the code did before *)
Lemma moq_h3_fix_conservative m p :
  http_filter p = Ok true -> moq_h3_dispatch m p = moq_h3_dispatch_found m p.
Proof. intros E. unfold moq_h3_dispatch, moq_h3_dispatch_found. destruct m; try reflexivity. rewrite E. reflexivity. Qed.

Lemma h3_name_nonempty pn n : h3_name pn = H3Session n -> n <> [].
Proof.
  unfold h3_name.
  destruct (emp (if has_suffix s_moq_sfx pn && (len s_moq_sfx <? len pn) then trim_suffix s_moq_sfx pn else pn)) eqn:E;
    [discriminate|]. intros H. injection H as <-. apply emp_false. exact E.
Qed.

Lemma moq_h3_session_nonempty m p n : moq_h3_dispatch m p = Ok (H3Session n) -> n <> [].
Proof.
  unfold moq_h3_dispatch. destruct m; try discriminate.
  destruct (http_filter p) as [[|]|]; simpl; try discriminate.
  destruct (slice_from p 1) as [pn|]; simpl; [|discriminate].
  intros H. injection H as H. exact (h3_name_nonempty _ _ H).
Qed.

Lemma drop_while_head f s : match drop_while f s with [] => True | c :: _ => f c = false end.
Proof. induction s as [|c r IH]; simpl; [exact I|]. destruct (f c) eqn:E; [exact IH|exact E]. Qed.

Lemma trim_right47_last s c : trim_right47 s <> [] -> last (trim_right47 s) c <> 47.
Proof.
  unfold trim_right47. pose proof (drop_while_head is47 (rev s)) as H.
  destruct (drop_while is47 (rev s)) as [|x r]; [intros Hn; exfalso; apply Hn; reflexivity|]. intros _.
  simpl rev. rewrite last_last. unfold is47 in H. apply Z.eqb_neq in H. exact H.
Qed.

Lemma drop_while_suffix f s : exists a, s = a ++ drop_while f s.
Proof.
  induction s as [|c r IH]; simpl; [exists []; reflexivity|].
  destruct (f c); [|exists []; reflexivity]. destruct IH as [a Ha]. exists (c :: a). simpl. now f_equal.
Qed.

Lemma trim_right47_prefix s : exists b, s = trim_right47 s ++ b.
Proof.
  unfold trim_right47. destruct (drop_while_suffix is47 (rev s)) as [a Ha].
  exists (rev a). rewrite <- rev_app_distr, <- Ha. now rewrite rev_involutive.
Qed.

(* the name taken from the PATH option: not empty, no '/' at either end *)
Lemma moq_quic_name_ok u n :
  moq_quic_name u = Some n -> n <> [] /\ hd 0 n <> 47 /\ last n 0 <> 47.
Proof.
  unfold moq_quic_name, trim47. destruct (emp (trim_right47 (trim_left47 u))) eqn:E; [discriminate|].
  intros H. injection H as <-. apply emp_false in E. split; [exact E|]. split.
  - destruct (trim_right47_prefix (trim_left47 u)) as [b Hb].
    pose proof (drop_while_head is47 u) as Hh. fold (trim_left47 u) in Hh.
    destruct (trim_right47 (trim_left47 u)) as [|c r]; [congruence|].
    rewrite Hb in Hh. simpl in Hh. simpl. unfold is47 in Hh. apply Z.eqb_neq in Hh. exact Hh.
  - apply trim_right47_last. exact E.
Qed.

(* ---- RTSP, RTMP, API ------------------------------------------------------------------------------------------ *)

Lemma rtsp_name_no_panic p : rtsp_name p <> Panic.
Proof.
  unfold rtsp_name. destruct p as [|c r]; [discriminate|].
  rewrite len_cons. pose proof (len_nonneg r). replace (len r + 1 =? 0) with false by (symmetry; apply Z.eqb_neq; lia).
  rewrite idx_0_cons. simpl. destruct (negb (c =? 47)); [discriminate|].
  rewrite slice_from_1_cons. simpl. discriminate.
Qed.

Lemma rtsp_name_unguarded_panics : rtsp_name_unguarded [] = Panic.
Proof. reflexivity. Qed.

Lemma rtsp_name_spec p n : rtsp_name p = Ok (Some n) <-> p = 47 :: n.
Proof.
  unfold rtsp_name. destruct p as [|c r].
  - simpl. split; discriminate.
  - rewrite len_cons. pose proof (len_nonneg r). replace (len r + 1 =? 0) with false by (symmetry; apply Z.eqb_neq; lia).
    rewrite idx_0_cons. simpl. destruct (c =? 47) eqn:E; simpl.
    + apply Z.eqb_eq in E. subst c. rewrite slice_from_1_cons. simpl. split; intros H0; injection H0 as ->; reflexivity.
    + apply Z.eqb_neq in E. split; [discriminate|]. intros H0. injection H0 as -> _. congruence.
Qed.

(* RECORD re-slices the path of the ANNOUNCE that passed the guard *)
Lemma rtsp_record_after_announce p n : rtsp_name p = Ok (Some n) -> rtsp_record_name p = Ok n.
Proof. intros H. apply rtsp_name_spec in H. subst p. unfold rtsp_record_name. apply slice_from_1_cons. Qed.

Lemma rtsp_record_unguarded_panics : rtsp_record_name [] = Panic.
Proof. reflexivity. Qed.

Lemma rtmp_name_no_leading_slash u : hd 0 (rtmp_name u) <> 47.
Proof.
  unfold rtmp_name, trim_left47. pose proof (drop_while_head is47 u) as H.
  destruct (drop_while is47 u) as [|c r]; simpl; [lia|]. unfold is47 in H. apply Z.eqb_neq in H. exact H.
Qed.

Lemma param_name_no_panic s : param_name s <> Panic.
Proof.
  unfold param_name. destruct (len s <? 2) eqn:L; [discriminate|]. apply Z.ltb_ge in L.
  destruct s as [|c r]; [rewrite len_nil in L; lia|].
  rewrite idx_0_cons. simpl. destruct (negb (c =? 47)); [discriminate|].
  rewrite slice_from_1_cons. simpl. discriminate.
Qed.

Lemma param_name_nonempty s n : param_name s = Ok (Some n) -> n <> [] /\ s = 47 :: n.
Proof.
  unfold param_name. destruct (len s <? 2) eqn:L; [discriminate|]. apply Z.ltb_ge in L.
  destruct s as [|c r]; [rewrite len_nil in L; lia|].
  rewrite idx_0_cons. simpl. destruct (c =? 47) eqn:E; simpl; [|discriminate].
  rewrite slice_from_1_cons. simpl. intros H. injection H as <-. apply Z.eqb_eq in E. subst c.
  split; [|reflexivity]. rewrite len_cons in L. intros ->. rewrite len_nil in L. lia.
Qed.

(* ---- SRT ------------------------------------------------------------------------------------------------------- *)

Lemma srt_std_items_eq items : forall s, srt_std_items items s = Ok (std_items items s).
Proof.
  induction items as [|kv r IH]; intros s; [reflexivity|].
  cbn [srt_std_items std_items]. unfold split_n2.
  destruct (cut1 c_eq kv) as [[k v]|]; [|reflexivity].
  simpl.
  destruct (beqb k k_u); [apply IH|].
  destruct (beqb k k_r); [apply IH|].
  destruct (beqb k k_s); [apply IH|].
  destruct (beqb k k_m); [|apply IH].
  destruct (beqb v s_request); [apply IH|].
  destruct (beqb v s_publish); [apply IH|reflexivity].
Qed.

Lemma srt_std_item_unguarded_panics : srt_std_item_unguarded [120] = Panic.
Proof. reflexivity. Qed.

Lemma srt_legacy_eq raw : srt_legacy raw = Ok (unmarshal_legacy raw).
Proof.
  unfold srt_legacy, unmarshal_legacy.
  destruct (split_on c_colon raw) as [|a [|b [|c [|d [|e [|f rest]]]]]].
  - reflexivity.
  - reflexivity.
  - cbv - [trim_suffix legacy_action s_feedbackplay]. destruct (legacy_action a); reflexivity.
  - cbv - [trim_suffix legacy_action s_feedbackplay]. destruct (legacy_action a); reflexivity.
  - cbv - [trim_suffix legacy_action s_feedbackplay]. destruct (legacy_action a); reflexivity.
  - cbv - [trim_suffix legacy_action s_feedbackplay]. destruct (legacy_action a); reflexivity.
  - replace ((Z.of_nat (List.length (a :: b :: c :: d :: e :: f :: rest)) <? 2)
             || (5 <? Z.of_nat (List.length (a :: b :: c :: d :: e :: f :: rest)))) with true; [reflexivity|].
    symmetry. apply orb_true_iff. right. apply Z.ltb_lt. simpl List.length. lia.
Qed.

Lemma srt_unmarshal_eq raw : srt_unmarshal raw = Ok (stream_id_unmarshal raw).
Proof.
  unfold srt_unmarshal, stream_id_unmarshal, has_prefix.
  destruct (strip_prefix s_std_prefix raw) as [r|] eqn:E.
  - apply strip_prefix_app in E. subst raw. rewrite slice_from_app. cbn [bind]. apply srt_std_items_eq.
  - apply srt_legacy_eq.
Qed.

Lemma srt_unmarshal_no_panic raw : srt_unmarshal raw <> Panic.
Proof. rewrite srt_unmarshal_eq. discriminate. Qed.

(* ---- IsValidPathName -------------------------------------------------------------------------------------------- *)

Lemma is_valid_path_name_no_panic n : is_valid_path_name n <> Panic.
Proof.
  unfold is_valid_path_name. destruct n as [|c r]; [discriminate|]. simpl emp. cbv iota.
  rewrite idx_0_cons. cbn [bind]. destruct (c =? 47); [discriminate|].
  destruct (idx_ok (c :: r) (len (c :: r) - 1)) as [cl Hcl].
  { rewrite len_cons. pose proof (len_nonneg r). lia. }
  rewrite Hcl. cbn [bind]. destruct (cl =? 47); [discriminate|].
  destruct (negb (forallb path_char (c :: r))); [discriminate|].
  destruct (existsb _ _); discriminate.
Qed.

Lemma is_valid_path_name_unguarded_panics : is_valid_path_name_unguarded [] = Panic.
Proof. reflexivity. Qed.

Lemma idx_last s c : s <> [] -> idx s (len s - 1) = Ok (last s c).
Proof.
  intros Hs. unfold idx. pose proof (len_nonneg s).
  assert (0 < len s) as Hl. { destruct s; [congruence|]. rewrite len_cons. pose proof (len_nonneg s). lia. }
  replace ((0 <=? len s - 1) && (len s - 1 <? len s)) with true
    by (symmetry; rewrite andb_true_iff, Z.leb_le, Z.ltb_lt; lia).
  f_equal. destruct (exists_last Hs) as (s' & x & ->).
  rewrite last_last. rewrite len_app. change (len [x]) with 1.
  replace (len s' + 1 - 1) with (len s') by lia. unfold len. rewrite Nat2Z.id.
  rewrite app_nth2 by lia. now rewrite Nat.sub_diag.
Qed.

(* a name that passes: not empty, no '/' at either end, only characters of the class, no dot segment *)
Lemma is_valid_path_name_ok n :
  is_valid_path_name n = Ok None ->
  n <> [] /\ hd 0 n <> 47 /\ last n 0 <> 47 /\ forallb path_char n = true
  /\ existsb (fun g => is_dot g || is_dd g) (split47 n) = false.
Proof.
  unfold is_valid_path_name. destruct n as [|c r]; [discriminate|]. simpl emp. cbv iota.
  rewrite idx_0_cons. cbn [bind]. destruct (c =? 47) eqn:E0; [discriminate|].
  rewrite (idx_last (c :: r) 0) by discriminate. cbn [bind].
  destruct (last (c :: r) 0 =? 47) eqn:El; [discriminate|].
  destruct (forallb path_char (c :: r)) eqn:Ec; simpl negb; cbv iota; [|discriminate].
  destruct (existsb _ _) eqn:Ed; [discriminate|]. intros _.
  apply Z.eqb_neq in E0, El. repeat split; try assumption; discriminate.
Qed.

Lemma gate_no_panic n : gate n <> Panic.
Proof.
  unfold gate. pose proof (is_valid_path_name_no_panic n) as H.
  destruct (is_valid_path_name n); [discriminate|congruence].
Qed.

Lemma gate_true n : gate n = Ok true -> n <> [] /\ hd 0 n <> 47 /\ last n 0 <> 47 /\ forallb path_char n = true
  /\ existsb (fun g => is_dot g || is_dd g) (split47 n) = false.
Proof.
  unfold gate. destruct (is_valid_path_name n) as [[e|]|] eqn:E; simpl; try discriminate.
  intros _. apply is_valid_path_name_ok. exact E.
Qed.
