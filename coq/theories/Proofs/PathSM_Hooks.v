(* Path event loop: hook calls (EOpen / EClose) of every step, related to the state; C20. *)
From Coq Require Import List ZArith Bool Lia.
Require Import MTX.Lib.Trace MTX.Model.PathSM MTX.Proofs.PathSM MTX.Proofs.PathSM_Attach MTX.Proofs.PathSM_List.
Import ListNotations.
Local Open Scope Z_scope.

Definition is_hook (e : pevent) : bool := match e with EOpen _ | EClose _ => true | _ => false end.
Definition hev (l : list pevent) : list pevent := filter is_hook l.

Definition hk_eqb (a b : hk) : bool :=
  match a, b with HAvail, HAvail | HOnline, HOnline | HDemand, HDemand => true | _, _ => false end.
(* classification of the hook calls of pair k *)
Definition cls_call (k : hk) (e : pevent) : option bool :=
  match e with
  | EOpen k' => if hk_eqb k k' then Some true else None
  | EClose k' => if hk_eqb k k' then Some false else None
  | _ => None
  end.
(* is pair k open, according to the state *)
Definition open_of (k : hk) (s : pstate) : bool :=
  match k with
  | HAvail => is_some (s_stream s)
  | HOnline => s_hOffline s
  | HDemand => s_hUnDemand s
  end.

Lemma mon_hev k b l : mon_run (alt_mon (cls_call k)) b l = mon_run (alt_mon (cls_call k)) b (hev l).
Proof.
  revert b. induction l as [|e l IH]; intros b; [reflexivity|].
  cbn [hev filter]. destruct (is_hook e) eqn:E.
  - cbn [mon_run]. destruct (alt_mon (cls_call k) b e); [apply IH|reflexivity].
  - cbn [mon_run]. assert (Hn : cls_call k e = None) by (destruct e; try discriminate; reflexivity).
    unfold alt_mon at 1. rewrite Hn. apply IH.
Qed.

Lemma hev_app a b : hev (a ++ b) = hev a ++ hev b.
Proof. apply filter_app. Qed.
Lemma hev_map_closed l : hev (map EReaderClosed l) = [].
Proof. induction l; [reflexivity|exact IHl]. Qed.
Lemma hev_map_ans1 (f : Z -> ans) l : hev (map (fun q => EAnswer q (f q)) l) = [].
Proof. induction l; [reflexivity|exact IHl]. Qed.
Lemma hev_map_ans2 (f : Z * Z -> ans) l : hev (map (fun qr => EAnswer (fst qr) (f qr)) l) = [].
Proof. induction l; [reflexivity|exact IHl]. Qed.
Lemma hev_open_logs k cf : hev (open_logs k cf) = [].
Proof. unfold open_logs. destruct (h_start k cf); reflexivity. Qed.
Lemma hev_close_logs k cf : hev (close_logs k cf) = [].
Proof. unfold close_logs. destruct (h_start k cf), (h_un k cf); reflexivity. Qed.
Lemma hev_arp q r s : hev (snd (add_reader_post q r s)) = [].
Proof.
  unfold add_reader_post. destruct (mem r (s_readers s)); [reflexivity|].
  destruct (negb (c_maxr (s_conf s) =? 0) && (c_maxr (s_conf s) <=? Z.of_nat (length (s_readers s)))); reflexivity.
Qed.
Lemma hev_arps l : forall s, hev (snd (add_readers_post l s)) = [].
Proof.
  induction l as [|[q r] l IH]; intros s; [reflexivity|].
  cbn [add_readers_post]. rewrite snd_bind, hev_app, hev_arp, IH. reflexivity.
Qed.
Lemma hev_consume s : hev (snd (consume_on_hold s)) = [].
Proof.
  unfold consume_on_hold. rewrite !snd_bind, !hev_app, hev_arps. cbn [snd modify]. rewrite hev_map_ans1. reflexivity.
Qed.
Lemma hev_cons_hook e l : is_hook e = true -> hev (e :: l) = e :: hev l.
Proof. intros H. unfold hev. cbn [filter]. rewrite H. reflexivity. Qed.
Lemma hev_cons_other e l : is_hook e = false -> hev (e :: l) = hev l.
Proof. intros H. unfold hev. cbn [filter]. rewrite H. reflexivity. Qed.

Arguments hev : simpl never.
Arguments consume_on_hold : simpl never.

(* ---- closed forms of the hook calls of every handler -------------------------------------------- *)
Definition calls_offline (s : pstate) : list pevent := if s_hOffline s then [EClose HOnline] else [].
Definition calls_sna (s : pstate) : list pevent :=
  calls_offline s ++ (if s_hUnavail s then [EClose HAvail] else []).
Definition calls_sa (s : pstate) : list pevent :=
  EOpen HAvail :: (if aa s then [] else calls_offline s ++ [EOpen HOnline]).
(* the source is gone: the whole teardown, or only the online pair on an alwaysAvailable path *)
Definition calls_gone (s : pstate) : list pevent := if aa s then calls_offline s else calls_sna s.
(* a source attaches (a refused publisher calls nothing) *)
Definition calls_attach (ok : bool) (s : pstate) : list pevent :=
  if aa s then (if ok then calls_offline s ++ [EOpen HOnline] else []) else calls_sa s.
Definition calls_pub_stop (s : pstate) : list pevent := if s_hUnDemand s then [EClose HDemand] else [].
Definition calls_demand (s : pstate) : list pevent :=
  if od_static (s_conf s) then []
  else if od_pub (s_conf s) then (if ods_eqb (s_pubState s) OdInitial then [EOpen HDemand] else [])
  else [].

Lemma hevs_hook_open k s : hev (snd (hook_open k s)) = [EOpen k].
Proof. unfold hook_open. cbn [snd]. rewrite hev_cons_hook by reflexivity. rewrite hev_open_logs. reflexivity. Qed.
Lemma hevs_hook_close k s : hev (snd (hook_close k s)) = [EClose k].
Proof. unfold hook_close. cbn [snd]. rewrite hev_cons_hook by reflexivity. rewrite hev_close_logs. reflexivity. Qed.
Lemma hev_bind f g s : hev (snd ((f ;; g) s)) = hev (snd (f s)) ++ hev (snd (g (fst (f s)))).
Proof. rewrite snd_bind. apply hev_app. Qed.
Lemma hevs_modify f s : hev (snd (modify f s)) = [].
Proof. reflexivity. Qed.
Lemma hevs_set_offline s : hev (snd (set_offline s)) = calls_offline s.
Proof.
  unfold set_offline, calls_offline. destruct (s_hOffline s); [|reflexivity].
  rewrite hev_bind, hevs_hook_close. reflexivity.
Qed.
Lemma set_offline_fields s :
  s_hOffline (fst (set_offline s)) = false /\ s_hUnavail (fst (set_offline s)) = s_hUnavail s /\
  s_readers (fst (set_offline s)) = s_readers s /\ s_stream (fst (set_offline s)) = s_stream s.
Proof. unfold set_offline. destruct s. cbn. destruct s_hOffline; cbn; repeat split; reflexivity. Qed.
Lemma hevs_set_online s : hev (snd (set_online s)) = calls_offline s ++ [EOpen HOnline].
Proof.
  unfold set_online. rewrite !hev_bind, hevs_set_offline, hevs_hook_open, hevs_modify, app_nil_r. reflexivity.
Qed.
Lemma hevs_whenM c m s : hev (snd (whenM c m s)) = if c s then hev (snd (m s)) else [].
Proof. unfold whenM. destruct (c s); reflexivity. Qed.
Lemma hevs_set_available s : hev (snd (set_available s)) = calls_sa s.
Proof.
  unfold set_available. rewrite !hev_bind, hevs_modify, hevs_hook_open, hevs_modify, hevs_whenM, hevs_set_online.
  cbn [snd emit]. unfold calls_sa, calls_offline, not_aa, aa.
  destruct s as [[? ? ? ? ? ? ? ? ? ? a] ? ? ? ? ? ? ? ? ? ? ? ? ? ? ? ? ? h ?]. cbn. destruct a, h; reflexivity.
Qed.
Lemma hevs_call_unavailable s : hev (snd (call_unavailable s)) = if s_hUnavail s then [EClose HAvail] else [].
Proof. unfold call_unavailable. destruct (s_hUnavail s); [apply hevs_hook_close|reflexivity]. Qed.
Lemma hevs_sna s : hev (snd (set_not_available s)) = calls_sna s.
Proof.
  unfold set_not_available. rewrite !hev_bind, hevs_set_offline, hevs_call_unavailable, hevs_modify.
  cbn [snd emit fst]. rewrite hev_map_closed. unfold calls_sna.
  destruct (set_offline_fields s) as (_ & A & _). destruct (fst (set_offline s)) eqn:E. cbn in *. rewrite A.
  rewrite hev_cons_other by reflexivity. cbn. rewrite app_nil_r. reflexivity.
Qed.
Lemma hevs_source_gone s : hev (snd (source_gone s)) = calls_gone s.
Proof.
  unfold source_gone, calls_gone. destruct (aa s); [|apply hevs_sna].
  rewrite hev_bind, hevs_set_offline. unfold start_offline. rewrite hevs_modify. apply app_nil_r.
Qed.
Lemma hevs_erp s : hev (snd (execute_remove_publisher s)) = calls_gone s.
Proof. unfold execute_remove_publisher. rewrite hev_bind, hevs_source_gone, hevs_modify, app_nil_r. reflexivity. Qed.
Lemma hevs_handler_start s : hev (snd (handler_start s)) = [].
Proof. unfold handler_start, panic. destruct (s_ssRunning s); reflexivity. Qed.
Lemma hevs_handler_stop s : hev (snd (handler_stop s)) = [].
Proof. unfold handler_stop, panic. destruct (s_ssRunning s); reflexivity. Qed.
Lemma hevs_ss_start s : hev (snd (ss_start s)) = [].
Proof. unfold ss_start. rewrite hev_bind, hevs_handler_start. reflexivity. Qed.
Lemma hevs_ss_stop s : hev (snd (ss_stop s)) = [].
Proof. unfold ss_stop. rewrite !hev_bind, hevs_whenM, hevs_handler_stop. destruct (ods_eqb (s_ssState s) OdClosing); reflexivity. Qed.
Lemma hevs_pub_start s : hev (snd (pub_start s)) = [EOpen HDemand].
Proof. unfold pub_start. rewrite !hev_bind, hevs_hook_open. reflexivity. Qed.
Lemma hevs_pub_stop s : hev (snd (pub_stop s)) = calls_pub_stop s.
Proof.
  unfold pub_stop. rewrite !hev_bind, hevs_whenM, hevs_modify. unfold calls_pub_stop.
  set (s1 := fst (whenM (fun s0 => ods_eqb (s_pubState s0) OdClosing) (modify (set_pubCloseT false)) s)).
  assert (E : s_hUnDemand s1 = s_hUnDemand s).
  { unfold s1, whenM. destruct (ods_eqb (s_pubState s) OdClosing); [destruct s|]; reflexivity. }
  cbn beta. rewrite E. rewrite app_nil_r.
  replace (if ods_eqb (s_pubState s) OdClosing then [] else []) with (@nil pevent)
    by (destruct (ods_eqb (s_pubState s) OdClosing); reflexivity).
  destruct (s_hUnDemand s); [rewrite hev_bind, hevs_hook_close; reflexivity|reflexivity].
Qed.
Lemma hevs_fail_on_hold c s : hev (snd (fail_on_hold c s)) = [].
Proof. unfold fail_on_hold. cbn [snd]. rewrite hev_app, hev_map_ans1, hev_map_ans2. reflexivity. Qed.


(* ---- closed form of the hook calls of one operation -------------------------------------------- *)
Definition close_s3 (s : pstate) : pstate :=
  fst (close_source (fst (fail_on_hold E_TERMINATED (clear_timers s)))).
Definition close_calls (s : pstate) : list pevent :=
  (if s_hUnDemand (close_s3 s) then [EClose HDemand] else []) ++
  match s_stream (fst (close_demand (close_s3 s))) with
  | Some _ => calls_sna (fst (close_demand (close_s3 s)))
  | None => []
  end.

Definition hook_calls (fx : bool) (s : pstate) (o : pop) : list pevent :=
  if s_closed s then [] else
  match o with
  | Describe _ | AddReader _ _ => match s_stream s with Some _ => [] | None => calls_demand s end
  | RemoveReader _ | ReloadConf => []
  | AddPublisher _ _ ok =>
      if c_static (s_conf s) then [] else
      match s_source s with
      | Some _ => if negb (c_override (s_conf s)) then []
                  else calls_gone s ++ calls_attach ok (fst (execute_remove_publisher s))
      | None => calls_attach ok s
      end
  | RemovePublisher p =>
      match s_source s with
      | Some p0 =>
          if p0 =? p then
            calls_gone s ++
            (let s1 := fst (execute_remove_publisher s) in
             if fx && od_pub (s_conf s1) && negb (ods_eqb (s_pubState s1) OdInitial)
             then calls_pub_stop s1 else [])
          else []
      | None => []
      end
  | StaticReady _ => if s_ssRunning s && negb (s_instReady s) then calls_attach true s else []
  | StaticNotReady => if s_ssRunning s && s_instReady s then calls_gone s else []
  | TimerFire t =>
      if timer_armed t s then
        match t with
        | TSSReady => []
        | TSSClose => calls_sna (disarm t s)
        | TPubReady => calls_pub_stop (fst (fail_on_hold E_TIMEOUT (disarm t s)))
        | TPubClose => calls_pub_stop (disarm t s)
        end
      else []
  | Close => close_calls s
  end.

Lemma hevs_demand_hold (q : pstate -> pstate) s :
  hev (snd ((whenM (fun s => ods_eqb (s_pubState s) OdInitial) pub_start ;; modify q) s))
  = if ods_eqb (s_pubState s) OdInitial then [EOpen HDemand] else [].
Proof.
  rewrite hev_bind, hevs_whenM, hevs_modify, app_nil_r.
  destruct (ods_eqb (s_pubState s) OdInitial); [apply hevs_pub_start|reflexivity].
Qed.
Lemma hevs_static_hold (q : pstate -> pstate) s :
  hev (snd ((whenM (fun s => ods_eqb (s_ssState s) OdInitial) ss_start ;; modify q) s)) = [].
Proof.
  rewrite hev_bind, hevs_whenM, hevs_modify, app_nil_r.
  destruct (ods_eqb (s_ssState s) OdInitial); [apply hevs_ss_start|reflexivity].
Qed.

Lemma aa_set_sub x s : aa (set_sub x s) = aa s. Proof. destruct s; reflexivity. Qed.
Lemma aa_set_source x s : aa (set_source x s) = aa s. Proof. destruct s; reflexivity. Qed.
Lemma offline_set_sub x s : calls_offline (set_sub x s) = calls_offline s. Proof. destruct s; reflexivity. Qed.
Lemma offline_set_source x s : calls_offline (set_source x s) = calls_offline s. Proof. destruct s; reflexivity. Qed.

Lemma hevs_attach_tail q p s :
  hev (snd (attach_tail q p s)) = if aa s then calls_offline s ++ [EOpen HOnline] else [].
Proof.
  unfold attach_tail. rewrite !hev_bind, !hevs_modify, !hevs_whenM, hev_consume. cbn [snd fst modify app].
  rewrite hev_cons_other by reflexivity. rewrite aa_set_source, aa_set_sub, hevs_set_online, offline_set_source, offline_set_sub.
  match goal with |- context [if od_pub ?c && ?d then _ else _] => destruct (od_pub c && d) end;
    rewrite ?hev_bind, ?hevs_modify; cbn [app snd pub_schedule_close modify]; change (hev []) with (@nil pevent);
    rewrite ?app_nil_r; reflexivity.
Qed.

Lemma hevs_attach q p ok s : hev (snd (attach_publisher q p ok s)) = calls_attach ok s.
Proof.
  unfold attach_publisher, calls_attach. rewrite hev_bind, hevs_whenM. unfold not_aa at 1. fold (aa s).
  destruct (aa s) eqn:E; cbn [negb app].
  - unfold whenM, not_aa. unfold aa in E. rewrite E. cbn [negb fst]. fold (aa s). unfold aa. rewrite E. cbn [andb].
    destruct ok; cbn [negb]; [rewrite hevs_attach_tail; unfold aa; rewrite E; reflexivity|reflexivity].
  - rewrite hevs_set_available.
    assert (Ea : aa (fst (whenM not_aa set_available s)) = false).
    { unfold aa in *. rewrite conf_when_sa. exact E. }
    rewrite Ea. cbn [andb]. rewrite hevs_attach_tail, Ea. apply app_nil_r.
Qed.

Lemma hev_describe q s :
  hev (snd (do_describe q s)) = match s_stream s with Some _ => [] | None => calls_demand s end.
Proof.
  unfold do_describe, calls_demand. destruct (s_stream s); [reflexivity|].
  destruct (od_static (s_conf s)); [apply hevs_static_hold|].
  destruct (od_pub (s_conf s)); [apply hevs_demand_hold|reflexivity].
Qed.

Lemma hev_add_reader q r s :
  hev (snd (do_add_reader q r s)) = match s_stream s with Some _ => [] | None => calls_demand s end.
Proof.
  unfold do_add_reader, calls_demand. destruct (s_stream s); [apply hev_arp|].
  destruct (od_static (s_conf s)); [apply hevs_static_hold|].
  destruct (od_pub (s_conf s)); [apply hevs_demand_hold|reflexivity].
Qed.

Lemma hev_add_publisher q p ok s :
  hev (snd (do_add_publisher q p ok s)) =
  if c_static (s_conf s) then [] else
  match s_source s with
  | Some _ => if negb (c_override (s_conf s)) then []
              else calls_gone s ++ calls_attach ok (fst (execute_remove_publisher s))
  | None => calls_attach ok s
  end.
Proof.
  unfold do_add_publisher. destruct (c_static (s_conf s)); [reflexivity|].
  destruct (s_source s); [|apply hevs_attach].
  destruct (negb (c_override (s_conf s))); [reflexivity|].
  rewrite !hev_bind, hevs_erp, hevs_attach. reflexivity.
Qed.

Lemma hev_remove_publisher fx p s :
  hev (snd (do_remove_publisher fx p s)) =
  match s_source s with
  | Some p0 =>
      if p0 =? p then
        calls_gone s ++
        (let s1 := fst (execute_remove_publisher s) in
         if fx && od_pub (s_conf s1) && negb (ods_eqb (s_pubState s1) OdInitial)
         then calls_pub_stop s1 else [])
      else []
  | None => []
  end.
Proof.
  unfold do_remove_publisher. destruct (s_source s); [|reflexivity].
  destruct (z =? p); [|reflexivity].
  rewrite hev_bind, hevs_erp, hevs_whenM. cbn zeta.
  match goal with |- context [if ?c then _ else _] => destruct c end; [rewrite hevs_pub_stop|]; reflexivity.
Qed.

Lemma hev_remove_reader r s : hev (snd (do_remove_reader r s)) = [].
Proof.
  unfold do_remove_reader. rewrite hev_bind, !hevs_whenM.
  replace (if mem r (s_readers s) then hev (snd (modify (fun s0 => set_readers (remove_z r (s_readers s0)) s0) s)) else [])
    with (@nil pevent) by (destruct (mem r (s_readers s)); reflexivity).
  cbn [app].
  match goal with |- context [if ?c then _ else _] => destruct c end; [|reflexivity].
  match goal with |- context [fst ?x] => set (s1 := fst x) end.
  destruct (od_static (s_conf s1)); [rewrite hevs_whenM; destruct (ods_eqb (s_ssState s1) OdReady); reflexivity|].
  destruct (od_pub (s_conf s1)); [rewrite hevs_whenM; destruct (ods_eqb (s_pubState s1) OdReady); reflexivity|reflexivity].
Qed.

Lemma hev_static_ready q s :
  hev (snd (do_static_ready q s)) = if s_ssRunning s && negb (s_instReady s) then calls_attach true s else [].
Proof.
  unfold do_static_ready. destruct (s_ssRunning s && negb (s_instReady s)); [|reflexivity].
  rewrite hev_bind, hevs_whenM. set (s1 := fst (whenM not_aa set_available s)).
  assert (Et : hev (snd ((modify (set_sub SStatic);; whenM aa set_online;;
                whenM (fun s0 => od_static (s_conf s0)) (modify (set_ssReadyT false);; ss_schedule_close);;
                consume_on_hold;; modify (set_instReady true);;
                (fun s0 => (s0, [EAnswer q (AStream (cur_stream s0))]))) s1))
              = if aa s1 then calls_offline s1 ++ [EOpen HOnline] else []).
  { rewrite !hev_bind, !hevs_modify, !hevs_whenM, hev_consume. cbn [snd fst modify app].
    rewrite hev_cons_other by reflexivity. rewrite aa_set_sub, hevs_set_online, offline_set_sub.
    match goal with |- context [if od_static ?c then _ else _] => destruct (od_static c) end;
      rewrite ?hev_bind, ?hevs_modify; cbn [app snd ss_schedule_close modify]; change (hev []) with (@nil pevent);
      rewrite ?app_nil_r; reflexivity. }
  rewrite Et. unfold calls_attach, not_aa. fold (aa s).
  destruct (aa s) eqn:E; cbn [negb app].
  - unfold s1, whenM, not_aa. unfold aa in E. rewrite E. cbn [negb fst]. unfold aa. rewrite E. reflexivity.
  - rewrite hevs_set_available.
    assert (Ea : aa s1 = false) by (unfold s1, aa in *; rewrite conf_when_sa; exact E).
    rewrite Ea. apply app_nil_r.
Qed.

Lemma hev_static_not_ready s :
  hev (snd (do_static_not_ready s)) = if s_ssRunning s && s_instReady s then calls_gone s else [].
Proof.
  unfold do_static_not_ready. destruct (s_ssRunning s && s_instReady s); [|reflexivity].
  rewrite !hev_bind, hevs_source_gone, hevs_modify, hevs_whenM.
  match goal with |- context [if ?c then _ else _] => destruct c end;
    rewrite ?hevs_ss_stop; cbn; rewrite ?app_nil_r; reflexivity.
Qed.

Lemma hev_timer t s :
  hev (snd (do_timer t s)) =
  if timer_armed t s then
    match t with
    | TSSReady => []
    | TSSClose => calls_sna (disarm t s)
    | TPubReady => calls_pub_stop (fst (fail_on_hold E_TIMEOUT (disarm t s)))
    | TPubClose => calls_pub_stop (disarm t s)
    end
  else [].
Proof.
  unfold do_timer. destruct (timer_armed t s); [|reflexivity].
  rewrite !hev_bind, hevs_modify. cbn [snd emit app fst modify].
  rewrite hev_cons_other by reflexivity. change (hev []) with (@nil pevent). cbn [app].
  destruct t; rewrite ?hev_bind, ?hevs_fail_on_hold, ?hevs_ss_stop, ?hevs_sna, ?hevs_pub_stop; cbn [app]; rewrite ?app_nil_r; reflexivity.
Qed.

Lemma hevs_close_source s : hev (snd (close_source s)) = [].
Proof.
  unfold close_source. destruct (c_static (s_conf s)).
  - destruct (negb (c_sod (s_conf s)) || negb (ods_eqb (s_ssState s) OdInitial)); [apply hevs_handler_stop|reflexivity].
  - destruct (s_source s); reflexivity.
Qed.
Lemma hevs_close_demand s : hev (snd (close_demand s)) = if s_hUnDemand s then [EClose HDemand] else [].
Proof. unfold close_demand. destruct (s_hUnDemand s); [rewrite hev_bind, hevs_hook_close; reflexivity|reflexivity]. Qed.
Lemma hevs_close_stream s :
  hev (snd (close_stream s)) = match s_stream s with Some _ => calls_sna s | None => [] end.
Proof. unfold close_stream. destruct (s_stream s); [apply hevs_sna|reflexivity]. Qed.
Lemma hevs_emit e s : hev (snd (emit e s)) = hev e.
Proof. reflexivity. Qed.
Lemma fst_modify f s : fst (modify f s) = f s.
Proof. reflexivity. Qed.
Lemma fst_emit e s : fst (emit e s) = s.
Proof. reflexivity. Qed.

Lemma hev_close_tail (F : pstate -> pstate) s :
  hev (snd ((close_source ;; close_demand ;; close_stream ;; modify F) s)) =
  (if s_hUnDemand (fst (close_source s)) then [EClose HDemand] else []) ++
  match s_stream (fst (close_demand (fst (close_source s)))) with
  | Some _ => calls_sna (fst (close_demand (fst (close_source s))))
  | None => []
  end.
Proof.
  rewrite hev_bind, hevs_close_source. cbn [app].
  rewrite hev_bind, hevs_close_demand. f_equal.
  rewrite hev_bind, hevs_close_stream, hevs_modify. apply app_nil_r.
Qed.

Lemma hev_close s : hev (snd (do_close s)) = close_calls s.
Proof.
  unfold do_close, close_calls, close_s3.
  rewrite hev_bind. cbn [snd emit fst]. rewrite hev_cons_other by reflexivity. change (hev []) with (@nil pevent). cbn [app].
  rewrite hev_bind, hevs_modify. cbn [app fst modify].
  rewrite hev_bind, hevs_fail_on_hold. cbn [app].
  apply hev_close_tail.
Qed.

Lemma hev_step fx s o : hev (snd (step_gen fx s o)) = hook_calls fx s o.
Proof.
  destruct o; cbv beta iota delta [step_gen hook_calls]; destruct (s_closed s); try reflexivity.
  - apply hev_describe.
  - apply hev_add_publisher.
  - apply hev_remove_publisher.
  - apply hev_add_reader.
  - apply hev_remove_reader.
  - apply hev_static_ready.
  - apply hev_static_not_ready.
  - apply hev_timer.
  - apply hev_close.
Qed.

(* ---- the flags are not touched by the reader bookkeeping ------------------------------------------ *)
Lemma open_set_readers k x s : open_of k (set_readers x s) = open_of k s.
Proof. destruct s, k; reflexivity. Qed.
Lemma open_set_dhold k x s : open_of k (set_dhold x s) = open_of k s.
Proof. destruct s, k; reflexivity. Qed.
Lemma open_set_rhold k x s : open_of k (set_rhold x s) = open_of k s.
Proof. destruct s, k; reflexivity. Qed.
Lemma open_bump k s : open_of k (bump_on_demand s) = open_of k s.
Proof.
  destruct s as [cf ? ? ? ? ? ? ? sst ? ? ? ? pst ? ? ? ? ? ?]. unfold bump_on_demand. cbn.
  destruct (od_static cf); [destruct sst, k; reflexivity|].
  destruct (od_pub cf); [destruct pst, k; reflexivity|reflexivity].
Qed.
Lemma open_arp k q r s : open_of k (fst (add_reader_post q r s)) = open_of k s.
Proof. destruct (arp_cases q r s) as [E|E]; rewrite E; [reflexivity|]. rewrite open_bump, open_set_readers. reflexivity. Qed.
Lemma open_consume k s : open_of k (fst (consume_on_hold s)) = open_of k s.
Proof.
  destruct (consume_cases s) as [E|(rd' & _ & E)]; rewrite E.
  - rewrite open_set_rhold, open_set_dhold. reflexivity.
  - rewrite open_set_rhold, open_bump, open_set_readers, open_set_dhold. reflexivity.
Qed.
Lemma open_remove_reader k r s : open_of k (fst (do_remove_reader r s)) = open_of k s.
Proof.
  unfold do_remove_reader. rewrite fst_bind. unfold whenM at 2.
  set (s1 := fst (whenM (fun s0 => mem r (s_readers s0)) (modify (fun s0 => set_readers (remove_z r (s_readers s0)) s0)) s)).
  assert (E1 : open_of k s1 = open_of k s).
  { unfold s1, whenM. destruct (mem r (s_readers s)); [apply open_set_readers|reflexivity]. }
  rewrite <- E1. clearbody s1.
  destruct s1 as [cf ? ? ? ? rd ? ? sst ? ? ? ? pst ? ? ? ? ? ?]. cbn.
  destruct rd; [|reflexivity]. unfold whenM, ss_schedule_close, pub_schedule_close, modify. cbn.
  destruct (od_static cf); [destruct sst, k; reflexivity|].
  destruct (od_pub cf); [destruct pst, k; reflexivity|reflexivity].
Qed.

(* ---- every step's hook calls alternate, starting from the state's flags --------------------------- *)
Definition hooks_ok (fx : bool) (s : pstate) (o : pop) : Prop :=
  forall k, mon_run (alt_mon (cls_call k)) (open_of k s) (snd (step_gen fx s o))
            = Some (open_of k (fst (step_gen fx s o))).

Ltac red_hk :=
  lazy beta iota zeta delta [fst snd app
     hook_calls calls_offline calls_sna calls_sa calls_gone calls_attach calls_pub_stop calls_demand close_calls close_s3
     source_gone start_offline aa not_aa pre_tail
     mon_run alt_mon cls_call hk_eqb open_of
     step_gen do_describe do_add_reader do_remove_publisher do_static_not_ready do_timer do_close
     clear_timers close_source close_demand close_stream execute_remove_publisher pre_attach pre_static_ready
     set_not_available set_available set_online set_offline call_unavailable hook_open hook_close panic
     handler_start handler_stop ss_start ss_schedule_close ss_stop pub_start pub_schedule_close pub_stop
     bump_on_demand fail_on_hold whenM bindM modify emit ret timer_armed disarm cur_stream
     set_closed set_source set_stream set_nextgen set_readers set_dhold set_rhold set_ssState set_ssReadyT
     set_ssCloseT set_ssRunning set_instReady set_pubState set_pubReadyT set_pubCloseT set_hUnDemand
     set_hUnavail set_hOffline set_sub
     s_conf s_closed s_source s_stream s_nextgen s_readers s_dhold s_rhold s_ssState s_ssReadyT s_ssCloseT
     s_ssRunning s_instReady s_pubState s_pubReadyT s_pubCloseT s_hUnDemand s_hUnavail s_hOffline s_sub
     PathSM.c_static PathSM.c_sod PathSM.c_override PathSM.c_maxr PathSM.c_hAvail PathSM.c_hUnavail
     PathSM.c_hOnline PathSM.c_hOffline PathSM.c_hDemand PathSM.c_hUnDemand PathSM.c_aa
     od_static od_pub ods_eqb andb orb negb is_some].

Ltac hk_leaf k := destruct k; red_hk; try reflexivity.

Lemma hk_closed fx s o : s_closed s = true -> hooks_ok fx s o.
Proof.
  intros Hc k. rewrite mon_hev, hev_step. unfold hook_calls, step_gen. rewrite Hc. reflexivity.
Qed.

Ltac hk_start s H k :=
  intros H k; rewrite mon_hev, hev_step; start s;
  match goal with cl : bool |- _ => destruct cl; [destruct k; reflexivity|] end.

Lemma hk_describe fx s q : inv_b fx s = true -> hooks_ok fx s (Describe q).
Proof. hk_start s H k. enum H; hk_leaf k. Qed.

Lemma hk_static_not_ready fx s : inv_b fx s = true -> hooks_ok fx s StaticNotReady.
Proof. hk_start s H k. enum H; hk_leaf k. Qed.

Lemma hk_timer fx s t : inv_b fx s = true -> hooks_ok fx s (TimerFire t).
Proof. hk_start s H k. destruct t; enum H; hk_leaf k. Qed.

Lemma hk_close fx s : inv_b fx s = true -> hooks_ok fx s Close.
Proof. hk_start s H k. enum H; hk_leaf k. Qed.

Lemma hk_remove_publisher fx s p : inv_b fx s = true -> hooks_ok fx s (RemovePublisher p).
Proof.
  hk_start s H k.
  enum H; destruct k; red_hk; try reflexivity;
    repeat (match goal with |- context [Z.eqb ?a ?b] => destruct (Z.eqb a b) eqn:? end; red_hk); reflexivity.
Qed.

Lemma hk_remove_reader fx s r : inv_b fx s = true -> hooks_ok fx s (RemoveReader r).
Proof.
  intros H k. rewrite mon_hev, hev_step. unfold hook_calls, step_gen.
  destruct (s_closed s); [reflexivity|]. rewrite open_remove_reader. reflexivity.
Qed.

Lemma hk_reload fx s : hooks_ok fx s ReloadConf.
Proof. intros k. rewrite mon_hev, hev_step. unfold hook_calls, step_gen. destruct (s_closed s); reflexivity. Qed.

Lemma hk_add_reader fx s q r : inv_b fx s = true -> hooks_ok fx s (AddReader q r).
Proof.
  hk_start s H k.
  enum H; cbv beta iota delta [step_gen do_add_reader s_closed s_stream]; rewrite ?open_arp; hk_leaf k.
Qed.

Definition pre_attached (p : Z) (ok : bool) (s : pstate) : pstate :=
  if aa s && negb ok then s else fst (pre_attach p s).
Lemma open_attached k p ok s : open_of k (attached p ok s) = open_of k (pre_attached p ok s).
Proof. unfold attached, pre_attached. destruct (aa s && negb ok); [reflexivity|apply open_consume]. Qed.

Lemma hk_add_publisher fx s q p ok : inv_b fx s = true -> hooks_ok fx s (AddPublisher q p ok).
Proof.
  intros H k. rewrite mon_hev, hev_step.
  assert (E : open_of k (fst (step_gen fx s (AddPublisher q p ok))) =
              open_of k (if s_closed s then s else
                         if c_static (s_conf s) then s else
                         match s_source s with
                         | Some _ => if negb (c_override (s_conf s)) then s
                                     else pre_attached p ok (fst (execute_remove_publisher s))
                         | None => pre_attached p ok s
                         end)).
  { unfold step_gen. destruct (s_closed s); [reflexivity|]. rewrite fst_add_publisher.
    destruct (c_static (s_conf s)); [reflexivity|]. destruct (s_source s).
    - destruct (negb (c_override (s_conf s))); [reflexivity|apply open_attached].
    - apply open_attached. }
  rewrite E. clear E. unfold pre_attached. start s. destruct cl; [destruct k; reflexivity|]. destruct c_ov, ok.
  all: enum H; hk_leaf k.
Qed.

Lemma hk_static_ready fx s q : inv_b fx s = true -> hooks_ok fx s (StaticReady q).
Proof.
  intros H k. rewrite mon_hev, hev_step.
  assert (E : open_of k (fst (step_gen fx s (StaticReady q))) =
              open_of k (if s_closed s then s else
                         if s_ssRunning s && negb (s_instReady s)
                         then fst (pre_static_ready s) else s)).
  { unfold step_gen. destruct (s_closed s); [reflexivity|]. rewrite fst_static_ready.
    destruct (s_ssRunning s && negb (s_instReady s)); [|reflexivity].
    destruct k; (etransitivity; [|apply (open_consume _ (fst (pre_static_ready s)))]);
      destruct (fst (consume_on_hold (fst (pre_static_ready s)))); reflexivity. }
  rewrite E. clear E. start s. destruct cl; [destruct k; reflexivity|].
  enum H; hk_leaf k.
Qed.

Theorem hooks_step fx s o : inv_b fx s = true -> hooks_ok fx s o.
Proof.
  destruct o.
  - apply hk_describe.
  - apply hk_add_publisher.
  - apply hk_remove_publisher.
  - apply hk_add_reader.
  - apply hk_remove_reader.
  - apply hk_static_ready.
  - apply hk_static_not_ready.
  - apply hk_timer.
  - intros _. apply hk_reload.
  - apply hk_close.
Qed.
