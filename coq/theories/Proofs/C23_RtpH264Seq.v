(* Sequence numbers, SSRC and timestamps of the packets produced by the rtph264 encoder model. *)
From Coq Require Import List ZArith Bool Lia Arith.
Require Import MTX.Lib.IntWrap MTX.Model.C23_RtpH264 MTX.Proofs.C23_RtpH264.
Import ListNotations.
Local Open Scope Z_scope.

(* packets numbered s, s+1, ... with uint16 wrap-around *)
Fixpoint seq_chain (s : Z) (pkts : list packet) : Prop :=
  match pkts with
  | [] => True
  | p :: r => p.(p_seq) = s /\ seq_chain (wrapu16 (s + 1)) r
  end.

Fixpoint adv (s : Z) (n : nat) : Z :=
  match n with O => s | S k => adv (wrapu16 (s + 1)) k end.

Lemma adv_add s n m : adv s (n + m) = adv (adv s n) m.
Proof. revert s. induction n as [|n IH]; intros s; [reflexivity|]. cbn [Nat.add adv]. apply IH. Qed.

Lemma seq_chain_app s a b : seq_chain s (a ++ b) <-> seq_chain s a /\ seq_chain (adv s (length a)) b.
Proof.
  revert s. induction a as [|p a IH]; intros s; cbn [app seq_chain length adv].
  - tauto.
  - rewrite IH. tauto.
Qed.

Lemma adv_closed s n : 0 <= s < 65536 -> adv s n = (s + Z.of_nat n) mod 65536.
Proof.
  revert s. induction n as [|n IH]; intros s Hs.
  - cbn [adv]. rewrite Z.add_0_r, Z.mod_small; lia.
  - cbn [adv]. rewrite IH by (unfold wrapu16; apply Z.mod_pos_bound; lia).
    unfold wrapu16. rewrite Zplus_mod_idemp_l. f_equal. lia.
Qed.

Lemma seq_chain_nth s pkts : seq_chain s pkts ->
  forall i d, (i < length pkts)%nat -> p_seq (nth i pkts d) = adv s i.
Proof.
  revert s. induction pkts as [|p r IH]; intros s H i d Hi; [simpl in Hi; lia|].
  destruct H as [H1 H2]. destruct i as [|i]; [exact H1|].
  cbn [nth adv]. apply IH; [exact H2|simpl in Hi; lia].
Qed.

(* what one encoder call guarantees about the packets it returns *)
Definition enc_post (e : enc) (pkts : list packet) (e' : enc) : Prop :=
  seq_chain e.(e_seq) pkts /\ e'.(e_seq) = adv e.(e_seq) (length pkts)
  /\ Forall (fun p => p.(p_ssrc) = e.(e_ssrc) /\ p.(p_ts) = 0) pkts
  /\ e'.(e_max) = e.(e_max) /\ e'.(e_ssrc) = e.(e_ssrc).

Lemma enc_post_app e a e1 b e2 : enc_post e a e1 -> enc_post e1 b e2 -> enc_post e (a ++ b) e2.
Proof.
  intros (A1 & A2 & A3 & A4 & A5) (B1 & B2 & B3 & B4 & B5). unfold enc_post.
  rewrite seq_chain_app, app_length, adv_add, <- A2. repeat split; try assumption; try congruence.
  apply Forall_app. split; [exact A3|]. rewrite A5 in B3. exact B3.
Qed.

Lemma frag_loop_post k avail ind typ start marker body e :
  enc_post e (fst (frag_loop k avail ind typ start marker body e)) (snd (frag_loop k avail ind typ start marker body e))
  /\ length (fst (frag_loop k avail ind typ start marker body e)) = k.
Proof.
  revert start body e. induction k as [|k IH]; intros start body e.
  - cbn. unfold enc_post. cbn. repeat split; constructor.
  - cbn [frag_loop].
    match goal with |- context [frag_loop k ?a ?b ?c ?d ?m ?bd ?ee] =>
      specialize (IH d bd ee); destruct (frag_loop k a b c d m bd ee) as [r0 e1] end.
    cbn [fst snd] in *. destruct IH as [(A1 & A2 & A3 & A4 & A5) AL]. unfold enc_post. cbn [seq_chain length adv p_seq].
    cbn [bump e_seq e_max e_ssrc] in *. repeat split; try assumption; try congruence;
      try (constructor; [cbn; split; reflexivity|exact A3]); try (cbn [length]; congruence).
Qed.

Lemma write_batch_post e batch marker pkts e' :
  write_batch e batch marker = Ok (pkts, e') -> enc_post e pkts e'.
Proof.
  assert (Hone : forall m pl, enc_post e [mkpkt (e_seq e) 0 m (e_ssrc e) pl] (bump e)).
  { intros. unfold enc_post. cbn. repeat split; try reflexivity. constructor; [split; reflexivity|constructor]. }
  unfold write_batch. destruct batch as [|n [|n2 r]].
  - unfold write_aggregated. intros H. apply ok_inj, pair_equal_spec in H. destruct H; subst. apply Hone.
  - destruct (blen n <? e_max e).
    + unfold write_single. intros H. apply ok_inj, pair_equal_spec in H. destruct H; subst. apply Hone.
    + unfold write_fragmented. destruct (e_max e - 2 <=? 0); [discriminate|].
      destruct n as [|b body]; [discriminate|]. intros H. apply ok_inj in H.
      match type of H with frag_loop ?k ?a ?i ?t ?s ?m ?bd ?ee = _ =>
        pose proof (frag_loop_post k a i t s m bd ee) as [HP _] end.
      rewrite H in HP. exact HP.
  - unfold write_aggregated. intros H. apply ok_inj, pair_equal_spec in H. destruct H; subst. apply Hone.
Qed.

Lemma enc_loop_post : forall au e batch pkts e',
  enc_loop e au batch = Ok (pkts, e') -> enc_post e pkts e'.
Proof.
  induction au as [|nalu r IH]; intros e batch pkts e'.
  - cbn [enc_loop]. apply write_batch_post.
  - cbn [enc_loop]. match goal with |- context [if ?c then _ else _] => destruct c end.
    + apply IH.
    + destruct batch as [|b0 br]; [apply IH|].
      destruct (write_batch e (b0 :: br) false) as [[pk1 e1]|] eqn:E1; [|discriminate].
      destruct (enc_loop e1 r [nalu]) as [[pk2 e2]|] eqn:E2; [|discriminate].
      intros H. apply ok_inj, pair_equal_spec in H. destruct H; subst.
      eapply enc_post_app; [eapply write_batch_post; exact E1|eapply IH; exact E2].
Qed.

Theorem h264_encode_post e au pkts e' : h264_encode e au = Ok (pkts, e') -> enc_post e pkts e'.
Proof. apply enc_loop_post. Qed.

(* closed form *)
Theorem h264_encode_seq e au pkts e' :
  0 <= e.(e_seq) < 65536 -> h264_encode e au = Ok (pkts, e') ->
  (forall i d, (i < length pkts)%nat -> p_seq (nth i pkts d) = (e.(e_seq) + Z.of_nat i) mod 65536)
  /\ e'.(e_seq) = (e.(e_seq) + Z.of_nat (length pkts)) mod 65536
  /\ (forall p, In p pkts -> p.(p_ssrc) = e.(e_ssrc) /\ p.(p_ts) = 0).
Proof.
  intros Hs H. apply h264_encode_post in H. destruct H as (A1 & A2 & A3 & _ & _).
  split; [|split].
  - intros i d Hi. rewrite (seq_chain_nth _ _ A1 i d Hi). apply adv_closed. exact Hs.
  - rewrite A2. apply adv_closed. exact Hs.
  - rewrite Forall_forall in A3. exact A3.
Qed.

(* a whole sequence of access units: the packets of all units, in order, are numbered consecutively *)
Lemma h264_encode_run_post : forall aus e pkss e',
  h264_encode_run e aus = Ok (pkss, e') -> enc_post e (concat pkss) e'.
Proof.
  induction aus as [|au r IH]; intros e pkss e'.
  - cbn. intros H. apply ok_inj, pair_equal_spec in H. destruct H; subst. unfold enc_post. cbn.
    repeat split; constructor.
  - cbn [h264_encode_run].
    destruct (h264_encode e au) as [[pk1 e1]|] eqn:E1; [|discriminate].
    destruct (h264_encode_run e1 r) as [[rest e2]|] eqn:E2; [|discriminate].
    intros H. apply ok_inj, pair_equal_spec in H. destruct H; subst. cbn [concat].
    eapply enc_post_app; [eapply h264_encode_post; exact E1|eapply IH; exact E2].
Qed.

Theorem h264_encode_run_seq e aus pkss e' :
  0 <= e.(e_seq) < 65536 -> h264_encode_run e aus = Ok (pkss, e') ->
  forall i d, (i < length (concat pkss))%nat ->
    p_seq (nth i (concat pkss) d) = (e.(e_seq) + Z.of_nat i) mod 65536.
Proof.
  intros Hs H i d Hi. apply h264_encode_run_post in H. destruct H as (A1 & _).
  rewrite (seq_chain_nth _ _ A1 i d Hi). apply adv_closed. exact Hs.
Qed.
