(* Proofs for C07, part 2: the request dump does not depend on the values of redacted headers. *)
From Coq Require Import List ZArith Bool Lia.
Require Import MTX.Model.C07_Dump.
Import ListNotations.
Local Open Scope Z_scope.

Lemma beq_eq a : forall b, beq a b = true <-> a = b.
Proof.
  induction a as [|x a IH]; intros [|y b]; cbn [beq]; try (split; discriminate); [tauto|].
  rewrite andb_true_iff, Z.eqb_eq, IH. split; [intros [-> ->]; reflexivity|intros H; inversion H; auto].
Qed.

(* two header entries that a dump cannot tell apart: same key; same values, or - for a redacted key -
   the same number of values *)
Definition hrel (e e' : header) : Prop :=
  fst e = fst e' /\ (if is_redacted (fst e) then length (snd e) = length (snd e') else snd e = snd e').

Lemma hrel_refl e : hrel e e.
Proof. split; [reflexivity|]. destruct (is_redacted (fst e)); reflexivity. Qed.

Lemma ins_rel e e' : hrel e e' -> forall l l', Forall2 hrel l l' -> Forall2 hrel (ins e l) (ins e' l').
Proof.
  intros He l l' H. induction H as [|x x' r r' Hx Hr IH]; cbn [ins].
  - constructor; [exact He|constructor].
  - destruct He as [Hk Hv]. destruct Hx as [Hkx Hvx]. rewrite <- Hk, <- Hkx.
    destruct (key_le (fst e) (fst x)).
    + constructor; [split; assumption|]. constructor; [split; assumption|exact Hr].
    + constructor; [split; assumption|]. apply IH.
Qed.

Lemma sort_rel l l' : Forall2 hrel l l' -> Forall2 hrel (sort_hdr l) (sort_hdr l').
Proof.
  intros H. induction H as [|e e' r r' He Hr IH]; [constructor|].
  cbn [sort_hdr fold_right]. now apply ins_rel.
Qed.

Lemma flat_map_const {A B} (c : list B) (l l' : list A) : length l = length l' ->
  flat_map (fun _ => c) l = flat_map (fun _ => c) l'.
Proof.
  revert l'. induction l as [|x l IH]; intros [|y l'] H; cbn in *; try discriminate; [reflexivity|].
  f_equal. apply IH. lia.
Qed.

Lemma render_rel e e' : hrel e e' -> render e = render e'.
Proof.
  intros [Hk Hv]. unfold render. rewrite <- Hk. destruct (is_redacted (fst e)).
  - now apply flat_map_const.
  - now rewrite Hv.
Qed.

Lemma renders_rel l l' : Forall2 hrel l l' -> flat_map render l = flat_map render l'.
Proof.
  intros H. induction H as [|e e' r r' He Hr IH]; [reflexivity|]. cbn [flat_map]. now rewrite IH, (render_rel e e' He).
Qed.

(* the dump is a function of the request up to hrel on its headers *)
Theorem dump_hrel r h h' : Forall2 hrel h h' -> dump (with_hdr r h) = dump (with_hdr r h').
Proof.
  intros H. unfold dump. change (r_hdr (with_hdr r h)) with h. change (r_hdr (with_hdr r h')) with h'.
  change (r_body (with_hdr r h)) with (r_body r). change (r_body (with_hdr r h')) with (r_body r).
  change (r_bend (with_hdr r h)) with (r_bend r). change (r_bend (with_hdr r h')) with (r_bend r).
  change (dump_head (with_hdr r h)) with (dump_head r). change (dump_head (with_hdr r h')) with (dump_head r).
  now rewrite (renders_rel _ _ (sort_rel _ _ H)).
Qed.

Lemma Forall2_hrel_refl l : Forall2 hrel l l.
Proof. induction l; constructor; [apply hrel_refl|assumption]. Qed.

(* C07_dump_noninterference *)
Theorem dump_noninterference k v v' r : is_redacted k = true ->
  dump (set_header k v r) = dump (set_header k v' r).
Proof.
  intros Hk. unfold set_header.
  change (mkReq (r_method r) (r_requri r) (r_major r) (r_minor r) (r_host r)
            ((k, [v]) :: filter (fun e => negb (beq (fst e) k)) (r_hdr r)) (r_body r) (r_bend r))
    with (with_hdr r ((k, [v]) :: filter (fun e => negb (beq (fst e) k)) (r_hdr r))).
  change (mkReq (r_method r) (r_requri r) (r_major r) (r_minor r) (r_host r)
            ((k, [v']) :: filter (fun e => negb (beq (fst e) k)) (r_hdr r)) (r_body r) (r_bend r))
    with (with_hdr r ((k, [v']) :: filter (fun e => negb (beq (fst e) k)) (r_hdr r))).
  apply dump_hrel. constructor; [|apply Forall2_hrel_refl].
  split; [reflexivity|]. cbn [fst snd]. now rewrite Hk.
Qed.

(* any number of values: only their count shows *)
Theorem dump_values_hidden k vs vs' r rest : is_redacted k = true -> length vs = length vs' ->
  dump (with_hdr r ((k, vs) :: rest)) = dump (with_hdr r ((k, vs') :: rest)).
Proof.
  intros Hk Hl. apply dump_hrel. constructor; [|apply Forall2_hrel_refl].
  split; [reflexivity|]. cbn [fst snd]. now rewrite Hk.
Qed.

(* a header that is not in the set is dumped verbatim (so the set is what protects) *)
Theorem dump_shows_other k v r : body_fails r = false -> is_redacted k = false -> r_hdr r = [(k, [v])] ->
  dump r = dump_head r ++ (k ++ [58; 32] ++ v ++ crlf) ++ dump_tail r.
Proof.
  intros Hb Hk Hh. unfold dump, dump_tail. unfold body_fails in Hb.
  destruct (peek (r_body r) (r_bend r)) as [p|]; [|discriminate].
  rewrite Hh. cbn [sort_hdr fold_right ins flat_map]. unfold render. cbn [fst snd flat_map].
  rewrite Hk. now rewrite !app_nil_r.
Qed.

(* ------------------------------------------------------------------ the body reader *)

(* a request whose body cannot be read is not dumped at all: not its headers, not its request line *)
Theorem dump_failed_body r : body_fails r = true -> dump r = [].
Proof.
  unfold body_fails, dump. destruct (peek (r_body r) (r_bend r)); [discriminate|reflexivity].
Qed.

Theorem dump_readable_body r : body_fails r = false ->
  dump r = dump_head r ++ flat_map render (sort_hdr (r_hdr r)) ++ dump_tail r.
Proof.
  unfold body_fails, dump, dump_tail. destruct (peek (r_body r) (r_bend r)); [reflexivity|discriminate].
Qed.

(* which readers fail: a non-EOF error before max_body+1 bytes went through the LimitReader, or together
   with byte number max_body+1 *)
Theorem body_fails_iff r : body_fails r = true <->
  (r_bend r = EndErr /\ Z.of_nat (length (r_body r)) < peek_limit) \/
  (r_bend r = EndErrWithLast /\ Z.of_nat (length (r_body r)) <= peek_limit).
Proof.
  unfold body_fails, peek. destruct (r_bend r).
  - split; [discriminate|]. intros [[H _]|[H _]]; discriminate.
  - destruct (Z.ltb_spec (Z.of_nat (length (r_body r))) peek_limit) as [Hl|Hl].
    + split; [intros _; left; split; [reflexivity|exact Hl]|reflexivity].
    + split; [discriminate|]. intros [[_ H]|[H _]]; [lia|discriminate].
  - destruct (Z.leb_spec (Z.of_nat (length (r_body r))) peek_limit) as [Hl|Hl].
    + split; [intros _; right; split; [reflexivity|exact Hl]|reflexivity].
    + split; [discriminate|]. intros [[H _]|[_ H]]; [discriminate|lia].
Qed.

(* an error the body would return after the first max_body+1 bytes is never seen: the dump does not
   depend on how such a stream ends *)
Theorem dump_error_past_cap m u j n h hd b e e' : peek_limit < Z.of_nat (length b) ->
  dump (mkReq m u j n h hd b e) = dump (mkReq m u j n h hd b e').
Proof.
  intros Hl. unfold dump, dump_head. cbn [r_body r_bend r_hdr r_method r_requri r_major r_minor r_host].
  assert (Hp : forall x, peek b x = Some (firstn (Z.to_nat peek_limit) b)).
  { intros x. unfold peek. destruct x; [reflexivity| |].
    - destruct (Z.ltb_spec (Z.of_nat (length b)) peek_limit); [lia|reflexivity].
    - destruct (Z.leb_spec (Z.of_nat (length b)) peek_limit); [lia|reflexivity]. }
  now rewrite !Hp.
Qed.

(* the line handlerLogger writes for the request *)
Theorem log_noninterference addr k v v' r : is_redacted k = true ->
  log_request addr (set_header k v r) = log_request addr (set_header k v' r).
Proof. intros Hk. unfold log_request. now rewrite (dump_noninterference k v v' r Hk). Qed.

Theorem log_values_hidden addr k vs vs' r rest : is_redacted k = true -> length vs = length vs' ->
  log_request addr (with_hdr r ((k, vs) :: rest)) = log_request addr (with_hdr r ((k, vs') :: rest)).
Proof. intros Hk Hl. unfold log_request. now rewrite (dump_values_hidden k vs vs' r rest Hk Hl). Qed.

(* ------------------------------------------------------------------ header name canonicalisation *)

Definition cstep (u : bool) (c : Z) : Z :=
  if u && is_lower c then c - 32 else if negb u && is_upper c then c + 32 else c.

Lemma cstep_fold u c : cstep u c = cstep u (to_lower c).
Proof.
  unfold to_lower. destruct (is_upper c) eqn:E; [|reflexivity].
  assert (Hr : 65 <= c <= 90) by (unfold is_upper in E; lia).
  assert (L1 : is_lower c = false) by (unfold is_lower; lia).
  assert (L2 : is_lower (c + 32) = true) by (unfold is_lower; lia).
  assert (U2 : is_upper (c + 32) = false) by (unfold is_upper; lia).
  unfold cstep. rewrite L1, L2, U2, E. destruct u; cbn [andb negb]; lia.
Qed.

(* the canonical form only depends on the case-folded key *)
Lemma canon_aux_fold s : forall u, canon_aux u s = canon_aux u (map to_lower s).
Proof.
  induction s as [|c r IH]; intros u; [reflexivity|]. cbn [map canon_aux].
  fold (cstep u c). fold (cstep u (to_lower c)). rewrite <- cstep_fold. f_equal. apply IH.
Qed.

Lemma token_fold s : forallb token_byte (map to_lower s) = true -> forallb token_byte s = true.
Proof.
  induction s as [|c r IH]; [reflexivity|]. cbn [map forallb]. rewrite !andb_true_iff. intros [Hc Hr].
  split; [|now apply IH]. unfold to_lower, is_upper in Hc.
  destruct ((65 <=? c) && (c <=? 90)) eqn:E; [|exact Hc]. unfold token_byte, is_upper. rewrite E. now rewrite orb_true_r.
Qed.

(* whatever the case of the letters the client uses, a name of the redaction set reaches dumpRequest
   in the spelling the set contains *)
Theorem canon_case_insensitive raw k : In k redact_names -> map to_lower raw = map to_lower k -> canon_key raw = k.
Proof.
  intros Hin Hf. unfold canon_key.
  assert (Hk : forallb token_byte (map to_lower k) = true /\ canon_aux true (map to_lower k) = k).
  { unfold redact_names in Hin. cbn [In] in Hin.
    repeat (destruct Hin as [<-|Hin]; [split; vm_compute; reflexivity|]). contradiction. }
  destruct Hk as [Ht Hc]. rewrite token_fold by (now rewrite Hf). now rewrite canon_aux_fold, Hf.
Qed.
