(* Proofs about Model/C26_RecPath.v (Path.Encode / Path.Decode). *)
From Coq Require Import List ZArith Lia Bool ZifyBool Arith.
Require Import MTX.Lib.Civil MTX.Model.C26_RecPath.
Import ListNotations.
Local Open Scope Z_scope.

(* ---------------------------------------------------------------- tokens *)

Lemma tok_eqb_eq a b : tok_eqb a b = true <-> a = b.
Proof.
  destruct a, b; cbn; try (split; [discriminate|discriminate]); try (split; reflexivity).
  rewrite Z.eqb_eq. split; [intros ->; reflexivity | intros H; now inversion H].
Qed.

Lemma tok_eqb_refl a : tok_eqb a a = true.
Proof. now apply tok_eqb_eq. Qed.

Lemma has_in t ts : has t ts = true <-> In t ts.
Proof.
  unfold has. rewrite existsb_exists. split.
  - intros (x & Hx & He). apply tok_eqb_eq in He. now subst.
  - intros H. exists t. split; [exact H|apply tok_eqb_refl].
Qed.

(* ---------------------------------------------------------------- fixed-width decimal *)

Fixpoint pad (k : nat) (v : Z) : list Z :=
  match k with O => [] | S k' => pad k' (v / 10) ++ [48 + v mod 10] end.

Lemma pad_length k : forall v, length (pad k v) = k.
Proof. induction k as [|k IH]; intros v; cbn [pad]; [reflexivity|]. rewrite app_length, IH. cbn. lia. Qed.

Lemma pad_digits k : forall v, forallb is_digit (pad k v) = true.
Proof.
  induction k as [|k IH]; intros v; cbn [pad]; [reflexivity|].
  rewrite forallb_app, IH. cbn [forallb andb]. unfold is_digit.
  pose proof (Z.mod_pos_bound v 10 ltac:(lia)). lia.
Qed.

Lemma pad_zero k : pad k 0 = repeat 48 k.
Proof.
  induction k as [|k IH]; [reflexivity|]. cbn [pad]. change (0 / 10) with 0. rewrite IH.
  change (48 + 0 mod 10) with 48. clear IH. induction k as [|k IH]; [reflexivity|]. cbn. now rewrite IH.
Qed.

Lemma dec_val_app a c : dec_val (a ++ [c]) = dec_val a * 10 + (c - 48).
Proof. unfold dec_val. rewrite fold_left_app. reflexivity. Qed.

Lemma dec_val_pad k : forall v, 0 <= v < 10 ^ Z.of_nat k -> dec_val (pad k v) = v.
Proof.
  induction k as [|k IH]; intros v Hv.
  - cbn in *. unfold dec_val. cbn. lia.
  - cbn [pad]. rewrite dec_val_app. rewrite IH.
    + pose proof (Z.div_mod v 10 ltac:(lia)). lia.
    + rewrite Nat2Z.inj_succ, Z.pow_succ_r in Hv by lia.
      split; [apply Z.div_pos; lia | apply Z.div_lt_upper_bound; lia].
Qed.

(* FormatInt of a non-negative number below 10^k, left-padded to k, is pad k *)
Lemma fmt_fuel_pad k : forall fuel v, (k <= fuel)%nat -> (0 < k)%nat -> 0 <= v < 10 ^ Z.of_nat k ->
  (length (fmt_fuel fuel v) <= k)%nat /\
  repeat 48 (k - length (fmt_fuel fuel v)) ++ fmt_fuel fuel v = pad k v.
Proof.
  induction k as [|k IH]; intros fuel v Hf Hk Hv; [lia|].
  destruct fuel as [|fuel]; [lia|]. cbn [fmt_fuel pad].
  destruct (Z.ltb_spec v 10) as [Hlt|Hge].
  - cbn [length]. split; [lia|].
    replace (v / 10) with 0 by (symmetry; apply Z.div_small; lia).
    rewrite pad_zero. rewrite Z.mod_small by lia.
    replace (S k - 1)%nat with k by lia. reflexivity.
  - destruct k as [|k]; [cbn in Hv; lia|].
    assert (Hv' : 0 <= v / 10 < 10 ^ Z.of_nat (S k)).
    { rewrite (Nat2Z.inj_succ (S k)), Z.pow_succ_r in Hv by lia.
      split; [apply Z.div_pos; lia | apply Z.div_lt_upper_bound; lia]. }
    destruct (IH fuel (v / 10) ltac:(lia) ltac:(lia) Hv') as [Hl He].
    rewrite app_length. cbn [length]. split; [lia|].
    replace (S (S k) - (length (fmt_fuel fuel (v / 10)) + 1))%nat
      with (S k - length (fmt_fuel fuel (v / 10)))%nat by lia.
    rewrite app_assoc, He. reflexivity.
Qed.

Lemma format_int_nonneg v : 0 <= v -> format_int v = fmt_fuel 40 v.
Proof. intros H. unfold format_int. destruct (Z.ltb_spec v 0); [lia|reflexivity]. Qed.

Lemma leading_zeros_pad (k : nat) v : (0 < k <= 40)%nat -> 0 <= v < 10 ^ Z.of_nat k -> leading_zeros v k = pad k v.
Proof.
  intros Hk Hv. unfold leading_zeros. rewrite format_int_nonneg by lia.
  destruct (fmt_fuel_pad k 40 v ltac:(lia) ltac:(lia) Hv) as [Hl He].
  destruct (Nat.leb_spec k (length (fmt_fuel 40 v))) as [Hle|Hgt].
  - replace (k - length (fmt_fuel 40 v))%nat with O in He by lia. exact He.
  - exact He.
Qed.

(* a number with exactly k digits prints as pad k *)
Lemma format_int_pad (k : nat) v : (0 < k <= 40)%nat -> 10 ^ (Z.of_nat k - 1) <= v < 10 ^ Z.of_nat k -> format_int v = pad k v.
Proof.
  intros Hk Hv.
  assert (H0 : 0 < 10 ^ (Z.of_nat k - 1)) by (apply Z.pow_pos_nonneg; lia).
  rewrite format_int_nonneg by lia.
  destruct (fmt_fuel_pad k 40 v ltac:(lia) ltac:(lia) ltac:(lia)) as [Hl He].
  (* the printed length cannot be below k: otherwise v < 10^(k-1) *)
  destruct (Nat.eq_dec (length (fmt_fuel 40 v)) k) as [Heq|Hne].
  - rewrite Heq, Nat.sub_diag in He. exact He.
  - exfalso.
    assert (Hlt : (length (fmt_fuel 40 v) < k)%nat) by lia.
    (* pad k v starts with '0', so its value is below 10^(k-1) *)
    destruct k as [|k]; [lia|].
    assert (Hd : dec_val (pad (S k) v) = v) by (apply dec_val_pad; lia).
    rewrite <- He in Hd.
    remember (fmt_fuel 40 v) as o eqn:Ho.
    assert (Hz : forall (n : nat) (l : list Z), dec_val (repeat 48 n ++ l) = dec_val l).
    { intros n l. unfold dec_val. rewrite fold_left_app. f_equal.
      induction n as [|n IHn]; [reflexivity|]. cbn. exact IHn. }
    rewrite Hz in Hd.
    (* o = pad (length o) v' ... use the bound dec_val o < 10^(length o) *)
    assert (Hb : forall l : list Z, forallb is_digit l = true -> 0 <= dec_val l < 10 ^ Z.of_nat (length l)).
    { intros l. induction l as [|c l IHl] using rev_ind; intros Hdg.
      - unfold dec_val. cbn. lia.
      - rewrite forallb_app in Hdg. apply andb_true_iff in Hdg. destruct Hdg as [Hd1 Hd2].
        cbn in Hd2. unfold is_digit in Hd2. rewrite dec_val_app, app_length. cbn [length].
        rewrite Nat2Z.inj_add. change (Z.of_nat 1) with 1. rewrite Z.pow_add_r by lia.
        specialize (IHl Hd1). lia. }
    assert (Hdo : forallb is_digit o = true).
    { pose proof (pad_digits (S k) v) as Hp. rewrite <- He, forallb_app in Hp.
      apply andb_true_iff in Hp. exact (proj2 Hp). }
    specialize (Hb o Hdo). rewrite Hd in Hb.
    assert (10 ^ Z.of_nat (length o) <= 10 ^ (Z.of_nat (S k) - 1)) by (apply Z.pow_le_mono_r; lia).
    lia.
Qed.

(* ---------------------------------------------------------------- take_digits / take_zone *)

Lemma take_digits_app d : forall rest, forallb is_digit d = true -> take_digits (length d) (d ++ rest) = Some (d, rest).
Proof.
  induction d as [|c d IH]; intros rest Hd; [reflexivity|].
  cbn in Hd. apply andb_true_iff in Hd. destruct Hd as [Hc Hd].
  cbn [length take_digits app]. rewrite Hc, IH by exact Hd. reflexivity.
Qed.

Lemma take_digits_some n : forall s d rest, take_digits n s = Some (d, rest) ->
  s = d ++ rest /\ length d = n /\ forallb is_digit d = true.
Proof.
  induction n as [|n IH]; intros s d rest H; cbn in H.
  - inversion H; subst. repeat split.
  - destruct s as [|c r]; [discriminate|]. destruct (is_digit c) eqn:Hc; [|discriminate].
    destruct (take_digits n r) as [[d' rest']|] eqn:Ht; [|discriminate]. inversion H; subst.
    destruct (IH _ _ _ Ht) as (-> & Hl & Hd). cbn. rewrite Hc, Hd, Hl. repeat split.
Qed.

Lemma take_zone_some s z rest : take_zone s = Some (z, rest) -> s = z ++ rest /\ cap_shape (Tz, z) = true.
Proof.
  unfold take_zone. destruct s as [|c r]; [discriminate|].
  destruct (Z.eqb_spec c 90) as [->|Hne].
  - intros H; inversion H; subst. split; reflexivity.
  - destruct ((c =? 43) || (c =? 45)) eqn:Hs; [|discriminate].
    destruct (take_digits 4 r) as [[d rest']|] eqn:Ht; [|discriminate].
    intros H; inversion H; subst. destruct (take_digits_some _ _ _ _ Ht) as (-> & Hl & Hd).
    split; [reflexivity|]. unfold cap_shape. cbn [fst snd].
    destruct d as [|d0 d]; [discriminate|]. rewrite Hs, Hd, Hl. reflexivity.
Qed.

(* ---------------------------------------------------------------- the texts Encode writes *)

(* numeric value behind a digit placeholder *)
Definition tok_val (t : instant) (k : tok) : Z :=
  let c := civil_of_unix (i_unix t) (i_off t) in
  match k with
  | TY => c_year c | Tmo => c_month c | Td => c_day c | TH => c_hour c | TMi => c_min c | TS => c_sec c
  | Tf => i_ns t / 1000 | Ts => i_unix t | _ => 0
  end.

Definition digit_tok (k : tok) : bool :=
  match k with TY | Tmo | Td | TH | TMi | TS | Tf | Ts => true | _ => false end.

Lemma enc_ranges_parts ts t : enc_ranges ts t = true ->
  0 <= i_ns t < 1000000000 /\
  (has TY ts = true -> 1000 <= c_year (civil_of_unix (i_unix t) (i_off t)) <= 9999) /\
  (has Ts ts = true -> 1000000000 <= i_unix t < 10000000000) /\
  (has Tz ts = true -> i_off t mod 60 = 0 /\ Z.abs (i_off t) < 360000).
Proof.
  unfold enc_ranges. repeat rewrite andb_true_iff. intros ((((H1 & H2) & H3) & H4) & H5).
  split; [lia|].
  split; [intros Hy; rewrite Hy in H3; cbn [negb orb] in H3; lia|].
  split; [intros Hs; rewrite Hs in H4; cbn [negb orb] in H4; lia|].
  intros Hz. rewrite Hz in H5. cbn [negb orb] in H5. lia.
Qed.

Lemma encodable_lz_parts L ts t : encodable_lz L ts t = true ->
  enc_ranges ts t = true /\
  (has Tz ts = false -> lz_at L (i_unix t) = i_off t /\
                        (has Ts ts = false -> lz_date L (i_unix t + i_off t) = i_off t)).
Proof.
  unfold encodable_lz. rewrite andb_true_iff. intros [Hr Hz]. split; [exact Hr|].
  intros Hf. rewrite Hf in Hz. cbn [orb] in Hz. apply andb_true_iff in Hz. destruct Hz as [Ha Hd].
  split; [lia|]. intros Hs. rewrite Hs in Hd. cbn [orb] in Hd. lia.
Qed.

(* the ranges alone are `encodable` in the fixed zone of the instant's own offset *)
Lemma enc_ranges_encodable ts t : enc_ranges ts t = true -> encodable (i_off t) ts t = true.
Proof.
  intros H. unfold encodable, encodable_lz. rewrite H. cbn [fixed_lz lz_at lz_date andb].
  rewrite Z.eqb_refl. cbn [andb]. destruct (has Tz ts); [reflexivity|]. cbn [orb]. apply orb_true_r.
Qed.

Lemma encodable_parts loff ts t : encodable loff ts t = true ->
  0 <= i_ns t < 1000000000 /\
  (has TY ts = true -> 1000 <= c_year (civil_of_unix (i_unix t) (i_off t)) <= 9999) /\
  (has Ts ts = true -> 1000000000 <= i_unix t < 10000000000) /\
  (has Tz ts = true -> i_off t mod 60 = 0 /\ Z.abs (i_off t) < 360000) /\
  (has Tz ts = false -> i_off t = loff).
Proof.
  intros He. destruct (encodable_lz_parts _ _ _ He) as [Hr Hz].
  destruct (enc_ranges_parts _ _ Hr) as (H1 & H2 & H3 & H4).
  split; [exact H1|]. split; [exact H2|]. split; [exact H3|]. split; [exact H4|].
  intros Hf. destruct (Hz Hf) as [Ha _]. cbn [fixed_lz lz_at] in Ha. now symmetry.
Qed.

Lemma digit_text loff ts p t k : encodable loff ts t = true -> In k ts -> digit_tok k = true ->
  tok_text p t k = pad (tok_width k) (tok_val t k) /\ 0 <= tok_val t k < 10 ^ Z.of_nat (tok_width k).
Proof.
  intros He Hin Hd. destruct (encodable_parts _ _ _ He) as (Hns & Hy & Hs & _ & _).
  pose proof (civil_of_unix_ranges (i_unix t) (i_off t)) as Hr. cbv zeta in Hr.
  apply has_in in Hin.
  unfold tok_text, tok_val. set (c := civil_of_unix (i_unix t) (i_off t)) in *.
  assert (E2 : 10 ^ Z.of_nat 2 = 100) by reflexivity.
  assert (E4 : 10 ^ Z.of_nat 4 = 10000) by reflexivity.
  assert (E6 : 10 ^ Z.of_nat 6 = 1000000) by reflexivity.
  assert (E10 : 10 ^ Z.of_nat 10 = 10000000000) by reflexivity.
  assert (E3 : 10 ^ (Z.of_nat 4 - 1) = 1000) by reflexivity.
  assert (E9 : 10 ^ (Z.of_nat 10 - 1) = 1000000000) by reflexivity.
  destruct k; try discriminate; cbn [tok_width].
  - specialize (Hy Hin). rewrite E4. split; [apply (format_int_pad 4); [lia|rewrite E3, E4; lia] | lia].
  - rewrite E2. split; [apply (leading_zeros_pad 2); [lia|rewrite E2; lia] | lia].
  - rewrite E2. split; [apply (leading_zeros_pad 2); [lia|rewrite E2; lia] | lia].
  - rewrite E2. split; [apply (leading_zeros_pad 2); [lia|rewrite E2; lia] | lia].
  - rewrite E2. split; [apply (leading_zeros_pad 2); [lia|rewrite E2; lia] | lia].
  - rewrite E2. split; [apply (leading_zeros_pad 2); [lia|rewrite E2; lia] | lia].
  - assert (0 <= i_ns t / 1000 < 1000000)
      by (split; [apply Z.div_pos; lia | apply Z.div_lt_upper_bound; lia]).
    rewrite E6. split; [apply (leading_zeros_pad 6); [lia|rewrite E6; lia] | lia].
  - specialize (Hs Hin). rewrite E10. split; [apply (format_int_pad 10); [lia|rewrite E9, E10; lia] | lia].
Qed.

Lemma firstn_app_exact {A} (l r : list A) n : length l = n -> firstn n (l ++ r) = l.
Proof. intros <-. rewrite firstn_app, Nat.sub_diag, firstn_O, app_nil_r. apply firstn_all. Qed.

Lemma skipn_app_exact {A} (l r : list A) n : length l = n -> skipn n (l ++ r) = r.
Proof. intros <-. rewrite skipn_app, Nat.sub_diag, skipn_all. reflexivity. Qed.

Lemma zone_text_shape off : Z.abs off < 360000 ->
  zone_text off = [90] /\ off = 0 \/
  off <> 0 /\ zone_text off = (if 0 <? off then 43 else 45) :: pad 2 (Z.abs off / 60 / 60) ++ pad 2 ((Z.abs off / 60) mod 60).
Proof.
  intros Hb. unfold zone_text. destruct (Z.eqb_spec off 0) as [->|Hne]; [left; split; reflexivity|right].
  split; [exact Hne|].
  assert (0 <= Z.abs off / 60 / 60 < 100).
  { rewrite Z.div_div by lia. split; [apply Z.div_pos; lia | apply Z.div_lt_upper_bound; lia]. }
  pose proof (Z.mod_pos_bound (Z.abs off / 60) 60 ltac:(lia)).
  assert (E2 : 10 ^ Z.of_nat 2 = 100) by reflexivity.
  rewrite (leading_zeros_pad 2) by (rewrite ?E2; lia). rewrite (leading_zeros_pad 2) by (rewrite ?E2; lia). reflexivity.
Qed.

Lemma zone_take off s : Z.abs off < 360000 -> take_zone (zone_text off ++ s) = Some (zone_text off, s).
Proof.
  intros Hb. destruct (zone_text_shape off Hb) as [[-> _]|[Hne ->]]; [reflexivity|].
  cbn [app take_zone].
  assert (Hsg : ((if 0 <? off then 43 else 45) =? 90) = false) by (destruct (0 <? off); reflexivity).
  rewrite Hsg.
  assert (Hs2 : (((if 0 <? off then 43 else 45) =? 43) || ((if 0 <? off then 43 else 45) =? 45)) = true)
    by (destruct (0 <? off); reflexivity).
  rewrite Hs2.
  pose proof (take_digits_app (pad 2 (Z.abs off / 60 / 60) ++ pad 2 ((Z.abs off / 60) mod 60)) s) as Ht.
  rewrite app_length, !pad_length in Ht. cbn [Nat.add] in Ht. rewrite Ht; [reflexivity|].
  rewrite forallb_app, !pad_digits. reflexivity.
Qed.

Lemma zone_off_text off : Z.abs off < 360000 -> off mod 60 = 0 -> zone_off (zone_text off) = off.
Proof.
  intros Hb Hm. destruct (zone_text_shape off Hb) as [[-> ->]|[Hne ->]]; [reflexivity|].
  unfold zone_off.
  assert (Hsg : ((if 0 <? off then 43 else 45) =? 90) = false) by (destruct (0 <? off); reflexivity).
  rewrite Hsg.
  set (hh := Z.abs off / 60 / 60). set (mm := (Z.abs off / 60) mod 60).
  assert (Hh : 0 <= hh < 10 ^ Z.of_nat 2).
  { subst hh. rewrite Z.div_div by lia. cbn. split; [apply Z.div_pos; lia | apply Z.div_lt_upper_bound; lia]. }
  assert (Hmm : 0 <= mm < 10 ^ Z.of_nat 2) by (subst mm; pose proof (Z.mod_pos_bound (Z.abs off / 60) 60 ltac:(lia)); cbn; lia).
  rewrite (firstn_app_exact (pad 2 hh) (pad 2 mm) 2) by apply pad_length.
  rewrite (skipn_app_exact (pad 2 hh) (pad 2 mm) 2) by apply pad_length.
  rewrite (firstn_all2 (pad 2 mm)) by (rewrite pad_length; lia).
  rewrite !dec_val_pad by assumption.
  subst hh mm.
  pose proof (Z.div_mod (Z.abs off / 60) 60 ltac:(lia)) as H1. rewrite Z.div_div by lia.
  rewrite Z.div_div in H1 by lia. change (60 * 60) with 3600 in *.
  assert (Ha : Z.abs off mod 60 = 0).
  { destruct (Z.abs_spec off) as [[_ ->]|[_ ->]]; [exact Hm|].
    rewrite Z.mod_opp_l_z by lia. reflexivity. }
  pose proof (Z.div_mod (Z.abs off) 60 ltac:(lia)) as H2.
  destruct (Z.ltb_spec 0 off) as [Hp|Hn].
  - change (43 =? 43) with true. cbv iota. lia.
  - change (45 =? 43) with false. cbv iota. lia.
Qed.

(* ---------------------------------------------------------------- the matcher *)

Definition nonpath (ts : list tok) : bool := forallb (fun t => negb (tok_eqb t TPath)) ts.
Definition fixedw (ts : list tok) : bool := forallb (fun t => negb (tok_eqb t TPath) && negb (tok_eqb t Tz)) ts.
Definition twidth (t : tok) : nat := if is_lit t then 1%nat else tok_width t.
Fixpoint width (ts : list tok) : nat := match ts with [] => O | t :: r => (twidth t + width r)%nat end.

Lemma mtch_tok anch t K s : is_lit t = false -> t <> TPath ->
  mtch anch (t :: K) s =
  match take_tok t s with
  | Some (txt, r) => match mtch anch K r with Some caps => Some ((t, txt) :: caps) | None => None end
  | None => None
  end.
Proof. intros Hl Hp. destruct t; try reflexivity; [discriminate|contradiction]. Qed.

Lemma take_tok_digits t s : digit_tok t = true -> take_tok t s = take_digits (tok_width t) s.
Proof. destruct t; try discriminate; reflexivity. Qed.

Lemma fixedw_cons t K : fixedw (t :: K) = true ->
  fixedw K = true /\ (is_lit t = true \/ (digit_tok t = true /\ is_lit t = false /\ t <> TPath)).
Proof.
  unfold fixedw. cbn [forallb]. rewrite andb_true_iff. intros [Ht HK]. split; [exact HK|].
  destruct t; cbn in Ht; try discriminate; try (left; reflexivity); right; repeat split; discriminate.
Qed.

Lemma app_eq_len {A} (a b c d : list A) : a ++ b = c ++ d -> length a = length c -> a = c /\ b = d.
Proof.
  revert c. induction a as [|x a IH]; intros [|y c] H Hl; try discriminate; cbn in *.
  - split; [reflexivity|exact H].
  - inversion H; subst. destruct (IH c H2 ltac:(lia)) as [-> ->]. split; reflexivity.
Qed.

(* a run of fixed-width tokens consumes exactly its width *)
Lemma mtch_fixed_split A : forall K s caps, fixedw A = true -> mtch true (A ++ K) s = Some caps ->
  exists s1 s2 c2, s = s1 ++ s2 /\ length s1 = width A /\ mtch true K s2 = Some c2.
Proof.
  induction A as [|t A IH]; intros K s caps Hf H.
  - exists [], s, caps. repeat split. exact H.
  - destruct (fixedw_cons _ _ Hf) as [HfA Ht]. cbn [app] in H.
    destruct Ht as [Hlit|(Hd & Hnl & Hnp)].
    + destruct t; try discriminate. cbn [mtch] in H. destruct s as [|c' r]; [discriminate|].
      destruct (c' =? c); [|discriminate].
      destruct (IH _ _ _ HfA H) as (s1 & s2 & c2 & -> & Hl & Hm).
      exists (c' :: s1), s2, c2. repeat split; [cbn; now rewrite Hl|exact Hm].
    + rewrite mtch_tok in H by assumption. rewrite take_tok_digits in H by exact Hd.
      destruct (take_digits (tok_width t) s) as [[txt r]|] eqn:Ht; [|discriminate].
      destruct (mtch true (A ++ K) r) as [caps'|] eqn:Hm; [|discriminate].
      destruct (take_digits_some _ _ _ _ Ht) as (-> & Hl & _).
      destruct (IH _ _ _ HfA Hm) as (s1 & s2 & c2 & -> & Hl2 & Hm2).
      exists (txt ++ s1), s2, c2. repeat split; [now rewrite app_assoc| |exact Hm2].
      rewrite app_length, Hl, Hl2. cbn [width]. unfold twidth. rewrite Hnl. reflexivity.
Qed.

Lemma mtch_fixed_len K s caps : fixedw K = true -> mtch true K s = Some caps -> length s = width K.
Proof.
  intros Hf H. rewrite <- (app_nil_r K) in H.
  destruct (mtch_fixed_split K [] s caps Hf H) as (s1 & s2 & c2 & -> & Hl & Hm).
  cbn in Hm. destruct s2; [|discriminate]. now rewrite app_nil_r.
Qed.

(* the lazy group *)
Lemma lazy_ok m sR capsR : m sR = Some capsR -> forall u acc,
  forallb (fun c => negb (c =? 10)) u = true ->
  (forall u1 u2, u = u1 ++ u2 -> u2 <> [] -> m (u2 ++ sR) = None) ->
  lazy_path m acc (u ++ sR) = Some ((TPath, rev acc ++ u) :: capsR).
Proof.
  intros HR u. induction u as [|c u IH]; intros acc Hnl Hskip.
  - cbn [app]. destruct sR; cbn [lazy_path]; rewrite HR, app_nil_r; reflexivity.
  - pose proof (Hskip [] (c :: u) eq_refl ltac:(discriminate)) as H0. cbn [app] in H0.
    cbn [app lazy_path]. rewrite H0.
    cbn [forallb] in Hnl. apply andb_true_iff in Hnl. destruct Hnl as [Hc Hnl].
    destruct (c =? 10); [discriminate|].
    rewrite IH; [cbn [rev]; now rewrite <- app_assoc|exact Hnl|].
    intros u1 u2 -> Hne. apply (Hskip (c :: u1) u2 eq_refl Hne).
Qed.

(* captures Encode's output yields *)
Definition caps_of (p : list Z) (t : instant) (ts : list tok) : list (tok * list Z) :=
  map (fun k => (k, tok_text p t k)) (filter (fun k => negb (is_lit k)) ts).

Definition takeable (p : list Z) (t : instant) (ts : list tok) : Prop :=
  forall k, In k ts -> is_lit k = false -> k <> TPath ->
            forall s, take_tok k (tok_text p t k ++ s) = Some (tok_text p t k, s).

Lemma text_takeable loff ts p t : encodable loff ts t = true -> takeable p t ts.
Proof.
  intros He k Hin Hl Hp s.
  destruct (digit_tok k) eqn:Hd.
  - destruct (digit_text loff ts p t k He Hin Hd) as [-> _].
    rewrite take_tok_digits by exact Hd.
    rewrite <- (pad_length (tok_width k) (tok_val t k)) at 1.
    apply take_digits_app, pad_digits.
  - destruct k; try discriminate; try contradiction.
    cbn [take_tok tok_text]. apply zone_take.
    destruct (encodable_parts _ _ _ He) as (_ & _ & _ & Hz & _).
    apply has_in in Hin. exact (proj2 (Hz Hin)).
Qed.

Lemma takeable_app p t A B : takeable p t (A ++ B) -> takeable p t A /\ takeable p t B.
Proof. intros H. split; intros k Hin; apply H; apply in_or_app; [left|right]; exact Hin. Qed.

(* deterministic tokens match the text Encode wrote for them *)
Lemma mtch_run anch p t A : forall K s, nonpath A = true -> takeable p t A ->
  mtch anch (A ++ K) (render A p t ++ s) =
  match mtch anch K s with Some caps => Some (caps_of p t A ++ caps) | None => None end.
Proof.
  induction A as [|k A IH]; intros K s Hn Ht.
  - cbn. destruct (mtch anch K s); reflexivity.
  - unfold nonpath in Hn. cbn [forallb] in Hn. apply andb_true_iff in Hn. destruct Hn as [Hk Hn].
    assert (HtA : takeable p t A) by (intros k' Hin; apply Ht; right; exact Hin).
    unfold render. cbn [flat_map app]. fold (render A p t). rewrite <- app_assoc.
    destruct (is_lit k) eqn:Hl.
    + destruct k; try discriminate. cbn [tok_text app mtch]. rewrite Z.eqb_refl.
      rewrite (IH K s Hn HtA). unfold caps_of. cbn [filter is_lit negb]. reflexivity.
    + assert (Hp : k <> TPath) by (intros ->; discriminate).
      rewrite mtch_tok by assumption.
      rewrite (Ht k (or_introl eq_refl) Hl Hp).
      rewrite (IH K s Hn HtA). unfold caps_of. cbn [filter]. rewrite Hl. cbn [negb map app].
      destruct (mtch anch K s); reflexivity.
Qed.

(* length of a rendering of fixed-width tokens *)
Lemma render_fixed_len loff ts p t A : encodable loff ts t = true -> incl A ts -> fixedw A = true ->
  length (render A p t) = width A.
Proof.
  intros He. induction A as [|k A IH]; intros Hi Hf; [reflexivity|].
  destruct (fixedw_cons _ _ Hf) as [HfA Hk].
  unfold render. cbn [flat_map width]. fold (render A p t). rewrite app_length.
  rewrite IH by (try assumption; intros x Hx; apply Hi; right; exact Hx). f_equal.
  destruct Hk as [Hlit|(Hd & Hnl & _)].
  - destruct k; try discriminate. reflexivity.
  - destruct (digit_text loff ts p t k He (Hi k (or_introl eq_refl)) Hd) as [-> _].
    rewrite pad_length. unfold twidth. now rewrite Hnl.
Qed.

(* decomposition of the tokens after %path *)
Lemma rest_split R : nonpath R = true -> (count_tok Tz R <= 1)%nat ->
  fixedw R = true \/ exists A B, R = A ++ Tz :: B /\ fixedw A = true /\ fixedw B = true.
Proof.
  induction R as [|k R IH]; intros Hn Hc; [left; reflexivity|].
  unfold nonpath in Hn. cbn [forallb] in Hn. apply andb_true_iff in Hn. destruct Hn as [Hk Hn].
  cbn [count_tok] in Hc.
  destruct (tok_eqb k Tz) eqn:Hz.
  - apply tok_eqb_eq in Hz. subst k. right. exists [], R. repeat split.
    (* no further %z in R *)
    assert (Hc0 : count_tok Tz R = O) by lia.
    clear - Hn Hc0. induction R as [|k R IH]; [reflexivity|].
    unfold nonpath in Hn. cbn [forallb] in Hn. apply andb_true_iff in Hn. destruct Hn as [Hk Hn].
    cbn [count_tok] in Hc0. destruct (tok_eqb k Tz) eqn:Hz; [cbn in Hc0; lia|].
    unfold fixedw. cbn [forallb]. rewrite Hk, Hz. cbn [negb andb]. apply IH; [exact Hn|cbn in Hc0; lia].
  - destruct (IH Hn ltac:(cbn in Hc; lia)) as [Hf|(A & B & -> & HA & HB)].
    + left. unfold fixedw. cbn [forallb]. rewrite Hk, Hz. exact Hf.
    + right. exists (k :: A), B. repeat split; [|exact HB].
      unfold fixedw. cbn [forallb]. rewrite Hk, Hz. exact HA.
Qed.

Lemma last_digit_contra (u : list Z) d : length u = 4%nat -> forall sg, u ++ [90] = sg :: d -> forallb is_digit d = true -> False.
Proof.
  intros Hl sg He Hd. destruct u as [|x u]; [discriminate|]. cbn in He. inversion He; subst.
  rewrite forallb_app in Hd. apply andb_true_iff in Hd. destruct Hd as [_ Hd]. cbn in Hd. discriminate.
Qed.

(* the rest of the pattern cannot match before the whole path text has been consumed *)
Lemma rest_skip loff ts p t R u : encodable loff ts t = true -> incl R ts ->
  nonpath R = true -> (count_tok Tz R <= 1)%nat -> u <> [] ->
  mtch true R (u ++ render R p t) = None.
Proof.
  intros He Hi Hn Hc Hu.
  destruct (mtch true R (u ++ render R p t)) as [caps|] eqn:Hm; [exfalso|reflexivity].
  destruct (rest_split R Hn Hc) as [Hf|(A & B & -> & HA & HB)].
  - pose proof (mtch_fixed_len _ _ _ Hf Hm) as Hl. rewrite app_length in Hl.
    rewrite (render_fixed_len loff ts p t R He Hi Hf) in Hl. destruct u; [contradiction|cbn in Hl; lia].
  - assert (HiA : incl A ts) by (intros x Hx; apply Hi, in_or_app; left; exact Hx).
    assert (HiB : incl B ts) by (intros x Hx; apply Hi, in_or_app; right; right; exact Hx).
    assert (Hz : In Tz ts) by (apply Hi, in_or_app; right; left; reflexivity).
    destruct (mtch_fixed_split A (Tz :: B) _ _ HA Hm) as (s1 & s2 & c2 & Hs & Hl1 & Hm2).
    unfold render in Hs. rewrite flat_map_app in Hs. cbn [flat_map] in Hs.
    fold (render A p t) in Hs. fold (render B p t) in Hs. cbn [tok_text] in Hs.
    pose proof (render_fixed_len loff ts p t A He HiA HA) as HlA.
    pose proof (render_fixed_len loff ts p t B He HiB HB) as HlB.
    set (zt := zone_text (i_off t)) in *. set (rA := render A p t) in *. set (rB := render B p t) in *.
    (* s2 = u3 ++ zt ++ rB with |u3| = |u| *)
    assert (Hs2 : s2 = skipn (width A) (u ++ rA) ++ zt ++ rB).
    { assert (Hx : skipn (length s1) (s1 ++ s2) = s2) by (apply skipn_app_exact; reflexivity).
      rewrite <- Hs in Hx. rewrite <- Hx.
      replace (u ++ rA ++ zt ++ rB) with ((u ++ rA) ++ zt ++ rB) by now rewrite <- app_assoc.
      rewrite skipn_app, Hl1.
      replace (width A - length (u ++ rA))%nat with O by (rewrite app_length; lia). reflexivity. }
    set (u3 := skipn (width A) (u ++ rA)) in *.
    assert (Hl3 : length u3 = length u) by (subst u3; rewrite skipn_length, app_length; lia).
    rewrite mtch_tok in Hm2 by (try reflexivity; discriminate). cbn [take_tok] in Hm2.
    destruct (take_zone s2) as [[z r]|] eqn:Hz2; [|discriminate].
    destruct (mtch true B r) as [cB|] eqn:HmB; [|discriminate].
    pose proof (mtch_fixed_len _ _ _ HB HmB) as HlR.
    destruct (take_zone_some _ _ _ Hz2) as (Hs2' & Hsh).
    assert (Hlen : (length u3 + length zt + length rB = length z + length r)%nat).
    { rewrite <- !app_length, <- app_assoc, <- Hs2, Hs2'. reflexivity. }
    destruct (encodable_parts _ _ _ He) as (_ & _ & _ & Hzz & _).
    destruct (zone_text_shape (i_off t) (proj2 (Hzz (proj2 (has_in _ _) Hz)))) as [[Hzt _]|[_ Hzt]].
    + (* true zone text is "Z": z would have to be sign + 4 digits ending on that Z *)
      fold zt in Hzt. rewrite Hzt in *. cbn [length] in Hlen.
      unfold cap_shape in Hsh. cbn [fst snd] in Hsh.
      destruct z as [|sg d]; [discriminate|]. destruct d as [|d0 d].
      * cbn [length] in Hlen. destruct u; [contradiction|cbn in Hl3; lia].
      * repeat rewrite andb_true_iff in Hsh. destruct Hsh as ((_ & Hl4) & Hd).
        apply Nat.eqb_eq in Hl4.
        assert (H4 : length u3 = 4%nat) by (cbn [length] in *; lia).
        rewrite Hs2' in Hs2.
        replace (u3 ++ [90] ++ rB) with ((u3 ++ [90]) ++ rB) in Hs2 by now rewrite <- app_assoc.
        destruct (app_eq_len _ _ _ _ Hs2) as [Hzz2 _]; [rewrite app_length; cbn [length] in *; lia|].
        exact (last_digit_contra u3 (d0 :: d) H4 sg (eq_sym Hzz2) Hd).
    + (* true zone text has five bytes: every alternative leaves too much *)
      fold zt in Hzt.
      assert (Hl5 : length zt = 5%nat) by (rewrite Hzt; cbn [length]; rewrite app_length, !pad_length; reflexivity).
      assert (Hz5 : (length z <= 5)%nat).
      { unfold cap_shape in Hsh. cbn [fst snd] in Hsh. destruct z as [|sg d]; [discriminate|].
        destruct d as [|d0 d]; [cbn; lia|]. repeat rewrite andb_true_iff in Hsh.
        destruct Hsh as ((_ & Hl4) & _). apply Nat.eqb_eq in Hl4. cbn [length] in *. lia. }
      destruct u; [contradiction|cbn [length] in Hl3; lia].
Qed.

(* ---------------------------------------------------------------- the whole format *)

Lemma count_zero_nonpath ts : count_tok TPath ts = O -> nonpath ts = true.
Proof.
  induction ts as [|k ts IH]; intros H; [reflexivity|]. cbn [count_tok] in H.
  destruct (tok_eqb k TPath) eqn:Hk; [cbn in H; lia|].
  unfold nonpath. cbn [forallb]. rewrite Hk. apply IH. cbn in H. lia.
Qed.

Lemma path_split ts : count_tok TPath ts = 1%nat ->
  exists P R, ts = P ++ TPath :: R /\ nonpath P = true /\ nonpath R = true /\ after_path ts = R.
Proof.
  induction ts as [|k ts IH]; intros H; [discriminate|]. cbn [count_tok] in H.
  destruct (tok_eqb k TPath) eqn:Hk.
  - apply tok_eqb_eq in Hk. subst k. exists [], ts. repeat split.
    apply count_zero_nonpath. cbn in H. lia.
  - destruct (IH ltac:(cbn in H; lia)) as (P & R & -> & HP & HR & Ha).
    exists (k :: P), R. repeat split; try assumption.
    + unfold nonpath. cbn [forallb]. now rewrite Hk.
    + destruct k; try exact Ha. discriminate.
Qed.

Lemma caps_of_app p t A B : caps_of p t (A ++ B) = caps_of p t A ++ caps_of p t B.
Proof. unfold caps_of. now rewrite filter_app, map_app. Qed.

Lemma render_app A B p t : render (A ++ B) p t = render A p t ++ render B p t.
Proof. unfold render. apply flat_map_app. Qed.

Lemma name_ok_parts p : name_ok p = true ->
  forallb (fun c => negb (c =? 10)) p = true /\ forallb (fun c => negb (c =? 37)) p = true.
Proof.
  unfold name_ok. induction p as [|c p IH]; intros H; [split; reflexivity|].
  cbn [forallb] in *. repeat rewrite andb_true_iff in H. destruct H as [[H1 H2] H3].
  destruct (IH H3) as [Ha Hb]. rewrite H1, H2, Ha, Hb. split; reflexivity.
Qed.

Theorem mtch_render loff ts p t :
  (count_tok TPath ts = 1)%nat -> (count_tok Tz (after_path ts) <= 1)%nat ->
  forallb (fun c => negb (c =? 10)) p = true -> encodable loff ts t = true ->
  mtch true ts (render ts p t) = Some (caps_of p t ts).
Proof.
  intros Hc Hz Hp He.
  destruct (path_split ts Hc) as (P & R & Hts & HP & HR & Ha).
  rewrite Ha in Hz. pose proof (text_takeable loff ts p t He) as Htk.
  rewrite Hts in Htk. destruct (takeable_app _ _ _ _ Htk) as [HtP HtR'].
  assert (HtR : takeable p t R) by (intros k Hin; apply HtR'; right; exact Hin).
  assert (HiR : incl R ts) by (rewrite Hts; intros x Hx; apply in_or_app; right; right; exact Hx).
  rewrite Hts at 1 2. rewrite render_app. unfold render at 2. cbn [flat_map tok_text]. fold (render R p t).
  rewrite (mtch_run true p t P (TPath :: R) _ HP HtP). cbn [mtch].
  assert (HmR : mtch true R (render R p t) = Some (caps_of p t R)).
  { pose proof (mtch_run true p t R [] [] HR HtR) as H. cbn [mtch] in H. rewrite !app_nil_r in H. exact H. }
  rewrite (lazy_ok (mtch true R) (render R p t) (caps_of p t R) HmR p [] Hp).
  - rewrite Hts, caps_of_app. unfold caps_of at 4. cbn [filter is_lit negb map tok_text app]. reflexivity.
  - intros u1 u2 _ Hne. apply (rest_skip loff ts p t R u2 He HiR HR Hz Hne).
Qed.

(* ---------------------------------------------------------------- from captures to the start *)

Lemma find_rev_map_some (g : tok -> list Z) (k : tok) (M : list tok) : In k M ->
  find (fun c => tok_eqb (fst c) k) (rev (map (fun x => (x, g x)) M)) = Some (k, g k).
Proof.
  intros Hin.
  destruct (find (fun c => tok_eqb (fst c) k) (rev (map (fun x => (x, g x)) M))) as [[a b]|] eqn:Hf.
  - apply find_some in Hf. destruct Hf as [Hi He]. cbn [fst] in He. apply tok_eqb_eq in He. subst a.
    apply in_rev, in_map_iff in Hi. destruct Hi as (x & Hx & _). inversion Hx; subst. reflexivity.
  - exfalso. pose proof (find_none _ _ Hf (k, g k)) as Hn. cbn [fst] in Hn. rewrite tok_eqb_refl in Hn.
    assert (In (k, g k) (rev (map (fun x => (x, g x)) M))) by (apply -> in_rev; apply in_map_iff; exists k; auto).
    specialize (Hn H). discriminate.
Qed.

Lemma find_rev_map_none (g : tok -> list Z) (k : tok) (M : list tok) : ~ In k M ->
  find (fun c => tok_eqb (fst c) k) (rev (map (fun x => (x, g x)) M)) = None.
Proof.
  intros Hn.
  destruct (find (fun c => tok_eqb (fst c) k) (rev (map (fun x => (x, g x)) M))) as [[a b]|] eqn:Hf; [|reflexivity].
  apply find_some in Hf. destruct Hf as [Hi He]. cbn [fst] in He. apply tok_eqb_eq in He. subst a.
  apply in_rev, in_map_iff in Hi. destruct Hi as (x & Hx & Hix). inversion Hx; subst. contradiction.
Qed.

Lemma cap_of_caps p t ts k : is_lit k = false ->
  cap_of k (caps_of p t ts) = if has k ts then Some (tok_text p t k) else None.
Proof.
  intros Hl. unfold cap_of, caps_of.
  destruct (has k ts) eqn:Hh.
  - rewrite (find_rev_map_some (tok_text p t) k); [reflexivity|].
    apply filter_In. split; [now apply has_in|now rewrite Hl].
  - rewrite (find_rev_map_none (tok_text p t) k); [reflexivity|].
    intros Hin. apply filter_In in Hin. destruct Hin as [Hin _]. apply has_in in Hin. congruence.
Qed.

Lemma num_of_caps loff p t ts k dflt : encodable loff ts t = true -> digit_tok k = true ->
  num_of k (caps_of p t ts) dflt = if has k ts then tok_val t k else dflt.
Proof.
  intros He Hd. unfold num_of. rewrite cap_of_caps by (destruct k; try discriminate; reflexivity).
  destruct (has k ts) eqn:Hh; [|reflexivity].
  destruct (digit_text loff ts p t k He (proj1 (has_in _ _) Hh) Hd) as [-> Hr].
  apply dec_val_pad. exact Hr.
Qed.

Lemma date_unix_off y m d H Mi S o : date_unix y m d H Mi S o = date_unix y m d H Mi S 0 - o.
Proof. unfold date_unix. destruct (norm_month y m). lia. Qed.

Lemma civil_wall u off : let c := civil_of_unix u off in
  date_unix (c_year c) (c_month c) (c_day c) (c_hour c) (c_min c) (c_sec c) 0 = u + off.
Proof.
  cbv zeta. pose proof (civil_of_unix_date u off) as H. cbv zeta in H.
  rewrite date_unix_off in H. lia.
Qed.

(* what time.Date / time.Unix make of the captures of a name Encode wrote, `d` being the offset
   time.Date applies when the name carries no %z *)
Theorem decode_caps_of_gen d ts p t :
  identifies ts = true -> enc_ranges ts t = true ->
  decode_caps d (caps_of p t ts) =
  ((if has TPath ts then p else []),
   (if has Ts ts then i_unix t else i_unix t + i_off t - (if has Tz ts then i_off t else d)),
   snd (trunc_start ts t)).
Proof.
  intros Hid Hr. pose proof (enc_ranges_encodable _ _ Hr) as He.
  unfold decode_caps, trunc_start. cbn [fst snd]. cbv zeta.
  rewrite !(num_of_caps (i_off t)) by (try assumption; reflexivity).
  rewrite !cap_of_caps by reflexivity. cbn [tok_text tok_val].
  destruct (enc_ranges_parts _ _ Hr) as (Hns & Hy & Hs & Hz).
  assert (Hmic : (if has Tf ts then i_ns t / 1000 else 0) * 1000 = if has Tf ts then i_ns t / 1000 * 1000 else 0)
    by (destruct (has Tf ts); lia).
  rewrite Hmic.
  assert (Hpath : match (if has TPath ts then Some p else None) with Some p0 => p0 | None => [] end
                  = if has TPath ts then p else []) by (destruct (has TPath ts); reflexivity).
  rewrite Hpath.
  destruct (has Ts ts) eqn:Hts.
  - specialize (Hs eq_refl). destruct (Z.ltb_spec 0 (i_unix t)); [reflexivity|lia].
  - change (0 <? -1) with false. cbv iota.
    unfold identifies in Hid. rewrite Hts in Hid. cbn [orb] in Hid. unfold has_civil in Hid.
    repeat rewrite andb_true_iff in Hid. destruct Hid as (((((H1 & H2) & H3) & H4) & H5) & H6).
    rewrite H1, H2, H3, H4, H5, H6.
    assert (Hoff : (match (if has Tz ts then Some (zone_text (i_off t)) else None) with
                    | Some z => zone_off z | None => d end) = if has Tz ts then i_off t else d).
    { destruct (has Tz ts) eqn:Hhz; [|reflexivity].
      destruct (Hz eq_refl) as [Hm Hb]. apply zone_off_text; assumption. }
    rewrite Hoff. rewrite date_unix_off. rewrite (civil_wall (i_unix t) (i_off t)). reflexivity.
Qed.

Theorem decode_caps_of loff ts p t :
  has TPath ts = true -> identifies ts = true -> encodable loff ts t = true ->
  decode_caps loff (caps_of p t ts) = (p, fst (trunc_start ts t), snd (trunc_start ts t)).
Proof.
  intros Hp Hid He. destruct (encodable_lz_parts _ _ _ He) as [Hr Hz].
  rewrite (decode_caps_of_gen loff ts p t Hid Hr). rewrite Hp. unfold trunc_start. cbn [fst snd].
  destruct (has Ts ts); [reflexivity|].
  destruct (has Tz ts) eqn:Hhz; [f_equal; f_equal; lia|].
  destruct (Hz eq_refl) as [Ha _]. cbn [fixed_lz lz_at] in Ha. f_equal. f_equal. lia.
Qed.

(* the wall-clock reading handed to time.Date for such a name *)
Lemma caps_wall_of ts p t : has_civil ts = true -> enc_ranges ts t = true ->
  caps_wall (caps_of p t ts) = i_unix t + i_off t.
Proof.
  intros Hc Hr. pose proof (enc_ranges_encodable _ _ Hr) as He. unfold caps_wall.
  rewrite !(num_of_caps (i_off t)) by (try assumption; reflexivity).
  unfold has_civil in Hc. repeat rewrite andb_true_iff in Hc. destruct Hc as (((((H1 & H2) & H3) & H4) & H5) & H6).
  rewrite H1, H2, H3, H4, H5, H6. cbn [tok_val]. apply civil_wall.
Qed.

Lemma wf_toks_parts ts : wf_toks ts = true ->
  forallb (fun t => negb (tok_eqb t (TLit 37))) ts = true /\
  (count_tok TPath ts = 1)%nat /\ (count_tok Tz (after_path ts) <= 1)%nat.
Proof.
  unfold wf_toks. repeat rewrite andb_true_iff. intros [[H1 H2] H3].
  apply Nat.eqb_eq in H2. apply Nat.leb_le in H3. repeat split; assumption.
Qed.

Lemma count_pos_has k ts : (0 < count_tok k ts)%nat -> has k ts = true.
Proof.
  intros H. apply has_in. induction ts as [|x ts IH]; cbn [count_tok] in H; [lia|].
  destruct (tok_eqb x k) eqn:Hx.
  - apply tok_eqb_eq in Hx. left. exact Hx.
  - right. apply IH. cbn in H. lia.
Qed.

(* round trip on token lists: the name Encode writes (by tokens) is recognised with that path and start *)
Theorem roundtrip_toks loff ts p t :
  wf_toks ts = true -> name_ok p = true -> identifies ts = true -> encodable loff ts t = true ->
  decode_toks loff ts (render ts p t) = Some (p, fst (trunc_start ts t), snd (trunc_start ts t)).
Proof.
  intros Hwf Hp Hid He. destruct (wf_toks_parts _ Hwf) as (_ & Hc & Hz).
  unfold decode_toks. rewrite (mtch_render loff ts p t Hc Hz (proj1 (name_ok_parts p Hp)) He).
  rewrite (decode_caps_of loff ts p t); [reflexivity| |exact Hid|exact He].
  apply count_pos_has. lia.
Qed.

(* ---------------------------------------------------------------- Encode: sequential ReplaceAll = by tokens *)

Definition no37 (l : list Z) : Prop := Forall (fun c => c <> 37) l.

Lemma fmt_fuel_digits fuel : forall n, 0 <= n -> forallb is_digit (fmt_fuel fuel n) = true.
Proof.
  induction fuel as [|fuel IH]; intros n Hn; [reflexivity|]. cbn [fmt_fuel].
  destruct (Z.ltb_spec n 10).
  - cbn [forallb]. unfold is_digit. lia.
  - rewrite forallb_app, IH by (apply Z.div_pos; lia). cbn [forallb]. unfold is_digit.
    pose proof (Z.mod_pos_bound n 10 ltac:(lia)). lia.
Qed.

Lemma digits_no37 l : forallb is_digit l = true -> no37 l.
Proof.
  intros H. apply Forall_forall. intros c Hc. rewrite forallb_forall in H. specialize (H c Hc).
  unfold is_digit in H. lia.
Qed.

Lemma format_int_no37 n : no37 (format_int n).
Proof.
  unfold format_int. destruct (Z.ltb_spec n 0).
  - constructor; [lia|]. apply digits_no37, fmt_fuel_digits. lia.
  - apply digits_no37, fmt_fuel_digits. lia.
Qed.

Lemma leading_zeros_no37 v k : no37 (leading_zeros v k).
Proof.
  unfold leading_zeros. destruct (k <=? length (format_int v))%nat; [apply format_int_no37|].
  apply Forall_app. split; [|apply format_int_no37].
  apply Forall_forall. intros c Hc. apply repeat_spec in Hc. lia.
Qed.

Lemma zone_text_no37 off : no37 (zone_text off).
Proof.
  unfold zone_text. destruct (off =? 0); [constructor; [lia|constructor]|].
  constructor; [destruct (0 <? off); lia|]. apply Forall_app. split; apply leading_zeros_no37.
Qed.

Lemma tok_text_no37 p t k : no37 p -> k <> TLit 37 -> no37 (tok_text p t k).
Proof.
  intros Hp Hk. destruct k; cbn [tok_text];
    try apply leading_zeros_no37; try apply format_int_no37; try apply zone_text_no37; try exact Hp.
  constructor; [intros ->; now apply Hk|constructor].
Qed.

Inductive item := IX (l : list Z) | IT (t : tok).
Definition item_text (i : item) : list Z := match i with IX l => l | IT t => tok_src t end.
Definition flat (its : list item) : list Z := flat_map item_text its.
Definition item_ok (i : item) : Prop := match i with IX l => no37 l | IT t => is_lit t = false end.
Definition pass1 (k : tok) (rep : list Z) (i : item) : item :=
  match i with IT t => if tok_eqb t k then IX rep else IT t | IX l => IX l end.

Lemma prefixb_app a b : prefixb a (a ++ b) = true.
Proof. induction a as [|x a IH]; [reflexivity|]. cbn. now rewrite Z.eqb_refl, IH. Qed.

Lemma repl_skip pat rep l : forall s, repl pat rep (length l) (l ++ s) = repl pat rep 0 s.
Proof. induction l as [|x l IH]; intros s; [reflexivity|]. cbn [length app repl]. apply IH. Qed.

Lemma repl_hit pat rep s : pat <> [] -> repl pat rep 0 (pat ++ s) = rep ++ repl pat rep 0 s.
Proof.
  destruct pat as [|x pat]; [contradiction|]. intros _.
  change ((x :: pat) ++ s) with (x :: pat ++ s). cbn [repl].
  change (x :: pat ++ s) with ((x :: pat) ++ s). rewrite prefixb_app. cbn [length].
  replace (S (length pat) - 1)%nat with (length pat) by lia. rewrite repl_skip. reflexivity.
Qed.

Lemma repl_plain k rep l : is_lit k = false -> no37 l -> forall s,
  repl (tok_src k) rep 0 (l ++ s) = l ++ repl (tok_src k) rep 0 s.
Proof.
  intros Hk Hl s. induction Hl as [|c l Hc Hl IH]; [reflexivity|].
  cbn [app repl]. assert (Hp : prefixb (tok_src k) (c :: l ++ s) = false).
  { destruct k; try discriminate; cbn [tok_src prefixb]; destruct (Z.eqb_spec 37 c); try lia; reflexivity. }
  rewrite Hp, IH. reflexivity.
Qed.

Lemma tok_src_split t : is_lit t = false -> exists tl, tok_src t = 37 :: tl /\ no37 tl.
Proof.
  destruct t; try discriminate; intros _; eexists; (split; [reflexivity|]);
    repeat constructor; lia.
Qed.

Lemma prefixb_other k t s : is_lit k = false -> is_lit t = false -> tok_eqb t k = false ->
  prefixb (tok_src k) (tok_src t ++ s) = false.
Proof. destruct k, t; try discriminate; intros _ _ _; reflexivity. Qed.

Lemma repl_items k rep its : is_lit k = false -> Forall item_ok its ->
  repl (tok_src k) rep 0 (flat its) = flat (map (pass1 k rep) its).
Proof.
  intros Hk Hok. induction Hok as [|i its Hi Hok IH]; [reflexivity|].
  unfold flat. cbn [flat_map map]. fold (flat its). fold (flat (map (pass1 k rep) its)).
  destruct i as [l|t]; cbn [item_text pass1 item_ok] in *.
  - rewrite repl_plain by assumption. now rewrite IH.
  - destruct (tok_eqb t k) eqn:Htk.
    + apply tok_eqb_eq in Htk. subst t. cbn [item_text].
      rewrite repl_hit by (destruct k; discriminate). now rewrite IH.
    + cbn [item_text]. pose proof (prefixb_other k t (flat its) Hk Hi Htk) as Hp.
      destruct (tok_src_split t Hi) as (tl & Hsrc & Htl). rewrite Hsrc in *. cbn [app repl] in *.
      rewrite Hp. rewrite repl_plain by assumption. now rewrite IH.
Qed.

Lemma pass1_ok k rep i : no37 rep -> item_ok i -> item_ok (pass1 k rep i).
Proof. intros Hr Hi. destruct i as [l|t]; cbn [pass1]; [exact Hi|]. destruct (tok_eqb t k); [exact Hr|exact Hi]. Qed.

Definition items_of (ts : list tok) : list item := map (fun t => match t with TLit c => IX [c] | _ => IT t end) ts.

(* tokenize is a left inverse of writing the tokens out *)
Lemma tokenize_aux_skip : forall s n, tokenize_aux n s = tokenize_aux 0 (skipn n s).
Proof.
  induction s as [|c r IH]; intros n; [destruct n; reflexivity|].
  destruct n as [|n]; [reflexivity|]. cbn [tokenize_aux skipn]. apply IH.
Qed.

Lemma prefixb_split a : forall s, prefixb a s = true -> s = a ++ skipn (length a) s.
Proof.
  induction a as [|x a IH]; intros s H; [reflexivity|]. destruct s as [|y s]; [discriminate|].
  cbn in H. apply andb_true_iff in H. destruct H as [Hxy H]. apply Z.eqb_eq in Hxy. subst y.
  cbn. f_equal. apply IH, H.
Qed.

Lemma token_at_some s t : token_at s = Some t -> is_lit t = false /\ prefixb (tok_src t) s = true.
Proof.
  unfold token_at. intros H. apply find_some in H. destruct H as [Hin Hp]. split; [|exact Hp].
  unfold ptoks in Hin. cbn in Hin. intuition (subst; reflexivity).
Qed.

Lemma detokenize_len n : forall f, (length f <= n)%nat -> flat_map tok_src (tokenize f) = f.
Proof.
  induction n as [|n IH]; intros f Hl.
  - destruct f; [reflexivity|cbn in Hl; lia].
  - destruct f as [|c r]; [reflexivity|]. unfold tokenize. cbn [tokenize_aux].
    destruct (token_at (c :: r)) as [t|] eqn:Ht.
    + destruct (token_at_some _ _ Ht) as [Hnl Hp]. pose proof (prefixb_split _ _ Hp) as Hs.
      destruct (tok_src_split t Hnl) as (tl & Hsrc & _).
      rewrite tokenize_aux_skip. cbn [flat_map]. rewrite Hsrc in Hs. cbn [length app skipn] in Hs.
      inversion Hs as [[Hc Hr]]. rewrite Hsrc. cbn [length].
      replace (S (length tl) - 1)%nat with (length tl) by lia.
      fold (tokenize (skipn (length tl) r)). rewrite IH.
      * cbn [app]. congruence.
      * rewrite skipn_length. cbn in Hl. rewrite <- Hr. lia.
    + cbn [flat_map tok_src app]. fold (tokenize r). rewrite IH; [reflexivity|cbn in Hl; lia].
Qed.

Lemma detokenize f : flat_map tok_src (tokenize f) = f.
Proof. apply (detokenize_len (length f)). lia. Qed.

Lemma flat_items_of ts : flat (items_of ts) = flat_map tok_src ts.
Proof.
  induction ts as [|t ts IH]; [reflexivity|]. unfold flat, items_of in *. cbn [map flat_map].
  rewrite IH. destruct t; reflexivity.
Qed.

Lemma items_of_ok ts : forallb (fun t => negb (tok_eqb t (TLit 37))) ts = true -> Forall item_ok (items_of ts).
Proof.
  intros H. unfold items_of. apply Forall_forall. intros i Hi. apply in_map_iff in Hi.
  destruct Hi as (t & <- & Hin). rewrite forallb_forall in H. specialize (H t Hin).
  destruct t; try reflexivity. cbn [item_ok]. constructor; [|constructor].
  cbn in H. destruct (Z.eqb_spec c 37); [discriminate|assumption].
Qed.

Theorem encode_go_tokens f p t :
  forallb (fun k => negb (tok_eqb k (TLit 37))) (tokenize f) = true -> no37 p ->
  encode_go f p t = encode f p t.
Proof.
  intros Hf Hp. unfold encode_go, encode.
  pose proof (items_of_ok _ Hf) as Hok0. rewrite <- (detokenize f) at 1. rewrite <- flat_items_of.
  (* push the ten passes through *)
  assert (Hfold : forall ks its, Forall item_ok its -> Forall (fun k => is_lit k = false) ks ->
            fold_left (fun s k => repl (tok_src k) (tok_text p t k) 0 s) ks (flat its) =
            flat (fold_left (fun its k => map (pass1 k (tok_text p t k)) its) ks its)).
  { induction ks as [|k ks IHk]; intros its Hok Hks; [reflexivity|].
    inversion Hks as [|? ? Hk Hks']; subst. cbn [fold_left]. rewrite repl_items by assumption.
    apply IHk; [|exact Hks'].
    apply Forall_forall. intros i Hi. apply in_map_iff in Hi. destruct Hi as (j & <- & Hj).
    apply pass1_ok; [apply tok_text_no37; [exact Hp|destruct k; discriminate]|].
    rewrite Forall_forall in Hok. now apply Hok. }
  rewrite Hfold; [|exact Hok0|unfold ptoks; repeat constructor].
  (* item by item *)
  clear Hfold Hok0. unfold render. induction (tokenize f) as [|k ts IH]; [reflexivity|].
  cbn [forallb] in Hf. apply andb_true_iff in Hf. destruct Hf as [Hk Hf].
  assert (Hcons : forall ks i its, fold_left (fun its k => map (pass1 k (tok_text p t k)) its) ks (i :: its) =
            fold_left (fun i k => pass1 k (tok_text p t k) i) ks i ::
            fold_left (fun its k => map (pass1 k (tok_text p t k)) its) ks its).
  { induction ks as [|k' ks IHk]; intros i its; [reflexivity|]. cbn [fold_left map]. apply IHk. }
  unfold items_of in *. cbn [map]. rewrite Hcons. unfold flat in *. cbn [flat_map]. rewrite (IH Hf). f_equal.
  destruct k; reflexivity.
Qed.

Lemma name_ok_no37 p : name_ok p = true -> no37 p.
Proof.
  intros H. destruct (name_ok_parts p H) as [_ H37]. apply Forall_forall. intros c Hc.
  rewrite forallb_forall in H37. specialize (H37 c Hc). destruct (Z.eqb_spec c 37); [discriminate|assumption].
Qed.

Lemma valid_name_ok p : valid_name p = true -> name_ok p = true.
Proof.
  unfold valid_name, name_ok. rewrite andb_true_iff. intros [_ H]. rewrite forallb_forall in *.
  intros c Hc. specialize (H c Hc). unfold name_char, is_digit in H. lia.
Qed.

(* ---------------------------------------------------------------- the re-encode comparison *)

Lemma name_eqb_refl a : name_eqb a a = true.
Proof. induction a as [|x a IH]; cbn [name_eqb]; [reflexivity|]. now rewrite Z.eqb_refl, IH. Qed.

Lemma name_eqb_eq a : forall b, name_eqb a b = true -> a = b.
Proof.
  induction a as [|x a IH]; destruct b as [|y b]; cbn [name_eqb]; try discriminate; [reflexivity|].
  intros H. apply andb_true_iff in H. destruct H as [H1 H2]. apply Z.eqb_eq in H1. subst. f_equal. now apply IH.
Qed.

Lemma render_ext ts p t t' : (forall k, In k ts -> tok_text p t' k = tok_text p t k) ->
  render ts p t' = render ts p t.
Proof.
  unfold render. induction ts as [|k ts IH]; intros H; [reflexivity|]. cbn [flat_map].
  rewrite (H k (or_introl eq_refl)), IH; [reflexivity|]. intros k' Hk'. apply H. right. exact Hk'.
Qed.

(* Encode only looks at the wall-clock reading, the microseconds, the offset (for %z) and the Unix
   time (for %s) *)
Lemma tok_text_same ts p t t' :
  i_unix t' + i_off t' = i_unix t + i_off t ->
  (has Tf ts = true -> i_ns t' / 1000 = i_ns t / 1000) ->
  (has Tz ts = true -> i_off t' = i_off t) -> (has Ts ts = true -> i_unix t' = i_unix t) ->
  forall k, In k ts -> tok_text p t' k = tok_text p t k.
Proof.
  intros Hw Hf Hz Hs k Hin. apply has_in in Hin.
  assert (Hc : civil_of_unix (i_unix t') (i_off t') = civil_of_unix (i_unix t) (i_off t))
    by (unfold civil_of_unix; rewrite Hw; reflexivity).
  destruct k; cbn [tok_text]; rewrite ?Hc; try reflexivity.
  - now rewrite (Hf Hin).
  - now rewrite (Hz Hin).
  - now rewrite (Hs Hin).
Qed.

Lemma decode_lz_unfold L f p t :
  mtch true (tokenize f) (encode_go f p t) = Some (caps_of p t (tokenize f)) ->
  (has TPath (tokenize f) = false -> p = []) ->
  identifies (tokenize f) = true -> enc_ranges (tokenize f) t = true ->
  decode_lz L f (encode_go f p t) =
  let r := decoded_unix L (tokenize f) t in
  let n := snd (trunc_start (tokenize f) t) in
  let so := if has Tz (tokenize f) then i_off t else lz_at L r in
  if name_eqb (encode_go f p (mkI r n so)) (encode_go f p t) then Some (p, r, n) else None.
Proof.
  intros Hm Hnp Hid Hr. set (ts := tokenize f) in *.
  unfold decode_lz. fold ts. rewrite Hm. unfold decode_caps_lz.
  rewrite (decode_caps_of_gen _ ts p t Hid Hr).
  assert (P1 : (if has TPath ts then p else []) = p)
    by (destruct (has TPath ts) eqn:E; [reflexivity|symmetry; apply Hnp; reflexivity]).
  assert (Hu : (if has Ts ts then i_unix t
                else i_unix t + i_off t - (if has Tz ts then i_off t else lz_date L (caps_wall (caps_of p t ts))))
               = decoded_unix L ts t).
  { unfold decoded_unix. destruct (has Ts ts) eqn:Hs; [reflexivity|]. destruct (has Tz ts) eqn:Hz; [reflexivity|].
    rewrite (caps_wall_of ts p t); [reflexivity| |exact Hr].
    unfold identifies in Hid. rewrite Hs in Hid. exact Hid. }
  rewrite P1, Hu. cbv zeta.
  assert (Hso : start_off L (caps_of p t ts) (decoded_unix L ts t)
                = if has Tz ts then i_off t else lz_at L (decoded_unix L ts t)).
  { unfold start_off. rewrite cap_of_caps by reflexivity. cbn [tok_text].
    destruct (has Tz ts) eqn:Hz; [|reflexivity].
    destruct (enc_ranges_parts _ _ Hr) as (_ & _ & _ & Hzr). destruct (Hzr Hz) as [Hmod Hb].
    apply zone_off_text; assumption. }
  rewrite Hso. reflexivity.
Qed.

Theorem decode_lz_of_match L f p t :
  forallb (fun k => negb (tok_eqb k (TLit 37))) (tokenize f) = true -> no37 p ->
  mtch true (tokenize f) (encode_go f p t) = Some (caps_of p t (tokenize f)) ->
  (has TPath (tokenize f) = false -> p = []) ->
  identifies (tokenize f) = true -> enc_ranges (tokenize f) t = true ->
  (has Tz (tokenize f) = false ->
   decoded_unix L (tokenize f) t + lz_at L (decoded_unix L (tokenize f) t) = i_unix t + i_off t) ->
  decode_lz L f (encode_go f p t) =
  Some (p, decoded_unix L (tokenize f) t, snd (trunc_start (tokenize f) t)).
Proof.
  intros Hns Hp Hm Hnp Hid Hr Hwall.
  rewrite (decode_lz_unfold L f p t Hm Hnp Hid Hr). cbv zeta.
  set (ts := tokenize f) in *. set (r := decoded_unix L ts t) in *.
  assert (Hre : encode_go f p (mkI r (snd (trunc_start ts t)) (if has Tz ts then i_off t else lz_at L r))
                = encode_go f p t).
  { rewrite !encode_go_tokens by assumption. unfold encode. fold ts. apply render_ext.
    apply tok_text_same; cbn [i_unix i_ns i_off].
    - destruct (has Tz ts) eqn:Hz; [|apply Hwall; reflexivity].
      subst r. unfold decoded_unix. rewrite Hz. destruct (has Ts ts); lia.
    - intros HTf. unfold trunc_start. cbn [snd]. rewrite HTf. apply Z.div_mul. lia.
    - intros Hz. rewrite Hz. reflexivity.
    - intros Hs. subst r. unfold decoded_unix. rewrite Hs. reflexivity. }
  rewrite Hre, name_eqb_refl. reflexivity.
Qed.

(* whatever the zone does, a name Encode wrote can only be recognised with the Start time.Date gives *)
Theorem decode_lz_of_match_inv L f p t p' u' n' :
  mtch true (tokenize f) (encode_go f p t) = Some (caps_of p t (tokenize f)) ->
  (has TPath (tokenize f) = false -> p = []) ->
  identifies (tokenize f) = true -> enc_ranges (tokenize f) t = true ->
  decode_lz L f (encode_go f p t) = Some (p', u', n') ->
  p' = p /\ u' = decoded_unix L (tokenize f) t /\ n' = snd (trunc_start (tokenize f) t).
Proof.
  intros Hm Hnp Hid Hr. rewrite (decode_lz_unfold L f p t Hm Hnp Hid Hr). cbv zeta.
  destruct (name_eqb _ _); [|discriminate]. intros H. inversion H. repeat split.
Qed.

Lemma wf_match f p t : wf_format f = true -> name_ok p = true -> enc_ranges (tokenize f) t = true ->
  forallb (fun k => negb (tok_eqb k (TLit 37))) (tokenize f) = true /\ no37 p /\
  mtch true (tokenize f) (encode_go f p t) = Some (caps_of p t (tokenize f)) /\
  has TPath (tokenize f) = true.
Proof.
  intros Hwf Hp Hr. unfold wf_format in Hwf. destruct (wf_toks_parts _ Hwf) as (Hns & Hc & Hz).
  split; [exact Hns|]. split; [exact (name_ok_no37 p Hp)|]. split.
  - rewrite encode_go_tokens; [|exact Hns|exact (name_ok_no37 p Hp)]. unfold encode.
    exact (mtch_render (i_off t) _ p t Hc Hz (proj1 (name_ok_parts p Hp)) (enc_ranges_encodable _ _ Hr)).
  - apply count_pos_has. lia.
Qed.

(* C26, first half, general local zone: the name Encode writes is recognised, with the Start whose
   wall-clock reading is the one written, provided time.Date returns an instant that has that reading
   (always the case for a reading that exists, see Proofs/C26_Zone.v) *)
Theorem roundtrip_wall L f p t :
  wf_format f = true -> name_ok p = true -> identifies (tokenize f) = true -> enc_ranges (tokenize f) t = true ->
  (has Tz (tokenize f) = false ->
   decoded_unix L (tokenize f) t + lz_at L (decoded_unix L (tokenize f) t) = i_unix t + i_off t) ->
  decode_lz L f (encode_go f p t) =
  Some (p, decoded_unix L (tokenize f) t, snd (trunc_start (tokenize f) t)).
Proof.
  intros Hwf Hp Hid Hr Hwall. destruct (wf_match f p t Hwf Hp Hr) as (Hns & Hp37 & Hm & HTP).
  apply decode_lz_of_match; try assumption. intros E. congruence.
Qed.

Lemma decoded_unix_encodable L ts t : encodable_lz L ts t = true -> decoded_unix L ts t = i_unix t.
Proof.
  intros He. destruct (encodable_lz_parts _ _ _ He) as [_ Hz]. unfold decoded_unix.
  destruct (has Ts ts) eqn:Hs; [reflexivity|]. destruct (has Tz ts) eqn:Hhz; [lia|].
  destruct (Hz eq_refl) as [_ Hd]. rewrite (Hd eq_refl). lia.
Qed.

Theorem roundtrip_lz L f p t :
  wf_format f = true -> name_ok p = true -> identifies (tokenize f) = true -> encodable_lz L (tokenize f) t = true ->
  decode_lz L f (encode_go f p t) =
  Some (p, fst (trunc_start (tokenize f) t), snd (trunc_start (tokenize f) t)).
Proof.
  intros Hwf Hp Hid He. destruct (encodable_lz_parts _ _ _ He) as [Hr Hz].
  rewrite (roundtrip_wall L f p t Hwf Hp Hid Hr).
  - rewrite (decoded_unix_encodable _ _ _ He). reflexivity.
  - intros Hhz. rewrite (decoded_unix_encodable _ _ _ He). destruct (Hz Hhz) as [Ha _]. lia.
Qed.

(* exactly when: without %z and %s, an instant held in the local zone comes back iff time.Date maps
   its wall-clock reading to the offset in force at that instant *)
Theorem roundtrip_lz_iff L f p t :
  wf_format f = true -> name_ok p = true -> identifies (tokenize f) = true -> enc_ranges (tokenize f) t = true ->
  has Tz (tokenize f) = false -> has Ts (tokenize f) = false -> lz_at L (i_unix t) = i_off t ->
  (decode_lz L f (encode_go f p t) = Some (p, i_unix t, snd (trunc_start (tokenize f) t))
   <-> lz_date L (i_unix t + i_off t) = i_off t).
Proof.
  intros Hwf Hp Hid Hr Hz Hs Ha. split.
  - intros H. destruct (wf_match f p t Hwf Hp Hr) as (_ & _ & Hm & HTP).
    destruct (decode_lz_of_match_inv L f p t _ _ _ Hm ltac:(congruence) Hid Hr H) as (_ & Hu & _).
    unfold decoded_unix in Hu. rewrite Hs, Hz in Hu. lia.
  - intros Hd. rewrite (roundtrip_lz L f p t Hwf Hp Hid); [reflexivity|].
    unfold encodable_lz. rewrite Hr, Hz, Hs. cbn [andb orb]. lia.
Qed.

(* C26, first half, fixed-offset local zone *)
Theorem roundtrip loff f p t :
  wf_format f = true -> name_ok p = true -> identifies (tokenize f) = true -> encodable loff (tokenize f) t = true ->
  decode loff f (encode_go f p t) =
  Some (p, fst (trunc_start (tokenize f) t), snd (trunc_start (tokenize f) t)).
Proof. intros. unfold decode. apply roundtrip_lz; assumption. Qed.

(* ---------------------------------------------------------------- a match covers the whole name *)

Lemma lazy_sound (m : list Z -> option (list (tok * list Z))) : forall s acc caps,
  lazy_path m acc s = Some caps ->
  exists u s' c', s = u ++ s' /\ caps = (TPath, rev acc ++ u) :: c' /\ m s' = Some c' /\
                  forallb (fun b => negb (b =? 10)) u = true.
Proof.
  induction s as [|c r IH]; intros acc caps H; cbn [lazy_path] in H.
  - destruct (m []) as [c'|] eqn:Hm; [|discriminate]. inversion H; subst.
    exists [], [], c'. cbn [app]. rewrite !app_nil_r. split; [reflexivity|]. split; [reflexivity|]. split; [exact Hm|reflexivity].
  - destruct (m (c :: r)) as [c'|] eqn:Hm.
    + inversion H; subst. exists [], (c :: r), c'. cbn [app]. rewrite !app_nil_r.
      split; [reflexivity|]. split; [reflexivity|]. split; [exact Hm|reflexivity].
    + destruct (c =? 10) eqn:Hc; [discriminate|].
      destruct (IH _ _ H) as (u & s' & c' & -> & -> & Hm' & Hu).
      exists (c :: u), s', c'. repeat split; [cbn [rev]; now rewrite <- app_assoc|exact Hm'|].
      cbn [forallb]. now rewrite Hc, Hu.
Qed.

Definition nonlit (ts : list tok) : list tok := filter (fun k => negb (is_lit k)) ts.

Theorem mtch_sound ts : forall s caps, mtch true ts s = Some caps ->
  s = fill ts caps /\ forallb cap_shape caps = true /\ map fst caps = nonlit ts.
Proof.
  induction ts as [|t K IH]; intros s caps H.
  - cbn in H. destruct s; [|discriminate]. inversion H; subst. repeat split.
  - destruct (is_lit t) eqn:Hl.
    + destruct t; try discriminate. cbn [mtch] in H. destruct s as [|c' r]; [discriminate|].
      destruct (Z.eqb_spec c' c) as [->|]; [|discriminate].
      destruct (IH _ _ H) as (-> & Hs & Hf). repeat split; assumption.
    + destruct (tok_eqb t TPath) eqn:Hp.
      * apply tok_eqb_eq in Hp. subst t. cbn [mtch] in H.
        destruct (lazy_sound _ _ _ _ H) as (u & s' & c' & -> & -> & Hm & Hu).
        destruct (IH _ _ Hm) as (-> & Hs & Hf). cbn [rev app fill forallb map fst].
        repeat split; [|unfold nonlit in *; cbn [filter is_lit negb]; now rewrite Hf].
        unfold cap_shape at 1. cbn [fst snd]. now rewrite Hu, Hs.
      * assert (Hnp : t <> TPath) by (intros ->; discriminate).
        rewrite mtch_tok in H by assumption.
        destruct (take_tok t s) as [[txt r]|] eqn:Ht; [|discriminate].
        destruct (mtch true K r) as [c'|] eqn:Hm; [|discriminate]. inversion H; subst.
        destruct (IH _ _ Hm) as (-> & Hs & Hf).
        assert (Hshape : s = txt ++ fill K c' /\ cap_shape (t, txt) = true).
        { destruct (digit_tok t) eqn:Hd.
          - rewrite take_tok_digits in Ht by exact Hd.
            destruct (take_digits_some _ _ _ _ Ht) as (-> & Hlen & Hdg). split; [reflexivity|].
            destruct t; try discriminate; unfold cap_shape; cbn [fst snd tok_width] in *;
              rewrite Hlen, Hdg; reflexivity.
          - destruct t; try discriminate; try contradiction. cbn [take_tok] in Ht.
            exact (take_zone_some _ _ _ Ht). }
        destruct Hshape as [-> Hsh]. cbn [forallb map fst]. rewrite Hsh, Hs.
        repeat split; [destruct t; try discriminate; try contradiction; reflexivity|].
        unfold nonlit in *. cbn [filter]. rewrite Hl. cbn [negb]. now rewrite Hf.
Qed.

Lemma decode_lz_inv L f v r : decode_lz L f v = Some r ->
  exists caps, mtch true (tokenize f) v = Some caps /\ r = decode_caps_lz L caps /\
               v = encode_go f (fst (fst r)) (mkI (snd (fst r)) (snd r) (start_off L caps (snd (fst r)))).
Proof.
  unfold decode_lz. destruct (mtch true (tokenize f) v) as [caps|] eqn:Hm; [|discriminate].
  destruct (decode_caps_lz L caps) as [[p u] n] eqn:Hd.
  destruct (name_eqb _ v) eqn:Hb; [|discriminate]. intros H. inversion H; subst r. clear H.
  exists caps. cbn [fst snd]. split; [reflexivity|]. split; [now symmetry|].
  symmetry. apply name_eqb_eq. exact Hb.
Qed.

(* the current Decode recognises only what the one without the final comparison recognised *)
Theorem decode_lax_of_decode L f v r : decode_lz L f v = Some r -> decode_lax_lz L f v = Some r.
Proof.
  intros H. destruct (decode_lz_inv _ _ _ _ H) as (caps & Hm & -> & _). unfold decode_lax_lz. now rewrite Hm.
Qed.

(* C26, second half, shape form (kept for C06 / C30): literals of the format with well-shaped fields *)
Theorem whole_name_lz L f v r : decode_lz L f v = Some r ->
  exists caps, v = fill (tokenize f) caps /\ forallb cap_shape caps = true
               /\ map fst caps = nonlit (tokenize f) /\ r = decode_caps_lz L caps.
Proof.
  intros H. destruct (decode_lz_inv _ _ _ _ H) as (caps & Hm & Hr & _).
  destruct (mtch_sound _ _ _ Hm) as (Hv & Hs & Hf). exists caps. repeat split; assumption.
Qed.

Theorem whole_name loff f v r : decode loff f v = Some r ->
  exists caps, v = fill (tokenize f) caps /\ forallb cap_shape caps = true
               /\ map fst caps = nonlit (tokenize f) /\ r = decode_caps loff caps.
Proof. unfold decode. intros H. exact (whole_name_lz _ _ _ _ H). Qed.

(* C26, second half, full strength: a recognised name is the name Encode writes for the decoded path
   and start (every local zone, every format) *)
Theorem whole_name_full L f v p u n : decode_lz L f v = Some (p, u, n) ->
  exists off, v = encode_go f p (mkI u n off).
Proof.
  intros H. destruct (decode_lz_inv _ _ _ _ H) as (caps & _ & _ & Hv). cbn [fst snd] in Hv.
  eexists. exact Hv.
Qed.

(* ---------------------------------------------------------------- refutations *)

(* the code before fix 2b44fe1: a name with a foreign suffix is recognised *)
Definition f_unanch : list Z := [37;112;97;116;104; 47; 37;115; 46; 109].       (* %path/%s.m *)
Definition v_unanch : list Z := [97; 47; 49;55;48;48;48;48;48;48;48;48; 46; 109; 126].  (* a/1700000000.m~ *)

Theorem unanchored_refuted :
  decode_unanchored 0 f_unanch v_unanch = Some ([97], 1700000000, 0) /\
  (forall p t, v_unanch <> encode f_unanch p t) /\ decode 0 f_unanch v_unanch = None.
Proof.
  split; [vm_compute; reflexivity|]. split; [|vm_compute; reflexivity].
  intros p t H. unfold encode in H.
  assert (Htk : tokenize f_unanch = [TPath; TLit 47; Ts; TLit 46] ++ [TLit 109]) by (vm_compute; reflexivity).
  rewrite Htk, render_app in H. unfold render at 2 in H. cbn [flat_map tok_text app] in H.
  change v_unanch with ([97; 47; 49;55;48;48;48;48;48;48;48;48; 46; 109] ++ [126]) in H.
  apply app_inj_tail in H. destruct H as [_ H]. discriminate.
Qed.

(* the anchored code before the re-encode comparison recognised names whose fields Encode never
   writes (month 13); the current code does not *)
Definition f_month : list Z := [37;109; 95; 37;112;97;116;104].  (* %m_%path *)
Definition v_month : list Z := [49;51; 95; 97].                  (* 13_a *)

Theorem strict_whole_name_refuted :
  (exists r, decode_lax 0 f_month v_month = Some r) /\ (forall p t, v_month <> encode f_month p t) /\
  decode 0 f_month v_month = None.
Proof.
  split; [eexists; vm_compute; reflexivity|]. split; [|vm_compute; reflexivity].
  intros p t H. unfold encode in H.
  assert (Htk : tokenize f_month = [Tmo; TLit 95; TPath]) by (vm_compute; reflexivity).
  rewrite Htk in H. unfold render in H. cbn [flat_map tok_text] in H.
  pose proof (civil_of_unix_ranges (i_unix t) (i_off t)) as Hr. cbv zeta in Hr.
  set (m := c_month (civil_of_unix (i_unix t) (i_off t))) in *.
  assert (E2 : 10 ^ Z.of_nat 2 = 100) by reflexivity.
  rewrite (leading_zeros_pad 2) in H by (rewrite ?E2; lia).
  cbn [pad app] in H. unfold v_month in H.
  pose proof (f_equal (fun l => nth 0 l 0) H) as H1. pose proof (f_equal (fun l => nth 1 l 0) H) as H2.
  cbn [nth] in H1, H2. clear H.
  pose proof (Z.div_mod m 10 ltac:(lia)). pose proof (Z.div_mod (m / 10) 10 ltac:(lia)).
  pose proof (Z.mod_pos_bound m 10 ltac:(lia)). pose proof (Z.mod_pos_bound (m / 10) 10 ltac:(lia)). lia.
Qed.

(* a format with two %path (accepted by the configuration check) does not round-trip *)
Definition f_two : list Z := [37;112;97;116;104; 47; 37;112;97;116;104; 95; 37;115].  (* %path/%path_%s *)

Theorem two_paths_refuted :
  let p := [97; 47; 98] in let t := mkI 1700000000 0 0 in
  valid_name p = true /\ identifies (tokenize f_two) = true /\ encodable 0 (tokenize f_two) t = true /\
  decode_lax 0 f_two (encode_go f_two p t) = Some ([98; 47; 97; 47; 98], 1700000000, 0) /\
  decode 0 f_two (encode_go f_two p t) = None.
Proof. vm_compute. repeat split. Qed.
