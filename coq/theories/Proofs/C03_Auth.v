(* Proofs for C03 over Model/C03_Auth.v. *)
From Coq Require Import List ZArith Bool Lia.
Require Import MTX.Model.C14_PathConf MTX.Model.C03_Auth.
Import ListNotations.
Local Open Scope Z_scope.

Section P.
  Context {Cr Ip : Type}.
  Variable m : str -> str -> option (list str).
  Variable auth : bool -> str -> Cr -> Ip -> bool.

  Notation areq := (areq Cr Ip).
  Notation call := (call Cr Ip).
  Notation event := (event Cr Ip).
  Notation env := (env Cr Ip).
  Notation do_add := (do_add m auth).
  Notation do_find := (do_find m auth).
  Notation run := (run m auth).
  Notation step := (step m auth).
  Notation resolve := (resolve m).
  Notation flow_events := (flow_events m auth).
  Notation flow_calls := (flow_calls m auth).

  (* ---- one call ---- *)

  Lemma do_find_no_attach cs (r : areq) k n : ~ In (Attached k n) (do_find cs r).
  Proof.
    unfold C03_Auth.do_find. destruct (resolve cs (r_name r)); [destruct (authenticate auth r)|..]; cbn;
      intros H; repeat (destruct H as [H|H]; [discriminate H|]); exact H.
  Qed.

  Lemma do_add_attached cs k (r : areq) ctc k' n :
    In (Attached k' n) (do_add cs k r ctc) ->
    k' = k /\ n = r_name r /\
    (exists key c g, resolve cs n = Found key c g /\ conf_changed k c ctc = false) /\
    (r_skip r = false ->
       do_add cs k r ctc = [Authenticated (r_publish r) n (r_creds r) (r_ip r); Attached k n]
       /\ auth (r_publish r) n (r_creds r) (r_ip r) = true).
  Proof.
    unfold C03_Auth.do_add. destruct (resolve cs (r_name r)) as [key c g| |] eqn:Hres.
    - destruct (conf_changed k c ctc) eqn:Hcc.
      + cbn. intros [H|[]]. discriminate H.
      + destruct (r_skip r) eqn:Hskip.
        * cbn. intros [H|[]]. injection H as <- <-. split; [reflexivity|]. split; [reflexivity|]. split.
          -- exists key, c, g. split; [exact Hres|exact Hcc].
          -- intros H. discriminate H.
        * destruct (authenticate auth r) eqn:Ha.
          -- cbn. intros [H|[H|[]]]; [discriminate H|]. injection H as <- <-.
             split; [reflexivity|]. split; [reflexivity|]. split.
             ++ exists key, c, g. split; [exact Hres|exact Hcc].
             ++ intros _. split; [reflexivity|exact Ha].
          -- cbn. intros [H|[]]. discriminate H.
    - cbn. intros [H|[]]. discriminate H.
    - cbn. intros [H|[]]. discriminate H.
  Qed.

  (* ---- traces ---- *)

  Lemma run_in cs0 (l : list call) c evs :
    In (c, evs) (run cs0 l) -> exists cs, evs = snd (step cs c).
  Proof.
    revert cs0. induction l as [|c0 l IH]; intros cs0; cbn.
    - intros [].
    - destruct (step cs0 c0) as [cs' e0] eqn:Hs. cbn. intros [H|H].
      + injection H as <- <-. exists cs0. rewrite Hs. reflexivity.
      + eapply IH. exact H.
  Qed.

  (* C03_pm_attach_authorized *)
  Theorem pm_attach_authorized cs0 (l : list call) c evs k n :
    In (c, evs) (run cs0 l) -> In (Attached k n) evs ->
    exists r ctc,
      c = CAdd k r ctc /\ n = r_name r /\
      (r_skip r = false ->
         evs = [Authenticated (r_publish r) n (r_creds r) (r_ip r); Attached k n]
         /\ auth (r_publish r) n (r_creds r) (r_ip r) = true
         /\ (r_publish r = kind_publish k -> auth (kind_publish k) n (r_creds r) (r_ip r) = true)).
  Proof.
    intros Hin Hatt. apply run_in in Hin as [cs ->]. destruct c as [r|k0 r ctc|nc]; cbn in Hatt.
    - exfalso. eapply do_find_no_attach. exact Hatt.
    - apply do_add_attached in Hatt as [-> [-> [_ Hs]]]. exists r, ctc. split; [reflexivity|]. split; [reflexivity|].
      intros Hskip. destruct (Hs Hskip) as [He Ha]. split; [exact He|]. split; [exact Ha|]. intros <-. exact Ha.
    - destruct Hatt.
  Qed.

  (* ---- flows ---- *)

  Lemma find_answer_some cs (r : areq) c :
    find_answer (do_find cs r) = Some c ->
    authenticate auth r = true /\ exists key g, resolve cs (r_name r) = Found key c g.
  Proof.
    unfold C03_Auth.do_find. destruct (resolve cs (r_name r)) as [key c' g| |]; [destruct (authenticate auth r)|..];
      cbn; intros H; try discriminate H. injection H as <-. split; [reflexivity|]. exists key, g. reflexivity.
  Qed.

  Definition two_step (f : flow) : bool := match f with FTwoStep _ _ _ _ _ => true | _ => false end.

  (* C03_flow_sound *)
  Theorem flow_sound (f : flow) (e : env) cs0 rl k n :
    flow_ok f = true ->
    In (Attached k n) (flow_events f e cs0 rl) ->
    n = e_n1 e /\
    auth (kind_publish k) n (e_cr1 e) (e_ip1 e) = true /\
    (exists key c g, resolve (last rl cs0) n = Found key c g /\
       (two_step f = true -> kind_publish k = true ->
        exists key0 g0, resolve cs0 n = Found key0 c g0)).
  Proof.
    destruct f as [k0 p s| |k0 p1 p2 same ctc]; cbn [flow_ok C03_Auth.flow_events]; intros Hok Hatt.
    - apply andb_true_iff in Hok as [Hs Hp]. apply negb_true_iff in Hs. apply eqb_prop in Hp. subst s p.
      apply do_add_attached in Hatt as [-> [-> [[key [c [g [Hres _]]]] Hsk]]]. cbn in *.
      destruct (Hsk eq_refl) as [_ Ha]. repeat split; [exact Ha|]. exists key, c, g. split; [exact Hres|].
      intros H; discriminate H.
    - exfalso. eapply do_find_no_attach. exact Hatt.
    - repeat (apply andb_true_iff in Hok as [Hok ?]). apply eqb_prop in Hok. apply eqb_prop in H1. subst p1 p2 same.
      destruct (find_answer (do_find cs0 (AR (e_n1 e) (kind_publish k0) false (e_cr1 e) (e_ip1 e)))) as [c|] eqn:Hfa;
        [|destruct Hatt].
      apply find_answer_some in Hfa as [Ha [key0 [g0 Hres0]]]. cbn in Ha, Hres0.
      apply do_add_attached in Hatt as [-> [-> [[key [c' [g [Hres Hcc]]]] _]]]. cbn in *.
      repeat split; [exact Ha|]. exists key, c', g. split; [exact Hres|]. intros _ Hpub.
      rewrite Hpub in H. subst ctc. destruct k0; try discriminate Hpub. cbn in Hcc.
      apply negb_false_iff in Hcc. apply Z.eqb_eq in Hcc. subst c'. exists key0, g0. exact Hres0.
  Qed.

  (* flow_events is what the path manager produces for the last call of the flow's trace *)
  Lemma run_app cs (l1 l2 : list call) : run cs (l1 ++ l2) = run cs l1 ++ run (final m auth cs l1) l2.
  Proof.
    revert cs. induction l1 as [|c l1 IH]; intros cs; cbn; [reflexivity|].
    destruct (step cs c) as [cs' ev]. cbn. rewrite IH. reflexivity.
  Qed.

  Lemma last_nonempty (A : Type) (x : A) l d1 d2 : last (x :: l) d1 = last (x :: l) d2.
  Proof.
    revert x. induction l as [|y l IH]; intros x; [reflexivity|]. cbn [last] in *. apply IH.
  Qed.

  Lemma final_reloads cs (rl : list confs) : final m auth cs (map (@CReload Cr Ip) rl) = last rl cs.
  Proof.
    revert cs. induction rl as [|nc rl IH]; intros cs; [reflexivity|].
    cbn [map C03_Auth.final C03_Auth.step fst]. rewrite IH.
    destruct rl as [|c rl]; [reflexivity|]. change (last (nc :: c :: rl) cs) with (last (c :: rl) cs).
    apply last_nonempty.
  Qed.

  Theorem flow_events_run (f : flow) (e : env) cs0 rl :
    flow_events f e cs0 rl = [] \/
    exists pre c, run cs0 (flow_calls f e cs0 rl) = pre ++ [(c, flow_events f e cs0 rl)].
  Proof.
    destruct f as [k p s| |k p1 p2 same ctc]; cbn [C03_Auth.flow_calls C03_Auth.flow_events].
    - right. eexists. eexists. rewrite run_app, final_reloads. cbn. reflexivity.
    - right. eexists. eexists. rewrite run_app, final_reloads. cbn. reflexivity.
    - destruct (find_answer (do_find cs0 (AR (e_n1 e) p1 false (e_cr1 e) (e_ip1 e)))) as [c|] eqn:Hfa;
        [right|left; reflexivity].
      eexists. eexists. cbn [C03_Auth.run C03_Auth.step]. rewrite run_app, final_reloads. cbn.
      rewrite app_comm_cons. reflexivity.
  Qed.
End P.

(* ---- witnesses: what the path manager alone does not enforce, and why flow_ok asks for each item ---- *)

Definition w_cam : str := [99; 97; 109].
Definition w_adm : str := [97; 100; 109].
Definition w_m_none : str -> str -> option (list str) := fun _ _ => None.
Definition w_m_all : str -> str -> option (list str) := fun _ _ => Some [].
Definition w_env (ctc : option conf) : env Z Z := ENV w_cam w_adm 1 0 7 7 ctc.

(* credentials 1 are admitted everywhere *)
Definition w_auth_creds : bool -> str -> Z -> Z -> bool := fun _ _ c _ => c =? 1.
(* everybody is admitted on cam only *)
Definition w_auth_name : bool -> str -> Z -> Z -> bool := fun _ n _ _ => str_eqb n w_cam.
(* everybody may read, nobody may publish *)
Definition w_auth_read : bool -> str -> Z -> Z -> bool := fun p _ _ _ => negb p.

(* without ConfToCompare a publisher authorized under configuration 1 is attached under configuration 2 *)
Lemma flow_without_ctc_refuted :
  exists (e : env Z Z) cs0 rl n,
    flow_ok (FTwoStep KPublisher true true true false) = false /\
    In (Attached KPublisher n) (flow_events w_m_none w_auth_creds (FTwoStep KPublisher true true true false) e cs0 rl) /\
    conf_of_result (resolve w_m_none cs0 n) = Some 1 /\
    conf_of_result (resolve w_m_none (last rl cs0) n) = Some 2.
Proof.
  exists (w_env None), [(w_cam, 1)], [[(w_cam, 2)]], w_cam. vm_compute. repeat split. left. reflexivity.
Qed.

(* with it, the same history is refused *)
Lemma flow_with_ctc_rejects :
  flow_events w_m_none w_auth_creds (FTwoStep KPublisher true true true true) (w_env None) [(w_cam, 1)] [[(w_cam, 2)]]
  = [Rejected EConfChanged].
Proof. vm_compute. reflexivity. Qed.

(* a second call naming another path attaches to a path the client was never admitted to (one regexp configuration
   serves both names, so ConfToCompare does not notice) *)
Lemma flow_other_name_refuted :
  exists (e : env Z Z) cs0 rl n,
    flow_ok (FTwoStep KPublisher true true false true) = false /\
    In (Attached KPublisher n) (flow_events w_m_all w_auth_name (FTwoStep KPublisher true true false true) e cs0 rl) /\
    w_auth_name true n (e_cr1 e) (e_ip1 e) = false.
Proof.
  exists (w_env None), [(s_all, 1)], [], w_adm. vm_compute. repeat split. left. reflexivity.
Qed.

(* the path manager authenticates the action named by the request's Publish flag, not the action of the call:
   AddPublisher with Publish = false attaches a publisher after a READ authorization *)
Lemma pm_action_not_checked :
  exists (r : areq Z Z) cs n,
    r_skip r = false /\
    In (Attached KPublisher n) (do_add w_m_none w_auth_read cs KPublisher r None) /\
    w_auth_read (kind_publish KPublisher) n (r_creds r) (r_ip r) = false /\
    flow_ok (FSingle KPublisher false false) = false.
Proof.
  exists (AR w_cam false false 0 7), [(w_cam, 1)], w_cam. vm_compute. repeat split. right. left. reflexivity.
Qed.

(* SkipAuth = true attaches with no authentication at all: the flag is only sound inside a flow *)
Lemma pm_skip_not_checked :
  exists (r : areq Z Z) cs n,
    In (Attached KReader n) (do_add w_m_none (fun _ _ _ _ => false) cs KReader r None) /\
    flow_ok (FSingle KReader false true) = false.
Proof.
  exists (AR w_cam false true 0 7), [(w_cam, 1)], w_cam. vm_compute. repeat split. left. reflexivity.
Qed.

(* non-vacuity of flow_sound: a well-formed two-step flow that attaches (the reload keeps the configuration),
   one single-call flow that attaches, one that is refused *)
Lemma flow_examples :
  flow_ok (FTwoStep KPublisher true true true true) = true /\
  flow_events w_m_none w_auth_creds (FTwoStep KPublisher true true true true) (w_env None)
              [(w_cam, 1)] [[(w_cam, 2)]; [(w_cam, 1); (w_adm, 3)]] = [Attached KPublisher w_cam] /\
  flow_ok (FSingle KReader false false) = true /\
  flow_events w_m_all w_auth_name (FSingle KReader false false) (w_env None) [(s_all, 1)] []
  = [Authenticated false w_cam 1 7; Attached KReader w_cam] /\
  flow_events w_m_all w_auth_read (FSingle KPublisher true false) (w_env None) [(s_all, 1)] [] = [Rejected EAuth].
Proof. vm_compute. repeat split. Qed.
