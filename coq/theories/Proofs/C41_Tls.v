From Coq Require Import List ZArith Bool Lia ZifyBool.
Require Import MTX.Model.C41_Tls.
Import ListNotations.
Local Open Scope Z_scope.
Ltac Zify.zify_post_hook ::= Z.div_mod_to_equations.

Lemma bytes_eqb_eq a : forall b, bytes_eqb a b = true <-> a = b.
Proof.
  induction a as [|x a IH]; intros [|y b]; simpl; split; try discriminate; try reflexivity.
  - intros H. apply andb_prop in H. destruct H as [H1 H2]. apply Z.eqb_eq in H1. apply IH in H2. congruence.
  - intros H. inversion H; subst. rewrite Z.eqb_refl. simpl. apply IH. reflexivity.
Qed.

(* the statement's reading of "equals the fingerprint, compared case-insensitively":
   same length and, position by position, equal after folding ASCII letters *)
Definition fold_eq (a b : list Z) : Prop := Forall2 (fun x y => lower_byte x = lower_byte y) a b.

Definition is_byte (b : Z) : Prop := 0 <= b < 256.

Lemma hex_digit_range n : 0 <= n < 16 -> (48 <= hex_digit n <= 57) \/ (97 <= hex_digit n <= 102).
Proof. intros H. unfold hex_digit. destruct (Z.ltb_spec n 10); lia. Qed.

Lemma hex_digit_lower n : 0 <= n < 16 -> lower_byte (hex_digit n) = hex_digit n.
Proof.
  intros H. destruct (hex_digit_range n H) as [R|R]; unfold lower_byte;
    destruct (Z.leb_spec 65 (hex_digit n)); destruct (Z.leb_spec (hex_digit n) 90); simpl; try reflexivity; lia.
Qed.

Lemma hex_lower bs : Forall is_byte bs -> to_lower (hex_encode bs) = hex_encode bs.
Proof.
  induction 1 as [|b r Hb _ IH]; [reflexivity|]. unfold is_byte in Hb.
  unfold to_lower in *. cbn [hex_encode map]. rewrite IH.
  rewrite !hex_digit_lower by lia. reflexivity.
Qed.

Lemma lower_idem c : lower_byte (lower_byte c) = lower_byte c.
Proof.
  unfold lower_byte. destruct (Z.leb_spec 65 c); destruct (Z.leb_spec c 90); simpl;
    repeat match goal with |- context [Z.leb ?a ?b] => destruct (Z.leb_spec a b) end; simpl; try reflexivity; lia.
Qed.

(* accept <=> the fingerprint is the hex SHA-256 of the leaf, up to ASCII case *)
Lemma verify_iff fp digest : Forall is_byte digest ->
  (verify fp digest = true <-> fold_eq fp (hex_encode digest)).
Proof.
  intros Hd. unfold verify. rewrite bytes_eqb_eq. split.
  - intros H. unfold fold_eq. rewrite H. clear. unfold to_lower.
    induction fp as [|c r IH]; simpl; constructor; [symmetry; apply lower_idem|exact IH].
  - intros H. rewrite <- (hex_lower digest Hd). unfold to_lower.
    induction H as [|x y a b Hxy _ IH]; simpl; [reflexivity|]. rewrite Hxy, IH. reflexivity.
Qed.

Lemma hex_digit_inj a b : 0 <= a < 16 -> 0 <= b < 16 -> hex_digit a = hex_digit b -> a = b.
Proof. unfold hex_digit. intros Ha Hb. destruct (Z.ltb_spec a 10); destruct (Z.ltb_spec b 10); lia. Qed.

Lemma hex_encode_inj a : forall b, Forall is_byte a -> Forall is_byte b -> hex_encode a = hex_encode b -> a = b.
Proof.
  induction a as [|x a IH]; intros [|y b] Ha Hb H; simpl in H; try discriminate; [reflexivity|].
  inversion Ha as [|? ? Bx Ba]; subst. inversion Hb as [|? ? By Bb]; subst. injection H as E1 E2 E3. unfold is_byte in *.
  apply hex_digit_inj in E1; [|lia|lia]. apply hex_digit_inj in E2; [|lia|lia].
  f_equal; [lia|]. apply IH; assumption.
Qed.

(* exactly the pinned certificate: two leaf digests accepted under one fingerprint are equal *)
Lemma verify_unique fp d1 d2 : Forall is_byte d1 -> Forall is_byte d2 ->
  verify fp d1 = true -> verify fp d2 = true -> d1 = d2.
Proof.
  intros H1 H2 V1 V2. unfold verify in *. apply bytes_eqb_eq in V1. apply bytes_eqb_eq in V2.
  apply hex_encode_inj; try assumption. congruence.
Qed.

Lemma verify_length fp digest : verify fp digest = true -> length fp = (2 * length digest)%nat.
Proof.
  unfold verify. rewrite bytes_eqb_eq. intros H.
  assert (length (hex_encode digest) = (2 * length digest)%nat) as L by (clear; induction digest as [|b r IHd]; simpl; [reflexivity|rewrite IHd; lia]).
  rewrite <- L, H. unfold to_lower. rewrite map_length. reflexivity.
Qed.
