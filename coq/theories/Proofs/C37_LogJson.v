(* Proofs about Model/C37_LogJson.v: the repaired structured log line is one line holding a JSON
   object that reads back as (timestamp, level, sanitised message), for every byte string. *)
From Coq Require Import List ZArith Bool Lia.
Require Import MTX.Lib.Utf8 MTX.Lib.Json MTX.Model.C37_LogJson.
Import ListNotations.
Local Open Scope Z_scope.

(* q is the JSON text of a string with value v, whatever follows it *)
Definition enc_of (q v : list Z) : Prop := forall t, parse_string (34 :: q ++ t) = Some (v, t).

Lemma enc_plain p : plain p = true -> enc_of (p ++ [34]) p.
Proof.
  intros Hp t. rewrite <- app_assoc. cbn [app]. apply parse_string_plain; exact Hp.
Qed.

Lemma enc_json s : bytes s -> exists q, json_string s = 34 :: q /\ enc_of q (sanitize s).
Proof.
  intros Hb. exists (json_body s ++ [34]). split; [reflexivity|].
  intros t. apply (parse_json_string s t Hb).
Qed.

Lemma members_last f qk k qv v tail : enc_of qk k -> enc_of qv v ->
  parse_members (S f) (34 :: qk ++ 58 :: 34 :: qv ++ 125 :: tail) = Some ([(k, v)], tail).
Proof.
  intros Ek Ev. cbn [parse_members].
  rewrite skip_ws_nonws by reflexivity. rewrite Ek.
  rewrite skip_ws_nonws by reflexivity. rewrite Z.eqb_refl.
  rewrite skip_ws_nonws by reflexivity. rewrite Ev.
  rewrite skip_ws_nonws by reflexivity. rewrite Z.eqb_refl. reflexivity.
Qed.

Lemma members_cons f qk k qv v tail : enc_of qk k -> enc_of qv v ->
  parse_members (S f) (34 :: qk ++ 58 :: 34 :: qv ++ 44 :: tail) =
  match parse_members f tail with Some (ms, rest) => Some ((k, v) :: ms, rest) | None => None end.
Proof.
  intros Ek Ev. cbn [parse_members].
  rewrite skip_ws_nonws by reflexivity. rewrite Ek.
  rewrite skip_ws_nonws by reflexivity. rewrite Z.eqb_refl.
  rewrite skip_ws_nonws by reflexivity. rewrite Ev.
  rewrite skip_ws_nonws by reflexivity.
  replace (44 =? 125) with false by reflexivity. rewrite Z.eqb_refl. reflexivity.
Qed.

Lemma level_name_plain lvl : plain (level_name lvl) = true.
Proof. unfold level_name. repeat match goal with |- context [if ?c then _ else _] => destruct c end; reflexivity. Qed.

Definition member (qk qv : list Z) (sep : Z) (tail : list Z) : list Z :=
  34 :: qk ++ 58 :: 34 :: qv ++ sep :: tail.

Lemma three_members f qk1 k1 qv1 v1 qk2 k2 qv2 v2 qk3 k3 qv3 v3 tail :
  (3 <= f)%nat -> enc_of qk1 k1 -> enc_of qv1 v1 -> enc_of qk2 k2 -> enc_of qv2 v2 -> enc_of qk3 k3 -> enc_of qv3 v3 ->
  parse_members f (member qk1 qv1 44 (member qk2 qv2 44 (member qk3 qv3 125 tail))) =
  Some ([(k1, v1); (k2, v2); (k3, v3)], tail).
Proof.
  intros Hf E1 E1' E2 E2' E3 E3'. destruct f as [|[|[|f]]]; try lia. unfold member.
  rewrite (members_cons _ qk1 k1 qv1 v1 _ E1 E1').
  rewrite (members_cons _ qk2 k2 qv2 v2 _ E2 E2').
  rewrite (members_last _ qk3 k3 qv3 v3 _ E3 E3'). reflexivity.
Qed.

Lemma parse_object_members M :
  parse_object (123 :: 34 :: M) = parse_members (length (123 :: 34 :: M)) (34 :: M).
Proof. reflexivity. Qed.

Lemma render_shape quote ts lvl msg q : quote msg = 34 :: q ->
  render_with quote ts lvl msg =
  123 :: member (key_timestamp ++ [34]) (ts ++ [34]) 44
        (member (key_level ++ [34]) (level_name lvl ++ [34]) 44
        (member (key_message ++ [34]) q 125 [10])).
Proof.
  intros Hq. unfold render_with, pre_ts, pre_level, pre_message, member. rewrite Hq.
  cbn [app key_timestamp key_level key_message]. repeat rewrite <- app_assoc. cbn [app]. reflexivity.
Qed.

Definition record (ts : list Z) (lvl : Z) (msg : list Z) : list (list Z * list Z) :=
  [(key_timestamp, ts); (key_level, level_name lvl); (key_message, msg)].

(* a line whose message part is a correct JSON string reads back as the record *)
Lemma parse_line_shape quote ts lvl msg q v :
  quote msg = 34 :: q -> enc_of q v -> plain ts = true ->
  parse_line (render_with quote ts lvl msg) = Some (record ts lvl v).
Proof.
  intros Hq Eq Hts. rewrite (render_shape quote ts lvl msg q Hq).
  unfold parse_line. unfold member at 1. rewrite parse_object_members.
  fold (member (key_timestamp ++ [34]) (ts ++ [34]) 44
        (member (key_level ++ [34]) (level_name lvl ++ [34]) 44
        (member (key_message ++ [34]) q 125 [10]))).
  rewrite (three_members _ _ key_timestamp _ ts _ key_level _ (level_name lvl) _ key_message _ v).
  - reflexivity.
  - unfold member. cbn [length app key_timestamp]. lia.
  - apply enc_plain; reflexivity.
  - apply enc_plain; exact Hts.
  - apply enc_plain; reflexivity.
  - apply enc_plain; apply level_name_plain.
  - apply enc_plain; reflexivity.
  - exact Eq.
Qed.

(* C37_valid_json *)
Theorem render_parses ts lvl msg : bytes msg -> plain ts = true ->
  parse_line (render ts lvl msg) = Some (record ts lvl (sanitize msg)).
Proof.
  intros Hb Hts. destruct (enc_json msg Hb) as (q & Hq & Eq).
  exact (parse_line_shape json_string ts lvl msg q (sanitize msg) Hq Eq Hts).
Qed.

Corollary render_fields ts lvl msg : bytes msg -> plain ts = true ->
  exists ms, parse_line (render ts lvl msg) = Some ms /\
    lookup key_timestamp ms = Some ts /\ lookup key_level ms = Some (level_name lvl) /\
    lookup key_message ms = Some (sanitize msg).
Proof.
  intros Hb Hts. eexists. split; [apply render_parses; assumption|].
  unfold record. cbn [lookup]. rewrite !list_eqb_refl.
  repeat split; reflexivity.
Qed.

(* ---- exactly one line ---------------------------------------------------------------- *)

Lemma existsb_nl_false body : Forall (fun c => 32 <= c < 256) body -> existsb (Z.eqb 10) body = false.
Proof.
  induction 1 as [|c l Hc Hl IH]; [reflexivity|]. cbn [existsb]. rewrite IH.
  replace (10 =? c) with false by (symmetry; apply Z.eqb_neq; lia). reflexivity.
Qed.

Lemma one_line_app body : Forall (fun c => 32 <= c < 256) body -> one_line (body ++ [10]) = true.
Proof.
  intros H. unfold one_line. rewrite rev_app_distr. cbn [rev app]. rewrite Z.eqb_refl.
  rewrite existsb_nl_false; [reflexivity|]. apply Forall_rev. exact H.
Qed.

Lemma plain_printable p : plain p = true -> Forall (fun c => 32 <= c < 256) p.
Proof.
  unfold plain. rewrite forallb_forall, Forall_forall. intros H c Hc. specialize (H c Hc).
  unfold plain_char in H. repeat (apply andb_true_iff in H as [H ?]). lia.
Qed.

(* C37_one_line *)
Theorem render_one_line ts lvl msg : bytes msg -> plain ts = true -> one_line (render ts lvl msg) = true.
Proof.
  intros Hb Hts. unfold render, render_with.
  replace (pre_ts ++ ts ++ pre_level ++ level_name lvl ++ pre_message ++ json_string msg ++ [125; 10])
    with ((pre_ts ++ ts ++ pre_level ++ level_name lvl ++ pre_message ++ json_string msg ++ [125]) ++ [10])
    by (repeat rewrite <- app_assoc; reflexivity).
  apply one_line_app.
  assert (Hconst : forall l, forallb (fun c => (32 <=? c) && (c <? 256)) l = true -> Forall (fun c => 32 <= c < 256) l).
  { intros l H. rewrite forallb_forall in H. apply Forall_forall. intros c Hc. specialize (H c Hc).
    apply andb_true_iff in H as [H1 H2]. lia. }
  apply Forall_app; split; [apply Hconst; reflexivity|].
  apply Forall_app; split; [apply plain_printable; exact Hts|].
  apply Forall_app; split; [apply Hconst; reflexivity|].
  apply Forall_app; split; [apply plain_printable; apply level_name_plain|].
  apply Forall_app; split; [apply Hconst; reflexivity|].
  apply Forall_app; split; [apply json_string_no_ctl; exact Hb|].
  repeat constructor; lia.
Qed.

Lemma one_line_spec l : one_line l = true <-> exists body, l = body ++ [10] /\ ~ In 10 body.
Proof.
  unfold one_line. split.
  - destruct (rev l) as [|c b] eqn:E; [discriminate|]. intros H.
    apply andb_true_iff in H as [Hc Hn]. apply Z.eqb_eq in Hc. subst c.
    exists (rev b). split.
    + rewrite <- (rev_involutive l), E. reflexivity.
    + intros Hin. apply in_rev in Hin. apply negb_true_iff in Hn.
      assert (existsb (Z.eqb 10) b = true) by (apply existsb_exists; exists 10; split; [exact Hin|reflexivity]).
      congruence.
  - intros (body & -> & Hn). rewrite rev_app_distr. cbn [rev app]. rewrite Z.eqb_refl. cbn [andb].
    apply negb_true_iff. apply not_true_is_false. intros H. apply existsb_exists in H as (x & Hx & Ex).
    apply Z.eqb_eq in Ex. subst x. apply Hn. apply in_rev. exact Hx.
Qed.

(* ---- the pinned code (strconv.Quote) is refuted --------------------------------------- *)

Definition ts_example : list Z :=   (* 2003-11-04T23:15:08.000431232Z *)
  [50;48;48;51;45;49;49;45;48;52;84;50;51;58;49;53;58;48;56;46;48;48;48;52;51;49;50;51;50;90].

(* BEL, VT, NUL, US, DEL, a lone 0xff, a truncated 4-byte sequence: none of these lines is JSON *)
Definition v0_witnesses : list (list Z) := [[7]; [11]; [0]; [97; 31; 122]; [127]; [255]; [240; 159; 152]].

Lemma render_v0_refuted :
  plain ts_example = true /\ Forall bytes v0_witnesses /\
  forall m, In m v0_witnesses -> parse_line (render_v0 (fun _ => true) ts_example 2 m) = None.
Proof.
  split; [reflexivity|]. split.
  - unfold v0_witnesses, bytes, is_byte. repeat constructor; lia.
  - intros m Hm. unfold v0_witnesses in Hm. cbn [In] in Hm.
    repeat (destruct Hm as [<-|Hm]; [vm_compute; reflexivity|]). contradiction.
Qed.

(* for contrast: on printable ASCII the old code was fine *)
Lemma render_v0_ascii_example :
  parse_line (render_v0 (fun _ => true) ts_example 2 [104; 105; 32; 34; 92]) = Some (record ts_example 2 [104; 105; 32; 34; 92]).
Proof. vm_compute. reflexivity. Qed.
