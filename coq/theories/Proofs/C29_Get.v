(* C29, /get: proofs about seekAndMux / segmentFMP4MuxParts / muxerFMP4. *)
From Coq Require Import List ZArith Bool Lia.
Require Import MTX.Model.C29_Playback.
Import ListNotations.
Local Open Scope Z_scope.

(* ------------------------------------------------------------------ vocabulary *)

(* a sample without its duration (the muxer rewrites durations; identity, sync flag and PTS offset are kept) *)
Definition strip (s : sample) : sample := mkSample (sm_id s) 0 (sm_sync s) (sm_pts s).
Definition srows (l : list (sample * Z)) : list (sample * Z) := map (fun x => (strip (fst x), snd x)) l.

Fixpoint sumdur (l : list sample) : Z := match l with [] => 0 | s :: r => sm_dur s + sumdur r end.

Definition flatF (Fl : list otrack) : list (sample * Z) :=
  flat_map (fun o => flat_samples (o_base o) (o_samples o)) Fl.

Definition two32 : Z := 4294967296.

(* ------------------------------------------------------------------ lists *)

Lemma flat_samples_app base a b :
  flat_samples base (a ++ b) = flat_samples base a ++ flat_samples (base + sumdur a) b.
Proof.
  revert base. induction a as [|x a IH]; intros base; simpl.
  - f_equal. lia.
  - f_equal. rewrite IH. f_equal. f_equal. lia.
Qed.

Lemma sumdur_app a b : sumdur (a ++ b) = sumdur a + sumdur b.
Proof. induction a as [|x a IH]; simpl; lia. Qed.

Lemma sumdur_rev a : sumdur (rev a) = sumdur a.
Proof. induction a as [|x a IH]; simpl; [reflexivity|]. rewrite sumdur_app. simpl. lia. Qed.

Lemma sumdur_zero l : Forall (fun s => sm_dur s = 0) l -> sumdur l = 0.
Proof. induction 1 as [|x l Hx _ IH]; simpl; lia. Qed.

Lemma flat_samples_zero base l : Forall (fun s => sm_dur s = 0) l ->
  flat_samples base l = map (fun s => (s, base)) l.
Proof.
  induction 1 as [|x l Hx _ IH]; simpl; [reflexivity|]. rewrite Hx, Z.add_0_r, IH. reflexivity.
Qed.

Lemma strip_zero s : sm_dur s = 0 -> strip s = s.
Proof. destruct s; simpl. intros ->. reflexivity. Qed.

Lemma strip_strip s : strip (strip s) = strip s.
Proof. reflexivity. Qed.

Lemma srows_app a b : srows (a ++ b) = srows a ++ srows b.
Proof. apply map_app. Qed.

Lemma srows_zero base l : Forall (fun s => sm_dur s = 0) l ->
  srows (map (fun s => (s, base)) l) = map (fun s => (s, base)) l.
Proof.
  induction 1 as [|x l Hx _ IH]; [reflexivity|].
  change (srows (map (fun s => (s, base)) (x :: l))) with ((strip x, base) :: srows (map (fun s => (s, base)) l)).
  rewrite IH, (strip_zero x Hx). reflexivity.
Qed.

Lemma flatF_app a b : flatF (a ++ b) = flatF a ++ flatF b.
Proof. apply flat_map_app. Qed.

(* ------------------------------------------------------------------ one muxer track, abstractly *)

(* before the first sample at or after the requested start: the buffered pre-roll (oldest first);
   afterwards: the sample table written or still buffered, with decode times, and the latest decode time *)
Inductive astate := APre (pre : list sample) | AVis (rows : list (sample * Z)) (last : Z).

Definition a_write (dts : Z) (s : sample) (a : astate) : astate :=
  if 0 <=? dts then
    match a with
    | APre pre => AVis (map (fun p => (p, dts)) (if sm_sync s then [] else pre) ++ [(strip s, dts)]) dts
    | AVis rows _ => AVis (rows ++ [(strip s, dts)]) dts
    end
  else
    match a with
    | APre pre => APre (if sm_sync s then [strip s] else pre ++ [strip s])
    | AVis _ _ => a
    end.

Definition aout (a : astate) : list (sample * Z) :=
  match a with APre _ => [] | AVis rows _ => rows end.

(* the decode time of a write is admissible: not before the previous one of the track, less than 2^32 later *)
Definition step_ok (a : astate) (dts : Z) : Prop :=
  match a with APre _ => True | AVis _ last => last <= dts < last + two32 end.

(* concrete track + the PartTracks already written for it  ~  abstract state *)
Definition R (t : tstate) (Fl : list otrack) (a : astate) : Prop :=
  match a with
  | APre pre =>
      t_first t < 0 /\ Fl = [] /\ rev (t_rsamples t) = pre /\ Forall (fun s => sm_dur s = 0) pre
  | AVis rows last =>
      0 <= t_first t /\ t_last t = last /\ 0 <= last /\ t_rsamples t <> [] /\
      t_first t + sumdur (tl (t_rsamples t)) = last /\
      srows (flatF Fl ++ flat_samples (t_first t) (rev (t_rsamples t))) = rows
  end.

Lemma write_track_id dts s t : t_id (fst (write_track dts s t)) = t_id t.
Proof. unfold write_track. destruct (0 <=? dts); reflexivity. Qed.

Lemma final_track_id dts t : t_id (final_track dts t) = t_id t.
Proof. unfold final_track. destruct (t_rsamples t); [reflexivity|]. destruct (0 <=? t_first t); reflexivity. Qed.

Lemma flush_track_id f t : t_id (snd (flush_track f t)) = t_id t.
Proof.
  unfold flush_track.
  destruct ((0 <=? t_first t) && ((1 <? Z.of_nat (length (t_rsamples t))) || (f && negb (Z.of_nat (length (t_rsamples t)) =? 0))));
    [destruct f|]; reflexivity.
Qed.

Lemma flush_track_otrack f t o : fst (flush_track f t) = Some o -> o_track o = t_id t.
Proof.
  unfold flush_track.
  destruct ((0 <=? t_first t) && ((1 <? Z.of_nat (length (t_rsamples t))) || (f && negb (Z.of_nat (length (t_rsamples t)) =? 0))));
    [destruct f|]; simpl; intros E; inversion E; reflexivity.
Qed.

Lemma set_last_dur_tl d rs : tl (set_last_dur d rs) = tl rs.
Proof. destruct rs; reflexivity. Qed.

Lemma set_last_dur_nonempty d rs : rs <> [] -> set_last_dur d rs <> [].
Proof. destruct rs; [congruence|discriminate]. Qed.

(* changing the duration of the newest sample does not change the stripped table *)
Lemma srows_set_last_dur base d rs :
  srows (flat_samples base (rev (set_last_dur d rs))) = srows (flat_samples base (rev rs)).
Proof.
  destruct rs as [|h r]; [reflexivity|]. simpl. rewrite !flat_samples_app, !srows_app. reflexivity.
Qed.

Lemma R_write t Fl a dts s : R t Fl a -> step_ok a dts -> R (fst (write_track dts s t)) Fl (a_write dts s a).
Proof.
  intros HR Hstep. unfold write_track, a_write.
  destruct (0 <=? dts) eqn:Ed.
  - destruct a as [pre|rows last]; simpl in HR.
    + destruct HR as (Hf & HF & Hrev & Hz). subst Fl.
      assert (Hfl : (t_first t <? 0) = true) by lia. rewrite Hfl. cbn [fst R t_first t_last t_rsamples].
      set (rs0 := if sm_sync s then [] else t_rsamples t).
      assert (Hrs0 : rev rs0 = (if sm_sync s then [] else pre)).
      { unfold rs0. destruct (sm_sync s); [reflexivity|exact Hrev]. }
      assert (Hz0 : Forall (fun x => sm_dur x = 0) (rev rs0)).
      { rewrite Hrs0. destruct (sm_sync s); [constructor|exact Hz]. }
      repeat split; try lia; try discriminate.
      * cbn [tl]. rewrite <- (sumdur_rev rs0), (sumdur_zero _ Hz0). lia.
      * cbn [flatF flat_map app rev]. rewrite flat_samples_app, srows_app.
        rewrite (flat_samples_zero dts _ Hz0), (srows_zero dts _ Hz0), (sumdur_zero _ Hz0), Hrs0.
        rewrite Z.add_0_r. reflexivity.
    + destruct HR as (Hf & Hl & Hl0 & Hne & Hsum & Hrows). simpl in Hstep. subst last.
      assert (Hfl : (t_first t <? 0) = false) by lia. rewrite Hfl. cbn [fst R t_first t_last t_rsamples].
      repeat split; try lia; try discriminate.
      * cbn [tl]. destruct (t_rsamples t) as [|h r] eqn:Ers; [congruence|].
        cbn [set_last_dur sumdur sm_dur tl] in *.
        rewrite Z.max_l by lia. rewrite Z.mod_small by (unfold two32 in Hstep; lia). lia.
      * cbn [rev]. rewrite flat_samples_app, app_assoc, srows_app.
        rewrite <- Hrows. rewrite !srows_app. rewrite srows_set_last_dur. f_equal.
        cbn [flat_samples srows map fst snd]. f_equal. f_equal.
        destruct (t_rsamples t) as [|h r] eqn:Ers; [congruence|].
        cbn [set_last_dur rev]. rewrite sumdur_app, sumdur_rev. cbn [sumdur sm_dur tl] in *.
        rewrite Z.max_l by lia. rewrite Z.mod_small by (unfold two32 in Hstep; lia). lia.
  - destruct a as [pre|rows last]; simpl in HR.
    + destruct HR as (Hf & HF & Hrev & Hz). cbn [fst R t_first t_last t_rsamples].
      unfold strip. repeat split; try assumption.
      * destruct (sm_sync s); [reflexivity|]. cbn [rev]. rewrite Hrev. reflexivity.
      * destruct (sm_sync s); [repeat constructor|]. apply Forall_app. split; [exact Hz|repeat constructor].
    + simpl in Hstep. destruct HR as (_ & _ & Hl0 & _). lia.
Qed.

Lemma R_final t Fl a dts : R t Fl a -> R (final_track dts t) Fl a.
Proof.
  intros HR. unfold final_track. destruct (t_rsamples t) as [|h r] eqn:Ers; [exact HR|].
  destruct (0 <=? t_first t) eqn:Ef; [|exact HR].
  destruct a as [pre|rows last]; simpl in HR.
  - destruct HR as (Hf & _). lia.
  - destruct HR as (Hf & Hl & Hl0 & Hne & Hsum & Hrows). cbn [R t_first t_last t_rsamples].
    rewrite Ers in *. repeat split; try assumption; try discriminate.
    rewrite <- Hrows. rewrite !srows_app. f_equal. apply (srows_set_last_dur (t_first t) _ (h :: r)).
Qed.

Definition opt_list {A} (o : option A) : list A := match o with Some x => [x] | None => [] end.

Lemma R_flush t Fl a : R t Fl a ->
  R (snd (flush_track false t)) (Fl ++ opt_list (fst (flush_track false t))) a.
Proof.
  intros HR. unfold flush_track. cbn [andb].
  destruct ((0 <=? t_first t) && ((1 <? Z.of_nat (length (t_rsamples t))) || false)) eqn:Ec;
    cbn [fst snd opt_list]; [|rewrite app_nil_r; exact HR].
  apply andb_true_iff in Ec. destruct Ec as (Ef & En). rewrite orb_false_r in En.
  destruct a as [pre|rows last]; simpl in HR; [destruct HR as (Hf & _); lia|].
  destruct HR as (Hf & Hl & Hl0 & Hne & Hsum & Hrows).
  destruct (t_rsamples t) as [|h r] eqn:Ers; [congruence|].
  cbn [R t_first t_last t_rsamples firstn tl sumdur] in *.
  repeat split; try lia; try discriminate.
  rewrite <- Hrows. rewrite flatF_app, <- app_assoc. f_equal. f_equal.
  cbn [flatF flat_map o_base o_samples rev app]. rewrite app_nil_r, flat_samples_app.
  f_equal. cbn [flat_samples]. rewrite sumdur_rev. f_equal. f_equal. lia.
Qed.

Lemma R_flush_final t Fl a : R t Fl a ->
  srows (flatF (Fl ++ opt_list (fst (flush_track true t)))) = aout a.
Proof.
  intros HR. unfold flush_track. cbn [andb].
  destruct a as [pre|rows last]; simpl in HR.
  - destruct HR as (Hf & -> & _). assert (E : (0 <=? t_first t) = false) by lia. rewrite E. reflexivity.
  - destruct HR as (Hf & Hl & Hl0 & Hne & Hsum & Hrows).
    assert (E : (0 <=? t_first t) = true) by lia. rewrite E.
    destruct (t_rsamples t) as [|h r] eqn:Ers; [congruence|].
    assert (En : ((1 <? Z.of_nat (length (h :: r))) || negb (Z.of_nat (length (h :: r)) =? 0)) = true).
    { apply orb_true_iff. right. cbn [length]. destruct (Z.of_nat (S (length r)) =? 0) eqn:E0; [apply Z.eqb_eq in E0; lia|reflexivity]. }
    cbn [andb]. rewrite En. cbn [fst opt_list aout]. rewrite <- Hrows, flatF_app. f_equal. f_equal.
    cbn [flatF flat_map o_base o_samples]. rewrite app_nil_r. reflexivity.
Qed.

(* ------------------------------------------------------------------ all tracks *)

(* the PartTracks written so far for one track id, oldest first (m_out is kept newest first) *)
Definition Fid (id : Z) (out : list opart) : list otrack :=
  filter (fun o => o_track o =? id) (concat (rev out)).

Lemma flat_part_filter id p : flat_part id p = flatF (filter (fun o => o_track o =? id) p).
Proof.
  unfold flat_part, flatF. induction p as [|o p IH]; [reflexivity|].
  simpl. destruct (o_track o =? id); simpl; rewrite IH; reflexivity.
Qed.

Lemma flat_track_Fid id out : flat_track id (rev out) = flatF (Fid id out).
Proof.
  unfold flat_track, Fid. induction (rev out) as [|p ps IH]; [reflexivity|].
  simpl. rewrite IH, flat_part_filter, filter_app, flatF_app. reflexivity.
Qed.

Lemma Fid_cons id os out : Fid id (os :: out) = Fid id out ++ filter (fun o => o_track o =? id) os.
Proof. unfold Fid. simpl. rewrite concat_app, filter_app. simpl. rewrite app_nil_r. reflexivity. Qed.

Definition Inv (m : mstate) (A : Z -> astate) : Prop :=
  NoDup (map t_id (m_tracks m)) /\
  Forall (fun t => R t (Fid (t_id t) (m_out m)) (A (t_id t))) (m_tracks m).

Definition upd (A : Z -> astate) (id : Z) (a : astate) : Z -> astate :=
  fun i => if i =? id then a else A i.

Lemma get_track_in id ts t : get_track id ts = Some t -> In t ts /\ t_id t = id.
Proof.
  induction ts as [|x r IH]; [discriminate|]. simpl. destruct (t_id x =? id) eqn:E.
  - intros H. inversion H; subst. split; [left; reflexivity|lia].
  - intros H. destruct (IH H). split; [right; assumption|assumption].
Qed.

Lemma get_track_none id ts f : get_track id ts = None -> upd_track id f ts = ts.
Proof.
  induction ts as [|x r IH]; [reflexivity|]. simpl. destruct (t_id x =? id); [discriminate|].
  intros H. rewrite (IH H). reflexivity.
Qed.

Lemma upd_track_ids id f ts t : get_track id ts = Some t -> t_id (f t) = id ->
  map t_id (upd_track id f ts) = map t_id ts.
Proof.
  induction ts as [|x r IH]; [discriminate|]. simpl. destruct (t_id x =? id) eqn:E.
  - intros H Hf. inversion H; subst. simpl. f_equal. lia.
  - intros H Hf. simpl. f_equal. apply IH; assumption.
Qed.

Lemma upd_track_Forall (P Q : tstate -> Prop) id f ts t :
  NoDup (map t_id ts) -> get_track id ts = Some t -> Forall P ts ->
  (P t -> Q (f t)) -> (forall x, In x ts -> t_id x <> id -> P x -> Q x) ->
  Forall Q (upd_track id f ts).
Proof.
  induction ts as [|x r IH]; [discriminate|]. simpl. intros Hnd Hg HP Hq Hother.
  inversion Hnd as [|? ? Hnotin Hnd']; subst. inversion HP as [|? ? HPx HPr]; subst.
  destruct (t_id x =? id) eqn:E.
  - inversion Hg; subst. constructor; [apply Hq; exact HPx|].
    rewrite Forall_forall in *. intros y Hy. apply Hother; [right; exact Hy| |apply HPr; exact Hy].
    intros Ey. apply Hnotin. apply in_map_iff. exists y. split; [lia|exact Hy].
  - constructor; [apply Hother; [left; reflexivity|lia|exact HPx]|].
    apply IH; try assumption. intros y Hy. apply Hother. right. exact Hy.
Qed.

Lemma flush_tracks_spec f ts :
  fst (flush_tracks f ts) = flat_map (fun t => opt_list (fst (flush_track f t))) ts /\
  snd (flush_tracks f ts) = map (fun t => snd (flush_track f t)) ts.
Proof.
  induction ts as [|t r IH]; [split; reflexivity|].
  cbn [flush_tracks]. destruct (flush_track f t) as [o t'] eqn:Et. destruct (flush_tracks f r) as [os r'] eqn:Er.
  cbn [fst snd] in *. destruct IH as (IH1 & IH2). subst os r'. cbn [flat_map map]. rewrite Et. cbn [fst snd].
  split; [destruct o; reflexivity|reflexivity].
Qed.

Lemma filter_flush_other id f ts : (forall x, In x ts -> t_id x <> id) ->
  filter (fun o => o_track o =? id) (flat_map (fun t => opt_list (fst (flush_track f t))) ts) = [].
Proof.
  induction ts as [|x r IH]; intros H; [reflexivity|].
  cbn [flat_map]. rewrite filter_app, IH by (intros y Hy; apply H; right; exact Hy). rewrite app_nil_r.
  destruct (fst (flush_track f x)) as [o|] eqn:E; [|reflexivity]. simpl.
  rewrite (flush_track_otrack f x o E).
  destruct (t_id x =? id) eqn:E2; [|reflexivity]. exfalso. apply (H x (or_introl eq_refl)). lia.
Qed.

Lemma filter_flush id f ts t : NoDup (map t_id ts) -> In t ts -> t_id t = id ->
  filter (fun o => o_track o =? id) (flat_map (fun t => opt_list (fst (flush_track f t))) ts)
  = opt_list (fst (flush_track f t)).
Proof.
  induction ts as [|x r IH]; intros Hnd Hin Hid; [destruct Hin|].
  inversion Hnd as [|? ? Hnotin Hnd']; subst.
  cbn [flat_map]. rewrite filter_app. destruct Hin as [->|Hin].
  - rewrite filter_flush_other.
    + rewrite app_nil_r. destruct (fst (flush_track f t)) as [o|] eqn:E; [|reflexivity]. simpl.
      rewrite (flush_track_otrack f t o E), Z.eqb_refl. reflexivity.
    + intros y Hy Ey. apply Hnotin. apply in_map_iff. exists y. split; [exact Ey|exact Hy].
  - rewrite (IH Hnd' Hin eq_refl).
    assert (Hx : t_id x <> t_id t).
    { intros Ex. apply Hnotin. apply in_map_iff. exists t. split; [symmetry; exact Ex|exact Hin]. }
    destruct (fst (flush_track f x)) as [o|] eqn:E; [|reflexivity]. simpl.
    rewrite (flush_track_otrack f x o E). destruct (t_id x =? t_id t) eqn:E2; [lia|reflexivity].
Qed.

Lemma flush_ids f ts : map t_id (map (fun t => snd (flush_track f t)) ts) = map t_id ts.
Proof. rewrite map_map. apply map_ext. intros t. apply flush_track_id. Qed.

(* the tracks after a non-final flush, whatever list of parts `out'` extends the old one by the new part *)
Lemma Inv_flush_tracks m A out' :
  Inv m A ->
  (forall id, Fid id out' = Fid id (m_out m) ++
     filter (fun o => o_track o =? id) (flat_map (fun t => opt_list (fst (flush_track false t))) (m_tracks m))) ->
  Forall (fun t => R t (Fid (t_id t) out') (A (t_id t))) (map (fun t => snd (flush_track false t)) (m_tracks m)).
Proof.
  intros (Hnd & HR) Hout. rewrite Forall_forall in *. intros t' Hin.
  apply in_map_iff in Hin. destruct Hin as (t & <- & Hin).
  rewrite flush_track_id, Hout, (filter_flush (t_id t) false (m_tracks m) t Hnd Hin eq_refl).
  apply R_flush. apply HR. exact Hin.
Qed.

Lemma Inv_flush m A m' : Inv m A -> inner_flush false m = Ok m' -> Inv m' A /\ m_cur m' = m_cur m.
Proof.
  intros HI Hf. unfold inner_flush in Hf.
  destruct (flush_tracks_spec false (m_tracks m)) as (E1 & E2).
  destruct (flush_tracks false (m_tracks m)) as [os ts'] eqn:Eft. cbn [fst snd] in E1, E2.
  destruct os as [|o os'].
  - destruct (m_init m); [discriminate|]. inversion Hf; subst m'. split; [|reflexivity].
    split; cbn [m_tracks m_out].
    + rewrite E2, flush_ids. exact (proj1 HI).
    + rewrite E2. apply Inv_flush_tracks; [exact HI|]. intros id. rewrite <- E1. simpl. rewrite app_nil_r. reflexivity.
  - inversion Hf; subst m'. split; [|reflexivity].
    split; cbn [m_tracks m_out].
    + rewrite E2, flush_ids. exact (proj1 HI).
    + rewrite E2. apply Inv_flush_tracks; [exact HI|]. intros id. rewrite <- E1. apply Fid_cons.
Qed.

Lemma Inv_write m A dts s m' : Inv m A -> step_ok (A (m_cur m)) dts -> write_sample m dts s = Ok m' ->
  Inv m' (upd A (m_cur m) (a_write dts s (A (m_cur m)))) /\ m_cur m' = m_cur m.
Proof.
  intros HI Hstep Hw. unfold write_sample in Hw.
  destruct (get_track (m_cur m) (m_tracks m)) as [t|] eqn:Eg; [|discriminate].
  destruct (get_track_in _ _ _ Eg) as (Hin & Hid).
  destruct (write_track dts s t) as [t' fl] eqn:Ew.
  assert (Et' : t' = fst (write_track dts s t)) by (rewrite Ew; reflexivity).
  assert (Hid' : t_id t' = m_cur m) by (rewrite Et', write_track_id; exact Hid).
  set (A' := upd A (m_cur m) (a_write dts s (A (m_cur m)))).
  set (m1 := mkM (upd_track (m_cur m) (fun _ => t') (m_tracks m)) (m_cur m) (m_init m) (m_out m)) in *.
  assert (HI1 : Inv m1 A').
  { destruct HI as (Hnd & HR). split; cbn [m1 m_tracks m_out].
    - rewrite (upd_track_ids _ _ _ t Eg Hid'). exact Hnd.
    - apply (upd_track_Forall (fun x => R x (Fid (t_id x) (m_out m)) (A (t_id x))) _ _ _ _ t Hnd Eg HR).
      + intros HRt. rewrite Hid'. unfold A', upd. rewrite Z.eqb_refl. rewrite Et'. rewrite Hid in HRt.
        apply R_write; assumption.
      + intros x _ Hx HRx. unfold A', upd. destruct (t_id x =? m_cur m) eqn:E; [lia|exact HRx]. }
  destruct fl.
  - destruct (Inv_flush m1 A' m' HI1 Hw) as (H1 & H2). split; [exact H1|exact H2].
  - inversion Hw; subst m'. split; [exact HI1|reflexivity].
Qed.

Lemma Inv_final m A dts : Inv m A -> Inv (write_final m dts) A.
Proof.
  intros (Hnd & HR). unfold write_final. split; cbn [m_tracks m_out].
  - destruct (get_track (m_cur m) (m_tracks m)) as [t|] eqn:Eg.
    + rewrite (upd_track_ids _ _ _ t Eg); [exact Hnd|].
      rewrite final_track_id. exact (proj2 (get_track_in _ _ _ Eg)).
    + rewrite (get_track_none _ _ _ Eg). exact Hnd.
  - destruct (get_track (m_cur m) (m_tracks m)) as [t|] eqn:Eg.
    + apply (upd_track_Forall (fun x => R x (Fid (t_id x) (m_out m)) (A (t_id x))) _ _ _ _ t Hnd Eg HR).
      * intros HRt. rewrite final_track_id. apply R_final. exact HRt.
      * intros x _ _ HRx. exact HRx.
    + rewrite (get_track_none _ _ _ Eg). exact HR.
Qed.

(* ------------------------------------------------------------------ sequences of muxer calls *)

Inductive ev := W (dts : Z) (s : sample) | Fin (dts : Z).
Definition event : Type := (Z * ev)%type.

Definition set_cur (m : mstate) (tr : Z) : mstate := mkM (m_tracks m) tr (m_init m) (m_out m).

Fixpoint run_events (m : mstate) (evs : list event) : res mstate :=
  match evs with
  | [] => Ok m
  | (tr, W dts s) :: r => bind (write_sample (set_cur m tr) dts s) (fun m' => run_events m' r)
  | (tr, Fin dts) :: r => run_events (write_final (set_cur m tr) dts) r
  end.

Fixpoint aall (A : Z -> astate) (evs : list event) : Z -> astate :=
  match evs with
  | [] => A
  | (tr, W dts s) :: r => aall (upd A tr (a_write dts s (A tr))) r
  | (_, Fin _) :: r => aall A r
  end.

Fixpoint ev_ok (A : Z -> astate) (evs : list event) : Prop :=
  match evs with
  | [] => True
  | (tr, W dts s) :: r => step_ok (A tr) dts /\ ev_ok (upd A tr (a_write dts s (A tr))) r
  | (_, Fin _) :: r => ev_ok A r
  end.

Lemma Inv_set_cur m A tr : Inv m A -> Inv (set_cur m tr) A.
Proof. intros H. exact H. Qed.

Lemma Inv_run evs : forall m A m', Inv m A -> ev_ok A evs -> run_events m evs = Ok m' -> Inv m' (aall A evs).
Proof.
  induction evs as [|[tr [dts s|dts]] r IH]; intros m A m' HI Hok Hr.
  - inversion Hr; subst. exact HI.
  - cbn [run_events] in Hr. destruct (write_sample (set_cur m tr) dts s) as [m1| |] eqn:Ew; try discriminate.
    cbn [bind] in Hr. destruct Hok as (Hs & Hok).
    destruct (Inv_write (set_cur m tr) A dts s m1 (Inv_set_cur m A tr HI) Hs Ew) as (H1 & _).
    apply (IH m1 _ m' H1 Hok Hr).
  - cbn [run_events] in Hr. apply (IH _ A m' (Inv_final (set_cur m tr) A dts (Inv_set_cur m A tr HI)) Hok Hr).
Qed.

Lemma Inv_init tracks : NoDup (map (fun x => fst (fst x)) tracks) -> Inv (mux_init tracks) (fun _ => APre []).
Proof.
  intros Hnd. split; cbn [mux_init m_tracks m_out].
  - rewrite map_map. erewrite map_ext; [exact Hnd|]. intros [[i ts] c]. reflexivity.
  - rewrite Forall_forall. intros t Hin. apply in_map_iff in Hin. destruct Hin as ([[i ts] c] & <- & _).
    cbn [R t_first t_rsamples t_id]. split; [lia|]. split; [reflexivity|]. split; [reflexivity|constructor].
Qed.

(* the sample table of the file, per track *)
Lemma final_rows m A m' t : Inv m A -> inner_flush true m = Ok m' -> In t (m_tracks m) ->
  srows (flat_track (t_id t) (rev (m_out m'))) = aout (A (t_id t)).
Proof.
  intros (Hnd & HR) Hf Hin. unfold inner_flush in Hf.
  destruct (flush_tracks_spec true (m_tracks m)) as (E1 & _).
  destruct (flush_tracks true (m_tracks m)) as [os ts'] eqn:Eft. cbn [fst] in E1.
  rewrite Forall_forall in HR. specialize (HR t Hin).
  assert (Hgoal : forall out', Fid (t_id t) out' = Fid (t_id t) (m_out m) ++ filter (fun o => o_track o =? t_id t) os ->
                               srows (flat_track (t_id t) (rev out')) = aout (A (t_id t))).
  { intros out' Hout. rewrite flat_track_Fid, Hout, E1, (filter_flush (t_id t) true (m_tracks m) t Hnd Hin eq_refl).
    apply R_flush_final. exact HR. }
  destruct os as [|o os'].
  - destruct (m_init m); [discriminate|]. inversion Hf; subst m'. cbn [m_out]. apply Hgoal. simpl. rewrite app_nil_r. reflexivity.
  - inversion Hf; subst m'. cbn [m_out]. apply Hgoal. apply Fid_cons.
Qed.

Definition ids (m : mstate) : list Z := map t_id (m_tracks m).

Lemma ids_flush f m m' : inner_flush f m = Ok m' -> ids m' = ids m.
Proof.
  unfold inner_flush, ids. destruct (flush_tracks_spec f (m_tracks m)) as (_ & E2).
  destruct (flush_tracks f (m_tracks m)) as [os ts'] eqn:Eft. cbn [snd] in E2.
  destruct os as [|o os']; [destruct (m_init m); [discriminate|]|]; intros H; inversion H; subst m'; cbn [m_tracks];
    rewrite E2; apply flush_ids.
Qed.

Lemma ids_write m dts s m' : write_sample m dts s = Ok m' -> ids m' = ids m.
Proof.
  unfold write_sample. destruct (get_track (m_cur m) (m_tracks m)) as [t|] eqn:Eg; [|discriminate].
  destruct (write_track dts s t) as [t' fl] eqn:Ew.
  assert (Hid' : t_id t' = m_cur m).
  { replace t' with (fst (write_track dts s t)) by (rewrite Ew; reflexivity). rewrite write_track_id.
    exact (proj2 (get_track_in _ _ _ Eg)). }
  assert (E : ids (mkM (upd_track (m_cur m) (fun _ => t') (m_tracks m)) (m_cur m) (m_init m) (m_out m)) = ids m).
  { unfold ids. cbn [m_tracks]. apply (upd_track_ids _ _ _ t Eg Hid'). }
  destruct fl; intros H.
  - rewrite (ids_flush false _ _ H). exact E.
  - inversion H; subst m'. exact E.
Qed.

Lemma ids_final m dts : ids (write_final m dts) = ids m.
Proof.
  unfold write_final, ids. cbn [m_tracks].
  destruct (get_track (m_cur m) (m_tracks m)) as [t|] eqn:Eg.
  - apply (upd_track_ids _ _ _ t Eg). rewrite final_track_id. exact (proj2 (get_track_in _ _ _ Eg)).
  - rewrite (get_track_none _ _ _ Eg). reflexivity.
Qed.

Lemma ids_run evs : forall m m', run_events m evs = Ok m' -> ids m' = ids m.
Proof.
  induction evs as [|[tr [dts s|dts]] r IH]; intros m m' Hr.
  - inversion Hr; reflexivity.
  - cbn [run_events] in Hr. destruct (write_sample (set_cur m tr) dts s) as [m1| |] eqn:Ew; try discriminate.
    cbn [bind] in Hr. rewrite (IH m1 m' Hr), (ids_write _ _ _ _ Ew). reflexivity.
  - cbn [run_events] in Hr. rewrite (IH _ m' Hr), ids_final. reflexivity.
Qed.

Lemma run_events_app a : forall m b, run_events m (a ++ b) = bind (run_events m a) (fun m' => run_events m' b).
Proof.
  induction a as [|[tr [dts s|dts]] r IH]; intros m b; [reflexivity| |].
  - cbn [app run_events]. destruct (write_sample (set_cur m tr) dts s); cbn [bind]; [apply IH|reflexivity|reflexivity].
  - cbn [app run_events]. apply IH.
Qed.

(* ------------------------------------------------------------------ the calls segmentFMP4MuxParts makes *)

Fixpoint ev_entries (tr dts dur_mp4 : Z) (l : list sample) : list event * Z * bool :=
  match l with
  | [] => ([], dts, false)
  | e :: r =>
      if dts >=? dur_mp4 then ([], dts, true)
      else let '(evs, dts', b) := ev_entries tr (dts + sm_dur e) dur_mp4 r in ((tr, W dts e) :: evs, dts', b)
  end.

Definition ev_traf (start_dts duration : Z) (tracks : list trackdesc) (tf : traf) : option (list event * Z * bool) :=
  match find_ts (tf_track tf) tracks with
  | None => None
  | Some ts =>
      let start_mp4 := go_to_mp4 start_dts ts in
      let '(evs, dts, b) := ev_entries (tf_track tf) (tf_base tf + start_mp4) (go_to_mp4 duration ts) (tf_samples tf) in
      Some (evs ++ [(tf_track tf, Fin dts)], mp4_to_go (dts - start_mp4) ts, b)
  end.

Fixpoint ev_part (start_dts duration : Z) (tracks : list trackdesc) (p : part) (sd : Z) (brk : bool)
  : option (list event * Z * bool) :=
  match p with
  | [] => Some ([], sd, brk)
  | tf :: r =>
      match ev_traf start_dts duration tracks tf with
      | None => None
      | Some (evs, el, b) =>
          match ev_part start_dts duration tracks r (if el >? sd then el else sd) (brk || b) with
          | None => None
          | Some (evs', sd', b') => Some (evs ++ evs', sd', b')
          end
      end
  end.

Fixpoint ev_parts (start_dts duration : Z) (tracks : list trackdesc) (ps : list part) (sd : Z)
  : option (list event * Z) :=
  match ps with
  | [] => Some ([], sd)
  | p :: r =>
      match ev_part start_dts duration tracks p sd false with
      | None => None
      | Some (evs, sd', brk) =>
          if brk then Some (evs, sd')
          else match ev_parts start_dts duration tracks r sd' with
               | None => None
               | Some (evs', sd'') => Some (evs ++ evs', sd'')
               end
      end
  end.

Lemma set_cur_same m : set_cur m (m_cur m) = m.
Proof. destruct m; reflexivity. Qed.

Lemma cur_flush f m m' : inner_flush f m = Ok m' -> m_cur m' = m_cur m.
Proof.
  unfold inner_flush. destruct (flush_tracks f (m_tracks m)) as [os ts'].
  destruct os; [destruct (m_init m); [discriminate|]|]; intros H; inversion H; reflexivity.
Qed.

Lemma cur_write m dts s m' : write_sample m dts s = Ok m' -> m_cur m' = m_cur m.
Proof.
  unfold write_sample. destruct (get_track (m_cur m) (m_tracks m)); [|discriminate].
  destruct (write_track dts s t) as [t' fl]. destruct fl; intros H.
  - rewrite (cur_flush _ _ _ H). reflexivity.
  - inversion H; reflexivity.
Qed.

Lemma mux_entries_ev l : forall m dts d m' dts' b,
  mux_entries m dts d l = Ok (m', dts', b) ->
  exists evs, ev_entries (m_cur m) dts d l = (evs, dts', b) /\ run_events m evs = Ok m' /\ m_cur m' = m_cur m.
Proof.
  induction l as [|e r IH]; intros m dts d m' dts' b H.
  - inversion H; subst. exists []. repeat split.
  - cbn [mux_entries ev_entries] in *. destruct (dts >=? d).
    + inversion H; subst. exists []. repeat split.
    + destruct (write_sample m dts e) as [m1| |] eqn:Ew; try discriminate. cbn [bind] in H.
      destruct (IH m1 _ _ _ _ _ H) as (evs & E1 & E2 & E3).
      pose proof (cur_write _ _ _ _ Ew) as Hc. rewrite Hc in E1.
      exists ((m_cur m, W dts e) :: evs). rewrite E1. split; [reflexivity|]. split.
      * cbn [run_events]. rewrite set_cur_same, Ew. exact E2.
      * lia.
Qed.

Lemma mux_traf_ev m sdts dur tracks tf m' el b :
  mux_traf m sdts dur tracks tf = Ok (m', el, b) ->
  exists evs, ev_traf sdts dur tracks tf = Some (evs, el, b) /\ run_events m evs = Ok m'.
Proof.
  unfold mux_traf, ev_traf. destruct (find_ts (tf_track tf) tracks) as [ts|]; [|discriminate].
  set (m1 := mkM (m_tracks m) (tf_track tf) (m_init m) (m_out m)).
  destruct (mux_entries m1 (tf_base tf + go_to_mp4 sdts ts) (go_to_mp4 dur ts) (tf_samples tf)) as [[[m2 dts] brk]| |] eqn:Em;
    try discriminate.
  cbn [bind]. intros H. inversion H; subst m' el b. clear H.
  destruct (mux_entries_ev _ _ _ _ _ _ _ Em) as (evs & E1 & E2 & E3).
  change (m_cur m1) with (tf_track tf) in E1, E3. rewrite E1.
  exists (evs ++ [(tf_track tf, Fin dts)]). split; [reflexivity|].
  rewrite run_events_app.
  assert (Hrun : run_events m evs = run_events m1 evs \/ evs = []).
  { destruct evs as [|[tr [d0 s0|d0]] r]; [right; reflexivity|left; reflexivity|left; reflexivity]. }
  destruct Hrun as [Hrun|Hnil].
  - rewrite Hrun, E2. cbn [bind run_events]. rewrite <- E3, set_cur_same. reflexivity.
  - subst evs. cbn [run_events] in E2. inversion E2; subst m2. cbn [run_events bind]. reflexivity.
Qed.

Lemma mux_part_ev p : forall m sdts dur tracks sd brk m' sd' b,
  mux_part m sdts dur tracks p sd brk = Ok (m', sd', b) ->
  exists evs, ev_part sdts dur tracks p sd brk = Some (evs, sd', b) /\ run_events m evs = Ok m'.
Proof.
  induction p as [|tf r IH]; intros m sdts dur tracks sd brk m' sd' b H.
  - inversion H; subst. exists []. split; reflexivity.
  - cbn [mux_part ev_part] in *.
    destruct (mux_traf m sdts dur tracks tf) as [[[m1 el] b1]| |] eqn:Et; try discriminate. cbn [bind] in H.
    destruct (mux_traf_ev _ _ _ _ _ _ _ _ Et) as (evs1 & E1 & R1). rewrite E1.
    destruct (IH _ _ _ _ _ _ _ _ _ H) as (evs2 & E2 & R2). rewrite E2.
    exists (evs1 ++ evs2). split; [reflexivity|]. rewrite run_events_app, R1. exact R2.
Qed.

Lemma mux_parts_ev ps : forall m sdts dur tracks sd m' sd',
  mux_parts m sdts dur tracks ps sd = Ok (m', sd') ->
  exists evs, ev_parts sdts dur tracks ps sd = Some (evs, sd') /\ run_events m evs = Ok m'.
Proof.
  induction ps as [|p r IH]; intros m sdts dur tracks sd m' sd' H.
  - inversion H; subst. exists []. split; reflexivity.
  - cbn [mux_parts ev_parts] in *.
    destruct (mux_part m sdts dur tracks p sd false) as [[[m1 sd1] b1]| |] eqn:Ep; try discriminate. cbn [bind] in H.
    destruct (mux_part_ev _ _ _ _ _ _ _ _ _ _ Ep) as (evs1 & E1 & R1). rewrite E1.
    destruct b1.
    + inversion H; subst. exists evs1. split; [reflexivity|exact R1].
    + destruct (IH _ _ _ _ _ _ _ H) as (evs2 & E2 & R2). rewrite E2.
      exists (evs1 ++ evs2). split; [reflexivity|]. rewrite run_events_app, R1. exact R2.
Qed.

(* ------------------------------------------------------------------ seekAndMux *)

Definition seg_off (first : seg) (start_off start : Z) (g : gseg) : Z :=
  match s_mtxi first, s_mtxi (g_seg g) with
  | Some fm, Some mx => mx_dts mx - mx_dts fm + start_off
  | _, _ => g_start g - start
  end.

(* events + the segments played after the first one, each with the offset of its time zero from the start *)
Fixpoint ev_rest (first : seg) (start_off start duration : Z) (prev : seg) (seg_end_ : Z) (l : list gseg)
  : option (list event * list (gseg * Z)) :=
  match l with
  | [] => Some ([], [])
  | g :: r =>
      if negb (can_concat prev seg_end_ (g_seg g)) then Some ([], [])
      else
        let dts := seg_off first start_off start g in
        match ev_parts dts duration (s_tracks first) (g_parts g) 0 with
        | None => None
        | Some (evs, sd) =>
            match ev_rest first start_off start duration (g_seg g) (g_start g + sd) r with
            | None => None
            | Some (evs', vis) => Some (evs ++ evs', (g, dts) :: vis)
            end
        end
  end.

Definition ev_all (segs : list gseg) (start duration : Z) : option (list event * list (gseg * Z)) :=
  match segs with
  | [] => None
  | g0 :: rest =>
      let first := g_seg g0 in
      let off := g_start g0 - start in
      match ev_parts off duration (s_tracks first) (g_parts g0) 0 with
      | None => None
      | Some (evs, sd) =>
          match ev_rest first off start duration first (g_start g0 + sd) rest with
          | None => None
          | Some (evs', vis) => Some (evs ++ evs', (g0, off) :: vis)
          end
      end
  end.

Lemma mux_rest_ev l : forall m first soff start dur prev se m',
  mux_rest m first soff start dur prev se l = Ok m' ->
  exists evs vis, ev_rest first soff start dur prev se l = Some (evs, vis) /\ run_events m evs = Ok m'.
Proof.
  induction l as [|g r IH]; intros m first soff start dur prev se m' H.
  - inversion H; subst. exists [], []. split; reflexivity.
  - cbn [mux_rest ev_rest] in *. destruct (negb (can_concat prev se (g_seg g))).
    + inversion H; subst. exists [], []. split; reflexivity.
    + fold (seg_off first soff start g) in H.
      destruct (mux_parts m (seg_off first soff start g) dur (s_tracks first) (g_parts g) 0) as [[m1 sd]| |] eqn:Ep;
        try discriminate. cbn [bind] in H.
      destruct (mux_parts_ev _ _ _ _ _ _ _ _ Ep) as (evs1 & E1 & R1). rewrite E1.
      destruct (IH _ _ _ _ _ _ _ _ H) as (evs2 & vis & E2 & R2). rewrite E2.
      exists (evs1 ++ evs2), ((g, seg_off first soff start g) :: vis). split; [reflexivity|].
      rewrite run_events_app, R1. exact R2.
Qed.

Lemma seek_and_mux_ev segs start dur m :
  seek_and_mux segs start dur = Ok m ->
  exists g0 rest evs vis m0, segs = g0 :: rest /\ ev_all segs start dur = Some (evs, vis) /\
    run_events (mux_init (s_tracks (g_seg g0))) evs = Ok m0 /\ inner_flush true m0 = Ok m.
Proof.
  unfold seek_and_mux, ev_all. destruct segs as [|g0 rest]; [discriminate|].
  destruct (mux_parts (mux_init (s_tracks (g_seg g0))) (g_start g0 - start) dur (s_tracks (g_seg g0)) (g_parts g0) 0)
    as [[m1 sd]| |] eqn:Ep; try discriminate. cbn [bind].
  destruct (mux_parts_ev _ _ _ _ _ _ _ _ Ep) as (evs1 & E1 & R1). rewrite E1.
  destruct (mux_rest m1 (g_seg g0) (g_start g0 - start) start dur (g_seg g0) (g_start g0 + sd) rest) as [m2| |] eqn:Er;
    try discriminate. cbn [bind]. intros Hf.
  destruct (mux_rest_ev _ _ _ _ _ _ _ _ _ Er) as (evs2 & vis & E2 & R2). rewrite E2.
  exists g0, rest, (evs1 ++ evs2), ((g0, g_start g0 - start) :: vis), m2.
  repeat split; try reflexivity; [|exact Hf]. rewrite run_events_app, R1. exact R2.
Qed.

(* ------------------------------------------------------------------ the writes of one track *)

Fixpoint wev (id : Z) (evs : list event) : list (sample * Z) :=
  match evs with
  | [] => []
  | (tr, W dts s) :: r => if tr =? id then (s, dts) :: wev id r else wev id r
  | (_, Fin _) :: r => wev id r
  end.

Lemma wev_app id a b : wev id (a ++ b) = wev id a ++ wev id b.
Proof.
  induction a as [|[tr [dts s|dts]] r IH]; [reflexivity| |]; cbn [app wev]; [|exact IH].
  destruct (tr =? id); [cbn [app]; f_equal|]; exact IH.
Qed.

Definition afold (rows : list (sample * Z)) (a : astate) : astate :=
  fold_left (fun a x => a_write (snd x) (fst x) a) rows a.

Lemma aall_track id evs : forall A, aall A evs id = afold (wev id evs) (A id).
Proof.
  induction evs as [|[tr [dts s|dts]] r IH]; intros A; [reflexivity| |]; cbn [aall wev]; [|apply IH].
  rewrite IH. unfold upd. rewrite (Z.eqb_sym id tr). destruct (tr =? id) eqn:E; [|reflexivity].
  assert (tr = id) by lia. subst tr. reflexivity.
Qed.

Fixpoint steps_ok_rows (a : astate) (rows : list (sample * Z)) : Prop :=
  match rows with
  | [] => True
  | x :: r => step_ok a (snd x) /\ steps_ok_rows (a_write (snd x) (fst x) a) r
  end.

Lemma ev_ok_tracks evs : forall A, (forall id, steps_ok_rows (A id) (wev id evs)) -> ev_ok A evs.
Proof.
  induction evs as [|[tr [dts s|dts]] r IH]; intros A H; [exact I| |].
  - cbn [ev_ok]. pose proof (H tr) as Htr. cbn [wev] in Htr. rewrite Z.eqb_refl in Htr. cbn [steps_ok_rows fst snd] in Htr.
    destruct Htr as (H1 & H2). split; [exact H1|]. apply IH. intros id. unfold upd.
    destruct (id =? tr) eqn:E.
    + assert (id = tr) by lia. subst id. exact H2.
    + specialize (H id). cbn [wev] in H. rewrite (Z.eqb_sym tr id), E in H. exact H.
  - cbn [ev_ok]. apply IH. intros id. exact (H id).
Qed.

(* decode times that never go back and advance by less than 2^32 *)
Fixpoint steps_sorted (l : list Z) : Prop :=
  match l with
  | a :: ((b :: _) as r) => a <= b < a + two32 /\ steps_sorted r
  | _ => True
  end.

Lemma steps_sorted_tail a l : steps_sorted (a :: l) -> steps_sorted l.
Proof. destruct l; simpl; tauto. Qed.

Lemma steps_sorted_le a l : steps_sorted (a :: l) -> forall y, In y l -> a <= y.
Proof.
  revert a. induction l as [|b r IH]; intros a H y Hin; [destruct Hin|].
  simpl in H. destruct H as (H1 & H2). destruct Hin as [<-|Hin]; [lia|].
  specialize (IH b H2 y Hin). lia.
Qed.

Lemma steps_sorted_app a b : steps_sorted (a ++ b) -> steps_sorted a /\ steps_sorted b.
Proof.
  induction a as [|x a IH]; intros H; [split; [exact I|exact H]|].
  destruct (IH (steps_sorted_tail _ _ H)) as (H1 & H2). split; [|exact H2].
  destruct a as [|y a']; [exact I|]. simpl in H |- *. split; [tauto|exact H1].
Qed.

Lemma steps_vis rows : forall r last, 0 <= last ->
  steps_sorted (last :: map snd rows) -> steps_ok_rows (AVis r last) rows.
Proof.
  induction rows as [|[s t] rows IH]; intros r last Hl H; [exact I|].
  cbn [steps_ok_rows step_ok fst snd]. cbn [map snd] in H. destruct H as (H1 & H2).
  split; [exact H1|]. unfold a_write. assert (E : (0 <=? t) = true) by lia. rewrite E.
  apply IH; [lia|exact H2].
Qed.

Lemma steps_pre rows : forall pre, steps_sorted (map snd rows) -> steps_ok_rows (APre pre) rows.
Proof.
  induction rows as [|[s t] rows IH]; intros pre H; [exact I|].
  cbn [steps_ok_rows step_ok fst snd]. split; [exact I|]. unfold a_write.
  destruct (0 <=? t) eqn:E.
  - apply steps_vis; [lia|exact H].
  - apply IH. exact (steps_sorted_tail _ _ H).
Qed.

(* ------------------------------------------------------------------ which samples are written *)

Fixpoint take_lt (d : Z) (l : list (sample * Z)) : list (sample * Z) :=
  match l with
  | [] => []
  | x :: r => if snd x >=? d then [] else x :: take_lt d r
  end.

Lemma ev_entries_w id tr l : forall dts d,
  wev id (fst (fst (ev_entries tr dts d l))) = (if tr =? id then take_lt d (flat_samples dts l) else []) /\
  snd (ev_entries tr dts d l) = existsb (fun x => d <=? snd x) (flat_samples dts l).
Proof.
  induction l as [|e r IH]; intros dts d.
  - cbn. destruct (tr =? id); split; reflexivity.
  - cbn [ev_entries flat_samples take_lt existsb snd].
    destruct (dts >=? d) eqn:E.
    + cbn [fst snd wev]. assert (E2 : (d <=? dts) = true) by lia. rewrite E2. destruct (tr =? id); split; reflexivity.
    + destruct (IH (dts + sm_dur e) d) as (IH1 & IH2).
      destruct (ev_entries tr (dts + sm_dur e) d r) as [[evs dts'] b]. cbn [fst snd] in *.
      cbn [wev]. rewrite IH1, IH2. assert (E2 : (d <=? dts) = false) by lia. rewrite E2.
      destruct (tr =? id); split; reflexivity.
Qed.

(* the recorded samples of one track in a traf / a part, with decode times relative to the requested start *)
Definition traf_rows (id ts off : Z) (tf : traf) : list (sample * Z) :=
  if tf_track tf =? id then flat_samples (tf_base tf + go_to_mp4 off ts) (tf_samples tf) else [].
Definition part_rows (id ts off : Z) (p : part) : list (sample * Z) := flat_map (traf_rows id ts off) p.

(* a traf holds a sample at or after the end of the window *)
Definition traf_hits (off dur : Z) (tracks : list trackdesc) (tf : traf) : bool :=
  match find_ts (tf_track tf) tracks with
  | Some ts => existsb (fun x => go_to_mp4 dur ts <=? snd x)
                       (flat_samples (tf_base tf + go_to_mp4 off ts) (tf_samples tf))
  | None => false
  end.

(* the parts of a segment that are read: up to and including the first one in which some track reaches the end *)
Fixpoint read_parts (off dur : Z) (tracks : list trackdesc) (ps : list part) : list part :=
  match ps with
  | [] => []
  | p :: r => p :: (if existsb (traf_hits off dur tracks) p then [] else read_parts off dur tracks r)
  end.

Lemma find_ts_eq id id' tracks : id' = id -> find_ts id' tracks = find_ts id tracks.
Proof. intros ->. reflexivity. Qed.

Lemma ev_traf_w id ts off dur tracks tf evs el b :
  find_ts id tracks = Some ts -> ev_traf off dur tracks tf = Some (evs, el, b) ->
  wev id evs = take_lt (go_to_mp4 dur ts) (traf_rows id ts off tf) /\ b = traf_hits off dur tracks tf.
Proof.
  intros Hts. unfold ev_traf, traf_rows, traf_hits.
  destruct (find_ts (tf_track tf) tracks) as [ts'|] eqn:Ef; [|discriminate].
  destruct (ev_entries_w id (tf_track tf) (tf_samples tf) (tf_base tf + go_to_mp4 off ts') (go_to_mp4 dur ts')) as (E1 & E2).
  destruct (ev_entries (tf_track tf) (tf_base tf + go_to_mp4 off ts') (go_to_mp4 dur ts') (tf_samples tf)) as [[evs0 dts] b0].
  cbn [fst snd] in E1, E2. intros H. inversion H; subst evs el b. clear H.
  rewrite wev_app. cbn [wev]. rewrite app_nil_r, E1. split; [|exact E2].
  destruct (tf_track tf =? id) eqn:E; [|reflexivity].
  assert (tf_track tf = id) by lia. rewrite (find_ts_eq id (tf_track tf) tracks H) in Ef. rewrite Hts in Ef.
  inversion Ef; subst ts'. reflexivity.
Qed.

Lemma ev_part_w id ts off dur tracks p : forall sd brk evs sd' b,
  find_ts id tracks = Some ts -> ev_part off dur tracks p sd brk = Some (evs, sd', b) ->
  wev id evs = flat_map (fun tf => take_lt (go_to_mp4 dur ts) (traf_rows id ts off tf)) p /\
  b = brk || existsb (traf_hits off dur tracks) p.
Proof.
  induction p as [|tf r IH]; intros sd brk evs sd' b Hts H.
  - inversion H; subst. split; [reflexivity|rewrite orb_false_r; reflexivity].
  - cbn [ev_part] in H. destruct (ev_traf off dur tracks tf) as [[[evs1 el] b1]|] eqn:Et; [|discriminate].
    destruct (ev_part off dur tracks r (if el >? sd then el else sd) (brk || b1)) as [[[evs2 sd2] b2]|] eqn:Ep; [|discriminate].
    inversion H; subst evs sd' b. clear H.
    destruct (ev_traf_w id ts off dur tracks tf evs1 el b1 Hts Et) as (A1 & A2).
    destruct (IH _ _ _ _ _ Hts Ep) as (B1 & B2).
    rewrite wev_app, A1, B1. split; [reflexivity|]. rewrite B2, A2. cbn [existsb]. rewrite orb_assoc. reflexivity.
Qed.

Lemma ev_parts_w id ts off dur tracks ps : forall sd evs sd',
  find_ts id tracks = Some ts -> ev_parts off dur tracks ps sd = Some (evs, sd') ->
  wev id evs = flat_map (flat_map (fun tf => take_lt (go_to_mp4 dur ts) (traf_rows id ts off tf)))
                        (read_parts off dur tracks ps).
Proof.
  induction ps as [|p r IH]; intros sd evs sd' Hts H.
  - inversion H; subst. reflexivity.
  - cbn [ev_parts read_parts] in *.
    destruct (ev_part off dur tracks p sd false) as [[[evs1 sd1] b1]|] eqn:Ep; [|discriminate].
    destruct (ev_part_w id ts off dur tracks p _ _ _ _ _ Hts Ep) as (A1 & A2). cbn [orb] in A2. rewrite <- A2.
    destruct b1.
    + inversion H; subst. cbn [flat_map]. rewrite app_nil_r. exact A1.
    + destruct (ev_parts off dur tracks r sd1) as [[evs2 sd2]|] eqn:Er; [|discriminate].
      inversion H; subst. cbn [flat_map]. rewrite wev_app, A1, (IH _ _ _ Hts Er). reflexivity.
Qed.

Definition seg_taken (id ts dur : Z) (tracks : list trackdesc) (x : gseg * Z) : list (sample * Z) :=
  flat_map (flat_map (fun tf => take_lt (go_to_mp4 dur ts) (traf_rows id ts (snd x) tf)))
           (read_parts (snd x) dur tracks (g_parts (fst x))).

Lemma ev_rest_w id ts l : forall first soff start dur prev se evs vis,
  find_ts id (s_tracks first) = Some ts ->
  ev_rest first soff start dur prev se l = Some (evs, vis) ->
  wev id evs = flat_map (seg_taken id ts dur (s_tracks first)) vis.
Proof.
  induction l as [|g r IH]; intros first soff start dur prev se evs vis Hts H.
  - inversion H; subst. reflexivity.
  - cbn [ev_rest] in H. destruct (negb (can_concat prev se (g_seg g))).
    + inversion H; subst. reflexivity.
    + destruct (ev_parts (seg_off first soff start g) dur (s_tracks first) (g_parts g) 0) as [[evs1 sd]|] eqn:Ep; [|discriminate].
      destruct (ev_rest first soff start dur (g_seg g) (g_start g + sd) r) as [[evs2 vis2]|] eqn:Er; [|discriminate].
      inversion H; subst. cbn [flat_map]. rewrite wev_app, (IH _ _ _ _ _ _ _ _ Hts Er).
      f_equal. unfold seg_taken. cbn [fst snd]. apply (ev_parts_w id ts _ dur _ _ _ _ _ Hts Ep).
Qed.

Lemma ev_all_w id ts segs start dur evs vis g0 rest :
  segs = g0 :: rest -> find_ts id (s_tracks (g_seg g0)) = Some ts ->
  ev_all segs start dur = Some (evs, vis) ->
  wev id evs = flat_map (seg_taken id ts dur (s_tracks (g_seg g0))) vis.
Proof.
  intros -> Hts. unfold ev_all.
  destruct (ev_parts (g_start g0 - start) dur (s_tracks (g_seg g0)) (g_parts g0) 0) as [[evs1 sd]|] eqn:Ep; [|discriminate].
  destruct (ev_rest (g_seg g0) (g_start g0 - start) start dur (g_seg g0) (g_start g0 + sd) rest) as [[evs2 vis2]|] eqn:Er;
    [|discriminate].
  intros H. inversion H; subst. cbn [flat_map]. rewrite wev_app, (ev_rest_w id ts _ _ _ _ _ _ _ _ _ Hts Er).
  f_equal. unfold seg_taken. cbn [fst snd]. apply (ev_parts_w id ts _ dur _ _ _ _ _ Hts Ep).
Qed.

(* ------------------------------------------------------------------ sorted decode times: taking = filtering *)

Definition lt_d (d : Z) (x : sample * Z) : bool := snd x <? d.

Lemma take_lt_filter d l : steps_sorted (map snd l) -> take_lt d l = filter (lt_d d) l.
Proof.
  induction l as [|x r IH]; intros H; [reflexivity|].
  cbn [take_lt filter]. unfold lt_d at 1. destruct (snd x >=? d) eqn:E.
  - assert (E2 : (snd x <? d) = false) by lia. rewrite E2.
    assert (Hall : forall y, In y r -> lt_d d y = false).
    { intros y Hy. cbn [map] in H. pose proof (steps_sorted_le _ _ H (snd y) (in_map snd _ _ Hy)). unfold lt_d. lia. }
    clear -Hall. induction r as [|y r IH]; [reflexivity|]. cbn [filter]. rewrite (Hall y (or_introl eq_refl)).
    apply IH. intros z Hz. apply Hall. right. exact Hz.
  - assert (E2 : (snd x <? d) = true) by lia. rewrite E2. f_equal. apply IH. exact (steps_sorted_tail _ _ H).
Qed.

Lemma flat_map_taken {A} (f g : A -> list (sample * Z)) d l :
  (forall x, In x l -> steps_sorted (map snd (f x)) -> g x = filter (lt_d d) (f x)) ->
  steps_sorted (map snd (flat_map f l)) -> flat_map g l = filter (lt_d d) (flat_map f l).
Proof.
  induction l as [|x r IH]; intros Hg H; [reflexivity|].
  cbn [flat_map] in *. rewrite map_app in H. destruct (steps_sorted_app _ _ H) as (H1 & H2).
  rewrite filter_app, (Hg x (or_introl eq_refl) H1), IH; [reflexivity| |exact H2].
  intros y Hy. apply Hg. right. exact Hy.
Qed.

(* all recorded samples of the track in the parts that are read, over the segments that are played *)
Definition seg_rows (id ts dur : Z) (tracks : list trackdesc) (x : gseg * Z) : list (sample * Z) :=
  flat_map (part_rows id ts (snd x)) (read_parts (snd x) dur tracks (g_parts (fst x))).
Definition read_rows (id ts dur : Z) (tracks : list trackdesc) (vis : list (gseg * Z)) : list (sample * Z) :=
  flat_map (seg_rows id ts dur tracks) vis.

Lemma taken_rows id ts dur tracks vis :
  steps_sorted (map snd (read_rows id ts dur tracks vis)) ->
  flat_map (seg_taken id ts dur tracks) vis = filter (lt_d (go_to_mp4 dur ts)) (read_rows id ts dur tracks vis).
Proof.
  unfold read_rows. apply flat_map_taken. intros x _ Hx.
  unfold seg_taken, seg_rows in *. apply flat_map_taken; [|exact Hx]. intros p _ Hp.
  unfold part_rows in *. apply flat_map_taken; [|exact Hp]. intros tf _ Htf.
  apply take_lt_filter. exact Htf.
Qed.

(* ------------------------------------------------------------------ what the muxer makes of sorted writes *)

Definition pre_fold (pre : list sample) (l : list sample) : list sample :=
  fold_left (fun pre s => if sm_sync s then [strip s] else pre ++ [strip s]) l pre.

(* the pre-roll kept from the samples before the requested start (oldest first) *)
Definition preroll (neg : list sample) : list sample := pre_fold [] neg.

Definition neg_t (x : sample * Z) : bool := snd x <? 0.
Definition vis_t (x : sample * Z) : bool := 0 <=? snd x.

Definition expected_rows (rows : list (sample * Z)) : list (sample * Z) :=
  match filter vis_t rows with
  | [] => []
  | (s0, t0) :: _ =>
      map (fun p => (p, t0)) (if sm_sync s0 then [] else preroll (map fst (filter neg_t rows)))
      ++ srows (filter vis_t rows)
  end.

Lemma afold_neg rows : forall pre, (forall x, In x rows -> snd x < 0) ->
  afold rows (APre pre) = APre (pre_fold pre (map fst rows)).
Proof.
  induction rows as [|[s t] rows IH]; intros pre H; [reflexivity|].
  unfold afold, pre_fold in *. cbn [fold_left map fst snd]. unfold a_write at 2.
  assert (E : (0 <=? t) = false) by (specialize (H (s, t) (or_introl eq_refl)); cbn in H; lia). rewrite E.
  apply IH. intros x Hx. apply H. right. exact Hx.
Qed.

Lemma afold_vis rows : forall r last, (forall x, In x rows -> 0 <= snd x) ->
  aout (afold rows (AVis r last)) = r ++ srows rows.
Proof.
  induction rows as [|[s t] rows IH]; intros r last H; [cbn; rewrite app_nil_r; reflexivity|].
  unfold afold in *. cbn [fold_left fst snd]. unfold a_write at 2.
  assert (E : (0 <=? t) = true) by (specialize (H (s, t) (or_introl eq_refl)); cbn in H; lia). rewrite E.
  rewrite IH by (intros x Hx; apply H; right; exact Hx). rewrite <- app_assoc. reflexivity.
Qed.

Lemma sorted_split rows : steps_sorted (map snd rows) ->
  rows = filter neg_t rows ++ filter vis_t rows /\
  (forall x, In x (filter neg_t rows) -> snd x < 0) /\ (forall x, In x (filter vis_t rows) -> 0 <= snd x).
Proof.
  intros H. split; [|split].
  - induction rows as [|x r IH]; [reflexivity|]. cbn [filter]. unfold neg_t at 1, vis_t at 1.
    destruct (snd x <? 0) eqn:E.
    + assert (E2 : (0 <=? snd x) = false) by lia. rewrite E2. cbn [app]. f_equal. apply IH. exact (steps_sorted_tail _ _ H).
    + assert (E2 : (0 <=? snd x) = true) by lia. rewrite E2.
      assert (Hall : forall y, In y r -> 0 <= snd y).
      { intros y Hy. cbn [map] in H. pose proof (steps_sorted_le _ _ H (snd y) (in_map snd _ _ Hy)). lia. }
      assert (Hn : filter neg_t r = []).
      { clear -Hall. induction r as [|y r IH]; [reflexivity|]. cbn [filter]. unfold neg_t at 1.
        pose proof (Hall y (or_introl eq_refl)). destruct (snd y <? 0) eqn:E; [lia|].
        apply IH. intros z Hz. apply Hall. right. exact Hz. }
      assert (Hv : filter vis_t r = r).
      { clear -Hall. induction r as [|y r IH]; [reflexivity|]. cbn [filter]. unfold vis_t at 1.
        pose proof (Hall y (or_introl eq_refl)). destruct (0 <=? snd y) eqn:E; [|lia].
        f_equal. apply IH. intros z Hz. apply Hall. right. exact Hz. }
      rewrite Hn, Hv. reflexivity.
  - intros x Hx. apply filter_In in Hx. unfold neg_t in Hx. lia.
  - intros x Hx. apply filter_In in Hx. unfold vis_t in Hx. lia.
Qed.

Lemma afold_app a b st : afold (a ++ b) st = afold b (afold a st).
Proof. unfold afold. apply fold_left_app. Qed.

Lemma afold_sorted rows : steps_sorted (map snd rows) -> aout (afold rows (APre [])) = expected_rows rows.
Proof.
  intros H. destruct (sorted_split rows H) as (Es & Hn & Hv). unfold expected_rows.
  rewrite Es at 1. rewrite afold_app, (afold_neg _ [] Hn).
  destruct (filter vis_t rows) as [|[s0 t0] vs] eqn:Ev; [reflexivity|].
  change (afold ((s0, t0) :: vs) (APre (pre_fold [] (map fst (filter neg_t rows)))))
    with (afold vs (a_write t0 s0 (APre (pre_fold [] (map fst (filter neg_t rows)))))).
  unfold a_write. assert (E : (0 <=? t0) = true) by (specialize (Hv (s0, t0) (or_introl eq_refl)); cbn in Hv; lia).
  rewrite E. rewrite afold_vis by (intros x Hx; apply Hv; right; exact Hx).
  unfold preroll. rewrite <- app_assoc. reflexivity.
Qed.

(* the pre-roll is the part of the earlier samples from their last sync sample on (all of them if none is sync) *)
Lemma preroll_spec l : exists before keep,
  l = before ++ keep /\ preroll l = map strip keep /\
  forallb (fun s => negb (sm_sync s)) (tl keep) = true /\
  (before = [] \/ exists k r, keep = k :: r /\ sm_sync k = true).
Proof.
  induction l as [|s l IH] using rev_ind.
  - exists [], []. repeat split. left. reflexivity.
  - destruct IH as (before & keep & E & Ep & Hns & Hb).
    unfold preroll, pre_fold in *. rewrite fold_left_app. cbn [fold_left]. rewrite Ep.
    destruct (sm_sync s) eqn:Es.
    + exists l, [s]. repeat split. right. exists s, []. split; [reflexivity|exact Es].
    + exists before, (keep ++ [s]). split; [rewrite E, app_assoc; reflexivity|]. split; [rewrite map_app; reflexivity|]. split.
      * destruct keep as [|k r]; [reflexivity|]. cbn [tl app] in *. rewrite forallb_app, Hns. cbn. rewrite Es. reflexivity.
      * destruct Hb as [Hb|(k & r & Ek & Hk)]; [left; exact Hb|]. right. exists k, (r ++ [s]). split; [rewrite Ek; reflexivity|exact Hk].
Qed.

(* ------------------------------------------------------------------ /get *)

Lemma take_lt_sorted d l : steps_sorted (map snd l) -> steps_sorted (map snd (take_lt d l)).
Proof.
  induction l as [|x r IH]; intros H; [exact I|].
  cbn [take_lt]. destruct (snd x >=? d); [exact I|].
  specialize (IH (steps_sorted_tail _ _ H)).
  destruct r as [|y r']; [exact I|]. cbn [take_lt] in *. destruct (snd y >=? d); [exact I|].
  cbn [map steps_sorted] in H. destruct H as (H1 & _).
  change (snd x <= snd y < snd x + two32 /\ steps_sorted (map snd (y :: take_lt d r'))). split; [exact H1|exact IH].
Qed.

Lemma filter_lt_sorted d l : steps_sorted (map snd l) -> steps_sorted (map snd (filter (lt_d d) l)).
Proof. intros H. rewrite <- (take_lt_filter d l H). apply take_lt_sorted. exact H. Qed.

Lemma run_events_tracks evs : forall m m' id, run_events m evs = Ok m' -> ~ In id (ids m) -> wev id evs = [].
Proof.
  induction evs as [|[tr [dts s|dts]] r IH]; intros m m' id Hr Hid; [reflexivity| |].
  - cbn [run_events] in Hr. destruct (write_sample (set_cur m tr) dts s) as [m1| |] eqn:Ew; try discriminate.
    cbn [bind] in Hr. cbn [wev].
    assert (Htr : In tr (ids m)).
    { unfold write_sample in Ew. cbn [set_cur m_cur m_tracks] in Ew.
      destruct (get_track tr (m_tracks m)) as [t|] eqn:Eg; [|discriminate].
      destruct (get_track_in _ _ _ Eg) as (Hin & <-). unfold ids. apply in_map. exact Hin. }
    destruct (tr =? id) eqn:E; [exfalso; apply Hid; assert (tr = id) by lia; subst; exact Htr|].
    apply (IH m1 m' id Hr). rewrite (ids_write _ _ _ _ Ew). exact Hid.
  - cbn [run_events] in Hr. cbn [wev]. apply (IH _ m' id Hr). rewrite ids_final. exact Hid.
Qed.

Definition track_ids (tracks : list trackdesc) : list Z := map (fun x => fst (fst x)) tracks.

Lemma find_ts_in tracks id ts c : NoDup (track_ids tracks) -> In (id, ts, c) tracks -> find_ts id tracks = Some ts.
Proof.
  induction tracks as [|[[i t] c'] r IH]; intros Hnd Hin; [destruct Hin|].
  inversion Hnd as [|? ? Hnotin Hnd']; subst. cbn [find_ts]. destruct Hin as [E|Hin].
  - inversion E; subst. rewrite Z.eqb_refl. reflexivity.
  - destruct (i =? id) eqn:E.
    + exfalso. apply Hnotin. assert (i = id) by lia. subst i.
      change id with (fst (fst (id, ts, c))). apply (in_map (fun x => fst (fst x))). exact Hin.
    + apply IH; assumption.
Qed.

Lemma ids_init tracks : ids (mux_init tracks) = track_ids tracks.
Proof. unfold ids, track_ids. cbn [mux_init m_tracks]. rewrite map_map. apply map_ext. intros [[i ts] c]. reflexivity. Qed.

(* the segments /get plays, each with the offset (ns) of its time zero from the requested start *)
Definition played (all : list gseg) (start dur : Z) : list (gseg * Z) :=
  match find_segments g_start all (Some start) (Some (start + dur)) with
  | Some segs => match ev_all segs start dur with Some (_, vis) => vis | None => [] end
  | None => []
  end.

(* the recorder invariant used for /get: per track, decode times never go back (and advance by < 2^32) *)
Definition tracks_sorted (dur : Z) (tracks : list trackdesc) (vis : list (gseg * Z)) : Prop :=
  forall id ts c, In (id, ts, c) tracks -> steps_sorted (map snd (read_rows id ts dur tracks vis)).

Theorem get_table all start dur ps g0 off rest :
  on_get all start dur = Ok ps ->
  played all start dur = (g0, off) :: rest ->
  let tracks := s_tracks (g_seg g0) in
  NoDup (track_ids tracks) ->
  tracks_sorted dur tracks (played all start dur) ->
  forall id ts c, In (id, ts, c) tracks ->
  srows (flat_track id ps) =
  expected_rows (filter (lt_d (go_to_mp4 dur ts)) (read_rows id ts dur tracks (played all start dur))).
Proof.
  intros Hget Hplayed tracks Hnd Hsorted id ts c Hin.
  unfold on_get in Hget. unfold played in *.
  destruct (find_segments g_start all (Some start) (Some (start + dur))) as [segs|]; [|discriminate].
  destruct (seek_and_mux segs start dur) as [m| |] eqn:Es; try discriminate. cbn [bind] in Hget.
  inversion Hget; subst ps. clear Hget.
  destruct (seek_and_mux_ev segs start dur m Es) as (g0' & rest' & evs & vis & m0 & Esegs & Eall & Hrun & Hflush).
  rewrite Eall in *. subst vis.
  assert (Eg0 : g0' = g0).
  { subst segs. unfold ev_all in Eall.
    destruct (ev_parts (g_start g0' - start) dur (s_tracks (g_seg g0')) (g_parts g0') 0) as [[e1 sd]|]; [|discriminate].
    destruct (ev_rest (g_seg g0') (g_start g0' - start) start dur (g_seg g0') (g_start g0' + sd) rest') as [[e2 v2]|]; [|discriminate].
    inversion Eall. reflexivity. }
  subst g0'. fold tracks in Hrun.
  (* the writes of every track, as a filter of the rows read *)
  assert (Hw : forall id' ts' c', In (id', ts', c') tracks ->
            wev id' evs = filter (lt_d (go_to_mp4 dur ts')) (read_rows id' ts' dur tracks ((g0, off) :: rest))).
  { intros id' ts' c' Hin'. rewrite (ev_all_w id' ts' segs start dur evs _ g0 rest' Esegs (find_ts_in _ _ _ _ Hnd Hin') Eall).
    apply taken_rows. exact (Hsorted id' ts' c' Hin'). }
  assert (Hwsorted : forall id', steps_sorted (map snd (wev id' evs))).
  { intros id'. destruct (in_dec Z.eq_dec id' (track_ids tracks)) as [Hi|Hi].
    - unfold track_ids in Hi. apply in_map_iff in Hi. destruct Hi as ([[i t] c'] & Ei & Hi). cbn in Ei. subst i.
      rewrite (Hw id' t c' Hi). apply filter_lt_sorted. exact (Hsorted id' t c' Hi).
    - rewrite (run_events_tracks evs _ _ id' Hrun); [exact I|]. rewrite ids_init. exact Hi. }
  pose proof (Inv_init tracks Hnd) as HI0.
  assert (Hok : ev_ok (fun _ => APre []) evs).
  { apply ev_ok_tracks. intros id'. apply steps_pre. apply Hwsorted. }
  pose proof (Inv_run evs _ _ _ HI0 Hok Hrun) as HI.
  assert (Ht : exists t, In t (m_tracks m0) /\ t_id t = id).
  { assert (Hi : In id (ids m0)).
    { rewrite (ids_run evs _ _ Hrun), ids_init. unfold track_ids.
      change id with (fst (fst (id, ts, c))). apply (in_map (fun x => fst (fst x))). exact Hin. }
    unfold ids in Hi. apply in_map_iff in Hi. destruct Hi as (t & E & Hi). exists t. split; assumption. }
  destruct Ht as (t & Ht & <-).
  rewrite (final_rows m0 _ m t HI Hflush Ht), aall_track, (afold_sorted _ (Hwsorted (t_id t))).
  rewrite (Hw (t_id t) ts c Hin). reflexivity.
Qed.

(* the samples of the window, and what precedes them *)
Definition in_win (d : Z) (x : sample * Z) : bool := (0 <=? snd x) && (snd x <? d).

Lemma filter_filter {A} (f g : A -> bool) l : filter f (filter g l) = filter (fun x => f x && g x) l.
Proof.
  induction l as [|x r IH]; [reflexivity|]. cbn [filter]. destruct (g x) eqn:Eg.
  - cbn [filter]. destruct (f x); cbn [andb]; rewrite IH; reflexivity.
  - rewrite andb_false_r. exact IH.
Qed.

Lemma expected_window d rows :
  expected_rows (filter (lt_d d) rows) =
  match filter (in_win d) rows with
  | [] => []
  | (s0, t0) :: _ =>
      map (fun p => (p, t0)) (if sm_sync s0 then [] else preroll (map fst (filter neg_t rows)))
      ++ srows (filter (in_win d) rows)
  end.
Proof.
  unfold expected_rows. rewrite !filter_filter.
  assert (E1 : filter (fun x => vis_t x && lt_d d x) rows = filter (in_win d) rows) by (apply filter_ext; reflexivity).
  rewrite E1. destruct (filter (in_win d) rows) as [|[s0 t0] w] eqn:Ew; [reflexivity|].
  assert (Hd : 0 < d).
  { assert (Hin : In (s0, t0) (filter (in_win d) rows)) by (rewrite Ew; left; reflexivity).
    apply filter_In in Hin. unfold in_win in Hin. cbn in Hin. lia. }
  assert (E2 : filter (fun x => neg_t x && lt_d d x) rows = filter neg_t rows).
  { apply filter_ext. intros x. unfold neg_t, lt_d. destruct (snd x <? 0) eqn:E; [|reflexivity].
    cbn [andb]. lia. }
  rewrite E2. reflexivity.
Qed.

(* all recorded samples of the track in the segments played, read or not *)
Definition all_rows (id ts : Z) (vis : list (gseg * Z)) : list (sample * Z) :=
  flat_map (fun x => flat_map (part_rows id ts (snd x)) (g_parts (fst x))) vis.

(* guard: reading stopped before no sample of this track that lies inside the window *)
Definition no_cut (id ts dur : Z) (tracks : list trackdesc) (vis : list (gseg * Z)) : Prop :=
  filter (in_win (go_to_mp4 dur ts)) (read_rows id ts dur tracks vis)
  = filter (in_win (go_to_mp4 dur ts)) (all_rows id ts vis).

Theorem get_window_partial all start dur ps g0 off rest :
  on_get all start dur = Ok ps ->
  played all start dur = (g0, off) :: rest ->
  let tracks := s_tracks (g_seg g0) in
  let vis := played all start dur in
  NoDup (track_ids tracks) -> tracks_sorted dur tracks vis ->
  forall id ts c, In (id, ts, c) tracks -> no_cut id ts dur tracks vis ->
  exists pre, srows (flat_track id ps) = pre ++ srows (filter (in_win (go_to_mp4 dur ts)) (all_rows id ts vis))
              /\ (length pre <= length (filter neg_t (read_rows id ts dur tracks vis)))%nat.
Proof.
  intros Hget Hp tracks vis Hnd Hs id ts c Hin Hcut.
  rewrite (get_table all start dur ps g0 off rest Hget Hp Hnd Hs id ts c Hin), expected_window.
  fold vis. unfold no_cut in Hcut. fold tracks. rewrite Hcut.
  destruct (filter (in_win (go_to_mp4 dur ts)) (all_rows id ts vis)) as [|[s0 t0] w]; [exists []; split; [reflexivity|apply Nat.le_0_l]|].
  eexists. split; [reflexivity|].
  rewrite map_length. destruct (sm_sync s0); [apply Nat.le_0_l|].
  destruct (preroll_spec (map fst (filter neg_t (read_rows id ts dur tracks vis)))) as (b & k & E & Ep & _).
  rewrite Ep, map_length. rewrite <- (map_length fst (filter neg_t (read_rows id ts dur tracks vis))), E, app_length. lia.
Qed.

Theorem get_preroll all start dur ps g0 off rest :
  on_get all start dur = Ok ps ->
  played all start dur = (g0, off) :: rest ->
  let tracks := s_tracks (g_seg g0) in
  let vis := played all start dur in
  NoDup (track_ids tracks) -> tracks_sorted dur tracks vis ->
  forall id ts c, In (id, ts, c) tracks ->
  let rows := read_rows id ts dur tracks vis in
  match filter (in_win (go_to_mp4 dur ts)) rows with
  | [] => srows (flat_track id ps) = []
  | (s0, t0) :: _ =>
      exists before keep,
        map fst (filter neg_t rows) = before ++ keep /\
        srows (flat_track id ps) =
          map (fun p => (strip p, t0)) (if sm_sync s0 then [] else keep) ++ srows (filter (in_win (go_to_mp4 dur ts)) rows) /\
        forallb (fun s => negb (sm_sync s)) (tl keep) = true /\
        (before = [] \/ exists k r, keep = k :: r /\ sm_sync k = true)
  end.
Proof.
  intros Hget Hp tracks vis Hnd Hs id ts c Hin rows.
  rewrite (get_table all start dur ps g0 off rest Hget Hp Hnd Hs id ts c Hin), expected_window.
  fold vis tracks rows.
  destruct (filter (in_win (go_to_mp4 dur ts)) rows) as [|[s0 t0] w]; [reflexivity|].
  destruct (preroll_spec (map fst (filter neg_t rows))) as (b & k & E & Ep & Hns & Hb).
  exists b, k. split; [exact E|]. split; [|split; assumption].
  f_equal. destruct (sm_sync s0); [reflexivity|]. rewrite Ep, map_map. reflexivity.
Qed.

(* ------------------------------------------------------------------ which segments are played *)

(* every played segment continues the one before (for some end instant of the predecessor), with the offset
   seekAndMux computes *)
Fixpoint chain_from (first : seg) (soff start : Z) (prev : seg) (vis : list (gseg * Z)) : Prop :=
  match vis with
  | [] => True
  | (g, o) :: r =>
      (exists e, can_concat prev e (g_seg g) = true) /\ o = seg_off first soff start g /\
      chain_from first soff start (g_seg g) r
  end.

Lemma ev_rest_chain l : forall first soff start dur prev se evs vis,
  ev_rest first soff start dur prev se l = Some (evs, vis) ->
  chain_from first soff start prev vis /\ map fst vis = firstn (length vis) l.
Proof.
  induction l as [|g r IH]; intros first soff start dur prev se evs vis H.
  - inversion H; subst. split; [exact I|reflexivity].
  - cbn [ev_rest] in H. destruct (negb (can_concat prev se (g_seg g))) eqn:Ec.
    + inversion H; subst. split; [exact I|reflexivity].
    + destruct (ev_parts (seg_off first soff start g) dur (s_tracks first) (g_parts g) 0) as [[evs1 sd]|]; [|discriminate].
      destruct (ev_rest first soff start dur (g_seg g) (g_start g + sd) r) as [[evs2 vis2]|] eqn:Er; [|discriminate].
      inversion H; subst. destruct (IH _ _ _ _ _ _ _ _ Er) as (A & B). split.
      * cbn [chain_from]. split; [exists se; apply negb_false_iff; exact Ec|]. split; [reflexivity|exact A].
      * cbn [map fst length firstn]. f_equal. exact B.
Qed.

Theorem played_chain all start dur segs :
  find_segments g_start all (Some start) (Some (start + dur)) = Some segs ->
  played all start dur <> [] ->
  exists g0 rest, played all start dur = (g0, g_start g0 - start) :: rest /\
    chain_from (g_seg g0) (g_start g0 - start) start (g_seg g0) rest /\
    map fst (played all start dur) = firstn (length (played all start dur)) segs.
Proof.
  intros Hf Hne. unfold played in *. rewrite Hf in *. unfold ev_all in *.
  destruct segs as [|g0 rest0]; [congruence|].
  destruct (ev_parts (g_start g0 - start) dur (s_tracks (g_seg g0)) (g_parts g0) 0) as [[evs1 sd]|]; [|congruence].
  destruct (ev_rest (g_seg g0) (g_start g0 - start) start dur (g_seg g0) (g_start g0 + sd) rest0) as [[evs2 vis2]|] eqn:Er;
    [|congruence].
  destruct (ev_rest_chain _ _ _ _ _ _ _ _ _ Er) as (A & B).
  exists g0, vis2. split; [reflexivity|]. split; [exact A|]. cbn [map fst length firstn]. f_equal. exact B.
Qed.

(* ------------------------------------------------------------------ the full-strength window statement fails *)

Definition wit_seg : gseg :=
  mkGseg (mkSeg 0 1600000000 None [(1, 1000, 1); (2, 1000, 2)])
    [ [mkTraf 1 0 [mkSample 1 500 true 0];
       mkTraf 2 0 [mkSample 2 400 true 0; mkSample 3 400 true 0; mkSample 4 400 true 0; mkSample 6 400 true 0]];
      [mkTraf 1 500 [mkSample 5 500 true 0]] ].

(* one segment, two tracks; track 2 reaches 0.9 s in the first part, sample 5 of track 1 (at 0.5 s) is in the second *)
Theorem get_window_refuted :
  exists all start dur ps g0 off rest id ts c x,
    on_get all start dur = Ok ps /\ played all start dur = (g0, off) :: rest /\
    NoDup (track_ids (s_tracks (g_seg g0))) /\
    tracks_sorted dur (s_tracks (g_seg g0)) (played all start dur) /\
    In (id, ts, c) (s_tracks (g_seg g0)) /\
    In x (filter (in_win (go_to_mp4 dur ts)) (all_rows id ts (played all start dur))) /\
    ~ In (strip (fst x), snd x) (srows (flat_track id ps)).
Proof.
  exists [wit_seg], 0, 900000000.
  eexists. exists wit_seg, 0, [], 1, 1000, 1, (mkSample 5 500 true 0, 500).
  split; [vm_compute; reflexivity|]. split; [vm_compute; reflexivity|].
  split; [vm_compute; repeat constructor; simpl; intuition discriminate|].
  split.
  - intros id ts c Hin. simpl in Hin. destruct Hin as [E|[E|[]]]; inversion E; subst; vm_compute; intuition discriminate.
  - split; [left; reflexivity|]. split; [vm_compute; right; left; reflexivity|].
    vm_compute. intros [E|[]]. discriminate.
Qed.

(* the same recording with a window that cuts nothing: the hypotheses of get_window_partial are satisfiable *)
Example get_window_example :
  on_get [wit_seg] 0 450000000 = Ok [[mkO 1 0 [mkSample 1 500 true 0]; mkO 2 0 [mkSample 2 400 true 0; mkSample 3 400 true 0]]]
  /\ played [wit_seg] 0 450000000 = [(wit_seg, 0)]
  /\ no_cut 1 1000 450000000 (s_tracks (g_seg wit_seg)) (played [wit_seg] 0 450000000)
  /\ no_cut 2 1000 450000000 (s_tracks (g_seg wit_seg)) (played [wit_seg] 0 450000000).
Proof. vm_compute. repeat split. Qed.

(* ------------------------------------------------------------------ 404 after the reader has finished *)

(* seekAndMux up to, not including, the final flush *)
Definition mux_all (segs : list gseg) (start duration : Z) : res mstate :=
  match segs with
  | [] => ErrOther
  | g0 :: rest =>
      let first := g_seg g0 in
      let start_off := g_start g0 - start in
      bind (mux_parts (mux_init (s_tracks first)) start_off duration (s_tracks first) (g_parts g0) 0) (fun '(m1, sd) =>
        mux_rest m1 first start_off start duration first (g_start g0 + sd) rest)
  end.

Lemma seek_and_mux_all segs start dur :
  seek_and_mux segs start dur = bind (mux_all segs start dur) (inner_flush true).
Proof.
  unfold seek_and_mux, mux_all. destruct segs as [|g0 rest]; [reflexivity|].
  destruct (mux_parts (mux_init (s_tracks (g_seg g0))) (g_start g0 - start) dur (s_tracks (g_seg g0)) (g_parts g0) 0)
    as [[m1 sd]| |]; reflexivity.
Qed.

Lemma mux_all_ev segs start dur m0 :
  mux_all segs start dur = Ok m0 ->
  exists g0 rest evs vis, segs = g0 :: rest /\ ev_all segs start dur = Some (evs, (g0, g_start g0 - start) :: vis) /\
    run_events (mux_init (s_tracks (g_seg g0))) evs = Ok m0.
Proof.
  unfold mux_all, ev_all. destruct segs as [|g0 rest]; [discriminate|].
  destruct (mux_parts (mux_init (s_tracks (g_seg g0))) (g_start g0 - start) dur (s_tracks (g_seg g0)) (g_parts g0) 0)
    as [[m1 sd]| |] eqn:Ep; try discriminate. cbn [bind].
  destruct (mux_parts_ev _ _ _ _ _ _ _ _ Ep) as (evs1 & E1 & R1). rewrite E1. intros Er.
  destruct (mux_rest_ev _ _ _ _ _ _ _ _ _ Er) as (evs2 & vis & E2 & R2). rewrite E2.
  exists g0, rest, (evs1 ++ evs2), vis. repeat split. rewrite run_events_app, R1. exact R2.
Qed.

Lemma flat_map_nil {A B} (f : A -> list B) l x : flat_map f l = [] -> In x l -> f x = [].
Proof.
  induction l as [|y r IH]; intros H Hin; [destruct Hin|]. cbn [flat_map] in H.
  apply app_eq_nil in H. destruct H as (H1 & H2). destruct Hin as [->|Hin]; [exact H1|apply IH; assumption].
Qed.

Lemma final_notfound m A t : Inv m A -> inner_flush true m = ErrNotFound -> In t (m_tracks m) -> aout (A (t_id t)) = [].
Proof.
  intros (Hnd & HR) Hf Hin. unfold inner_flush in Hf.
  destruct (flush_tracks_spec true (m_tracks m)) as (E1 & _).
  destruct (flush_tracks true (m_tracks m)) as [os ts'] eqn:Eft. cbn [fst] in E1.
  destruct os as [|o os']; [|discriminate].
  symmetry in E1. pose proof (flat_map_nil _ _ t E1 Hin) as Hn.
  rewrite Forall_forall in HR. specialize (HR t Hin).
  destruct (A (t_id t)) as [pre|rows last]; [reflexivity|]. exfalso.
  cbn [R] in HR. destruct HR as (Hf0 & _ & _ & Hne & _).
  unfold flush_track in Hn. assert (E : (0 <=? t_first t) = true) by lia. rewrite E in Hn.
  destruct (t_rsamples t) as [|h r]; [congruence|].
  assert (En : ((1 <? Z.of_nat (length (h :: r))) || (true && negb (Z.of_nat (length (h :: r)) =? 0))) = true).
  { apply orb_true_iff. right. cbn [length andb]. destruct (Z.of_nat (S (length r)) =? 0) eqn:E0; [apply Z.eqb_eq in E0; lia|reflexivity]. }
  cbn [andb] in Hn. cbn [andb] in En. rewrite En in Hn. discriminate.
Qed.

(* a 404 produced by the final flush means that no track has a sample of the window in the parts read *)
Theorem get_notfound_after_reading all start dur segs m0 :
  find_segments g_start all (Some start) (Some (start + dur)) = Some segs ->
  mux_all segs start dur = Ok m0 -> on_get all start dur = ErrNotFound ->
  exists g0 rest, played all start dur = (g0, g_start g0 - start) :: rest /\
    let tracks := s_tracks (g_seg g0) in
    (NoDup (track_ids tracks) -> tracks_sorted dur tracks (played all start dur) ->
     forall id ts c, In (id, ts, c) tracks ->
       filter (in_win (go_to_mp4 dur ts)) (read_rows id ts dur tracks (played all start dur)) = []).
Proof.
  intros Hf Hall Hget. unfold on_get in Hget. rewrite Hf in Hget. rewrite seek_and_mux_all, Hall in Hget. cbn [bind] in Hget.
  destruct (inner_flush true m0) as [m| |] eqn:Efl; try discriminate. clear Hget.
  destruct (mux_all_ev segs start dur m0 Hall) as (g0 & rest0 & evs & vis & Esegs & Eall & Hrun).
  exists g0, vis. unfold played. rewrite Hf, Eall. split; [reflexivity|].
  intros Hnd Hsorted id ts c Hin. set (tracks := s_tracks (g_seg g0)) in *.
  assert (Hw : forall id' ts' c', In (id', ts', c') tracks ->
            wev id' evs = filter (lt_d (go_to_mp4 dur ts')) (read_rows id' ts' dur tracks ((g0, g_start g0 - start) :: vis))).
  { intros id' ts' c' Hin'. rewrite (ev_all_w id' ts' segs start dur evs _ g0 rest0 Esegs (find_ts_in _ _ _ _ Hnd Hin') Eall).
    apply taken_rows. exact (Hsorted id' ts' c' Hin'). }
  assert (Hwsorted : forall id', steps_sorted (map snd (wev id' evs))).
  { intros id'. destruct (in_dec Z.eq_dec id' (track_ids tracks)) as [Hi|Hi].
    - unfold track_ids in Hi. apply in_map_iff in Hi. destruct Hi as ([[i t] c'] & Ei & Hi). cbn in Ei. subst i.
      rewrite (Hw id' t c' Hi). apply filter_lt_sorted. exact (Hsorted id' t c' Hi).
    - rewrite (run_events_tracks evs _ _ id' Hrun); [exact I|]. rewrite ids_init. exact Hi. }
  pose proof (Inv_init tracks Hnd) as HI0.
  assert (Hok : ev_ok (fun _ => APre []) evs) by (apply ev_ok_tracks; intros id'; apply steps_pre; apply Hwsorted).
  pose proof (Inv_run evs _ _ _ HI0 Hok Hrun) as HI.
  assert (Ht : exists t, In t (m_tracks m0) /\ t_id t = id).
  { assert (Hi : In id (ids m0)).
    { rewrite (ids_run evs _ _ Hrun), ids_init. unfold track_ids.
      change id with (fst (fst (id, ts, c))). apply (in_map (fun x => fst (fst x))). exact Hin. }
    unfold ids in Hi. apply in_map_iff in Hi. destruct Hi as (t & E & Hi). exists t. split; assumption. }
  destruct Ht as (t & Ht & <-).
  pose proof (final_notfound m0 _ t HI Efl Ht) as Hn.
  rewrite aall_track, (afold_sorted _ (Hwsorted (t_id t))), (Hw (t_id t) ts c Hin), expected_window in Hn.
  destruct (filter (in_win (go_to_mp4 dur ts)) (read_rows (t_id t) ts dur tracks ((g0, g_start g0 - start) :: vis))) as [|[s0 t0] w];
    [reflexivity|].
  apply app_eq_nil in Hn. destruct Hn as (_ & Hn). discriminate.
Qed.
