From Coq Require Import List ZArith Bool Lia ZifyBool.
Require Import MTX.Model.C38_Watcher.
Import ListNotations.
Local Open Scope Z_scope.

(* with the deferred timer: an unnotified change of the existing file always has the timer armed *)
Definition Inv (s : state) : Prop := dirty s <> None -> armed s = true.

Lemma inv_init p : Inv (init p).
Proof. intros H. exfalso. apply H. reflexivity. Qed.

Lemma step_inv s o s' sig : Inv s -> step true s o = (s', sig) -> Inv s'.
Proof.
  unfold Inv. intros HI Hs. destruct o as [t cur hit|t cur]; simpl in Hs.
  - destruct (match last_called s with Some l => t <=? l | None => false end); [inversion Hs; subst; exact HI|].
    destruct (within s t).
    + inversion Hs; subst; clear Hs. simpl. destruct (changed s cur hit) eqn:Ec.
      * intros _. rewrite orb_true_r. reflexivity.
      * destruct (cur =? 0); [intros H; exfalso; apply H; reflexivity|].
        intros H. rewrite (HI H). reflexivity.
    + destruct (cur =? 0) eqn:E0; [inversion Hs; subst; simpl; intros H; exfalso; apply H; reflexivity|].
      destruct (changed s cur hit) eqn:Ec; inversion Hs; subst; simpl.
      * intros H; exfalso; apply H; reflexivity.
      * exact HI.
  - destruct (armed s) eqn:Ea.
    + destruct (cur =? 0); inversion Hs; subst; simpl; intros H; exfalso; apply H; reflexivity.
    + inversion Hs; subst. intros H. rewrite Ea. apply HI. exact H.
Qed.

Lemma run_inv ops : forall s s' sigs, Inv s -> run true s ops = (s', sigs) -> Inv s'.
Proof.
  induction ops as [|o r IH]; intros s s' sigs HI Hr; simpl in Hr.
  - inversion Hr; subst. exact HI.
  - destruct (step true s o) as [s1 a] eqn:Es. destruct (run true s1 r) as [s2 b] eqn:Er. inversion Hr; subst.
    eapply IH; [eapply step_inv; eassumption|exact Er].
Qed.

(* After ANY sequence and timing of events and timer expiries: if a change of the (existing) file has not yet been
   followed by a signal, the deferred timer is armed; and when it fires while the file exists, the server is
   signalled (10 ms later) and nothing remains unnotified. *)
Lemma final_notified p ops s' sigs T :
  run true (init p) ops = (s', sigs) -> dirty s' = Some T ->
  armed s' = true /\
  forall t cur, cur <> 0 ->
    step true s' (Tick t cur) =
      ({| last_called := Some (t + additional_wait); prev := cur; armed := false; dirty := None |}, [t + additional_wait]).
Proof.
  intros Hr Hd. pose proof (run_inv ops (init p) s' sigs (inv_init p) Hr) as HI.
  assert (armed s' = true) as Ha by (apply HI; rewrite Hd; discriminate).
  split; [exact Ha|]. intros t cur Hc. simpl. rewrite Ha.
  destruct (Z.eqb_spec cur 0); [contradiction|reflexivity].
Qed.

(* a change is only ever forgotten (dirty cleared) by a signal, or because the file was seen missing *)
Lemma cleared_by_signal b s o s' sig T :
  step b s o = (s', sig) -> dirty s = Some T -> dirty s' = None ->
  sig <> [] \/ (match o with Event _ cur _ => cur | Tick _ cur => cur end) = 0.
Proof.
  intros Hs Hd Hn. destruct o as [t cur hit|t cur]; simpl in Hs.
  - destruct (b && match last_called s with Some l => t <=? l | None => false end); [inversion Hs; subst; congruence|].
    destruct (within s t).
    + inversion Hs; subst; clear Hs. simpl in Hn. rewrite Hd in Hn. simpl in Hn.
      destruct (changed s cur hit); [discriminate|]. destruct (Z.eqb_spec cur 0); [right; assumption|congruence].
    + destruct (Z.eqb_spec cur 0); [right; assumption|].
      destruct (changed s cur hit); inversion Hs; subst; simpl in *; [left; discriminate|congruence].
  - destruct (armed s).
    + destruct (Z.eqb_spec cur 0); [right; assumption|]. inversion Hs; subst. left. discriminate.
    + inversion Hs; subst. congruence.
Qed.

(* a change that arrives outside the interval is signalled at once (both versions of the code) *)
Lemma spaced_immediate b s t cur hit :
  (match last_called s with Some l => t <=? l | None => false end) = false ->
  within s t = false -> changed s cur hit = true ->
  snd (step b s (Event t cur hit)) = [t + additional_wait] /\ dirty (fst (step b s (Event t cur hit))) = None.
Proof.
  intros Hq Hw Hc. pose proof Hc as Hc'. unfold changed in Hc'. apply andb_prop in Hc'. destruct Hc' as [H0 _].
  cbn [step]. rewrite Hq, andb_false_r, Hw, Hc. destruct (cur =? 0); [discriminate|]. split; reflexivity.
Qed.

(* the pinned snapshot (events inside the interval are dropped): a change can stay unnotified with nothing armed *)
Lemma final_notified_refuted : exists ops s' sigs T,
  run false (init 1) ops = (s', sigs) /\ dirty s' = Some T /\ armed s' = false /\ sigs = [110].
Proof.
  exists [Event 100 1 true; Event 500 1 true].
  eexists. eexists. exists 500. vm_compute. repeat split.
Qed.
