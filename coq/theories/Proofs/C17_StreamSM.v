(* Proofs for C17: the ring buffer is a bounded FIFO; an invariant relating every reachable state of the stream LTS
   to a monitor that reads "what was written for reader r" off the labels; the C17 theorems follow. *)
From Coq Require Import List ZArith Bool Arith Lia.
Require Import MTX.Model.C17_StreamSM.
Import ListNotations.

(* ============================================================================================ *)
(* small list facts                                                                               *)

Lemma mod_lt2 a n : 0 < n -> a < 2 * n -> a mod n = if a <? n then a else a - n.
Proof.
  intros Hn Ha. destruct (a <? n) eqn:E.
  - apply Nat.ltb_lt in E. apply Nat.mod_small; exact E.
  - apply Nat.ltb_ge in E. symmetry. apply (Nat.mod_unique a n 1 (a - n)); lia.
Qed.

Lemma upd_length {A} i (v : A) l : length (upd i v l) = length l.
Proof. revert i; induction l as [|h t IH]; intros [|i]; simpl; auto. Qed.

Lemma nth_upd_eq {A} i (v d : A) l : i < length l -> nth i (upd i v l) d = v.
Proof. revert i; induction l as [|h t IH]; intros [|i] H; simpl in *; try lia; auto. apply IH; lia. Qed.

Lemma nth_upd_neq {A} i j (v d : A) l : i <> j -> nth j (upd i v l) d = nth j l d.
Proof.
  revert i j; induction l as [|h t IH]; intros [|i] [|j] H; simpl; auto; try congruence.
Qed.

Lemma nth_repeat_none {A} n j : nth j (repeat (@None A) n) None = None.
Proof. revert j; induction n as [|n IH]; intros [|j]; simpl; auto. Qed.

Lemma nth_error_snoc_lt {A} (q : list A) x k : k < length q -> nth_error (q ++ [x]) k = nth_error q k.
Proof. intros H. apply nth_error_app1; exact H. Qed.

Lemma nth_error_snoc_eq {A} (q : list A) x : nth_error (q ++ [x]) (length q) = Some x.
Proof. rewrite nth_error_app2 by lia. rewrite Nat.sub_diag. reflexivity. Qed.

Lemma nth_error_ge {A} (q : list A) k : length q <= k -> nth_error q k = None.
Proof. intros H. apply nth_error_None; exact H. Qed.

Lemma nth_error_ext' {A} (l1 l2 : list A) : (forall k, nth_error l1 k = nth_error l2 k) -> l1 = l2.
Proof.
  revert l2. induction l1 as [|a l1 IH]; intros [|b l2] H.
  - reflexivity.
  - specialize (H 0). discriminate.
  - specialize (H 0). discriminate.
  - pose proof (H 0) as H0. simpl in H0. inversion H0; subst. f_equal. apply IH. intros k. apply (H (S k)).
Qed.

(* subsequences *)
Lemma subseq_refl {A} (l : list A) : subseq l l.
Proof. induction l; [apply subseq_nil|apply subseq_take; assumption]. Qed.

Lemma subseq_nil_l {A} (l : list A) : subseq [] l.
Proof. induction l; [apply subseq_nil|apply subseq_skip; assumption]. Qed.

Lemma subseq_snoc_skip {A} (l1 l2 : list A) x : subseq l1 l2 -> subseq l1 (l2 ++ [x]).
Proof.
  induction 1 as [|l1 l2 y _ IH|l1 l2 y _ IH]; simpl.
  - apply subseq_skip, subseq_nil.
  - apply subseq_skip, IH.
  - apply subseq_take, IH.
Qed.

Lemma subseq_snoc_take {A} (l1 l2 : list A) x : subseq l1 l2 -> subseq (l1 ++ [x]) (l2 ++ [x]).
Proof.
  induction 1 as [|l1 l2 y _ IH|l1 l2 y _ IH]; simpl.
  - apply subseq_take, subseq_nil.
  - apply subseq_skip, IH.
  - apply subseq_take, IH.
Qed.

Lemma subseq_app_drop_r {A} (l1 l1' l2 : list A) : subseq (l1 ++ l1') l2 -> subseq l1 l2.
Proof.
  revert l1. induction l2 as [|y l2 IH]; intros l1 H.
  - inversion H as [E| |]. destruct l1; [constructor|discriminate].
  - inversion H as [|a b c H1|a b c H1 E]; subst.
    + apply subseq_skip, IH, H1.
    + destruct l1 as [|z l1]; [apply subseq_nil_l|].
      simpl in E. inversion E; subst. apply subseq_take, (IH l1), H1.
Qed.

Lemma subseq_trans {A} (l1 l2 l3 : list A) : subseq l1 l2 -> subseq l2 l3 -> subseq l1 l3.
Proof.
  intros H12 H23. revert l1 H12. induction H23 as [|l2 l3 x _ IH|l2 l3 x _ IH]; intros l1 H12.
  - exact H12.
  - apply subseq_skip, IH, H12.
  - inversion H12 as [|a b c H1|a b c H1]; subst.
    + apply subseq_skip, IH, H1.
    + apply subseq_take, IH, H1.
Qed.

Lemma subseq_incl {A} (l1 l2 : list A) : subseq l1 l2 -> incl l1 l2.
Proof.
  induction 1 as [|l1 l2 x _ IH|l1 l2 x _ IH]; intros y Hy.
  - exact Hy.
  - right; apply IH, Hy.
  - destruct Hy as [->|Hy]; [left; reflexivity|right; apply IH, Hy].
Qed.

Lemma subseq_length {A} (l1 l2 : list A) : subseq l1 l2 -> length l1 <= length l2.
Proof. induction 1; simpl; lia. Qed.

Lemma subseq_map {A B} (f : A -> B) l1 l2 : subseq l1 l2 -> subseq (map f l1) (map f l2).
Proof.
  induction 1; simpl; [apply subseq_nil|apply subseq_skip; assumption|apply subseq_take; assumption].
Qed.

Lemma subseq_NoDup {A} (l1 l2 : list A) : subseq l1 l2 -> NoDup l2 -> NoDup l1.
Proof.
  induction 1 as [|l1 l2 x Hs IH|l1 l2 x Hs IH]; intros Hnd.
  - constructor.
  - inversion Hnd; subst. auto.
  - inversion Hnd as [|a b Hni Hnd']; subst. constructor; [|auto].
    intros Hin. apply Hni. apply (subseq_incl _ _ Hs), Hin.
Qed.

Lemma memZ_In x l : memZ x l = true <-> In x l.
Proof.
  unfold memZ. rewrite existsb_exists. split.
  - intros [y [Hy E]]. apply Z.eqb_eq in E. subst. exact Hy.
  - intros H. exists x. split; [exact H|apply Z.eqb_refl].
Qed.

Lemma memZ_false x l : memZ x l = false <-> ~ In x l.
Proof. rewrite <- memZ_In. destruct (memZ x l); split; congruence. Qed.

Lemma keyb_eq a b : keyb a b = true <-> a = b.
Proof.
  destruct a as [a1 a2], b as [b1 b2]. unfold keyb; simpl. rewrite andb_true_iff, !Z.eqb_eq.
  split; [intros [-> ->]; reflexivity|intros H; inversion H; auto].
Qed.

Lemma memK_In x l : memK x l = true <-> In x l.
Proof.
  unfold memK. rewrite existsb_exists. split.
  - intros [y [Hy E]]. apply keyb_eq in E. subst. exact Hy.
  - intros H. exists x. split; [exact H|apply keyb_eq; reflexivity].
Qed.

Lemma memK_false x l : memK x l = false <-> ~ In x l.
Proof. rewrite <- memK_In. destruct (memK x l); split; congruence. Qed.

Lemma fkey_eq_dec (a b : fkey) : {a = b} + {a <> b}.
Proof. decide equality; apply Z.eq_dec. Qed.

(* Reader.OnData adds exactly the pair it was called with: earlier registrations stay, whatever their media *)
Lemma on_data_keys od m f k : In k (keys_of (on_data od m f)) <-> k = (m, f) \/ In k (keys_of od).
Proof.
  induction od as [|[m' fs] t IH].
  - simpl. split; [intros [H|[]]; left; auto|intros [H|[]]; left; auto].
  - simpl on_data. destruct (Z.eqb_spec m' m) as [->|Hne]; unfold keys_of in *; simpl; rewrite !in_app_iff.
    + destruct (memZ f fs) eqn:Ef.
      * apply memZ_In in Ef. split; [tauto|]. intros [->|H]; [|exact H]. left. apply in_map_iff. exists f. auto.
      * rewrite map_app, in_app_iff. simpl. split.
        -- intros [[H|[H|[]]]|H]; auto.
        -- intros [->|[H|H]]; auto.
    + rewrite IH. tauto.
Qed.

(* ============================================================================================ *)
(* the ring buffer is a FIFO of capacity rb_size                                                  *)

(* all index arithmetic of the ring stays below 2*size: reduce `mod` to a case split, then lia *)
Ltac mod2 :=
  repeat (rewrite mod_lt2 by lia);
  repeat match goal with |- context[?a <? ?b] => destruct (Nat.ltb_spec a b) end;
  try lia.

Ltac mod2_in H :=
  repeat (rewrite mod_lt2 in H by lia);
  repeat match type of H with context[?a <? ?b] => destruct (Nat.ltb_spec a b) end;
  try lia.

Lemma ring_new_ok n : 0 < n -> ring_ok (rb_new n) [].
Proof.
  intros Hn. unfold ring_ok, ring_holds, rb_new, slot; simpl. repeat split; try lia.
  - apply repeat_length.
  - intros j Hj. rewrite nth_repeat_none. destruct ((j + n - 0) mod n); reflexivity.
  - symmetry. apply Nat.mod_small. exact Hn.
Qed.

Lemma ring_push_room rb q x :
  0 < rb_size rb -> ring_ok rb q -> length q < rb_size rb ->
  exists rb', rb_push rb x = (rb', true) /\ ring_ok rb' (q ++ [x]) /\
              rb_size rb' = rb_size rb /\ rb_closed rb' = rb_closed rb.
Proof.
  intros Hn [[Hlen [Hri [Hq Hs]]] Hwi] Hroom.
  set (n := rb_size rb) in *.
  assert (Hwin : rb_wi rb < n).
  { rewrite Hwi. apply Nat.mod_upper_bound. lia. }
  assert (Hk : (rb_wi rb + n - rb_ri rb) mod n = length q).
  { rewrite Hwi. mod2. }
  unfold rb_push. rewrite (Hs _ Hwin), Hk, nth_error_ge by lia.
  eexists. split; [reflexivity|]. fold n. split; [|split; reflexivity].
  unfold ring_ok, ring_holds, slot; simpl. fold n.
  split; [split; [|split; [|split]]|].
  - rewrite upd_length. exact Hlen.
  - exact Hri.
  - rewrite app_length; simpl. lia.
  - intros j Hj. destruct (Nat.eq_dec j (rb_wi rb)) as [->|Hne].
    + rewrite nth_upd_eq by lia. rewrite Hk. symmetry. apply nth_error_snoc_eq.
    + rewrite nth_upd_neq by congruence. fold (slot rb j). rewrite (Hs _ Hj).
      set (k := (j + n - rb_ri rb) mod n).
      assert (Hkn : k < n) by (apply Nat.mod_upper_bound; lia).
      destruct (Nat.lt_ge_cases k (length q)) as [Hlt|Hge].
      * symmetry. apply nth_error_snoc_lt. exact Hlt.
      * assert (k <> length q).
        { intros Heq. apply Hne.
          (* the map j -> (j + n - ri) mod n is injective on [0,n) *)
          unfold k in Heq. rewrite <- Hk in Heq. mod2_in Heq. }
        rewrite !nth_error_ge; [reflexivity| |lia]. rewrite app_length; simpl. lia.
  - rewrite app_length; simpl. rewrite Hwi.
    destruct (Nat.eq_dec (rb_ri rb + length q + 1) n) as [E|E].
    + replace (rb_ri rb + (length q + 1)) with n by lia. rewrite Nat.mod_same by lia.
      rewrite (Nat.mod_small (rb_ri rb + length q)) by lia.
      replace (rb_ri rb + length q + 1) with n by lia. apply Nat.mod_same. lia.
    + mod2.
Qed.

Lemma ring_push_full rb q x :
  0 < rb_size rb -> ring_ok rb q -> length q = rb_size rb -> rb_push rb x = (rb, false).
Proof.
  intros Hn [[Hlen [Hri [Hq Hs]]] Hwi] Hfull.
  set (n := rb_size rb) in *.
  assert (Hwin : rb_wi rb < n) by (rewrite Hwi; apply Nat.mod_upper_bound; lia).
  assert (Hw : rb_wi rb = rb_ri rb).
  { rewrite Hwi, Hfull. mod2. }
  unfold rb_push. rewrite (Hs _ Hwin), Hw.
  replace (rb_ri rb + n - rb_ri rb) with n by lia. rewrite Nat.mod_same by lia.
  destruct q as [|y q]; [simpl in Hfull; lia|]. reflexivity.
Qed.

Lemma ring_pull_item rb x q :
  0 < rb_size rb -> ring_holds rb (x :: q) ->
  exists rb', rb_pull rb = PullItem rb' x /\ ring_holds rb' q /\ rb_size rb' = rb_size rb /\
              rb_closed rb' = rb_closed rb /\ rb_wi rb' = rb_wi rb /\
              (rb_ri rb' + length q) mod rb_size rb = (rb_ri rb + S (length q)) mod rb_size rb.
Proof.
  intros Hn [Hlen [Hri [Hq Hs]]].
  set (n := rb_size rb) in *. simpl in Hq.
  unfold rb_pull. rewrite (Hs _ Hri).
  replace (rb_ri rb + n - rb_ri rb) with n by lia. rewrite Nat.mod_same by lia. simpl.
  eexists. split; [reflexivity|]. fold n.
  assert (Hri' : (rb_ri rb + 1) mod n < n) by (apply Nat.mod_upper_bound; lia).
  assert (Hr1 : (rb_ri rb + 1) mod n = if rb_ri rb + 1 <? n then rb_ri rb + 1 else 0).
  { mod2. }
  unfold ring_holds, slot; simpl. fold n.
  split; [split; [|split; [|split]]|split; [reflexivity|split; [reflexivity|split; [reflexivity|]]]].
  - rewrite upd_length. exact Hlen.
  - exact Hri'.
  - lia.
  - intros j Hj. destruct (Nat.eq_dec j (rb_ri rb)) as [->|Hne].
    + rewrite nth_upd_eq by lia. symmetry. apply nth_error_ge.
      rewrite Hr1. destruct (Nat.ltb_spec (rb_ri rb + 1) n); mod2.
    + rewrite nth_upd_neq by congruence. fold (slot rb j). rewrite (Hs _ Hj).
      assert (Hk : (j + n - rb_ri rb) mod n = S ((j + n - (rb_ri rb + 1) mod n) mod n)).
      { rewrite Hr1. destruct (Nat.ltb_spec (rb_ri rb + 1) n); mod2. }
      rewrite Hk. reflexivity.
  - rewrite Hr1. destruct (Nat.ltb_spec (rb_ri rb + 1) n).
    + f_equal. lia.
    + assert (rb_ri rb + 1 = n) by lia.
      replace (rb_ri rb + S (length q)) with (length q + 1 * n) by lia.
      rewrite Nat.mod_add by lia. reflexivity.
Qed.

Lemma ring_pull_empty rb :
  0 < rb_size rb -> ring_holds rb [] -> rb_pull rb = if rb_closed rb then PullClosed else PullBlock.
Proof.
  intros Hn [Hlen [Hri [Hq Hs]]]. unfold rb_pull. rewrite (Hs _ Hri).
  destruct ((rb_ri rb + rb_size rb - rb_ri rb) mod rb_size rb); reflexivity.
Qed.

Lemma ring_close_holds rb : rb_ri rb < rb_size rb -> ring_holds (rb_close rb) [].
Proof.
  intros Hri. unfold ring_holds, rb_close, slot; simpl. repeat split; try lia.
  - apply repeat_length.
  - intros j Hj. rewrite nth_repeat_none. destruct ((j + rb_size rb - rb_ri rb) mod rb_size rb); reflexivity.
Qed.

(* the contents are determined by the ring *)
Lemma ring_holds_unique rb q q' : 0 < rb_size rb -> ring_holds rb q -> ring_holds rb q' -> q = q'.
Proof.
  intros Hn [_ [Hri [Hq Hs]]] [_ [_ [Hq' Hs']]].
  set (n := rb_size rb) in *.
  apply nth_error_ext'. intros k.
  destruct (Nat.lt_ge_cases k n) as [Hk|Hk].
  - (* slot index holding position k *)
    set (j := (rb_ri rb + k) mod n).
    assert (Hj : j < n) by (apply Nat.mod_upper_bound; lia).
    assert (Hjk : (j + n - rb_ri rb) mod n = k).
    { unfold j. mod2. }
    rewrite <- Hjk, <- (Hs _ Hj), <- (Hs' _ Hj). reflexivity.
  - rewrite !nth_error_ge by lia. reflexivity.
Qed.

(* ============================================================================================ *)
(* the invariant                                                                                   *)

Definition closedp (p : phase) : bool := match p with Closed | Joined => true | _ => false end.

(* queue / accounting part: `off` is what the labels say was written for this reader *)
Definition qinv (n : nat) (rd : reader) (off : list item) : Prop :=
  exists q k,
    ring_holds (r_buf rd) q /\
    (closedp (r_phase rd) = false -> rb_wi (r_buf rd) = (rb_ri (r_buf rd) + length q) mod n /\ k = 0) /\
    (closedp (r_phase rd) = true -> q = []) /\
    k <= n /\
    subseq (r_delivered rd ++ inflight rd ++ q) off /\
    length off = length (r_delivered rd) + length (inflight rd) + length q + r_discarded rd + k.

Record rinv (n : nat) (r : Z) (od : fkey -> list Z) (rd : reader) (m : mon) : Prop := {
  ri_att : m_att m = match r_phase rd with Attached => Some (m_pre m) | _ => None end;
  ri_pre : forall f, In f (m_pre m) <-> In f (r_subs rd);
  ri_sub : forall f, In r (od f) <-> (r_phase rd = Attached /\ In f (r_subs rd));
  ri_fmt : Forall (fun x => In (fst x) (r_subs rd)) (m_off m);
  ri_size : rb_size (r_buf rd) = n;
  ri_closed : rb_closed (r_buf rd) = closedp (r_phase rd);
  ri_join : r_phase rd = Joined -> r_go rd = Exited;
  ri_q : qinv n rd (m_off m);
}.

Definition Inv (s : state) (M : Z -> mon) : Prop :=
  0 < s_qsize s /\
  (forall f, NoDup (s_onDatas s f)) /\
  (forall r, m_cur (M r) = s_cur s) /\
  forall r, match s_readers s r with
            | Some rd => rinv (s_qsize s) r (s_onDatas s) rd (M r)
            | None => m_att (M r) = None /\ m_off (M r) = [] /\ (forall f, ~ In r (s_onDatas s f)) /\
                      forall f, In f (m_pre (M r)) <-> In f (keys_of (s_prep s r))
            end.

Lemma Inv_init fmts n : 0 < n -> Inv (init fmts n) (fun _ => mon_init).
Proof.
  intros Hn. unfold Inv, init; simpl. repeat split; auto. intros f. constructor.
Qed.

Lemma rinv_mon_ext n r od rd m m' :
  m_att m = m_att m' -> m_pre m = m_pre m' -> m_off m = m_off m' -> rinv n r od rd m -> rinv n r od rd m'.
Proof.
  intros Ha Hp Ho [H1 H0 H2 H3 H4 H5 H6 H7]. constructor; try assumption.
  - rewrite <- Ha, <- Hp. exact H1.
  - rewrite <- Hp. exact H0.
  - rewrite <- Ho. exact H3.
  - rewrite <- Ho. exact H7.
Qed.

Lemma rinv_od_ext n r od od' rd m :
  (forall f, In r (od' f) <-> In r (od f)) -> rinv n r od rd m -> rinv n r od' rd m.
Proof.
  intros He [H1 H0 H2 H3 H4 H5 H6 H7]. constructor; try assumption.
  intros f. rewrite He. apply H2.
Qed.

(* ---- the fan-out of a write ---- *)
Lemma fold_push_other x l rs r : ~ In r l -> fold_left (push_to x) l rs r = rs r.
Proof.
  revert rs; induction l as [|a l IH]; simpl; intros rs Hni; [reflexivity|].
  rewrite IH by tauto. unfold push_to. destruct (rs a); [|reflexivity].
  unfold set_reader. destruct (Z.eqb_spec r a) as [->|_]; [tauto|reflexivity].
Qed.

Lemma fold_push_in x l rs r rd :
  NoDup l -> In r l -> rs r = Some rd -> fold_left (push_to x) l rs r = Some (push_rd x rd).
Proof.
  revert rs; induction l as [|a l IH]; intros rs Hnd Hin Hr; [destruct Hin|].
  inversion Hnd as [|a' l' Hni Hnd']; subst. simpl. destruct (Z.eq_dec a r) as [->|Hne].
  - rewrite fold_push_other by assumption. unfold push_to. rewrite Hr. unfold set_reader.
    rewrite Z.eqb_refl. reflexivity.
  - destruct Hin as [->|Hin]; [congruence|]. apply IH; auto.
    unfold push_to. destruct (rs a); [|exact Hr]. unfold set_reader.
    destruct (Z.eqb_spec r a) as [->|_]; [congruence|exact Hr].
Qed.

Lemma subseq_push_take {A} (d i q off : list A) x :
  subseq (d ++ i ++ q) off -> subseq (d ++ i ++ q ++ [x]) (off ++ [x]).
Proof.
  intros H. replace (d ++ i ++ q ++ [x]) with ((d ++ i ++ q) ++ [x]) by (rewrite <- !app_assoc; reflexivity).
  apply subseq_snoc_take, H.
Qed.

Ltac infl := unfold inflight in *; cbn [r_go r_phase r_buf r_subs r_discarded r_delivered with_buf with_go with_phase length app] in *.

Ltac qsplit := split; [|split; [|split; [|split; [|split]]]].

Lemma rinv_push n r od rd m x :
  0 < n -> rinv n r od rd m -> r_phase rd = Attached -> In (fst x) (r_subs rd) ->
  rinv n r od (push_rd x rd) {| m_cur := m_cur m; m_pre := m_pre m; m_att := m_att m; m_off := m_off m ++ [x] |}.
Proof.
  intros Hn [H1 H0 H2 H3 H4 H5 H6 [q [k [Hq [Hopen [Hcl [Hk [Hss Hlen]]]]]]]] Hph Hx.
  rewrite Hph in Hopen. destruct (Hopen eq_refl) as [Hwi ->]. clear Hopen.
  assert (Hqn : length q <= n). { destruct Hq as [_ [_ [Hq _]]]. rewrite H4 in Hq. exact Hq. }
  assert (Hok : ring_ok (r_buf rd) q). { split; [exact Hq|]. rewrite H4. exact Hwi. }
  unfold push_rd.
  destruct (Nat.eq_dec (length q) n) as [Hfull|Hroom].
  - (* full: discarded *)
    rewrite (ring_push_full _ q x) by (rewrite ?H4; assumption).
    constructor; simpl; try assumption.
    + apply Forall_app. split; [exact H3|constructor; [exact Hx|constructor]].
    + exists q, 0. rewrite Hph. simpl. qsplit.
      * exact Hq.
      * intros _. split; [exact Hwi|reflexivity].
      * discriminate.
      * lia.
      * apply subseq_snoc_skip, Hss.
      * rewrite app_length. simpl. infl. lia.
  - destruct (ring_push_room (r_buf rd) q x) as [rb' [Hp [[Hq' Hwi'] [Hsz Hcl']]]];
      [rewrite H4; exact Hn|exact Hok|rewrite H4; lia|].
    rewrite Hp. constructor; simpl; try assumption.
    + apply Forall_app. split; [exact H3|constructor; [exact Hx|constructor]].
    + congruence.
    + congruence.
    + exists (q ++ [x]), 0. simpl. rewrite Hph. simpl. qsplit.
      * exact Hq'.
      * intros _. split; [|reflexivity]. rewrite Hwi', Hsz, H4. reflexivity.
      * discriminate.
      * lia.
      * apply subseq_push_take, Hss.
      * rewrite !app_length. simpl. infl. lia.
Qed.

Lemma NoDup_remove_Z (x : Z) l : NoDup l -> NoDup (remove Z.eq_dec x l).
Proof.
  induction 1 as [|a l Hni Hnd IH]; simpl; [constructor|].
  destruct (Z.eq_dec x a); [exact IH|]. constructor; [|exact IH].
  intros Hin. apply in_remove in Hin. tauto.
Qed.

Lemma in_remove_iff (x y : Z) l : In y (remove Z.eq_dec x l) <-> In y l /\ y <> x.
Proof.
  split.
  - apply in_remove.
  - intros [H1 H2]. apply in_in_remove; assumption.
Qed.

(* ---- one step ---- *)

(* a step that rewrites the record of one reader and nothing else, with a label the monitors ignore *)
Lemma inv_update_one s M r rd' l :
  Inv s M -> (forall r0 m, mon_step r0 m l = m) ->
  rinv (s_qsize s) r (s_onDatas s) rd' (M r) ->
  Inv (with_readers s (set_reader (s_readers s) r rd')) (fun r0 => mon_step r0 (M r0) l).
Proof.
  intros [Hn [Hnd [Hcur Hr]]] Hmon Hrd'. unfold Inv; simpl. repeat split; try assumption.
  - intros r0. rewrite Hmon. apply Hcur.
  - intros r0. rewrite Hmon. unfold set_reader. destruct (Z.eqb_spec r0 r) as [->|_]; [exact Hrd'|apply Hr].
Qed.

Lemma step_inv s M l s' :
  Inv s M -> step s l = Some s' -> Inv s' (fun r => mon_step r (M r) l).
Proof.
  intros HI Hst. pose proof HI as [Hn [Hnd [Hcur Hr]]].
  destruct l as [ss f u|r|r ok|r m0 f0|r|r|r|r|ss]; simpl in Hst.
  - (* Write *)
    destruct (memK f (s_formats s)); simpl in Hst; [|discriminate].
    destruct (opt_eqb (s_cur s) ss) eqn:Ecur; inversion Hst; subst; clear Hst.
    + unfold Inv, deliver; simpl. repeat split; try assumption.
      * intros r0. specialize (Hcur r0). destruct (m_att (M r0)); [|exact Hcur].
        destruct (opt_eqb (m_cur (M r0)) ss && memK f l); exact Hcur.
      * intros r0. specialize (Hr r0). specialize (Hcur r0).
        destruct (in_dec Z.eq_dec r0 (s_onDatas s f)) as [Hin|Hni].
        -- destruct (s_readers s r0) as [rd|] eqn:Erd; [|destruct Hr as [_ [_ [Hno _]]]; exfalso; apply (Hno f Hin)].
           rewrite (fold_push_in _ _ _ _ rd) by auto.
           pose proof (proj1 (ri_sub _ _ _ _ _ Hr f) Hin) as [Hph Hf].
           rewrite (ri_att _ _ _ _ _ Hr), Hph, Hcur, Ecur. simpl.
           rewrite (proj2 (memK_In f (m_pre (M r0))) (proj2 (ri_pre _ _ _ _ _ Hr f) Hf)).
           pose proof (rinv_push _ _ _ _ _ (f, u) Hn Hr Hph Hf) as Hp.
           eapply rinv_mon_ext; [| | |exact Hp]; simpl; [|reflexivity|reflexivity].
           rewrite (ri_att _ _ _ _ _ Hr), Hph. reflexivity.
        -- rewrite fold_push_other by assumption.
           destruct (s_readers s r0) as [rd|] eqn:Erd.
           ++ assert (Hm : match m_att (M r0) with
                           | Some fmts => if opt_eqb (m_cur (M r0)) ss && memK f fmts
                                          then {| m_cur := m_cur (M r0); m_pre := m_pre (M r0); m_att := m_att (M r0);
                                                  m_off := m_off (M r0) ++ [(f, u)] |}
                                          else M r0
                           | None => M r0 end = M r0).
              { rewrite (ri_att _ _ _ _ _ Hr). destruct (r_phase rd) eqn:Eph; try reflexivity.
                destruct (memK f (m_pre (M r0))) eqn:Ef; [|rewrite andb_false_r; reflexivity].
                exfalso. apply Hni. apply (ri_sub _ _ _ _ _ Hr).
                split; [exact Eph|apply (ri_pre _ _ _ _ _ Hr), memK_In; exact Ef]. }
              rewrite Hm. exact Hr.
           ++ destruct Hr as [Ha Hrest]. rewrite Ha. split; [exact Ha|exact Hrest].
    + (* stale sub-stream: nothing happens *)
      unfold Inv. repeat split; try assumption.
      * intros r0. specialize (Hcur r0). simpl. destruct (m_att (M r0)); [|exact Hcur].
        destruct (opt_eqb (m_cur (M r0)) ss && memK f l); exact Hcur.
      * intros r0. specialize (Hr r0). specialize (Hcur r0). cbv beta.
        assert (Hm : mon_step r0 (M r0) (Write ss f u) = M r0).
        { simpl. rewrite Hcur, Ecur. simpl. destruct (m_att (M r0)); reflexivity. }
        rewrite Hm. exact Hr.
  - (* ReaderPull *)
    specialize (Hr r) as Hrr.
    destruct (s_readers s r) as [rd|] eqn:Erd; [|discriminate].
    destruct (r_go rd) eqn:Ego; try discriminate.
    destruct Hrr as [H1 H0 H2 H3 H4 H5 H6 [q [k [Hq [Hopen [Hcl [Hk [Hss Hlen]]]]]]]].
    assert (Hinf : inflight rd = []) by (unfold inflight; rewrite Ego; reflexivity).
    destruct q as [|x q].
    + rewrite ring_pull_empty in Hst by (rewrite ?H4; assumption).
      destruct (rb_closed (r_buf rd)) eqn:Ecl; [|discriminate]. inversion Hst; subst; clear Hst.
      apply inv_update_one; [exact HI|reflexivity|].
      constructor; simpl; try assumption; try congruence.
      exists [], k. infl. rewrite Ego in Hss, Hlen. qsplit; try assumption.
    + destruct (ring_pull_item (r_buf rd) x q) as [rb' [Hp [Hq' [Hsz [Hcl' [Hwi' Hri']]]]]];
        [rewrite H4; exact Hn|exact Hq|].
      rewrite Hp in Hst. inversion Hst; subst; clear Hst.
      apply inv_update_one; [exact HI|reflexivity|].
      constructor; simpl; try assumption; try congruence.
      * intros Hj. rewrite (H6 Hj) in Ego. discriminate.
      * exists q, k. infl. rewrite Ego in Hss, Hlen. simpl in Hss, Hlen. qsplit.
        -- exact Hq'.
        -- intros Hc. destruct (Hopen Hc) as [Hw Hk0]. split; [|exact Hk0].
           rewrite Hwi', Hw. rewrite H4 in Hri'. symmetry. exact Hri'.
        -- intros Hc. specialize (Hcl Hc). discriminate.
        -- exact Hk.
        -- exact Hss.
        -- simpl. lia.
  - (* ReaderDone *)
    specialize (Hr r) as Hrr.
    destruct (s_readers s r) as [rd|] eqn:Erd; [|discriminate].
    destruct (r_go rd) eqn:Ego; try discriminate. inversion Hst; subst; clear Hst.
    destruct Hrr as [H1 H0 H2 H3 H4 H5 H6 [q [k [Hq [Hopen [Hcl [Hk [Hss Hlen]]]]]]]].
    apply inv_update_one; [exact HI|reflexivity|].
    constructor; simpl; try assumption.
    + intros Hj. rewrite (H6 Hj) in Ego. discriminate.
    + exists q, k. infl. rewrite Ego in Hss, Hlen. simpl in Hss, Hlen. qsplit; try assumption.
      * destruct ok; simpl; rewrite <- app_assoc; exact Hss.
      * rewrite app_length. destruct ok; simpl; lia.
  - (* OnData *)
    specialize (Hr r) as Hrr.
    destruct (s_readers s r) as [rd|] eqn:Erd; [discriminate|].
    inversion Hst; subst; clear Hst.
    destruct Hrr as [Ha [Ho [Hno Hpre]]].
    unfold Inv; simpl. repeat split; try assumption.
    + intros r0. destruct (Z.eqb_spec r r0); simpl; apply Hcur.
    + intros r0. specialize (Hr r0). rewrite (Z.eqb_sym r0 r). destruct (Z.eqb_spec r r0) as [<-|Hne].
      * rewrite Erd. simpl. split; [exact Ha|split; [exact Ho|split; [exact Hno|]]].
        intros k. rewrite on_data_keys, in_app_iff, Hpre. simpl. intuition congruence.
      * exact Hr.
  - (* AddReader *)
    specialize (Hr r) as Hrr.
    destruct (s_readers s r) as [rd|] eqn:Erd; [discriminate|].
    destruct (forallb (fun f => memK f (s_formats s)) (keys_of (s_prep s r))) eqn:Eok; [|discriminate].
    inversion Hst; subst; clear Hst.
    destruct Hrr as [Ha [Ho [Hno Hpre]]].
    set (fmts := keys_of (s_prep s r)) in *.
    unfold Inv; simpl. repeat split; try assumption.
    + intros f. destruct (memK f fmts); [|apply Hnd]. constructor; [apply Hno|apply Hnd].
    + intros r0. destruct (Z.eqb_spec r r0); simpl; apply Hcur.
    + intros r0. unfold set_reader. rewrite (Z.eqb_sym r r0). destruct (Z.eqb_spec r0 r) as [->|Hne].
      * constructor; simpl; try reflexivity.
        -- exact Hpre.
        -- intros f. destruct (memK f fmts) eqn:Ef.
           ++ apply memK_In in Ef. split; [intros _; split; [reflexivity|exact Ef]|intros _; left; reflexivity].
           ++ apply memK_false in Ef. split; [intros H; exfalso; apply (Hno f H)|intros [_ H]; tauto].
        -- rewrite Ho. constructor.
        -- discriminate.
        -- exists [], 0. rewrite Ho. destruct (ring_new_ok _ Hn) as [Hh Hw]. infl. qsplit.
           ++ exact Hh.
           ++ intros _. split; [|reflexivity]. simpl in Hw. simpl. exact Hw.
           ++ discriminate.
           ++ lia.
           ++ constructor.
           ++ reflexivity.
      * specialize (Hr r0). destruct (s_readers s r0) as [rd0|].
        -- eapply rinv_od_ext; [|exact Hr]. intros f. simpl.
           destruct (memK f fmts); [|reflexivity]. simpl. split; [intros [E|H]; [congruence|exact H]|auto].
        -- destruct Hr as [Ha0 [Ho0 [Hno0 Hpre0]]]. split; [exact Ha0|split; [exact Ho0|split; [|exact Hpre0]]].
           intros f. destruct (memK f fmts); [|apply Hno0]. simpl. intros [E|H]; [congruence|apply (Hno0 f H)].
  - (* RemoveBegin *)
    specialize (Hr r) as Hrr.
    destruct (s_readers s r) as [rd|] eqn:Erd; [|discriminate].
    destruct (r_phase rd) eqn:Eph; try discriminate. inversion Hst; subst; clear Hst.
    unfold Inv; simpl. repeat split; try assumption.
    + intros f. destruct (memK f (r_subs rd)); [apply NoDup_remove_Z|]; apply Hnd.
    + intros r0. destruct (Z.eqb_spec r r0); simpl; apply Hcur.
    + intros r0. unfold set_reader. rewrite (Z.eqb_sym r r0). destruct (Z.eqb_spec r0 r) as [->|Hne].
      * destruct Hrr as [H1 H0 H2 H3 H4 H5 H6 H7]. constructor; simpl; try assumption; try reflexivity.
        -- intros f. split; [|intros [H _]; discriminate]. intros Hin. exfalso.
           destruct (memK f (r_subs rd)) eqn:Ef.
           ++ apply in_remove_iff in Hin. tauto.
           ++ apply memK_false in Ef. apply H2 in Hin. tauto.
        -- rewrite Eph in H5. exact H5.
        -- discriminate.
        -- destruct H7 as [q [k H7]]. exists q, k. rewrite Eph in H7. exact H7.
      * specialize (Hr r0). destruct (s_readers s r0) as [rd0|].
        -- eapply rinv_od_ext; [|exact Hr]. intros f. simpl.
           destruct (memK f (r_subs rd)); [|reflexivity]. rewrite in_remove_iff. tauto.
        -- destruct Hr as [Ha0 [Ho0 [Hno0 Hpre0]]]. split; [exact Ha0|split; [exact Ho0|split; [|exact Hpre0]]].
           intros f. destruct (memK f (r_subs rd)); [|apply Hno0]. rewrite in_remove_iff.
           intros [H _]. apply (Hno0 f H).
  - (* RemoveClose *)
    specialize (Hr r) as Hrr.
    destruct (s_readers s r) as [rd|] eqn:Erd; [|discriminate].
    destruct (r_phase rd) eqn:Eph; try discriminate. inversion Hst; subst; clear Hst.
    destruct Hrr as [H1 H0 H2 H3 H4 H5 H6 [q [k [Hq [Hopen [Hcl [Hk [Hss Hlen]]]]]]]].
    rewrite Eph in *. destruct (Hopen eq_refl) as [Hwi ->].
    apply inv_update_one; [exact HI| |].
    { intros r0 m. simpl. reflexivity. }
    constructor; simpl; try assumption; try reflexivity; try discriminate.
    + intros f. rewrite H2. split; intros [H _]; discriminate.
    + exists [], (length q). infl.
      destruct Hq as [Hl [Hri [Hqn Hs]]]. qsplit.
      * apply ring_close_holds. exact Hri.
      * discriminate.
      * reflexivity.
      * rewrite <- H4. exact Hqn.
      * rewrite app_nil_r. rewrite app_assoc in Hss. apply subseq_app_drop_r in Hss. exact Hss.
      * simpl. lia.
  - (* RemoveJoin *)
    specialize (Hr r) as Hrr.
    destruct (s_readers s r) as [rd|] eqn:Erd; [|discriminate].
    destruct (r_phase rd) eqn:Eph; try discriminate.
    destruct (r_go rd) eqn:Ego; try discriminate. inversion Hst; subst; clear Hst.
    destruct Hrr as [H1 H0 H2 H3 H4 H5 H6 [q [k [Hq [Hopen [Hcl [Hk [Hss Hlen]]]]]]]].
    rewrite Eph in *.
    apply inv_update_one; [exact HI| |].
    { intros r0 m. simpl. reflexivity. }
    constructor; simpl; try assumption; try reflexivity.
    + intros f. rewrite H2. split; intros [H _]; discriminate.
    + intros _. exact Ego.
    + exists q, k. infl. qsplit; try assumption.
  - (* NewSub *)
    inversion Hst; subst; clear Hst.
    unfold Inv; simpl. repeat split; try assumption.
    intros r0. specialize (Hr r0). destruct (s_readers s r0).
    + eapply rinv_mon_ext; [| | |exact Hr]; reflexivity.
    + exact Hr.
Qed.

(* ============================================================================================ *)
(* every history                                                                                   *)

Lemma run_inv ls : forall s M s',
  Inv s M -> run s ls = Some s' -> Inv s' (fun r => fold_left (mon_step r) ls (M r)).
Proof.
  induction ls as [|l t IH]; intros s M s' HI Hrun; simpl in *.
  - inversion Hrun; subst. exact HI.
  - destruct (step s l) as [s1|] eqn:E; [|discriminate].
    apply (IH s1 (fun r => mon_step r (M r) l)); [|exact Hrun]. apply step_inv with (s := s); assumption.
Qed.

Definition reachable (s : state) : Prop :=
  exists fmts n ls, 0 < n /\ run (init fmts n) ls = Some s.

Lemma reach_inv fmts n ls s :
  0 < n -> run (init fmts n) ls = Some s -> Inv s (fun r => fold_left (mon_step r) ls mon_init).
Proof. intros Hn Hrun. apply (run_inv ls _ (fun _ => mon_init) _ (Inv_init fmts n Hn) Hrun). Qed.

Lemma reachable_inv s : reachable s -> exists M, Inv s M.
Proof. intros [fmts [n [ls [Hn Hrun]]]]. eexists. apply (reach_inv _ _ _ _ Hn Hrun). Qed.

Lemma run_app ls1 : forall ls2 s s1 s2, run s ls1 = Some s1 -> run s1 ls2 = Some s2 -> run s (ls1 ++ ls2) = Some s2.
Proof.
  induction ls1 as [|l t IH]; intros ls2 s s1 s2 H1 H2; simpl in *.
  - inversion H1; subst. exact H2.
  - destruct (step s l); [|discriminate]. eapply IH; eassumption.
Qed.

Lemma reachable_step s l s' : reachable s -> step s l = Some s' -> reachable s'.
Proof.
  intros [fmts [n [ls [Hn Hrun]]]] Hst. exists fmts, n, (ls ++ [l]). split; [exact Hn|].
  eapply run_app; [exact Hrun|]. simpl. rewrite Hst. reflexivity.
Qed.

Lemma reachable_run ls : forall s s', reachable s -> run s ls = Some s' -> reachable s'.
Proof.
  induction ls as [|l t IH]; intros s s' Hr Hrun; simpl in Hrun.
  - inversion Hrun; subst. exact Hr.
  - destruct (step s l) as [s1|] eqn:E; [|discriminate]. apply (IH s1); [|exact Hrun].
    eapply reachable_step; eassumption.
Qed.

Lemma step_qsize s l s' : step s l = Some s' -> s_qsize s' = s_qsize s /\ s_formats s' = s_formats s.
Proof.
  intros Hst. destruct l as [ss f u|r|r ok|r m0 f0|r|r|r|r|ss]; simpl in Hst.
  - destruct (memK f (s_formats s)); simpl in Hst; [|discriminate].
    destruct (opt_eqb (s_cur s) ss); inversion Hst; subst; split; reflexivity.
  - destruct (s_readers s r) as [rd|]; [|discriminate]. destruct (r_go rd); try discriminate.
    destruct (rb_pull (r_buf rd)); try discriminate; inversion Hst; subst; split; reflexivity.
  - destruct (s_readers s r) as [rd|]; [|discriminate]. destruct (r_go rd); try discriminate.
    inversion Hst; subst; split; reflexivity.
  - destruct (s_readers s r) as [rd|]; [discriminate|]. inversion Hst; subst; split; reflexivity.
  - destruct (s_readers s r) as [rd|]; [discriminate|].
    destruct (forallb (fun f => memK f (s_formats s)) (keys_of (s_prep s r))); [|discriminate].
    inversion Hst; subst; split; reflexivity.
  - destruct (s_readers s r) as [rd|]; [|discriminate]. destruct (r_phase rd); try discriminate.
    inversion Hst; subst; split; reflexivity.
  - destruct (s_readers s r) as [rd|]; [|discriminate]. destruct (r_phase rd); try discriminate.
    inversion Hst; subst; split; reflexivity.
  - destruct (s_readers s r) as [rd|]; [|discriminate]. destruct (r_phase rd); try discriminate.
    destruct (r_go rd); try discriminate. inversion Hst; subst; split; reflexivity.
  - inversion Hst; subst; split; reflexivity.
Qed.

Lemma run_qsize ls : forall s s', run s ls = Some s' -> s_qsize s' = s_qsize s /\ s_formats s' = s_formats s.
Proof.
  induction ls as [|l t IH]; intros s s' Hrun; simpl in Hrun.
  - inversion Hrun; subst; split; reflexivity.
  - destruct (step s l) as [s1|] eqn:E; [|discriminate]. destruct (step_qsize _ _ _ E) as [H1 H2].
    destruct (IH _ _ Hrun) as [H3 H4]. split; congruence.
Qed.

(* ---- order ---- *)
Theorem order_queue fmts n ls s r rd :
  0 < n -> run (init fmts n) ls = Some s -> s_readers s r = Some rd ->
  exists q, ring_holds (r_buf rd) q /\ subseq (r_delivered rd ++ inflight rd ++ q) (offered r ls).
Proof.
  intros Hn Hrun Hrd. destruct (reach_inv _ _ _ _ Hn Hrun) as [_ [_ [_ Hr]]].
  specialize (Hr r). rewrite Hrd in Hr. destruct (ri_q _ _ _ _ _ Hr) as [q [k [Hq [_ [_ [_ [Hss _]]]]]]].
  exists q. split; [exact Hq|exact Hss].
Qed.

Theorem order fmts n ls s r rd :
  0 < n -> run (init fmts n) ls = Some s -> s_readers s r = Some rd ->
  subseq (r_delivered rd ++ inflight rd) (offered r ls).
Proof.
  intros Hn Hrun Hrd. destruct (order_queue _ _ _ _ _ _ Hn Hrun Hrd) as [q [_ Hss]].
  rewrite app_assoc in Hss. apply subseq_app_drop_r in Hss. exact Hss.
Qed.

(* what the monitor collects is a subsequence of everything that was written *)
Lemma mon_off_writes r ls : forall m,
  exists X, m_off (fold_left (mon_step r) ls m) = m_off m ++ X /\ subseq X (all_writes ls).
Proof.
  induction ls as [|l t IH]; intros m; simpl.
  - exists []. split; [rewrite app_nil_r; reflexivity|constructor].
  - destruct (IH (mon_step r m l)) as [X [HX HS]].
    destruct l as [ss f u|r0|r0 ok|r0 m0 f0|r0|r0|r0|r0|ss]; simpl in *;
      try (exists X; split; [exact HX|exact HS]).
    + destruct (m_att m) as [fm|]; [|exists X; split; [exact HX|apply subseq_skip, HS]].
      destruct (opt_eqb (m_cur m) ss && memK f fm); simpl in HX.
      * exists ((f, u) :: X). split; [rewrite HX, <- app_assoc; reflexivity|apply subseq_take, HS].
      * exists X. split; [exact HX|apply subseq_skip, HS].
    + destruct (r0 =? r)%Z; exists X; split; try exact HX; exact HS.
    + destruct (r0 =? r)%Z; exists X; split; try exact HX; exact HS.
    + destruct (r0 =? r)%Z; exists X; split; try exact HX; exact HS.
Qed.

Lemma offered_writes r ls : subseq (offered r ls) (all_writes ls).
Proof.
  unfold offered. destruct (mon_off_writes r ls mon_init) as [X [HX HS]]. rewrite HX. exact HS.
Qed.

Theorem at_most_once fmts n ls s r rd :
  0 < n -> run (init fmts n) ls = Some s -> s_readers s r = Some rd ->
  NoDup (map snd (all_writes ls)) -> NoDup (map snd (r_delivered rd ++ inflight rd)).
Proof.
  intros Hn Hrun Hrd Hnd. eapply subseq_NoDup; [|exact Hnd]. apply subseq_map.
  eapply subseq_trans; [apply (order _ _ _ _ _ _ Hn Hrun Hrd)|apply offered_writes].
Qed.

(* ---- no foreign format ---- *)
Theorem no_foreign_format fmts n ls s r rd :
  0 < n -> run (init fmts n) ls = Some s -> s_readers s r = Some rd ->
  exists q, ring_holds (r_buf rd) q /\
            forall x, In x (r_delivered rd ++ inflight rd ++ q) -> In (fst x) (r_subs rd).
Proof.
  intros Hn Hrun Hrd. destruct (reach_inv _ _ _ _ Hn Hrun) as [_ [_ [_ Hr]]].
  specialize (Hr r). rewrite Hrd in Hr. destruct (ri_q _ _ _ _ _ Hr) as [q [k [Hq [_ [_ [_ [Hss _]]]]]]].
  exists q. split; [exact Hq|]. intros x Hx.
  pose proof (ri_fmt _ _ _ _ _ Hr) as Hf. rewrite Forall_forall in Hf. apply Hf.
  apply (subseq_incl _ _ Hss), Hx.
Qed.

(* ---- accounting ---- *)
Theorem accounting fmts n ls s r rd :
  0 < n -> run (init fmts n) ls = Some s -> s_readers s r = Some rd ->
  exists q k, ring_holds (r_buf rd) q /\
    length (offered r ls) = length (r_delivered rd) + length (inflight rd) + length q + r_discarded rd + k /\
    k <= n /\
    (r_phase rd = Attached \/ r_phase rd = Unsubscribed -> k = 0) /\
    (r_phase rd = Closed \/ r_phase rd = Joined -> q = []).
Proof.
  intros Hn Hrun Hrd. destruct (reach_inv _ _ _ _ Hn Hrun) as [_ [_ [_ Hr]]].
  specialize (Hr r). rewrite Hrd in Hr.
  destruct (ri_q _ _ _ _ _ Hr) as [q [k [Hq [Hopen [Hcl [Hk [_ Hlen]]]]]]].
  destruct (run_qsize _ _ _ Hrun) as [Hsz _]. simpl in Hsz. rewrite Hsz in Hk.
  exists q, k. split; [exact Hq|]. split; [exact Hlen|]. split; [exact Hk|]. split.
  - intros [H|H]; rewrite H in Hopen; apply (Hopen eq_refl).
  - intros [H|H]; rewrite H in Hcl; apply (Hcl eq_refl).
Qed.

(* ---- the effect of one Write on one reader ---- *)
Lemma opt_eqb_true a b : opt_eqb a b = true <-> a = Some b.
Proof.
  destruct a as [x|]; simpl; [|split; discriminate]. rewrite Z.eqb_eq. split; [intros ->; reflexivity|].
  intros H; inversion H; reflexivity.
Qed.

Lemma write_stale s ss f u s' : s_cur s <> Some ss -> step s (Write ss f u) = Some s' -> s' = s.
Proof.
  intros Hne Hst. simpl in Hst. destruct (memK f (s_formats s)); simpl in Hst; [|discriminate].
  destruct (opt_eqb (s_cur s) ss) eqn:E; [apply opt_eqb_true in E; contradiction|].
  inversion Hst; reflexivity.
Qed.

Lemma write_subscribed s M ss f u s' r rd :
  Inv s M -> step s (Write ss f u) = Some s' -> s_cur s = Some ss ->
  s_readers s r = Some rd -> r_phase rd = Attached -> In f (r_subs rd) ->
  s_readers s' r = Some (push_rd (f, u) rd).
Proof.
  intros [Hn [Hnd [Hcur Hr]]] Hst Hc Hrd Hph Hf. simpl in Hst.
  destruct (memK f (s_formats s)); simpl in Hst; [|discriminate].
  rewrite (proj2 (opt_eqb_true _ _) Hc) in Hst. inversion Hst; subst; clear Hst. unfold deliver; simpl.
  apply fold_push_in; [apply Hnd| |exact Hrd].
  specialize (Hr r). rewrite Hrd in Hr. apply (ri_sub _ _ _ _ _ Hr). split; assumption.
Qed.

Lemma write_unsubscribed s M ss f u s' r rd :
  Inv s M -> step s (Write ss f u) = Some s' ->
  s_readers s r = Some rd -> ~ (r_phase rd = Attached /\ In f (r_subs rd)) ->
  s_readers s' r = Some rd.
Proof.
  intros [Hn [Hnd [Hcur Hr]]] Hst Hrd Hno. simpl in Hst.
  destruct (memK f (s_formats s)); simpl in Hst; [|discriminate].
  destruct (opt_eqb (s_cur s) ss); inversion Hst; subst; clear Hst; [|exact Hrd]. unfold deliver; simpl.
  rewrite fold_push_other; [exact Hrd|].
  specialize (Hr r). rewrite Hrd in Hr. intros Hin. apply Hno. apply (ri_sub _ _ _ _ _ Hr). exact Hin.
Qed.

Lemma inv_ring_ok s M r rd q :
  Inv s M -> s_readers s r = Some rd -> closedp (r_phase rd) = false -> ring_holds (r_buf rd) q ->
  ring_ok (r_buf rd) q /\ rb_size (r_buf rd) = s_qsize s.
Proof.
  intros [Hn [_ [_ Hr]]] Hrd Hop Hq. specialize (Hr r). rewrite Hrd in Hr.
  destruct (ri_q _ _ _ _ _ Hr) as [q0 [k [Hq0 [Hopen _]]]].
  pose proof (ri_size _ _ _ _ _ Hr) as Hsz.
  assert (q = q0) as -> by (eapply ring_holds_unique; [rewrite Hsz; exact Hn|exact Hq|exact Hq0]).
  split; [|exact Hsz]. split; [exact Hq0|]. rewrite Hsz. apply (Hopen Hop).
Qed.

(* a write by the current sub-stream to a subscribed format is queued when there is room ... *)
Theorem write_when_room s ss f u s' r rd q :
  reachable s -> step s (Write ss f u) = Some s' -> s_cur s = Some ss ->
  s_readers s r = Some rd -> r_phase rd = Attached -> In f (r_subs rd) ->
  ring_holds (r_buf rd) q -> length q < s_qsize s ->
  exists rd', s_readers s' r = Some rd' /\ ring_holds (r_buf rd') (q ++ [(f, u)]) /\
              r_discarded rd' = r_discarded rd /\ r_go rd' = r_go rd /\ r_delivered rd' = r_delivered rd /\
              r_phase rd' = r_phase rd.
Proof.
  intros Hre Hst Hc Hrd Hph Hf Hq Hroom. destruct (reachable_inv _ Hre) as [M HI].
  rewrite (write_subscribed _ _ _ _ _ _ _ _ HI Hst Hc Hrd Hph Hf).
  destruct (inv_ring_ok _ _ _ _ q HI Hrd) as [Hok Hsz]; [rewrite Hph; reflexivity|exact Hq|].
  destruct HI as [Hn _].
  destruct (ring_push_room (r_buf rd) q (f, u)) as [rb' [Hp [[Hq' _] _]]];
    [rewrite Hsz; exact Hn|exact Hok|rewrite Hsz; exact Hroom|].
  eexists. split; [reflexivity|]. unfold push_rd. rewrite Hp. simpl. split; [exact Hq'|]. repeat split; reflexivity.
Qed.

(* ... and counted as discarded, leaving the queue as it was, when the queue is full *)
Theorem write_when_full s ss f u s' r rd q :
  reachable s -> step s (Write ss f u) = Some s' -> s_cur s = Some ss ->
  s_readers s r = Some rd -> r_phase rd = Attached -> In f (r_subs rd) ->
  ring_holds (r_buf rd) q -> length q = s_qsize s ->
  exists rd', s_readers s' r = Some rd' /\ r_buf rd' = r_buf rd /\
              r_discarded rd' = S (r_discarded rd) /\ r_go rd' = r_go rd /\ r_delivered rd' = r_delivered rd /\
              r_phase rd' = r_phase rd.
Proof.
  intros Hre Hst Hc Hrd Hph Hf Hq Hfull. destruct (reachable_inv _ Hre) as [M HI].
  rewrite (write_subscribed _ _ _ _ _ _ _ _ HI Hst Hc Hrd Hph Hf).
  destruct (inv_ring_ok _ _ _ _ q HI Hrd) as [Hok Hsz]; [rewrite Hph; reflexivity|exact Hq|].
  destruct HI as [Hn _].
  eexists. split; [reflexivity|]. unfold push_rd.
  rewrite (ring_push_full _ q) by (rewrite ?Hsz; assumption). simpl. repeat split; reflexivity.
Qed.

(* the discarded counter moves only in a Write step of the current sub-stream to a subscribed format that found
   the queue full, and then by exactly one *)
Theorem discard_only_when_full s l s' r rd rd' :
  reachable s -> step s l = Some s' -> s_readers s r = Some rd -> s_readers s' r = Some rd' ->
  r_discarded rd' <> r_discarded rd ->
  exists ss f u q, l = Write ss f u /\ s_cur s = Some ss /\ r_phase rd = Attached /\ In f (r_subs rd) /\
                   ring_holds (r_buf rd) q /\ length q = s_qsize s /\
                   r_discarded rd' = S (r_discarded rd) /\ r_buf rd' = r_buf rd.
Proof.
  intros Hre Hst Hrd Hrd' Hne. destruct (reachable_inv _ Hre) as [M HI].
  destruct l as [ss f u|r0|r0 ok|r0 m0 f0|r0|r0|r0|r0|ss].
  - (* Write *)
    destruct (opt_eqb (s_cur s) ss) eqn:Ec.
    + apply opt_eqb_true in Ec.
      destruct (r_phase rd) eqn:Eph;
        try (rewrite (write_unsubscribed _ _ _ _ _ _ _ _ HI Hst Hrd) in Hrd';
             [inversion Hrd'; subst; contradiction|rewrite Eph; intros [H _]; discriminate]).
      destruct (in_dec fkey_eq_dec f (r_subs rd)) as [Hf|Hnf];
        [|rewrite (write_unsubscribed _ _ _ _ _ _ _ _ HI Hst Hrd) in Hrd';
          [inversion Hrd'; subst; contradiction|intros [_ H]; contradiction]].
      rewrite (write_subscribed _ _ _ _ _ _ _ _ HI Hst Ec Hrd Eph Hf) in Hrd'. inversion Hrd'; subst; clear Hrd'.
      pose proof HI as [Hn [_ [_ Hr]]]. specialize (Hr r). rewrite Hrd in Hr.
      destruct (ri_q _ _ _ _ _ Hr) as [q [k [Hq [Hopen _]]]].
      destruct (inv_ring_ok _ _ _ _ q HI Hrd) as [Hok Hsz]; [rewrite Eph; reflexivity|exact Hq|].
      assert (Hqn : length q <= s_qsize s). { destruct Hq as [_ [_ [Hq _]]]. rewrite Hsz in Hq. exact Hq. }
      destruct (Nat.eq_dec (length q) (s_qsize s)) as [Hfull|Hroom].
      * exists ss, f, u, q. unfold push_rd. rewrite (ring_push_full _ q) by (rewrite ?Hsz; assumption).
        simpl. repeat (split; [first [reflexivity|assumption]|]). reflexivity.
      * exfalso. apply Hne. unfold push_rd.
        destruct (ring_push_room (r_buf rd) q (f, u)) as [rb' [Hp _]];
          [rewrite Hsz; exact Hn|exact Hok|rewrite Hsz; lia|]. rewrite Hp. reflexivity.
    + assert (s' = s) by (eapply write_stale; [|exact Hst]; intros H; apply opt_eqb_true in H; congruence).
      subst. rewrite Hrd in Hrd'. inversion Hrd'; subst. contradiction.
  - exfalso. simpl in Hst. destruct (s_readers s r0) as [rd0|] eqn:E0; [|discriminate].
    destruct (r_go rd0); try discriminate. destruct (rb_pull (r_buf rd0)); try discriminate;
      inversion Hst; subst; clear Hst; simpl in Hrd'; unfold set_reader in Hrd';
      (destruct (Z.eqb_spec r r0) as [->|_]; [rewrite Hrd in E0|rewrite Hrd in Hrd']);
      inversion Hrd'; subst; try inversion E0; subst; apply Hne; reflexivity.
  - exfalso. simpl in Hst. destruct (s_readers s r0) as [rd0|] eqn:E0; [|discriminate].
    destruct (r_go rd0); try discriminate.
    inversion Hst; subst; clear Hst; simpl in Hrd'; unfold set_reader in Hrd';
      (destruct (Z.eqb_spec r r0) as [->|_]; [rewrite Hrd in E0|rewrite Hrd in Hrd']);
      inversion Hrd'; subst; try inversion E0; subst; apply Hne; reflexivity.
  - exfalso. simpl in Hst. destruct (s_readers s r0) as [rd0|] eqn:E0; [discriminate|].
    inversion Hst; subst; clear Hst; simpl in Hrd'. rewrite Hrd in Hrd'. inversion Hrd'; subst. apply Hne; reflexivity.
  - exfalso. simpl in Hst. destruct (s_readers s r0) as [rd0|] eqn:E0; [discriminate|].
    destruct (forallb (fun f => memK f (s_formats s)) (keys_of (s_prep s r0))); [|discriminate].
    inversion Hst; subst; clear Hst; simpl in Hrd'; unfold set_reader in Hrd'.
    destruct (Z.eqb_spec r r0) as [->|_]; [rewrite Hrd in E0; discriminate|rewrite Hrd in Hrd'].
    inversion Hrd'; subst. apply Hne; reflexivity.
  - exfalso. simpl in Hst. destruct (s_readers s r0) as [rd0|] eqn:E0; [|discriminate].
    destruct (r_phase rd0); try discriminate.
    inversion Hst; subst; clear Hst; simpl in Hrd'; unfold set_reader in Hrd';
      (destruct (Z.eqb_spec r r0) as [->|_]; [rewrite Hrd in E0|rewrite Hrd in Hrd']);
      inversion Hrd'; subst; try inversion E0; subst; apply Hne; reflexivity.
  - exfalso. simpl in Hst. destruct (s_readers s r0) as [rd0|] eqn:E0; [|discriminate].
    destruct (r_phase rd0); try discriminate.
    inversion Hst; subst; clear Hst; simpl in Hrd'; unfold set_reader in Hrd';
      (destruct (Z.eqb_spec r r0) as [->|_]; [rewrite Hrd in E0|rewrite Hrd in Hrd']);
      inversion Hrd'; subst; try inversion E0; subst; apply Hne; reflexivity.
  - exfalso. simpl in Hst. destruct (s_readers s r0) as [rd0|] eqn:E0; [|discriminate].
    destruct (r_phase rd0); try discriminate. destruct (r_go rd0); try discriminate.
    inversion Hst; subst; clear Hst; simpl in Hrd'; unfold set_reader in Hrd';
      (destruct (Z.eqb_spec r r0) as [->|_]; [rewrite Hrd in E0|rewrite Hrd in Hrd']);
      inversion Hrd'; subst; try inversion E0; subst; apply Hne; reflexivity.
  - exfalso. simpl in Hst. inversion Hst; subst; clear Hst. simpl in Hrd'. rewrite Hrd in Hrd'.
    inversion Hrd'; subst. apply Hne; reflexivity.
Qed.

(* ---- removal ---- *)

(* after RemoveBegin nothing is queued for the reader any more *)
Theorem nothing_queued_after_unsubscribe s ss f u s' r rd :
  reachable s -> step s (Write ss f u) = Some s' -> s_readers s r = Some rd -> r_phase rd <> Attached ->
  s_readers s' r = Some rd.
Proof.
  intros Hre Hst Hrd Hph. destruct (reachable_inv _ Hre) as [M HI].
  eapply write_unsubscribed; try eassumption. intros [H _]. contradiction.
Qed.

Lemma exited_disabled s r rd ok :
  s_readers s r = Some rd -> r_go rd = Exited ->
  step s (ReaderPull r) = None /\ step s (ReaderDone r ok) = None.
Proof. intros Hrd Hgo. simpl. rewrite Hrd, Hgo. split; reflexivity. Qed.

(* once joined, the record of the reader never changes again *)
Lemma joined_frozen s M l s' r rd :
  Inv s M -> s_readers s r = Some rd -> r_phase rd = Joined -> step s l = Some s' -> s_readers s' r = Some rd.
Proof.
  intros HI Hrd Hph Hst. pose proof HI as [Hn [Hnd [Hcur Hr]]].
  specialize (Hr r). rewrite Hrd in Hr. pose proof (ri_join _ _ _ _ _ Hr Hph) as Hgo.
  destruct l as [ss f u|r0|r0 ok|r0 m0 f0|r0|r0|r0|r0|ss].
  - eapply write_unsubscribed; try eassumption. rewrite Hph. intros [H _]. discriminate.
  - destruct (Z.eq_dec r0 r) as [->|Hne].
    + rewrite (proj1 (exited_disabled _ _ _ true Hrd Hgo)) in Hst. discriminate.
    + simpl in Hst. destruct (s_readers s r0) as [rd0|]; [|discriminate].
      destruct (r_go rd0); try discriminate. destruct (rb_pull (r_buf rd0)); try discriminate;
        inversion Hst; subst; simpl; unfold set_reader;
        (destruct (Z.eqb_spec r r0); [congruence|exact Hrd]).
  - destruct (Z.eq_dec r0 r) as [->|Hne].
    + rewrite (proj2 (exited_disabled _ _ _ ok Hrd Hgo)) in Hst. discriminate.
    + simpl in Hst. destruct (s_readers s r0) as [rd0|]; [|discriminate].
      destruct (r_go rd0); try discriminate.
      inversion Hst; subst; simpl; unfold set_reader; (destruct (Z.eqb_spec r r0); [congruence|exact Hrd]).
  - simpl in Hst. destruct (s_readers s r0) as [rd0|] eqn:E0; [discriminate|].
    inversion Hst; subst; simpl. exact Hrd.
  - simpl in Hst. destruct (s_readers s r0) as [rd0|] eqn:E0; [discriminate|].
    destruct (forallb (fun f => memK f (s_formats s)) (keys_of (s_prep s r0))); [|discriminate].
    inversion Hst; subst; simpl; unfold set_reader. destruct (Z.eqb_spec r r0); [congruence|exact Hrd].
  - simpl in Hst. destruct (s_readers s r0) as [rd0|] eqn:E0; [|discriminate].
    destruct (r_phase rd0) eqn:Ep; try discriminate.
    inversion Hst; subst; simpl; unfold set_reader. destruct (Z.eqb_spec r r0); [congruence|exact Hrd].
  - simpl in Hst. destruct (s_readers s r0) as [rd0|] eqn:E0; [|discriminate].
    destruct (r_phase rd0) eqn:Ep; try discriminate.
    inversion Hst; subst; simpl; unfold set_reader. destruct (Z.eqb_spec r r0); [congruence|exact Hrd].
  - simpl in Hst. destruct (s_readers s r0) as [rd0|] eqn:E0; [|discriminate].
    destruct (r_phase rd0) eqn:Ep; try discriminate. destruct (r_go rd0); try discriminate.
    inversion Hst; subst; simpl; unfold set_reader. destruct (Z.eqb_spec r r0); [congruence|exact Hrd].
  - simpl in Hst. inversion Hst; subst; simpl. exact Hrd.
Qed.

Theorem no_callback_after_remove ls : forall s r rd s',
  reachable s -> s_readers s r = Some rd -> r_phase rd = Joined -> run s ls = Some s' ->
  s_readers s' r = Some rd /\ r_go rd = Exited /\
  ~ In (ReaderPull r) ls /\ forall ok, ~ In (ReaderDone r ok) ls.
Proof.
  induction ls as [|l t IH]; intros s r rd s' Hre Hrd Hph Hrun; simpl in Hrun.
  - inversion Hrun; subst. destruct (reachable_inv _ Hre) as [M [_ [_ [_ Hr]]]].
    specialize (Hr r). rewrite Hrd in Hr. repeat split; auto. apply (ri_join _ _ _ _ _ Hr Hph).
  - destruct (step s l) as [s1|] eqn:E; [|discriminate].
    destruct (reachable_inv _ Hre) as [M HI].
    pose proof (joined_frozen _ _ _ _ _ _ HI Hrd Hph E) as Hrd1.
    destruct (IH s1 r rd s' (reachable_step _ _ _ Hre E) Hrd1 Hph Hrun) as [H1 [H2 [H3 H4]]].
    split; [exact H1|]. split; [exact H2|]. split.
    + intros [Heq|Hin]; [|contradiction]. subst.
      rewrite (proj1 (exited_disabled _ _ _ true Hrd H2)) in E. discriminate.
    + intros ok [Heq|Hin]; [|apply (H4 ok Hin)]. subst.
      rewrite (proj2 (exited_disabled _ _ _ ok Hrd H2)) in E. discriminate.
Qed.

(* RemoveJoin is possible only once the goroutine of the reader has left its loop *)
Theorem join_needs_exit s r s' rd :
  step s (RemoveJoin r) = Some s' -> s_readers s r = Some rd -> r_go rd = Exited /\ r_phase rd = Closed.
Proof.
  intros Hst Hrd. simpl in Hst. rewrite Hrd in Hst.
  destruct (r_phase rd); try discriminate. destruct (r_go rd); try discriminate. split; reflexivity.
Qed.

(* subscription table = attached readers, per format *)
Theorem subscribed_iff s r rd f :
  reachable s -> s_readers s r = Some rd ->
  (In r (s_onDatas s f) <-> r_phase rd = Attached /\ In f (r_subs rd)).
Proof.
  intros Hre Hrd. destruct (reachable_inv _ Hre) as [M [_ [_ [_ Hr]]]].
  specialize (Hr r). rewrite Hrd in Hr. apply (ri_sub _ _ _ _ _ Hr).
Qed.

(* the pairs a reader is registered with are exactly the pairs of its OnData calls (read off the labels) ... *)
Theorem subs_are_asked fmts n ls s r rd :
  0 < n -> run (init fmts n) ls = Some s -> s_readers s r = Some rd ->
  forall k, In k (r_subs rd) <-> In k (asked r ls).
Proof.
  intros Hn Hrun Hrd k. destruct (reach_inv _ _ _ _ Hn Hrun) as [_ [_ [_ Hr]]].
  specialize (Hr r). rewrite Hrd in Hr. symmetry. apply (ri_pre _ _ _ _ _ Hr).
Qed.

(* ... so the subscriber table of (media, format) k holds exactly the attached readers that asked for k *)
Theorem subscribed_iff_asked fmts n ls s r rd k :
  0 < n -> run (init fmts n) ls = Some s -> s_readers s r = Some rd ->
  (In r (s_onDatas s k) <-> r_phase rd = Attached /\ In k (asked r ls)).
Proof.
  intros Hn Hrun Hrd. rewrite <- (subs_are_asked _ _ _ _ _ _ Hn Hrun Hrd).
  apply subscribed_iff; [exists fmts, n, ls; auto|exact Hrd].
Qed.

(* `offered`, one label at a time: a Write label adds its unit for r exactly when it goes through the current
   sub-stream while r is attached and r asked for that (media, format) - every such pair, not only the first of a media *)
Theorem offered_write fmts n ls s r rd ss k u :
  0 < n -> run (init fmts n) ls = Some s -> s_readers s r = Some rd ->
  offered r (ls ++ [Write ss k u]) =
    if match r_phase rd with Attached => true | _ => false end && opt_eqb (s_cur s) ss && memK k (asked r ls)
    then offered r ls ++ [(k, u)] else offered r ls.
Proof.
  intros Hn Hrun Hrd. destruct (reach_inv _ _ _ _ Hn Hrun) as [_ [_ [Hcur Hr]]].
  specialize (Hr r). specialize (Hcur r). rewrite Hrd in Hr. cbv beta in *.
  unfold offered, asked. rewrite fold_left_app. simpl.
  rewrite (ri_att _ _ _ _ _ Hr), Hcur. destruct (r_phase rd); simpl; try reflexivity.
  destruct (opt_eqb (s_cur s) ss && memK k _); reflexivity.
Qed.

Theorem offered_snoc_other r ls l :
  (forall ss k u, l <> Write ss k u) -> offered r (ls ++ [l]) = offered r ls.
Proof.
  intros Hl. unfold offered. rewrite fold_left_app. simpl.
  destruct l; simpl; try reflexivity; try (destruct (_ =? r)%Z; reflexivity).
  exfalso. eapply Hl. reflexivity.
Qed.

(* Pull hands out the oldest queued item *)
Theorem pull_takes_head s r rd x q s' :
  reachable s -> s_readers s r = Some rd -> ring_holds (r_buf rd) (x :: q) -> step s (ReaderPull r) = Some s' ->
  exists rd', s_readers s' r = Some rd' /\ r_go rd' = Busy x /\ ring_holds (r_buf rd') q /\
              r_delivered rd' = r_delivered rd /\ r_discarded rd' = r_discarded rd.
Proof.
  intros Hre Hrd Hq Hst. destruct (reachable_inv _ Hre) as [M [Hn [_ [_ Hr]]]].
  specialize (Hr r). rewrite Hrd in Hr. pose proof (ri_size _ _ _ _ _ Hr) as Hsz.
  simpl in Hst. rewrite Hrd in Hst. destruct (r_go rd); try discriminate.
  destruct (ring_pull_item (r_buf rd) x q) as [rb' [Hp [Hq' _]]]; [rewrite Hsz; exact Hn|exact Hq|].
  rewrite Hp in Hst. inversion Hst; subst; clear Hst. simpl. unfold set_reader. rewrite Z.eqb_refl.
  eexists. split; [reflexivity|]. simpl. split; [reflexivity|]. split; [exact Hq'|]. split; reflexivity.
Qed.

(* ---- a concrete history (non-vacuity) ---------------------------------------------------------- *)
(* queue size 2; media 0 carries formats 0 and 1, media 1 carries format 0.  Reader 1 subscribes to (0,0); reader 2
   to (0,0) and then to (0,1) - the second format of the same media - and, after a unit was written, to (1,0). *)
Definition ex_fmts : list fkey := [(0, 0); (0, 1); (1, 0)]%Z.
Definition ex_hist : list label :=
  [ NewSub 10; OnData 1 0 0; AddReader 1; OnData 2 0 0; OnData 2 0 1;
    Write 10 (0, 0) 100; ReaderPull 1;                (* reader 1 busy with unit 100; reader 2 not added yet *)
    OnData 2 1 0; AddReader 2;
    Write 10 (0, 1) 101; ReaderPull 2;                (* only reader 2: the first format of media 0 was not lost *)
    Write 10 (0, 0) 102; Write 10 (0, 0) 103;         (* reader 1 queue: 102 103 (full); reader 2 queue: 102 103 (full) *)
    Write 10 (0, 0) 104;                              (* discarded by both *)
    Write 10 (1, 0) 105;                              (* reader 2 only: discarded *)
    NewSub 11; Write 10 (0, 0) 106;                   (* stale sub-stream: reaches nobody *)
    ReaderDone 1 true; ReaderPull 1;                  (* 100 delivered, 102 in flight *)
    RemoveBegin 2; Write 11 (0, 1) 107;               (* reader 2 already unsubscribed *)
    RemoveClose 2; ReaderDone 2 true; ReaderPull 2; RemoveJoin 2;
    Write 11 (0, 0) 108 ]%Z.

Definition ex_view (s : state) (r : Z) :=
  match s_readers s r with
  | Some rd => Some (r_delivered rd, inflight rd, r_discarded rd, occupancy (r_buf rd), r_phase rd)
  | None => None
  end.

Lemma example_run :
  match run (init ex_fmts 2) ex_hist with
  | Some s =>
      ex_view s 1 = Some ([((0, 0), 100)%Z], [((0, 0), 102)%Z], 1, 2, Attached) /\
      ex_view s 2 = Some ([((0, 1), 101)%Z], [], 2, 0, Joined) /\
      offered 1 ex_hist = [((0, 0), 100); ((0, 0), 102); ((0, 0), 103); ((0, 0), 104); ((0, 0), 108)]%Z /\
      offered 2 ex_hist = [((0, 1), 101); ((0, 0), 102); ((0, 0), 103); ((0, 0), 104); ((1, 0), 105)]%Z /\
      asked 2 ex_hist = [(0, 0); (0, 1); (1, 0)]%Z
  | None => False
  end.
Proof. vm_compute. repeat split; reflexivity. Qed.

Lemma example_reachable :
  exists s, reachable s /\ exists rd, s_readers s 2%Z = Some rd /\ r_phase rd = Joined /\ r_discarded rd = 2.
Proof.
  destruct (run (init ex_fmts 2) ex_hist) as [s|] eqn:E; [|vm_compute in E; discriminate].
  exists s. split; [exists ex_fmts, 2, ex_hist; split; [auto|exact E]|].
  vm_compute in E. inversion E; subst. eexists. split; [reflexivity|split; reflexivity].
Qed.

Lemma order_both fmts n ls s r rd :
  0 < n -> run (init fmts n) ls = Some s -> s_readers s r = Some rd ->
  subseq (r_delivered rd ++ inflight rd) (offered r ls) /\
  exists q, ring_holds (r_buf rd) q /\ subseq (r_delivered rd ++ inflight rd ++ q) (offered r ls).
Proof. intros. split; [eapply order|eapply order_queue]; eassumption. Qed.
