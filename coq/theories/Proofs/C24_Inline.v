(* Inline scaling expressions a * b / c (gen/C24_Inline.v, regenerated from the Go sources on every run):
   every translated site computes the exact truncated quotient for ALL operands in its ranges. *)
From Coq Require Import ZArith List Lia Bool.
Require Import MTX.Lib.IntWrap MTX.Model.C24_Inline MTXGen.C24_Inline.
Import ListNotations.
Local Open Scope Z_scope.

(* |x ÷ c| <= |x| : the quotient of a representable product is representable unless it is MinInt / -1 *)
Lemma quot_abs_le x c : c <> 0 -> Z.abs (Z.quot x c) <= Z.abs x.
Proof.
  intros Hc. rewrite <- Z.quot_abs by exact Hc.
  rewrite Z.quot_div_nonneg by lia.
  apply Z.div_le_upper_bound; [lia|]. nia.
Qed.

Lemma quot_nonneg x c : 0 <= x -> 0 < c -> 0 <= Z.quot x c.
Proof. intros Hx Hc. rewrite Z.quot_div_nonneg by lia. apply Z.div_pos; lia. Qed.

Lemma wrap32_id z : -2147483648 <= z <= 2147483647 -> wrap32 z = z.
Proof. intros H. unfold wrap32. rewrite Z.mod_small by lia. lia. Qed.
Lemma wrap16_id z : -32768 <= z <= 32767 -> wrap16 z = z.
Proof. intros H. unfold wrap16. rewrite Z.mod_small by lia. lia. Qed.
Lemma wrap8_id z : -128 <= z <= 127 -> wrap8 z = z.
Proof. intros H. unfold wrap8. rewrite Z.mod_small by lia. lia. Qed.
Lemma wrapu8_id z : 0 <= z <= 255 -> wrapu8 z = z.
Proof. intros H. unfold wrapu8. apply Z.mod_small; lia. Qed.
Lemma wrapu16_id z : 0 <= z <= 65535 -> wrapu16 z = z.
Proof. intros H. unfold wrapu16. apply Z.mod_small; lia. Qed.

(* the canonical shapes: exact whenever the product and the exact result are representable *)
Lemma inl_w_exact (W : Z -> Z) lo hi :
  (forall x, lo <= x <= hi -> W x = x) ->
  forall a b c, lo <= a * b <= hi -> lo <= Z.quot (a * b) c <= hi -> inl_w W a b c = Z.quot (a * b) c.
Proof. intros HW a b c Hab Hq. unfold inl_w. rewrite (HW (a * b)) by exact Hab. apply HW; exact Hq. Qed.

Lemma inl_w64_exact a b c : in_int64 (a * b) -> in_int64 (Z.quot (a * b) c) -> inl_w wrap64 a b c = Z.quot (a * b) c.
Proof.
  intros Hab Hq. apply (inl_w_exact wrap64 (- two63) (two63 - 1)); unfold in_int64 in *; try lia.
  intros x Hx. apply wrap64_id. unfold in_int64; lia.
Qed.

Lemma inl_wu64_exact a b c : 0 <= a * b < two64 -> 0 <= Z.quot (a * b) c < two64 -> inl_w wrapu64 a b c = Z.quot (a * b) c.
Proof.
  intros Hab Hq. apply (inl_w_exact wrapu64 0 (two64 - 1)); try lia.
  intros x Hx. apply wrapu64_id; lia.
Qed.

Lemma inl_wu32_exact a b c : 0 <= a * b < two32 -> 0 <= Z.quot (a * b) c < two32 -> inl_w wrapu32 a b c = Z.quot (a * b) c.
Proof.
  intros Hab Hq. apply (inl_w_exact wrapu32 0 (two32 - 1)); try lia.
  intros x Hx. apply wrapu32_id; lia.
Qed.

(* ... and the plain form is NOT exact on the whole range of its type: the product can wrap around although the exact
   result is representable (int64: 2^62 * 4 / 2^62 = 4; uint64: 2^63 * 2 / 2^63; uint32: 2^31 * 2 / 2^31) *)
Lemma inl_w64_type_range_refuted : exists a b c,
  in_int64 a /\ in_int64 b /\ in_int64 c /\ c <> 0 /\ in_int64 (Z.quot (a * b) c) /\ inl_w wrap64 a b c <> Z.quot (a * b) c.
Proof. exists 4611686018427387904, 4, 4611686018427387904. vm_compute. repeat split; discriminate. Qed.

Lemma inl_wu64_type_range_refuted : exists a b c,
  0 <= a < two64 /\ 0 <= b < two64 /\ 0 < c < two64 /\ 0 <= Z.quot (a * b) c < two64 /\ inl_w wrapu64 a b c <> Z.quot (a * b) c.
Proof. exists 9223372036854775808, 2, 9223372036854775808. vm_compute. repeat split; discriminate. Qed.

Lemma inl_wu32_type_range_refuted : exists a b c,
  0 <= a < two32 /\ 0 <= b < two32 /\ 0 < c < two32 /\ 0 <= Z.quot (a * b) c < two32 /\ inl_w wrapu32 a b c <> Z.quot (a * b) c.
Proof. exists 2147483648, 2, 2147483648. vm_compute. repeat split; discriminate. Qed.

(* a clock-rate sized example of the same: int64 ticks * 90000 / rate with ticks bounded by its type only *)
Lemma inl_w64_rate_refuted : exists a c,
  in_int64 a /\ 1 <= c <= two32 /\ in_int64 (Z.quot (a * 90000) c) /\ inl_w wrap64 a 90000 c <> Z.quot (a * 90000) c.
Proof. exists 1125899906842624, 1048576. vm_compute. repeat split; discriminate. Qed.

(* ---- the translated sites ---- *)

(* strips one identity wrap at a time, innermost first (an outer one cannot be justified before the inner ones are gone) *)
Ltac strip_wraps :=
  repeat match goal with
  | |- context [wrap64 ?z] => rewrite (wrap64_id z) by (unfold in_int64, two63; lia)
  | |- context [wrapu64 ?z] => rewrite (wrapu64_id z) by (unfold two64; lia)
  | |- context [wrapu32 ?z] => rewrite (wrapu32_id z) by (unfold two32; lia)
  | |- context [wrapu16 ?z] => rewrite (wrapu16_id z) by lia
  | |- context [wrap32 ?z] => rewrite (wrap32_id z) by lia
  | |- context [wrap16 ?z] => rewrite (wrap16_id z) by lia
  | |- context [wrap8 ?z] => rewrite (wrap8_id z) by lia
  | |- context [wrapu8 ?z] => rewrite (wrapu8_id z) by lia
  end.

(* an operand whose range is a single value is that value *)
Ltac fix_constants :=
  repeat match goal with
  | H : ?k <= ?x <= ?k |- _ => is_var x; assert (x = k) by lia; subst x
  end.

(* bound the product from the operand ranges (nia), then strip the wraps *)
Ltac inline_site_exact :=
  let a := fresh "a" in let b := fresh "b" in let c := fresh "c" in
  intros a b c Ha Hb Hc Hnz Hres;
  cbv [is_f is_ra is_rb is_rc is_res in_rng fst snd] in *;
  match goal with |- ?f _ _ _ = _ => unfold f end;
  let Hq := fresh "Hq" in pose proof (quot_abs_le (a * b) c Hnz) as Hq;
  let Hs := fresh "Hs" in
  assert (Hs : 0 <= a * b -> 0 < c -> 0 <= Z.quot (a * b) c) by (apply quot_nonneg);
  let Hl := fresh "Hl" in let Hu := fresh "Hu" in
  assert (Hl : - two63 < a * b) by (unfold two63; nia);
  assert (Hu : a * b < two63) by (unfold two63; nia);
  unfold two63 in Hl, Hu;
  fix_constants;
  strip_wraps;
  reflexivity.

Lemma sites_inline_exact : Forall inline_exact sites_inline.
Proof.
  unfold sites_inline.
  repeat (apply Forall_cons; [ match goal with |- inline_exact ?s => unfold s end; inline_site_exact |]).
  apply Forall_nil.
Qed.

(* with the ranges of the Go types alone (no library range fact) the same expressions can overflow although the exact
   result is representable: the range facts are necessary, not decoration *)
Ltac inline_refute :=
  match goal with |- inline_overflows ?s => unfold s end;
  first [ exists 4611686018427387904, 4, 4611686018427387904; vm_compute; reflexivity
        | exists 4611686018427387904, 1000000000, 4611686018427387904; vm_compute; reflexivity
        | exists 4611686018427387904, 90000, 4611686018427387904; vm_compute; reflexivity
        | exists 9223372036854775808, 2, 9223372036854775808; vm_compute; reflexivity
        | exists 2147483648, 2, 2147483648; vm_compute; reflexivity ].

Lemma sites_inline_typeonly_overflow : Forall inline_overflows sites_inline_typeonly.
Proof.
  unfold sites_inline_typeonly.
  repeat (apply Forall_cons; [ inline_refute |]).
  apply Forall_nil.
Qed.

Lemma sites_inline_counted : Z.of_nat (length sites_inline) = inline_site_count.
Proof. reflexivity. Qed.

(* consistency of the two notions: a site cannot be both exact and overflowing *)
Lemma overflows_not_exact s : inline_overflows s -> ~ inline_exact s.
Proof.
  intros (a & b & c & H) He. unfold inline_overflows_at in H.
  repeat (apply andb_prop in H; destruct H as [H ?]).
  unfold in_rngb in *.
  repeat match goal with H : _ && _ = true |- _ => apply andb_prop in H; destruct H end.
  match goal with H : negb (_ =? Z.quot _ _) = true |- _ => apply negb_true_iff, Z.eqb_neq in H; apply H end.
  apply He; unfold in_rng; lia.
Qed.
