(* History theorems for the per-format RTP state of a Stream over a sequence of sub streams
   (Model/C23_RtpLife.v): the encoder, its sequence numbers and rtpTimeOffset are created once and persist across
   every later SubStream.Initialize; the packets of the whole history are numbered consecutively, carry one fixed
   offset, and fit the maximum. Generic in the packetizer (same contract as C23_RtpGlueGen.v), instantiated for
   H.264 at the end. *)
From Coq Require Import List ZArith Bool Lia Arith.
Require Import MTX.Lib.IntWrap MTX.Model.C23_RtpH264 MTX.Model.C23_RtpGlue MTX.Model.C23_RtpLife.
Require Import MTX.Proofs.C23_RtpH264 MTX.Proofs.C23_RtpH264Seq MTX.Proofs.C23_RtpAudio MTX.Proofs.C23_RtpGlue
               MTX.Proofs.C23_RtpGlueGen.
Import ListNotations.
Local Open Scope Z_scope.

(* ------------------------------------------------------------------ subStreamFormat.initialize *)

(* an encoder exists: initialize touches neither the encoder (sequence number, SSRC) nor the offset, whatever the
   kind of publisher and whatever the random source would give *)
Lemma ssf_init_keeps max avail m use_rtp dec_ok rnd g e :
  g.(g_enc) = Some e ->
  ssf_init max avail m use_rtp dec_ok rnd g = if use_rtp && negb dec_ok then None else Some g.
Proof. intros He. unfold ssf_init. rewrite He. reflexivity. Qed.

(* no encoder yet: it is created exactly for a non-RTP publisher, an always-available stream or a forced remux,
   with the drawn SSRC / sequence number / offset; a format without encoder makes initialize fail *)
Lemma ssf_init_creates max avail m use_rtp dec_ok ssrc seq0 off g :
  g.(g_enc) = None -> (use_rtp = true -> dec_ok = true) ->
  ssf_init max avail m use_rtp dec_ok (ssrc, seq0, off) g =
    if needs_encoder m use_rtp
    then (if avail then Some (mkg (Some (enc_init max ssrc seq0)) off) else None)
    else Some g.
Proof.
  intros He Hd. unfold ssf_init. rewrite He.
  destruct use_rtp; [rewrite (Hd eq_refl)|]; reflexivity.
Qed.

Lemma ssf_init_has_enc max avail m use_rtp dec_ok rnd g g' :
  ssf_init max avail m use_rtp dec_ok rnd g = Some g' -> has_enc g = true -> g' = g.
Proof.
  intros H Hg. unfold has_enc in Hg. destruct (g_enc g) as [e|] eqn:He; [|discriminate].
  rewrite (ssf_init_keeps _ _ _ _ _ _ _ _ He) in H. destruct (use_rtp && negb dec_ok); congruence.
Qed.

Section LifeGen.
  Variable P : Type.
  Variable encode : enc -> P -> res (list packet * enc) + enc.

  Notation step := (life_step P encode).
  Notation trace := (life_trace P encode).
  Notation final := (life_final P encode).
  Notation ev := (event P).

  (* ---- one unit through writeUnitInner when an encoder exists ---- *)
  Lemma glue_write_with_enc max avail g pts inp decerr deliv e0 :
    g.(g_enc) = Some e0 ->
    match glue_write P encode max avail g pts inp decerr deliv with
    | GOk g' out =>
        g'.(g_off) = g.(g_off) /\
        match deliv with
        | None => g' = g /\ out = []
        | Some p => exists pkts e', encode e0 p = inl (Ok (pkts, e')) /\ g' = mkg (Some e') g.(g_off)
                                    /\ out = stamp_all g.(g_off) pts pkts
        end
    | GErr g' => g'.(g_off) = g.(g_off) /\ has_enc g' = true
                 /\ (g' = g \/ exists p e', deliv = Some p /\ encode e0 p = inr e')
    | GPanic => True
    end.
  Proof.
    intros He.
    assert (Henc : match glue_encode P encode g pts [] deliv with
                   | GOk g' out =>
                       g'.(g_off) = g.(g_off) /\
                       match deliv with
                       | None => g' = g /\ out = []
                       | Some p => exists pkts e', encode e0 p = inl (Ok (pkts, e')) /\ g' = mkg (Some e') g.(g_off)
                                                   /\ out = stamp_all g.(g_off) pts pkts
                       end
                   | GErr g' => g'.(g_off) = g.(g_off) /\ has_enc g' = true
                                /\ (g' = g \/ exists p e', deliv = Some p /\ encode e0 p = inr e')
                   | GPanic => True
                   end).
    { unfold glue_encode. destruct deliv as [p|].
      - rewrite He. destruct (encode e0 p) as [[[pkts e']|]|e'] eqn:Ep.
        + split; [reflexivity|]. exists pkts, e'. repeat split.
        + exact I.
        + split; [reflexivity|]. split; [reflexivity|]. right. exists p, e'. split; [reflexivity|exact Ep].
      - repeat split. }
    unfold glue_write. destruct inp as [|p0 pr]; [exact Henc|].
    destruct decerr.
    - split; [reflexivity|]. split; [unfold has_enc; rewrite He; reflexivity|left; reflexivity].
    - rewrite He. exact Henc.
  Qed.

  (* ---- one event on a state that has an encoder ---- *)
  Definition entry_ok (m : lmode) (off : Z) (q : lstate * ev * lres * lstate) : Prop :=
    let '(st, e, r, st') := q in
    has_enc st.(l_g) = true /\ st.(l_g).(g_off) = off /\ has_enc st'.(l_g) = true /\ st'.(l_g).(g_off) = off /\
    match e, r with
    | ESub _ _ _ _ _ _, _ => st'.(l_g) = st.(l_g)
    | EUnit _ pts _ _ (Some p), RPkts out =>
        exists e0 pkts e', st.(l_g).(g_enc) = Some e0 /\ encode e0 p = inl (Ok (pkts, e'))
          /\ st'.(l_g).(g_enc) = Some e'
          /\ out = stamp_all off (life_pts m st.(l_ptsoff) pts) pkts
    | EUnit _ _ _ _ None, RPkts out => out = [] /\ st'.(l_g) = st.(l_g)
    | _, _ => True
    end.

  Lemma life_step_entry max avail m s e :
    has_enc s.(l_g) = true ->
    entry_ok m s.(l_g).(g_off) (s, e, snd (step max avail m s e), fst (step max avail m s e)).
  Proof.
    intros Hs. unfold has_enc in Hs. destruct (g_enc (l_g s)) as [e0|] eqn:He; [|discriminate].
    assert (Hs' : has_enc (l_g s) = true) by (unfold has_enc; rewrite He; reflexivity).
    destruct e as [use_rtp dec_ok rnd first computed|pts inp decerr deliv]; cbn [life_step].
    - rewrite (ssf_init_keeps _ _ _ _ _ _ _ _ He).
      destruct (use_rtp && negb dec_ok); cbn [fst snd entry_ok l_g]; repeat split; assumption.
    - pose proof (glue_write_with_enc max avail (l_g s) (life_pts m (l_ptsoff s) pts) inp decerr deliv e0 He) as H.
      destruct (glue_write P encode max avail (l_g s) (life_pts m (l_ptsoff s) pts) inp decerr deliv)
        as [g' out|g'|] eqn:Eg; cbn [fst snd entry_ok l_g l_ptsoff].
      + destruct H as [Hoff H]. destruct deliv as [p|].
        * destruct H as (pkts & e' & Henc & -> & ->). cbn [g_off g_enc has_enc].
          repeat split; try assumption; try reflexivity.
          exists e0, pkts, e'. repeat split; assumption.
        * destruct H as [-> ->]. repeat split; assumption.
      + destruct H as (Hoff & Hh & _). destruct deliv; repeat split; assumption.
      + destruct deliv; repeat split; assumption.
  Qed.

  (* ---- HISTORY: once an encoder exists, over ANY sequence of sub stream initialisations and units, every state has
     an encoder and the SAME rtpTimeOffset; a sub stream initialisation leaves encoder, sequence number and offset as
     they are; every re-encoded unit goes out as the encoder's packets stamped with that one offset ---- *)
  Theorem life_offset_fixed max avail m : forall evs s,
    has_enc s.(l_g) = true -> Forall (entry_ok m s.(l_g).(g_off)) (trace max avail m s evs).
  Proof.
    induction evs as [|e r IH]; intros s Hs; [constructor|].
    cbn [life_trace]. pose proof (life_step_entry max avail m s e Hs) as H.
    destruct (step max avail m s e) as [s' res] eqn:Es. cbn [fst snd] in H.
    constructor; [exact H|].
    destruct H as (_ & _ & Hs' & Hoff' & _). rewrite <- Hoff'. apply IH, Hs'.
  Qed.

  Lemma life_trace_final max avail m : forall evs s,
    final max avail m s evs = match rev (trace max avail m s evs) with (_, _, _, s') :: _ => s' | [] => s end.
  Proof.
    induction evs as [|e r IH]; intros s; [reflexivity|].
    unfold life_final. cbn [fold_left life_trace]. fold (final max avail m (fst (step max avail m s e)) r).
    rewrite IH. destruct (step max avail m s e) as [s' res]. cbn [fst rev].
    destruct (rev (trace max avail m s' r)) as [|[[[a b] c] d] l]; reflexivity.
  Qed.

  (* the entries of a history are chained: each one starts in the state the previous one ended in *)
  Theorem life_trace_chained max avail m : forall evs s a b,
    In (a, b) (combine (trace max avail m s evs) (tl (trace max avail m s evs))) ->
    snd a = fst (fst (fst b)).
  Proof.
    induction evs as [|e r IH]; intros s a b Hin; [contradiction|].
    cbn [life_trace] in Hin. destruct (step max avail m s e) as [s' res]. cbn [tl] in Hin.
    destruct r as [|e2 r2]; [contradiction|].
    pose proof (IH s') as IH'. cbn [life_trace] in IH', Hin.
    destruct (step max avail m s' e2) as [s2 res2]. cbn [combine] in Hin. destruct Hin as [Hin|Hin].
    - injection Hin as <- <-. reflexivity.
    - apply IH'. cbn [tl]. exact Hin.
  Qed.

  (* ---- contract 1 (sequence numbers, SSRC, PayloadMaxSize), as in C23_RtpGlueGen.v ---- *)
  Hypothesis Hpost : forall e p pkts e', encode e p = inl (Ok (pkts, e')) -> enc_post0 e pkts e'.

  Definition res_pkts (r : lres) : list packet := match r with RPkts out => out | _ => [] end.

  Lemma seq_chain_stamp_all off pts s pkts : seq_chain s (stamp_all off pts pkts) <-> seq_chain s pkts.
  Proof. unfold stamp_all. apply seq_chain_stamp. Qed.

  (* every unit: its packets are numbered from the encoder's number, the encoder continues after them; a unit that
     fails before the encoder is called (decoder error) and a sub stream initialisation consume no number *)
  Definition entry_seq (q : lstate * ev * lres * lstate) : Prop :=
    let '(st, e, r, st') := q in
    forall e0, st.(l_g).(g_enc) = Some e0 ->
      match r with
      | RPkts out =>
          exists e1, st'.(l_g).(g_enc) = Some e1 /\ seq_chain e0.(e_seq) out
            /\ Forall (fun p => p.(p_ssrc) = e0.(e_ssrc)) out
            /\ e1.(e_seq) = adv e0.(e_seq) (length out) /\ e1.(e_max) = e0.(e_max) /\ e1.(e_ssrc) = e0.(e_ssrc)
      | RSub _ => st'.(l_g) = st.(l_g)
      | _ => True
      end.

  Lemma life_step_seq max avail m s e : entry_seq (s, e, snd (step max avail m s e), fst (step max avail m s e)).
  Proof.
    unfold entry_seq. intros e0 He.
    assert (Hs : has_enc (l_g s) = true) by (unfold has_enc; rewrite He; reflexivity).
    pose proof (life_step_entry max avail m s e Hs) as H.
    destruct (step max avail m s e) as [s' r] eqn:Es. cbn [fst snd] in *.
    destruct H as (_ & _ & _ & _ & H).
    destruct e as [use_rtp dec_ok rnd first computed|pts inp decerr deliv].
    - cbn [life_step] in Es. rewrite (ssf_init_keeps _ _ _ _ _ _ _ _ He) in Es.
      destruct (use_rtp && negb dec_ok); injection Es as <- <-; reflexivity.
    - destruct r as [ok|out| |]; try exact I.
      + cbn [life_step] in Es.
        destruct (glue_write P encode max avail (l_g s) (life_pts m (l_ptsoff s) pts) inp decerr deliv); discriminate.
      + destruct deliv as [p|].
        * destruct H as (e0' & pkts & e' & He0 & Henc & He' & ->). rewrite He in He0. injection He0 as <-.
          apply Hpost in Henc. destruct Henc as (A1 & A2 & A3 & A4 & A5).
          exists e'. split; [exact He'|]. rewrite seq_chain_stamp_all. unfold stamp_all. rewrite map_length.
          repeat split; try assumption.
          rewrite Forall_forall in *. intros q Hq. apply in_map_iff in Hq. destruct Hq as (q0 & <- & Hq0).
          cbn [stamp p_ssrc]. apply A3, Hq0.
        * destruct H as [-> Hg]. exists e0. rewrite Hg. split; [exact He|]. cbn. repeat split; constructor.
  Qed.

  Theorem life_seq_entries max avail m : forall evs s, Forall entry_seq (trace max avail m s evs).
  Proof.
    induction evs as [|e r IH]; intros s; [constructor|].
    cbn [life_trace]. pose proof (life_step_seq max avail m s e) as H.
    destruct (step max avail m s e) as [s' res]. constructor; [exact H|apply IH].
  Qed.

  (* ---- HISTORY, for a packetizer that never returns an error (H.264, Opus, G.711, LPCM): ALL packets of the whole
     history - across every sub stream - are numbered consecutively from the first encoder's number, with one
     SSRC, and the encoder at the end continues after them ---- *)
  Hypothesis Hnoerr : forall e p e', encode e p <> inr e'.

  Theorem life_seq_consecutive max avail m : forall evs s e0,
    s.(l_g).(g_enc) = Some e0 ->
    let all := trace_pkts P (trace max avail m s evs) in
    seq_chain e0.(e_seq) all /\ Forall (fun p => p.(p_ssrc) = e0.(e_ssrc)) all
    /\ exists e1, (final max avail m s evs).(l_g).(g_enc) = Some e1
         /\ e1.(e_seq) = adv e0.(e_seq) (length all) /\ e1.(e_max) = e0.(e_max) /\ e1.(e_ssrc) = e0.(e_ssrc)
         /\ (final max avail m s evs).(l_g).(g_off) = s.(l_g).(g_off).
  Proof.
    induction evs as [|e r IH]; intros s e0 He.
    { cbn. repeat split; try constructor. exists e0. repeat split. exact He. }
    cbn zeta. unfold life_final. cbn [life_trace fold_left]. fold (final max avail m (fst (step max avail m s e)) r).
    assert (Hs : has_enc (l_g s) = true) by (unfold has_enc; rewrite He; reflexivity).
    pose proof (life_step_seq max avail m s e e0 He) as Hq.
    pose proof (life_step_entry max avail m s e Hs) as Hk.
    assert (Hstep : exists e1, (fst (step max avail m s e)).(l_g).(g_enc) = Some e1
              /\ seq_chain e0.(e_seq) (res_pkts (snd (step max avail m s e)))
              /\ Forall (fun p => p.(p_ssrc) = e0.(e_ssrc)) (res_pkts (snd (step max avail m s e)))
              /\ e1.(e_seq) = adv e0.(e_seq) (length (res_pkts (snd (step max avail m s e))))
              /\ e1.(e_max) = e0.(e_max) /\ e1.(e_ssrc) = e0.(e_ssrc)).
    { destruct e as [use_rtp dec_ok rnd first computed|pts inp decerr deliv].
      - cbn [life_step] in *. rewrite (ssf_init_keeps _ _ _ _ _ _ _ _ He) in *.
        exists e0. destruct (use_rtp && negb dec_ok); cbn [fst snd res_pkts l_g];
          (split; [exact He|]); cbn; repeat split; constructor.
      - cbn [life_step] in *.
        pose proof (glue_write_with_enc max avail (l_g s) (life_pts m (l_ptsoff s) pts) inp decerr deliv e0 He) as G.
        destruct (glue_write P encode max avail (l_g s) (life_pts m (l_ptsoff s) pts) inp decerr deliv)
          as [g' out|g'|]; cbn [fst snd res_pkts l_g] in *.
        + destruct Hq as (e1 & A & B). exists e1. split; [exact A|exact B].
        + destruct G as (_ & _ & [->|(p & e' & _ & Hbad)]); [|exfalso; exact (Hnoerr _ _ _ Hbad)].
          exists e0. split; [exact He|]. cbn. repeat split; constructor.
        + exists e0. split; [exact He|]. cbn. repeat split; constructor. }
    destruct Hstep as (e1 & He1 & C1 & C2 & C3 & C4 & C5).
    destruct Hk as (_ & _ & _ & Hoff & _).
    destruct (step max avail m s e) as [s' res] eqn:Es. cbn [fst snd] in *.
    destruct (IH s' e1 He1) as (D1 & D2 & e2 & He2 & D3 & D4 & D5 & D6). cbn zeta in *.
    unfold trace_pkts in *. cbn [map concat].
    replace (match res with RPkts out => out | _ => [] end) with (res_pkts res) by (destruct res; reflexivity).
    rewrite seq_chain_app, app_length, adv_add, <- C3. split; [split; assumption|].
    split.
    { apply Forall_app. split; [exact C2|]. rewrite <- C5. exact D2. }
    exists e2. split; [exact He2|]. repeat split; congruence.
  Qed.

  (* writeUnitInner returns an error: the state is untouched unless the error comes from the encoder itself *)
  Lemma glue_write_err_state max avail g pts inp decerr deliv g' :
    glue_write P encode max avail g pts inp decerr deliv = GErr g' ->
    g' = g \/ exists e p e', encode e p = inr e'.
  Proof.
    assert (Henc : forall g0 inp0, glue_encode P encode g0 pts inp0 deliv = GErr g' ->
                     exists e p e', encode e p = inr e').
    { intros g0 inp0 H. unfold glue_encode in H. destruct deliv as [p|]; [|discriminate].
      destruct (g_enc g0) as [e|]; [|discriminate].
      destruct (encode e p) as [[[pkts e']|]|e'] eqn:Ep; try discriminate. exists e, p, e'. exact Ep. }
    unfold glue_write. destruct inp as [|p0 pr]; [intros H; right; exact (Henc _ _ H)|].
    destruct decerr; [intros H; injection H as <-; left; reflexivity|].
    destruct (g_enc g) as [e0|]; [intros H; right; exact (Henc _ _ H)|].
    destruct (first_oversized max (p0 :: pr)) as [pkt|]; [|intros H; right; exact (Henc _ _ H)].
    destruct avail; [intros H; right; exact (Henc _ _ H)|intros H; injection H as <-; left; reflexivity].
  Qed.

  (* ---- contract 2 (size) over the whole history: EVERY packet the Stream sends for the format - generated or
     forwarded untouched - fits the maximum ---- *)
  Variable lo : Z.
  Variable pre : Z -> P -> Prop.
  Hypothesis Hsize : forall e p pkts e', lo <= e.(e_max) -> pre e.(e_max) p ->
    encode e p = inl (Ok (pkts, e')) -> Forall (fun q => blen q.(p_payload) <= e.(e_max)) pkts.

  Definition event_ok (max : Z) (e : ev) : Prop :=
    match e with
    | ESub _ _ _ (_, seq0, _) _ _ => 0 <= seq0 < 65536
    | EUnit _ _ inp _ deliv => Forall (fun p => 0 <= p.(p_seq) < 65536) inp /\ forall p, deliv = Some p -> pre max p
    end.

  Lemma find_none_all max inp : first_oversized max inp = None -> Forall (fun p => blen p.(p_payload) <= max) inp.
  Proof.
    unfold first_oversized. intros H. rewrite Forall_forall. intros p Hp.
    pose proof (find_none _ _ H p Hp) as Hn. unfold oversized in Hn. lia.
  Qed.

  Lemma life_step_size max avail m s e :
    lo <= max -> max <> 0 -> enc_max_ok max s.(l_g) -> event_ok max e ->
    Forall (fun p => blen p.(p_payload) <= max) (res_pkts (snd (step max avail m s e)))
    /\ enc_max_ok max (fst (step max avail m s e)).(l_g).
  Proof.
    intros Hlo Hnz Hok He. destruct e as [use_rtp dec_ok [[ssrc seq0] off] first computed|pts inp decerr deliv];
      cbn [life_step event_ok] in *.
    - unfold ssf_init. destruct (use_rtp && negb dec_ok); [split; [constructor|exact Hok]|].
      destruct (g_enc (l_g s)) as [e0|] eqn:Ee; [split; [constructor|exact Hok]|].
      destruct (needs_encoder m use_rtp); [|split; [constructor|exact Hok]].
      destruct avail; [|split; [constructor|exact Hok]].
      cbn [fst snd res_pkts l_g]. split; [constructor|]. unfold enc_max_ok. cbn [g_enc].
      split; [apply enc_init_max, Hnz|unfold enc_init; cbn [e_seq]; exact He].
    - destruct He as [Hin Hpre].
      destruct (glue_write P encode max avail (l_g s) (life_pts m (l_ptsoff s) pts) inp decerr deliv)
        as [g' out|g'|] eqn:Eg; cbn [fst snd res_pkts l_g].
      + destruct (has_enc g') eqn:Hg'.
        * exact (glue_size_gen P encode Hpost lo pre Hsize max avail (l_g s) _ inp decerr deliv g' out
                   Hlo Hnz Hok Hin Eg Hg' Hpre).
        * apply glue_write_inv in Eg. destruct Eg as [(A & -> & -> & D)|(e0 & off0 & _ & Hr)].
          -- split; [apply find_none_all, D|exact Hok].
          -- exfalso. unfold has_enc in Hg'.
             destruct Hr as [(_ & _ & ->)|(p & pkts & e' & _ & _ & _ & ->)]; discriminate.
      + split; [constructor|].
        destruct (glue_write_err_state max avail (l_g s) (life_pts m (l_ptsoff s) pts) inp decerr deliv g' Eg)
          as [->|(e & p & e' & Hbad)]; [exact Hok|exfalso; exact (Hnoerr _ _ _ Hbad)].
      + split; [constructor|exact Hok].
  Qed.

  Theorem life_size max avail m : forall evs s,
    lo <= max -> max <> 0 -> enc_max_ok max s.(l_g) -> Forall (event_ok max) evs ->
    Forall (fun p => blen p.(p_payload) <= max) (trace_pkts P (trace max avail m s evs)).
  Proof.
    induction evs as [|e r IH]; intros s Hlo Hnz Hok Hev; [constructor|].
    inversion Hev as [|? ? He Hr]; subst.
    cbn [life_trace]. pose proof (life_step_size max avail m s e Hlo Hnz Hok He) as [H1 H2].
    destruct (step max avail m s e) as [s' res]. cbn [fst snd] in *.
    unfold trace_pkts. cbn [map concat]. apply Forall_app. split.
    - destruct res; try constructor. exact H1.
    - apply IH; assumption.
  Qed.
End LifeGen.

(* ------------------------------------------------------------------ the first sub stream creates the state *)

(* A Stream starts without encoder (l_init). The first SubStream.Initialize that needs one (non-RTP publisher,
   always-available stream - whose first sub stream is the offline one -, forced remux) creates it from the drawn
   values; from then on life_offset_fixed / life_seq_consecutive apply to the rest of the history. *)
Theorem life_first_sub P encode max avail m use_rtp dec_ok ssrc seq0 off first computed :
  (use_rtp = true -> dec_ok = true) -> needs_encoder m use_rtp = true -> avail = true ->
  life_step P encode max avail m l_init (ESub P use_rtp dec_ok (ssrc, seq0, off) first computed)
  = (mkl (mkg (Some (enc_init max ssrc seq0)) off) (ssf_init2 m first computed 0), RSub true).
Proof.
  intros Hd Hn Ha. cbn [life_step l_init l_g l_ptsoff].
  rewrite (ssf_init_creates max avail m use_rtp dec_ok ssrc seq0 off (mkg None 0) eq_refl Hd), Hn, Ha. reflexivity.
Qed.

(* an RTP publisher on an ordinary stream: no encoder, packets pass through until one is oversized *)
Theorem life_first_sub_rtp P encode max avail dec_ok rnd first computed :
  life_step P encode max avail (mkmode false false) l_init (ESub P true dec_ok rnd first computed)
  = if dec_ok then (l_init, RSub true) else (l_init, RSub false).
Proof. cbn [life_step l_init l_g l_ptsoff]. unfold ssf_init. destruct dec_ok; reflexivity. Qed.

(* ------------------------------------------------------------------ H.264 instance *)

Definition h264_life_trace := life_trace (list bytes) h264_enc_fn.
Definition h264_life_final := life_final (list bytes) h264_enc_fn.

Lemma h264_fn_post e p pkts e' : h264_enc_fn e p = inl (Ok (pkts, e')) -> enc_post0 e pkts e'.
Proof. unfold h264_enc_fn. intros H. injection H as H. apply enc_post_post0. exact (h264_encode_post e p pkts e' H). Qed.

Lemma h264_fn_noerr e p e' : h264_enc_fn e p <> inr e'.
Proof. unfold h264_enc_fn. discriminate. Qed.

Theorem h264_life_seq_consecutive max avail m evs s e0 :
  s.(l_g).(g_enc) = Some e0 ->
  let all := trace_pkts (list bytes) (h264_life_trace max avail m s evs) in
  seq_chain e0.(e_seq) all /\ Forall (fun p => p.(p_ssrc) = e0.(e_ssrc)) all
  /\ exists e1, (h264_life_final max avail m s evs).(l_g).(g_enc) = Some e1
       /\ e1.(e_seq) = adv e0.(e_seq) (length all) /\ e1.(e_max) = e0.(e_max) /\ e1.(e_ssrc) = e0.(e_ssrc)
       /\ (h264_life_final max avail m s evs).(l_g).(g_off) = s.(l_g).(g_off).
Proof. exact (life_seq_consecutive (list bytes) h264_enc_fn h264_fn_post h264_fn_noerr max avail m evs s e0). Qed.

(* every packet of every re-encoded unit of the whole history carries the ONE offset of the state the history
   started in, plus the (shifted) PTS of its unit *)
Definition h264_entry_ts (m : lmode) (off : Z) (q : lstate * event (list bytes) * lres * lstate) : Prop :=
  let '(st, e, r, _) := q in
  match e, r with
  | EUnit _ pts _ _ _, RPkts out =>
      Forall (fun p => p.(p_ts) = wrapu32 (off + wrapu32 (life_pts m st.(l_ptsoff) pts))) out
  | _, _ => True
  end.

Theorem h264_life_ts max avail m evs s :
  has_enc s.(l_g) = true -> Forall (h264_entry_ts m s.(l_g).(g_off)) (h264_life_trace max avail m s evs).
Proof.
  intros Hs. pose proof (life_offset_fixed (list bytes) h264_enc_fn max avail m evs s Hs) as H.
  unfold h264_life_trace. rewrite Forall_forall in *. intros [[[st e] r] st'] Hq. specialize (H _ Hq).
  cbn [entry_ok] in H. destruct H as (_ & _ & _ & _ & H). cbn [h264_entry_ts].
  destruct e as [| pts inp de deliv]; [exact I|]. destruct r as [|out| |]; try exact I.
  destruct deliv as [p|].
  - destruct H as (e0 & pkts & e' & _ & Henc & _ & ->). apply stamp_all_ts.
    unfold h264_enc_fn in Henc. injection Henc as Henc. apply h264_encode_post in Henc.
    destruct Henc as (_ & _ & F & _). rewrite Forall_forall in *. intros q0 Hq0. apply (F q0 Hq0).
  - destruct H as [-> _]. constructor.
Qed.

Theorem h264_life_size max avail m evs s :
  3 <= max -> enc_max_ok max s.(l_g) ->
  Forall (fun e => match e with
                   | ESub _ _ _ (_, seq0, _) _ _ => 0 <= seq0 < 65536
                   | EUnit _ _ inp _ _ => Forall (fun p => 0 <= p.(p_seq) < 65536) inp
                   end) evs ->
  Forall (fun p => blen p.(p_payload) <= max) (trace_pkts (list bytes) (h264_life_trace max avail m s evs)).
Proof.
  intros Hmax Hok Hev.
  refine (life_size (list bytes) h264_enc_fn h264_fn_post h264_fn_noerr 3 (fun _ _ => True) _
            max avail m evs s Hmax ltac:(lia) Hok _).
  - intros e p pkts e' Hlo _ Henc. unfold h264_enc_fn in Henc. injection Henc as Henc.
    rewrite Forall_forall. intros q Hq. exact (h264_encode_size e p pkts e' Hlo Henc q Hq).
  - rewrite Forall_forall in *. intros e He. specialize (Hev e He). unfold event_ok.
    destruct e as [? ? [[? ?] ?] ? ?|]; [exact Hev|]. split; [exact Hev|intros; exact I].
Qed.
