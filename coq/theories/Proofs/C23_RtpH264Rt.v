(* decode (encode au) = au for the rtph264 packetizer model: the decoder model, fed the stamped packets of one
   access unit, answers "more packets needed" for all but the last packet and returns the access unit at the
   last one, and is then ready for the next unit. *)
From Coq Require Import List ZArith Bool Lia Arith.
Require Import MTX.Lib.IntWrap MTX.Model.C23_RtpH264 MTX.Proofs.C23_RtpH264 MTX.Proofs.C23_RtpH264Seq.
Import ListNotations.
Local Open Scope Z_scope.

(* ------------------------------------------------------------------ finite sweeps for the bit-level facts *)

Definition zrange (n : nat) : list Z := map Z.of_nat (seq 0 n).

Lemma in_zrange n b : 0 <= b < Z.of_nat n -> In b (zrange n).
Proof.
  intros H. unfold zrange. replace b with (Z.of_nat (Z.to_nat b)) by lia.
  apply in_map, in_seq. lia.
Qed.

Lemma sweep n (f : Z -> bool) : forallb f (zrange n) = true -> forall b, 0 <= b < Z.of_nat n -> f b = true.
Proof. intros H b Hb. rewrite forallb_forall in H. apply H, in_zrange, Hb. Qed.

Definition fu_ind (b : Z) : Z := Z.lor (Z.shiftl (Z.land (Z.shiftr b 5) 3) 5) 28.
Definition fu_hdr (s e b : Z) : Z := Z.lor (Z.lor (Z.shiftl s 7) (Z.shiftl e 6)) (Z.land b 31).

Definition hdr_check (b : Z) : bool :=
  (Z.land (fu_ind b) 31 =? 28)
  && forallb (fun s => forallb (fun e =>
       (Z.shiftr (fu_hdr s e b) 7 =? s) && (Z.land (Z.shiftr (fu_hdr s e b) 6) 1 =? e)
       && (Z.lor (Z.shiftl (Z.land (Z.shiftr (fu_ind b) 5) 3) 5) (Z.land (fu_hdr s e b) 31) =? b)) [0; 1]) [0; 1].

Lemma hdr_sweep : forallb hdr_check (zrange 128) = true.
Proof. vm_compute. reflexivity. Qed.

Lemma fu_facts b s e : 0 <= b < 128 -> (s = 0 \/ s = 1) -> (e = 0 \/ e = 1) ->
  Z.land (fu_ind b) 31 = 28 /\ Z.shiftr (fu_hdr s e b) 7 = s /\ Z.land (Z.shiftr (fu_hdr s e b) 6) 1 = e
  /\ Z.lor (Z.shiftl (Z.land (Z.shiftr (fu_ind b) 5) 3) 5) (Z.land (fu_hdr s e b) 31) = b.
Proof.
  intros Hb Hs He. pose proof (sweep 128 hdr_check hdr_sweep b ltac:(simpl; lia)) as H.
  unfold hdr_check in H. apply andb_prop in H. destruct H as [H1 H2]. apply Z.eqb_eq in H1.
  rewrite forallb_forall in H2. specialize (H2 s ltac:(simpl; destruct Hs; auto)).
  rewrite forallb_forall in H2. specialize (H2 e ltac:(simpl; destruct He; auto)).
  apply andb_prop in H2. destruct H2 as [H2 H4]. apply andb_prop in H2. destruct H2 as [H2 H3].
  apply Z.eqb_eq in H2, H3, H4. auto.
Qed.

Definition size_check (hi : Z) : bool :=
  forallb (fun lo => let L := 256 * hi + lo in
                     Z.lor (Z.shiftl (Z.land (Z.shiftr L 8) 255) 8) (Z.land L 255) =? L) (zrange 256).

Lemma size_sweep : forallb size_check (zrange 256) = true.
Proof. vm_compute. reflexivity. Qed.

Lemma stap_size L : 0 <= L < 65536 -> Z.lor (Z.shiftl (Z.land (Z.shiftr L 8) 255) 8) (Z.land L 255) = L.
Proof.
  intros HL. pose proof (Z.div_mod L 256 ltac:(lia)) as Hdm.
  pose proof (Z.mod_pos_bound L 256 ltac:(lia)) as Hm.
  assert (Hhi : 0 <= L / 256 < 256) by (split; [apply Z.div_pos; lia|apply Z.div_lt_upper_bound; lia]).
  pose proof (sweep 256 size_check size_sweep (L / 256) ltac:(simpl; lia)) as H.
  unfold size_check in H. rewrite forallb_forall in H.
  specialize (H (L mod 256) (in_zrange 256 (L mod 256) ltac:(change (Z.of_nat 256) with 256; lia))). cbn zeta in H.
  rewrite <- Hdm in H. apply Z.eqb_eq in H. exact H.
Qed.

(* ------------------------------------------------------------------ start codes *)

Definition no_sc (n : bytes) : Prop := index [0; 0; 1] n = None.

Lemma no_sc_tail a n : no_sc (a :: n) -> no_sc n.
Proof.
  unfold no_sc. cbn [index]. destruct (has_prefix [0; 0; 1] (a :: n)); [discriminate|].
  destruct (index [0; 0; 1] n); [discriminate|reflexivity].
Qed.

Lemma no_sc_prefix n : no_sc n -> has_prefix [0; 0; 1] n = false.
Proof.
  unfold no_sc. destruct n as [|a n]; [reflexivity|]. cbn [index].
  destruct (has_prefix [0; 0; 1] (a :: n)); [discriminate|reflexivity].
Qed.

Lemma no_sc_no4 n : no_sc n -> contains [0; 0; 0; 1] n = false.
Proof.
  unfold contains. intros H. assert (Hi : index [0; 0; 0; 1] n = None); [|rewrite Hi; reflexivity].
  induction n as [|a n IH]; [reflexivity|].
  cbn [index]. rewrite (IH (no_sc_tail _ _ H)).
  replace (has_prefix [0; 0; 0; 1] (a :: n)) with ((0 =? a) && has_prefix [0; 0; 1] n) by reflexivity.
  rewrite (no_sc_prefix _ (no_sc_tail _ _ H)), andb_false_r. reflexivity.
Qed.

Lemma split_nalus_one b : b <> [] -> no_sc b -> split_nalus b = [b].
Proof.
  intros Hb H. unfold split_nalus. cbn [split_nalus_fuel]. destruct b as [|x b]; [congruence|].
  unfold no_sc in H. rewrite H. reflexivity.
Qed.

(* ------------------------------------------------------------------ the frame buffer *)

Lemma au_size_app a b : au_size (a ++ b) = au_size a + au_size b.
Proof. induction a as [|x a IH]; cbn [app au_size]; [lia|rewrite IH; lia]. Qed.

(* decoder state between the packets of one access unit: F = NAL units already collected *)
Definition fbstate (d : dec) (F : list bytes) (ts : Z) : Prop :=
  d.(d_annexb) = false
  /\ d.(d_fb) = match F with [] => None | _ => Some F end
  /\ d.(d_fblen) = blen F /\ d.(d_fbsize) = au_size F
  /\ (F <> [] -> d.(d_fbts) = ts).

Lemma fbstate_reset_frags d F ts : fbstate d F ts -> fbstate (reset_frags d) F ts.
Proof. exact (fun H => H). Qed.
Lemma fbstate_set_first d F ts : fbstate d F ts -> fbstate (set_first d) F ts.
Proof. exact (fun H => H). Qed.
Lemma fbstate_set_frags d F ts fr fs nx : fbstate d F ts -> fbstate (set_frags d fr fs nx) F ts.
Proof. exact (fun H => H). Qed.

Definition last_out (marker : bool) (au : list bytes) : dout := if marker then DOk au else DMore.

Lemma decode_of_nalus d pkt d1 nalus F :
  decode_nalus d pkt = (d1, inl nalus) -> fbstate d1 F pkt.(p_ts) -> nalus <> [] ->
  blen F + blen nalus <= max_nalus -> au_size F + au_size nalus <= max_au_size ->
  exists d2, decode d pkt = (d2, last_out pkt.(p_marker) (F ++ nalus))
             /\ fbstate d2 (if pkt.(p_marker) then [] else F ++ nalus) pkt.(p_ts).
Proof.
  intros Hdn (Hab & Hfb & Hlen & Hsz & Hts) Hne Hl1 Hl2.
  assert (Hadd : exists d2, add_fb d1 nalus pkt.(p_ts) = (d2, true) /\ fbstate d2 (F ++ nalus) pkt.(p_ts)
                            /\ fb_list d2 = F ++ nalus).
  { unfold add_fb. rewrite Hlen, Hsz.
    destruct (blen F + blen nalus >? max_nalus) eqn:E1; [apply Z.gtb_lt in E1; lia|].
    destruct (au_size F + au_size nalus >? max_au_size) eqn:E2; [apply Z.gtb_lt in E2; lia|].
    eexists. split; [reflexivity|]. rewrite Hfb.
    assert (Hfb' : match match F with [] => None | _ :: _ => Some F end, nalus with
                   | None, [] => None | None, _ :: _ => Some nalus | Some old, _ => Some (old ++ nalus) end
                   = Some (F ++ nalus)).
    { destruct F; destruct nalus; try congruence; reflexivity. }
    split.
    - unfold fbstate. cbn [d_annexb d_fb d_fblen d_fbsize d_fbts]. rewrite Hfb'.
      repeat split; try assumption.
      + destruct (F ++ nalus) eqn:E; [|reflexivity]. apply app_eq_nil in E. destruct E; congruence.
      + rewrite blen_app. reflexivity.
      + rewrite au_size_app. reflexivity.
    - unfold fb_list. cbn [d_fb]. rewrite Hfb'. reflexivity. }
  destruct Hadd as (d2 & Hadd & Hst & Hlist).
  assert (Hcommon : (let '(d2, ok) := add_fb d1 nalus pkt.(p_ts) in
                     if ok then if pkt.(p_marker) then (reset_fb d2, DOk (fb_list d2)) else (d2, DMore)
                     else (d2, DErr))
                    = (if pkt.(p_marker) then reset_fb d2 else d2, last_out pkt.(p_marker) (F ++ nalus))).
  { rewrite Hadd. unfold last_out. destruct (p_marker pkt); [rewrite Hlist|]; reflexivity. }
  exists (if pkt.(p_marker) then reset_fb d2 else d2). split.
  - unfold decode. rewrite Hdn. rewrite Hfb.
    destruct F as [|f F'].
    + rewrite Hadd. unfold last_out. destruct (p_marker pkt); [rewrite Hlist|]; reflexivity.
    + rewrite (Hts ltac:(discriminate)), Z.eqb_refl. cbn [negb].
      rewrite Hadd. unfold last_out. destruct (p_marker pkt); [rewrite Hlist|]; reflexivity.
  - destruct (p_marker pkt); [|exact Hst].
    destruct Hst as (A1 & _). unfold fbstate. cbn. repeat split; try assumption; try reflexivity. congruence.
Qed.

(* ------------------------------------------------------------------ decode_run *)

Lemma decode_run_app d a b :
  decode_run d (a ++ b) =
  let '(oa, d1) := decode_run d a in let '(ob, d2) := decode_run d1 b in (oa ++ ob, d2).
Proof.
  revert d. induction a as [|p a IH]; intros d.
  - cbn [app decode_run]. destruct (decode_run d b). reflexivity.
  - cbn [app decode_run]. destruct (decode d p) as [d1 o]. rewrite IH.
    destruct (decode_run d1 a) as [oa d2]. destruct (decode_run d2 b) as [ob d3]. reflexivity.
Qed.

(* all "more" except the last answer *)
Definition outs (n : nat) (o : dout) : list dout := repeat DMore (n - 1) ++ [o].

Lemma outs_app n1 n2 o : (1 <= n1)%nat -> (1 <= n2)%nat -> outs n1 DMore ++ outs n2 o = outs (n1 + n2) o.
Proof.
  intros H1 H2. unfold outs. rewrite <- app_assoc.
  replace (n1 + n2 - 1)%nat with ((n1 - 1) + (1 + (n2 - 1)))%nat by lia.
  rewrite !repeat_app. cbn [repeat app]. rewrite <- !app_assoc. reflexivity.
Qed.

Lemma outs_cons n o : (1 <= n)%nat -> DMore :: outs n o = outs (S n) o.
Proof. intros H. unfold outs. replace (S n - 1)%nat with (S (n - 1)) by lia. reflexivity. Qed.

(* ------------------------------------------------------------------ NAL units that survive the round trip *)

Definition nal_ok (n : bytes) : Prop :=
  match n with
  | [] => False
  | b :: _ => 0 <= b < 128 /\ ~ (24 <= Z.land b 31 <= 29) /\ no_sc n
  end.

Lemma nal_ok_nonempty n : nal_ok n -> n <> [].
Proof. destruct n; [intros []|discriminate]. Qed.

(* ------------------------------------------------------------------ single NAL unit packet *)

Lemma single_decode d seq ts m ssrc n F :
  nal_ok n -> fbstate d F ts ->
  blen F + 1 <= max_nalus -> au_size F + blen n <= max_au_size ->
  exists d2, decode d (mkpkt seq ts m ssrc n) = (d2, last_out m (F ++ [n]))
             /\ fbstate d2 (if m then [] else F ++ [n]) ts.
Proof.
  intros Hok Hst Hl1 Hl2. destruct n as [|b r]; [destruct Hok|]. destruct Hok as (Hb & Htyp & Hsc).
  assert (Hdn : decode_nalus d (mkpkt seq ts m ssrc (b :: r))
                = (set_first (reset_frags d), inl [b :: r])).
  { unfold decode_nalus. cbn [p_payload].
    destruct (Z.land b 31 =? 28) eqn:E1; [apply Z.eqb_eq in E1; lia|].
    destruct (Z.land b 31 =? 24) eqn:E2; [apply Z.eqb_eq in E2; lia|].
    destruct (Z.land b 31 =? 25) eqn:E3; [apply Z.eqb_eq in E3; lia|].
    destruct (Z.land b 31 =? 26) eqn:E4; [apply Z.eqb_eq in E4; lia|].
    destruct (Z.land b 31 =? 27) eqn:E5; [apply Z.eqb_eq in E5; lia|].
    destruct (Z.land b 31 =? 29) eqn:E6; [apply Z.eqb_eq in E6; lia|].
    cbn [orb]. unfold remove_annexb.
    destruct Hst as (Hab & _). cbn [set_first reset_frags d_annexb]. rewrite Hab, (no_sc_no4 _ Hsc).
    cbn [negb andb set_first reset_frags d_annexb]. rewrite Hab. reflexivity. }
  pose proof (decode_of_nalus d (mkpkt seq ts m ssrc (b :: r)) _ [b :: r] F Hdn) as H.
  cbn [p_ts p_marker] in H. apply H.
  - apply fbstate_set_first, fbstate_reset_frags, Hst.
  - discriminate.
  - unfold blen at 2. cbn [length]. lia.
  - cbn [au_size]. lia.
Qed.

(* ------------------------------------------------------------------ STAP-A *)

Lemma stap_entry_len n : (1 <= length (stap_entry n))%nat.
Proof. unfold stap_entry. cbn [length]. lia. Qed.

Lemma firstn_blen_app (n t : bytes) : firstn (Z.to_nat (blen n)) (n ++ t) = n.
Proof. unfold blen. rewrite Nat2Z.id, firstn_app, Nat.sub_diag, firstn_all, firstn_O, app_nil_r. reflexivity. Qed.

Lemma skipn_blen_app (n t : bytes) : skipn (Z.to_nat (blen n)) (n ++ t) = t.
Proof. unfold blen. rewrite Nat2Z.id, skipn_app, Nat.sub_diag, skipn_all, skipn_O. reflexivity. Qed.

Lemma match_nonnil (f : nat) (l : bytes) (acc : list bytes) : l <> [] ->
  match l with [] => Some acc | c :: r => stap_loop f (c :: r) acc end = stap_loop f l acc.
Proof. destruct l; [congruence|reflexivity]. Qed.

Lemma stap_loop_entries : forall nalus acc fuel,
  nalus <> [] -> Forall (fun n => n <> [] /\ blen n < 65536) nalus -> (length nalus <= fuel)%nat ->
  stap_loop fuel (concat (map stap_entry nalus)) acc = Some (acc ++ nalus).
Proof.
  induction nalus as [|n ns IH]; intros acc fuel Hne Hall Hfuel; [congruence|].
  destruct fuel as [|f]; [simpl in Hfuel; lia|].
  inversion Hall as [|? ? [Hn Hlen] Hall']; subst.
  cbn [map concat]. unfold stap_entry at 1. cbn [app stap_loop].
  rewrite (stap_size (blen n)) by (pose proof (blen_nonneg n); lia).
  destruct (blen n =? 0) eqn:E0.
  { apply Z.eqb_eq in E0. destruct n; [congruence|rewrite blen_cons in E0; pose proof (blen_nonneg n); lia]. }
  destruct (blen n >? blen (n ++ concat (map stap_entry ns))) eqn:E1.
  { apply Z.gtb_lt in E1. rewrite blen_app in E1. pose proof (blen_nonneg (concat (map stap_entry ns))). lia. }
  rewrite firstn_blen_app, skipn_blen_app.
  destruct ns as [|n2 ns'].
  - cbn [map concat]. reflexivity.
  - remember (n2 :: ns') as ns eqn:Ens.
    assert (Hc : concat (map stap_entry ns) <> []).
    { rewrite Ens. cbn [map concat]. unfold stap_entry at 1. discriminate. }
    rewrite (match_nonnil f _ (acc ++ [n]) Hc). rewrite IH; [rewrite <- app_assoc; reflexivity|rewrite Ens; discriminate|exact Hall'|].
    simpl in Hfuel. lia.
Qed.

Lemma concat_stap_len nalus : (length nalus <= length (concat (map stap_entry nalus)))%nat.
Proof.
  induction nalus as [|n ns IH]; [simpl; lia|]. cbn [map concat length]. rewrite app_length.
  pose proof (stap_entry_len n). lia.
Qed.

Lemma stap_decode d seq ts m ssrc nalus F :
  (2 <= length nalus)%nat -> Forall (fun n => n <> [] /\ blen n < 65536) nalus -> fbstate d F ts ->
  blen F + blen nalus <= max_nalus -> au_size F + au_size nalus <= max_au_size ->
  exists d2, decode d (mkpkt seq ts m ssrc (24 :: concat (map stap_entry nalus))) = (d2, last_out m (F ++ nalus))
             /\ fbstate d2 (if m then [] else F ++ nalus) ts.
Proof.
  intros Hlen Hall Hst Hl1 Hl2.
  assert (Hne : nalus <> []) by (destruct nalus; [simpl in Hlen; lia|discriminate]).
  assert (Hdn : decode_nalus d (mkpkt seq ts m ssrc (24 :: concat (map stap_entry nalus)))
                = (set_first (reset_frags d), inl nalus)).
  { unfold decode_nalus. cbn [p_payload].
    replace (Z.land 24 31 =? 28) with false by reflexivity.
    replace (Z.land 24 31 =? 24) with true by reflexivity.
    rewrite (stap_loop_entries nalus [] _ Hne Hall) by (pose proof (concat_stap_len nalus); lia).
    cbn [app]. destruct nalus as [|n1 [|n2 r]]; [congruence|simpl in Hlen; lia|].
    unfold remove_annexb. reflexivity. }
  pose proof (decode_of_nalus d (mkpkt seq ts m ssrc (24 :: concat (map stap_entry nalus))) _ nalus F Hdn) as H.
  cbn [p_ts p_marker] in H. apply H; try assumption.
Qed.
