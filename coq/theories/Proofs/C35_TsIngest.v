(* C35, MPEG-TS ingestion: the pre-scan bookkeeping (per-track done flags, shared counter) guarantees that ToStream
   finds a configuration for every LATM track, for every order of PES packets. *)
From Coq Require Import List ZArith Bool Lia Arith.
Require Import MTX.Model.C35_TsIngest.
Import ListNotations.
Import TS.
Local Open Scope Z_scope.

(* ---- counting ------------------------------------------------------------------------------------------- *)

Lemma filter_map_S_length : forall (g : nat -> bool) l,
  length (filter g (map S l)) = length (filter (fun i => g (S i)) l).
Proof. induction l as [|a l IH]; cbn; [reflexivity|]. destruct (g (S a)); cbn; rewrite IH; reflexivity. Qed.

Lemma filter_nth_length : forall (f : track -> bool) ts,
  length (filter f ts) = length (filter (fun i => f (nth i ts dflt)) (seq 0 (length ts))).
Proof.
  induction ts as [|a l IH]; [reflexivity|].
  cbn [length]. change (seq 0 (S (length l))) with (0%nat :: seq 1 (length l)). rewrite <- seq_shift.
  cbn [filter]. change (nth 0 (a :: l) dflt) with a.
  destruct (f a); cbn [length]; rewrite filter_map_S_length, IH; reflexivity.
Qed.

Lemma filter_length_flip : forall (g g' : nat -> bool) (i : nat) l,
  NoDup l -> In i l -> g i = true -> g' i = false -> (forall j, j <> i -> g' j = g j) ->
  length (filter g l) = S (length (filter g' l)).
Proof.
  induction l as [|a l IH]; intros Hnd Hin Hg Hg' Hother; [destruct Hin|].
  inversion Hnd as [|? ? Hna Hnd']; subst. cbn [filter].
  destruct (Nat.eq_dec a i) as [->|Hne].
  - rewrite Hg, Hg'. cbn [length]. f_equal.
    f_equal. apply filter_ext_in. intros j Hj. symmetry. apply Hother. intro; subst; contradiction.
  - destruct Hin as [->|Hin]; [contradiction|].
    rewrite (Hother a Hne). destruct (g a); cbn [length]; rewrite (IH Hnd' Hin Hg Hg' Hother); reflexivity.
Qed.

Lemma filter_length_zero : forall (g : nat -> bool) l i, length (filter g l) = 0%nat -> In i l -> g i = false.
Proof.
  intros g l i Hl Hin. destruct (g i) eqn:Hg; [|reflexivity].
  assert (Hf : In i (filter g l)) by (apply filter_In; split; assumption).
  destruct (filter g l); [destruct Hf | discriminate].
Qed.

(* ---- callbacks ------------------------------------------------------------------------------------------ *)

Lemma cb_of_some : forall want ts pid i, cb_of want ts pid = Some i ->
  (i < length ts)%nat /\ want (trk ts i) = true /\ t_pid (trk ts i) = pid.
Proof.
  unfold cb_of. intros want ts pid i H. apply find_some in H. destruct H as [Hin Hb].
  apply in_rev in Hin. apply in_seq in Hin. apply andb_true_iff in Hb. destruct Hb as [Hw Hp].
  apply Z.eqb_eq in Hp. repeat split; [lia|assumption|assumption].
Qed.

(* ---- the invariant of the pre-scan ---------------------------------------------------------------------- *)

Definition open (ts : list track) (st : pstate) (i : nat) : bool := is_latm (trk ts i) && negb (p_done st i).

Definition Inv (ts : list track) (st : pstate) : Prop :=
  p_cnt st = Z.of_nat (length (filter (open ts st) (seq 0 (length ts)))) /\
  (forall i, (i < length ts)%nat -> is_latm (trk ts i) = true -> p_done st i = true ->
             p_cfgs st (t_pid (trk ts i)) <> None).

Lemma inv_init : forall ts, Inv ts (p_init ts).
Proof.
  intro ts. split.
  - cbn [p_init p_cnt]. f_equal. rewrite (filter_nth_length is_latm ts). f_equal.
    apply filter_ext. intro i. unfold open, trk. cbn. rewrite andb_true_r. reflexivity.
  - intros i _ _ H. discriminate H.
Qed.

Lemma inv_callback : forall ts st i els st', Inv ts st ->
  (i < length ts)%nat -> is_latm (trk ts i) = true ->
  p_callback PvCode ts st i els = PsOk st' -> Inv ts st'.
Proof.
  intros ts st i els st' [Hc Hd] Hi Hl H. unfold p_callback in H.
  destruct (p_done st i) eqn:Hdone; [injection H as <-; split; assumption|].
  destruct els as [|e r]; [discriminate|].
  destruct e as [|c|oks]; try (injection H as <-; split; assumption).
  injection H as <-. split.
  - set (st1 := {| p_done := set_done st i; p_cfgs := set_cfg st (t_pid (trk ts i)) c; p_cnt := p_cnt st - 1 |}).
    assert (HF : length (filter (open ts st) (seq 0 (length ts))) = S (length (filter (open ts st1) (seq 0 (length ts))))).
    { apply (filter_length_flip (open ts st) (open ts st1) i).
      + apply seq_NoDup.
      + apply in_seq. lia.
      + unfold open. rewrite Hl, Hdone. reflexivity.
      + unfold open, st1, set_done. cbn. rewrite Nat.eqb_refl. apply andb_false_r.
      + intros j Hj. unfold open, st1, set_done. cbn. apply Nat.eqb_neq in Hj. rewrite Hj. reflexivity. }
    change (p_cnt st1) with (p_cnt st - 1). rewrite Hc, HF. lia.
  - intros j Hj Hlj Hdj. cbn in *. unfold set_cfg. unfold set_done in Hdj.
    destruct (Nat.eqb j i) eqn:Hji.
    + apply Nat.eqb_eq in Hji. subst j. rewrite Z.eqb_refl. intro; discriminate.
    + destruct (t_pid (trk ts j) =? t_pid (trk ts i)); [intro; discriminate|]. apply Hd; assumption.
Qed.

Lemma inv_event : forall ts st e st', Inv ts st -> p_event PvCode ts st e = PsOk st' -> Inv ts st'.
Proof.
  intros ts st e st' HI H. destruct e as [|pid els]; cbn in H.
  - injection H as <-. assumption.
  - destruct (cb_of is_latm ts pid) as [i|] eqn:Hcb.
    + apply cb_of_some in Hcb. destruct Hcb as (Hi & Hl & _). eapply inv_callback; eassumption.
    + injection H as <-. assumption.
Qed.

Lemma inv_done_all : forall ts st, Inv ts st -> p_cnt st <= 0 ->
  forall t, In t ts -> is_latm t = true -> p_cfgs st (t_pid t) <> None.
Proof.
  intros ts st [Hc Hd] Hle t Hin Hl.
  destruct (In_nth ts t dflt Hin) as (i & Hi & Hn).
  assert (Hz : length (filter (open ts st) (seq 0 (length ts))) = 0%nat) by lia.
  assert (Ho : open ts st i = false) by (apply (filter_length_zero _ _ i Hz); apply in_seq; lia).
  unfold open, trk in Ho. rewrite Hn, Hl in Ho. cbn in Ho. apply negb_false_iff in Ho.
  specialize (Hd i Hi). unfold trk in Hd. rewrite Hn in Hd. apply Hd; assumption.
Qed.

Lemma prescan_inv : forall ts evs st st', Inv ts st -> prescan PvCode ts st evs = PsOk st' ->
  Inv ts st' /\ p_cnt st' <= 0.
Proof.
  induction evs as [|e r IH]; intros st st' HI H; cbn in H.
  - destruct (p_cnt st <=? 0) eqn:Hle; [|discriminate]. injection H as <-. split; [assumption|lia].
  - destruct (p_cnt st <=? 0) eqn:Hle; [injection H as <-; split; [assumption|lia]|].
    destruct (p_event PvCode ts st e) as [st1| |] eqn:He; try discriminate.
    eapply IH; [eapply inv_event; eassumption|exact H].
Qed.

(* every LATM track has its configuration when Initialize returns nil, for ANY order of PES packets *)
Theorem prescan_complete : forall ts evs st,
  prescan PvCode ts (p_init ts) evs = PsOk st ->
  forall t, In t ts -> is_latm t = true -> p_cfgs st (t_pid t) <> None.
Proof.
  intros ts evs st H. destruct (prescan_inv ts evs _ _ (inv_init ts) H) as [HI Hle].
  exact (inv_done_all ts st HI Hle).
Qed.

(* ---- no panic ------------------------------------------------------------------------------------------- *)

Lemma callback_no_panic : forall ts st i els, els <> [] -> p_callback PvCode ts st i els <> PsPanic.
Proof.
  intros ts st i els Hne. unfold p_callback. destruct (p_done st i); [discriminate|].
  destruct els as [|e r]; [contradiction|]. destruct e; discriminate.
Qed.

Lemma event_no_panic : forall ts st e, ev_nonempty ts e = true -> p_event PvCode ts st e <> PsPanic.
Proof.
  intros ts st e H. destruct e as [|pid els]; cbn in *; [discriminate|].
  destruct (cb_of is_latm ts pid); [|discriminate].
  apply callback_no_panic. destruct els; [discriminate|discriminate].
Qed.

Lemma prescan_no_panic : forall ts evs st, forallb (ev_nonempty ts) evs = true -> prescan PvCode ts st evs <> PsPanic.
Proof.
  induction evs as [|e r IH]; intros st H; cbn.
  - destruct (p_cnt st <=? 0); discriminate.
  - destruct (p_cnt st <=? 0); [discriminate|]. cbn in H. apply andb_true_iff in H. destruct H as [He Hr].
    destruct (p_event PvCode ts st e) eqn:Hev; [apply IH; assumption|discriminate|].
    exfalso. exact (event_no_panic ts st e He Hev).
Qed.

Lemma to_stream_medias_some : forall cfgs ts,
  (forall t, In t ts -> is_latm t = true -> cfgs (t_pid t) <> None) -> to_stream_medias cfgs ts <> None.
Proof.
  induction ts as [|t r IH]; intro H; cbn; [discriminate|].
  assert (Hr : to_stream_medias cfgs r <> None) by (apply IH; intros u Hu; apply H; right; assumption).
  destruct (t_codec t) eqn:Hc.
  - assert (Hl : is_latm t = true) by (unfold is_latm; rewrite Hc; reflexivity).
    specialize (H t (or_introl eq_refl) Hl). destruct (cfgs (t_pid t)); [|contradiction].
    destruct (to_stream_medias cfgs r); [discriminate|contradiction].
  - destruct (to_stream_medias cfgs r); [discriminate|contradiction].
  - assumption.
Qed.

Theorem to_stream_no_panic : forall ts evs st,
  prescan PvCode ts (p_init ts) evs = PsOk st -> to_stream (p_cfgs st) ts <> TsPanic.
Proof.
  intros ts evs st H. unfold to_stream.
  pose proof (to_stream_medias_some (p_cfgs st) ts (prescan_complete ts evs st H)) as Hs.
  destruct (to_stream_medias (p_cfgs st) ts) as [[|m ms]|]; [discriminate|discriminate|contradiction].
Qed.

(* the medias ToStream builds: one per supported track, a LATM one always with a configuration *)
Theorem to_stream_medias_count : forall cfgs ts ms, to_stream_medias cfgs ts = Some ms ->
  length ms = length (filter is_supported ts).
Proof.
  induction ts as [|t r IH]; intros ms H; cbn in *; [injection H as <-; reflexivity|].
  unfold is_supported at 1. destruct (t_codec t).
  - destruct (cfgs (t_pid t)); [|discriminate]. destruct (to_stream_medias cfgs r) as [m|]; [|discriminate].
    injection H as <-. cbn. f_equal. apply IH. reflexivity.
  - destruct (to_stream_medias cfgs r) as [m|]; [|discriminate]. injection H as <-. cbn. f_equal. apply IH. reflexivity.
  - apply IH. assumption.
Qed.

Theorem ingest_no_panic : forall ts evs, forallb (ev_nonempty ts) evs = true -> ingest PvCode ts evs <> IPanic.
Proof.
  intros ts evs H. unfold ingest.
  destruct (prescan PvCode ts (p_init ts) evs) as [st| |] eqn:Hp.
  - pose proof (to_stream_no_panic ts evs st Hp) as Ht.
    destruct (to_stream (p_cfgs st) ts); [|discriminate|contradiction].
    destruct (read_loop (p_cfgs st) ts evs 0 0) as [[a b] c]. discriminate.
  - discriminate.
  - exfalso. exact (prescan_no_panic ts evs _ H Hp).
Qed.

(* the read loop never meets a LATM track without configuration either (the RDecode branch for `None` is dead) *)
Theorem read_loop_has_config : forall ts evs st pid i,
  prescan PvCode ts (p_init ts) evs = PsOk st -> cb_of is_supported ts pid = Some i -> is_latm (trk ts i) = true ->
  p_cfgs st (t_pid (trk ts i)) <> None.
Proof.
  intros ts evs st pid i H Hcb Hl. apply cb_of_some in Hcb. destruct Hcb as (Hi & _ & _).
  apply (prescan_complete ts evs st H); [|assumption]. apply nth_In. assumption.
Qed.

(* ---- the statement orders next to the code panic ------------------------------------------------------ *)

Definition latm (pid : Z) : track := {| t_pid := pid; t_codec := KLatm |}.

(* two LATM tracks, two PES packets of the first complete before the first of the second *)
Lemma no_done_panics : ingest PvNoDone [latm 256; latm 257] [EvData 256 [ElOwn 0]; EvData 256 [ElOwn 0]; EvData 257 [ElOwn 1]] = IPanic.
Proof. vm_compute. reflexivity. Qed.
Lemma no_done_code_ok : ingest PvCode [latm 256; latm 257] [EvData 256 [ElOwn 0]; EvData 256 [ElOwn 0]; EvData 257 [ElOwn 1]]
  = IRan [Some 0; Some 1] 3 3 REof.
Proof. vm_compute. reflexivity. Qed.
(* one LATM track suffices when the first element refers to a configuration sent earlier *)
Lemma dec_on_fail_panics : ingest PvDecOnFail [latm 256] [EvData 256 [ElSame [0]]; EvData 256 [ElOwn 0]] = IPanic.
Proof. vm_compute. reflexivity. Qed.
Lemma loop_off_by_one_panics : ingest PvLoopOffByOne [latm 256] [EvData 256 [ElOwn 0]] = IPanic.
Proof. vm_compute. reflexivity. Qed.
(* the library's guarantee is needed: els[0] *)
Lemma empty_els_panics : ingest PvCode [latm 256] [EvData 256 []] = IPanic.
Proof. vm_compute. reflexivity. Qed.

Lemma examples :
  ingest PvCode [latm 256] [EvNone; EvData 256 [ElSame [0]]; EvData 256 [ElBad]; EvData 256 [ElOwn 0; ElSame [0]]; EvData 256 [ElSame [0]]]
    = IRan [Some 0] 2 1 RDecode
  /\ ingest PvCode [latm 256; {| t_pid := 257; t_codec := KOther |}] [EvData 257 []; EvData 256 [ElOwn 0]; EvData 256 [ElOwn 1]]
    = IRan [Some 0; None] 2 2 RDynamic
  /\ ingest PvCode [latm 256; latm 257] [EvData 256 [ElOwn 0]; EvData 256 [ElOwn 0]] = IInitErr
  /\ ingest PvCode [{| t_pid := 256; t_codec := KUnsupported |}] [EvData 256 []] = INoCodecs
  /\ ingest PvCode [latm 256; latm 256] [EvData 256 [ElOwn 0]; EvData 256 [ElOwn 0]] = IInitErr
  /\ forallb (ev_nonempty [latm 256; latm 257]) [EvData 256 [ElOwn 0]; EvData 256 [ElOwn 0]; EvData 257 [ElOwn 1]] = true.
Proof. vm_compute. repeat split; reflexivity. Qed.
