(* C40, stream level: the enabledness test of the correspondence check (Check.C40.zsettled) is complete, an observation
   that matches a reachable state of the code's model is never one that `spec_fail` rejects, and the witnesses of the
   refuted program tables as reachable states. *)
From Coq Require Import List Arith Bool Lia.
Require Import MTX.Model.C40_StreamLock MTX.Proofs.C40_StreamLock MTX.Check.C40.
Import ListNotations.
Import SL.

Theorem zsettled_sound s fr l s' :
  zsettled s fr = true -> internal l = true -> step Code s l = Some s' ->
  exists p, l = LStep p /\ existsb (Nat.eqb p) fr = true.
Proof.
  intros Hs Hi Hst. destruct l as [o|p]; [discriminate|]. exists p. split; [reflexivity|].
  unfold zsettled in Hs. rewrite forallb_forall in Hs.
  assert (Hlt : p < length (procs s)).
  { unfold step in Hst. destruct (panic s); [discriminate|].
    destruct (nth_error (procs s) p) eqn:En; [|discriminate]. eapply nth_lt; exact En. }
  specialize (Hs p). rewrite in_seq in Hs. specialize (Hs ltac:(lia)).
  unfold zenabledb in Hs. rewrite Hst in Hs. exact Hs.
Qed.

Lemma list_eqb_nat a : forall b, list_eqb Nat.eqb a b = true -> a = b.
Proof.
  induction a as [|x a IH]; intros [|y b] H; simpl in H; try discriminate; [reflexivity|].
  apply andb_prop in H. destruct H as [H1 H2]. apply Nat.eqb_eq in H1. rewrite (IH b H2). congruence.
Qed.

Lemma list_eqb_nat_refl a : list_eqb Nat.eqb a a = true.
Proof. induction a as [|x a IH]; simpl; [reflexivity|]. rewrite Nat.eqb_refl. exact IH. Qed.

Lemma insert_nonempty x l : insert x l <> [].
Proof. destruct l as [|y r]; simpl; [discriminate|]. destruct (x <=? y); discriminate. Qed.

Lemma sort_nil l : sort l = [] -> l = [].
Proof. destruct l as [|x r]; [reflexivity|]. simpl. intros H. exfalso. eapply insert_nonempty; exact H. Qed.

(* the model of the code never predicts what spec_fail rejects in an observation made under the mutex *)
Theorem zobs_consistent s o : reachable Code s -> no_mutator s -> zshared_matches s o = true ->
  (match zo_readers o with [] => false | _ => true end && negb (zo_closed o)) = false
  /\ list_eqb Nat.eqb (zo_readers o) (zo_cbs o) = true
  /\ (2 <=? zo_rtsp o) = false.
Proof.
  intros R Hn Hm. unfold zshared_matches in Hm.
  repeat (apply andb_prop in Hm; destruct Hm as [Hm ?]).
  apply list_eqb_nat in H2, H3. apply eqb_prop in H1. apply Nat.eqb_eq in H.
  split; [|split; [rewrite <- H2, <- H3; apply list_eqb_nat_refl|rewrite <- H; destruct (rtsp (g s)); reflexivity]].
  destruct (zo_readers o) as [|x r] eqn:Er; [reflexivity|]. simpl.
  rewrite <- H1. rewrite (handshake s R Hn); [reflexivity|].
  intros E. rewrite E in H3. simpl in H3. discriminate.
Qed.

(* ---- witnesses ---- *)
Lemma ubc_double_close : exists s, reachable UnlockBeforeCheck s /\ panic s = Some PDoubleClose.
Proof.
  pose proof unlock_before_check_double_close as H.
  destruct (run UnlockBeforeCheck init double_close_trace) as [s|] eqn:E; [|contradiction].
  exists s. split; [eapply run_reachable; exact E|exact H].
Qed.

Lemma ubc_exposed : exists s, reachable UnlockBeforeCheck s /\ no_mutator s /\ panic s = None
  /\ readers (g s) = [1] /\ has_closed (g s) = false.
Proof.
  pose proof unlock_before_check_exposed as H.
  destruct (run UnlockBeforeCheck init exposed_trace) as [s|] eqn:E; [|contradiction].
  exists s. split; [eapply run_reachable; exact E|].
  vm_compute in E. inversion E; subst s; clear E. destruct H as (H1 & H2 & H3 & H4).
  split; [|auto].
  intros p pr En Hh. destruct p as [|[|p]]; simpl in En.
  - inversion En; subst pr. vm_compute in Hh. discriminate.
  - inversion En; subst pr. exact I.
  - destruct p; discriminate.
Qed.

Lemma unreg_race : exists s, reachable UnregAfterUnlock s /\ panic s = Some PRace.
Proof.
  pose proof unreg_after_unlock_race as H.
  destruct (run UnregAfterUnlock init ([LSpawn (OpAdd 1)] ++ steps 0 7 ++ [LSpawn (OpRemove 1)] ++ steps 1 4))
    as [s|] eqn:E; [|contradiction].
  exists s. split; [eapply run_reachable; exact E|exact H].
Qed.

Lemma rlock_race : exists s, reachable AddUnderRLock s /\ panic s = Some PRace.
Proof.
  pose proof add_under_rlock_race as H.
  destruct (run AddUnderRLock init ([LSpawn (OpAdd 1)] ++ steps 0 3)) as [s|] eqn:E; [|contradiction].
  exists s. split; [eapply run_reachable; exact E|exact H].
Qed.

Lemma nolock_race : exists s, reachable WriteNoLock s /\ panic s = Some PRace.
Proof.
  pose proof write_no_lock_race as H.
  destruct (run WriteNoLock init [LSpawn (OpWrite 0); LStep 0]) as [s|] eqn:E; [|contradiction].
  exists s. split; [eapply run_reachable; exact E|exact H].
Qed.

Lemma close_race : exists s, reachable CloseNoLock s /\ panic s = Some PRace.
Proof.
  pose proof close_no_lock_race as H.
  destruct (run CloseNoLock init [LSpawn OpClose; LStep 0]) as [s|] eqn:E; [|contradiction].
  exists s. split; [eapply run_reachable; exact E|exact H].
Qed.

