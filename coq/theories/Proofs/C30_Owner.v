(* C30: every literal byte of a record path stands for itself - regexp metacharacters (the dot of cam.1,
   of v1.0/ and of .mp4 included) - so in a layout where the path name is part of the file name
   ("flat": rec/%path_%Y-%m-%d_%H-%M-%S-%f) a file is a segment of at most one path name, and the
   retention of one path never reaches the recordings of a look-alike sibling (cam.1 / camA1).
   Needs the token list of the substituted format (tokenize_path_format), which the C26/C31 proofs
   had kept as a hypothesis. *)
From Coq Require Import List ZArith Bool Lia.
Require Import MTX.Lib.Civil MTX.Model.C26_RecPath MTX.Proofs.C26_RecPath
               MTX.Model.C31_DeleteSeg MTX.Proofs.C31_DeleteSeg MTX.Model.C30_Cleaner MTX.Proofs.C30_Cleaner
               MTX.Model.C30_Owner.
Import ListNotations.
Local Open Scope Z_scope.

(* ---------------------------------------------------------------- tokens of a substituted format *)

Definition item_toks (i : item) : list tok := match i with IX l => map TLit l | IT t => [t] end.

Lemma token_at_plain c s : c <> 37 -> token_at (c :: s) = None.
Proof.
  intros H. assert (E : (37 =? c) = false) by (apply Z.eqb_neq; lia).
  unfold token_at, ptoks. cbn [find tok_src prefixb]. rewrite E. reflexivity.
Qed.

Lemma token_at_src t s : is_lit t = false -> token_at (tok_src t ++ s) = Some t.
Proof. destruct t; try discriminate; intros _; reflexivity. Qed.

Lemma tokenize_flat its : Forall item_ok its -> tokenize (flat its) = flat_map item_toks its.
Proof.
  intros H. induction H as [|i its Hi _ IH]; [reflexivity|].
  unfold flat. cbn [flat_map]. fold (flat its).
  destruct i as [l|t]; cbn [item_text item_toks item_ok] in *.
  - induction Hi as [|c l Hc Hl IHl]; [exact IH|].
    cbn [app map]. unfold tokenize. cbn [tokenize_aux]. rewrite token_at_plain by exact Hc.
    fold (tokenize (l ++ flat its)). rewrite IHl. reflexivity.
  - pose proof (token_at_src t (flat its) Hi) as Ht.
    destruct (tok_src_split t Hi) as (tl & Hsrc & _).
    unfold tokenize. rewrite Hsrc in Ht |- *. cbn [app] in Ht |- *. cbn [tokenize_aux]. rewrite Ht.
    rewrite Hsrc. cbn [length]. replace (S (length tl) - 1)%nat with (length tl) by lia.
    rewrite tokenize_aux_skip. rewrite skipn_app_exact by reflexivity.
    fold (tokenize (flat its)). rewrite IH. reflexivity.
Qed.

Lemma item_toks_items_of ts : flat_map item_toks (items_of ts) = ts.
Proof. induction ts as [|t ts IH]; [reflexivity|]. unfold items_of in *. cbn [map flat_map]. rewrite IH. destruct t; reflexivity. Qed.

(* the format with the name substituted, item by item *)
Lemma path_format_items rp ext name : no_stray (tokenize rp) = true ->
  path_format rp ext name = flat (map (pass1 TPath name) (items_of (tokenize rp) ++ [IX ext])).
Proof.
  intros Hs.
  assert (Hrp0 : rp = flat (items_of (tokenize rp))) by (now rewrite flat_items_of, detokenize).
  unfold path_format, pth. rewrite Hrp0 at 1. rewrite repl_items; [|reflexivity|apply items_of_ok; exact Hs].
  rewrite map_app, flat_app. cbn [map pass1]. unfold flat at 3. cbn. now rewrite app_nil_r.
Qed.

(* %path replaced by the bytes of the name *)
Definition subst_toks (pn : list Z) (ts : list tok) : list tok :=
  flat_map (fun t => match t with TPath => map TLit pn | _ => [t] end) ts.

Lemma subst_items pn ts : flat_map item_toks (map (pass1 TPath pn) (items_of ts)) = subst_toks pn ts.
Proof.
  induction ts as [|t ts IH]; [reflexivity|]. unfold items_of, subst_toks in *. cbn [map flat_map]. rewrite IH.
  destruct t; reflexivity.
Qed.

Theorem tokenize_path_format rp ext pn : no_stray (tokenize rp) = true -> no37 pn -> no37 ext ->
  tokenize (path_format rp ext pn) = subst_toks pn (tokenize rp) ++ map TLit ext.
Proof.
  intros Hs Hn He. rewrite path_format_items by exact Hs. rewrite tokenize_flat.
  - rewrite map_app, flat_map_app, subst_items. cbn [map pass1 flat_map item_toks]. now rewrite app_nil_r.
  - apply Forall_forall. intros i Hi. apply in_map_iff in Hi. destruct Hi as (j & <- & Hj).
    apply pass1_ok; [exact Hn|]. apply in_app_or in Hj. destruct Hj as [Hj|[<-|[]]]; [|exact He].
    pose proof (items_of_ok _ Hs) as Hok. rewrite Forall_forall in Hok. now apply Hok.
Qed.

Lemma subst_nonpath pn ts : nonpath ts = true -> subst_toks pn ts = ts.
Proof.
  induction ts as [|t ts IH]; [reflexivity|]. unfold nonpath, subst_toks in *. cbn [forallb flat_map].
  rewrite andb_true_iff. intros [Ht Hr]. rewrite (IH Hr). destruct t; try reflexivity. discriminate.
Qed.

Lemma subst_app pn a b : subst_toks pn (a ++ b) = subst_toks pn a ++ subst_toks pn b.
Proof. unfold subst_toks. apply flat_map_app. Qed.

Lemma fixedw_nonpath ts : fixedw ts = true -> nonpath ts = true.
Proof.
  unfold fixedw, nonpath. rewrite !forallb_forall. intros H t Ht. specialize (H t Ht).
  apply andb_true_iff in H. tauto.
Qed.

Lemma fixedw_app a b : fixedw a = true -> fixedw b = true -> fixedw (a ++ b) = true.
Proof. unfold fixedw. rewrite forallb_app. intros -> ->. reflexivity. Qed.

Lemma fixedw_lits l : fixedw (map TLit l) = true.
Proof. induction l as [|c l IH]; [reflexivity|]. unfold fixedw in *. cbn [map forallb]. rewrite IH. reflexivity. Qed.

(* a run of literals consumes exactly those bytes *)
Lemma mtch_lits l : forall K s caps, mtch true (map TLit l ++ K) s = Some caps ->
  exists s', s = l ++ s' /\ mtch true K s' = Some caps.
Proof.
  induction l as [|c l IH]; intros K s caps H; [exists s; split; [reflexivity|exact H]|].
  cbn [map app mtch] in H. destruct s as [|c' r]; [discriminate|].
  destruct (Z.eqb_spec c' c) as [->|]; [|discriminate].
  destruct (IH _ _ _ H) as (s' & -> & Hm). exists s'. split; [reflexivity|exact Hm].
Qed.

(* shape of a name the substituted format accepts: width(A) bytes, the name, width(R ++ ext) bytes *)
Lemma owner_shape L rp ext pn v r A R :
  tokenize rp = A ++ TPath :: R -> fixedw A = true -> fixedw R = true ->
  no_stray (tokenize rp) = true -> no37 pn -> no37 ext ->
  decode_lz L (path_format rp ext pn) v = Some r ->
  exists s1 s2, v = s1 ++ pn ++ s2 /\ length s1 = width A /\ length s2 = width (R ++ map TLit ext).
Proof.
  intros HT HA HR Hs Hn He Hd.
  destruct (decode_lz_inv _ _ _ _ Hd) as (caps & Hm & _).
  rewrite tokenize_path_format in Hm by assumption. rewrite HT in Hm.
  rewrite subst_app in Hm. change (TPath :: R) with ([TPath] ++ R) in Hm. rewrite subst_app in Hm.
  rewrite (subst_nonpath pn A (fixedw_nonpath _ HA)), (subst_nonpath pn R (fixedw_nonpath _ HR)) in Hm.
  unfold subst_toks in Hm at 1. cbn [flat_map] in Hm. rewrite app_nil_r in Hm. rewrite <- !app_assoc in Hm.
  destruct (mtch_fixed_split A _ _ _ HA Hm) as (s1 & s2 & c2 & -> & Hl1 & Hm2).
  destruct (mtch_lits pn _ _ _ Hm2) as (s' & -> & Hm3).
  exists s1, s'. repeat split; [exact Hl1|].
  apply (mtch_fixed_len _ _ c2); [|exact Hm3]. apply fixedw_app; [exact HR|apply fixedw_lits].
Qed.

(* One owner: under a record path whose placeholders beside %path have a fixed width (no %z), a file
   name is a segment of at most one path name - whatever bytes the names consist of. *)
Theorem one_owner L rp ext pn pn' v r r' A R :
  tokenize rp = A ++ TPath :: R -> fixedw A = true -> fixedw R = true ->
  no_stray (tokenize rp) = true -> no37 pn -> no37 pn' -> no37 ext ->
  decode_lz L (path_format rp ext pn) v = Some r -> decode_lz L (path_format rp ext pn') v = Some r' ->
  pn = pn'.
Proof.
  intros HT HA HR Hs Hn Hn' He Hd Hd'.
  destruct (owner_shape L rp ext pn v r A R HT HA HR Hs Hn He Hd) as (s1 & s2 & Hv & Hl1 & Hl2).
  destruct (owner_shape L rp ext pn' v r' A R HT HA HR Hs Hn' He Hd') as (t1 & t2 & Hv' & Hk1 & Hk2).
  rewrite Hv in Hv'. destruct (app_eq_len _ _ _ _ Hv' ltac:(lia)) as [_ Hrest].
  assert (Hlen : length pn = length pn').
  { apply (f_equal (@length Z)) in Hrest. rewrite !app_length in Hrest. lia. }
  destruct (app_eq_len _ _ _ _ Hrest Hlen) as [Hpn _]. exact Hpn.
Qed.

Lemma valid_path_name_no37 p : valid_path_name p = true -> no37 p.
Proof.
  unfold valid_path_name. destruct p as [|c p]; [discriminate|]. rewrite !andb_true_iff.
  intros [[_ Hc] _]. apply Forall_forall. intros x Hx. rewrite forallb_forall in Hc. specialize (Hc x Hx).
  intros ->. discriminate.
Qed.

(* The cleaner: all configurations share one such record path (the usual set-up: pathDefaults). A deleted
   file that is a segment of path name pn' was deleted under the retention of the configuration pn'
   itself resolves to - not under that of a sibling whose name looks like pn'. *)
Theorem sibling_own_retention L rematch resolve confs now tree e rp ext A R pn' r' :
  Forall (fun c => pc_rp c = rp /\ pc_ext c = ext) confs ->
  tokenize rp = A ++ TPath :: R -> fixedw A = true -> fixedw R = true ->
  no_stray (tokenize rp) = true -> no37 ext ->
  In e (deleted L rematch resolve confs now tree) ->
  no37 pn' -> decode_lz L (path_format rp ext pn') (fst e) = Some r' ->
  exists j c p u n, resolve pn' = Some j /\ nth_error confs j = Some c /\ pc_da c <> 0 /\
    decode_lz L (seg_format c pn') (fst e) = Some (p, u, n) /\ start_ns u n <= now - pc_da c.
Proof.
  intros Hall HT HA HR Hs He Hdel Hn' Hd'.
  destruct (only_expired L rematch resolve confs now tree e Hdel) as (_ & _ & pn & j & c & p & u & n & _ & Hr & Hc & Hda & Hv & _ & Hd & Hle).
  rewrite Forall_forall in Hall. destruct (Hall c (nth_error_In _ _ Hc)) as [Hrp Hext].
  assert (Hpn : pn = pn').
  { unfold seg_format in Hd. rewrite Hrp, Hext in Hd.
    exact (one_owner L rp ext pn pn' (fst e) _ _ A R HT HA HR Hs (valid_path_name_no37 _ Hv) Hn' He Hd Hd'). }
  subst pn'. exists j, c, p, u, n. repeat split; assumption.
Qed.

(* every expired segment of a path a regular-expression configuration reports is deleted - any record path
   (several %path, any literal bytes), the witness e' of the report being any file of the tree *)
Theorem all_expired_discovered L rematch resolve confs now tree e e' pn i ci u' n' j c p u n :
  In e' tree -> nth_error confs i = Some ci -> pc_regex ci = true ->
  recognises L (pc_rp ci ++ pc_ext ci) e' = Some (pn, u', n') -> rematch i pn = true ->
  In e tree -> snd e = KOther -> resolve pn = Some j -> nth_error confs j = Some c -> pc_da c <> 0 ->
  valid_path_name pn = true -> under (common_path (seg_format c pn)) (fst e) = true ->
  decode_lz L (seg_format c pn) (fst e) = Some (p, u, n) -> start_ns u n <= now - pc_da c ->
  In e (deleted L rematch resolve confs now tree).
Proof.
  intros He' Hci Hre Hrec Hm He Hk Hr Hc Hda Hv Hu Hd Hle.
  apply (all_expired L rematch resolve confs now tree e pn j c p u n); try assumption.
  apply (discovered_regex L rematch confs tree i ci e' pn u' n'); assumption.
Qed.

(* ---------------------------------------------------------------- the statements of Props/C30.v *)

Lemma nonpath_noz_fixedw ts : nonpath ts = true -> has Tz ts = false -> fixedw ts = true.
Proof.
  induction ts as [|t ts IH]; [reflexivity|]. unfold nonpath, fixedw, has in *. cbn [forallb existsb].
  rewrite andb_true_iff, orb_false_iff. intros [Ht Hr] [Hz Hzr]. rewrite Ht, (IH Hr Hzr).
  destruct t; try reflexivity. discriminate.
Qed.

Lemma has_app k a b : has k (a ++ b) = has k a || has k b.
Proof. unfold has. apply existsb_app. Qed.

Lemma single_owner_split rp : single_owner_format rp = true ->
  exists A R, tokenize rp = A ++ TPath :: R /\ fixedw A = true /\ fixedw R = true /\ no_stray (tokenize rp) = true.
Proof.
  unfold single_owner_format. rewrite !andb_true_iff. intros [[Hs Hc] Hz].
  apply Nat.eqb_eq in Hc. apply negb_true_iff in Hz.
  destruct (path_split _ Hc) as (P & R & HT & HP & HR & _).
  rewrite HT in Hz. rewrite has_app in Hz. apply orb_false_iff in Hz. destruct Hz as [HzP HzR].
  unfold has in HzR. cbn [existsb] in HzR. apply orb_false_iff in HzR. destruct HzR as [_ HzR].
  exists P, R. repeat split; [exact HT| | |exact Hs]; apply nonpath_noz_fixedw; assumption.
Qed.

Theorem one_owner_format L rp ext pn pn' v r r' :
  single_owner_format rp = true ->
  Forall (fun x => x <> 37) pn -> Forall (fun x => x <> 37) pn' -> Forall (fun x => x <> 37) ext ->
  decode_lz L (path_format rp ext pn) v = Some r -> decode_lz L (path_format rp ext pn') v = Some r' ->
  pn = pn'.
Proof.
  intros Hf Hn Hn' He Hd Hd'. destruct (single_owner_split rp Hf) as (A & R & HT & HA & HR & Hs).
  exact (one_owner L rp ext pn pn' v r r' A R HT HA HR Hs Hn Hn' He Hd Hd').
Qed.

Theorem sibling_own_retention_format L rematch resolve confs now tree e rp ext pn' r' :
  Forall (fun c => pc_rp c = rp /\ pc_ext c = ext) confs ->
  single_owner_format rp = true -> Forall (fun x => x <> 37) ext ->
  In e (deleted L rematch resolve confs now tree) ->
  Forall (fun x => x <> 37) pn' -> decode_lz L (path_format rp ext pn') (fst e) = Some r' ->
  exists j c p u n, resolve pn' = Some j /\ nth_error confs j = Some c /\ pc_da c <> 0 /\
    decode_lz L (seg_format c pn') (fst e) = Some (p, u, n) /\ start_ns u n <= now - pc_da c.
Proof.
  intros Hall Hf He Hdel Hn' Hd'. destruct (single_owner_split rp Hf) as (A & R & HT & HA & HR & Hs).
  exact (sibling_own_retention L rematch resolve confs now tree e rp ext A R pn' r' Hall HT HA HR Hs He Hdel Hn' Hd').
Qed.

(* %path twice: the recorder's segment of cam.1 under /r/%path.%path_%s is never reported, so never deleted *)
Definition mp_rp : list Z := [47;114;47; 37;112;97;116;104; 46; 37;112;97;116;104; 95; 37;115].
Definition mp_ext : list Z := [46;109;112;52].
Definition mp_name : list Z := [99;97;109;46;49].

Theorem multi_path_refuted :
  exists L rematch resolve confs now tree e pn c t,
    nth_error confs 0 = Some c /\ pc_regex c = true /\ pc_da c <> 0 /\ resolve pn = Some 0%nat /\
    rematch 0%nat pn = true /\ valid_path_name pn = true /\ In e tree /\ snd e = KOther /\
    fst e = encode_go (pc_rp c ++ pc_ext c) pn t /\ start_ns (i_unix t) (i_ns t) <= now - pc_da c /\
    deleted L rematch resolve confs now tree = [].
Proof.
  set (c := mkPC [126;120] true mp_rp mp_ext 3600000000000).
  set (t := mkI 1700000000 0 0).
  exists (fixed_lz 0), (fun _ _ => true), (fun _ => Some 0%nat), [c], (1800000000 * 1000000000),
         [(encode_go (mp_rp ++ mp_ext) mp_name t, KOther)], (encode_go (mp_rp ++ mp_ext) mp_name t, KOther), mp_name, c, t.
  repeat split; try reflexivity; try (left; reflexivity); try (vm_compute; congruence).
Qed.
