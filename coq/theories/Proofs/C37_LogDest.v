(* Proofs about Model/C37_LogDest.v: in EVERY configuration (destination, useColor, colour library on/off) the
   structured line is the JSON line of Proofs/C37_LogJson.v; a coloured level tag would break it; a stream of
   records splits back into its records at the newlines. *)
From Coq Require Import List ZArith Bool Lia.
Require Import MTX.Lib.Utf8 MTX.Lib.Json MTX.Model.C37_LogJson MTX.Model.C37_LogDest MTX.Proofs.C37_LogJson.
Import ListNotations.
Local Open Scope Z_scope.

Lemma write_level_off con lvl : write_level false con lvl = level_name lvl.
Proof. reflexivity. Qed.

Lemma render_tag_level ts lvl msg : render_tag json_string (level_name lvl) ts msg = render ts lvl msg.
Proof. reflexivity. Qed.

(* the colour switches reach the level tag only when both are on and the level is one of the four *)
Lemma write_level_uncoloured uc con lvl :
  uc && con = false \/ ~ (1 <= lvl <= 4) -> write_level uc con lvl = level_name lvl.
Proof.
  intros H. unfold write_level. destruct uc; [|reflexivity].
  destruct H as [H|H].
  - cbn in H. subst con. unfold render_string. destruct (level_code lvl), (level_name lvl); reflexivity.
  - unfold level_name.
    destruct (lvl =? 1) eqn:E1; [lia|]. destruct (lvl =? 2) eqn:E2; [lia|].
    destruct (lvl =? 3) eqn:E3; [lia|]. destruct (lvl =? 4) eqn:E4; [lia|].
    unfold render_string. destruct (level_code lvl); reflexivity.
Qed.

Lemma write_level_coloured lvl : 1 <= lvl <= 4 ->
  exists rest, write_level true true lvl = 27 :: rest.
Proof.
  intros H. assert (lvl = 1 \/ lvl = 2 \/ lvl = 3 \/ lvl = 4) as [->|[->|[->| ->]]] by lia;
    eexists; reflexivity.
Qed.

(* C37_structured_line_all_configs *)
Theorem dest_line_structured cf ts ck lvl msg : cf_structured cf = true ->
  dest_line cf ts ck lvl msg = render ts lvl msg.
Proof. intros H. unfold dest_line. rewrite H. reflexivity. Qed.

Theorem dest_line_parses cf ts ck lvl msg : cf_structured cf = true -> bytes msg -> plain ts = true ->
  parse_line (dest_line cf ts ck lvl msg) =
    Some [(key_timestamp, ts); (key_level, level_name lvl); (key_message, sanitize msg)]
  /\ one_line (dest_line cf ts ck lvl msg) = true.
Proof.
  intros Hs Hb Hts. rewrite (dest_line_structured cf ts ck lvl msg Hs). split.
  - exact (render_parses ts lvl msg Hb Hts).
  - exact (render_one_line ts lvl msg Hb Hts).
Qed.

(* the level member names the level: the four tags are distinct (and non-empty) *)
Lemma level_name_inj l1 l2 : 1 <= l1 <= 4 -> 1 <= l2 <= 4 -> level_name l1 = level_name l2 -> l1 = l2.
Proof.
  intros H1 H2.
  assert (l1 = 1 \/ l1 = 2 \/ l1 = 3 \/ l1 = 4) as [->|[->|[->| ->]]] by lia;
  assert (l2 = 1 \/ l2 = 2 \/ l2 = 3 \/ l2 = 4) as [->|[->|[->| ->]]] by lia;
  cbn; intros E; try reflexivity; discriminate E.
Qed.

(* ---- a control character at the head of the level value: not JSON ------------------------- *)
Lemma members_bad_value f qk k rest : enc_of qk k ->
  parse_members (S f) (34 :: qk ++ 58 :: 34 :: 27 :: rest) = None.
Proof.
  intros Ek. cbn [parse_members].
  rewrite skip_ws_nonws by reflexivity. rewrite Ek.
  rewrite skip_ws_nonws by reflexivity. rewrite Z.eqb_refl.
  rewrite skip_ws_nonws by reflexivity. reflexivity.
Qed.

Lemma render_tag_shape quote tag ts msg :
  render_tag quote tag ts msg =
  123 :: member (key_timestamp ++ [34]) (ts ++ [34]) 44
           (34 :: (key_level ++ [34]) ++ 58 :: 34 :: tag ++ pre_message ++ quote msg ++ [125; 10]).
Proof.
  unfold render_tag, pre_ts, pre_level, member.
  cbn [app key_timestamp key_level]. repeat rewrite <- app_assoc. cbn [app]. reflexivity.
Qed.

Lemma render_tag_esc quote rest ts msg : plain ts = true ->
  parse_line (render_tag quote (27 :: rest) ts msg) = None.
Proof.
  intros Hts. rewrite render_tag_shape. unfold parse_line. unfold member at 1.
  rewrite parse_object_members.
  remember (length _) as n eqn:Hn. cbn [length] in Hn.
  destruct n as [|[|[|n]]]; try discriminate Hn.
  rewrite (members_cons _ (key_timestamp ++ [34]) key_timestamp (ts ++ [34]) ts).
  - cbn [app]. rewrite (members_bad_value _ (key_level ++ [34]) key_level); [reflexivity|].
    apply enc_plain; reflexivity.
  - apply enc_plain; reflexivity.
  - apply enc_plain; exact Hts.
Qed.

(* C37_coloured_level_refuted: were the structured branch to pass d.useColor to writeLevel, every record of
   a colour-capable terminal would be rejected by a JSON parser *)
Theorem coloured_tag_not_json cf ts lvl msg :
  cf_use_colour cf = true -> cf_colour_on cf = true -> 1 <= lvl <= 4 -> plain ts = true ->
  parse_line (dest_line_coloured_tag cf ts lvl msg) = None.
Proof.
  intros Hu Hc Hl Hts. unfold dest_line_coloured_tag. rewrite Hu, Hc.
  destruct (write_level_coloured lvl Hl) as (rest & ->).
  apply render_tag_esc; exact Hts.
Qed.

(* ... and in every other configuration that variant writes the same bytes as the code *)
Theorem coloured_tag_harmless cf ts ck lvl msg :
  cf_structured cf = true ->
  cf_use_colour cf && cf_colour_on cf = false \/ ~ (1 <= lvl <= 4) ->
  dest_line_coloured_tag cf ts lvl msg = dest_line cf ts ck lvl msg.
Proof.
  intros Hs H. unfold dest_line_coloured_tag, dest_line. rewrite Hs.
  rewrite (write_level_uncoloured _ _ _ H). reflexivity.
Qed.

(* ---- plain branch: the formatted message is written verbatim before the final newline ------- *)
Theorem dest_line_plain cf ts ck lvl msg : cf_structured cf = false ->
  exists head, dest_line cf ts ck lvl msg = head ++ [32] ++ msg ++ [10].
Proof.
  intros Hs. unfold dest_line. rewrite Hs. eexists. rewrite app_assoc. reflexivity.
Qed.

(* ---- streams -------------------------------------------------------------------------------- *)
Lemma lines_app_line body rest : ~ In 10 body -> lines (body ++ 10 :: rest) = (body ++ [10]) :: lines rest.
Proof.
  induction body as [|c b IH]; intros Hn.
  - reflexivity.
  - cbn [app lines]. destruct (c =? 10) eqn:E.
    + exfalso. apply Hn. left. lia.
    + rewrite IH; [reflexivity|]. intros Hin. apply Hn. right. exact Hin.
Qed.

Definition good_rec (r : logrec) : Prop := bytes (lr_msg r) /\ plain (lr_ts r) = true.

(* C37_stream_lines *)
Theorem stream_lines cf rs : cf_structured cf = true -> Forall good_rec rs ->
  lines (stream cf rs) = map (rec_line cf) rs.
Proof.
  intros Hs H. induction H as [|r rs [Hb Hts] _ IH]; [reflexivity|].
  unfold stream in *. cbn [flat_map map].
  destruct (dest_line_parses cf (lr_ts r) (lr_clock r) (lr_level r) (lr_msg r) Hs Hb Hts) as [_ H1].
  apply one_line_spec in H1. destruct H1 as (body & Hbody & Hno).
  fold (rec_line cf r) in Hbody. rewrite Hbody.
  rewrite <- app_assoc. cbn [app]. rewrite (lines_app_line body _ Hno). rewrite IH. reflexivity.
Qed.

(* C37_stream_decodes *)
Theorem stream_decodes cf rs : cf_structured cf = true -> Forall good_rec rs ->
  map parse_line (lines (stream cf rs)) =
  map (fun r => Some [(key_timestamp, lr_ts r); (key_level, level_name (lr_level r));
                      (key_message, sanitize (lr_msg r))]) rs.
Proof.
  intros Hs H. rewrite (stream_lines cf rs Hs H). rewrite map_map.
  apply map_ext_in. intros r Hin. rewrite Forall_forall in H. destruct (H r Hin) as [Hb Hts].
  exact (proj1 (dest_line_parses cf (lr_ts r) (lr_clock r) (lr_level r) (lr_msg r) Hs Hb Hts)).
Qed.

(* ---- syslog ----------------------------------------------------------------------------------- *)
Theorem syslog_text lvl msg sev txt : syslog_record lvl msg = Some (sev, txt) ->
  1 <= lvl <= 4 /\ (txt = msg \/ txt = msg ++ [10]) /\ ends_with_nl txt = true.
Proof.
  unfold syslog_record, syslog_severity. intros H.
  assert (Hl : 1 <= lvl <= 4).
  { destruct (lvl =? 1) eqn:E1; [lia|]. destruct (lvl =? 2) eqn:E2; [lia|].
    destruct (lvl =? 3) eqn:E3; [lia|]. destruct (lvl =? 4) eqn:E4; [lia|]. discriminate H. }
  split; [exact Hl|].
  assert (Ht : txt = if ends_with_nl msg then msg else msg ++ [10]).
  { destruct (lvl =? 1); [congruence|]. destruct (lvl =? 2); [congruence|].
    destruct (lvl =? 3); [congruence|]. destruct (lvl =? 4); [congruence|]. discriminate H. }
  subst txt. destruct (ends_with_nl msg) eqn:E.
  - split; [left; reflexivity|exact E].
  - split; [right; reflexivity|]. unfold ends_with_nl. rewrite rev_app_distr. reflexivity.
Qed.

(* ---- examples ----------------------------------------------------------------------------------- *)
Definition ck_example : clock := Clock 2003 11 4 23 15 8.

Lemma dest_examples :
  let msg := [115; 101; 101; 100; 32; 34; 7] in
  (* plain, terminal with colours: ESC[90m2003/11/04 23:15:08 ESC[0mESC[0;36mDEBESC[0m seed... *)
  dest_line (Config 0 false true true) ts_example ck_example 1 msg =
    [27; 91; 57; 48; 109] ++ [50; 48; 48; 51; 47; 49; 49; 47; 48; 52; 32; 50; 51; 58; 49; 53; 58; 48; 56; 32] ++ [27; 91; 48; 109]
    ++ [27; 91; 48; 59; 51; 54; 109; 68; 69; 66; 27; 91; 48; 109] ++ [32] ++ msg ++ [10]
  /\ dest_line (Config 1 false true true) ts_example ck_example 4 msg =
    [50; 48; 48; 51; 47; 49; 49; 47; 48; 52; 32; 50; 51; 58; 49; 53; 58; 48; 56; 32; 69; 82; 82; 32] ++ msg ++ [10]
  /\ dest_line (Config 0 true true true) ts_example ck_example 1 msg = render ts_example 1 msg
  /\ parse_line (dest_line_coloured_tag (Config 0 true true true) ts_example 1 msg) = None
  /\ itoa 7 4 = [48; 48; 48; 55] /\ itoa 12345 2 = [49; 50; 51; 52; 53] /\ itoa 0 1 = [48]
  /\ lines [97; 10; 10; 98] = [[97; 10]; [10]; [98]]
  /\ syslog_record 3 [97] = Some (4, [97; 10]) /\ syslog_record 0 [97] = None.
Proof. vm_compute. repeat split. Qed.
