(* C08 — every known codec of the configuration round-trips; instance of the schema theorem. *)
From Coq Require Import List ZArith Bool Lia.
Require Import MTX.Lib.IntWrap MTX.Lib.Utf8 MTX.Model.C08_Scalars MTX.Model.C08_Net6 MTX.Model.C08_Schema MTX.Model.C08_ConfCodecs.
Require Import MTX.Proofs.C08_Dec MTX.Proofs.C08_Codecs MTX.Proofs.C08_Net6 MTX.Proofs.C08_Duration MTX.Proofs.C08_Schema.
Import ListNotations.
Local Open Scope Z_scope.

(* ---- AlwaysAvailableTrack: the alias struct is an instance of the schema theorem (it holds no codec
   type), validate() is a predicate on the decoded value *)
Lemma track_ty_ok : ty_ok codec track_ty_model = true /\ codecs_of codec track_ty_model = [].
Proof. vm_compute. split; reflexivity. Qed.

Theorem track_roundtrip c r n m :
  valid_utf8 c = true -> int64_lo <= r <= int64_hi -> int64_lo <= n <= int64_hi -> track_valid c r n = true ->
  track_dec (track_enc c r n m) = Some (XTrack c r n m) /\ track_enc c r n m <> JNull.
Proof.
  intros Hc Hr Hn Hv. destruct track_ty_ok as [Hok Hcs]. split.
  - unfold track_dec, track_enc.
    rewrite (schema_roundtrip codec cval (fun _ _ => JNull) (fun _ _ => None) (fun _ _ => True) czero track_ty_model Hok).
    + rewrite Hv. reflexivity.
    + intros k Hk. rewrite Hcs in Hk. contradiction.
    + cbn. repeat split; try assumption; lia.
  - unfold track_enc, track_ty_model. cbn. discriminate.
Qed.

(* validate() rejects every track that is not well-formed: the decoder returns valid tracks only *)
Lemma track_dec_valid j c r n m : track_dec j = Some (XTrack c r n m) -> track_valid c r n = true.
Proof.
  intros H. unfold track_dec in H.
  repeat match type of H with context [match ?x with _ => _ end] => destruct x eqn:?; try discriminate end.
  inversion H; subst. assumption.
Qed.

Example track_examples :
  track_enc s_MPEG4Audio 44100 2 false =
    JObj [(s_codec, JStr s_MPEG4Audio); (s_sampleRate, JInt 44100); (s_channelCount, JInt 2); (s_muLaw, JBool false)] /\
  track_dec (track_enc s_MPEG4Audio 44100 2 false) = Some (XTrack s_MPEG4Audio 44100 2 false) /\
  (* sampleRate must not be specified for H264 *)
  track_dec (track_enc s_H264 44100 0 false) = None /\
  track_dec (JObj [(s_codec, JStr s_G711); (s_sampleRate, JInt 8000); (s_channelCount, JInt 1)]) = Some (XTrack s_G711 8000 1 false) /\
  track_dec (JObj [(s_codec, JStr s_G711); (s_sampleRate, JInt 8000); (s_channelCount, JInt 1); ([120], JInt 1)]) = None /\
  track_dec JNull = None.
Proof. vm_compute. repeat split. Qed.

Section ConfCodecs.
  Variable cred_valid : list Z -> bool.

  Notation cenc := (cenc).
  Notation cdec := (cdec cred_valid).
  Notation cwf := (cwf cred_valid).

  Lemma mapM_jstr l : mapM jstr (map JStr l) = Some l.
  Proof. apply mapM_map. induction l; constructor; [reflexivity|assumption]. Qed.

  Lemma known_codec_ok c : known_codec c = true -> codec_ok codec cval cenc cdec cwf c.
  Proof.
    intros Hk x Hw. destruct c; try discriminate; destruct x; cbn [C08_ConfCodecs.cwf] in Hw; try contradiction;
      cbn [C08_ConfCodecs.cenc C08_ConfCodecs.cdec jtext]; (split; [|try discriminate]).
    - rewrite (dur_roundtrip d Hw). reflexivity.
    - rewrite (size_roundtrip_model n Hw). reflexivity.
    - unfold ipnet_unmarshal_full. rewrite (ipnet4_roundtrip ip ones Hw). reflexivity.
    - rewrite (ipnet6_roundtrip_full ip ones Hw). reflexivity.
    - rewrite Hw. reflexivity.
    - rewrite (enum_roundtrip e v Hw). reflexivity.
    - rewrite mapM_jstr, transports_roundtrip. reflexivity.
    - destruct Hw as (H1 & H2 & H3 & H4). apply (track_roundtrip tcodec rate chans mulaw H1 H2 H3 H4).
  Qed.

  Theorem conf_schema_roundtrip (t : ty codec) :
    ty_ok codec t = true -> forallb known_codec (codecs_of codec t) = true ->
    forall v, wf codec cval cwf t v -> dec codec cval cdec czero t (enc codec cval cenc t v) = Some v.
  Proof.
    intros Hok Hk. apply schema_roundtrip; [exact Hok|].
    intros c Hc. apply known_codec_ok. rewrite forallb_forall in Hk. apply Hk, Hc.
  Qed.

  Theorem conf_optional_roundtrip (fs : list (list Z * bool * ty codec)) vs :
    let t := TStruct fs in let v := VStruct vs in
    ty_ok codec t = true -> forallb known_codec (codecs_of codec t) = true ->
    wf codec cval cwf t v ->
    dec codec cval cdec czero (optionalize codec t) (enc codec cval cenc t v) = Some (lift codec cval t v) /\
    patch codec cval t v (lift codec cval t v) = v.
  Proof.
    cbv zeta. intros Hok Hk Hw. apply (optional_roundtrip codec cval cenc cdec cwf czero fs vs); try assumption.
    intros c Hc. apply known_codec_ok. rewrite forallb_forall in Hk. apply Hk, Hc.
  Qed.
End ConfCodecs.
