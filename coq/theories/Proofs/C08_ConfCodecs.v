(* C08 — every known codec of the configuration round-trips; instance of the schema theorem. *)
From Coq Require Import List ZArith Bool Lia.
Require Import MTX.Lib.IntWrap MTX.Lib.Utf8 MTX.Model.C08_Scalars MTX.Model.C08_Schema MTX.Model.C08_ConfCodecs.
Require Import MTX.Proofs.C08_Dec MTX.Proofs.C08_Codecs MTX.Proofs.C08_Duration MTX.Proofs.C08_Schema.
Import ListNotations.
Local Open Scope Z_scope.

Section ConfCodecs.
  Variable net6 : Type.
  Variable net6_print : net6 -> list Z.
  Variable net6_parse : list Z -> option net6.
  Variable cred_valid : list Z -> bool.
  Variable track : Type.
  Variable track_enc : track -> json.
  Variable track_dec : json -> option track.

  (* what is assumed of the oracles *)
  Hypothesis net6_ok : forall x, ipnet_unmarshal (net6_print x) = NV6 /\ net6_parse (net6_print x) = Some x.
  Hypothesis track_ok : forall x, track_dec (track_enc x) = Some x /\ track_enc x <> JNull.

  Notation cval := (cval net6 track).
  Notation cenc := (cenc net6 net6_print track track_enc).
  Notation cdec := (cdec net6 net6_parse cred_valid track track_dec).
  Notation cwf := (cwf net6 cred_valid track).
  Notation czero := (czero net6 track).

  Lemma mapM_jstr l : mapM jstr (map JStr l) = Some l.
  Proof. apply mapM_map. induction l; constructor; [reflexivity|assumption]. Qed.

  Lemma known_codec_ok c : known_codec c = true -> codec_ok codec cval cenc cdec cwf c.
  Proof.
    intros Hk x Hw. destruct c; try discriminate; destruct x; cbn [C08_ConfCodecs.cwf] in Hw; try contradiction;
      cbn [C08_ConfCodecs.cenc C08_ConfCodecs.cdec]; (split; [|try discriminate]).
    - rewrite (dur_roundtrip d Hw). reflexivity.
    - rewrite (size_roundtrip_model n Hw). reflexivity.
    - rewrite (ipnet4_roundtrip ip ones Hw). reflexivity.
    - destruct (net6_ok x) as [H1 H2]. rewrite H1, H2. reflexivity.
    - rewrite Hw. reflexivity.
    - rewrite (enum_roundtrip e v Hw). reflexivity.
    - rewrite mapM_jstr, transports_roundtrip. reflexivity.
    - destruct (track_ok x) as [H1 _]. destruct (track_enc x); rewrite H1; reflexivity.
    - destruct (track_ok x) as [_ H2]. exact H2.
  Qed.

  Theorem conf_schema_roundtrip (t : ty codec) :
    ty_ok codec t = true -> forallb known_codec (codecs_of codec t) = true ->
    forall v, wf codec cval cwf t v -> dec codec cval cdec czero t (enc codec cval cenc t v) = Some v.
  Proof.
    intros Hok Hk. apply schema_roundtrip; [exact Hok|].
    intros c Hc. apply known_codec_ok. rewrite forallb_forall in Hk. apply Hk, Hc.
  Qed.

  Theorem conf_optional_roundtrip (fs : list (list Z * bool * ty codec)) vs :
    let t := TStruct fs in let v := VStruct vs in
    ty_ok codec t = true -> forallb known_codec (codecs_of codec t) = true ->
    wf codec cval cwf t v ->
    dec codec cval cdec czero (optionalize codec t) (enc codec cval cenc t v) = Some (lift codec cval t v) /\
    patch codec cval t v (lift codec cval t v) = v.
  Proof.
    cbv zeta. intros Hok Hk Hw. apply (optional_roundtrip codec cval cenc cdec cwf czero fs vs); try assumption.
    intros c Hc. apply known_codec_ok. rewrite forallb_forall in Hk. apply Hk, Hc.
  Qed.
End ConfCodecs.
