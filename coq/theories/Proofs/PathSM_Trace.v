(* Path event loop: trace theorems of C20 (hook calls alternate along every history). *)
From Coq Require Import List ZArith Bool Lia.
Require Import MTX.Lib.Trace MTX.Model.PathSM MTX.Proofs.PathSM MTX.Proofs.PathSM_Attach MTX.Proofs.PathSM_List
  MTX.Proofs.PathSM_Thms MTX.Proofs.PathSM_Hooks.
Import ListNotations.
Local Open Scope Z_scope.

Lemma calls_lift fx k ops : forall s,
  inv_b fx s = true ->
  mon_run (alt_mon (cls_call k)) (open_of k s) (trace (step_gen fx) s ops)
  = Some (open_of k (final (step_gen fx) s ops)).
Proof.
  induction ops as [|o r IH]; intros s H; [reflexivity|].
  rewrite trace_cons, final_cons, mon_run_app, (hooks_step fx s o H k). apply IH. apply fin_step. exact H.
Qed.

(* initialize(): on an alwaysAvailable path the available pair is opened (nothing else is) *)
Lemma init_events_calls k cf :
  mon_run (alt_mon (cls_call k)) false (init_events cf) = Some (open_of k (init_state cf)).
Proof.
  rewrite mon_hev. unfold init_events, init_state, init_m.
  rewrite hev_bind, !hevs_whenM, hevs_set_available, hevs_handler_start.
  destruct cf as [st sd ? ? ? ? ? ? ? ? a]. destruct k, a, st, sd; reflexivity.
Qed.

(* the whole trace of a history (initialize() included), for each hook pair: calls alternate open / close,
   starting with open, and the pair is open at the end iff the state says so *)
Lemma c20_calls fx cf ops k :
  conf_ok cf = true ->
  mon_run (alt_mon (cls_call k)) false (snd (run_gen fx cf ops))
  = Some (open_of k (fst (run_gen fx cf ops))).
Proof.
  intros Hc. unfold run_gen. cbn [fst snd]. rewrite mon_run_app, init_events_calls.
  apply calls_lift. apply inv_init. exact Hc.
Qed.

Lemma c20_alternates fx cf ops k :
  conf_ok cf = true -> alternates (cls_call k) (snd (run_gen fx cf ops)).
Proof. intros Hc. apply alt_from_iff. eexists. apply c20_calls. exact Hc. Qed.

(* a closed path has no open pair *)
Lemma c20_closed fx cf ops k :
  conf_ok cf = true -> s_closed (fst (run_gen fx cf ops)) = true ->
  alternates_closed (cls_call k) (snd (run_gen fx cf ops)).
Proof.
  intros Hc Hcl. unfold alternates_closed. rewrite c20_calls by exact Hc. f_equal.
  pose proof (inv_run fx cf ops Hc) as [Hb _]. unfold run_gen in Hcl. cbn [fst] in Hcl. unfold run_gen. cbn [fst].
  destruct (closed_facts _ _ Hb Hcl) as (_ & A & _ & _ & B & C & _).
  destruct k; cbn; [rewrite A; reflexivity|exact B|exact C].
Qed.

(* Close closes the path, and a closed path stays closed *)
Lemma close_closes fx s : s_closed (fst (step_gen fx s Close)) = true.
Proof.
  unfold step_gen. destruct (s_closed s) eqn:E; [exact E|].
  unfold do_close. rewrite !fst_bind. cbn [fst modify]. destruct (fst _); reflexivity.
Qed.
Lemma closed_stays fx s o : s_closed s = true -> s_closed (fst (step_gen fx s o)) = true.
Proof. intros H. unfold step_gen. rewrite H. exact H. Qed.
Lemma closed_run fx ops : forall s, s_closed s = true -> s_closed (final (step_gen fx) s ops) = true.
Proof. induction ops as [|o r IH]; intros s H; [exact H|]. rewrite final_cons. apply IH, closed_stays, H. Qed.

Lemma c20_closed_after_close fx cf pre post k :
  conf_ok cf = true ->
  alternates_closed (cls_call k) (snd (run_gen fx cf (pre ++ Close :: post))).
Proof.
  intros Hc. apply c20_closed; [exact Hc|]. unfold run_gen. cbn [fst].
  rewrite final_app, final_cons. apply closed_run, close_closes.
Qed.
