(* C10: the generated list of error sites of Conf.Validate / Path.validate agrees with the hand-written table. *)
From Coq Require Import List ZArith Bool.
Require Import MTX.Model.C10_Load MTX.Model.C10_Sites MTXGen.C10_ErrSites.

Lemma sites_tie_ok : sites_tie sites = true.
Proof. vm_compute. reflexivity. Qed.

Lemma sites_counts : (n_modelled, n_oracle) = (89, 19)%nat.
Proof. vm_compute. reflexivity. Qed.
