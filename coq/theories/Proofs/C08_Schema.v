(* C08 — schema-generic round trip: dec t (enc t v) = Some v, by structural induction on the type. *)
From Coq Require Import List ZArith Bool Lia.
Require Import MTX.Lib.Utf8 MTX.Model.C08_Schema.
Import ListNotations.
Local Open Scope Z_scope.

Section SchemaProofs.
  Variable codec : Type.
  Variable cval : Type.
  Variable cenc : codec -> cval -> json.
  Variable cdec : codec -> json -> option cval.
  Variable cwf : codec -> cval -> Prop.
  Variable czero : codec -> cval.

  Notation ty := (ty codec).
  Notation value := (value cval).
  Notation enc := (enc codec cval cenc).
  Notation dec := (dec codec cval cdec czero).
  Notation wf := (wf codec cval cwf).
  Notation zero := (zero codec cval czero).
  Notation ty_ok := (ty_ok codec).
  Notation codecs_of := (codecs_of codec).
  Notation codec_ok := (codec_ok codec cval cenc cdec cwf).
  Notation codecs_ok := (codecs_ok codec cval cenc cdec cwf).
  Notation field := (list Z * bool * ty)%type.

  (* ---- induction principle for the nested type *)
  Section Ind.
    Variable P : ty -> Prop.
    Hypothesis HB : P TBool.
    Hypothesis HI : forall lo hi, P (TInt lo hi).
    Hypothesis HF : P TFloat.
    Hypothesis HS : P TString.
    Hypothesis HC : forall c, P (TCodec c).
    Hypothesis HL : forall t, P t -> P (TList t).
    Hypothesis HO : forall t, P t -> P (TOpt t).
    Hypothesis HM : forall t, P t -> P (TMap t).
    Hypothesis HSt : forall fs : list field, Forall (fun f => P (snd f)) fs -> P (TStruct fs).

    Fixpoint ty_ind' (t : ty) : P t :=
      match t with
      | TBool => HB
      | TInt lo hi => HI lo hi
      | TFloat => HF
      | TString => HS
      | TCodec c => HC c
      | TList t' => HL t' (ty_ind' t')
      | TOpt t' => HO t' (ty_ind' t')
      | TMap t' => HM t' (ty_ind' t')
      | TStruct fs =>
          HSt fs ((fix go (fs : list field) : Forall (fun f => P (snd f)) fs :=
                     match fs with
                     | [] => Forall_nil _
                     | f :: r => Forall_cons f (ty_ind' (snd f)) (go r)
                     end) fs)
      end.
  End Ind.

  (* ---- the nested fixpoints as top-level functions *)
  Fixpoint enc_fields (fs : list field) (vs : list value) : list (list Z * json) :=
    match fs, vs with
    | f :: fs', fv :: vs' =>
        if snd (fst f) && is_empty cval fv then enc_fields fs' vs'
        else (fst (fst f), enc (snd f) fv) :: enc_fields fs' vs'
    | _, _ => []
    end.

  Lemma enc_struct fs vs : enc (TStruct fs) (VStruct vs) = JObj (enc_fields fs vs).
  Proof.
    reflexivity.
  Qed.

  Fixpoint dec_fields (m : list (list Z * json)) (fs : list field) : option (list value) :=
    match fs with
    | [] => Some []
    | f :: fs' =>
        match (match lookup_last (fst (fst f)) m with
               | Some j' => dec (snd f) j'
               | None => Some (zero (snd f))
               end), dec_fields m fs' with
        | Some v, Some vs => Some (v :: vs)
        | _, _ => None
        end
    end.

  Lemma dec_struct fs m :
    dec (TStruct fs) (JObj m) =
    if forallb (fun kv => known codec (fst kv) fs) m then option_map VStruct (dec_fields m fs) else None.
  Proof.
    cbn [C08_Schema.dec]. destruct (forallb _ m); [|reflexivity]. f_equal.
    induction fs as [|f fs IH]; [reflexivity|]. cbn [dec_fields]. rewrite <- IH. reflexivity.
  Qed.

  Fixpoint wf_fields (fs : list field) (vs : list value) : Prop :=
    match fs, vs with
    | [], [] => True
    | f :: fs', fv :: vs' => wf (snd f) fv /\ wf_fields fs' vs'
    | _, _ => False
    end.

  Lemma wf_struct fs vs : wf (TStruct fs) (VStruct vs) <-> wf_fields fs vs.
  Proof.
    split; intros H; exact H.
  Qed.

  Fixpoint ok_fields (fs : list field) : bool :=
    match fs with
    | [] => true
    | f :: fs' => (negb (snd (fst f)) || is_opt codec (snd f)) && ty_ok (snd f) && ok_fields fs'
    end.

  Lemma ty_ok_struct fs :
    ty_ok (TStruct fs) = nodup_names (map (fun f : field => fst (fst f)) fs) && ok_fields fs.
  Proof.
    reflexivity.
  Qed.

  Fixpoint codecs_fields (fs : list field) : list codec :=
    match fs with [] => [] | f :: fs' => codecs_of (snd f) ++ codecs_fields fs' end.

  Lemma codecs_struct fs : codecs_of (TStruct fs) = codecs_fields fs.
  Proof.
    reflexivity.
  Qed.

  Fixpoint wf_list (t : ty) (l : list value) : Prop :=
    match l with [] => True | x :: r => wf t x /\ wf_list t r end.

  Lemma wf_list_eq t l : wf (TList t) (VList l) <-> wf_list t l.
  Proof. cbn [C08_Schema.wf]. induction l as [|x r IH]; simpl; tauto. Qed.

  Fixpoint wf_map (t : ty) (m : list (list Z * value)) : Prop :=
    match m with [] => True | kv :: r => wf t (snd kv) /\ wf_map t r end.

  Lemma wf_map_eq t m : wf (TMap t) (VMap m) <-> no_dup_keys cval m /\ wf_map t m.
  Proof.
    cbn [C08_Schema.wf]. apply and_iff_compat_l. induction m as [|x r IH]; simpl; tauto.
  Qed.

  (* ---- small facts *)
  Lemma mapM_map {A B} (f : A -> option B) (g : B -> A) l :
    Forall (fun x => f (g x) = Some x) l -> mapM f (map g l) = Some l.
  Proof.
    induction 1 as [|x l Hx _ IH]; [reflexivity|]. cbn [map mapM]. rewrite Hx, IH. reflexivity.
  Qed.

  Lemma list_eqb_false a b : a <> b -> list_eqb a b = false.
  Proof. intros H. destruct (list_eqb a b) eqn:E; [|reflexivity]. apply list_eqb_eq in E. contradiction. Qed.

  Lemma existsb_eqb_false (x : list Z) r : existsb (list_eqb x) r = false -> ~ In x r.
  Proof.
    intros H Hin. assert (existsb (list_eqb x) r = true); [|congruence].
    apply existsb_exists. exists x. split; [exact Hin|apply list_eqb_refl].
  Qed.

  Lemma lookup_last_notin k m : ~ In k (map fst m) -> lookup_last k m = None.
  Proof.
    induction m as [|[k' j] r IH]; [reflexivity|]. cbn [map fst In lookup_last]. intros H.
    rewrite IH by tauto. rewrite list_eqb_false; [reflexivity|]. intros ->. tauto.
  Qed.

  Lemma keys_enc_fields fs : forall vs k,
    In k (map fst (enc_fields fs vs)) -> In k (map (fun f : field => fst (fst f)) fs).
  Proof.
    induction fs as [|f fs IH]; intros vs k H; [destruct vs; exact H|].
    destruct vs as [|fv vs]; [contradiction|]. cbn [enc_fields] in H. cbn [map].
    destruct (snd (fst f) && is_empty cval fv).
    - right. eapply IH. exact H.
    - cbn [map fst In] in H. destruct H as [H|H]; [left; exact H|right; eapply IH; exact H].
  Qed.

  Lemma known_in k (fs : list field) : In k (map (fun f : field => fst (fst f)) fs) -> known codec k fs = true.
  Proof.
    intros H. unfold known. apply existsb_exists. apply in_map_iff in H as (f & <- & Hf).
    exists f. split; [exact Hf|apply list_eqb_refl].
  Qed.

  (* what the decoder finds under a field's key in the object written by enc_fields *)
  Definition entry (f : field) (v : value) : option json :=
    if snd (fst f) && is_empty cval v then None else Some (enc (snd f) v).

  Lemma lookup_enc_fields fs : forall vs,
    nodup_names (map (fun f : field => fst (fst f)) fs) = true ->
    forall f v, In (f, v) (combine fs vs) -> lookup_last (fst (fst f)) (enc_fields fs vs) = entry f v.
  Proof.
    induction fs as [|f0 fs IH]; intros vs Hnd f v Hin; [contradiction|].
    destruct vs as [|v0 vs]; [contradiction|].
    cbn [map nodup_names] in Hnd. apply andb_true_iff in Hnd as [Hn0 Hnd].
    apply negb_true_iff, existsb_eqb_false in Hn0.
    assert (Hrest : ~ In (fst (fst f0)) (map fst (enc_fields fs vs))).
    { intros H. apply Hn0. eapply keys_enc_fields. exact H. }
    cbn [combine In] in Hin. cbn [enc_fields]. destruct Hin as [Heq|Hin].
    - inversion Heq; subst f v. unfold entry.
      destruct (snd (fst f0) && is_empty cval v0).
      + apply lookup_last_notin, Hrest.
      + cbn [lookup_last]. rewrite (lookup_last_notin _ _ Hrest), list_eqb_refl. reflexivity.
    - pose proof (IH vs Hnd f v Hin) as Hl.
      destruct (snd (fst f0) && is_empty cval v0); [exact Hl|].
      cbn [lookup_last]. rewrite Hl. destruct (entry f v); [reflexivity|].
      rewrite list_eqb_false; [reflexivity|]. intros Heq. apply Hn0. rewrite Heq.
      apply in_map_iff. exists f. split; [reflexivity|]. eapply in_combine_l. exact Hin.
  Qed.

  (* ---- values of non-pointer types are never written as null *)
  Lemma enc_nonnull t v :
    is_opt codec t = false -> codecs_ok t -> wf t v -> enc t v <> JNull.
  Proof.
    intros Ho Hc Hw. destruct t; try discriminate; destruct v; cbn [C08_Schema.wf] in Hw; try contradiction;
      try (cbn [C08_Schema.enc]; discriminate).
    cbn [C08_Schema.enc]. apply (Hc c); [left; reflexivity|exact Hw].
  Qed.

  (* ---- decoding the fields *)
  Lemma dec_fields_ok m : forall fs vs,
    ok_fields fs = true -> wf_fields fs vs ->
    Forall (fun f : field => forall v, wf (snd f) v -> dec (snd f) (enc (snd f) v) = Some v) fs ->
    (forall f v, In (f, v) (combine fs vs) -> lookup_last (fst (fst f)) m = entry f v) ->
    dec_fields m fs = Some vs.
  Proof.
    induction fs as [|f fs IH]; intros vs Hok Hw HIH Hlk.
    - destruct vs; [reflexivity|contradiction].
    - destruct vs as [|v vs]; [contradiction|]. cbn [wf_fields] in Hw. destruct Hw as [Hwv Hw].
      cbn [ok_fields] in Hok. apply andb_true_iff in Hok as [Hok Hokr]. apply andb_true_iff in Hok as [Hom Hokt].
      inversion HIH as [|? ? Hf HIHr]; subst.
      cbn [dec_fields]. rewrite (Hlk f v (or_introl eq_refl)).
      rewrite (IH vs Hokr Hw HIHr) by (intros f' v' H'; apply Hlk; right; exact H').
      unfold entry. destruct (snd (fst f) && is_empty cval v) eqn:E.
      + apply andb_true_iff in E as [Eom Eem]. rewrite Eom in Hom. cbn [negb orb] in Hom.
        destruct (snd f) eqn:Et; try discriminate. cbn [C08_Schema.zero].
        destruct v; cbn [C08_Schema.wf] in Hwv; try contradiction; [reflexivity|discriminate].
      + rewrite (Hf v Hwv). reflexivity.
  Qed.

  (* ---- the schema-generic theorem *)
  Theorem schema_roundtrip : forall t, ty_ok t = true -> codecs_ok t ->
    forall v, wf t v -> dec t (enc t v) = Some v.
  Proof.
    induction t as [| lo hi | | | c | t IH | t IH | t IH | fs IH] using ty_ind'; intros Hok Hc v Hw.
    - destruct v; cbn [C08_Schema.wf] in Hw; try contradiction. reflexivity.
    - destruct v; cbn [C08_Schema.wf] in Hw; try contradiction. cbn [C08_Schema.enc C08_Schema.dec].
      replace ((lo <=? z) && (z <=? hi)) with true by lia. reflexivity.
    - destruct v; cbn [C08_Schema.wf] in Hw; try contradiction. reflexivity.
    - destruct v; cbn [C08_Schema.wf] in Hw; try contradiction. reflexivity.
    - destruct v; cbn [C08_Schema.wf] in Hw; try contradiction. cbn [C08_Schema.enc C08_Schema.dec].
      destruct (Hc c (or_introl eq_refl) x Hw) as [H _]. rewrite H. reflexivity.
    - (* list *)
      destruct v; try (cbn [C08_Schema.wf] in Hw; contradiction).
      apply wf_list_eq in Hw. cbn [C08_Schema.enc C08_Schema.dec]. cbn [C08_Schema.ty_ok] in Hok.
      rewrite mapM_map; [reflexivity|].
      induction l as [|x r IHl]; [constructor|]. destruct Hw as [Hx Hr]. constructor; [|apply IHl, Hr].
      apply IH; assumption.
    - (* pointer *)
      cbn [C08_Schema.ty_ok] in Hok. apply andb_true_iff in Hok as [Hno Hokt]. apply negb_true_iff in Hno.
      destruct v; try (cbn [C08_Schema.wf] in Hw; contradiction).
      + reflexivity.
      + cbn [C08_Schema.wf] in Hw. cbn [C08_Schema.enc].
        pose proof (enc_nonnull t v Hno Hc Hw) as Hnn. pose proof (IH Hokt Hc v Hw) as Hd.
        cbn [C08_Schema.dec]. destruct (enc t v); try contradiction; rewrite Hd; reflexivity.
    - (* map *)
      destruct v; try (cbn [C08_Schema.wf] in Hw; contradiction).
      apply wf_map_eq in Hw. destruct Hw as [_ Hw]. cbn [C08_Schema.enc C08_Schema.dec].
      cbn [C08_Schema.ty_ok] in Hok. f_equal.
      assert (Hm : mapM (fun kv : list Z * json => option_map (pair (fst kv)) (dec t (snd kv)))
                     (map (fun kv : list Z * value => (fst kv, enc t (snd kv))) m) = Some m).
      { apply mapM_map. induction m as [|[k x] r IHm]; [constructor|]. destruct Hw as [Hx Hr].
        constructor; [|apply IHm, Hr]. cbn [fst snd]. cbn [snd] in Hx. rewrite (IH Hok Hc x Hx). reflexivity. }
      destruct m as [|kv0 m']; [reflexivity|]. rewrite Hm. reflexivity.
    - (* struct *)
      destruct v; try (cbn [C08_Schema.wf] in Hw; contradiction).
      apply wf_struct in Hw. rewrite enc_struct, dec_struct.
      rewrite ty_ok_struct in Hok. apply andb_true_iff in Hok as [Hnd Hokf].
      assert (Hknown : forallb (fun kv : list Z * json => known codec (fst kv) fs) (enc_fields fs vs) = true).
      { apply forallb_forall. intros kv Hkv. apply known_in. eapply keys_enc_fields.
        apply in_map_iff. exists kv. split; [reflexivity|exact Hkv]. }
      rewrite Hknown.
      rewrite (dec_fields_ok (enc_fields fs vs) fs vs Hokf Hw); [reflexivity| |].
      + (* induction hypotheses with their side conditions discharged *)
        clear Hknown Hw Hnd. unfold codecs_ok in Hc. rewrite codecs_struct in Hc.
        induction fs as [|f fs IHfs]; [constructor|].
        inversion IH as [|? ? Hf HIHr]; subst.
        cbn [ok_fields] in Hokf. apply andb_true_iff in Hokf as [Hok1 Hokr]. apply andb_true_iff in Hok1 as [_ Hokt].
        constructor.
        * intros v Hv. apply Hf; [exact Hokt| |exact Hv]. intros c Hin. apply Hc. cbn [codecs_fields].
          apply in_or_app. left. exact Hin.
        * apply IHfs; [exact HIHr|exact Hokr|]. intros c Hin. apply Hc. cbn [codecs_fields].
          apply in_or_app. right. exact Hin.
      + apply lookup_enc_fields, Hnd.
  Qed.

  (* ---- the optional view (API PATCH / replace): decode what enc wrote into the all-pointer struct, patch *)
  Definition viewf (f : field) : field :=
    (fst (fst f), true, if is_opt codec (snd f) then snd f else TOpt (snd f)).

  Lemma optionalize_struct fs : optionalize codec (TStruct fs) = TStruct (map viewf fs).
  Proof. reflexivity. Qed.

  Lemma dec_fields_view m : forall fs vs,
    ok_fields fs = true -> wf_fields fs vs ->
    Forall (fun f : field => forall v, wf (snd f) v -> dec (snd f) (enc (snd f) v) = Some v) fs ->
    Forall (fun f : field => is_opt codec (snd f) = false -> forall v, wf (snd f) v -> enc (snd f) v <> JNull) fs ->
    (forall f v, In (f, v) (combine fs vs) -> lookup_last (fst (fst f)) m = entry f v) ->
    dec_fields m (map viewf fs) = Some (lift_fields codec cval fs vs).
  Proof.
    induction fs as [|f fs IH]; intros vs Hok Hw HIH Hnn Hlk.
    - destruct vs; [reflexivity|contradiction].
    - destruct vs as [|v vs]; [contradiction|]. cbn [wf_fields] in Hw. destruct Hw as [Hwv Hw].
      cbn [ok_fields] in Hok. apply andb_true_iff in Hok as [Hok Hokr]. apply andb_true_iff in Hok as [Hom Hokt].
      inversion HIH as [|? ? Hf HIHr]; subst. inversion Hnn as [|? ? Hn Hnnr]; subst.
      cbn [map dec_fields lift_fields]. unfold viewf at 1 2 3. cbn [fst snd].
      rewrite (Hlk f v (or_introl eq_refl)).
      rewrite (IH vs Hokr Hw HIHr Hnnr) by (intros f' v' H'; apply Hlk; right; exact H').
      unfold entry. destruct (snd (fst f) && is_empty cval v) eqn:E.
      + (* omitted in the encoding: a nil pointer *)
        apply andb_true_iff in E as [Eom Eem]. rewrite Eom in Hom. cbn [negb orb] in Hom. rewrite Hom.
        destruct (snd f) eqn:Et; try discriminate. cbn [C08_Schema.zero].
        destruct v; cbn [C08_Schema.wf] in Hwv; try contradiction; [reflexivity|discriminate].
      + destruct (is_opt codec (snd f)) eqn:Eo.
        * rewrite (Hf v Hwv). reflexivity.
        * pose proof (Hn eq_refl v Hwv) as Hnz. pose proof (Hf v Hwv) as Hd.
          cbn [C08_Schema.dec]. destruct (enc (snd f) v); try contradiction; rewrite Hd; reflexivity.
  Qed.

  Lemma patch_lift fs : forall vs, wf_fields fs vs -> patch_fields codec cval fs vs (lift_fields codec cval fs vs) = vs.
  Proof.
    induction fs as [|f fs IH]; intros vs Hw.
    - destruct vs; [reflexivity|contradiction].
    - destruct vs as [|v vs]; [contradiction|]. destruct Hw as [Hwv Hw].
      cbn [lift_fields patch_fields]. rewrite (IH vs Hw). f_equal.
      destruct (is_opt codec (snd f)) eqn:Eo; [|reflexivity].
      destruct (snd f) eqn:Et; try discriminate.
      destruct v; cbn [C08_Schema.wf] in Hwv; try contradiction; reflexivity.
  Qed.

  Lemma wf_lift fs : forall vs, wf_fields fs vs ->
    wf_fields (map (fun f : field => (fst (fst f), true, if is_opt codec (snd f) then snd f else TOpt (snd f))) fs)
              (lift_fields codec cval fs vs).
  Proof.
    induction fs as [|f fs IH]; intros vs Hw.
    - destruct vs; [exact I|contradiction].
    - destruct vs as [|v vs]; [contradiction|]. destruct Hw as [Hwv Hw].
      cbn [map lift_fields wf_fields snd]. split; [|apply IH, Hw].
      destruct (is_opt codec (snd f)); [exact Hwv|]. cbn [C08_Schema.wf]. exact Hwv.
  Qed.

  Theorem optional_roundtrip fs vs :
    let t := TStruct fs in let v := VStruct vs in
    ty_ok t = true -> codecs_ok t -> wf t v ->
    dec (optionalize codec t) (enc t v) = Some (lift codec cval t v) /\
    patch codec cval t v (lift codec cval t v) = v.
  Proof.
    cbv zeta. intros Hok Hc Hw. apply wf_struct in Hw.
    rewrite ty_ok_struct in Hok. apply andb_true_iff in Hok as [Hnd Hokf].
    split.
    - rewrite optionalize_struct, enc_struct, dec_struct. cbn [lift].
      assert (Hknown : forallb (fun kv : list Z * json => known codec (fst kv) (map viewf fs)) (enc_fields fs vs) = true).
      { apply forallb_forall. intros kv Hkv. apply known_in. rewrite map_map. cbn [viewf fst].
        eapply keys_enc_fields. apply in_map_iff. exists kv. split; [reflexivity|exact Hkv]. }
      rewrite Hknown.
      assert (Hsub : forall f, In f fs -> ty_ok (snd f) = true /\ codecs_ok (snd f)).
      { unfold codecs_ok in Hc. rewrite codecs_struct in Hc. clear Hknown Hw Hnd.
        induction fs as [|f0 fs0 IHfs]; intros f Hin; [contradiction|].
        cbn [ok_fields] in Hokf. apply andb_true_iff in Hokf as [Hok1 Hokr]. apply andb_true_iff in Hok1 as [_ Hokt].
        destruct Hin as [->|Hin].
        - split; [exact Hokt|]. intros c Hcin. apply Hc. cbn [codecs_fields]. apply in_or_app. left. exact Hcin.
        - apply IHfs; [exact Hokr| |exact Hin]. intros c Hcin. apply Hc. cbn [codecs_fields]. apply in_or_app. right. exact Hcin. }
      rewrite (dec_fields_view (enc_fields fs vs) fs vs Hokf Hw); [reflexivity| | |].
      + apply Forall_forall. intros f Hin v Hv. destruct (Hsub f Hin) as [H1 H2]. apply schema_roundtrip; assumption.
      + apply Forall_forall. intros f Hin Ho v Hv. destruct (Hsub f Hin) as [H1 H2]. apply enc_nonnull; assumption.
      + apply lookup_enc_fields, Hnd.
    - cbn [patch lift]. rewrite (patch_lift fs vs Hw). reflexivity.
  Qed.
End SchemaProofs.
