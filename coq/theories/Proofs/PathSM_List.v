(* Path event loop: the list part of the invariant (readers without duplicates, reader limit), handler by
   handler, and the full invariant for every operation and history. *)
From Coq Require Import List ZArith Bool Lia.
Require Import MTX.Lib.Trace MTX.Model.PathSM MTX.Proofs.PathSM MTX.Proofs.PathSM_Attach.
Import ListNotations.
Local Open Scope Z_scope.

Definition PresAt (m : M) (s : pstate) : Prop :=
  s_conf (fst (m s)) = s_conf s /\ (ListInv s -> ListInv (fst (m s))).
Definition Pres (m : M) : Prop := forall s, PresAt m s.

Lemma pres_bind f g : Pres f -> Pres g -> Pres (f ;; g).
Proof.
  intros Hf Hg s. unfold PresAt. rewrite fst_bind.
  destruct (Hf s) as [A1 A2], (Hg (fst (f s))) as [B1 B2]. split; [congruence|auto].
Qed.
Lemma pres_when c m : Pres m -> Pres (whenM c m).
Proof. intros H s. unfold PresAt, whenM. destruct (c s); [apply H|split; auto]. Qed.
Lemma pres_frame (m : M) :
  (forall s, s_conf (fst (m s)) = s_conf s /\ s_readers (fst (m s)) = s_readers s) -> Pres m.
Proof.
  intros H s. destruct (H s) as [A B]. split; [exact A|]. unfold ListInv. rewrite A, B. auto.
Qed.

Ltac frame :=
  apply pres_frame; let s := fresh "s" in intros s; destruct s; cbn;
  repeat match goal with |- context [if ?c then _ else _] => destruct c; cbn end;
  split; reflexivity.

Lemma pres_ret : Pres ret. Proof. frame. Qed.
Lemma pres_emit e : Pres (emit e). Proof. frame. Qed.
Lemma pres_hook_open k : Pres (hook_open k). Proof. frame. Qed.
Lemma pres_hook_close k : Pres (hook_close k). Proof. frame. Qed.
Lemma pres_panic : Pres panic. Proof. frame. Qed.
Lemma pres_set_offline : Pres set_offline. Proof. unfold set_offline, bindM, modify, hook_close. frame. Qed.
Lemma pres_set_online : Pres set_online.
Proof. unfold set_online, set_offline, bindM, modify, hook_close, hook_open. frame. Qed.
Lemma pres_set_available : Pres set_available.
Proof. unfold set_available, set_online, set_offline, whenM, not_aa, aa, bindM, modify, hook_close, hook_open, emit. frame. Qed.
Lemma pres_call_unavailable : Pres call_unavailable.
Proof. unfold call_unavailable, hook_close, panic. frame. Qed.
Lemma pres_handler_start : Pres handler_start. Proof. unfold handler_start, panic. frame. Qed.
Lemma pres_handler_stop : Pres handler_stop. Proof. unfold handler_stop, panic. frame. Qed.
Lemma pres_ss_start : Pres ss_start. Proof. unfold ss_start, handler_start, panic, bindM, modify. frame. Qed.
Lemma pres_ss_schedule_close : Pres ss_schedule_close. Proof. unfold ss_schedule_close, modify. frame. Qed.
Lemma pres_ss_stop : Pres ss_stop.
Proof. unfold ss_stop, handler_stop, panic, whenM, bindM, modify. frame. Qed.
Lemma pres_pub_start : Pres pub_start. Proof. unfold pub_start, hook_open, bindM, modify. frame. Qed.
Lemma pres_pub_schedule_close : Pres pub_schedule_close. Proof. unfold pub_schedule_close, modify. frame. Qed.
Lemma pres_pub_stop : Pres pub_stop.
Proof. unfold pub_stop, hook_close, panic, whenM, bindM, modify. frame. Qed.
Lemma pres_fail_on_hold c : Pres (fail_on_hold c). Proof. unfold fail_on_hold. frame. Qed.
Lemma pres_modify_frame f :
  (forall s, s_conf (f s) = s_conf s /\ s_readers (f s) = s_readers s) -> Pres (modify f).
Proof. intros H. apply pres_frame. intros s. apply H. Qed.

Lemma listinv_nil s : ListInv (set_readers [] s).
Proof. destruct s; split; cbn; [constructor|intros _; lia]. Qed.

Lemma pres_set_not_available : Pres set_not_available.
Proof.
  unfold set_not_available.
  apply pres_bind; [apply pres_emit|]. apply pres_bind; [apply pres_set_offline|].
  apply pres_bind.
  - intros s. split; [destruct s; reflexivity|]. intros _. apply listinv_nil.
  - apply pres_bind; [apply pres_call_unavailable|]. apply pres_modify_frame. intros s; destruct s; split; reflexivity.
Qed.

Lemma mem_in r l : mem r l = true <-> In r l.
Proof.
  unfold mem. rewrite existsb_exists. split.
  - intros (x & Hx & E). apply Z.eqb_eq in E. subst. exact Hx.
  - intros H. exists r. split; [exact H|apply Z.eqb_refl].
Qed.

Lemma bump_conf_readers s :
  s_conf (bump_on_demand s) = s_conf s /\ s_readers (bump_on_demand s) = s_readers s.
Proof.
  destruct s as [cf ? ? ? ? ? ? ? sst ? ? ? ? pst ? ? ? ? ? ?]. unfold bump_on_demand. cbn.
  destruct (od_static cf); [destruct sst; split; reflexivity|].
  destruct (od_pub cf); [destruct pst; split; reflexivity|split; reflexivity].
Qed.

Lemma nodup_snoc (l : list Z) r : NoDup l -> ~ In r l -> NoDup (l ++ [r]).
Proof.
  induction 1 as [|x l Hx Hl IH]; cbn; intros Hn.
  - constructor; [intros []|constructor].
  - constructor.
    + rewrite in_app_iff. intros [H1|[H1|[]]]; [contradiction|]. subst. apply Hn. left; reflexivity.
    + apply IH. intros Hr. apply Hn. right; exact Hr.
Qed.

Lemma pres_add_reader_post q r : Pres (add_reader_post q r).
Proof.
  intros s. unfold PresAt, add_reader_post.
  destruct (mem r (s_readers s)) eqn:Em; [split; auto|].
  destruct (negb (c_maxr (s_conf s) =? 0) && (c_maxr (s_conf s) <=? Z.of_nat (length (s_readers s)))) eqn:Ec;
    [split; auto|].
  cbn [fst]. destruct (bump_conf_readers (set_readers (s_readers s ++ [r]) s)) as [A B].
  split; [rewrite A; destruct s; reflexivity|].
  intros [Hn Hb]. unfold ListInv. rewrite A, B.
  replace (s_conf (set_readers (s_readers s ++ [r]) s)) with (s_conf s) by (destruct s; reflexivity).
  replace (s_readers (set_readers (s_readers s ++ [r]) s)) with (s_readers s ++ [r]) by (destruct s; reflexivity).
  split.
  - apply nodup_snoc; [exact Hn|]. intros Hin. apply mem_in in Hin. congruence.
  - intros Hne. specialize (Hb Hne). rewrite app_length. cbn [length].
    apply andb_false_iff in Ec. destruct Ec as [Ec|Ec].
    + apply negb_false_iff, Z.eqb_eq in Ec. contradiction.
    + apply Z.leb_gt in Ec. lia.
Qed.

Lemma pres_add_readers_post l : Pres (add_readers_post l).
Proof.
  induction l as [|[q r] l IH]; cbn [add_readers_post]; [apply pres_ret|].
  apply pres_bind; [apply pres_add_reader_post|exact IH].
Qed.

Ltac setter_frame := apply pres_modify_frame; let t := fresh "t" in intros t; destruct t; split; reflexivity.

Lemma pres_consume : Pres consume_on_hold.
Proof.
  intros s. unfold consume_on_hold.
  apply pres_bind; [|apply pres_bind; [apply pres_add_readers_post|setter_frame]].
  apply pres_frame. intros t. destruct t; split; reflexivity.
Qed.

Lemma pres_source_gone : Pres source_gone.
Proof.
  assert (P : Pres (set_offline ;; start_offline)).
  { apply (pres_bind _ _ pres_set_offline). unfold start_offline. setter_frame. }
  intros s. unfold PresAt, source_gone. destruct (aa s); [apply P|apply pres_set_not_available].
Qed.
Lemma pres_execute_remove_publisher : Pres execute_remove_publisher.
Proof. unfold execute_remove_publisher. apply pres_bind; [apply pres_source_gone|setter_frame]. Qed.

Ltac pres_auto :=
  repeat first
    [ apply pres_emit | apply pres_ret
    | apply pres_set_not_available | apply pres_set_available | apply pres_set_offline | apply pres_set_online
    | apply pres_ss_start | apply pres_ss_stop | apply pres_ss_schedule_close
    | apply pres_pub_start | apply pres_pub_stop | apply pres_pub_schedule_close
    | apply pres_fail_on_hold | apply pres_consume | apply pres_execute_remove_publisher | apply pres_source_gone
    | apply pres_handler_stop | apply pres_handler_start | apply pres_hook_close | apply pres_hook_open
    | apply pres_call_unavailable | apply pres_panic | apply pres_add_reader_post
    | apply pres_bind | apply pres_when
    | setter_frame ].

Lemma pres_same e : Pres (fun t => (t, e)).
Proof. intros s. split; auto. Qed.
Lemma pres_same' (f : pstate -> list pevent) : Pres (fun t => (t, f t)).
Proof. intros s. split; auto. Qed.

Lemma pres_attach_tail q p : Pres (attach_tail q p).
Proof. unfold attach_tail. pres_auto; try apply pres_same'. Qed.
Lemma pres_attach q p ok : Pres (attach_publisher q p ok).
Proof.
  unfold attach_publisher. apply pres_bind; [apply pres_when, pres_set_available|].
  intros s. unfold PresAt. cbn beta. destruct (aa s && negb ok); [split; auto|apply pres_attach_tail].
Qed.

(* a goal PresAt (composite handler) s, after the case analysis of the handler's own conditions *)
Ltac presat :=
  cbn beta iota;
  lazymatch goal with
  | |- s_conf (fst (?x, _)) = _ /\ _ => split; auto
  | |- s_conf (fst (?m ?s)) = s_conf ?s /\ _ =>
      change (PresAt m s); revert s;
      lazymatch goal with |- forall t, PresAt ?m' t => change (Pres m') end;
      pres_auto; try apply pres_same'
  end.

Lemma pres_do_describe q : Pres (do_describe q).
Proof.
  intros s. unfold PresAt, do_describe. destruct (s_stream s); [presat|].
  destruct (od_static (s_conf s)); [presat|]. destruct (od_pub (s_conf s)); presat.
Qed.

Lemma pres_do_add_reader q r : Pres (do_add_reader q r).
Proof.
  intros s. unfold PresAt, do_add_reader. destruct (s_stream s); [apply pres_add_reader_post|].
  destruct (od_static (s_conf s)); [presat|]. destruct (od_pub (s_conf s)); presat.
Qed.

Lemma remove_z_in x y l : In y (remove_z x l) -> In y l /\ y <> x.
Proof.
  induction l as [|z l IH]; cbn; [tauto|].
  destruct (x =? z) eqn:E.
  - intros H. destruct (IH H). split; [right|]; assumption.
  - intros [H|H].
    + subst. split; [left; reflexivity|]. intros ->. rewrite Z.eqb_refl in E. discriminate.
    + destruct (IH H). split; [right|]; assumption.
Qed.
Lemma remove_z_nodup x l : NoDup l -> NoDup (remove_z x l).
Proof.
  induction 1 as [|z l Hn _ IH]; cbn; [constructor|].
  destruct (x =? z); [exact IH|]. constructor; [|exact IH].
  intros H. apply remove_z_in in H. tauto.
Qed.
Lemma remove_z_len x l : (length (remove_z x l) <= length l)%nat.
Proof. induction l as [|z l IH]; cbn; [lia|]. destruct (x =? z); cbn; lia. Qed.

Lemma pres_do_remove_reader r : Pres (do_remove_reader r).
Proof.
  unfold do_remove_reader. apply pres_bind.
  - apply pres_when. intros s. split; [destruct s; reflexivity|].
    intros [Hn Hb]. destruct s; cbn in *. split; cbn.
    + apply remove_z_nodup; exact Hn.
    + intros Hne. specialize (Hb Hne). pose proof (remove_z_len r s_readers). lia.
  - apply pres_when. intros s. unfold PresAt. destruct (od_static (s_conf s)); [presat|].
    destruct (od_pub (s_conf s)); presat.
Qed.

Lemma pres_do_add_publisher q p ok : Pres (do_add_publisher q p ok).
Proof.
  intros s. unfold PresAt, do_add_publisher. destruct (c_static (s_conf s)); [presat|].
  destruct (s_source s); [|apply pres_attach].
  destruct (negb (c_override (s_conf s))); [presat|].
  change (PresAt (emit [EPubClosed z];; execute_remove_publisher;; attach_publisher q p ok) s).
  revert s. change (Pres (emit [EPubClosed z];; execute_remove_publisher;; attach_publisher q p ok)).
  apply pres_bind; [apply pres_emit|]. apply pres_bind; [apply pres_execute_remove_publisher|apply pres_attach].
Qed.

Lemma pres_do_remove_publisher fx p : Pres (do_remove_publisher fx p).
Proof.
  intros s. unfold PresAt, do_remove_publisher. destruct (s_source s); [|presat].
  destruct (z =? p); presat.
Qed.

Lemma pres_do_static_ready q : Pres (do_static_ready q).
Proof.
  intros s. unfold PresAt, do_static_ready. destruct (s_ssRunning s && negb (s_instReady s)); presat.
Qed.

Lemma pres_do_static_not_ready : Pres do_static_not_ready.
Proof.
  intros s. unfold PresAt, do_static_not_ready. destruct (s_ssRunning s && s_instReady s); presat.
Qed.

Lemma pres_do_timer t : Pres (do_timer t).
Proof.
  intros s. unfold PresAt, do_timer. destruct (timer_armed t s); [|presat].
  destruct t; presat; destruct t0; split; reflexivity.
Qed.

Lemma pres_do_close : Pres do_close.
Proof.
  unfold do_close, close_source, close_demand, close_stream. pres_auto.
  all: try (let t := fresh "t" in apply pres_modify_frame; intros t; destruct t; split; reflexivity).
  all: intros s; unfold PresAt; cbn beta;
    repeat match goal with
           | |- context [if ?c then _ else _] => destruct c
           | |- context [match ?x with Some _ => _ | None => _ end] => destruct x
           end;
    first [apply pres_handler_stop | apply pres_set_not_available | presat].
Qed.

Lemma pres_step fx o : Pres (fun s => step_gen fx s o).
Proof.
  intros s. unfold PresAt, step_gen. destruct (s_closed s); [split; auto|].
  destruct o.
  - apply pres_do_describe.
  - apply pres_do_add_publisher.
  - apply pres_do_remove_publisher.
  - apply pres_do_add_reader.
  - apply pres_do_remove_reader.
  - apply pres_do_static_ready.
  - apply pres_do_static_not_ready.
  - apply pres_do_timer.
  - split; auto.
  - apply pres_do_close.
Qed.

(* ---- the invariant holds along every history ------------------------------------------------------ *)
Theorem inv_step fx s o : Inv fx s -> Inv fx (fst (step_gen fx s o)).
Proof.
  intros [Hb Hl]. split; [apply fin_step; exact Hb|]. apply (pres_step fx o s). exact Hl.
Qed.

Lemma conf_step fx s o : s_conf (fst (step_gen fx s o)) = s_conf s.
Proof. apply (pres_step fx o s). Qed.

Theorem inv_run fx cf ops : conf_ok cf = true -> Inv fx (final (step_gen fx) (init_state cf) ops).
Proof.
  intros Hc. apply invariant_lift; [intros s o; apply inv_step|]. apply inv_init. exact Hc.
Qed.

Lemma conf_run fx s ops : s_conf (final (step_gen fx) s ops) = s_conf s.
Proof.
  revert s. induction ops as [|o r IH]; intros s; [reflexivity|].
  rewrite final_cons, IH. apply conf_step.
Qed.
