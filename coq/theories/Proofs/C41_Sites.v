From Coq Require Import List ZArith Bool Lia.
Require Import MTX.Model.C41_Tls MTX.Proofs.C41_Tls MTX.Model.C41_Sites.
Import ListNotations.
Local Open Scope Z_scope.

(* the pin = the two fields that make the callback decide *)
Definition pin (c : cfg) : bool * option (list Z) := (skip_verify c, vconn c).

Lemma neutral_keeps_pin o c : neutral o = true -> pin (apply_op c o) = pin c.
Proof.
  destruct o; simpl; intros H; try discriminate; unfold pin; simpl; try reflexivity.
  destruct (is_nil (server_name c)); reflexivity.
Qed.

(* any sequence of pin-neutral writes, of any length, leaves the pin where it was *)
Lemma run_neutral_pin ops : forall c, Forall (fun o => neutral o = true) ops -> pin (run ops c) = pin c.
Proof.
  unfold run. induction ops as [|o r IH]; intros c H; [reflexivity|].
  inversion H as [|? ? Ho Hr]; subst. simpl. rewrite IH by exact Hr. apply neutral_keeps_pin. exact Ho.
Qed.

Lemma lib_ops_neutral h : Forall (fun o => neutral o = true) (lib_ops h).
Proof. repeat constructor. Qed.

Lemma pd_do_ops_neutral h : Forall (fun o => neutral o = true) (pd_do_ops h).
Proof. repeat constructor. Qed.

Lemma moq_ops_neutral q n h : Forall (fun o => neutral o = true) (moq_ops q n h).
Proof. unfold moq_ops. destruct q, n, (is_nil h); simpl; repeat constructor. Qed.

Lemma site_ops_neutral s n h : Forall (fun o => neutral o = true) (site_ops s n h).
Proof.
  destruct s as [|p d| | | | | | |]; simpl;
    try apply lib_ops_neutral; try apply pd_do_ops_neutral; try apply moq_ops_neutral.
  destruct d; [apply pd_do_ops_neutral|apply lib_ops_neutral].
Qed.

Lemma make_config_some fp : fp <> [] -> make_config fp = Some (mkcfg [] true (Some fp) false false).
Proof. destruct fp; [congruence|reflexivity]. Qed.

(* whatever neutral consumer the configuration goes through, the handshake is decided by the callback alone *)
Lemma neutral_consumer_decides ops fp digest ca_ok :
  fp <> [] -> Forall (fun o => neutral o = true) ops ->
  tls_accepts (run ops (start (make_config fp))) digest ca_ok = verify fp digest.
Proof.
  intros Hfp Hn. rewrite (make_config_some fp Hfp). simpl start.
  pose proof (run_neutral_pin ops (mkcfg [] true (Some fp) false false) Hn) as P.
  unfold pin in P. simpl in P. injection P as P1 P2.
  unfold tls_accepts. rewrite P1, P2. reflexivity.
Qed.

Lemma site_pin s fp host : fp <> [] -> pin (site_cfg s fp host) = (true, Some fp).
Proof.
  intros Hfp. unfold site_cfg. rewrite (make_config_some fp Hfp). simpl start.
  rewrite run_neutral_pin by apply site_ops_neutral. reflexivity.
Qed.

Lemma connect_verify s fp host digest ca_ok : fp <> [] -> connect s fp host digest ca_ok = verify fp digest.
Proof. intros Hfp. unfold connect, site_cfg. apply neutral_consumer_decides; [exact Hfp|apply site_ops_neutral]. Qed.

Lemma connect_iff s fp host digest ca_ok : fp <> [] -> Forall is_byte digest ->
  (connect s fp host digest ca_ok = true <-> fold_eq fp (hex_encode digest)).
Proof. intros Hfp Hd. rewrite connect_verify by exact Hfp. apply verify_iff. exact Hd. Qed.

Lemma connect_chain_irrelevant s fp host digest ca1 ca2 host2 : fp <> [] ->
  connect s fp host digest ca1 = connect s fp host2 digest ca2.
Proof. intros Hfp. rewrite !connect_verify by exact Hfp. reflexivity. Qed.

Lemma connect_exactly_pinned s1 s2 fp h1 h2 d1 d2 ca1 ca2 : fp <> [] -> Forall is_byte d1 -> Forall is_byte d2 ->
  connect s1 fp h1 d1 ca1 = true -> connect s2 fp h2 d2 ca2 = true -> d1 = d2.
Proof.
  intros Hfp B1 B2. rewrite !connect_verify by exact Hfp. apply verify_unique; assumption.
Qed.

(* without a fingerprint nothing is weakened: ordinary verification for the URL host decides *)
Lemma connect_unpinned s host digest ca_ok : host <> [] -> connect s [] host digest ca_ok = ca_ok host.
Proof.
  intros Hh. destruct host as [|x r]; [congruence|].
  unfold connect, site_cfg, tls_accepts. simpl make_config. simpl is_none. simpl start.
  destruct s as [|p d| | | | | | |]; try destruct d; simpl; rewrite andb_true_r; reflexivity.
Qed.

(* the hypothesis `neutral` is needed: the merged-branch consumer loses the pin in both directions *)
Lemma merged_consumer_refuted :
  exists fp host d_pinned d_other ca_ok,
    fp <> [] /\ verify fp d_pinned = true /\ verify fp d_other = false /\
    tls_accepts (run (pd_do_merged_ops host) (start (make_config fp))) d_other ca_ok = true /\
    tls_accepts (run (pd_do_merged_ops host) (start (make_config fp))) d_pinned (fun _ => false) = false.
Proof.
  exists [97; 98], [104], [171], [172], (fun _ => true). vm_compute. repeat split; congruence.
Qed.
