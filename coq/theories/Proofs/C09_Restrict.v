(* C09: a load at prefix p only reads the variables named p or p_... ; without such variables the value is kept. *)
From Coq Require Import List ZArith Bool Lia.
Require Import MTX.Model.C09_Env MTX.Model.C09_EnvSpec MTX.Proofs.C09_Strings.
Import ListNotations.
Local Open Scope Z_scope.

Scheme ty_mut := Induction for ty Sort Prop
with fields_mut := Induction for fields Sort Prop.
Combined Scheme ty_fields_ind from ty_mut, fields_mut.

Section Restrict.
Variable OR : oracles.
Notation loadp := (loadp OR false).
Notation load_fields := (load_fields OR false).
Notation load_val := (load_val OR false).

(* ---- unfolding equations ------------------------------------------------------------------ *)
Definition map_step (e : ty) (E : env) (p : str) (acc : result (option value)) (k : str) : result (option value) :=
  bind acc (fun cur =>
    if has_prefix (p ++ [US]) k then
      let mk := cut_us (skipn (length p + 1) k) in
      match mk with
      | [] => Ok cur
      | _ => if negb (str_eqb mk (upper mk)) then Ok cur
             else match cur with
                  | None => Panic
                  | Some (VMap mo) =>
                      let m := match mo with Some m => m | None => MNil end in
                      let lk := lower mk in
                      let nv := match mlookup lk m with Some (VPtr (Some x)) => x | _ => zero OR e end in
                      bind (load_val e E (sub p mk) nv) (fun x => Ok (Some (VMap (Some (mset lk (VPtr (Some x)) m)))))
                  | Some _ => Stuck
                  end
      end
    else Ok cur).

Lemma loadp_map_eq e E p o : loadp (TMap e) E p o = fold_left (map_step e E p) (map fst E) (Ok o).
Proof. reflexivity. Qed.

Lemma load_fields_cons_eq tag ft fs E p v vs :
  load_fields (FCons tag ft fs) E p (VCons v vs) =
  bind (load_val ft E (sub p (fname tag)) v) (fun v' => bind (load_fields fs E p vs) (fun r => Ok (VCons v' r))).
Proof. reflexivity. Qed.

Lemma load_val_ptr t' E q o : load_val (TPtr t') E q (VPtr o) = bind (loadp t' E q o) (fun o' => Ok (VPtr o')).
Proof. reflexivity. Qed.

Lemma load_val_nonptr t E q v : is_ptr t = false ->
  load_val t E q v = bind (loadp t E q (Some v)) (fun r => match r with Some y => Ok y | None => Stuck end).
Proof. destruct t; intros H; try reflexivity; discriminate. Qed.

Definition structs_body (fs : fields) (E : env) (p : str) (o : option value) : result (option value) :=
  let ld := fun q vs => load_fields fs E q vs in
  match o with
  | None =>
      bind (discover ld (zeros OR fs) E p (loop_fuel E p) 0)
           (fun ex => match ex with VNil => Ok None | _ => Ok (Some (VStructs (Some ex))) end)
  | Some (VStructs so) =>
      let l := match so with Some l => l | None => VNil end in
      bind (load_elems ld p 0 l) (fun l' =>
      bind (discover ld (zeros OR fs) E p (loop_fuel E p) (Z.of_nat (vlen l))) (fun ex =>
        match so, ex with
        | None, VNil => Ok (Some (VStructs None))
        | _, _ => Ok (Some (VStructs (Some (vapp l' ex))))
        end))
  | Some _ => Stuck
  end.

Lemma loadp_structs_eq fs E p o :
  loadp (TStructs fs) E p o =
  match lookup E p with
  | Some [] => Ok (Some (VStructs (Some VNil)))
  | _ => structs_body fs E p o
  end.
Proof. reflexivity. Qed.

(* ---- the restriction lemma ---------------------------------------------------------------- *)
Definition PR (t : ty) := forall E p o, loadp t E p o = loadp t (R p E) p o.
Definition PVn (t : ty) := forall E p x v, load_val t E (sub p x) v = load_val t (R p E) (sub p x) v.
Definition PRf (fs : fields) := forall E p vs, load_fields fs E p vs = load_fields fs (R p E) p vs.

Lemma narrow t : PR t -> forall E p x o, loadp t E (sub p x) o = loadp t (R p E) (sub p x) o.
Proof. intros H E p x o. rewrite (H E), (H (R p E)), R_R_sub. reflexivity. Qed.

Lemma narrow_fields fs : PRf fs -> forall E p x vs, load_fields fs E (sub p x) vs = load_fields fs (R p E) (sub p x) vs.
Proof. intros H E p x vs. rewrite (H E), (H (R p E)), R_R_sub. reflexivity. Qed.

Lemma PVn_of_PR t : is_ptr t = false -> PR t -> PVn t.
Proof. intros Ht H E p x v. rewrite !load_val_nonptr by exact Ht. rewrite (narrow t H). reflexivity. Qed.

Lemma PVn_ptr t : PR t -> PVn (TPtr t).
Proof.
  intros H E p x v. destruct v; try reflexivity. rewrite !load_val_ptr, (narrow t H). reflexivity.
Qed.

Lemma discover_ext ld1 ld2 zs E1 E2 p :
  (forall i vs, ld1 (sub p (dec i)) vs = ld2 (sub p (dec i)) vs) ->
  (forall i, has_key_with_prefix E1 (sub p (dec i)) = has_key_with_prefix E2 (sub p (dec i))) ->
  forall f i, discover ld1 zs E1 p f i = discover ld2 zs E2 p f i.
Proof.
  intros Hl Hk f. induction f as [|f IH]; intros i; simpl; [reflexivity|].
  rewrite Hk, Hl. destruct (has_key_with_prefix E2 (sub p (dec i))); [|reflexivity].
  destruct (ld2 (sub p (dec i)) zs); simpl; try reflexivity. rewrite IH. reflexivity.
Qed.

Lemma load_elems_ext ld1 ld2 p :
  (forall i vs, ld1 (sub p (dec i)) vs = ld2 (sub p (dec i)) vs) ->
  forall l i, load_elems ld1 p i l = load_elems ld2 p i l.
Proof.
  intros Hl l. induction l as [|v l IH]; intros i; simpl; [reflexivity|].
  destruct v; try reflexivity. rewrite Hl. destruct (ld2 (sub p (dec i)) vs); simpl; try reflexivity.
  rewrite IH. reflexivity.
Qed.

Lemma loop_fuel_R p E : loop_fuel (R p E) p = loop_fuel E p.
Proof.
  unfold loop_fuel. f_equal. induction E as [|[k v] E IH]; simpl; [reflexivity|].
  destruct (under p k) eqn:Eu; simpl.
  - rewrite IH. reflexivity.
  - rewrite (not_under_no_prefix _ _ Eu). exact IH.
Qed.

Lemma fold_skip (step : result (option value) -> str -> result (option value)) p E :
  (forall acc k, under p k = false -> step acc k = acc) ->
  forall acc, fold_left step (map fst (R p E)) acc = fold_left step (map fst E) acc.
Proof.
  intros H. induction E as [|[k v] E IH]; intros acc; simpl; [reflexivity|].
  destruct (under p k) eqn:Eu; simpl.
  - apply IH.
  - rewrite (H acc k Eu). apply IH.
Qed.

Lemma fold_left_ext {A B} (f g : A -> B -> A) : (forall a b, f a b = g a b) ->
  forall l a, fold_left f l a = fold_left g l a.
Proof. intros H l. induction l as [|b l IH]; intros a; simpl; [reflexivity|]. rewrite H. apply IH. Qed.

Lemma map_step_skip e E' p acc k : under p k = false -> map_step e E' p acc k = acc.
Proof.
  intros H. unfold map_step. rewrite (not_under_no_prefix _ _ H). apply bind_ok_id.
Qed.

Lemma map_step_ext e E p : PVn e -> forall acc k, map_step e E p acc k = map_step e (R p E) p acc k.
Proof.
  intros He acc k. unfold map_step. destruct acc as [cur| | |]; simpl; try reflexivity.
  destruct (has_prefix (p ++ [US]) k); [|reflexivity].
  destruct (cut_us (skipn (length p + 1) k)) as [|c mk]; [reflexivity|].
  destruct (negb (str_eqb (c :: mk) (upper (c :: mk)))); [reflexivity|].
  destruct cur as [[]|]; try reflexivity. rewrite (He E). reflexivity.
Qed.

Lemma restrict_all : (forall t, PR t /\ PVn t) /\ (forall fs, PRf fs).
Proof.
  apply ty_fields_ind.
  - (* TBool *) split; [|apply PVn_of_PR; [reflexivity|]]; intros E p o; simpl; rewrite lookup_R; reflexivity.
  - split; [|apply PVn_of_PR; [reflexivity|]]; intros E p o; simpl; rewrite lookup_R; reflexivity.
  - split; [|apply PVn_of_PR; [reflexivity|]]; intros E p o; simpl; rewrite lookup_R; reflexivity.
  - split; [|apply PVn_of_PR; [reflexivity|]]; intros E p o; simpl; rewrite lookup_R; reflexivity.
  - split; [|apply PVn_of_PR; [reflexivity|]]; intros E p o; simpl; rewrite lookup_R; reflexivity.
  - (* TCustom *) intros k. split; [|apply PVn_of_PR; [reflexivity|]]; intros E p o; simpl; rewrite lookup_R, hkwp_R; reflexivity.
  - split; [|apply PVn_of_PR; [reflexivity|]]; intros E p o; simpl; rewrite lookup_R; reflexivity.
  - split; [|apply PVn_of_PR; [reflexivity|]]; intros E p o; simpl; rewrite lookup_R; reflexivity.
  - split; [|apply PVn_of_PR; [reflexivity|]]; intros E p o; simpl; rewrite lookup_R; reflexivity.
  - (* TStructs *) intros fs IH.
    assert (H : PR (TStructs fs)).
    { intros E p o. rewrite !loadp_structs_eq, lookup_R.
      assert (Hb : structs_body fs E p o = structs_body fs (R p E) p o).
      { unfold structs_body. rewrite loop_fuel_R.
        assert (Hl : forall i vs, load_fields fs E (sub p (dec i)) vs = load_fields fs (R p E) (sub p (dec i)) vs)
          by (intros; apply narrow_fields; exact IH).
        assert (Hk : forall i, has_key_with_prefix E (sub p (dec i)) = has_key_with_prefix (R p E) (sub p (dec i)))
          by (intros; symmetry; apply hkwp_R).
        destruct o as [[]|]; try reflexivity.
        - rewrite (load_elems_ext _ _ p Hl). destruct (load_elems _ p 0 _); cbn [bind]; try reflexivity.
          rewrite (discover_ext _ _ (zeros OR fs) E (R p E) p Hl Hk). reflexivity.
        - rewrite (discover_ext _ _ (zeros OR fs) E (R p E) p Hl Hk). reflexivity. }
      rewrite Hb. reflexivity. }
    split; [exact H|apply PVn_of_PR; [reflexivity|exact H]].
  - (* TStruct *) intros fs IH.
    assert (H : PR (TStruct fs)).
    { intros E p o. simpl. destruct o as [[]|]; try reflexivity. rewrite (IH E). reflexivity. }
    split; [exact H|apply PVn_of_PR; [reflexivity|exact H]].
  - (* THook *) intros fs IH.
    assert (H : PR (THook fs)).
    { intros E p o. simpl. rewrite lookup_R, hkwp_R.
      destruct (lookup E p).
      - destruct o as [[]|]; try reflexivity; rewrite (IH E); reflexivity.
      - destruct (has_key_with_prefix E (p ++ [US])); [|reflexivity].
        destruct o as [[]|]; try reflexivity; rewrite (IH E); reflexivity. }
    split; [exact H|apply PVn_of_PR; [reflexivity|exact H]].
  - (* TMap *) intros e [_ IHv].
    assert (H : PR (TMap e)).
    { intros E p o. rewrite !loadp_map_eq.
      rewrite (fold_skip _ p E (fun acc k => map_step_skip e (R p E) p acc k)).
      apply fold_left_ext. apply map_step_ext. exact IHv. }
    split; [exact H|apply PVn_of_PR; [reflexivity|exact H]].
  - (* TPtr *) intros t [IH _]. split; [intros E p o; reflexivity|apply PVn_ptr; exact IH].
  - (* TBad *) split; [|apply PVn_of_PR; [reflexivity|]]; intros E p o; reflexivity.
  - (* FNil *) intros E p vs. reflexivity.
  - (* FCons *) intros tag t [_ IHt] fs IHf E p vs. destruct vs as [|v vs]; [reflexivity|].
    rewrite !load_fields_cons_eq, (IHt E), (IHf E). reflexivity.
Qed.

Lemma loadp_restrict t E p o : loadp t E p o = loadp t (R p E) p o.
Proof. apply restrict_all. Qed.

Lemma load_val_restrict t E p x v : load_val t E (sub p x) v = load_val t (R p E) (sub p x) v.
Proof. apply restrict_all. Qed.

Lemma load_fields_restrict fs E p vs : load_fields fs E p vs = load_fields fs (R p E) p vs.
Proof. apply restrict_all. Qed.

End Restrict.
