(* Proofs for C04 over Model/C04_HttpAuth.v: for EVERY registration table, every oracle and every request. *)
From Coq Require Import List String ZArith Bool Lia.
Require Import MTX.Model.C04_HttpAuth.
Import ListNotations.
Local Open Scope string_scope.
Local Open Scope list_scope.

(* ---- small facts ----------------------------------------------------------------------- *)

Lemma psrc_eqb_eq a b : psrc_eqb a b = true -> a = b.
Proof. destruct a, b; simpl; congruence. Qed.

Lemma hstep_eqb_eq a b : hstep_eqb a b = true -> a = b.
Proof.
  destruct a, b; simpl; try discriminate; intros H.
  - apply Bool.eqb_prop in H. congruence.
  - apply andb_true_iff in H as [H H3]. apply andb_true_iff in H as [H1 H2].
    apply psrc_eqb_eq in H1. apply Bool.eqb_prop in H2. apply Bool.eqb_prop in H3. congruence.
  - apply andb_true_iff in H as [H H4]. apply andb_true_iff in H as [H H3]. apply andb_true_iff in H as [H1 H2].
    apply String.eqb_eq in H1. apply psrc_eqb_eq in H2. apply Bool.eqb_prop in H3. apply Bool.eqb_prop in H4. congruence.
  - apply psrc_eqb_eq in H. congruence.
  - reflexivity.
Qed.

Lemma body_eqb_eq a : forall b, body_eqb a b = true -> a = b.
Proof.
  induction a as [|x a IH]; intros [|y b] H; simpl in H; try discriminate; [reflexivity|].
  apply andb_true_iff in H as [H1 H2]. apply hstep_eqb_eq in H1. apply IH in H2. congruence.
Qed.

Lemma body_prefix_app p : forall b, body_prefix p b = true -> exists r, b = p ++ r.
Proof.
  induction p as [|x p IH]; intros b H; simpl in H.
  - exists b. reflexivity.
  - destruct b as [|y b]; [discriminate|]. apply andb_true_iff in H as [H1 H2].
    apply hstep_eqb_eq in H1. destruct (IH _ H2) as [r ->]. exists r. subst. reflexivity.
Qed.

Lemma find_route_in rs m pat ch : find_route rs m pat = Some ch -> In ch (map r_chain rs).
Proof.
  induction rs as [|r rs IH]; simpl; [discriminate|].
  destruct (String.eqb (r_method r) m && String.eqb (r_pattern r) pat).
  - intros H. inversion H. left. reflexivity.
  - intros H. right. exact (IH H).
Qed.

Section WithOracles.
Variable auth : string -> option (list Z) -> creds -> list Z -> bool.
Variable valid_path : list Z -> bool.

Notation run_body := (run_body auth valid_path).
Notation run_chain := (run_chain auth valid_path).
Notation serve := (serve auth valid_path).
Notation chain_of := chain_of.

(* the chain gin runs is one of the compiled chains *)
Lemma chain_of_in t q : In (fst (chain_of t q)) (all_chains t).
Proof.
  unfold chain_of, all_chains.
  destruct (find_route (c_routes (compile t)) (q_method q) (q_pattern q)) as [ch|] eqn:F.
  - simpl. apply in_or_app. left. exact (find_route_in _ _ _ _ F).
  - destruct (q_listed q).
    + destruct (c_externs (compile t)) as [|[n hs] ex] eqn:E.
      * simpl. apply in_or_app. right. simpl. left. reflexivity.
      * simpl. apply in_or_app. right. left. reflexivity.
    + simpl. apply in_or_app. right. apply in_or_app. right. simpl. left. reflexivity.
Qed.

Lemma run_body_strip q b : forall s, run_body q (strip b) s = run_body q b s.
Proof.
  induction b as [|h b IH]; intros s; [reflexivity|].
  destruct h; simpl.
  - destruct (is_preflight q); [reflexivity|apply IH].
  - destruct (valid_opt valid_path (eval_p q p)); [apply IH|]. destruct ret; [reflexivity|apply IH].
  - destruct (auth act (eval_p q p) (q_creds q) (q_ip q)); [apply IH|]. destruct ret; [reflexivity|apply IH].
  - apply IH.
  - apply IH.
Qed.

(* ---- C04_guarded ----------------------------------------------------------------------- *)

Lemma guard_leak act wp b : body_guard act wp true b <> Guarded.
Proof.
  induction b as [|h b IH]; simpl; [discriminate|].
  destruct h; try discriminate; rewrite andb_false_r; simpl; exact IH.
Qed.

Lemma guarded_noleak act wp leak b : body_guard act wp leak b = Guarded -> leak = false.
Proof. destruct leak; [|reflexivity]. intros H. exfalso. exact (guard_leak _ _ _ H). Qed.

Definition A (act : string) (wp : bool) (q : request) : bool :=
  auth act (eval_p q (want_p wp)) (q_creds q) (q_ip q).

Definition guard_post (act : string) (wp : bool) (q : request) (v : verdict) (s' : st) : Prop :=
  match v with
  | Clean => s_data s' = false
  | Guarded => A act wp q = true \/ (s_data s' = false /\ s_aborted s' = true)
  | Dirty => True
  end.

Lemma write_data c ab s : s_data (write c ab s) = s_data s.
Proof. reflexivity. Qed.

Lemma body_guard_run act wp q b : forall leak s, s_data s = false ->
  guard_post act wp q (body_guard act wp leak b) (run_body q b s).
Proof.
  induction b as [|h b IH]; intros leak s Hs.
  - simpl. exact Hs.
  - destruct h as [ab|p ab ret|a p ab ret|p|].
    + (* HPreflight *)
      cbn [body_guard good_auth andb]. cbn [run_body].
      destruct (is_preflight q) eqn:P.
      * specialize (IH (leak || leaky (HPreflight ab)) s Hs).
        destruct (body_guard act wp (leak || leaky (HPreflight ab)) b) eqn:V; simpl; auto.
        right. split; [exact Hs|]. apply guarded_noleak in V. apply orb_false_iff in V as [_ V]. simpl in V.
        destruct ab; [|discriminate]. simpl. apply orb_true_r.
      * apply IH. exact Hs.
    + (* HValidate *)
      cbn [body_guard good_auth andb]. cbn [run_body].
      destruct (valid_opt valid_path (eval_p q p)); [apply IH; exact Hs|].
      destruct ret.
      * specialize (IH (leak || leaky (HValidate p ab true)) s Hs).
        destruct (body_guard act wp (leak || leaky (HValidate p ab true)) b) eqn:V; simpl; auto.
        right. split; [exact Hs|]. apply guarded_noleak in V. apply orb_false_iff in V as [_ V]. simpl in V.
        destruct ab; [|discriminate]. apply orb_true_r.
      * apply IH. simpl. exact Hs.
    + (* HAuth *)
      cbn [body_guard]. cbn [run_body].
      destruct (good_auth act wp (HAuth a p ab ret) && negb leak) eqn:G.
      * apply andb_true_iff in G as [G _]. simpl in G.
        apply andb_true_iff in G as [G R]. apply andb_true_iff in G as [G B]. apply andb_true_iff in G as [G1 G2].
        apply String.eqb_eq in G1. apply psrc_eqb_eq in G2. subst a p ab ret.
        simpl. unfold A.
        destruct (auth act (eval_p q (want_p wp)) (q_creds q) (q_ip q)); [left; reflexivity|].
        right. simpl. split; [exact Hs|apply orb_true_r].
      * destruct (auth a (eval_p q p) (q_creds q) (q_ip q)); [apply IH; exact Hs|].
        destruct ret.
        -- specialize (IH (leak || leaky (HAuth a p ab true)) s Hs).
           destruct (body_guard act wp (leak || leaky (HAuth a p ab true)) b) eqn:V; simpl; auto.
           right. split; [exact Hs|]. apply guarded_noleak in V. apply orb_false_iff in V as [_ V]. simpl in V.
           destruct ab; [|discriminate]. apply orb_true_r.
        -- apply IH. simpl. exact Hs.
    + simpl. exact I.
    + cbn [body_guard good_auth andb]. cbn [run_body]. apply IH. exact Hs.
Qed.

Lemma chain_guard_run act wp q ch : forall s, s_data s = false -> chain_ok act wp ch = true ->
  s_data (run_chain q ch s) = true -> A act wp q = true.
Proof.
  induction ch as [|e ch IH]; intros s Hs Hok Hd.
  - simpl in Hd. congruence.
  - simpl in Hok, Hd.
    pose proof (body_guard_run act wp q (e_body e) false s Hs) as P.
    destruct (body_guard act wp false (e_body e)); simpl in P.
    + destruct (s_aborted (run_body q (e_body e) s)); [congruence|]. exact (IH _ P Hok Hd).
    + destruct P as [P|[P1 P2]]; [exact P|]. rewrite P2 in Hd. congruence.
    + discriminate.
Qed.

Lemma admitted_A t q : admitted auth t q = A (t_action t) (t_withpath t) q.
Proof. unfold admitted, A. destruct (t_withpath t); reflexivity. Qed.

Theorem guarded t : tbl_ok t = true -> forall q,
  carries_data (serve t q) = true -> admitted auth t q = true.
Proof.
  intros Hok q Hd. unfold tbl_ok in Hok. apply andb_true_iff in Hok as [_ Hall].
  rewrite forallb_forall in Hall. specialize (Hall _ (chain_of_in t q)).
  unfold C04_HttpAuth.serve in Hd. destruct (chain_of t q) as [ch d]. simpl in Hall, Hd.
  rewrite admitted_A. exact (chain_guard_run _ _ q ch init eq_refl Hall Hd).
Qed.

Corollary refused_no_data t : tbl_ok t = true -> forall q,
  admitted auth t q = false -> carries_data (serve t q) = false.
Proof.
  intros Hok q Hn. destruct (carries_data (serve t q)) eqn:E; [|reflexivity].
  rewrite (guarded t Hok q E) in Hn. discriminate.
Qed.

(* ---- C04_preflight_no_data --------------------------------------------------------------- *)

Theorem preflight_no_data t : pre_ok t = true -> forall q, is_preflight q = true ->
  carries_data (serve t q) = false /\ status (serve t q) = 204%Z /\ trace (serve t q) = [].
Proof.
  intros Hok q Hp. unfold pre_ok in Hok. rewrite forallb_forall in Hok. specialize (Hok _ (chain_of_in t q)).
  unfold C04_HttpAuth.serve. destruct (chain_of t q) as [ch d]. simpl in Hok.
  destruct ch as [|e ch]; [discriminate|]. simpl in Hok.
  destruct (e_body e) as [|h b] eqn:B; [discriminate|]. destruct h; try discriminate. destruct ab; [|discriminate].
  simpl. rewrite B. simpl. rewrite Hp. simpl. repeat split.
Qed.

(* ---- C04_401_empty: the exact answer to a refused request on tables of today's shape ---- *)

Notation denied_status := (denied_status valid_path).

Lemma strict_run act wp q ch rt d : strict_chain act wp rt ch = true -> A act wp q = false ->
  (wp = true -> rt = false -> d = 404%Z) ->
  let r := finish d (run_chain q ch init) in
  carries_data r = false /\
  status r = (if is_preflight q then 204 else if wp then (if rt then (if valid_path (q_path q) then 401 else 400) else 404) else 401)%Z.
Proof.
  intros Hs Ha Hd. destruct ch as [|e1 rest]; [discriminate|]. cbn [strict_chain] in Hs.
  apply andb_true_iff in Hs as [H1 H2]. apply body_eqb_eq in H1.
  cbn [C04_HttpAuth.run_chain]. rewrite <- (run_body_strip q (e_body e1)). rewrite H1.
  cbn [C04_HttpAuth.run_body]. destruct (is_preflight q) eqn:P.
  - simpl. split; reflexivity.
  - destruct wp.
    + destruct rt.
      * destruct rest as [|h [|? ?]]; try discriminate.
        apply body_prefix_app in H2 as [r Hr].
        cbn [C04_HttpAuth.run_chain s_aborted init]. rewrite <- (run_body_strip q (e_body h)). rewrite Hr.
        cbn [app C04_HttpAuth.run_body eval_p valid_opt].
        destruct (valid_path (q_path q)).
        -- unfold A in Ha. simpl in Ha. rewrite Ha. simpl. split; reflexivity.
        -- simpl. split; reflexivity.
      * destruct rest; [|discriminate]. simpl. rewrite (Hd eq_refl eq_refl). split; reflexivity.
    + destruct rest as [|e2 rest]; [discriminate|]. apply body_eqb_eq in H2.
      cbn [C04_HttpAuth.run_chain s_aborted init]. rewrite <- (run_body_strip q (e_body e2)). rewrite H2.
      cbn [C04_HttpAuth.run_body eval_p]. unfold A in Ha. simpl in Ha. rewrite Ha. simpl. split; reflexivity.
Qed.

Theorem refused_exact t : tbl_strict t = true -> forall q, admitted auth t q = false ->
  carries_data (serve t q) = false /\ status (serve t q) = denied_status t q.
Proof.
  intros Hs q Hn. rewrite admitted_A in Hn. unfold tbl_strict in Hs.
  apply andb_true_iff in Hs as [Hs Hx]. apply andb_true_iff in Hs as [Hs Hnr]. apply andb_true_iff in Hs as [_ Hr].
  rewrite forallb_forall in Hr.
  unfold C04_HttpAuth.serve, chain_of, denied_status, routed.
  destruct (find_route (c_routes (compile t)) (q_method q) (q_pattern q)) as [ch|] eqn:F.
  - assert (Hin : In ch (map r_chain (c_routes (compile t)) ++
                         map (fun x => snd x ++ [extern_elem (fst x)]) (c_externs (compile t)))).
    { apply in_or_app. left. exact (find_route_in _ _ _ _ F). }
    apply (strict_run _ _ q ch true 200%Z (Hr _ Hin) Hn). intros _ H; discriminate.
  - destruct (q_listed q); simpl.
    + destruct (c_externs (compile t)) as [|[n hs] ex] eqn:E.
      * apply (strict_run _ _ q _ false 404%Z Hnr Hn). reflexivity.
      * assert (Hin : In (hs ++ [extern_elem n]) (map r_chain (c_routes (compile t)) ++
                         map (fun x => snd x ++ [extern_elem (fst x)]) ((n, hs) :: ex))).
        { apply in_or_app. right. left. reflexivity. }
        apply (strict_run _ _ q _ true 200%Z (Hr _ Hin) Hn). intros _ H; discriminate.
    + destruct (c_externs (compile t)) eqn:E;
        apply (strict_run _ _ q _ false 404%Z Hnr Hn); reflexivity.
Qed.

(* ---- C04_playback_path ------------------------------------------------------------------- *)

Definition ev_ok (t : table) (q : request) (e : event) : Prop :=
  match e with
  | EvAuth a p => a = t_action t /\ p = Some (q_path q) /\ valid_path (q_path q) = true
  | EvAccess p => p = Some (q_path q) /\ valid_path (q_path q) = true /\
                  auth (t_action t) (Some (q_path q)) (q_creds q) (q_ip q) = true
  end.

Lemma Forall_snoc {X} (P : X -> Prop) l x : Forall P l -> P x -> Forall P (l ++ [x]).
Proof. intros H1 H2. apply Forall_app. split; [exact H1|constructor; [exact H2|constructor]]. Qed.

(* the authenticated flag implies the validated flag *)
Lemma body_path_run t q b : forall v a s,
  body_path_ok (t_action t) v a b = true ->
  (a = true -> v = true) ->
  (v = true -> valid_path (q_path q) = true) ->
  (a = true -> auth (t_action t) (Some (q_path q)) (q_creds q) (q_ip q) = true) ->
  Forall (ev_ok t q) (s_trace s) -> Forall (ev_ok t q) (s_trace (run_body q b s)).
Proof.
  induction b as [|h b IH]; intros v a s Hok Hav Hv Ha Hs; [exact Hs|].
  destruct h as [ab|p ab ret|act p ab ret|p|].
  - cbn [body_path_ok] in Hok. destruct ab; [|discriminate]. cbn [C04_HttpAuth.run_body].
    destruct (is_preflight q); [exact Hs|]. exact (IH v a s Hok Hav Hv Ha Hs).
  - cbn [body_path_ok] in Hok. destruct p; try discriminate. destruct ab; try discriminate. destruct ret; try discriminate.
    cbn [C04_HttpAuth.run_body eval_p valid_opt].
    destruct (valid_path (q_path q)) eqn:V; [|exact Hs].
    apply (IH true a s Hok); auto.
  - cbn [body_path_ok] in Hok.
    destruct (String.eqb act (t_action t) && psrc_eqb p PQuery && ab && ret) eqn:G; [|discriminate].
    apply andb_true_iff in G as [G R]. apply andb_true_iff in G as [G B]. apply andb_true_iff in G as [G1 G2].
    apply String.eqb_eq in G1. apply psrc_eqb_eq in G2. subst act p ab ret.
    apply andb_true_iff in Hok as [Hvv Hok]. subst v. specialize (Hv eq_refl).
    cbn [C04_HttpAuth.run_body eval_p].
    assert (Hs1 : Forall (ev_ok t q) (s_trace (log_ev (EvAuth (t_action t) (Some (q_path q))) s))).
    { simpl. apply Forall_snoc; [exact Hs|]. simpl. auto. }
    destruct (auth (t_action t) (Some (q_path q)) (q_creds q) (q_ip q)) eqn:Au; [|exact Hs1].
    apply (IH true true _ Hok); auto.
  - cbn [body_path_ok] in Hok. apply andb_true_iff in Hok as [Hok Hr]. apply andb_true_iff in Hok as [Haa Hp].
    apply psrc_eqb_eq in Hp. subst a p. cbn [C04_HttpAuth.run_body eval_p].
    apply (IH v true _ Hr Hav Hv Ha). simpl. apply Forall_snoc; [exact Hs|]. simpl.
    split; [reflexivity|]. split; [exact (Hv (Hav eq_refl))|exact (Ha eq_refl)].
  - cbn [body_path_ok] in Hok. cbn [C04_HttpAuth.run_body]. exact (IH v a s Hok Hav Hv Ha Hs).
Qed.

Lemma chain_path_run t q ch : forall s,
  forallb (fun e => body_path_ok (t_action t) false false (e_body e)) ch = true ->
  Forall (ev_ok t q) (s_trace s) -> Forall (ev_ok t q) (s_trace (run_chain q ch s)).
Proof.
  induction ch as [|e ch IH]; intros s Hok Hs; [exact Hs|].
  simpl in Hok. apply andb_true_iff in Hok as [H1 H2]. simpl.
  assert (Hs' : Forall (ev_ok t q) (s_trace (run_body q (e_body e) s))).
  { apply (body_path_run t q (e_body e) false false s H1); auto; discriminate. }
  destruct (s_aborted (run_body q (e_body e) s)); [exact Hs'|]. exact (IH _ H2 Hs').
Qed.

Theorem playback_path t : tbl_path_ok t = true -> forall q e, In e (trace (serve t q)) -> ev_ok t q e.
Proof.
  intros Hok q e Hin. unfold tbl_path_ok in Hok. apply andb_true_iff in Hok as [_ Hall].
  rewrite forallb_forall in Hall. specialize (Hall _ (chain_of_in t q)).
  unfold C04_HttpAuth.serve in Hin. destruct (chain_of t q) as [ch d]. simpl in Hall, Hin.
  pose proof (chain_path_run t q ch init Hall (Forall_nil _)) as F.
  rewrite Forall_forall in F. exact (F e Hin).
Qed.

(* ---- the client address ---------------------------------------------------------------- *)

Lemma client_ip_believed t trusted w : proxies_ok t = true -> client_ip t trusted w = believed trusted w.
Proof. unfold proxies_ok, client_ip, believed. intros ->. reflexivity. Qed.

(* data only for a client admitted at the address the server is entitled to believe *)
Theorem guarded_wire t : tbl_ok t = true -> proxies_ok t = true -> forall trusted w q,
  carries_data (serve_wire auth valid_path t trusted w q) = true ->
  auth (t_action t) (if t_withpath t then Some (q_path q) else None) (q_creds q) (believed trusted w) = true.
Proof.
  intros Hok Hp trusted w q Hd. unfold serve_wire in Hd.
  apply (guarded t Hok) in Hd. unfold admitted in Hd. cbn in Hd.
  rewrite (client_ip_believed t trusted w Hp) in Hd. exact Hd.
Qed.

Theorem refused_exact_wire t : tbl_strict t = true -> proxies_ok t = true -> forall trusted w q,
  auth (t_action t) (if t_withpath t then Some (q_path q) else None) (q_creds q) (believed trusted w) = false ->
  carries_data (serve_wire auth valid_path t trusted w q) = false /\
  status (serve_wire auth valid_path t trusted w q) = denied_status t q.
Proof.
  intros Hs Hp trusted w q Ha. unfold serve_wire.
  assert (Hadm : admitted auth t (on_wire t trusted w q) = false).
  { unfold admitted. cbn. rewrite (client_ip_believed t trusted w Hp). exact Ha. }
  destruct (refused_exact t Hs _ Hadm) as [H1 H2]. split; [exact H1|]. rewrite H2. reflexivity.
Qed.

(* a peer that is not a configured trusted proxy cannot influence the answer through the forwarding headers *)
Theorem forwarded_ignored_when_untrusted t : proxies_ok t = true -> forall trusted peer f1 f2 q,
  trusted peer = false ->
  serve_wire auth valid_path t trusted {| w_peer := peer; w_forwarded := f1 |} q =
  serve_wire auth valid_path t trusted {| w_peer := peer; w_forwarded := f2 |} q.
Proof.
  intros Hp trusted peer f1 f2 q Hu. unfold serve_wire. f_equal. unfold on_wire.
  rewrite !(client_ip_believed t trusted _ Hp). unfold believed. cbn. rewrite Hu. reflexivity.
Qed.

End WithOracles.
