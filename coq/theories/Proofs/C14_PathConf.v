(* Proofs about the model of conf.FindPathConf (Model/C14_PathConf.v). *)
From Coq Require Import List ZArith Bool Lia Permutation Sorted.
Require Import MTX.Model.C14_PathConf.
Import ListNotations.
Local Open Scope Z_scope.

(* ---------------------------------------------------------------- strings *)
Lemma str_eqb_eq a b : str_eqb a b = true <-> a = b.
Proof.
  revert b; induction a as [|x a IH]; intros [|y b]; simpl; split; intros H;
    try reflexivity; try discriminate.
  - apply andb_true_iff in H as [H1 H2]. apply Z.eqb_eq in H1. apply IH in H2. subst; reflexivity.
  - inversion H; subst. rewrite Z.eqb_refl. simpl. apply IH. reflexivity.
Qed.

Lemma str_eqb_refl a : str_eqb a a = true.
Proof. apply str_eqb_eq; reflexivity. Qed.

Lemma str_eqb_neq a b : str_eqb a b = false <-> a <> b.
Proof.
  split.
  - intros H E. apply str_eqb_eq in E. congruence.
  - intros H. destruct (str_eqb a b) eqn:E; [apply str_eqb_eq in E; contradiction|reflexivity].
Qed.

Lemma str_eq_dec (a b : str) : {a = b} + {a <> b}.
Proof. destruct (str_eqb a b) eqn:E; [left; apply str_eqb_eq; exact E|right; apply str_eqb_neq; exact E]. Qed.

(* the name order of the specification: byte-wise lexicographic *)
Inductive str_lt : str -> str -> Prop :=
| lt_nil y b : str_lt [] (y :: b)
| lt_head x y a b : x < y -> str_lt (x :: a) (y :: b)
| lt_tail x a b : str_lt a b -> str_lt (x :: a) (x :: b).

Lemma str_ltb_spec a b : str_ltb a b = true <-> str_lt a b.
Proof.
  revert b; induction a as [|x a IH]; intros [|y b]; simpl.
  - split; [discriminate|inversion 1].
  - split; [constructor|reflexivity].
  - split; [discriminate|inversion 1].
  - destruct (Z.ltb_spec x y) as [E1|E1].
    + split; [intros _; apply lt_head; exact E1 | reflexivity].
    + destruct (Z.ltb_spec y x) as [E2|E2].
      * split; [discriminate|]. inversion 1; subst; lia.
      * assert (x = y) by lia. subst. rewrite IH. split; [apply lt_tail|].
        inversion 1; subst; [lia|assumption].
Qed.

Lemma ltb_irrefl a : str_ltb a a = false.
Proof. induction a as [|x a IH]; simpl; [reflexivity|]. rewrite Z.ltb_irrefl. exact IH. Qed.

Lemma ltb_asym a b : str_ltb a b = true -> str_ltb b a = false.
Proof.
  revert b; induction a as [|x a IH]; intros [|y b]; simpl; intros H; try discriminate; try reflexivity.
  destruct (Z.ltb_spec x y), (Z.ltb_spec y x); try lia; try reflexivity; try discriminate.
  apply IH; exact H.
Qed.

Lemma ltb_trans a b c : str_ltb a b = true -> str_ltb b c = true -> str_ltb a c = true.
Proof.
  revert b c; induction a as [|x a IH]; intros [|y b] [|z c]; simpl; intros H1 H2;
    try discriminate; try reflexivity.
  destruct (Z.ltb_spec x y), (Z.ltb_spec y x), (Z.ltb_spec y z), (Z.ltb_spec z y),
    (Z.ltb_spec x z), (Z.ltb_spec z x); try lia; try reflexivity; try discriminate.
  eapply IH; eassumption.
Qed.

Lemma ltb_total a b : str_ltb a b = false -> str_ltb b a = false -> a = b.
Proof.
  revert b; induction a as [|x a IH]; intros [|y b]; simpl; intros H1 H2;
    try discriminate; try reflexivity.
  destruct (Z.ltb_spec x y), (Z.ltb_spec y x); try lia; try discriminate.
  assert (x = y) by lia. subst. f_equal. apply IH; assumption.
Qed.

Lemma ltb_tricho a b : a = b \/ str_ltb a b = true \/ str_ltb b a = true.
Proof.
  destruct (str_ltb a b) eqn:E1; [right; left; reflexivity|].
  destruct (str_ltb b a) eqn:E2; [right; right; reflexivity|].
  left. apply ltb_total; assumption.
Qed.

(* ---------------------------------------------------------------- the order *)
(* "in name order, with all / all_others last" *)
Definition before (k k' : str) : Prop :=
  (is_catch_all k = false /\ is_catch_all k' = true) \/
  (is_catch_all k = false /\ is_catch_all k' = false /\ str_lt k k').

Lemma conf_less_before a b : conf_less a b = true <-> before a b.
Proof.
  unfold conf_less, before.
  destruct (is_catch_all a) eqn:Ea, (is_catch_all b) eqn:Eb; rewrite <- ?str_ltb_spec.
  - split; [discriminate|]. intros [[H _]|[H _]]; discriminate.
  - split; [discriminate|]. intros [[H _]|[H _]]; discriminate.
  - split; [intros _; left; split; reflexivity|reflexivity].
  - split; [intros H; right; repeat split; exact H|]. intros [[_ H]|[_ [_ H]]]; [discriminate|exact H].
Qed.

(* a <= b in the preorder induced by the comparator: not (b less a) *)
Definition cle (a b : str) : Prop := conf_less b a = false.

Lemma conf_less_irrefl a : conf_less a a = false.
Proof. unfold conf_less. destruct (is_catch_all a); [reflexivity|apply ltb_irrefl]. Qed.

Lemma conf_less_asym a b : conf_less a b = true -> conf_less b a = false.
Proof.
  unfold conf_less. destruct (is_catch_all a), (is_catch_all b); try discriminate; try reflexivity.
  apply ltb_asym.
Qed.

Lemma cle_refl a : cle a a.
Proof. apply conf_less_irrefl. Qed.

Lemma cle_trans a b c : cle a b -> cle b c -> cle a c.
Proof.
  unfold cle, conf_less.
  destruct (is_catch_all a), (is_catch_all b), (is_catch_all c); try discriminate; try reflexivity.
  intros H1 H2. destruct (str_ltb c a) eqn:E; [|reflexivity].
  destruct (ltb_tricho a b) as [->|[H|H]]; [congruence| |congruence].
  rewrite (ltb_trans _ _ _ E H) in H2. discriminate.
Qed.

Lemma cle_antisym a b :
  cle a b -> cle b a -> (is_catch_all a = true -> is_catch_all b = true -> a = b) -> a = b.
Proof.
  unfold cle, conf_less. intros H1 H2 Hc.
  destruct (is_catch_all a), (is_catch_all b); try discriminate.
  - apply Hc; reflexivity.
  - apply ltb_total; assumption.
Qed.

(* the catch-all aliases: Conf.Validate refuses more than one of all / all_others / ~^.*$ *)
Definition at_most_one_catch_all {C} (cs : list (str * C)) : Prop :=
  forall k k', In k (map fst cs) -> In k' (map fst cs) ->
    is_catch_all k = true -> is_catch_all k' = true -> k = k'.

Lemma cle_neq_before a b :
  cle a b -> a <> b -> (is_catch_all a = true -> is_catch_all b = true -> a = b) -> before a b.
Proof.
  intros H Hne Hc. apply conf_less_before. revert H. unfold cle, conf_less.
  destruct (is_catch_all a), (is_catch_all b); try discriminate; try reflexivity.
  - intros _. exfalso. apply Hne, Hc; reflexivity.
  - intros H. destruct (ltb_tricho a b) as [E|[E|E]]; [contradiction|exact E|congruence].
Qed.

Lemma before_cle a b : before a b -> cle a b.
Proof. intros H. apply conf_less_asym, conf_less_before, H. Qed.

Section Find.
  Context {C : Type}.
  Variable m : str -> str -> option (list str).
  Notation entry := (str * C)%type.

  Definition ele (x y : entry) : Prop := cle (fst x) (fst y).

  (* ---- lookup ---- *)
  Lemma lookup_none (cs : list entry) n : lookup cs n = None <-> ~ In n (map fst cs).
  Proof.
    induction cs as [|[k c] cs IH]; simpl.
    - split; [intros _ []|reflexivity].
    - destruct (str_eqb k n) eqn:E.
      + apply str_eqb_eq in E. split; [discriminate|]. intros H. exfalso. apply H. left; exact E.
      + apply str_eqb_neq in E. rewrite IH. split.
        * intros H [H1|H1]; [contradiction|contradiction].
        * intros H H1. apply H. right; exact H1.
  Qed.

  Lemma lookup_some_in (cs : list entry) n c : lookup cs n = Some c -> In (n, c) cs.
  Proof.
    induction cs as [|[k c0] cs IH]; simpl; [discriminate|].
    destruct (str_eqb k n) eqn:E.
    - apply str_eqb_eq in E. intros H; inversion H; subst. left; reflexivity.
    - intros H. right. apply IH, H.
  Qed.

  Lemma in_lookup (cs : list entry) n c : NoDup (map fst cs) -> In (n, c) cs -> lookup cs n = Some c.
  Proof.
    induction cs as [|[k c0] cs IH]; simpl; intros Hnd Hin; [contradiction|].
    inversion Hnd as [|? ? Hnotin Hnd']; subst.
    destruct (str_eqb k n) eqn:E.
    - apply str_eqb_eq in E. subst. destruct Hin as [Hin|Hin]; [inversion Hin; reflexivity|].
      exfalso. apply Hnotin. apply (in_map fst) in Hin. exact Hin.
    - apply str_eqb_neq in E. destruct Hin as [Hin|Hin]; [inversion Hin; subst; contradiction|].
      apply IH; assumption.
  Qed.

  Lemma nodup_fst_inj (l : list entry) k c c' :
    NoDup (map fst l) -> In (k, c) l -> In (k, c') l -> c = c'.
  Proof.
    intros Hnd H1 H2. apply (in_lookup _ _ _ Hnd) in H1. apply (in_lookup _ _ _ Hnd) in H2. congruence.
  Qed.

  Lemma lookup_perm (cs cs' : list entry) n :
    NoDup (map fst cs) -> Permutation cs cs' -> lookup cs n = lookup cs' n.
  Proof.
    intros Hnd Hp.
    assert (Hnd' : NoDup (map fst cs')).
    { eapply Permutation_NoDup; [apply Permutation_map; exact Hp|exact Hnd]. }
    destruct (lookup cs n) as [c|] eqn:E.
    - apply lookup_some_in in E. symmetry. apply in_lookup; [exact Hnd'|].
      eapply Permutation_in; eassumption.
    - symmetry. apply lookup_none. apply lookup_none in E. intros H. apply E.
      eapply Permutation_in; [apply Permutation_map, Permutation_sym, Hp|exact H].
  Qed.

  (* ---- sorting ---- *)
  Lemma insert_perm x (l : list entry) : Permutation (insert x l) (x :: l).
  Proof.
    induction l as [|y l IH]; simpl; [reflexivity|].
    destruct (conf_less (fst x) (fst y)); [reflexivity|].
    rewrite IH. apply perm_swap.
  Qed.

  Lemma sort_perm (l : list entry) : Permutation (sort_confs l) l.
  Proof.
    induction l as [|x l IH]; simpl; [reflexivity|].
    rewrite insert_perm. constructor. exact IH.
  Qed.

  Lemma insert_sorted x (l : list entry) :
    StronglySorted ele l -> StronglySorted ele (insert x l).
  Proof.
    induction l as [|y l IH]; simpl; intros Hs.
    - constructor; constructor.
    - inversion Hs as [|? ? Hs' Hall]; subst.
      destruct (conf_less (fst x) (fst y)) eqn:E.
      + constructor; [exact Hs|]. constructor.
        * apply conf_less_asym. exact E.
        * rewrite Forall_forall in *. intros z Hz.
          eapply cle_trans; [apply conf_less_asym; exact E|apply Hall, Hz].
      + constructor; [apply IH, Hs'|].
        rewrite Forall_forall in *. intros z Hz.
        apply (Permutation_in _ (insert_perm x l)) in Hz. destruct Hz as [<-|Hz].
        * exact E.
        * apply Hall, Hz.
  Qed.

  Lemma sort_sorted (l : list entry) : StronglySorted ele (sort_confs l).
  Proof.
    induction l as [|x l IH]; simpl; [constructor|apply insert_sorted, IH].
  Qed.

  Lemma sorted_perm_unique (l1 l2 : list entry) :
    StronglySorted ele l1 -> StronglySorted ele l2 -> Permutation l1 l2 ->
    (forall x y, In x l1 -> In y l1 -> ele x y -> ele y x -> x = y) ->
    l1 = l2.
  Proof.
    revert l2; induction l1 as [|a l1 IH]; intros l2 H1 H2 Hp Hanti.
    - apply Permutation_nil in Hp. subst; reflexivity.
    - destruct l2 as [|b l2]; [apply Permutation_sym, Permutation_nil in Hp; discriminate|].
      inversion H1 as [|? ? H1' Hall1]; subst. inversion H2 as [|? ? H2' Hall2]; subst.
      assert (a = b) as ->.
      { assert (Ha : In a (b :: l2)) by (eapply Permutation_in; [exact Hp|left; reflexivity]).
        assert (Hb : In b (a :: l1)) by (eapply Permutation_in; [apply Permutation_sym, Hp|left; reflexivity]).
        destruct Ha as [Ha|Ha]; [symmetry; exact Ha|].
        destruct Hb as [Hb|Hb]; [exact Hb|].
        rewrite Forall_forall in Hall1, Hall2.
        apply Hanti; [left; reflexivity|right; exact Hb|apply Hall1, Hb|apply Hall2, Ha]. }
      f_equal. apply IH; [exact H1'|exact H2'|eapply Permutation_cons_inv; exact Hp|].
      intros x y Hx Hy. apply Hanti; right; assumption.
  Qed.

  Lemma ele_antisym_on (l : list entry) :
    NoDup (map fst l) -> at_most_one_catch_all l ->
    forall x y, In x l -> In y l -> ele x y -> ele y x -> x = y.
  Proof.
    intros Hnd Hamo [k c] [k' c'] Hx Hy H1 H2. unfold ele in *; simpl in *.
    assert (k = k').
    { apply cle_antisym; [exact H1|exact H2|].
      apply Hamo; [apply (in_map fst) in Hx; exact Hx|apply (in_map fst) in Hy; exact Hy]. }
    subst. f_equal. eapply nodup_fst_inj; eassumption.
  Qed.

  (* ---- regex_confs ---- *)
  Lemma regex_confs_in (cs : list entry) k c :
    In (k, c) (regex_confs cs) <-> In (k, c) cs /\ is_regex_key k = true.
  Proof. unfold regex_confs. rewrite filter_In. simpl. reflexivity. Qed.

  Lemma filter_keys_incl (f : entry -> bool) (cs : list entry) k :
    In k (map fst (filter f cs)) -> In k (map fst cs).
  Proof.
    intros H. apply in_map_iff in H as [x [Hx Hin]]. apply filter_In in Hin as [Hin _].
    apply in_map_iff. exists x. split; assumption.
  Qed.

  Lemma filter_keys_nodup (f : entry -> bool) (cs : list entry) :
    NoDup (map fst cs) -> NoDup (map fst (filter f cs)).
  Proof.
    induction cs as [|x cs IH]; simpl; intros H; [constructor|].
    inversion H as [|? ? Hn Hnd]; subst. destruct (f x); simpl.
    - constructor; [|apply IH, Hnd]. intros Hin. apply Hn. eapply filter_keys_incl, Hin.
    - apply IH, Hnd.
  Qed.

  Definition sorted_regex (cs : list entry) : list entry := sort_confs (regex_confs cs).

  Lemma sorted_regex_in cs k c :
    In (k, c) (sorted_regex cs) <-> In (k, c) cs /\ is_regex_key k = true.
  Proof.
    unfold sorted_regex. rewrite <- regex_confs_in. split; intros H.
    - eapply Permutation_in; [apply sort_perm|exact H].
    - eapply Permutation_in; [apply Permutation_sym, sort_perm|exact H].
  Qed.

  Lemma sorted_regex_nodup cs : NoDup (map fst cs) -> NoDup (map fst (sorted_regex cs)).
  Proof.
    intros H. eapply Permutation_NoDup.
    - apply Permutation_map, Permutation_sym, sort_perm.
    - apply filter_keys_nodup, H.
  Qed.

  Lemma sorted_regex_amo cs : at_most_one_catch_all cs -> at_most_one_catch_all (sorted_regex cs).
  Proof.
    intros H k k' Hk Hk'. apply H.
    - eapply filter_keys_incl. eapply Permutation_in; [apply Permutation_map, sort_perm|exact Hk].
    - eapply filter_keys_incl. eapply Permutation_in; [apply Permutation_map, sort_perm|exact Hk'].
  Qed.

  (* sort.Slice's postcondition: no later element is `less` than an earlier one *)
  Definition sorted_by_less (l : list entry) : Prop :=
    StronglySorted (fun x y => conf_less (fst y) (fst x) = false) l.

  (* any sorted permutation of the regex configurations is THE sorted list: the algorithm does not matter *)
  Lemma any_sort_unique cs (l : list entry) :
    NoDup (map fst cs) -> at_most_one_catch_all cs ->
    Permutation l (regex_confs cs) -> sorted_by_less l -> l = sort_confs (regex_confs cs).
  Proof.
    intros Hnd Hamo Hp Hs. apply sorted_perm_unique.
    - exact Hs.
    - apply sort_sorted.
    - rewrite Hp. apply Permutation_sym, sort_perm.
    - apply ele_antisym_on.
      + eapply Permutation_NoDup; [apply Permutation_map, Permutation_sym, Hp|].
        apply filter_keys_nodup, Hnd.
      + intros k k' Hk Hk'. apply Hamo; eapply filter_keys_incl;
          (eapply Permutation_in; [apply Permutation_map, Hp|]); assumption.
  Qed.

  (* ---- first_match ---- *)
  Lemma first_match_none (l : list entry) n :
    first_match m l n = None <-> forall k c, In (k, c) l -> m k n = None.
  Proof.
    induction l as [|[k0 c0] l IH]; simpl.
    - split; [intros _ ? ? []|reflexivity].
    - destruct (m k0 n) as [g|] eqn:E.
      + split; [discriminate|]. intros H. rewrite (H k0 c0 (or_introl eq_refl)) in E. discriminate.
      + rewrite IH. split.
        * intros H k c [Hin|Hin]; [inversion Hin; subst; exact E|eapply H, Hin].
        * intros H k c Hin. eapply H. right; exact Hin.
  Qed.

  Lemma first_match_some (l : list entry) n k c g :
    StronglySorted ele l -> first_match m l n = Some (k, c, g) ->
    In (k, c) l /\ m k n = Some g /\ forall k' c', In (k', c') l -> m k' n <> None -> cle k k'.
  Proof.
    induction l as [|[k0 c0] l IH]; simpl; intros Hs H; [discriminate|].
    inversion Hs as [|? ? Hs' Hall]; subst.
    destruct (m k0 n) as [g0|] eqn:E.
    - inversion H; subst. split; [left; reflexivity|]. split; [exact E|].
      intros k' c' [Hin|Hin] _; [inversion Hin; subst; apply cle_refl|].
      rewrite Forall_forall in Hall. apply (Hall (k', c') Hin).
    - destruct (IH Hs' H) as [Hin [Hm Hleast]]. split; [right; exact Hin|]. split; [exact Hm|].
      intros k' c' [Hin'|Hin'] Hne; [inversion Hin'; subst; contradiction|].
      eapply Hleast; eassumption.
  Qed.

  Lemma first_match_least (l : list entry) n k c g :
    StronglySorted ele l ->
    (forall x y, In x l -> In y l -> ele x y -> ele y x -> x = y) ->
    In (k, c) l -> m k n = Some g ->
    (forall k' c', In (k', c') l -> m k' n <> None -> cle k k') ->
    first_match m l n = Some (k, c, g).
  Proof.
    intros Hs Hanti Hin Hm Hleast.
    destruct (first_match m l n) as [[[k1 c1] g1]|] eqn:E.
    - destruct (first_match_some _ _ _ _ _ Hs E) as [Hin1 [Hm1 Hleast1]].
      assert (Heq : (k1, c1) = (k, c)).
      { apply Hanti; [exact Hin1|exact Hin| |].
        - apply (Hleast1 k c Hin). congruence.
        - apply (Hleast k1 c1 Hin1). congruence. }
      inversion Heq; subst. congruence.
    - rewrite first_match_none in E. rewrite (E k c Hin) in Hm. discriminate.
  Qed.

  (* ---- the theorems ---- *)
  Lemma find_exact (cs : list entry) n c :
    NoDup (map fst cs) -> In (n, c) cs -> find m cs n = Found n c [].
  Proof. intros Hnd Hin. unfold find. rewrite (in_lookup _ _ _ Hnd Hin). reflexivity. Qed.

  (* what a Found answer means in general *)
  Lemma find_found_cases (cs : list entry) n k c g :
    find m cs n = Found k c g ->
    (k = n /\ g = [] /\ lookup cs n = Some c) \/
    (lookup cs n = None /\ valid_name n = true /\ first_match m (sorted_regex cs) n = Some (k, c, g)).
  Proof.
    unfold find, sorted_regex. destruct (lookup cs n) as [c0|] eqn:El.
    - intros H; inversion H; subst. left. repeat split.
    - destruct (valid_name n); [|discriminate].
      destruct (first_match m (sort_confs (regex_confs cs)) n) as [[[k1 c1] g1]|] eqn:Ef; [|discriminate].
      intros H; inversion H; subst. right. repeat split.
  Qed.

  Lemma find_first_regex (cs : list entry) n k c g :
    ~ In n (map fst cs) -> valid_name n = true ->
    NoDup (map fst cs) -> at_most_one_catch_all cs ->
    (find m cs n = Found k c g <->
     In (k, c) cs /\ is_regex_key k = true /\ m k n = Some g /\
     forall k' c', In (k', c') cs -> is_regex_key k' = true -> m k' n <> None -> k' = k \/ before k k').
  Proof.
    intros Hnot Hv Hnd Hamo.
    assert (Hl : lookup cs n = None) by (apply lookup_none; exact Hnot).
    assert (Hanti := ele_antisym_on _ (sorted_regex_nodup _ Hnd) (sorted_regex_amo _ Hamo)).
    assert (Hs : StronglySorted ele (sorted_regex cs)) by apply sort_sorted.
    split.
    - intros H. apply find_found_cases in H as [[_ [_ H]]|[_ [_ H]]]; [congruence|].
      destruct (first_match_some _ _ _ _ _ Hs H) as [Hin [Hm Hleast]].
      apply sorted_regex_in in Hin as [Hin Hre]. repeat split; try assumption.
      intros k' c' Hin' Hre' Hne.
      destruct (str_eq_dec k' k) as [E|E]; [left; exact E|right].
      apply cle_neq_before.
      + apply (Hleast k' c'); [apply sorted_regex_in; split; assumption|exact Hne].
      + intros E'; apply E; symmetry; exact E'.
      + apply Hamo; [apply (in_map fst) in Hin; exact Hin|apply (in_map fst) in Hin'; exact Hin'].
    - intros [Hin [Hre [Hm Hleast]]]. unfold find. rewrite Hl, Hv.
      fold (sorted_regex cs).
      rewrite (first_match_least (sorted_regex cs) n k c g); try assumption; [reflexivity| |].
      + apply sorted_regex_in; split; assumption.
      + intros k' c' Hin' Hne. apply sorted_regex_in in Hin' as [Hin' Hre'].
        destruct (Hleast k' c' Hin' Hre' Hne) as [->|Hb]; [apply cle_refl|apply before_cle, Hb].
  Qed.

  Lemma find_err_invalid (cs : list entry) n :
    find m cs n = ErrInvalid <-> ~ In n (map fst cs) /\ valid_name n = false.
  Proof.
    unfold find. rewrite <- lookup_none. destruct (lookup cs n) as [c|].
    - split; [discriminate|intros [H _]; discriminate].
    - destruct (valid_name n).
      + destruct (first_match m (sort_confs (regex_confs cs)) n) as [[[? ?] ?]|];
          (split; [discriminate|intros [_ H]; discriminate]).
      + split; intros _; [split; reflexivity|reflexivity].
  Qed.

  Lemma find_err_not_configured (cs : list entry) n :
    find m cs n = ErrNotConfigured <->
    ~ In n (map fst cs) /\ valid_name n = true /\
    forall k c, In (k, c) cs -> is_regex_key k = true -> m k n = None.
  Proof.
    unfold find. rewrite <- lookup_none. destruct (lookup cs n) as [c|].
    - split; [discriminate|intros [H _]; discriminate].
    - destruct (valid_name n); [|split; [discriminate|intros [_ [H _]]; discriminate]].
      fold (sorted_regex cs).
      destruct (first_match m (sorted_regex cs) n) as [[[k1 c1] g1]|] eqn:E.
      + split; [discriminate|]. intros [_ [_ H]]. exfalso.
        assert (Hs : StronglySorted ele (sorted_regex cs)) by apply sort_sorted.
        destruct (first_match_some _ _ _ _ _ Hs E) as [Hin [Hm _]].
        apply sorted_regex_in in Hin as [Hin Hre]. rewrite (H _ _ Hin Hre) in Hm. discriminate.
      + rewrite first_match_none in E. split; intros _; [|reflexivity].
        repeat split. intros k c Hin Hre. apply (E k c). apply sorted_regex_in; split; assumption.
  Qed.

  Definition is_rejected (r : result C) : Prop := r = ErrInvalid \/ r = ErrNotConfigured.

  Lemma find_reject_iff (cs : list entry) n :
    is_rejected (find m cs n) <->
    ~ In n (map fst cs) /\
    (valid_name n = false \/ forall k c, In (k, c) cs -> is_regex_key k = true -> m k n = None).
  Proof.
    unfold is_rejected. rewrite find_err_invalid, find_err_not_configured. split.
    - intros [[H1 H2]|[H1 [H2 H3]]]; (split; [exact H1|]); [left; exact H2|right; exact H3].
    - intros [H1 [H2|H2]]; [left; split; assumption|].
      destruct (valid_name n) eqn:E; [right; repeat split; assumption|left; split; [assumption|reflexivity]].
  Qed.

  Lemma find_perm (cs cs' : list entry) n :
    NoDup (map fst cs) -> Permutation cs cs' -> at_most_one_catch_all cs ->
    find m cs n = find m cs' n.
  Proof.
    intros Hnd Hp Hamo. unfold find. rewrite (lookup_perm cs cs' n Hnd Hp).
    replace (sort_confs (regex_confs cs')) with (sort_confs (regex_confs cs)); [reflexivity|].
    symmetry. apply any_sort_unique; try assumption.
    - rewrite sort_perm. unfold regex_confs. apply Permutation_sym.
      clear -Hp. induction Hp; simpl.
      + reflexivity.
      + destruct (is_regex_key (fst x)); [constructor|]; exact IHHp.
      + destruct (is_regex_key (fst x)), (is_regex_key (fst y)); try reflexivity. apply perm_swap.
      + etransitivity; eassumption.
    - apply sort_sorted.
  Qed.

  (* the answer does not depend on how the candidates were sorted *)
  Lemma find_any_sort (cs l : list entry) n :
    NoDup (map fst cs) -> at_most_one_catch_all cs ->
    Permutation l (regex_confs cs) -> sorted_by_less l ->
    first_match m l n = first_match m (sort_confs (regex_confs cs)) n.
  Proof. intros Hnd Hamo Hp Hs. rewrite (any_sort_unique cs l Hnd Hamo Hp Hs). reflexivity. Qed.

  (* without the catch-all hypothesis the comparator ties all with all_others: order matters *)
End Find.

Definition k_foo1 : str := [126; 94; 40; 102; 41; 111; 111; 36].      (* ~^(f)oo$ *)
Definition k_foo2 : str := [126; 94; 102; 40; 111; 111; 41; 36].      (* ~^f(oo)$ *)
Definition n_foo : str := [102; 111; 111].
Definition g_f : str := [102].
Definition g_oo : str := [111; 111].

(* an oracle for the examples: the three regexps above on the name "foo" *)
Definition ex_oracle (k n : str) : option (list str) :=
  if str_eqb n n_foo then
    if str_eqb k k_foo1 then Some [n_foo; g_f]
    else if str_eqb k k_foo2 then Some [n_foo; g_oo]
    else if is_catch_all k then Some [n_foo]
    else None
  else if is_catch_all k then Some [n] else None.

Lemma tie_refuted :
  exists (cs cs' : list (str * Z)) n,
    NoDup (map fst cs) /\ Permutation cs cs' /\ find ex_oracle cs n <> find ex_oracle cs' n.
Proof.
  exists [(s_all, 1); (s_all_others, 2)], [(s_all_others, 2); (s_all, 1)], n_foo.
  split; [|split].
  - repeat constructor; simpl; intuition discriminate.
  - apply perm_swap.
  - vm_compute. discriminate.
Qed.
