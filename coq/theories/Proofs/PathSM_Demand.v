(* Path event loop: the on-demand command / source is never stopped while a reader is attached (C19).

   `quiet_b`: a close-after timer is armed (automaton `Closing`) only while no reader is attached.  It is an
   invariant of the loop on top of `inv_b`: doAddPublisher / doSourceStaticSetReady call ScheduleClose BEFORE
   consumeOnHoldRequests, and addReaderPost takes the automaton back from `Closing` to `Ready` (disarming the
   timer) for every reader it attaches, held ones included (`consume_cases`: either nobody was attached or the
   result went through `bump_on_demand`); doAddReader does the same for a direct reader; doRemoveReader arms the
   timer only when the last reader left.
   `stop_ok`: in every step in which the demand goes from running to stopped (close-after timer, start
   timeout, source gone, Close) no reader is attached afterwards. *)
From Coq Require Import List ZArith Bool Lia.
Require Import MTX.Lib.Trace MTX.Model.PathSM MTX.Proofs.PathSM MTX.Proofs.PathSM_Attach MTX.Proofs.PathSM_List.
Import ListNotations.
Local Open Scope Z_scope.

Definition quiet_b (s : pstate) : bool :=
  impb (ods_eqb (s_pubState s) OdClosing || ods_eqb (s_ssState s) OdClosing) (isnil (s_readers s)).

(* the runOnDemand command runs (onUnDemandHook is set) / the on-demand static source runs *)
Definition demand_on (s : pstate) : bool :=
  s_hUnDemand s || (od_static (s_conf s) && s_ssRunning s).

Definition stop_ok (s s' : pstate) : bool :=
  impb (demand_on s && negb (demand_on s')) (isnil (s_readers s')).

Definition dq (s s' : pstate) : bool := quiet_b s' && stop_ok s s'.

Ltac unfq := unfold dq, quiet_b, stop_ok, demand_on.

(* handlers stuck on list conditions in the middle *)
Ltac q_live H Q :=
  unfq; unfold quiet_b in Q; cbn in Q; enum H; unf; cbn; split_ifs; unfold od_static, od_pub; cbn;
  rewrite ?Z.eqb_refl; try reflexivity;
  repeat match goal with
         | Hm : match ?l with [] => _ | _ :: _ => _ end = _ |- _ => destruct l; try discriminate Hm; clear Hm
         end; try reflexivity.
(* straight-line handlers *)
Ltac q_live' H Q :=
  unfq; unfold quiet_b in Q; cbn in Q; enum H; red_goal; split_atoms; try reflexivity.

Lemma dq_refl s : quiet_b s = true -> dq s s = true.
Proof.
  intros Q. unfold dq. rewrite Q. unfold stop_ok. destruct (demand_on s); reflexivity.
Qed.

Lemma dq_remove_reader fx s r :
  inv_b fx s = true -> quiet_b s = true -> dq s (fst (step_gen fx s (RemoveReader r))) = true.
Proof. intros H Q. start s. destruct cl; [apply dq_refl; exact Q|]. q_live H Q. Qed.

Lemma dq_describe fx s q :
  inv_b fx s = true -> quiet_b s = true -> dq s (fst (step_gen fx s (Describe q))) = true.
Proof. intros H Q. start s. destruct cl; [apply dq_refl; exact Q|]. q_live H Q. Qed.

Lemma dq_add_reader fx s q r :
  inv_b fx s = true -> quiet_b s = true -> dq s (fst (step_gen fx s (AddReader q r))) = true.
Proof. intros H Q. start s. destruct cl; [apply dq_refl; exact Q|]. q_live H Q. Qed.

Lemma dq_remove_publisher fx s p :
  inv_b fx s = true -> quiet_b s = true -> dq s (fst (step_gen fx s (RemovePublisher p))) = true.
Proof. intros H Q. start s. destruct cl; [apply dq_refl; exact Q|]. q_live' H Q. Qed.

Lemma dq_static_not_ready fx s :
  inv_b fx s = true -> quiet_b s = true -> dq s (fst (step_gen fx s StaticNotReady)) = true.
Proof. intros H Q. start s. destruct cl; [apply dq_refl; exact Q|]. q_live' H Q. Qed.

Lemma dq_timer fx s t :
  inv_b fx s = true -> quiet_b s = true -> dq s (fst (step_gen fx s (TimerFire t))) = true.
Proof. intros H Q. start s. destruct cl; [apply dq_refl; exact Q|]. destruct t; q_live' H Q. Qed.

Lemma dq_close fx s :
  inv_b fx s = true -> quiet_b s = true -> dq s (fst (step_gen fx s Close)) = true.
Proof. intros H Q. start s. destruct cl; [apply dq_refl; exact Q|]. q_live' H Q. Qed.

