(* Path event loop: the on-demand command / source is never stopped while a reader is attached (C19), part 2:
   doAddPublisher / doSourceStaticSetReady (consumeOnHoldRequests), every operation, every history. *)
From Coq Require Import List ZArith Bool Lia.
Require Import MTX.Lib.Trace MTX.Model.PathSM MTX.Proofs.PathSM MTX.Proofs.PathSM_Attach MTX.Proofs.PathSM_List
  MTX.Proofs.PathSM_Demand.
Import ListNotations.
Local Open Scope Z_scope.

(* ---- doAddPublisher / doSourceStaticSetReady (consumeOnHoldRequests) ------------------------------ *)
Arguments dq : simpl never.

Ltac after_consume_q :=
  lazymatch goal with
  | |- context [consume_on_hold ?S4] =>
      let E := fresh "E" in let rd' := fresh "rd'" in let Hne := fresh "Hne" in
      change (let (x, _) := consume_on_hold S4 in x) with (fst (consume_on_hold S4));
      destruct (consume_cases S4) as [E|(rd' & Hne & E)]; rewrite E; clear E;
      [|destruct rd' as [|? ?]; [congruence|]]; unfq; red_goal; rewrite ?Z.eqb_refl; reflexivity
  | |- _ => unfq; red_goal; rewrite ?Z.eqb_refl; reflexivity
  end.

Lemma dq_attach s0 s p ok :
  inv_b false s = true -> s_closed s = false -> s_source s = None -> c_static (s_conf s) = false ->
  s_hUnDemand s0 = s_hUnDemand s -> s_conf s0 = s_conf s ->
  dq s0 (attached p ok s) = true.
Proof.
  intros H Hc Hs Hst Hu Hcf.
  assert (G : dq s (attached p ok s) = true).
  { clear Hu Hcf s0. start s. cbn in Hc, Hs, Hst. subst. destruct ok; enum H; red_state; after_consume_q. }
  revert G. unfold dq, stop_ok, demand_on. rewrite Hu, Hcf.
  unfold od_static. rewrite Hst. cbn [andb]. rewrite !orb_false_r. exact (fun x => x).
Qed.

Lemma erp_hud s : s_hUnDemand (fst (execute_remove_publisher s)) = s_hUnDemand s.
Proof.
  destruct s as [[? ? ? ? ? ? ? ? ? ? a] cl ? ? ? ? ? ? ? ? ? ? ? ? ? ? ? hua hof ?].
  destruct a, hof, hua, cl; reflexivity.
Qed.

Lemma dq_add_publisher fx s q p ok :
  inv_b fx s = true -> quiet_b s = true -> dq s (fst (step_gen fx s (AddPublisher q p ok))) = true.
Proof.
  intros H Q. unfold step_gen. destruct (s_closed s) eqn:Ecl; [apply dq_refl; exact Q|]. rewrite fst_add_publisher.
  destruct (c_static (s_conf s)) eqn:Est; [apply dq_refl; exact Q|].
  pose proof (inv_weaken _ _ H) as Hw.
  destruct (s_source s) as [old|] eqn:Esrc.
  - destruct (negb (c_override (s_conf s))); [apply dq_refl; exact Q|].
    destruct (erp_fields s) as (F1 & F2 & F3).
    assert (Hua : s_hUnavail s = true).
    { clear - H Ecl Est Esrc. start s. cbn in *. subst. enum H; reflexivity. }
    apply dq_attach.
    + apply fin_erp with (p := old); assumption.
    + rewrite F2, Ecl, Hua, andb_false_r. reflexivity.
    + exact F1.
    + rewrite F3. exact Est.
    + symmetry. apply erp_hud.
    + symmetry. exact F3.
  - apply dq_attach; try assumption; reflexivity.
Qed.

Lemma dq_static_ready fx s q :
  inv_b fx s = true -> quiet_b s = true -> dq s (fst (step_gen fx s (StaticReady q))) = true.
Proof.
  intros H Q. unfold step_gen. destruct (s_closed s) eqn:Ecl; [apply dq_refl; exact Q|]. rewrite fst_static_ready.
  destruct (s_ssRunning s && negb (s_instReady s)) eqn:Erun; [|apply dq_refl; exact Q].
  clear Q. start s. cbn in Ecl, Erun. subst cl.
  enum H; try discriminate Erun; red_state; after_consume_q.
Qed.

Lemma dq_step fx s o :
  inv_b fx s = true -> quiet_b s = true -> dq s (fst (step_gen fx s o)) = true.
Proof.
  destruct o.
  - apply dq_describe.
  - apply dq_add_publisher.
  - apply dq_remove_publisher.
  - apply dq_add_reader.
  - apply dq_remove_reader.
  - apply dq_static_ready.
  - apply dq_static_not_ready.
  - apply dq_timer.
  - intros H Q. unfold step_gen. destruct (s_closed s); apply dq_refl; exact Q.
  - apply dq_close.
Qed.

(* ---- along every history ---------------------------------------------------------------------- *)
Definition InvQ (fx : bool) (s : pstate) : Prop := Inv fx s /\ quiet_b s = true.

Lemma invq_init fx cf : conf_ok cf = true -> InvQ fx (init_state cf).
Proof.
  intros Hc. split; [apply inv_init; exact Hc|].
  destruct (init_fields cf) as [A _]. unfold quiet_b. rewrite A. cbn. apply Bool.orb_true_r || destruct (_ || _); reflexivity.
Qed.

Lemma invq_step fx s o : InvQ fx s -> InvQ fx (fst (step_gen fx s o)).
Proof.
  intros [Hi Q]. split; [apply inv_step; exact Hi|].
  destruct Hi as [Hb _]. pose proof (dq_step fx s o Hb Q) as D. unfold dq in D.
  apply andb_prop in D. exact (proj1 D).
Qed.

Theorem invq_run fx cf ops : conf_ok cf = true -> InvQ fx (final (step_gen fx) (init_state cf) ops).
Proof.
  intros Hc. apply invariant_lift; [intros s o; apply invq_step|]. apply invq_init. exact Hc.
Qed.

(* a close-after timer is armed only while no reader is attached *)
Lemma c19_close_timer_no_readers fx cf ops :
  conf_ok cf = true ->
  let s := final (step_gen fx) (init_state cf) ops in
  (s_pubCloseT s = true \/ s_ssCloseT s = true \/ s_pubState s = OdClosing \/ s_ssState s = OdClosing) ->
  s_readers s = [].
Proof.
  intros Hc s Ht. destruct (invq_run fx cf ops Hc) as [[Hb _] Q]. fold s in Hb, Q.
  destruct (s_closed s) eqn:Ecl.
  - clear - Hb Ecl. start s. cbn in Ecl. subst. unfold inv_b in Hb. cbn in Hb. unfold closed_b, no_holds_b in Hb. cbn in Hb.
    split_hyps. prune. reflexivity.
  - assert (Hcl : ods_eqb (s_pubState s) OdClosing || ods_eqb (s_ssState s) OdClosing = true).
    { clear - Hb Ecl Ht. start s. cbn in Ecl, Ht. subst.
      enum Hb; cbn in *; try reflexivity; destruct Ht as [X|[X|[X|X]]]; discriminate X. }
    unfold quiet_b in Q. rewrite Hcl in Q. cbn in Q. destruct (s_readers s); [reflexivity|discriminate Q].
Qed.

(* whenever a step takes the demand from running to stopped, no reader is attached after it *)
Lemma c19_stop_no_readers fx cf ops o :
  conf_ok cf = true ->
  let s := final (step_gen fx) (init_state cf) ops in
  let s' := fst (step_gen fx s o) in
  demand_on s = true -> demand_on s' = false -> s_readers s' = [].
Proof.
  intros Hc s s' Hon Hoff. destruct (invq_run fx cf ops Hc) as [[Hb _] Q]. fold s in Hb, Q.
  pose proof (dq_step fx s o Hb Q) as D. fold s' in D. unfold dq, stop_ok in D.
  apply andb_prop in D. destruct D as [_ D]. rewrite Hon, Hoff in D. cbn in D.
  destruct (s_readers s'); [reflexivity|discriminate D].
Qed.
