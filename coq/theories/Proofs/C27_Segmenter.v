(* C27 — proofs about the segmenter model (Model/C27_Segmenter.v): for ALL sample sequences the log is well formed
   (create n, parts of n, close n, create n+1, ...), no accepted sample is lost, parts respect the bounds the code
   enforces, and with one video track behind the first-key-frame gate every segment starts on a sync sample. *)
From Coq Require Import List ZArith Bool Lia.
Require Import MTX.Lib.IntWrap MTX.Model.C24_MulDiv MTX.Model.C27_Segmenter.
Import ListNotations.
Local Open Scope Z_scope.

(* ------------------------------------------------------------------------------------------------------------ *)
(* every function appends an explicit suffix to the log *)

Definition create_ops (g : sst) : list sop :=
  if g.(g_created) then [] else [SCreate g.(g_num) g.(g_start) g.(g_ntp)].
Definition close_part_ops (g : sst) : list sop :=
  match g.(g_cur) with
  | None => []
  | Some p => create_ops g ++ [SPart g.(g_num) (opart_of p)]
  end.
Definition close_part_seg (g : sst) : sst := match g.(g_cur) with None => g | Some _ => set_created g end.

Lemma close_part_spec g lg : close_part g lg = (close_part_seg g, lg ++ close_part_ops g).
Proof.
  unfold close_part, close_part_seg, close_part_ops, create_ops.
  destruct (g_cur g); [|now rewrite app_nil_r].
  destruct (g_created g); cbn [app]; now rewrite <- ?app_assoc.
Qed.

Definition seg_close_ops (g : sst) : list sop :=
  close_part_ops g ++
  (if (close_part_seg g).(g_created) then [SClose g.(g_num) (g.(g_end) - g.(g_start))] else []).
Lemma seg_close_spec g lg : seg_close g lg = lg ++ seg_close_ops g.
Proof.
  unfold seg_close, seg_close_ops. rewrite close_part_spec.
  assert (Hn : g_num (close_part_seg g) = g_num g /\ g_end (close_part_seg g) = g_end g
               /\ g_start (close_part_seg g) = g_start g).
  { unfold close_part_seg. destruct (g_cur g); auto. }
  destruct Hn as (-> & -> & ->).
  destruct (g_created (close_part_seg g)); now rewrite <- ?app_assoc, ?app_nil_r.
Qed.

(* formatFMP4Segment.write: does the current part get closed, the part the sample goes to, the log suffix *)
Definition sw_full (c : cfg) (g : sst) : bool :=
  match g.(g_cur) with Some p => p.(p_end) - p.(p_start) >=? c.(c_part_dur) | None => false end.
Definition sw_ops (c : cfg) (g : sst) : list sop := if sw_full c g then close_part_ops g else [].
Definition sw_part (c : cfg) (g : sst) (w : wsmp) : pst :=
  match g.(g_cur) with
  | None => new_part g.(g_nextpart) w.(w_dts)
  | Some p => if p.(p_end) - p.(p_start) >=? c.(c_part_dur) then new_part g.(g_nextpart) w.(w_dts) else p
  end.
Definition sw_created (c : cfg) (g : sst) : bool := g.(g_created) || sw_full c g.

Lemma seg_write_spec c rate g w lg :
  exists g', seg_write c rate g w lg =
             (g', lg ++ sw_ops c g, match part_write c g.(g_start) rate (sw_part c g w) w with Some _ => true | None => false end)
    /\ g_num g' = g_num g /\ g_start g' = g_start g /\ g_ntp g' = g_ntp g
    /\ g_created g' = sw_created c g
    /\ g_end g' = match part_write c g.(g_start) rate (sw_part c g w) w with
                   | Some _ => Z.max g.(g_end) w.(w_end) | None => g.(g_end) end
    /\ g_cur g' = Some (match part_write c g.(g_start) rate (sw_part c g w) w with Some p' => p' | None => sw_part c g w end).
Proof.
  unfold seg_write, sw_ops, sw_part, sw_created, sw_full.
  destruct (g_cur g) as [p|] eqn:Hc.
  - destruct (p_end p - p_start p >=? c_part_dur c) eqn:Hf.
    + rewrite close_part_spec. cbn [set_part g_cur g_start g_end g_nextpart].
      unfold close_part_seg, close_part_ops, create_ops. cbn [set_part g_cur g_created g_num g_start g_ntp set_created].
      destruct (part_write c (g_start g) rate (new_part (g_nextpart g) (w_dts w)) w) eqn:Hw;
        rewrite ?Hc; eexists; (split; [reflexivity|]); cbn; rewrite ?orb_true_r; auto 10.
    + cbn [set_part g_cur g_start g_end g_nextpart].
      destruct (part_write c (g_start g) rate p w) eqn:Hw;
        eexists; (split; [rewrite app_nil_r; reflexivity|]); cbn; rewrite ?orb_false_r; auto 10.
  - cbn [set_part g_cur g_start g_end g_nextpart].
    destruct (part_write c (g_start g) rate (new_part (g_nextpart g) (w_dts w)) w) eqn:Hw;
      eexists; (split; [rewrite app_nil_r; reflexivity|]); cbn; rewrite ?orb_false_r; auto 10.
Qed.

(* ------------------------------------------------------------------------------------------------------------ *)
(* what one formatFMP4Track.write call does to (segment, next segment number, log, accepted samples) *)

Definition sview := (option sst * Z * list sop * list wsmp)%type.
Definition view (x : st) : sview := (x.(x_seg), x.(x_nextseg), x.(x_log), x.(x_acc)).

Inductive ensure : option sst -> Z -> sst -> Z -> Prop :=
| ens_some g ns : ensure (Some g) ns g ns
| ens_none ns d n : ensure None ns (new_seg ns d n) (ns + 1).

Inductive sstep (c : cfg) : sview -> sview -> Prop :=
| S_none v : sstep c v v
| S_discard sg ns lg ac g0 ns0 : ensure sg ns g0 ns0 -> sstep c (sg, ns, lg, ac) (Some g0, ns0, lg, ac)
| S_fail sg ns lg ac g0 ns0 rate w g1 lg1 :
    ensure sg ns g0 ns0 -> seg_write c rate g0 w lg = (g1, lg1, false) ->
    sstep c (sg, ns, lg, ac) (Some g1, ns0, lg1, ac)
| S_ok sg ns lg ac g0 ns0 rate w g1 lg1 :
    ensure sg ns g0 ns0 -> seg_write c rate g0 w lg = (g1, lg1, true) ->
    sstep c (sg, ns, lg, ac) (Some g1, ns0, lg1, ac ++ [w])
| S_switch sg ns lg ac g0 ns0 rate w g1 lg1 d n :
    ensure sg ns g0 ns0 -> seg_write c rate g0 w lg = (g1, lg1, true) ->
    sstep c (sg, ns, lg, ac) (Some (new_seg ns0 d n), ns0 + 1, seg_close g1 lg1, ac ++ [w]).

Lemma ensure_of (sg : option sst) ns d n :
  ensure sg ns (match sg with Some g => g | None => new_seg ns d n end)
         (match sg with Some _ => ns | None => ns + 1 end).
Proof. destruct sg; constructor. Qed.

Lemma track_write_sstep c t s x x' o : track_write c t s x = (x', o) -> sstep c (view x) (view x').
Proof.
  unfold track_write, track_write_gen, view.
  destruct (nth_error (c_tracks c) t) as [tc|]; [|intros [= <- _]; apply S_none].
  destruct (nth_error (x_trk x) t) as [tr|]; [|intros [= <- _]; apply S_none].
  destruct (t_next tr) as [prev|]; [|intros [= <- _]; apply S_none].
  set (d0 := s_dts s - s_dts prev). set (s' := if d0 <? 0 then set_dts s (s_dts prev) else s).
  set (dur := wrapu32 _). set (dts := ts2dur (s_dts prev) (tc_rate tc)).
  set (tr2 := if t_init tr then _ else _).
  destruct (t_init tr && _); [intros [= <- _]; apply S_none|].
  pose proof (ensure_of (x_seg x) (x_nextseg x) dts (s_ntp prev)) as He.
  set (g0 := match x_seg x with Some g => g | None => _ end) in *.
  set (ns0 := match x_seg x with Some _ => _ | None => _ end) in *.
  destruct (match x_seg x with Some g => dts - g_start g <? 0 | None => false end).
  { intros [= <- _]. cbn. now apply S_discard. }
  destruct (t_skip tr2 && s_nonsync prev).
  { intros [= <- _]. cbn. now apply S_discard. }
  set (w := Build_wsmp _ _ _ _ _ _).
  destruct (seg_write c (tc_rate tc) g0 w (x_log x)) as [[g1 lg1] ok] eqn:Hw.
  destruct ok; cbn [negb].
  - destruct (_ && _ && _).
    + destruct (next_start _) as [ontp odts]. intros [= <- _]. cbn. eapply S_switch; eauto.
    + intros [= <- _]. cbn. eapply S_ok; eauto.
  - intros [= <- _]. cbn. eapply S_fail; eauto.
Qed.

(* simpler: a direct classification of track_write *)
Lemma track_write_cases c t s x x' o : track_write c t s x = (x', o) ->
  (exists sg ns lg ac g0 ns0 rate w g1 lg1, view x = (sg, ns, lg, ac) /\ ensure sg ns g0 ns0 /\
      seg_write c rate g0 w lg = (g1, lg1, false) /\ view x' = (Some g1, ns0, lg1, ac) /\ o = o_err)
  \/ (view x' = view x)
  \/ (exists sg ns lg ac g0 ns0, view x = (sg, ns, lg, ac) /\ ensure sg ns g0 ns0 /\ view x' = (Some g0, ns0, lg, ac))
  \/ (exists sg ns lg ac g0 ns0 rate w g1 lg1, view x = (sg, ns, lg, ac) /\ ensure sg ns g0 ns0 /\
      seg_write c rate g0 w lg = (g1, lg1, true) /\
      (view x' = (Some g1, ns0, lg1, ac ++ [w]) \/
       exists d n, view x' = (Some (new_seg ns0 d n), ns0 + 1, seg_close g1 lg1, ac ++ [w]))).
Proof.
  unfold track_write, track_write_gen, view.
  destruct (nth_error (c_tracks c) t) as [tc|]; [|intros [= <- _]; auto].
  destruct (nth_error (x_trk x) t) as [tr|]; [|intros [= <- _]; auto].
  destruct (t_next tr) as [prev|]; [|intros [= <- _]; auto].
  set (d0 := s_dts s - s_dts prev). set (s' := if d0 <? 0 then set_dts s (s_dts prev) else s).
  set (dur := wrapu32 _). set (dts := ts2dur (s_dts prev) (tc_rate tc)).
  set (tr2 := if t_init tr then _ else _).
  destruct (t_init tr && _); [intros [= <- _]; auto|].
  pose proof (ensure_of (x_seg x) (x_nextseg x) dts (s_ntp prev)) as He.
  set (g0 := match x_seg x with Some g => g | None => _ end) in *.
  set (ns0 := match x_seg x with Some _ => _ | None => _ end) in *.
  destruct (match x_seg x with Some g => dts - g_start g <? 0 | None => false end).
  { intros [= <- _]. cbn. right; right; left. eauto 10. }
  destruct (t_skip tr2 && s_nonsync prev).
  { intros [= <- _]. cbn. right; right; left. eauto 10. }
  set (w := Build_wsmp _ _ _ _ _ _).
  destruct (seg_write c (tc_rate tc) g0 w (x_log x)) as [[g1 lg1] ok] eqn:Hw.
  destruct ok; cbn [negb].
  - destruct (_ && _ && _).
    + destruct (next_start _) as [ontp odts]. intros [= <- _]. cbn. right; right; right.
      do 10 eexists. split; [reflexivity|]. split; [exact He|]. split; [exact Hw|]. right. eauto.
    + intros [= <- _]. cbn. right; right; right.
      do 10 eexists. split; [reflexivity|]. split; [exact He|]. split; [exact Hw|]. left. reflexivity.
  - intros [= <- <-]. cbn. left. do 10 eexists. split; [reflexivity|]. split; [exact He|]. split; [exact Hw|]. auto.
Qed.

Lemma view_add_out x o : view (add_out x o) = view x.
Proof. reflexivity. Qed.

(* P holds while no formatFMP4Segment.write fails, Q from then on *)
Lemma run_from_inv c (P Q : sview -> Prop) :
  (forall v, P v -> Q v) ->
  (forall sg ns lg ac g0 ns0, P (sg, ns, lg, ac) -> ensure sg ns g0 ns0 -> P (Some g0, ns0, lg, ac)) ->
  (forall sg ns lg ac g0 ns0 rate w g1 lg1, P (sg, ns, lg, ac) -> ensure sg ns g0 ns0 ->
     seg_write c rate g0 w lg = (g1, lg1, false) -> Q (Some g1, ns0, lg1, ac)) ->
  (forall sg ns lg ac g0 ns0 rate w g1 lg1, P (sg, ns, lg, ac) -> ensure sg ns g0 ns0 ->
     seg_write c rate g0 w lg = (g1, lg1, true) ->
     P (Some g1, ns0, lg1, ac ++ [w]) /\
     forall d n, P (Some (new_seg ns0 d n), ns0 + 1, seg_close g1 lg1, ac ++ [w])) ->
  forall evs x, P (view x) -> Q (view (run_from c x evs)).
Proof.
  intros HPQ Hd Hf Hk. induction evs as [|[t s] r IH]; intros x HP; cbn [run_from]; [auto|].
  destruct (track_write c t s x) as [x' o] eqn:Ht.
  destruct (track_write_cases _ _ _ _ _ _ Ht) as
    [(sg & ns & lg & ac & g0 & ns0 & rate & w & g1 & lg1 & Hv & He & Hw & Hv' & ->)
    |[Hv'|[(sg & ns & lg & ac & g0 & ns0 & Hv & He & Hv')
    |(sg & ns & lg & ac & g0 & ns0 & rate & w & g1 & lg1 & Hv & He & Hw & Hv')]]].
  - cbn. rewrite view_add_out, Hv'. rewrite Hv in HP. eapply Hf; eauto.
  - assert (HP' : P (view (add_out x' o))) by now rewrite view_add_out, Hv'.
    destruct (o =? o_err); auto.
  - assert (HP' : P (view (add_out x' o))).
    { rewrite view_add_out, Hv'. rewrite Hv in HP. eapply Hd; eauto. }
    destruct (o =? o_err); auto.
  - assert (HP' : P (view (add_out x' o))).
    { rewrite view_add_out. rewrite Hv in HP. destruct (Hk _ _ _ _ _ _ _ _ _ _ HP He Hw) as [H1 H2].
      destruct Hv' as [->|(d & n & ->)]; auto. }
    destruct (o =? o_err); auto.
Qed.

(* ------------------------------------------------------------------------------------------------------------ *)
(* A. the log is well formed *)

Definition lstate := (option Z * Z)%type.
Definition op_step (s : lstate) (o : sop) : option lstate :=
  match o, s with
  | SCreate k _ _, (None, n) => if k =? n then Some (Some k, n + 1) else None
  | SPart k _, (Some j, n) => if k =? j then Some (Some j, n) else None
  | SClose k _, (Some j, n) => if k =? j then Some (None, n) else None
  | _, _ => None
  end.
Fixpoint log_run (s : lstate) (l : list sop) : option lstate :=
  match l with
  | [] => Some s
  | o :: r => match op_step s o with Some s' => log_run s' r | None => None end
  end.
Lemma log_run_app s l1 l2 :
  log_run s (l1 ++ l2) = match log_run s l1 with Some s' => log_run s' l2 | None => None end.
Proof. revert s. induction l1 as [|o r IH]; intros s; cbn; [reflexivity|]. destruct (op_step s o); auto. Qed.

Lemma log_ok_run : forall l o n, log_ok o n l = true <-> exists s', log_run (o, n) l = Some s'.
Proof.
  induction l as [|op r IH]; intros o n; cbn; [split; eauto|].
  destruct op as [k a b|k p|k d]; destruct o as [j|]; cbn;
    try (split; [discriminate|intros [s' [=]]]).
  - destruct (k =? n) eqn:E; cbn; [apply IH|split; [discriminate|intros [s' [=]]]].
  - destruct (k =? j) eqn:E; cbn; [apply IH|split; [discriminate|intros [s' [=]]]].
  - destruct (k =? j) eqn:E; cbn; [apply IH|split; [discriminate|intros [s' [=]]]].
Qed.
Lemma log_run_open : forall l o n o' n', log_run (o, n) l = Some (o', n') -> log_open o l = o'.
Proof.
  induction l as [|op r IH]; intros o n o' n'; cbn; [now intros [= -> _]|].
  destruct op as [k a b|k p|k d]; destruct o as [j|]; cbn; try discriminate.
  - destruct (k =? n); [apply IH|discriminate].
  - destruct (k =? j) eqn:E; [|discriminate]. apply IH.
  - destruct (k =? j); [apply IH|discriminate].
Qed.

Definition seg_state (sg : option sst) (ns : Z) : lstate :=
  match sg with
  | Some g => if g.(g_created) then (Some g.(g_num), ns) else (None, g.(g_num))
  | None => (None, ns)
  end.
Definition num_ok (sg : option sst) (ns : Z) : Prop := match sg with Some g => g.(g_num) + 1 = ns | None => True end.

Lemma run_close_part g ns : g_num g + 1 = ns ->
  log_run (seg_state (Some g) ns) (close_part_ops g) = Some (seg_state (Some (close_part_seg g)) ns).
Proof.
  intros Hn. unfold close_part_ops, close_part_seg, create_ops, seg_state.
  destruct (g_cur g); [|reflexivity]. cbn [set_created g_created g_num].
  destruct (g_created g); cbn [app log_run op_step]; rewrite ?Z.eqb_refl; cbn [log_run op_step];
    rewrite ?Z.eqb_refl, ?Hn; reflexivity.
Qed.
Lemma run_seg_close g ns : g_num g + 1 = ns ->
  exists n', log_run (seg_state (Some g) ns) (seg_close_ops g) = Some (None, n') /\ (g_cur g <> None -> n' = ns).
Proof.
  intros Hn. unfold seg_close_ops. rewrite log_run_app, run_close_part by exact Hn.
  unfold close_part_seg, seg_state. destruct (g_cur g); cbn [set_created g_created g_num].
  - cbn [log_run op_step]. rewrite Z.eqb_refl. eauto.
  - destruct (g_created g); cbn [log_run op_step]; rewrite ?Z.eqb_refl; eexists; (split; [reflexivity|]);
      intros H; now destruct H.
Qed.
Lemma run_sw_ops c rate g w lg g1 lg1 ok ns : g_num g + 1 = ns ->
  seg_write c rate g w lg = (g1, lg1, ok) ->
  lg1 = lg ++ sw_ops c g /\ log_run (seg_state (Some g) ns) (sw_ops c g) = Some (seg_state (Some g1) ns)
  /\ g_num g1 = g_num g /\ g_cur g1 <> None.
Proof.
  intros Hn Hw. destruct (seg_write_spec c rate g w lg) as (g' & Hs & Hnum & _ & _ & Hcr & _ & Hcur).
  rewrite Hs in Hw. injection Hw as <- <- _. split; [reflexivity|]. split; [|split; [auto|now rewrite Hcur]].
  unfold sw_ops. unfold sw_created in Hcr. destruct (sw_full c g) eqn:Hf.
  - rewrite run_close_part by exact Hn. f_equal. unfold seg_state, close_part_seg.
    unfold sw_full in Hf. destruct (g_cur g); [|discriminate]. cbn. now rewrite Hcr, orb_true_r, Hnum.
  - cbn. f_equal. unfold seg_state. now rewrite Hcr, orb_false_r, Hnum.
Qed.

Definition InvA (v : sview) : Prop :=
  match v with (sg, ns, lg, _) => log_run (None, 0) lg = Some (seg_state sg ns) /\ num_ok sg ns end.

Lemma ensure_state sg ns g0 ns0 : ensure sg ns g0 ns0 -> num_ok sg ns ->
  seg_state (Some g0) ns0 = seg_state sg ns /\ g_num g0 + 1 = ns0.
Proof. intros [g n|n d m] Hn; cbn in *; auto. Qed.

Lemma InvA_run c evs x : InvA (view x) -> InvA (view (run_from c x evs)).
Proof.
  apply (run_from_inv c InvA InvA); auto.
  - intros sg ns lg ac g0 ns0 [H1 H2] He. destruct (ensure_state _ _ _ _ He H2) as [E1 E2].
    split; [now rewrite E1|exact E2].
  - intros sg ns lg ac g0 ns0 rate w g1 lg1 [H1 H2] He Hw. destruct (ensure_state _ _ _ _ He H2) as [E1 E2].
    destruct (run_sw_ops _ _ _ _ _ _ _ _ _ E2 Hw) as (-> & Hr & Hnum & _).
    split; [rewrite log_run_app, H1, <- E1; exact Hr|cbn; lia].
  - intros sg ns lg ac g0 ns0 rate w g1 lg1 [H1 H2] He Hw. destruct (ensure_state _ _ _ _ He H2) as [E1 E2].
    destruct (run_sw_ops _ _ _ _ _ _ _ _ _ E2 Hw) as (-> & Hr & Hnum & Hcur).
    assert (H3 : log_run (None, 0) (lg ++ sw_ops c g0) = Some (seg_state (Some g1) ns0))
      by (rewrite log_run_app, H1, <- E1; exact Hr).
    split; [split; [exact H3|cbn; lia]|]. intros d n. split; [|cbn; lia].
    rewrite seg_close_spec, log_run_app, H3.
    destruct (run_seg_close g1 ns0 ltac:(lia)) as (n' & Hc & Hn'). rewrite Hc, (Hn' Hcur). reflexivity.
Qed.

Lemma finish_view x : view (finish x) =
  match x_seg x with
  | Some g => (None, x_nextseg x, x_log x ++ seg_close_ops g, x_acc x)
  | None => view x
  end.
Proof.
  unfold finish, view. destruct (x_seg x) eqn:E; cbn [mk_st x_seg x_nextseg x_log x_acc];
    rewrite ?E, ?seg_close_spec; reflexivity.
Qed.

Lemma log_ok_raw c evs : log_ok None 0 (x_log (run_raw c evs)) = true /\ log_open None (x_log (run_raw c evs)) = None.
Proof.
  unfold run_raw. set (x := run_from c (init_st c) evs).
  assert (HA : InvA (view x)) by (apply InvA_run; cbn; auto).
  pose proof (finish_view x) as Hv. unfold view in Hv at 1. unfold view in HA.
  destruct HA as [H1 H2]. destruct (x_seg x) as [g|].
  - injection Hv as _ _ Hl _. rewrite Hl.
    destruct (run_seg_close g (x_nextseg x) H2) as (n' & Hc & _).
    assert (Hr : log_run (None, 0) (x_log x ++ seg_close_ops g) = Some (None, n')) by now rewrite log_run_app, H1.
    split; [apply log_ok_run; eauto|eapply log_run_open; eauto].
  - injection Hv as _ _ Hl _. rewrite Hl. split; [apply log_ok_run; eauto|eapply log_run_open; eauto].
Qed.

(* ------------------------------------------------------------------------------------------------------------ *)
(* E. the segment files of a well-formed log *)

Fixpoint zseq (n : Z) (k : nat) : list Z := match k with O => [] | S k' => n :: zseq (n + 1) k' end.

Definition cur_ok (cur : option segfile) (o : option Z) : Prop :=
  match cur, o with
  | Some f, Some j => f.(f_num) = j /\ f.(f_closed) = None
  | None, None => True
  | _, _ => False
  end.
Definition cur_ops (cur : option segfile) : list sop := match cur with Some f => ops_of_file f | None => [] end.

Lemma ops_add_part f p : f_closed f = None -> ops_of_file (add_part f p) = ops_of_file f ++ [SPart (f_num f) p].
Proof.
  intros Hc. unfold ops_of_file, add_part. cbn. rewrite Hc, map_app, !app_nil_r. cbn. reflexivity.
Qed.
Lemma ops_set_closed f d : f_closed f = None -> ops_of_file (set_closed f d) = ops_of_file f ++ [SClose (f_num f) d].
Proof.
  intros Hc. unfold ops_of_file, set_closed. cbn. rewrite Hc, app_nil_r. reflexivity.
Qed.

Lemma files_from_concat : forall l done cur o n s', log_run (o, n) l = Some s' -> cur_ok cur o ->
  concat (map ops_of_file (files_from done cur l)) = concat (map ops_of_file (rev done)) ++ cur_ops cur ++ l.
Proof.
  induction l as [|op r IH]; intros done cur o n s' Hr Hc.
  - cbn [files_from]. rewrite app_nil_r. destruct cur as [f|]; cbn [cur_ops rev]; [|now rewrite app_nil_r].
    now rewrite map_app, concat_app; cbn; rewrite app_nil_r.
  - cbn [log_run] in Hr. destruct op as [k a b|k p|k d]; destruct o as [j|]; cbn [op_step] in Hr; try discriminate.
    + destruct cur as [f|]; [destruct Hc|]. destruct (k =? n); [|discriminate].
      cbn [files_from]. erewrite IH; [|exact Hr|cbn; auto]. reflexivity.
    + destruct cur as [f|]; [|destruct Hc]. destruct Hc as [Hn Hcl]. destruct (k =? j) eqn:E; [|discriminate].
      apply Z.eqb_eq in E. subst k.
      cbn [files_from option_map]. erewrite IH; [|exact Hr|cbn; auto].
      cbn [cur_ops]. rewrite ops_add_part by exact Hcl. rewrite Hn, <- !app_assoc. reflexivity.
    + destruct cur as [f|]; [|destruct Hc]. destruct Hc as [Hn Hcl]. destruct (k =? j) eqn:E; [|discriminate].
      apply Z.eqb_eq in E. subst k.
      cbn [files_from]. erewrite IH; [|exact Hr|cbn; auto].
      cbn [cur_ops rev app]. rewrite map_app, concat_app. cbn [map concat]. rewrite app_nil_r.
      rewrite ops_set_closed by exact Hcl. rewrite Hn, <- !app_assoc. reflexivity.
Qed.

Lemma files_from_nums : forall l done cur o n s', log_run (o, n) l = Some s' -> cur_ok cur o ->
  exists k, map f_num (files_from done cur l) =
            map f_num (rev done) ++ match cur with Some f => [f.(f_num)] | None => [] end ++ zseq n k.
Proof.
  induction l as [|op r IH]; intros done cur o n s' Hr Hc.
  - exists O. cbn [files_from zseq]. rewrite app_nil_r. destruct cur as [f|]; cbn [rev]; [|now rewrite app_nil_r].
    now rewrite map_app.
  - cbn [log_run] in Hr. destruct op as [k a b|k p|k d]; destruct o as [j|]; cbn [op_step] in Hr; try discriminate.
    + destruct cur as [f|]; [destruct Hc|]. destruct (k =? n) eqn:E; [|discriminate]. apply Z.eqb_eq in E. subst k.
      cbn [files_from].
      destruct (IH done (Some {| f_num := n; f_sdts := a; f_sntp := b; f_parts := []; f_closed := None |})
                   _ _ _ Hr (conj eq_refl eq_refl)) as [m Hm].
      exists (S m). rewrite Hm. reflexivity.
    + destruct cur as [f|]; [|destruct Hc]. destruct Hc as [Hn Hcl]. destruct (k =? j) eqn:E; [|discriminate].
      cbn [files_from option_map].
      destruct (IH done (Some (add_part f p)) _ _ _ Hr (conj Hn Hcl)) as [m Hm].
      exists m. rewrite Hm. reflexivity.
    + destruct cur as [f|]; [|destruct Hc]. destruct Hc as [Hn Hcl]. destruct (k =? j) eqn:E; [|discriminate].
      cbn [files_from].
      destruct (IH (set_closed f d :: done) None _ _ _ Hr I) as [m Hm].
      exists m. rewrite Hm. cbn [rev app]. rewrite map_app, <- app_assoc. reflexivity.
Qed.

Lemma files_from_closed : forall l done cur o n n', log_run (o, n) l = Some (None, n') -> cur_ok cur o ->
  (forall f, In f done -> f.(f_closed) <> None) ->
  forall f, In f (files_from done cur l) -> f.(f_closed) <> None.
Proof.
  induction l as [|op r IH]; intros done cur o n n' Hr Hc Hd f Hin.
  - cbn in Hr. injection Hr as -> _. destruct cur as [g|]; [destruct Hc|]. cbn in Hin.
    apply in_rev in Hin. auto.
  - cbn [log_run] in Hr. destruct op as [k a b|k p|k d]; destruct o as [j|]; cbn [op_step] in Hr; try discriminate.
    + destruct cur as [g|]; [destruct Hc|]. destruct (k =? n) eqn:E; [|discriminate].
      cbn [files_from] in Hin.
      assert (Hc' : cur_ok (Some {| f_num := k; f_sdts := a; f_sntp := b; f_parts := []; f_closed := None |}) (Some k))
        by (split; reflexivity).
      exact (IH _ _ _ _ _ Hr Hc' Hd f Hin).
    + destruct cur as [g|]; [|destruct Hc]. destruct Hc as [Hn Hcl]. destruct (k =? j) eqn:E; [|discriminate].
      cbn [files_from option_map] in Hin.
      assert (Hc' : cur_ok (Some (add_part g p)) (Some j)) by (split; [exact Hn|exact Hcl]).
      exact (IH _ _ _ _ _ Hr Hc' Hd f Hin).
    + destruct cur as [g|]; [|destruct Hc]. destruct Hc as [Hn Hcl]. destruct (k =? j) eqn:E; [|discriminate].
      cbn [files_from] in Hin. refine (IH _ None _ _ _ Hr I _ f Hin).
      intros f' [<-|Hf']; [cbn; discriminate|auto].
Qed.

Lemma files_of_ok l : log_ok None 0 l = true ->
  concat (map ops_of_file (files_of l)) = l /\
  map f_num (files_of l) = zseq 0 (length (files_of l)) /\
  (log_open None l = None -> forall f, In f (files_of l) -> f.(f_closed) <> None).
Proof.
  intros Hok. apply log_ok_run in Hok. destruct Hok as [[o' n'] Hr]. unfold files_of. split; [|split].
  - erewrite files_from_concat; [|exact Hr|exact I]. reflexivity.
  - destruct (files_from_nums _ [] None _ _ _ Hr I) as [k Hk]. cbn in Hk.
    assert (Hl : length (files_from [] None l) = k).
    { rewrite <- (map_length f_num), Hk. clear. generalize 0. induction k; intros; cbn; auto. }
    now rewrite Hl.
  - intros Ho. rewrite (log_run_open _ _ _ _ _ Hr) in Ho. subst o'.
    eapply files_from_closed; [exact Hr|exact I|intros f []].
Qed.

(* ------------------------------------------------------------------------------------------------------------ *)
(* B. no accepted sample is lost: the parts written so far plus the current part are the accepted samples, in order *)

Definition cur_smps (sg : option sst) : list wsmp :=
  match sg with
  | Some g => match g.(g_cur) with Some p => p.(p_smps) | None => [] end
  | None => []
  end.
Lemma log_samples_app l1 l2 : log_samples (l1 ++ l2) = log_samples l1 ++ log_samples l2.
Proof. unfold log_samples, parts_of. now rewrite !flat_map_app. Qed.
Lemma samples_close_part g : log_samples (close_part_ops g) = cur_smps (Some g).
Proof.
  unfold close_part_ops, create_ops, cur_smps. destruct (g_cur g); [|reflexivity].
  destruct (g_created g); cbn; now rewrite app_nil_r.
Qed.
Lemma samples_seg_close g : log_samples (seg_close_ops g) = cur_smps (Some g).
Proof.
  unfold seg_close_ops. rewrite log_samples_app, samples_close_part.
  destruct (g_created (close_part_seg g)); cbn; now rewrite app_nil_r.
Qed.
Lemma part_write_smps c st rate p w p' : part_write c st rate p w = Some p' ->
  p_smps p' = p_smps p ++ [w] /\ p_start p' = p_start p /\ p_end p' = Z.max (p_end p) (w_end w)
  /\ p_size p' = p_size p + s_size (w_smp w) /\ p_size p' <= c_max_part c /\ p_num p' = p_num p.
Proof.
  unfold part_write. destruct (_ >? _) eqn:E; [discriminate|]. intros [= <-]. cbn. repeat split; lia.
Qed.
(* the samples of formatFMP4Segment.write's result: log suffix ++ current part = old current part ++ accepted *)
Lemma samples_seg_write c rate g w lg g1 lg1 ok : seg_write c rate g w lg = (g1, lg1, ok) ->
  log_samples lg1 ++ cur_smps (Some g1) = log_samples lg ++ cur_smps (Some g) ++ (if ok then [w] else []).
Proof.
  intros Hw. destruct (seg_write_spec c rate g w lg) as (g' & Hs & _ & _ & _ & _ & _ & Hcur).
  rewrite Hs in Hw. injection Hw as <- <- <-. rewrite log_samples_app, <- app_assoc. f_equal.
  unfold cur_smps at 1. rewrite Hcur. unfold sw_ops, sw_part, sw_full in *.
  destruct (g_cur g) as [p|] eqn:Hc.
  - destruct (p_end p - p_start p >=? c_part_dur c).
    + rewrite samples_close_part. f_equal.
      destruct (part_write _ _ _ _ w) as [p'|] eqn:Hp; [|reflexivity].
      apply part_write_smps in Hp. now destruct Hp as (-> & _).
    + cbn [log_samples parts_of flat_map app]. unfold cur_smps. rewrite Hc.
      destruct (part_write _ _ _ _ w) as [p'|] eqn:Hp; [|now rewrite app_nil_r].
      apply part_write_smps in Hp. now destruct Hp as (-> & _).
  - cbn [log_samples parts_of flat_map app]. unfold cur_smps. rewrite Hc.
    destruct (part_write _ _ _ _ w) as [p'|] eqn:Hp; [|reflexivity].
    apply part_write_smps in Hp. now destruct Hp as (-> & _).
Qed.

Definition InvB (v : sview) : Prop :=
  match v with (sg, _, lg, ac) => log_samples lg ++ cur_smps sg = ac end.
Lemma ensure_smps sg ns g0 ns0 : ensure sg ns g0 ns0 -> cur_smps (Some g0) = cur_smps sg.
Proof. intros [g n|n d m]; reflexivity. Qed.

Lemma InvB_run c evs x : InvB (view x) -> InvB (view (run_from c x evs)).
Proof.
  apply (run_from_inv c InvB InvB); auto.
  - intros sg ns lg ac g0 ns0 H He. unfold InvB in *. now rewrite (ensure_smps _ _ _ _ He).
  - intros sg ns lg ac g0 ns0 rate w g1 lg1 H He Hw. unfold InvB in *.
    rewrite (samples_seg_write _ _ _ _ _ _ _ _ Hw), (ensure_smps _ _ _ _ He), app_nil_r. exact H.
  - intros sg ns lg ac g0 ns0 rate w g1 lg1 H He Hw. unfold InvB in *.
    pose proof (samples_seg_write _ _ _ _ _ _ _ _ Hw) as Hs. rewrite (ensure_smps _ _ _ _ He) in Hs.
    rewrite app_assoc, H in Hs. split; [exact Hs|]. intros d n.
    rewrite seg_close_spec, log_samples_app, samples_seg_close, app_nil_r. exact Hs.
Qed.

Lemma no_sample_lost_raw c evs : log_samples (x_log (run_raw c evs)) = x_acc (run_raw c evs).
Proof.
  unfold run_raw. set (x := run_from c (init_st c) evs).
  assert (HB : InvB (view x)) by (apply InvB_run; reflexivity).
  pose proof (finish_view x) as Hv. unfold view in Hv at 1. unfold view in HB. cbn in HB.
  destruct (x_seg x) as [g|].
  - injection Hv as _ _ Hl Ha. rewrite Hl, Ha, log_samples_app, samples_seg_close. exact HB.
  - injection Hv as _ _ Hl Ha. rewrite Hl, Ha. cbn in HB. now rewrite app_nil_r in HB.
Qed.

(* ------------------------------------------------------------------------------------------------------------ *)
(* C. part bounds *)

Fixpoint last_part (prev : option (list wsmp)) (l : list sop) : option (list wsmp) :=
  match l with
  | [] => prev
  | SPart _ p :: r => last_part (Some p.(o_smps)) r
  | _ :: r => last_part None r
  end.
Lemma pb_app c : forall l1 prev l2,
  parts_bounded c prev (l1 ++ l2) = parts_bounded c prev l1 && parts_bounded c (last_part prev l1) l2.
Proof.
  induction l1 as [|o r IH]; intros prev l2; [reflexivity|].
  destruct o; cbn [app parts_bounded last_part]; rewrite IH; [reflexivity| |reflexivity].
  now rewrite <- !andb_assoc.
Qed.
Lemma last_part_app : forall l1 prev l2, last_part prev (l1 ++ l2) = last_part (last_part prev l1) l2.
Proof. induction l1 as [|o r IH]; intros prev l2; [reflexivity|]. destruct o; cbn; apply IH. Qed.

Definition trailing (c : cfg) (q : option (list wsmp)) : Prop :=
  match q with Some l => c.(c_part_dur) <= span l | None => True end.
Definition log_inv (c : cfg) (lg : list sop) : Prop :=
  parts_bounded c None lg = true /\ trailing c (last_part None lg).

Definition fold_end (l : list wsmp) : Z := fold_left Z.max (map w_end l) 0.
Definition part_strong (c : cfg) (p : pst) : Prop :=
  p.(p_smps) <> [] /\ p.(p_size) = size_of p.(p_smps) /\ p.(p_size) <= c.(c_max_part)
  /\ p.(p_start) = w_dts (hd (Build_wsmp O false (Build_smp 0 0 false 0) 0 0 0) p.(p_smps))
  /\ p.(p_end) = fold_end p.(p_smps) /\ short c p.(p_smps) = true.
Definition seg_strong (c : cfg) (sg : option sst) : Prop :=
  forall g p, sg = Some g -> g.(g_cur) = Some p -> part_strong c p.
Definition seg_weak (c : cfg) (sg : option sst) : Prop :=
  forall g p, sg = Some g -> g.(g_cur) = Some p -> part_ok c p.(p_smps) = true.

Lemma span_strong c p : part_strong c p -> span (p_smps p) = p_end p - p_start p.
Proof.
  intros (Hne & _ & _ & Hs & He & _). unfold span. destruct (p_smps p) as [|w r] eqn:E; [now destruct Hne|].
  rewrite Hs, He. reflexivity.
Qed.
Lemma strong_weak c p : part_strong c p -> part_ok c (p_smps p) = true.
Proof.
  intros (_ & Hs & Hm & _ & _ & Hsh). unfold part_ok. rewrite Hsh, andb_true_r. apply Z.leb_le. lia.
Qed.
Lemma size_of_app l1 l2 : size_of (l1 ++ l2) = size_of l1 + size_of l2.
Proof. unfold size_of. induction l1 as [|a r IH]; cbn; [reflexivity|]. cbn in IH. rewrite IH. lia. Qed.
Lemma fold_end_snoc l w : fold_end (l ++ [w]) = Z.max (fold_end l) (w_end w).
Proof. unfold fold_end. now rewrite map_app, fold_left_app. Qed.

Lemma strong_first c st rate num w p' : part_write c st rate (new_part num (w_dts w)) w = Some p' -> part_strong c p'.
Proof.
  intros Hp. apply part_write_smps in Hp. destruct Hp as (Hs & Hst & He & Hz & Hm & _). cbn in *.
  unfold part_strong. rewrite Hs. cbn. repeat split; try lia; try discriminate; auto.
Qed.
Lemma strong_next c st rate p w p' : part_strong c p -> (p_end p - p_start p >=? c_part_dur c) = false ->
  part_write c st rate p w = Some p' -> part_strong c p'.
Proof.
  intros Hst Hf Hp. pose proof (span_strong _ _ Hst) as Hsp. destruct Hst as (Hne & Hz & Hm & Hs & He & Hsh).
  apply part_write_smps in Hp. destruct Hp as (Hs' & Hst' & He' & Hz' & Hm' & _).
  unfold part_strong. rewrite Hs'. repeat split.
  - destruct (p_smps p); discriminate.
  - rewrite Hz', size_of_app, Hz. unfold size_of. cbn. lia.
  - exact Hm'.
  - rewrite Hst', Hs. destruct (p_smps p); [now destruct Hne|reflexivity].
  - rewrite He', fold_end_snoc, He. reflexivity.
  - unfold short. destruct (p_smps p) as [|a [|b r]] eqn:E; [now destruct Hne| |].
    + cbn [app removelast]. apply Z.ltb_lt. rewrite Hsp. rewrite Z.geb_leb in Hf. apply Z.leb_gt in Hf. lia.
    + replace ((a :: b :: r) ++ [w]) with (a :: b :: (r ++ [w])) by reflexivity.
      destruct (r ++ [w]) eqn:E2; [now destruct r|]. rewrite <- E2.
      replace (a :: b :: r ++ [w]) with ((a :: b :: r) ++ [w]) by reflexivity. rewrite removelast_last.
      apply Z.ltb_lt. rewrite Hsp. rewrite Z.geb_leb in Hf. apply Z.leb_gt in Hf. lia.
Qed.

Lemma inv_close_part c g lg p : log_inv c lg -> g_cur g = Some p -> part_ok c (p_smps p) = true ->
  parts_bounded c None (lg ++ close_part_ops g) = true /\ last_part None (lg ++ close_part_ops g) = Some (p_smps p).
Proof.
  intros [Hpb Htr] Hc Hok. rewrite pb_app, last_part_app, Hpb. unfold close_part_ops, create_ops. rewrite Hc.
  destruct (g_created g); cbn [app parts_bounded last_part opart_of o_smps]; rewrite Hok; [|auto].
  destruct (last_part None lg) as [q|]; [|auto]. cbn in Htr. apply Z.leb_le in Htr. rewrite Htr. auto.
Qed.
Lemma inv_seg_close c g lg : log_inv c lg -> (forall p, g_cur g = Some p -> part_ok c (p_smps p) = true) ->
  log_inv c (lg ++ seg_close_ops g).
Proof.
  intros Hi Hp. unfold seg_close_ops, close_part_seg. destruct (g_cur g) as [p|] eqn:Hc.
  - destruct (inv_close_part c g lg p Hi Hc (Hp p eq_refl)) as [H1 H2].
    cbn [set_created g_created]. rewrite app_assoc. split.
    + rewrite pb_app, H1, H2. reflexivity.
    + rewrite last_part_app, H2. exact I.
  - unfold close_part_ops. rewrite Hc. cbn [app]. destruct (g_created g); [|now rewrite app_nil_r].
    destruct Hi as [Hpb Htr]. split.
    + rewrite pb_app, Hpb. reflexivity.
    + rewrite last_part_app. exact I.
Qed.

Lemma inv_seg_write c rate g w lg g1 lg1 ok : 0 <= c_max_part c ->
  log_inv c lg -> (forall p, g_cur g = Some p -> part_strong c p) -> seg_write c rate g w lg = (g1, lg1, ok) ->
  log_inv c lg1 /\ exists p1, g_cur g1 = Some p1 /\ (if ok then part_strong c p1 else part_ok c (p_smps p1) = true).
Proof.
  intros Hmax Hi Hst Hw.
  assert (Hnew : forall num, match part_write c (g_start g) rate (new_part num (w_dts w)) w with
                            | Some p' => part_strong c p'
                            | None => part_ok c (p_smps (new_part num (w_dts w))) = true end).
  { intros num. destruct (part_write c (g_start g) rate (new_part num (w_dts w)) w) eqn:Hp;
      [eapply strong_first; eauto|].
    unfold part_ok. cbn. rewrite andb_true_r. apply Z.leb_le. exact Hmax. }
  destruct (seg_write_spec c rate g w lg) as (g' & Hs & _ & _ & _ & _ & _ & Hcur).
  rewrite Hs in Hw. injection Hw as <- <- <-. rewrite Hcur. unfold sw_ops, sw_part, sw_full in *.
  destruct (g_cur g) as [p|] eqn:Hc.
  - specialize (Hst p eq_refl). destruct (p_end p - p_start p >=? c_part_dur c) eqn:Hf.
    + destruct (inv_close_part c g lg p Hi Hc (strong_weak _ _ Hst)) as [H1 H2]. split.
      * split; [exact H1|]. rewrite H2. cbn. rewrite (span_strong _ _ Hst). rewrite Z.geb_leb in Hf.
        apply Z.leb_le in Hf. exact Hf.
      * eexists; split; [reflexivity|]. specialize (Hnew (g_nextpart g)).
        destruct (part_write _ _ _ _ w); exact Hnew.
    + rewrite app_nil_r. split; [exact Hi|]. eexists; split; [reflexivity|].
      destruct (part_write _ _ _ p w) eqn:Hp; [eapply strong_next; eauto|apply strong_weak; exact Hst].
  - rewrite app_nil_r. split; [exact Hi|]. eexists; split; [reflexivity|]. specialize (Hnew (g_nextpart g)).
    destruct (part_write _ _ _ _ w); exact Hnew.
Qed.

Definition InvCs (c : cfg) (v : sview) : Prop := match v with (sg, _, lg, _) => log_inv c lg /\ seg_strong c sg end.
Definition InvCw (c : cfg) (v : sview) : Prop := match v with (sg, _, lg, _) => log_inv c lg /\ seg_weak c sg end.

Lemma ensure_cur sg ns g0 ns0 p : ensure sg ns g0 ns0 -> g_cur g0 = Some p -> exists g, sg = Some g /\ g_cur g = Some p.
Proof. intros [g n|n d m] H; [eauto|discriminate]. Qed.

Lemma InvC_run c evs x : 0 <= c_max_part c -> InvCs c (view x) -> InvCw c (view (run_from c x evs)).
Proof.
  intros Hmax. apply (run_from_inv c (InvCs c) (InvCw c)).
  - intros [[[sg ns] lg] ac] [H1 H2]. split; [exact H1|]. intros g p Hg Hp. apply strong_weak. eapply H2; eauto.
  - intros sg ns lg ac g0 ns0 [H1 H2] He. split; [exact H1|]. intros g p [= <-] Hp.
    destruct (ensure_cur _ _ _ _ _ He Hp) as (g & -> & Hg). eapply H2; eauto.
  - intros sg ns lg ac g0 ns0 rate w g1 lg1 [H1 H2] He Hw.
    assert (Hst : forall p, g_cur g0 = Some p -> part_strong c p).
    { intros p Hp. destruct (ensure_cur _ _ _ _ _ He Hp) as (g & -> & Hg). eapply H2; eauto. }
    destruct (inv_seg_write _ _ _ _ _ _ _ _ Hmax H1 Hst Hw) as (Hi & p1 & Hc1 & Hp1).
    split; [exact Hi|]. intros g p [= <-] Hp. rewrite Hc1 in Hp. injection Hp as <-. exact Hp1.
  - intros sg ns lg ac g0 ns0 rate w g1 lg1 [H1 H2] He Hw.
    assert (Hst : forall p, g_cur g0 = Some p -> part_strong c p).
    { intros p Hp. destruct (ensure_cur _ _ _ _ _ He Hp) as (g & -> & Hg). eapply H2; eauto. }
    destruct (inv_seg_write _ _ _ _ _ _ _ _ Hmax H1 Hst Hw) as (Hi & p1 & Hc1 & Hp1).
    split.
    + split; [exact Hi|]. intros g p [= <-] Hp. rewrite Hc1 in Hp. injection Hp as <-. exact Hp1.
    + intros d n. split; [|intros g p [= <-] Hp; discriminate].
      rewrite seg_close_spec. apply inv_seg_close; [exact Hi|].
      intros p Hp. rewrite Hc1 in Hp. injection Hp as <-. apply strong_weak. exact Hp1.
Qed.

Lemma parts_bounded_raw c evs : 0 <= c_max_part c -> parts_bounded c None (x_log (run_raw c evs)) = true.
Proof.
  intros Hmax. unfold run_raw. set (x := run_from c (init_st c) evs).
  assert (HC : InvCw c (view x)).
  { apply InvC_run; [exact Hmax|]. split; [split; [reflexivity|exact I]|]. intros g p [=]. }
  pose proof (finish_view x) as Hv. unfold view in Hv at 1. unfold view in HC. destruct HC as [H1 H2].
  destruct (x_seg x) as [g|] eqn:Hg.
  - injection Hv as _ _ Hl _. rewrite Hl. apply inv_seg_close; [exact H1|]. intros p Hp. eapply H2; eauto.
  - injection Hv as _ _ Hl _. rewrite Hl. apply H1.
Qed.

(* readable corollaries of parts_bounded *)
Lemma pb_in c : forall l prev k p, parts_bounded c prev l = true -> In (SPart k p) l -> part_ok c (o_smps p) = true.
Proof.
  induction l as [|o r IH]; intros prev k p Hb Hin; [destruct Hin|]. destruct Hin as [->|Hin].
  - cbn in Hb. apply andb_prop in Hb. destruct Hb as [Hb _]. apply andb_prop in Hb. tauto.
  - destruct o; cbn in Hb; [eapply IH; eauto| |eapply IH; eauto].
    apply andb_prop in Hb. destruct Hb as [_ Hb]. eapply IH; eauto.
Qed.
Lemma pb_adjacent c : forall l prev l1 k p k' q l2, parts_bounded c prev l = true ->
  l = l1 ++ SPart k p :: SPart k' q :: l2 -> c_part_dur c <= span (o_smps p).
Proof.
  intros l prev l1 k p k' q l2 Hb ->. rewrite pb_app in Hb. apply andb_prop in Hb. destruct Hb as [_ Hb].
  cbn in Hb. apply andb_prop in Hb. destruct Hb as [_ Hb]. apply andb_prop in Hb. destruct Hb as [Hb _].
  apply andb_prop in Hb. destruct Hb as [_ Hb]. apply Z.leb_le. exact Hb.
Qed.

(* ------------------------------------------------------------------------------------------------------------ *)
(* D. every segment starts on a sync sample (one video track, first sample of the track is a sync sample) *)

Fixpoint sscan (seen : bool) (l : list sop) : option bool :=
  match l with
  | [] => Some seen
  | SCreate _ _ _ :: r => sscan false r
  | SPart _ p :: r => if seen || first_video_sync p.(o_smps) then sscan (seen || has_video p.(o_smps)) r else None
  | SClose _ _ :: r => sscan seen r
  end.
Lemma sscan_app : forall l1 seen l2,
  sscan seen (l1 ++ l2) = match sscan seen l1 with Some s' => sscan s' l2 | None => None end.
Proof.
  induction l1 as [|o r IH]; intros seen l2; [reflexivity|]. destruct o; cbn; auto.
  destruct (seen || first_video_sync (o_smps p)); auto.
Qed.
Lemma sscan_sync : forall l seen, sync_scan seen l = true <-> exists s', sscan seen l = Some s'.
Proof.
  induction l as [|o r IH]; intros seen; cbn; [split; eauto|]. destruct o; auto.
  destruct (seen || first_video_sync (o_smps p)); cbn; [apply IH|]. split; [discriminate|intros [s' [=]]].
Qed.

Lemma fvs_app a b : first_video_sync (a ++ b) = if has_video a then first_video_sync a else first_video_sync b.
Proof.
  induction a as [|w r IH]; [reflexivity|]. cbn. destruct (w_video w); cbn; auto.
Qed.
Lemma has_video_app a b : has_video (a ++ b) = has_video a || has_video b.
Proof. unfold has_video. apply existsb_app. Qed.

Definition seg_created (sg : option sst) : bool := match sg with Some g => g.(g_created) | None => false end.
(* seen for the current segment, before and after its current part *)
Definition seen_cur (seen : bool) (sg : option sst) : bool := if seg_created sg then seen else false.
Definition DLog (sg : option sst) (lg : list sop) (seen' : bool) : Prop :=
  exists seen, sscan false lg = Some seen /\
               (seen_cur seen sg || first_video_sync (cur_smps sg)) = true /\
               seen' = seen_cur seen sg || has_video (cur_smps sg).

Lemma dlog_ensure sg ns g0 ns0 lg s' : ensure sg ns g0 ns0 -> DLog sg lg s' -> DLog (Some g0) lg s'.
Proof. intros [g n|n d m] H; [exact H|]. destruct H as (seen & H1 & H2 & H3). exists seen. cbn in *. auto. Qed.

Lemma dlog_close_part g lg s' : DLog (Some g) lg s' -> g_cur g <> None ->
  sscan false (lg ++ close_part_ops g) = Some s'.
Proof.
  intros (seen & H1 & H2 & H3) Hc. rewrite sscan_app, H1. unfold close_part_ops, create_ops.
  unfold seen_cur, seg_created, cur_smps in *. destruct (g_cur g) as [p|]; [|now destruct Hc].
  destruct (g_created g); cbn [app sscan opart_of o_smps]; rewrite H2, H3; reflexivity.
Qed.

(* formatFMP4Segment.write keeps DLog when the sample may start the segment's video *)
Lemma dlog_seg_write c rate g w lg g1 lg1 ok s' : DLog (Some g) lg s' ->
  (s' = false -> w_video w = true -> s_nonsync (w_smp w) = false) ->
  seg_write c rate g w lg = (g1, lg1, ok) ->
  DLog (Some g1) lg1 (if ok then s' || w_video w else s').
Proof.
  intros HD Hw Hs. destruct (seg_write_spec c rate g w lg) as (g' & Hsp & _ & _ & _ & Hcr & _ & Hcur).
  rewrite Hsp in Hs. injection Hs as <- <- <-.
  assert (Hone : (s' || first_video_sync [w]) = true).
  { cbn. destruct s'; [reflexivity|]. destruct (w_video w); [|reflexivity]. cbn. now rewrite Hw. }
  unfold sw_ops, sw_part, sw_created, sw_full in *.
  destruct (g_cur g) as [p|] eqn:Hc.
  - destruct (p_end p - p_start p >=? c_part_dur c).
    + assert (Hcl : sscan false (lg ++ close_part_ops g) = Some s').
      { apply dlog_close_part; [exact HD|]. rewrite Hc. discriminate. }
      exists s'. split; [exact Hcl|]. unfold seen_cur, seg_created, cur_smps. rewrite Hcr, Hcur, orb_true_r.
      destruct (part_write _ _ _ _ w) as [p'|] eqn:Hp.
      * apply part_write_smps in Hp. destruct Hp as (-> & _). cbn [new_part p_smps app].
        split; [exact Hone|]. cbn. now rewrite orb_false_r.
      * cbn. rewrite !orb_true_r, orb_false_r. auto.
    + rewrite app_nil_r. destruct HD as (seen & H1 & H2 & H3). exists seen. split; [exact H1|].
      unfold seen_cur, seg_created, cur_smps in *. rewrite Hcr, Hcur, orb_false_r. rewrite Hc in H2, H3.
      destruct (part_write _ _ _ _ w) as [p'|] eqn:Hp; [|auto].
      apply part_write_smps in Hp. destruct Hp as (-> & _). rewrite fvs_app, has_video_app.
      set (sc := if g_created g then seen else false) in *.
      destruct sc; cbn [orb] in *; [subst; split; reflexivity|]. subst s'.
      destruct (has_video (p_smps p)); [split; [exact H2|reflexivity]|].
      cbn [orb] in *. split; [|cbn; now rewrite orb_false_r]. exact Hone.
  - rewrite app_nil_r. destruct HD as (seen & H1 & H2 & H3). exists seen. split; [exact H1|].
    unfold seen_cur, seg_created, cur_smps in *. rewrite Hcr, Hcur, orb_false_r. rewrite Hc in H2, H3.
    cbn [has_video existsb] in H3. rewrite orb_false_r in H3. rewrite <- H3.
    destruct (part_write _ _ _ _ w) as [p'|] eqn:Hp.
    + apply part_write_smps in Hp. destruct Hp as (-> & _). cbn [new_part p_smps app].
      split; [exact Hone|]. cbn. now rewrite orb_false_r.
    + cbn. rewrite !orb_true_r, orb_false_r. auto.
Qed.

Lemma dlog_seg_close g lg s' : DLog (Some g) lg s' -> exists s'', sscan false (lg ++ seg_close_ops g) = Some s''.
Proof.
  intros HD. unfold seg_close_ops. destruct (g_cur g) as [p|] eqn:Hc.
  - rewrite app_assoc, sscan_app, (dlog_close_part g lg s' HD) by (rewrite Hc; discriminate).
    destruct (g_created (close_part_seg g)); cbn; eauto.
  - unfold close_part_ops. rewrite Hc. cbn [app]. destruct HD as (seen & H1 & _). rewrite sscan_app, H1.
    destruct (g_created (close_part_seg g)); cbn; eauto.
Qed.

Lemma nth_error_upd_eq {A} : forall (l : list A) i a x, nth_error l i = Some a -> nth_error (upd l i x) i = Some x.
Proof. induction l as [|b r IH]; intros [|i] a x H; cbn in *; try discriminate; eauto. Qed.
Lemma nth_error_upd_neq {A} : forall (l : list A) i j x, i <> j -> nth_error (upd l i x) j = nth_error l j.
Proof.
  induction l as [|b r IH]; intros i j x H; [destruct i; reflexivity|].
  destruct i as [|i], j as [|j]; cbn; auto; try (now destruct H); try (apply IH; congruence).
Qed.
Lemma length_upd {A} : forall (l : list A) i x, length (upd l i x) = length l.
Proof. induction l as [|b r IH]; intros [|i] x; cbn; auto. Qed.

Definition one_v (c : cfg) (v : nat) : Prop :=
  (exists tc, nth_error c.(c_tracks) v = Some tc /\ tc.(tc_video) = true) /\
  forall t tc, nth_error c.(c_tracks) t = Some tc -> tc.(tc_video) = true -> t = v.

Definition DFull (c : cfg) (v : nat) (x : st) (evs : list event) : Prop :=
  exists s', DLog x.(x_seg) x.(x_log) s'
  /\ (forall tr, nth_error x.(x_trk) v = Some tr -> tr.(t_next) = None -> first_v_sync v evs = true)
  /\ (s' = false -> forall tr s0, nth_error x.(x_trk) v = Some tr -> tr.(t_next) = Some s0 ->
                    s0.(s_nonsync) = false \/ tr.(t_skip) = true)
  /\ (x.(x_hasvideo) = false -> forall tr, nth_error x.(x_trk) v = Some tr -> tr.(t_next) = None)
  /\ length x.(x_trk) = length c.(c_tracks).
Definition DLogX (x : st) : Prop := exists s', DLog x.(x_seg) x.(x_log) s'.

Lemma dlog_new_seg g lg s' num d n :
  DLog (Some g) lg s' -> DLog (Some (new_seg num d n)) (seg_close g lg) false.
Proof.
  intros HD. rewrite seg_close_spec. destruct (dlog_seg_close g lg s' HD) as [s'' Hs].
  exists s''. split; [exact Hs|]. cbn. auto.
Qed.

Lemma dfull_step c v t s x x' o evs : one_v c v -> DFull c v x ((t, s) :: evs) ->
  track_write c t s x = (x', o) -> DLogX x' /\ (o <> o_err -> DFull c v x' evs).
Proof.
  intros [(tcv & Htcv & Hvid) Huniq] (s1 & HD & Hfirst & Hsafe & Hhv & Hlen).
  unfold track_write, track_write_gen.
  destruct (nth_error (c_tracks c) t) as [tc|] eqn:Htc.
  2:{ intros [= <- <-]. split; [exists s1; exact HD|]. intros _. exists s1. repeat split; auto.
      intros tr Htr Hn. specialize (Hfirst tr Htr Hn). cbn in Hfirst.
      destruct (Nat.eqb t v) eqn:E; [|exact Hfirst]. apply Nat.eqb_eq in E. subst t. congruence. }
  destruct (nth_error (x_trk x) t) as [tr|] eqn:Htr.
  2:{ exfalso. apply nth_error_None in Htr. assert (nth_error (c_tracks c) t <> None) by congruence.
      apply nth_error_Some in H. lia. }
  (* facts about the video track after an update of track t *)
  assert (Hvt : tc_video tc = true -> t = v) by (intros; eapply Huniq; eauto).
  assert (Htv : t = v -> tc_video tc = true) by (intros ->; congruence).
  assert (Hfirst' : t <> v -> forall tr0, nth_error (x_trk x) v = Some tr0 -> t_next tr0 = None ->
                                         first_v_sync v evs = true).
  { intros Hne tr0 H1 H2. specialize (Hfirst tr0 H1 H2). cbn in Hfirst.
    destruct (Nat.eqb t v) eqn:E; [apply Nat.eqb_eq in E; contradiction|exact Hfirst]. }
  destruct (t_next tr) as [prev|] eqn:Hnext.
  2:{ intros [= <- <-]. cbn [mk_st x_seg x_log x_trk x_hasvideo]. split; [exists s1; exact HD|]. intros _.
      exists s1. cbn [mk_st x_seg x_log x_trk x_hasvideo]. rewrite length_upd.
      split; [exact HD|]. destruct (Nat.eq_dec t v) as [->|Hne].
      - rewrite (nth_error_upd_eq _ _ _ _ Htr). repeat split; auto.
        + intros tr0 [= <-]. discriminate.
        + intros _ tr0 s0 [= <-] [= <-]. left. specialize (Hfirst tr Htr Hnext). cbn in Hfirst.
          rewrite Nat.eqb_refl in Hfirst. now destruct (s_nonsync s).
        + rewrite (Htv eq_refl), orb_true_r. discriminate.
      - rewrite (nth_error_upd_neq _ _ _ _ Hne). repeat split; auto.
        + intros tr0 H1 H2. eapply Hfirst'; eauto.
        + intros Hh. apply orb_false_iff in Hh. destruct Hh as [Hh _]. auto. }
  set (d0 := s_dts s - s_dts prev). set (sn := if d0 <? 0 then set_dts s (s_dts prev) else s).
  set (dur := wrapu32 _). set (dts := ts2dur (s_dts prev) (tc_rate tc)).
  set (tr2 := if t_init tr then _ else _).
  assert (Htr2 : t_next tr2 = Some sn /\ t_skip tr2 = t_skip tr) by (subst tr2; destruct (t_init tr); cbn; auto).
  destruct Htr2 as [Hn2 Hs2].
  assert (Hsn : s_nonsync sn = s_nonsync s) by (subst sn; destruct (d0 <? 0); reflexivity).
  destruct (t_init tr && _).
  { intros [= <- <-]. split; [exists s1; exact HD|]. intros H; now destruct H. }
  pose proof (ensure_of (x_seg x) (x_nextseg x) dts (s_ntp prev)) as He.
  set (g0 := match x_seg x with Some g => g | None => _ end) in *.
  set (ns0 := match x_seg x with Some _ => x_nextseg x | None => x_nextseg x + 1 end) in *.
  pose proof (dlog_ensure _ _ _ _ _ _ He HD) as HD0.
  (* the generic closing argument for the states whose video track is unchanged or discarding *)
  assert (Hgen : forall trk' hv' sg' ns' lg' ac' ou' s2 trn,
            DLog sg' lg' s2 -> trk' = upd (x_trk x) t trn -> t_next trn = Some sn ->
            hv' = x_hasvideo x || tc_video tc ->
            (t = v -> s2 = false -> s_nonsync sn = false \/ t_skip trn = true) ->
            (t <> v -> s2 = false -> s1 = false \/ x_hasvideo x = false) ->
            DFull c v (mk_st trk' hv' sg' ns' lg' ac' ou') evs).
  { intros trk' hv' sg' ns' lg' ac' ou' s2 trn HD2 -> Hnn -> Hv1 Hv2.
    exists s2. cbn [mk_st x_seg x_log x_trk x_hasvideo]. rewrite length_upd. split; [exact HD2|].
    destruct (Nat.eq_dec t v) as [->|Hne].
    - rewrite (nth_error_upd_eq _ _ _ _ Htr). repeat split; auto.
      + intros tr0 [= <-]. congruence.
      + intros Hs tr0 s0 [= <-] Hs0. rewrite Hnn in Hs0. injection Hs0 as <-. auto.
      + rewrite (Htv eq_refl), orb_true_r. discriminate.
    - rewrite (nth_error_upd_neq _ _ _ _ Hne). repeat split; auto.
      + intros tr0 H1 H2. eapply Hfirst'; eauto.
      + intros Hs tr0 s0 H1 H2. destruct (Hv2 Hne Hs) as [Hs1|Hh]; [eapply Hsafe; eauto|].
        rewrite (Hhv Hh tr0 H1) in H2. discriminate.
      + intros Hh. apply orb_false_iff in Hh. destruct Hh as [Hh _]. auto. }
  destruct (match x_seg x with Some g => dts - g_start g <? 0 | None => false end).
  { intros [= <- <-]. split; [exists s1; exact HD0|]. intros _.
    eapply Hgen; [exact HD0|reflexivity|exact Hn2| reflexivity | |auto].
    intros -> _. right. cbn. apply Htv. reflexivity. }
  destruct (t_skip tr2 && s_nonsync prev) eqn:Hsk.
  { intros [= <- <-]. split; [exists s1; exact HD0|]. intros _.
    eapply Hgen; [exact HD0|reflexivity|exact Hn2|reflexivity| |auto].
    intros _ _. right. apply andb_prop in Hsk. tauto. }
  set (w := Build_wsmp _ _ _ _ _ _).
  assert (Hwc : s1 = false -> w_video w = true -> s_nonsync (w_smp w) = false).
  { cbn. intros Hs1 Hv. specialize (Hvt Hv). subst t.
    destruct (Hsafe Hs1 tr prev Htr Hnext) as [Hp|Hp]; [exact Hp|].
    rewrite Hs2, Hp in Hsk. cbn in Hsk. exact Hsk. }
  destruct (seg_write c (tc_rate tc) g0 w (x_log x)) as [[g1 lg1] ok] eqn:Hw.
  pose proof (dlog_seg_write _ _ _ _ _ _ _ _ _ HD0 Hwc Hw) as HD1.
  destruct ok; cbn [negb].
  - destruct ((negb (x_hasvideo x || tc_video tc) || tc_video tc) && negb (s_nonsync sn)
              && (ts2dur (s_dts sn) (tc_rate tc) - g_start g1 >=? c_seg_dur c)) eqn:Hsw.
    + destruct (next_start _) as [ontp odts]. intros [= <- <-].
      pose proof (dlog_new_seg g1 lg1 _ ns0 odts ontp HD1) as HDn.
      split; [eexists; exact HDn|]. intros _.
      apply andb_prop in Hsw. destruct Hsw as [Hsw _]. apply andb_prop in Hsw. destruct Hsw as [Hsw1 Hsw2].
      eapply Hgen; [exact HDn|reflexivity|cbn; exact Hn2|reflexivity| |].
      * intros _ _. left. now destruct (s_nonsync sn).
      * intros Hne _. right. destruct (tc_video tc) eqn:Hv; [now specialize (Hvt eq_refl)|].
        rewrite orb_false_r in Hsw1. now destruct (x_hasvideo x).
    + intros [= <- <-]. split; [eexists; exact HD1|]. intros _.
      eapply Hgen; [exact HD1|reflexivity|cbn; exact Hn2|reflexivity| |].
      * intros -> Hs. unfold w in Hs. cbn [w_video] in Hs. rewrite (Htv eq_refl), orb_true_r in Hs. discriminate.
      * intros _ Hs. apply orb_false_iff in Hs. tauto.
  - intros [= <- <-]. split; [eexists; exact HD1|]. intros H; now destruct H.
Qed.

Lemma dfull_run c v : one_v c v -> forall evs x, DFull c v x evs -> DLogX (run_from c x evs).
Proof.
  intros Hv. induction evs as [|[t s] r IH]; intros x HD; cbn [run_from].
  - destruct HD as (s' & H & _). exists s'. exact H.
  - destruct (track_write c t s x) as [x' o] eqn:Ht.
    destruct (dfull_step c v t s x x' o r Hv HD Ht) as [H1 H2].
    destruct (o =? o_err) eqn:E.
    + destruct H1 as [s' H1]. exists s'. exact H1.
    + apply IH. apply Z.eqb_neq in E. specialize (H2 E).
      destruct H2 as (s' & A & B & C & D & F). exists s'. repeat split; auto.
Qed.

Lemma dlog_finish x : DLogX x -> sync_scan false (x_log (finish x)) = true.
Proof.
  intros [s' HD]. apply sscan_sync. unfold finish. destruct (x_seg x) as [g|] eqn:Hg; cbn [mk_st x_log].
  - rewrite seg_close_spec. eapply dlog_seg_close; eauto.
  - destruct HD as (seen & H & _). eauto.
Qed.

Lemma one_v_of c v : video_tracks c = [v] -> one_v c v.
Proof.
  intros Hv. unfold video_tracks in Hv.
  assert (Hin : forall t, In t [v] <-> (t < length (c_tracks c))%nat /\
                 match nth_error (c_tracks c) t with Some tc => tc_video tc | None => false end = true).
  { intros t. rewrite <- Hv, filter_In, in_seq. split; intros [A B]; split; auto; lia. }
  split.
  - destruct (proj1 (Hin v) (or_introl eq_refl)) as [_ H]. destruct (nth_error (c_tracks c) v) as [tc|]; [eauto|discriminate].
  - intros t tc Ht Hvid. assert (H : In t [v]).
    { apply Hin. split; [apply nth_error_Some; congruence|now rewrite Ht]. }
    destruct H as [H|[]]. auto.
Qed.

Lemma sync_raw c v evs : video_tracks c = [v] -> first_v_sync v evs = true ->
  sync_scan false (x_log (run_raw c evs)) = true.
Proof.
  intros Hv Hf. unfold run_raw. apply dlog_finish. apply (dfull_run c v (one_v_of c v Hv)).
  assert (Hinit : forall tr, nth_error (map (fun _ : tcfg => init_tst) (c_tracks c)) v = Some tr -> tr = init_tst).
  { intros tr Htr. apply nth_error_In in Htr. apply in_map_iff in Htr. destruct Htr as (_ & <- & _). reflexivity. }
  exists false. split; [exists false; cbn; auto|]. cbn [init_st mk_st x_trk x_hasvideo].
  split; [intros; exact Hf|]. split; [|split].
  - intros _ tr s0 Htr Hn. rewrite (Hinit tr Htr) in Hn. discriminate.
  - intros _ tr Htr. rewrite (Hinit tr Htr). reflexivity.
  - apply map_length.
Qed.

(* the gate delivers a stream whose first video sample is a sync sample *)
Lemma gate_first c v : one_v c v -> forall evs passed, ~ In v passed ->
  first_v_sync v (gate_from c passed evs) = true.
Proof.
  intros [(tcv & Htcv & Hvid) Huniq]. induction evs as [|[t s] r IH]; intros passed Hp; [reflexivity|].
  cbn [gate_from]. destruct (nth_error (c_tracks c) t) as [tc|] eqn:Ht.
  - destruct (negb (tc_video tc) || existsb (Nat.eqb t) passed) eqn:E.
    + cbn [first_v_sync]. destruct (Nat.eqb t v) eqn:Etv; [|apply IH; exact Hp].
      apply Nat.eqb_eq in Etv. subst t. rewrite Htcv in Ht. injection Ht as <-. rewrite Hvid in E. cbn in E.
      apply existsb_exists in E. destruct E as (u & Hu & Eu). apply Nat.eqb_eq in Eu. subst u. contradiction.
    + apply orb_false_iff in E. destruct E as [E1 E2]. apply negb_false_iff in E1.
      pose proof (Huniq _ _ Ht E1) as ->. destruct (s_nonsync s) eqn:Es; [apply IH; exact Hp|].
      cbn [first_v_sync]. rewrite Nat.eqb_refl, Es. reflexivity.
  - cbn [first_v_sync]. destruct (Nat.eqb t v) eqn:Etv; [|apply IH; exact Hp].
    apply Nat.eqb_eq in Etv. subst t. congruence.
Qed.

Lemma sync_run c v evs : video_tracks c = [v] -> sync_scan false (x_log (run c evs)) = true.
Proof.
  intros Hv. unfold run. apply (sync_raw c v); [exact Hv|]. unfold gate.
  apply gate_first; [apply one_v_of; exact Hv|intros []].
Qed.

(* from the log to the files *)
Lemma files_from_sync : forall l done cur o n s' seen sf, log_run (o, n) l = Some s' -> cur_ok cur o ->
  sscan seen l = Some sf ->
  (forall f, cur = Some f -> seen = has_video (file_samples f) /\ first_video_sync (file_samples f) = true) ->
  (forall f, In f done -> first_video_sync (file_samples f) = true) ->
  forall f, In f (files_from done cur l) -> first_video_sync (file_samples f) = true.
Proof.
  induction l as [|op r IH]; intros done cur o n s' seen sf Hr Hc Hs Hcur Hd f Hin.
  - cbn in Hin. apply in_rev in Hin. destruct cur as [g|]; [|auto]. destruct Hin as [<-|Hin]; [|auto].
    apply (Hcur g eq_refl).
  - cbn [log_run] in Hr. destruct op as [k a b|k p|k d]; destruct o as [j|]; cbn [op_step] in Hr; try discriminate.
    + destruct cur as [g|]; [destruct Hc|]. destruct (k =? n) eqn:E; [|discriminate].
      cbn [files_from] in Hin. cbn [sscan] in Hs.
      assert (Hc' : cur_ok (Some {| f_num := k; f_sdts := a; f_sntp := b; f_parts := []; f_closed := None |}) (Some k))
        by (split; reflexivity).
      refine (IH _ _ _ _ _ _ _ Hr Hc' Hs _ Hd f Hin). intros f0 [= <-]. cbn. auto.
    + destruct cur as [g|]; [|destruct Hc]. destruct Hc as [Hn Hcl]. destruct (k =? j) eqn:E; [|discriminate].
      cbn [files_from option_map] in Hin. cbn [sscan] in Hs.
      destruct (seen || first_video_sync (o_smps p)) eqn:Hchk; [|discriminate].
      assert (Hc' : cur_ok (Some (add_part g p)) (Some j)) by (split; [exact Hn|exact Hcl]).
      refine (IH _ _ _ _ _ _ _ Hr Hc' Hs _ Hd f Hin). intros f0 [= <-].
      destruct (Hcur g eq_refl) as [H1 H2]. unfold file_samples, add_part. cbn [f_parts].
      rewrite flat_map_app. cbn [flat_map]. rewrite app_nil_r. fold (file_samples g).
      rewrite has_video_app, fvs_app, <- H1. split; [reflexivity|].
      destruct seen; [exact H2|exact Hchk].
    + destruct cur as [g|]; [|destruct Hc]. destruct Hc as [Hn Hcl]. destruct (k =? j) eqn:E; [|discriminate].
      cbn [files_from] in Hin. cbn [sscan] in Hs.
      refine (IH _ None _ _ _ _ _ Hr I Hs _ _ f Hin); [intros f0 [=]|].
      intros f' [<-|Hf']; [|auto]. apply (Hcur g eq_refl).
Qed.

Lemma files_sync l : log_ok None 0 l = true -> sync_scan false l = true ->
  forall f, In f (files_of l) -> first_video_sync (file_samples f) = true.
Proof.
  intros Hok Hs f Hin. apply log_ok_run in Hok. destruct Hok as [s' Hr]. apply sscan_sync in Hs. destruct Hs as [sf Hs].
  unfold files_of in Hin. refine (files_from_sync _ _ None _ _ _ _ _ Hr I Hs _ _ f Hin); [intros f0 [=]|intros f0 []].
Qed.

(* ------------------------------------------------------------------------------------------------------------ *)
(* F. the log only grows: what is on disk when the process stops after any number of samples is a prefix of the
      final log *)

Lemma log_extends_step c t s x x' o : track_write c t s x = (x', o) -> exists l', x_log x' = x_log x ++ l'.
Proof.
  intros Ht. assert (Hl : forall y, x_log y = snd (fst (view y))) by reflexivity. rewrite !Hl.
  destruct (track_write_cases _ _ _ _ _ _ Ht) as
    [(sg & ns & lg & ac & g0 & ns0 & rate & w & g1 & lg1 & Hv & He & Hw & Hv' & _)
    |[Hv'|[(sg & ns & lg & ac & g0 & ns0 & Hv & He & Hv')
    |(sg & ns & lg & ac & g0 & ns0 & rate & w & g1 & lg1 & Hv & He & Hw & Hv')]]].
  - rewrite Hv, Hv'. cbn. destruct (seg_write_spec c rate g0 w lg) as (g' & Hs & _). rewrite Hs in Hw.
    injection Hw as _ <- _. eauto.
  - rewrite Hv'. exists []. now rewrite app_nil_r.
  - rewrite Hv, Hv'. cbn. exists []. now rewrite app_nil_r.
  - destruct (seg_write_spec c rate g0 w lg) as (g' & Hs & _). rewrite Hs in Hw. injection Hw as _ <- _.
    rewrite Hv. destruct Hv' as [->|(d & n & ->)]; cbn; [eauto|]. rewrite seg_close_spec, <- app_assoc. eauto.
Qed.
Lemma log_extends c : forall evs x, exists l', x_log (run_from c x evs) = x_log x ++ l'.
Proof.
  induction evs as [|[t s] r IH]; intros x; cbn [run_from]; [exists []; now rewrite app_nil_r|].
  destruct (track_write c t s x) as [x' o] eqn:Ht. destruct (log_extends_step _ _ _ _ _ _ Ht) as [l1 H1].
  destruct (o =? o_err); [exists l1; exact H1|].
  destruct (IH (add_out x' o)) as [l2 H2]. exists (l1 ++ l2). rewrite H2. cbn. rewrite H1, app_assoc. reflexivity.
Qed.
Lemma finish_extends x : exists l', x_log (finish x) = x_log x ++ l'.
Proof.
  unfold finish. destruct (x_seg x); cbn; [rewrite seg_close_spec; eauto|exists []; now rewrite app_nil_r].
Qed.
Lemma log_prefix_from c : forall evs x k,
  exists l', x_log (finish (run_from c x evs)) = x_log (run_from c x (firstn k evs)) ++ l'.
Proof.
  induction evs as [|[t s] r IH]; intros x k.
  - rewrite firstn_nil. cbn. apply finish_extends.
  - destruct k as [|k]; cbn [firstn].
    + destruct (finish_extends (run_from c x ((t, s) :: r))) as [l1 H1].
      destruct (log_extends c ((t, s) :: r) x) as [l2 H2]. exists (l2 ++ l1). rewrite H2 in H1.
      etransitivity; [exact H1|]. cbn [run_from]. now rewrite app_assoc.
    + cbn [run_from]. destruct (track_write c t s x) as [x' o]. destruct (o =? o_err); [apply finish_extends|apply IH].
Qed.
Lemma log_prefix_raw c evs k :
  exists l', x_log (run_raw c evs) = x_log (run_from c (init_st c) (firstn k evs)) ++ l'.
Proof. apply log_prefix_from. Qed.
