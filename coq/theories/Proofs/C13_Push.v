(* Proofs about the in-place reload statements with their own guards (Model/C13_Push.v). *)
From Coq Require Import List String ZArith Bool Lia.
Require Import MTX.Model.C13_Reload MTX.Model.C13_Push MTX.Proofs.C13_Reload MTX.Proofs.C13_Live.
Import ListNotations.
Local Open Scope string_scope.
Local Open Scope list_scope.

Lemma filter_nil_false {A} (p : A -> bool) : forall l x, filter p l = [] -> In x l -> p x = false.
Proof.
  induction l as [|a l IH]; intros x Hf Hx; [contradiction|]. simpl in Hf.
  destruct (p a) eqn:Ea; [discriminate|]. destruct Hx as [<-|Hx]; [exact Ea|apply IH; assumption].
Qed.

Lemma flat_map_nil {A B} (g : A -> list B) : forall l x, flat_map g l = [] -> In x l -> g x = [].
Proof.
  induction l as [|a l IH]; intros x Hf Hx; [contradiction|]. simpl in Hf.
  apply app_eq_nil in Hf. destruct Hf as [Ha Hl]. destruct Hx as [<-|Hx]; [exact Ha|apply IH; assumption].
Qed.

Lemma mem_in x l : mem x l = true -> In x l.
Proof.
  unfold mem. intros H. apply existsb_exists in H. destruct H as [y [Hy E]].
  apply String.eqb_eq in E. subst y. exact Hy.
Qed.

(* on an aligned statement list, what is due for a component that is not closed is exactly its row's `reloads` *)
Lemma due_aligned tbl pushes env c r f :
  misguarded tbl pushes = [] -> unpushed tbl pushes = [] ->
  find (fun r0 => String.eqb (comp r0) c) tbl = Some r -> lookupb c env = false ->
  due env pushes c f = mem f (reloads r).
Proof.
  intros Hm Hu Hfind Hc.
  pose proof (find_some _ _ Hfind) as [Hr Ec]. apply String.eqb_eq in Ec.
  destruct (mem f (reloads r)) eqn:M.
  - apply mem_in in M.
    pose proof (flat_map_nil _ _ _ Hu Hr) as H1. apply map_eq_nil in H1.
    pose proof (filter_nil_false _ _ _ H1 M) as H2. apply negb_false_iff in H2.
    apply existsb_exists in H2. destruct H2 as [p [Hp Hq]].
    apply andb_true_iff in Hq. destruct Hq as [Hq E3]. apply andb_true_iff in Hq. destruct Hq as [E1 E2].
    apply String.eqb_eq in E1, E2, E3.
    unfold due. apply existsb_exists. exists p. split; [exact Hp|].
    rewrite E2, E3, E1, Ec, Hc. rewrite !String.eqb_refl. reflexivity.
  - destruct (due env pushes c f) eqn:D; [|reflexivity]. exfalso.
    unfold due in D. apply existsb_exists in D. destruct D as [p [Hp Hq]].
    apply andb_true_iff in Hq. destruct Hq as [Hq _]. apply andb_true_iff in Hq. destruct Hq as [E1 E2].
    apply String.eqb_eq in E1, E2.
    pose proof (filter_nil_false _ _ _ Hm Hp) as Hb. unfold bad_push in Hb.
    apply orb_false_iff in Hb. destruct Hb as [_ Hb]. apply negb_false_iff in Hb.
    rewrite E1, Hfind, E2 in Hb. congruence.
Qed.

(* aligned statements: the statement list as written behaves as close_pass (every theorem about `reload` applies) *)
Theorem close_pass_g_equiv tbl pushes ptrs old new s :
  misguarded tbl pushes = [] -> unpushed tbl pushes = [] ->
  st_eq (close_pass_g tbl pushes ptrs old new s) (close_pass tbl ptrs old new s).
Proof.
  intros Hm Hu c. unfold close_pass_g, close_pass.
  destruct (find (fun r => String.eqb (comp r) c) tbl) as [r|] eqn:Hfind.
  - destruct (s c) as [i|]; [|exact I].
    destruct (lookupb c (eval_rows ptrs old new tbl [])) eqn:Hc; [exact I|].
    split; [reflexivity|]. split; [|reflexivity].
    intros f. simpl. rewrite (due_aligned tbl pushes _ c r f Hm Hu Hfind Hc). reflexivity.
  - destruct (s c) as [i|]; [|exact I]. split; [reflexivity|]. split; reflexivity.
Qed.

Section Live.
Variable atomv : string -> string -> Z -> bool.

(* the direct statement, for every table, every statement list, every pair of configurations (= every combination of
   other changes) and every state: a standing component that is not closed by this reload is, after reloadConf, the SAME
   instance and holds the NEW value of every field its row says is pushed in place, whenever that field changed *)
Theorem pushed_whenever tbl pushes ptrs n old new s r i f :
  well_ordered [] tbl = true -> misguarded tbl pushes = [] -> unpushed tbl pushes = [] ->
  In r tbl -> s (comp r) = Some i -> closes_eval tbl ptrs old new (comp r) = false ->
  mem f (reloads r) = true -> val (old f) <> val (new f) ->
  exists j, reload_g atomv n tbl pushes ptrs old new s (comp r) = Some j /\ gen j = gen i /\ hval j f = val (new f)
            /\ (forall d, href j d = href i d).
Proof.
  intros Hwo Hm Hu Hr Hs Hc Hf Hne.
  pose proof (tbl_nodup tbl Hwo) as Hnd.
  pose proof (find_row tbl r Hnd Hr) as Hfind.
  destruct (in_split _ _ Hr) as [pre [post Htbl]].
  unfold reload_g. set (s1 := close_pass_g tbl pushes ptrs old new s).
  assert (s1 (comp r) = Some (push_g (eval_rows ptrs old new tbl []) pushes old new (comp r) i)) as Hs1.
  { unfold s1, close_pass_g. rewrite Hfind, Hs. unfold closes_eval in Hc. rewrite Hc. reflexivity. }
  rewrite Htbl. rewrite Htbl in Hnd. rewrite (create_at atomv n new pre r post s1 Hnd). rewrite Hs1.
  eexists. split; [reflexivity|]. split; [reflexivity|]. split; [|reflexivity].
  simpl.
  rewrite (due_aligned tbl pushes _ (comp r) r f Hm Hu Hfind Hc), Hf.
  destruct (Z.eqb_spec (val (old f)) (val (new f))); [contradiction|reflexivity].
Qed.
End Live.

(* ---- a guard taken from another component is wrong: smallest witness ---- *)
Definition w_tbl : list row :=
  [ {| comp := "playbackServer"; guard := []; uses := ["PlaybackAddress"; "Paths"]; refs := [];
       cmps := [("PlaybackAddress", CmpVal)]; close_refs := []; reloads := ["Paths"]; gexp := GTrue;
       bound := ["PlaybackAddress"; "Paths"]; refbound := [] |};
    {| comp := "pathManager"; guard := []; uses := ["ReadTimeout"; "Paths"]; refs := [];
       cmps := [("ReadTimeout", CmpVal)]; close_refs := []; reloads := ["Paths"]; gexp := GTrue;
       bound := ["ReadTimeout"; "Paths"]; refbound := [] |} ].
Definition w_good : list pushstmt := [("playbackServer", "playbackServer", "Paths"); ("pathManager", "pathManager", "Paths")].
(* `if !closePlaybackServer && p.pathManager != nil && pathConfsChanged { p.pathManager.ReloadPathConfs(..) }` *)
Definition w_bad : list pushstmt := [("playbackServer", "playbackServer", "Paths"); ("playbackServer", "pathManager", "Paths")].
Definition w_av : string -> string -> Z -> bool := fun _ _ _ => true.
Definition w_c (addr0 paths0 : Z) : conf :=
  fun f => {| val := if String.eqb f "PlaybackAddress" then addr0 else if String.eqb f "Paths" then paths0 else 0; addr := 0 |}.
Definition w_held (pushes : list pushstmt) (old new : conf) (c f : string) : Z :=
  match reload_g w_av 2 w_tbl pushes [] old new (start w_av w_tbl old) c with Some j => hval j f | None => -1 end.
Definition w_gen (pushes : list pushstmt) (old new : conf) (c : string) : Z :=
  gen_of (reload_g w_av 2 w_tbl pushes [] old new (start w_av w_tbl old) c).

(* one reload changes the playback address (playback server recreated) and the path configurations: with the guard of
   the playback server the path manager survives (generation 1) holding the OLD path configurations; with its own guard
   it holds the new ones; the decidable check names the statement *)
Lemma guard_of_another_component_refuted :
  w_gen w_bad (w_c 1 10) (w_c 2 11) "pathManager" = 1%Z /\ w_held w_bad (w_c 1 10) (w_c 2 11) "pathManager" "Paths" = 10%Z /\
  w_gen w_good (w_c 1 10) (w_c 2 11) "pathManager" = 1%Z /\ w_held w_good (w_c 1 10) (w_c 2 11) "pathManager" "Paths" = 11%Z /\
  misguarded w_tbl w_bad = [("playbackServer", "pathManager", "Paths")] /\ misguarded w_tbl w_good = [] /\ unpushed w_tbl w_good = [].
Proof. vm_compute. repeat split; reflexivity. Qed.

(* the other direction of the same slip: only the path configurations change and the playback server is being closed for
   another reason is not needed - a changed path map ALONE is pushed by both; the slip is invisible to one-change reloads *)
Lemma guard_of_another_component_invisible_to_single_changes :
  w_held w_bad (w_c 1 10) (w_c 1 11) "pathManager" "Paths" = 11%Z /\
  w_held w_bad (w_c 1 10) (w_c 2 10) "pathManager" "Paths" = 10%Z.
Proof. vm_compute. split; reflexivity. Qed.
