(* Proofs about Model/C32_Moq.v, part 4: subgroup streams *)
From Coq Require Import List ZArith Lia Bool ZifyBool.
Require Import MTX.Lib.IntWrap MTX.Model.C32_Moq MTX.Proofs.C32_Varint MTX.Proofs.C32_Types.
Import ListNotations.
Local Open Scope Z_scope.

Definition wf_headerb (h : header) : bool := u64b h.(h_alias) && u64b h.(h_group).

(* an object that SubGroup.Read gives back: non-empty payload within 10 MiB, properties only if
   the header announces them, encoded properties within 128 KiB *)
Definition wf_objectb (hp : bool) (o : object) : bool :=
  u64b o.(o_delta) && wf_propsb o.(o_props)
  && (0 <? len o.(o_payload)) && (len o.(o_payload) <=? max_payload_size)
  && (hp || match o.(o_props) with [] => true | _ :: _ => false end)
  && (len (enc_properties o.(o_props)) <=? max_props_len).

Definition wf_subgroupb (h : header) (objs : list object) : bool :=
  wf_headerb h && match objs with [o] => wf_objectb h.(h_props) o | _ => false end.

Lemma enc_varint_small x : 0 <= x < 128 -> enc_varint x = [x].
Proof.
  intros Hx. unfold enc_varint. destruct (Z.ltb_spec x (2 ^ 7)) as [_|L]; [|lia].
  now rewrite Z.mod_small by lia.
Qed.

Lemma header_roundtrip h rest : wf_headerb h = true ->
  read_header (enc_header h ++ rest) = Ok h rest.
Proof.
  unfold wf_headerb. intros Hwf. apply andb_prop in Hwf. destruct Hwf as [Ha Hg].
  apply u64b_spec in Ha. apply u64b_spec in Hg.
  destruct h as [hp hf al gr]. cbn [h_alias h_group h_props h_first] in *.
  unfold enc_header. cbn [h_alias h_group h_props h_first].
  rewrite enc_varint_small by (destruct hp, hf; lia).
  cbn [app]. unfold read_header. rewrite read_varint_eq, <- app_assoc.
  rewrite varint_roundtrip by exact Ha. cbn [bind]. rewrite read_varint_eq.
  rewrite varint_roundtrip by exact Hg. cbn [bind].
  destruct hp, hf; reflexivity.
Qed.

Lemma enc_props_nonempty prev t ts : 0 < len (enc_props prev (t :: ts)).
Proof.
  cbn [enc_props]. rewrite !len_app, enc_varint_len.
  pose proof (varint_len_range (wrapu64 (timestamp_property_type - prev))).
  pose proof (len_nonneg (enc_varint t)). pose proof (len_nonneg (enc_props timestamp_property_type ts)). lia.
Qed.

(* the properties field of an object *)
Definition enc_props_field (hp : bool) (props : list Z) : bytes :=
  if hp then enc_varint (len (enc_properties props)) ++ enc_properties props else [].

Definition read_props_field (hp : bool) (s1 : bytes) : res (list Z) :=
  if hp then
    let* (pl, s1a) := read_varint s1 in
    if pl >? 0 then
      if pl >? max_props_len then Err
      else alloc pl max_props_len
             (if len s1a <? pl then Err
              else let* (ps, unread) := dec_properties (firstn (Z.to_nat pl) s1a) in
                   Ok ps (skipn (Z.to_nat pl) s1a))
    else Ok [] s1a
  else Ok [] s1.

Lemma read_object_unfold hp s :
  read_object hp s =
  (let* (d, s1) := read_varint s in
   let* (props, s2) := read_props_field hp s1 in
   let* (plen, s3) := read_varint s2 in
   if plen =? 0 then
     let* (st, s4) := read_varint s3 in
     if negb (st =? 3) && negb (st =? 4) then Err else Ok (mkObj d props []) s4
   else if plen >? max_payload_size then Err
   else alloc plen max_payload_size
          (if len s3 <? plen then Err
           else Ok (mkObj d props (firstn (Z.to_nat plen) s3)) (skipn (Z.to_nat plen) s3))).
Proof. reflexivity. Qed.

Lemma props_field_roundtrip hp props rest :
  wf_propsb props = true ->
  (hp || match props with [] => true | _ :: _ => false end) = true ->
  len (enc_properties props) <= max_props_len ->
  read_props_field hp (enc_props_field hp props ++ rest) = Ok props rest.
Proof.
  intros Hwf Hhp Hlen. unfold read_props_field, enc_props_field.
  destruct hp.
  - rewrite read_varint_eq, <- app_assoc.
    rewrite varint_roundtrip by (apply u64_len; unfold max_props_len, two63 in *; lia). cbn [bind].
    destruct props as [|t ts].
    + reflexivity.
    + pose proof (enc_props_nonempty 0 t ts) as Hpos. fold (enc_properties (t :: ts)) in Hpos.
      set (P := enc_properties (t :: ts)) in *.
      destruct (Z.gtb_spec (len P) 0); [|lia].
      destruct (Z.gtb_spec (len P) max_props_len); [lia|].
      unfold alloc. destruct (Z.leb_spec (len P) max_props_len); [|lia].
      rewrite len_app. pose proof (len_nonneg rest).
      destruct (Z.ltb_spec (len P + len rest) (len P)); [lia|].
      rewrite firstn_len_app, skipn_len_app. subst P.
      rewrite properties_roundtrip by exact Hwf. reflexivity.
  - destruct props; [reflexivity|discriminate].
Qed.

Lemma object_roundtrip hp o rest : wf_objectb hp o = true ->
  read_object hp (enc_object hp o ++ rest) = Ok o rest.
Proof.
  unfold wf_objectb. intros Hwf.
  destruct o as [d props payload]. cbn [o_delta o_props o_payload] in *.
  apply andb_prop in Hwf; destruct Hwf as [Hwf H6]. apply andb_prop in Hwf; destruct Hwf as [Hwf H5].
  apply andb_prop in Hwf; destruct Hwf as [Hwf H4]. apply andb_prop in Hwf; destruct Hwf as [Hwf H3].
  apply andb_prop in Hwf; destruct Hwf as [Hwf H2].
  apply u64b_spec in Hwf.
  rewrite read_object_unfold. unfold enc_object. cbn [o_delta o_props o_payload].
  change (if hp then enc_varint (len (enc_properties props)) ++ enc_properties props else [])
    with (enc_props_field hp props).
  destruct (Z.eqb_spec (len payload) 0) as [E0|_]; [lia|].
  rewrite <- !app_assoc. rewrite read_varint_eq.
  rewrite varint_roundtrip by exact Hwf. cbn [bind].
  rewrite props_field_roundtrip by (try assumption; lia). cbn [bind].
  rewrite read_varint_eq.
  rewrite varint_roundtrip by (apply u64_len; unfold max_payload_size, two63 in *; lia). cbn [bind].
  destruct (Z.eqb_spec (len payload) 0) as [E0|_]; [lia|].
  destruct (Z.gtb_spec (len payload) max_payload_size); [lia|].
  unfold alloc. destruct (Z.leb_spec (len payload) max_payload_size); [|lia].
  rewrite len_app. pose proof (len_nonneg rest).
  destruct (Z.ltb_spec (len payload + len rest) (len payload)); [lia|].
  rewrite firstn_len_app, skipn_len_app. reflexivity.
Qed.

(* the closing object Marshal appends: IDDelta 0, (no properties), length 0, status END_OF_GROUP *)
Lemma end_object_roundtrip hp rest :
  read_object hp (enc_object hp (mkObj 0 [] []) ++ rest) = Ok (mkObj 0 [] []) rest.
Proof.
  rewrite read_object_unfold. unfold enc_object. cbn [o_delta o_props o_payload].
  change (if hp then enc_varint (len (enc_properties [])) ++ enc_properties [] else [])
    with (enc_props_field hp []).
  change (len (@nil Z) =? 0) with true. cbv iota.
  rewrite <- !app_assoc. rewrite read_varint_eq.
  rewrite varint_roundtrip by (unfold u64, two64; lia). cbn [bind].
  rewrite props_field_roundtrip; [|reflexivity|destruct hp; reflexivity|unfold max_props_len; cbn; lia].
  cbn [bind]. change ([0; 3] ++ rest) with (enc_varint 0 ++ enc_varint 3 ++ rest).
  rewrite read_varint_eq. rewrite varint_roundtrip by (unfold u64, two64; lia). cbn [bind].
  cbn [Z.eqb]. rewrite read_varint_eq. rewrite varint_roundtrip by (unfold u64, two64; lia). reflexivity.
Qed.

Theorem subgroup_roundtrip h objs rest : wf_subgroupb h objs = true ->
  read_subgroup (enc_subgroup h objs ++ rest) = Ok (h, objs) rest.
Proof.
  unfold wf_subgroupb. intros Hwf. apply andb_prop in Hwf. destruct Hwf as [Hh Ho].
  destruct objs as [|o [|o' objs]]; try discriminate.
  unfold read_subgroup, enc_subgroup. cbn [map concat]. rewrite app_nil_r, <- !app_assoc.
  rewrite header_roundtrip by exact Hh. cbn [bind].
  rewrite object_roundtrip by exact Ho. cbn [bind].
  unfold wf_objectb in Ho.
  assert (Hp : 0 < len (o_payload o)) by lia.
  destruct (Z.eqb_spec (len (o_payload o)) 0); [lia|].
  rewrite end_object_roundtrip. reflexivity.
Qed.

(* ---- safety ---- *)
Lemma read_header_safe s : Forall is_byte s -> safe (read_header s) (length s).
Proof.
  intros Hs. destruct s as [|b s1]; [exact I|]. unfold read_header.
  inversion Hs as [|? ? _ Hs1]; subst.
  destruct (read_varint_inv s1 Hs1) as [E|(a & s2 & E & _ & Hs2 & Hl2)]; rewrite E; cbn [bind]; [exact I|].
  destruct (read_varint_inv s2 Hs2) as [E3|(g & s3 & E3 & _ & Hs3 & Hl3)]; rewrite E3; cbn [bind]; [exact I|].
  split; [cbn [length]; lia|exact Hs3].
Qed.

Lemma read_props_field_safe hp s : Forall is_byte s -> safe (read_props_field hp s) (length s).
Proof.
  intros Hs. unfold read_props_field. destruct hp; [|cbn; split; [lia|exact Hs]].
  destruct (read_varint_inv s Hs) as [E|(pl & s1 & E & Hpl & Hs1 & Hl1)]; rewrite E; cbn [bind]; [exact I|].
  destruct (Z.gtb_spec pl 0); [|cbn; split; [lia|exact Hs1]].
  destruct (Z.gtb_spec pl max_props_len); [exact I|].
  unfold alloc. destruct (Z.leb_spec pl max_props_len); [|lia].
  destruct (Z.ltb_spec (len s1) pl); [exact I|].
  eapply safe_bind.
  - apply dec_properties_safe; [apply Forall_firstn; exact Hs1|].
    unfold len. rewrite firstn_length. unfold max_props_len, two63 in *. lia.
  - intros ps r _ _. cbn. split; [rewrite skipn_length; lia|apply Forall_skipn; exact Hs1].
Qed.

Lemma read_object_safe hp s : Forall is_byte s -> safe (read_object hp s) (length s).
Proof.
  intros Hs. rewrite read_object_unfold.
  destruct (read_varint_inv s Hs) as [E|(d & s1 & E & _ & Hs1 & Hl1)]; rewrite E; cbn [bind]; [exact I|].
  eapply safe_bind; [apply read_props_field_safe; exact Hs1|].
  intros props s2 Hl2 Hs2.
  destruct (read_varint_inv s2 Hs2) as [E3|(plen & s3 & E3 & Hplen & Hs3 & Hl3)]; rewrite E3; cbn [bind]; [exact I|].
  destruct (plen =? 0).
  - destruct (read_varint_inv s3 Hs3) as [E4|(st & s4 & E4 & _ & Hs4 & Hl4)]; rewrite E4; cbn [bind]; [exact I|].
    destruct (negb (st =? 3) && negb (st =? 4)); [exact I|]. cbn. split; [lia|exact Hs4].
  - destruct (Z.gtb_spec plen max_payload_size); [exact I|].
    unfold alloc. destruct (Z.leb_spec plen max_payload_size); [|lia].
    destruct (Z.ltb_spec (len s3) plen); [exact I|].
    cbn. split; [rewrite skipn_length; lia|apply Forall_skipn; exact Hs3].
Qed.

(* SubGroup.Read: no panic, every make() within its limit (8 / 128 KiB / 10 MiB) *)
Theorem read_subgroup_safe s : Forall is_byte s -> safe (read_subgroup s) (length s).
Proof.
  intros Hs. unfold read_subgroup.
  eapply safe_bind; [apply read_header_safe; exact Hs|].
  intros h s1 Hl1 Hs1. eapply safe_bind; [apply read_object_safe; exact Hs1|].
  intros o1 s2 Hl2 Hs2. destruct (len (o_payload o1) =? 0); [exact I|].
  eapply safe_bind; [apply read_object_safe; exact Hs2|].
  intros o2 s3 Hl3 Hs3. destruct (negb (len (o_payload o2) =? 0)); [exact I|].
  cbn. split; [lia|exact Hs3].
Qed.
