From Coq Require Import List ZArith Lia Bool ZifyBool.
Require Import MTX.Lib.IntWrap MTX.Model.C24_MulDiv MTX.Proofs.C24_MulDiv MTX.Model.C25_Ntp.
Import ListNotations.
Local Open Scope Z_scope.

Lemma estimate_window rate e pts now o e' :
  estimate rate e pts now = (e', o) -> now - max_diff <= o <= now.
Proof.
  unfold estimate, resyncs. destruct (inited e); simpl.
  - destruct (Z.gtb_spec (computed rate e pts) now) as [Hgt|Hle]; simpl.
    + intros Heq; inversion Heq; subst. unfold max_diff, nanos. lia.
    + destruct (Z.ltb_spec (computed rate e pts) (now - max_diff)) as [Hlt|Hge]; simpl;
        intros Heq; inversion Heq; subst; unfold max_diff, nanos in *; lia.
  - intros Heq; inversion Heq; subst. unfold max_diff, nanos. lia.
Qed.

(* every output of every history lies in [now - 5 s, now], whatever the PTS and clock do *)
Lemma run_window rate : forall inp e,
  Forall2 (fun i o => snd i - max_diff <= o <= snd i) inp (run rate e inp).
Proof.
  induction inp as [|[pts now] r IH]; intros e; simpl; [constructor|].
  destruct (estimate rate e pts now) as [e' o] eqn:E. constructor; [|apply IH].
  simpl. eapply estimate_window; exact E.
Qed.

(* a call that does not resynchronise keeps the reference and returns ref + scaled PTS difference *)
Lemma estimate_steady rate e pts now :
  resyncs rate e pts now = false ->
  estimate rate e pts now = (e, ref_ntp e + muldiv_w (wrap64 (pts - ref_pts e)) nanos rate).
Proof. intros H. unfold estimate. rewrite H. reflexivity. Qed.

Definition scaled (rate x : Z) : Z := Z.quot (x * nanos) rate.

(* two calls against the same reference, none of which resynchronises: the absolute timestamps differ by the
   difference of the exactly scaled PTS offsets, i.e. by the frame timestamp difference up to the helper's
   truncation (strictly less than one nanosecond each), and exactly when the offsets scale without remainder *)
Lemma steady_pair rate e p1 n1 p2 n2 o1 o2 e1 e2 :
  1 <= rate <= two32 ->
  resyncs rate e p1 n1 = false -> resyncs rate e p2 n2 = false ->
  estimate rate e p1 n1 = (e1, o1) -> estimate rate e1 p2 n2 = (e2, o2) ->
  let d1 := p1 - ref_pts e in let d2 := p2 - ref_pts e in
  in_int64 d1 -> in_int64 d2 -> in_int64 (scaled rate d1) -> in_int64 (scaled rate d2) ->
  e1 = e /\ e2 = e /\ o2 - o1 = scaled rate d2 - scaled rate d1.
Proof.
  intros Hr R1 R2 E1 E2 d1 d2 I1 I2 S1 S2.
  rewrite (estimate_steady _ _ _ _ R1) in E1. inversion E1; subst e1 o1.
  rewrite (estimate_steady _ _ _ _ R2) in E2. inversion E2; subst e2 o2.
  fold d1 d2. rewrite (wrap64_id d1 I1), (wrap64_id d2 I2).
  assert (scale_ok nanos rate) as Hs by (unfold scale_ok, nanos, two32 in *; split; [lia|split; [lia|left; reflexivity]]).
  rewrite (muldiv_exact d1 nanos rate Hs I1 S1), (muldiv_exact d2 nanos rate Hs I2 S2).
  unfold scaled. repeat split; lia.
Qed.

Lemma scaled_exact rate x k : 0 < rate -> x * nanos = k * rate -> scaled rate x = k.
Proof. intros Hr H. unfold scaled. rewrite H. apply Z.quot_mul. lia. Qed.

Lemma scaled_close rate x : 0 < rate -> Z.abs (rate * scaled rate x - x * nanos) < rate.
Proof.
  intros Hr. unfold scaled.
  pose proof (Z.quot_rem' (x * nanos) rate) as E.
  pose proof (Z.rem_bound_abs (x * nanos) rate ltac:(lia)) as B.
  replace (rate * Z.quot (x * nanos) rate - x * nanos) with (- Z.rem (x * nanos) rate) by lia.
  rewrite Z.abs_opp. lia.
Qed.

(* no spurious resynchronisation: while the exactly scaled frame timestamp, counted from the reference, stays
   inside [now - 5 s, now], the estimator keeps its reference and returns exactly that instant *)
Lemma no_spurious_resync rate e pts now :
  1 <= rate <= two32 -> inited e = true ->
  let d := pts - ref_pts e in
  in_int64 d -> in_int64 (scaled rate d) ->
  now - max_diff <= ref_ntp e + scaled rate d <= now ->
  resyncs rate e pts now = false /\ estimate rate e pts now = (e, ref_ntp e + scaled rate d).
Proof.
  intros Hr Hi d I S W.
  assert (scale_ok nanos rate) as Hs by (unfold scale_ok, nanos, two32 in *; split; [lia|split; [lia|left; reflexivity]]).
  assert (computed rate e pts = ref_ntp e + scaled rate d) as C.
  { unfold computed. fold d. rewrite (wrap64_id d I), (muldiv_exact d nanos rate Hs I S). reflexivity. }
  assert (resyncs rate e pts now = false) as R.
  { unfold resyncs. rewrite Hi, C. simpl.
    destruct (Z.gtb_spec (ref_ntp e + scaled rate d) now); [lia|].
    destruct (Z.ltb_spec (ref_ntp e + scaled rate d) (now - max_diff)); [lia|]. reflexivity. }
  split; [exact R|]. rewrite (estimate_steady _ _ _ _ R). fold (computed rate e pts). rewrite C. reflexivity.
Qed.

(* a whole steady stretch: every call of the history stays inside the window of the same reference *)
Definition in_step (rate : Z) (e : est) (c : Z * Z) : Prop :=
  let d := fst c - ref_pts e in
  in_int64 d /\ in_int64 (scaled rate d) /\ snd c - max_diff <= ref_ntp e + scaled rate d <= snd c.

Lemma steady_stretch rate e : 1 <= rate <= two32 -> inited e = true ->
  forall inp, Forall (in_step rate e) inp ->
  run rate e inp = map (fun c => ref_ntp e + scaled rate (fst c - ref_pts e)) inp.
Proof.
  intros Hr Hi inp. induction inp as [|[pts now] r IH]; intros F; simpl; [reflexivity|].
  inversion F as [|c l [I [S W]] F']; subst. simpl in I, S, W.
  destruct (no_spurious_resync rate e pts now Hr Hi I S W) as [_ E]. rewrite E.
  f_equal. apply IH. exact F'.
Qed.

(* ... hence two outputs of a steady stretch differ by the frame timestamp difference, less than 2 ns off *)
Lemma steady_stretch_diff rate x y : 0 < rate ->
  Z.abs (rate * (scaled rate y - scaled rate x) - (y - x) * nanos) < 2 * rate.
Proof.
  intros Hr. pose proof (scaled_close rate x Hr). pose proof (scaled_close rate y Hr). lia.
Qed.
