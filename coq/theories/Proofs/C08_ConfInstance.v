(* C08 — the schema theorem instantiated on the generated schema of the real configuration types. *)
From Coq Require Import List ZArith Bool Lia.
Require Import MTX.Lib.IntWrap MTX.Model.C08_Scalars MTX.Model.C08_Schema MTX.Model.C08_ConfCodecs.
Require Import MTX.Proofs.C08_Schema MTX.Proofs.C08_ConfCodecs MTXGen.C08_ConfSchema.
Import ListNotations.
Local Open Scope Z_scope.

Definition fields_of (t : ty codec) : list (list Z * bool * ty codec) :=
  match t with TStruct fs => fs | _ => [] end.

(* decidable side conditions of the theorems, evaluated on the generated terms *)
Definition schema_ok (t : ty codec) : bool := ty_ok codec t && forallb known_codec (codecs_of codec t).

Lemma schemas_ok :
  schema_ok global_ty = true /\ schema_ok path_ty = true /\ schema_ok opt_global_ty = true /\ schema_ok opt_path_ty = true.
Proof. vm_compute. repeat split. Qed.

(* the decode targets are the all-pointer, all-omitempty views of the encoded structs *)
Lemma optional_views :
  opt_global_ty = optionalize codec global_ty /\ opt_path_ty = optionalize codec path_ty /\
  global_ty = TStruct (fields_of global_ty) /\ path_ty = TStruct (fields_of path_ty).
Proof. vm_compute. repeat split. Qed.

(* the struct reflected from conf.AlwaysAvailableTrack is the one the CTrack codec model encodes/decodes *)
Lemma track_schema : track_ty = track_ty_model.
Proof. vm_compute. reflexivity. Qed.

(* no map type occurs in the configuration: the restriction of the map model (distinct keys in key order,
   [no_dup_keys] in [wf]) is vacuous for the four schemas *)
Lemma schemas_no_map :
  has_map codec global_ty = false /\ has_map codec path_ty = false /\
  has_map codec opt_global_ty = false /\ has_map codec opt_path_ty = false.
Proof. vm_compute. repeat split. Qed.

(* ... and where a map does occur the generic theorem needs distinct keys: the hypothesis, spelled out *)
Lemma wf_map_no_dup_keys (codec cval : Type) (cwf : codec -> cval -> Prop) t m :
  wf codec cval cwf (TMap t) (VMap m) -> no_dup_keys cval m.
Proof. cbn. tauto. Qed.

Section Instance.
  Variable cred_valid : list Z -> bool.

  Notation cdec := (cdec cred_valid).
  Notation cwf := (cwf cred_valid).

  Theorem conf_roundtrip t : In t [global_ty; path_ty; opt_global_ty; opt_path_ty] ->
    forall v, wf codec cval cwf t v -> dec codec cval cdec czero t (enc codec cval cenc t v) = Some v.
  Proof.
    intros Hin. destruct schemas_ok as (H1 & H2 & H3 & H4).
    assert (Hs : schema_ok t = true) by (simpl in Hin; intuition (subst; assumption)).
    unfold schema_ok in Hs. apply andb_true_iff in Hs as [Hok Hk].
    apply (conf_schema_roundtrip cred_valid t Hok Hk).
  Qed.

  (* GET (encode the struct) then PATCH (decode into the optional view, copy the non-nil fields): no-op *)
  Theorem api_roundtrip t t' : In (t, t') [(global_ty, opt_global_ty); (path_ty, opt_path_ty)] ->
    forall vs, wf codec cval cwf t (VStruct vs) ->
    dec codec cval cdec czero t' (enc codec cval cenc t (VStruct vs)) = Some (lift codec cval t (VStruct vs)) /\
    patch codec cval t (VStruct vs) (lift codec cval t (VStruct vs)) = VStruct vs.
  Proof.
    intros Hin vs Hw. destruct schemas_ok as (H1 & H2 & _ & _).
    destruct optional_views as (V1 & V2 & S1 & S2).
    simpl in Hin. destruct Hin as [Hin|[Hin|[]]]; inversion Hin; subst t t'.
    - unfold schema_ok in H1. apply andb_true_iff in H1 as [Hok Hk].
      rewrite V1. rewrite S1 in *.
      apply (conf_optional_roundtrip cred_valid (fields_of global_ty) vs Hok Hk Hw).
    - unfold schema_ok in H2. apply andb_true_iff in H2 as [Hok Hk].
      rewrite V2. rewrite S2 in *.
      apply (conf_optional_roundtrip cred_valid (fields_of path_ty) vs Hok Hk Hw).
  Qed.
End Instance.

Example schema_sizes :
  length (fields_of global_ty) = length (fields_of opt_global_ty) /\ length (fields_of path_ty) = length (fields_of opt_path_ty) /\
  (100 <= length (fields_of global_ty))%nat /\ (100 <= length (fields_of path_ty))%nat.
Proof. vm_compute. repeat split; repeat constructor. Qed.
