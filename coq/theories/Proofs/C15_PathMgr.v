(* Proofs about the path-manager model (Model/C15_PathMgr.v). *)
From Coq Require Import List ZArith Bool Lia String.
Require Import MTX.Model.C14_PathConf MTX.Proofs.C14_PathConf MTX.Model.C15_PathMgr.
Require Import MTXGen.C15_HotFields.
Import ListNotations.
Local Open Scope Z_scope.

(* ---------------------------------------------------------------- small equalities *)
Lemma conf_eqb_eq a b : conf_eqb a b = true <-> a = b.
Proof.
  revert b; induction a as [|x a IH]; intros [|y b]; simpl; split; intros H;
    try reflexivity; try discriminate.
  - apply andb_true_iff in H as [H1 H2]. apply Z.eqb_eq in H1. apply IH in H2. subst; reflexivity.
  - inversion H; subst. rewrite Z.eqb_refl. simpl. apply IH. reflexivity.
Qed.

Lemma strs_eqb_eq a b : strs_eqb a b = true <-> a = b.
Proof.
  revert b; induction a as [|x a IH]; intros [|y b]; simpl; split; intros H;
    try reflexivity; try discriminate.
  - apply andb_true_iff in H as [H1 H2]. apply str_eqb_eq in H1. apply IH in H2. subst; reflexivity.
  - inversion H; subst. rewrite str_eqb_refl. simpl. apply IH. reflexivity.
Qed.

Lemma nodup_app {A} (l1 l2 : list A) :
  NoDup l1 -> NoDup l2 -> (forall x, In x l1 -> In x l2 -> False) -> NoDup (l1 ++ l2).
Proof.
  induction l1 as [|a l1 IH]; simpl; intros H1 H2 Hd; [exact H2|].
  inversion H1 as [|? ? Hn H1']; subst. constructor.
  - intros Hin. apply in_app_or in Hin as [Hin|Hin]; [contradiction|]. apply (Hd a); [left; reflexivity|exact Hin].
  - apply IH; [exact H1'|exact H2|]. intros x Hx1 Hx2. apply (Hd x); [right; exact Hx1|exact Hx2].
Qed.

Lemma nodup_map_inj {A B} (f : A -> B) (l : list A) x y :
  NoDup (map f l) -> In x l -> In y l -> f x = f y -> x = y.
Proof.
  induction l as [|a l IH]; simpl; intros Hnd Hx Hy Hf; [contradiction|].
  inversion Hnd as [|? ? Hn Hnd']; subst.
  destruct Hx as [->|Hx], Hy as [->|Hy].
  - reflexivity.
  - exfalso. apply Hn. rewrite Hf. apply in_map, Hy.
  - exfalso. apply Hn. rewrite <- Hf. apply in_map, Hx.
  - apply IH; assumption.
Qed.

(* ---------------------------------------------------------------- pathConfCanBeUpdated *)
Lemma can_update_refl mask c : can_update_mask mask c c = true.
Proof.
  revert mask; induction c as [|x c IH]; intros mask; simpl; [reflexivity|].
  rewrite Z.eqb_refl, orb_true_r. simpl. apply IH.
Qed.

Lemma can_update_mask_spec mask o n :
  can_update_mask mask o n = true <->
  List.length o = List.length n /\
  forall i, nth i mask false = false -> nth_error o i = nth_error n i.
Proof.
  revert mask n; induction o as [|x o IH]; intros mask [|y n]; simpl.
  - split; [intros _; split; [reflexivity|intros; reflexivity]|reflexivity].
  - split; [discriminate|intros [H _]; discriminate].
  - split; [discriminate|intros [H _]; discriminate].
  - rewrite andb_true_iff, IH. split.
    + intros [H1 [H2 H3]]. split; [f_equal; exact H2|]. intros [|i] Hi.
      * destruct mask as [|b mask]; simpl in *.
        -- apply Z.eqb_eq in H1. subst; reflexivity.
        -- subst b. simpl in H1. apply Z.eqb_eq in H1. subst; reflexivity.
      * simpl. apply H3. destruct mask as [|b mask]; simpl in *; [destruct i; reflexivity|exact Hi].
    + intros [H1 H2]. split; [|split; [congruence|]].
      * destruct (hd false mask) eqn:Eh; [reflexivity|]. simpl.
        specialize (H2 0%nat). simpl in H2. destruct mask as [|b mask]; simpl in *.
        -- specialize (H2 eq_refl). inversion H2. apply Z.eqb_refl.
        -- subst b. specialize (H2 eq_refl). inversion H2. apply Z.eqb_refl.
      * intros i Hi. specialize (H2 (S i)). simpl in H2. apply H2.
        destruct mask as [|b mask]; simpl in *; [reflexivity|exact Hi].
Qed.

Lemma mem_str_in s l : mem_str s l = true <-> In s l.
Proof.
  unfold mem_str. rewrite existsb_exists. split.
  - intros [x [Hx He]]. apply String.eqb_eq in He. subst; exact Hx.
  - intros H. exists s. split; [exact H|apply String.eqb_refl].
Qed.

(* the generated instance: exactly the fields outside hot_fields must be equal *)
Lemma can_update_hot_iff (o n : conf) :
  List.length o = List.length path_fields -> List.length n = List.length path_fields ->
  (can_update o n = true <->
   forall i f, nth_error path_fields i = Some f -> ~ In f hot_fields -> nth_error o i = nth_error n i).
Proof.
  intros Ho Hn. unfold can_update. rewrite can_update_mask_spec. split.
  - intros [_ H] i f Hf Hnot. apply H. unfold hot_mask.
    assert (Hi : (i < List.length path_fields)%nat) by (apply nth_error_Some; congruence).
    rewrite (nth_indep _ false (mem_str EmptyString hot_fields)) by (rewrite map_length; exact Hi).
    rewrite (map_nth (fun f => mem_str f hot_fields)).
    rewrite (nth_error_nth _ _ _ Hf).
    destruct (mem_str f hot_fields) eqn:E; [apply mem_str_in in E; contradiction|reflexivity].
  - intros H. split; [congruence|]. intros i Hi.
    destruct (nth_error path_fields i) as [f|] eqn:Ef.
    + apply (H i f Ef). intros Hin. apply mem_str_in in Hin.
      assert (Hlt : (i < List.length path_fields)%nat) by (apply nth_error_Some; congruence).
      unfold hot_mask in Hi.
      rewrite (nth_indep _ false (mem_str EmptyString hot_fields)) in Hi by (rewrite map_length; exact Hlt).
      rewrite (map_nth (fun f => mem_str f hot_fields)) in Hi.
      rewrite (nth_error_nth _ _ _ Ef) in Hi. congruence.
    + apply nth_error_None in Ef.
      assert (H1 : nth_error o i = None) by (apply nth_error_None; lia).
      assert (H2 : nth_error n i = None) by (apply nth_error_None; lia).
      congruence.
Qed.

Section PM.
  Variable m : str -> str -> option (list str).
  Variable mask : list bool.
  Notation cs_t := (list (str * conf)).

  (* ---------------------------------------------------------------- more about find *)
  Lemma first_match_in (l : cs_t) n k c g :
    first_match m l n = Some (k, c, g) -> In (k, c) l /\ m k n = Some g.
  Proof.
    induction l as [|[k0 c0] l IH]; simpl; [discriminate|].
    destruct (m k0 n) as [g0|] eqn:E.
    - intros H; inversion H; subst. split; [left; reflexivity|exact E].
    - intros H. destruct (IH H) as [H1 H2]. split; [right; exact H1|exact H2].
  Qed.

  Lemma find_found_in (cs : cs_t) n k c g : find m cs n = Found k c g -> In (k, c) cs.
  Proof.
    intros H. apply find_found_cases in H as [[-> [_ H]]|[_ [_ H]]].
    - apply lookup_some_in, H.
    - apply first_match_in in H as [H _]. apply sorted_regex_in in H as [H _]. exact H.
  Qed.

  Lemma find_found_shape (cs : cs_t) n k c g :
    find m cs n = Found k c g ->
    (k = n /\ g = [] /\ In n (map fst cs)) \/ (~ In n (map fst cs) /\ m k n = Some g).
  Proof.
    intros H. destruct (find_found_cases _ _ _ _ _ _ H) as [[-> [-> Hl]]|[Hl [_ Hf]]].
    - left. repeat split. apply lookup_some_in in Hl. apply (in_map fst) in Hl. exact Hl.
    - right. split; [apply lookup_none, Hl|]. apply first_match_in in Hf as [_ Hf]. exact Hf.
  Qed.

  (* the capture groups depend on the selected key and the name only *)
  Lemma find_groups_same_key (cs cs' : cs_t) n k c c' g g' :
    find m cs n = Found k c g -> find m cs' n = Found k c' g' -> g = g'.
  Proof.
    intros H H'.
    assert (Hin := find_found_in _ _ _ _ _ H). assert (Hin' := find_found_in _ _ _ _ _ H').
    apply (in_map fst) in Hin, Hin'. simpl in Hin, Hin'.
    destruct (find_found_shape _ _ _ _ _ H) as [[E1 [E2 _]]|[Hn Hm]];
      destruct (find_found_shape _ _ _ _ _ H') as [[E1' [E2' _]]|[Hn' Hm']].
    - congruence.
    - subst. contradiction.
    - subst. contradiction.
    - congruence.
  Qed.

  (* ---------------------------------------------------------------- the invariant *)
  Definition resolves_to (cs : cs_t) (p : lpath) : Prop :=
    find m cs (p_name p) = Found (p_confName p) (p_conf p) (p_matches p).

  (* the property: static configurations are live; live paths resolve, to what they run with *)
  Definition Rec (s : state) : Prop :=
    (forall k c, In (k, c) (st_confs s) -> is_regex_key k = false ->
                 exists p, In p (st_paths s) /\ p_name p = k) /\
    (forall p, In p (st_paths s) -> exists k c g, find m (st_confs s) (p_name p) = Found k c g) /\
    (forall p, In p (st_paths s) -> resolves_to (st_confs s) p).

  Record Inv (s : state) : Prop := {
    inv_nocrash : st_crashed s = false;
    inv_confs : NoDup (map fst (st_confs s));
    inv_names : NoDup (map p_name (st_paths s));
    inv_static : forall k c, In (k, c) (st_confs s) -> is_regex_key k = false ->
                             exists p, In p (st_paths s) /\ p_name p = k;
    inv_resolved : forall p, In p (st_paths s) -> resolves_to (st_confs s) p;
    inv_gens : forall p, In p (st_paths s) -> p_gen p < st_next s;
    inv_gens_nodup : NoDup (map p_gen (st_paths s))
  }.

  Lemma inv_rec s : Inv s -> Rec s.
  Proof.
    intros H. split; [apply (inv_static s H)|]. split.
    - intros p Hp. exists (p_confName p), (p_conf p), (p_matches p). apply (inv_resolved s H p Hp).
    - apply (inv_resolved s H).
  Qed.

  Definition wf_op (o : op) : Prop :=
    match o with Reload nc => NoDup (map fst nc) | _ => True end.

  Lemma has_path_true ps n : has_path ps n = true <-> In n (map p_name ps).
  Proof.
    unfold has_path. rewrite existsb_exists. split.
    - intros [p [Hp He]]. apply str_eqb_eq in He. subst. apply in_map, Hp.
    - intros H. apply in_map_iff in H as [p [He Hp]]. exists p. split; [exact Hp|]. apply str_eqb_eq, He.
  Qed.

  Lemma has_path_false ps n : has_path ps n = false <-> ~ In n (map p_name ps).
  Proof.
    rewrite <- has_path_true. destruct (has_path ps n); split; intros H.
    - discriminate.
    - exfalso. apply H. reflexivity.
    - discriminate.
    - reflexivity.
  Qed.

  (* ---------------------------------------------------------------- one live path through a reload *)
  Section Reload.
    Variable old nc : cs_t.
    Hypothesis Hold : NoDup (map fst old).
    Hypothesis Hnc : NoDup (map fst nc).

    Lemma resolved_lookup p : resolves_to old p -> lookup old (p_confName p) = Some (p_conf p).
    Proof. intros H. apply in_lookup; [exact Hold|]. eapply find_found_in, H. Qed.

    Lemma reload_path_no_crash fixed p : resolves_to old p -> reload_path m mask fixed old nc p <> PCrash.
    Proof.
      intros Hr. unfold reload_path. rewrite (resolved_lookup p Hr).
      destruct (find m nc (p_name p)) as [k c g| |]; try discriminate.
      destruct (negb (str_eqb k (p_confName p))).
      - destruct (upd mask (p_conf p) c); discriminate.
      - destruct (in_recreate mask old nc k); [discriminate|].
        destruct (in_reload mask old nc k); discriminate.
    Qed.

    (* what a kept path looks like, in the repaired code *)
    Lemma reload_path_keep p q :
      resolves_to old p -> reload_path m mask true old nc p = PKeep q ->
      p_name q = p_name p /\ p_gen q = p_gen p /\ resolves_to nc q.
    Proof.
      intros Hr. unfold reload_path. rewrite (resolved_lookup p Hr).
      destruct (find m nc (p_name p)) as [k c g| |] eqn:F; try discriminate.
      destruct (str_eqb k (p_confName p)) eqn:Ek; simpl.
      - apply str_eqb_eq in Ek. subst k.
        assert (Hg : g = p_matches p) by (eapply find_groups_same_key; [exact F|exact Hr]).
        subst g.
        destruct (in_recreate mask old nc (p_confName p)) eqn:E1; [discriminate|].
        destruct (in_reload mask old nc (p_confName p)) eqn:E2; intros H; inversion H; subst; clear H.
        + repeat split. exact F.
        + repeat split. unfold resolves_to. rewrite F. f_equal.
          unfold in_recreate, in_reload in E1, E2. rewrite (resolved_lookup q Hr) in E1, E2.
          rewrite (in_lookup nc _ _ Hnc (find_found_in _ _ _ _ _ F)) in E1, E2.
          destruct (conf_eqb c (p_conf q)) eqn:Ec; [apply conf_eqb_eq, Ec|].
          simpl in E1, E2. destruct (upd mask (p_conf q) c); discriminate.
      - destruct (upd mask (p_conf p) c); [|discriminate].
        intros H; inversion H; subst; clear H. repeat split. exact F.
    Qed.

    (* exactly when a path is kept, in the repaired code *)
    Lemma reload_path_kept_iff p :
      resolves_to old p ->
      ((exists q, reload_path m mask true old nc p = PKeep q) <->
       exists k c g, find m nc (p_name p) = Found k c g /\ upd mask (p_conf p) c = true).
    Proof.
      intros Hr. unfold reload_path. rewrite (resolved_lookup p Hr).
      destruct (find m nc (p_name p)) as [k c g| |] eqn:F.
      - destruct (str_eqb k (p_confName p)) eqn:Ek; simpl.
        + apply str_eqb_eq in Ek. subst k.
          assert (Hg : g = p_matches p) by (eapply find_groups_same_key; [exact F|exact Hr]).
          unfold in_recreate, in_reload. rewrite (resolved_lookup p Hr).
          rewrite (in_lookup nc _ _ Hnc (find_found_in _ _ _ _ _ F)).
          destruct (conf_eqb c (p_conf p)) eqn:Ec; simpl.
          * apply conf_eqb_eq in Ec. subst c. split.
            -- intros _. exists (p_confName p), (p_conf p), g. split; [reflexivity|apply can_update_refl].
            -- intros _. eexists; reflexivity.
          * destruct (upd mask (p_conf p) c) eqn:Eu; simpl; split.
            -- intros _. exists (p_confName p), c, g. split; [reflexivity|assumption].
            -- intros _. eexists; reflexivity.
            -- intros [q H]; discriminate.
            -- intros [k' [c' [g' [H1 H3]]]]. inversion H1; subst. congruence.
        + destruct (upd mask (p_conf p) c) eqn:Eu; split.
          * intros _. exists k, c, g. split; [reflexivity|assumption].
          * intros _. eexists; reflexivity.
          * intros [q H]; discriminate.
          * intros [k' [c' [g' [H1 H3]]]]. inversion H1; subst. congruence.
      - split; [intros [q H]; discriminate|intros [k [c [g [H _]]]]; discriminate].
      - split; [intros [q H]; discriminate|intros [k [c [g [H _]]]]; discriminate].
    Qed.
  End Reload.

  (* ---------------------------------------------------------------- kept paths *)
  Definition kept_paths fixed (old nc : cs_t) (ps : list lpath) : list lpath :=
    flat_map (keep_of) (map (reload_path m mask fixed old nc) ps).

  Lemma kept_in fixed old nc ps q :
    In q (kept_paths fixed old nc ps) <-> exists p, In p ps /\ reload_path m mask fixed old nc p = PKeep q.
  Proof.
    unfold kept_paths. rewrite in_flat_map. split.
    - intros [r [Hr Hq]]. apply in_map_iff in Hr as [p [Hp Hin]]. exists p. split; [exact Hin|].
      subst r. destruct (reload_path m mask fixed old nc p); simpl in Hq; try contradiction.
      destruct Hq as [->|[]]. reflexivity.
    - intros [p [Hp Hk]]. exists (PKeep q). split; [|left; reflexivity].
      apply in_map_iff. exists p. split; assumption.
  Qed.

  (* names and identities of kept paths are a sub-sequence of the old ones *)
  Lemma kept_sub {B} (f : lpath -> B) old nc ps :
    (forall p q, In p ps -> reload_path m mask true old nc p = PKeep q -> f q = f p) ->
    NoDup (map f ps) -> NoDup (map f (kept_paths true old nc ps)) /\
    forall x, In x (map f (kept_paths true old nc ps)) -> In x (map f ps).
  Proof.
    unfold kept_paths. induction ps as [|p ps IH]; simpl; intros Hf Hnd.
    - split; [constructor|intros x []].
    - inversion Hnd as [|? ? Hn Hnd']; subst.
      destruct IH as [IH1 IH2]; [intros p' q Hp'; apply Hf; right; exact Hp'|exact Hnd'|].
      destruct (reload_path m mask true old nc p) as [q| |] eqn:E; simpl.
      + rewrite (Hf p q (or_introl eq_refl) E). split.
        * constructor; [|exact IH1]. intros Hin. apply Hn, IH2, Hin.
        * intros x [<-|Hx]; [left; reflexivity|right; apply IH2, Hx].
      + split; [exact IH1|intros x Hx; right; apply IH2, Hx].
      + split; [exact IH1|intros x Hx; right; apply IH2, Hx].
  Qed.

  (* ---------------------------------------------------------------- creation of static paths *)
  Lemma create_static_spec (nc : cs_t) live next l n' :
    create_static nc live next = (l, n') ->
    next <= n' /\
    (forall q, In q l -> next <= p_gen q < n' /\ p_confName q = p_name q /\ p_matches q = [] /\
                         In (p_name q, p_conf q) nc /\ is_regex_key (p_name q) = false /\
                         has_path live (p_name q) = false) /\
    (forall k c, In (k, c) nc -> is_regex_key k = false -> has_path live k = false ->
                 exists q, In q l /\ p_name q = k) /\
    (NoDup (map fst nc) -> NoDup (map p_name l)) /\
    NoDup (map p_gen l).
  Proof.
    revert next l n'; induction nc as [|[k c] nc IH]; simpl; intros next l n' H.
    - inversion H; subst. split; [lia|]. split; [intros q []|]. split; [intros k c []|].
      split; [intros _; constructor|constructor].
    - destruct (negb (is_regex_key k) && negb (has_path live k)) eqn:E.
      + destruct (create_static nc live (next + 1)) as [l0 n0] eqn:E0. inversion H; subst; clear H.
        destruct (IH _ _ _ E0) as [H1 [H2 [H3 [H4 H5]]]].
        apply andb_true_iff in E as [Ea Eb]. apply negb_true_iff in Ea, Eb.
        split; [lia|]. split; [|split; [|split]].
        * intros q [<-|Hq]; simpl.
          -- repeat split; try lia; try assumption. left; reflexivity.
          -- destruct (H2 q Hq) as [Hg [Hc [Hm [Hi [Hr Hh]]]]].
             repeat split; try lia; try assumption. right; exact Hi.
        * intros k' c' [Hin|Hin] Hr Hh.
          -- inversion Hin; subst. eexists. split; [left; reflexivity|reflexivity].
          -- destruct (H3 k' c' Hin Hr Hh) as [q [Hq Hn]]. exists q. split; [right; exact Hq|exact Hn].
        * intros Hnd. inversion Hnd as [|? ? Hn Hnd']; subst. simpl. constructor; [|apply H4, Hnd'].
          intros Hin. apply in_map_iff in Hin as [q [Hqn Hq]].
          destruct (H2 q Hq) as [_ [_ [_ [Hi _]]]]. apply Hn. rewrite <- Hqn.
          apply (in_map fst) in Hi. exact Hi.
        * simpl. constructor; [|exact H5]. intros Hin. apply in_map_iff in Hin as [q [Hqg Hq]].
          destruct (H2 q Hq) as [Hg _]. lia.
      + destruct (IH _ _ _ H) as [H1 [H2 [H3 [H4 H5]]]].
        split; [exact H1|]. split; [|split; [|split]].
        * intros q Hq. destruct (H2 q Hq) as [Hg [Hc [Hm [Hi [Hr Hh]]]]].
          repeat split; try lia; try assumption. right; exact Hi.
        * intros k' c' [Hin|Hin] Hr Hh.
          -- inversion Hin; subst. rewrite Hr, Hh in E. discriminate.
          -- apply (H3 k' c' Hin Hr Hh).
        * intros Hnd. inversion Hnd; subst. apply H4. assumption.
        * exact H5.
  Qed.

  (* ---------------------------------------------------------------- the steps preserve the invariant *)
  Lemma reload_inv s nc : Inv s -> NoDup (map fst nc) -> Inv (reload m mask true s nc).
  Proof.
    intros Hi Hnc. unfold reload.
    fold (kept_paths true (st_confs s) nc (st_paths s)).
    set (kept := kept_paths true (st_confs s) nc (st_paths s)).
    destruct (create_static nc kept (st_next s)) as [created next'] eqn:Ec.
    destruct (create_static_spec _ _ _ _ _ Ec) as [Hn1 [Hc2 [Hc3 [Hc4 Hc5]]]].
    assert (Hkeep : forall p q, In p (st_paths s) ->
              reload_path m mask true (st_confs s) nc p = PKeep q ->
              p_name q = p_name p /\ p_gen q = p_gen p /\ resolves_to nc q).
    { intros p q Hp Hk. apply (reload_path_keep _ _ (inv_confs s Hi) Hnc p q); [|exact Hk].
      apply (inv_resolved s Hi p Hp). }
    destruct (kept_sub p_name (st_confs s) nc (st_paths s)) as [Hkn1 Hkn2];
      [intros p q Hp Hk; apply (Hkeep p q Hp Hk)|apply (inv_names s Hi)|].
    destruct (kept_sub p_gen (st_confs s) nc (st_paths s)) as [Hkg1 Hkg2];
      [intros p q Hp Hk; apply (Hkeep p q Hp Hk)|apply (inv_gens_nodup s Hi)|].
    fold kept in Hkn1, Hkn2, Hkg1, Hkg2.
    assert (Hkgen : forall q, In q kept -> p_gen q < st_next s).
    { intros q Hq. apply kept_in in Hq as [p [Hp Hk]]. destruct (Hkeep p q Hp Hk) as [_ [Hg _]].
      rewrite Hg. apply (inv_gens s Hi p Hp). }
    constructor; simpl.
    - rewrite (inv_nocrash s Hi). simpl. apply not_true_is_false. intros H.
      apply existsb_exists in H as [r [Hr Hc]]. apply in_map_iff in Hr as [p [Hp Hin]].
      destruct r; try discriminate.
      apply (reload_path_no_crash (st_confs s) nc (inv_confs s Hi) true p); [|exact Hp].
      apply (inv_resolved s Hi p Hin).
    - exact Hnc.
    - rewrite map_app. apply nodup_app; [exact Hkn1|apply Hc4, Hnc|].
      intros x Hx1 Hx2. apply in_map_iff in Hx2 as [q [Hqn Hq]].
      destruct (Hc2 q Hq) as [_ [_ [_ [_ [_ Hh]]]]]. apply has_path_false in Hh. apply Hh. rewrite Hqn. exact Hx1.
    - intros k c Hin Hr. destruct (has_path kept k) eqn:Eh.
      + apply has_path_true in Eh. apply in_map_iff in Eh as [q [Hqn Hq]].
        exists q. split; [apply in_or_app; left; exact Hq|exact Hqn].
      + destruct (Hc3 k c Hin Hr Eh) as [q [Hq Hqn]]. exists q. split; [apply in_or_app; right; exact Hq|exact Hqn].
    - intros q Hq. apply in_app_or in Hq as [Hq|Hq].
      + apply kept_in in Hq as [p [Hp Hk]]. apply (Hkeep p q Hp Hk).
      + destruct (Hc2 q Hq) as [_ [Hcn [Hm [Hin _]]]]. unfold resolves_to. rewrite Hcn, Hm.
        apply find_exact; assumption.
    - intros q Hq. apply in_app_or in Hq as [Hq|Hq].
      + specialize (Hkgen q Hq). lia.
      + destruct (Hc2 q Hq) as [Hg _]. lia.
    - rewrite map_app. apply nodup_app; [exact Hkg1|exact Hc5|].
      intros x Hx1 Hx2. apply in_map_iff in Hx1 as [q1 [Hq1g Hq1]]. apply in_map_iff in Hx2 as [q2 [Hq2g Hq2]].
      specialize (Hkgen q1 Hq1). destruct (Hc2 q2 Hq2) as [Hg _]. lia.
  Qed.

  Lemma create_inv s n : Inv s -> Inv (create m s n).
  Proof.
    intros Hi. unfold create. destruct (has_path (st_paths s) n) eqn:Eh; [exact Hi|].
    destruct (negb (valid_name n)); [exact Hi|].
    destruct (find m (st_confs s) n) as [k c g| |] eqn:F; try exact Hi.
    apply has_path_false in Eh.
    constructor; simpl.
    - apply (inv_nocrash s Hi).
    - apply (inv_confs s Hi).
    - rewrite map_app. apply nodup_app; [apply (inv_names s Hi)|repeat constructor; intros []|].
      simpl. intros x Hx [<-|[]]. contradiction.
    - intros k' c' Hin Hr. destruct (inv_static s Hi k' c' Hin Hr) as [p [Hp Hn]].
      exists p. split; [apply in_or_app; left; exact Hp|exact Hn].
    - intros p Hp. apply in_app_or in Hp as [Hp|[<-|[]]]; [apply (inv_resolved s Hi p Hp)|exact F].
    - intros p Hp. apply in_app_or in Hp as [Hp|[<-|[]]]; [specialize (inv_gens s Hi p Hp); lia|simpl; lia].
    - rewrite map_app. apply nodup_app; [apply (inv_gens_nodup s Hi)|repeat constructor; intros []|].
      simpl. intros x Hx [<-|[]]. apply in_map_iff in Hx as [p [Hg Hp]].
      specialize (inv_gens s Hi p Hp). lia.
  Qed.

  Lemma filter_map_nodup {B} (f : lpath -> B) (g : lpath -> bool) l :
    NoDup (map f l) -> NoDup (map f (filter g l)).
  Proof.
    induction l as [|x l IH]; simpl; intros H; [constructor|].
    inversion H as [|? ? Hn Hnd]; subst. destruct (g x); simpl; [|apply IH, Hnd].
    constructor; [|apply IH, Hnd]. intros Hin. apply Hn.
    apply in_map_iff in Hin as [y [Hy Hin]]. apply filter_In in Hin as [Hin _].
    rewrite <- Hy. apply in_map, Hin.
  Qed.

  Lemma leave_inv s n : Inv s -> Inv (leave s n).
  Proof.
    intros Hi. unfold leave. constructor; simpl.
    - apply (inv_nocrash s Hi).
    - apply (inv_confs s Hi).
    - apply filter_map_nodup, (inv_names s Hi).
    - intros k c Hin Hr. destruct (inv_static s Hi k c Hin Hr) as [p [Hp Hn]].
      exists p. split; [|exact Hn]. apply filter_In. split; [exact Hp|].
      assert (Hres := inv_resolved s Hi p Hp). unfold resolves_to in Hres.
      rewrite Hn in Hres. rewrite (find_exact m _ _ _ (inv_confs s Hi) Hin) in Hres.
      inversion Hres as [[Hcn Hc Hm]]. rewrite <- Hcn, Hr. rewrite andb_false_r. reflexivity.
    - intros p Hp. apply filter_In in Hp as [Hp _]. apply (inv_resolved s Hi p Hp).
    - intros p Hp. apply filter_In in Hp as [Hp _]. apply (inv_gens s Hi p Hp).
    - apply filter_map_nodup, (inv_gens_nodup s Hi).
  Qed.

  Lemma step_inv s o : Inv s -> wf_op o -> Inv (step m mask true s o).
  Proof.
    intros Hi Hw. destruct o as [nc|n|n]; simpl.
    - apply reload_inv; assumption.
    - apply create_inv; exact Hi.
    - apply leave_inv; exact Hi.
  Qed.

  Lemma run_inv h : forall s, Inv s -> Forall wf_op h -> Inv (run m mask true s h).
  Proof.
    induction h as [|o h IH]; intros s Hi Hw; simpl; [exact Hi|].
    inversion Hw; subst. apply IH; [apply step_inv; assumption|assumption].
  Qed.

  Lemma empty_inv : Inv (ST [] [] 0 false).
  Proof.
    constructor; simpl.
    - reflexivity.
    - constructor.
    - constructor.
    - intros k c [].
    - intros p [].
    - intros p [].
    - constructor.
  Qed.

  Lemma init_inv cs : NoDup (map fst cs) -> Inv (init m mask true cs).
  Proof. intros H. apply reload_inv; [apply empty_inv|exact H]. Qed.

  Lemma reachable_inv cs h :
    NoDup (map fst cs) -> Forall wf_op h -> Inv (run m mask true (init m mask true cs) h).
  Proof. intros Hc Hh. apply run_inv; [apply init_inv, Hc|exact Hh]. Qed.

  Lemma reachable_rec cs h :
    NoDup (map fst cs) -> Forall wf_op h -> Rec (run m mask true (init m mask true cs) h).
  Proof. intros Hc Hh. apply inv_rec, reachable_inv; assumption. Qed.

  Lemma reachable_no_crash cs h :
    NoDup (map fst cs) -> Forall wf_op h -> st_crashed (run m mask true (init m mask true cs) h) = false.
  Proof. intros Hc Hh. apply inv_nocrash, reachable_inv; assumption. Qed.

  (* ---------------------------------------------------------------- kept iff hot *)
  Definition survives (p : lpath) (s' : state) : Prop :=
    exists q, In q (st_paths s') /\ p_gen q = p_gen p.

  Lemma kept_iff s nc p :
    Inv s -> NoDup (map fst nc) -> In p (st_paths s) ->
    (survives p (reload m mask true s nc) <->
     exists k c g, find m nc (p_name p) = Found k c g /\ can_update_mask mask (p_conf p) c = true).
  Proof.
    intros Hi Hnc Hp.
    rewrite <- (reload_path_kept_iff (st_confs s) nc (inv_confs s Hi) Hnc p (inv_resolved s Hi p Hp)).
    unfold survives, reload. fold (kept_paths true (st_confs s) nc (st_paths s)).
    destruct (create_static nc (kept_paths true (st_confs s) nc (st_paths s)) (st_next s)) as [created next'] eqn:Ec.
    destruct (create_static_spec _ _ _ _ _ Ec) as [_ [Hc2 _]]. simpl.
    split.
    - intros [q [Hq Hg]]. apply in_app_or in Hq as [Hq|Hq].
      + apply kept_in in Hq as [p' [Hp' Hk]].
        destruct (reload_path_keep _ _ (inv_confs s Hi) Hnc p' q (inv_resolved s Hi p' Hp') Hk) as [_ [Hg' _]].
        assert (p' = p).
        { apply (nodup_map_inj p_gen (st_paths s)); [apply (inv_gens_nodup s Hi)|exact Hp'|exact Hp|congruence]. }
        subst p'. exists q. exact Hk.
      + destruct (Hc2 q Hq) as [Hge _]. specialize (inv_gens s Hi p Hp). lia.
    - intros [q Hk]. exists q. split.
      + apply in_or_app. left. apply kept_in. exists p. split; assumption.
      + apply (reload_path_keep _ _ (inv_confs s Hi) Hnc p q (inv_resolved s Hi p Hp) Hk).
  Qed.
End PM.

(* ---------------------------------------------------------------- the code as found violates the invariant *)
(* publish foo under ~^(f)oo$, reload so that it is served by ~^f(oo)$: the live path keeps [foo; f] *)
Definition witness_confs : list (str * conf) := [(k_foo1, [])].
Definition witness_hist : list op := [Create n_foo; Reload [(k_foo2, [])]].

Lemma witness_state :
  st_paths (run ex_oracle hot_mask false (init ex_oracle hot_mask false witness_confs) witness_hist)
  = [LP n_foo k_foo2 [] [n_foo; g_f] 0].
Proof. vm_compute. reflexivity. Qed.

Lemma witness_resolution :
  find ex_oracle [(k_foo2, ([] : conf))] n_foo = Found k_foo2 [] [n_foo; g_oo].
Proof. vm_compute. reflexivity. Qed.

Lemma reconciled_refuted :
  exists m cs h, NoDup (map fst cs) /\ Forall wf_op h /\
                 ~ Rec m (run m hot_mask false (init m hot_mask false cs) h).
Proof.
  exists ex_oracle, witness_confs, witness_hist. split; [|split].
  - repeat constructor. intros [].
  - repeat constructor. intros [].
  - intros [_ [_ H]].
    specialize (H (LP n_foo k_foo2 [] [n_foo; g_f] 0)).
    rewrite witness_state in H. specialize (H (or_introl eq_refl)).
    unfold resolves_to in H. vm_compute in H. discriminate.
Qed.

(* the same history through the repaired code: the path is kept and receives the new groups *)
Lemma witness_fixed :
  st_paths (run ex_oracle hot_mask true (init ex_oracle hot_mask true witness_confs) witness_hist)
  = [LP n_foo k_foo2 [] [n_foo; g_oo] 0].
Proof. vm_compute. reflexivity. Qed.

(* ---------------------------------------------------------------- the generated hot-field list stays in its documented scope *)
Definition documented_hot (f : string) : bool :=
  (String.eqb f "Name" || String.eqb f "Regexp" || String.eqb f "Forward"
   || String.prefix "Record" f || String.prefix "RPICamera" f)%string.

Lemma hot_fields_scope : forall f, In f hot_fields -> documented_hot f = true /\ In f path_fields.
Proof.
  assert (H : forallb (fun f => documented_hot f && mem_str f path_fields) hot_fields = true)
    by (vm_compute; reflexivity).
  rewrite forallb_forall in H. intros f Hf. specialize (H f Hf).
  apply andb_true_iff in H as [H1 H2]. split; [exact H1|apply mem_str_in, H2].
Qed.

Lemma hot_fields_nonempty_cold :
  In "Forward"%string hot_fields /\ In "RecordPath"%string hot_fields /\
  In "MaxReaders"%string path_fields /\ ~ In "MaxReaders"%string hot_fields /\
  ~ In "Source"%string hot_fields /\ ~ In "RunOnReady"%string hot_fields.
Proof.
  repeat split; try (apply mem_str_in; vm_compute; reflexivity);
    intros H; apply mem_str_in in H; vm_compute in H; discriminate.
Qed.
