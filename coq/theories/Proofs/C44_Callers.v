(* Proofs about Model/C44_Callers.v: the answers of a list endpoint are consecutive slices of its source list. *)
From Coq Require Import String List ZArith Lia Bool ZifyBool.
Require Import MTX.Lib.IntWrap MTX.Model.C44_Paginate MTX.Model.C44_Callers MTX.Proofs.C44_Paginate.
Import ListNotations.
Local Open Scope Z_scope.

(* the value a parameter string stands for (defaults 100 / 0) *)
Definition ipp_value (s : list Z) (v : Z) : Prop := (s = [] /\ v = 100) \/ (parse_uint31 s = Some v /\ v <> 0).
Definition page_value (s : list Z) (v : Z) : Prop := (s = [] /\ v = 0) \/ parse_uint31 s = Some v.

Lemma ipp_value_range s v : ipp_value s v -> 0 < v < two31.
Proof.
  intros [[_ ->]|[H N]]; [unfold two31; lia|]. pose proof (parse_uint31_range _ _ H). lia.
Qed.

Lemma page_value_range s v : page_value s v -> 0 <= v < two31.
Proof. intros [[_ ->]|H]; [unfold two31; lia|]. exact (parse_uint31_range _ _ H). Qed.

Lemma ipp_value_valid s v : ipp_value s v -> valid_ipp s.
Proof. intros [[-> _]|[H N]]; [now left | right; eauto]. Qed.

Lemma page_value_valid s v : page_value s v -> valid_page s.
Proof. intros [[-> _]|H]; [now left | right; eauto]. Qed.

Lemma paginate_values len i p ipp page :
  ipp_value i ipp -> page_value p page -> paginate len i p = paginate2 len ipp page.
Proof.
  intros Hi Hp. unfold paginate.
  assert (match i with [] => Some 100 | _ :: _ => parse_uint31 i end = Some ipp) as ->.
  { destruct Hi as [[-> ->]|[H _]]; [reflexivity|]. destruct i; [discriminate H | exact H]. }
  assert (ipp =? 0 = false) as -> by (pose proof (ipp_value_range _ _ Hi); lia).
  assert (match p with [] => Some 0 | _ :: _ => parse_uint31 p end = Some page) as ->.
  { destruct Hp as [[-> ->]|H]; [reflexivity|]. destruct p; [discriminate H | exact H]. }
  reflexivity.
Qed.

Definition items_of {A} (r : response A) : list A := match r with ROk _ _ items => items | _ => [] end.

(* a valid request is answered with the whole list's length, the page count, and exactly page `page` of the source *)
Lemma list_response_valid {A} (src : list A) i p ipp page :
  Z.of_nat (length src) < 2 ^ 62 -> ipp_value i ipp -> page_value p page ->
  list_response src i p =
    ROk (Z.of_nat (length src)) (page_count (Z.of_nat (length src)) ipp) (page_items src ipp page).
Proof.
  intros Hl Hi Hp. unfold list_response. rewrite (paginate_values _ _ _ _ _ Hi Hp).
  pose proof (ipp_value_range _ _ Hi) as Ri. pose proof (page_value_range _ _ Hp) as Rp.
  unfold page_items, page_count.
  destruct (Z.eq_dec (Z.of_nat (length src)) 0) as [E0|N0].
  - rewrite E0. reflexivity.
  - pose proof (small_page_ok _ _ Ri Rp) as Hs.
    rewrite (paginate2_exact _ ipp page) by lia.
    rewrite (paginate2_exact _ ipp 0) by lia. reflexivity.
Qed.

(* ... which is the consecutive slice [page*ipp, page*ipp + ipp) of the source *)
Lemma list_response_slice {A} (src : list A) i p ipp page :
  Z.of_nat (length src) < 2 ^ 62 -> ipp_value i ipp -> page_value p page ->
  items_of (list_response src i p) = firstn (Z.to_nat ipp) (skipn (Z.to_nat (page * ipp)) src).
Proof.
  intros Hl Hi Hp. rewrite (list_response_valid _ _ _ _ _ Hl Hi Hp). simpl.
  pose proof (ipp_value_range _ _ Hi) as Ri. pose proof (page_value_range _ _ Hp) as Rp.
  rewrite page_items_chunk by (try apply small_page_ok; lia).
  unfold chunk. f_equal. f_equal. lia.
Qed.

Lemma list_response_concat {A} (src : list A) i (ps : nat -> list Z) ipp :
  Z.of_nat (length src) < 2 ^ 62 -> ipp_value i ipp -> (forall k, page_value (ps k) (Z.of_nat k)) ->
  concat (map (fun k => items_of (list_response src i (ps k)))
              (seq 0 (Z.to_nat (page_count (Z.of_nat (length src)) ipp)))) = src.
Proof.
  intros Hl Hi Hps.
  rewrite <- (pages_concat src ipp Hl (ipp_value_range _ _ Hi)) at 2.
  f_equal. apply map_ext. intros k. now rewrite (list_response_valid _ _ _ _ _ Hl Hi (Hps k)).
Qed.

Lemma list_response_size {A} (src : list A) i p ipp page :
  Z.of_nat (length src) < 2 ^ 62 -> ipp_value i ipp -> page_value p page ->
  Z.of_nat (length (items_of (list_response src i p))) <= ipp.
Proof.
  intros Hl Hi Hp. rewrite (list_response_valid _ _ _ _ _ Hl Hi Hp). simpl.
  apply page_size; [exact Hl | exact (ipp_value_range _ _ Hi) | exact (page_value_range _ _ Hp)].
Qed.

Lemma list_response_past_end {A} (src : list A) i p ipp page :
  Z.of_nat (length src) < 2 ^ 62 -> ipp_value i ipp -> page_value p page ->
  page_count (Z.of_nat (length src)) ipp <= page -> items_of (list_response src i p) = [].
Proof.
  intros Hl Hi Hp Hpast. rewrite (list_response_valid _ _ _ _ _ Hl Hi Hp). simpl.
  apply page_past_end; [exact Hl | exact (ipp_value_range _ _ Hi) | exact (page_value_range _ _ Hp) | exact Hpast].
Qed.

Lemma list_response_rejects_iff {A} (src : list A) i p :
  Z.of_nat (length src) < 2 ^ 62 -> (list_response src i p = RBad <-> ~ (valid_ipp i /\ valid_page p)).
Proof.
  intros Hl. rewrite <- (paginate_rejects_iff (Z.of_nat (length src)) i p) by lia.
  unfold list_response. destruct (paginate (Z.of_nat (length src)) i p); split; intros H; try discriminate; reflexivity.
Qed.

Lemma list_response_no_panic {A} (src : list A) i p :
  Z.of_nat (length src) < 2 ^ 62 -> list_response src i p <> RPanic.
Proof.
  intros Hl. pose proof (paginate_no_panic (Z.of_nat (length src)) i p ltac:(lia)) as H.
  unfold list_response. destruct (paginate (Z.of_nat (length src)) i p); [discriminate | congruence | discriminate].
Qed.

(* ---------------- the keys shape ---------------- *)

Definition map_response {A B} (f : A -> B) (r : response A) : response B :=
  match r with RBad => RBad | RPanic => RPanic | ROk ic pc items => ROk ic pc (map f items) end.

Lemma slice_map {A B} (f : A -> B) lo hi (xs : list A) : slice lo hi (map f xs) = map f (slice lo hi xs).
Proof. unfold slice. now rewrite skipn_map, firstn_map. Qed.

(* paginating the keys and building the items from the page = paginating the built items *)
Lemma list_response_keys_eq {K A} (f : K -> A) (keys : list K) i p :
  list_response_keys f keys i p = list_response (map f keys) i p.
Proof.
  unfold list_response_keys, list_response. rewrite map_length.
  destruct (paginate (Z.of_nat (length keys)) i p); try reflexivity. now rewrite slice_map.
Qed.

Lemma fill_exact {K A} (zero : A) (f : K -> A) (page : list K) :
  fill f page (repeat zero (length page)) = Some (map f page).
Proof. induction page as [|k page IH]; simpl; [reflexivity | now rewrite IH]. Qed.

(* allocating after paginate and filling by index = mapping f over the page *)
Lemma list_response_alloc_eq {K A} (zero : A) (f : K -> A) (keys : list K) i p :
  list_response_alloc zero f false keys i p = list_response_keys f keys i p.
Proof.
  unfold list_response_alloc, list_response_keys.
  destruct (paginate (Z.of_nat (length keys)) i p); try reflexivity. now rewrite fill_exact.
Qed.

(* ---------------- the driven instance ---------------- *)

Lemma iota_length s n : length (iota s n) = n.
Proof. revert s; induction n as [|n IH]; intros s; simpl; [reflexivity | now rewrite IH]. Qed.

Lemma endpoint_response_list ep n i p r :
  endpoint_response ep n i p = Some r -> r = list_response (iota 0 (Z.to_nat n)) i p.
Proof.
  unfold endpoint_response. destruct (shape_of ep) as [[|]|]; intros H; inversion H; [reflexivity|].
  rewrite list_response_alloc_eq, list_response_keys_eq, map_id. reflexivity.
Qed.

(* allocating before paginate breaks the property: 3 keys, itemsPerPage=1: page 0 carries 3 items *)
Lemma alloc_before_refuted :
  exists (keys : list Z) i p ipp page, ipp_value i ipp /\ page_value p page /\
    ~ Z.of_nat (length (items_of (list_response_alloc (-1) (fun k => k) true keys i p))) <= ipp.
Proof.
  exists [0; 1; 2], [49], [48], 1, 0. split; [right; split; [reflexivity | lia]|]. split; [right; reflexivity|].
  vm_compute. intros H. apply H. reflexivity.
Qed.
