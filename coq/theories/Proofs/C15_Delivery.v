(* Proofs about Model/C15_Delivery.v: hand-overs of reloaded configurations as steps of their own. *)
From Coq Require Import List ZArith Bool String Lia.
Require Import MTX.Model.C14_PathConf MTX.Proofs.C14_PathConf.
Require Import MTX.Model.C15_PathMgr MTX.Proofs.C15_PathMgr MTX.Model.C15_Delivery.
Require Import MTXGen.C15_HotFields.
Import ListNotations.
Local Open Scope Z_scope.

Lemma lpath_eta p : LP (p_name p) (p_confName p) (p_conf p) (p_matches p) (p_gen p) = p.
Proof. destruct p; reflexivity. Qed.

Lemma filter_map_nodup_gen {A B} (f : A -> B) (g : A -> bool) l :
  NoDup (map f l) -> NoDup (map f (filter g l)).
Proof.
  induction l as [|x l IH]; simpl; intros H; [constructor|].
  inversion H as [|? ? Hn Hnd]; subst. destruct (g x); simpl; [|apply IH, Hnd].
  constructor; [|apply IH, Hnd]. intros Hin. apply Hn.
  apply in_map_iff in Hin as [y [Hy Hin]]. apply filter_In in Hin as [Hin _].
  rewrite <- Hy. apply in_map, Hin.
Qed.

Lemma running_eta (r : running) : (fst (fst r), snd (fst r), snd r) = r.
Proof. destruct r as [[a b] c]; reflexivity. Qed.

Lemma set_running_running x r q : x_running (set_running x r q) = r.
Proof. unfold x_running, set_running; simpl. apply running_eta. Qed.

Definition x_name (x : xpath) : str := p_name (x_p x).

Lemma iter_succ_r' {A} (f : A -> A) k : forall x, Nat.iter (S k) f x = Nat.iter k f (f x).
Proof. induction k as [|k IH]; intros x; [reflexivity|]. simpl in *. rewrite IH. reflexivity. Qed.

Section XPM.
  Variable m : str -> str -> option (list str).
  Variable mask : list bool.
  Notation cs_t := (list (str * conf)).

  (* ---------------------------------------------------------------- the manager's side is the first-layer model *)
  Lemma proj_kept (old nc : cs_t) xs :
    map x_p (flat_map (xkeep_of m mask old nc) xs)
    = flat_map keep_of (map (reload_path m mask true old nc) (map x_p xs)).
  Proof.
    induction xs as [|x xs IH]; simpl; [reflexivity|].
    rewrite map_app, IH. unfold xkeep_of at 1.
    destruct (reload_path m mask true old nc (x_p x)); reflexivity.
  Qed.

  Lemma map_xp_fresh l : map x_p (map fresh l) = l.
  Proof. induction l as [|p l IH]; simpl; [reflexivity|]. rewrite IH. reflexivity. Qed.

  Lemma proj_reload s nc : proj (xreload m mask s nc) = reload m mask true (proj s) nc.
  Proof.
    unfold xreload, reload, proj; simpl.
    rewrite proj_kept.
    destruct (create_static nc _ (xs_next s)) as [created next'].
    simpl. rewrite map_app, proj_kept, map_xp_fresh. reflexivity.
  Qed.

  Lemma proj_create s n : proj (xcreate m s n) = create m (proj s) n.
  Proof.
    unfold xcreate, create, xhas_path; simpl.
    destruct (has_path (map x_p (xs_paths s)) n); [reflexivity|].
    destruct (negb (valid_name n)); [reflexivity|].
    destruct (find m (xs_confs s) n); try reflexivity.
    unfold proj; simpl. rewrite map_app. reflexivity.
  Qed.

  Lemma deliver_path_xp o i x : x_p (deliver_path o i x) = x_p x.
  Proof. unfold deliver_path. destruct (nth_error _ _); reflexivity. Qed.

  Lemma proj_deliver o s n i : proj (xdeliver o s n i) = proj s.
  Proof.
    unfold xdeliver, proj; simpl. f_equal. rewrite map_map. apply map_ext.
    intros x. destruct (str_eqb _ n); [apply deliver_path_xp|reflexivity].
  Qed.

  Lemma proj_init cs : proj (xinit m mask cs) = init m mask true cs.
  Proof. unfold xinit, init. rewrite proj_reload. reflexivity. Qed.

  Lemma delivery_manager_side o s nc n i :
    proj (xreload m mask s nc) = reload m mask true (proj s) nc /\
    proj (xdeliver o s n i) = proj s /\
    proj (xcreate m s n) = create m (proj s) n.
  Proof. split; [apply proj_reload|split; [apply proj_deliver|apply proj_create]]. Qed.

  (* ---------------------------------------------------------------- what is handed over is what the manager recorded *)
  Lemma reload_path_delivery (old nc : cs_t) p q :
    reload_path m mask true old nc p = PKeep q ->
    fold_left apply_d (delivery_of m mask old nc p) (mgr_view p) = mgr_view q.
  Proof.
    unfold reload_path, delivery_of.
    destruct (find m nc (p_name p)) as [k c g| |]; try discriminate.
    destruct (str_eqb k (p_confName p)) eqn:Ek; simpl.
    - apply str_eqb_eq in Ek. subst k.
      destruct (in_recreate mask old nc (p_confName p)); [discriminate|].
      destruct (in_reload mask old nc (p_confName p)); intros H; inversion H; subst; reflexivity.
    - destruct (lookup old (p_confName p)) as [oc|]; [|discriminate].
      destruct (upd mask oc c); [|discriminate].
      intros H; inversion H; subst; reflexivity.
  Qed.

  (* ---------------------------------------------------------------- the invariant *)
  (* receiving the pending hand-overs, oldest first, leads to what the manager recorded for the path *)
  Definition settled (x : xpath) : Prop := settle x = mgr_view (x_p x).

  Record XInv (s : xstate) : Prop := {
    xi_inv : Inv m (proj s);
    xi_settled : forall x, In x (xs_paths s) -> settled x
  }.

  Definition wf_xop (o : xop) : Prop :=
    match o with XReload nc => NoDup (map fst nc) | _ => True end.

  Lemma fresh_settled p : settled (fresh p).
  Proof. reflexivity. Qed.

  Lemma settle_enqueue x q' ds :
    settle (XP q' (x_cname x) (x_conf x) (x_matches x) (x_queue x ++ ds)) = fold_left apply_d ds (settle x).
  Proof. unfold settle, x_running; simpl. apply fold_left_app. Qed.

  Lemma xkept_in (old nc : cs_t) xs x' :
    In x' (flat_map (xkeep_of m mask old nc) xs) ->
    exists x q, In x xs /\ reload_path m mask true old nc (x_p x) = PKeep q /\
                x' = XP q (x_cname x) (x_conf x) (x_matches x) (x_queue x ++ delivery_of m mask old nc (x_p x)).
  Proof.
    intros H. apply in_flat_map in H as [x [Hx Hin]]. unfold xkeep_of in Hin.
    destruct (reload_path m mask true old nc (x_p x)) as [q| |] eqn:E; simpl in Hin; try contradiction.
    destruct Hin as [<-|[]]. exists x, q. repeat split; assumption.
  Qed.

  Lemma xreload_xinv s nc : XInv s -> NoDup (map fst nc) -> XInv (xreload m mask s nc).
  Proof.
    intros [Hi Hs] Hnc. split.
    - rewrite proj_reload. apply reload_inv; assumption.
    - unfold xreload.
      destruct (create_static nc _ (xs_next s)) as [created next']. simpl.
      intros x' Hx'. apply in_app_or in Hx' as [Hx'|Hx'].
      + apply xkept_in in Hx' as [x [q [Hx [Hk ->]]]].
        unfold settled. rewrite settle_enqueue. cbn [x_p].
        rewrite (Hs x Hx). apply reload_path_delivery, Hk.
      + apply in_map_iff in Hx' as [p [<- _]]. apply fresh_settled.
  Qed.

  Lemma xcreate_xinv s n : XInv s -> XInv (xcreate m s n).
  Proof.
    intros [Hi Hs]. split.
    - rewrite proj_create. apply create_inv, Hi.
    - unfold xcreate. destruct (xhas_path (xs_paths s) n); [exact Hs|].
      destruct (negb (valid_name n)); [exact Hs|].
      destruct (find m (xs_confs s) n); try exact Hs. simpl.
      intros x Hx. apply in_app_or in Hx as [Hx|[<-|[]]]; [apply Hs, Hx|apply fresh_settled].
  Qed.

  (* closing paths that the manager holds under a regular expression keeps its side consistent *)
  Lemma remove_inv s (keep : xpath -> bool) :
    Inv m (proj s) ->
    (forall x, In x (xs_paths s) -> keep x = false -> is_regex_key (p_confName (x_p x)) = true) ->
    Inv m (proj (XST (xs_confs s) (filter keep (xs_paths s)) (xs_next s) (xs_crashed s))).
  Proof.
    intros Hi Hk. unfold proj; simpl. constructor; simpl.
    - apply (inv_nocrash m _ Hi).
    - apply (inv_confs m _ Hi).
    - rewrite map_map. apply filter_map_nodup_gen.
      rewrite <- map_map. apply (inv_names m _ Hi).
    - intros k c Hin Hr. destruct (inv_static m _ Hi k c Hin Hr) as [p [Hp Hn]]. simpl in Hp.
      apply in_map_iff in Hp as [x [Hxp Hx]]. exists p. split; [|exact Hn].
      apply in_map_iff. exists x. split; [exact Hxp|]. apply filter_In. split; [exact Hx|].
      destruct (keep x) eqn:Ek; [reflexivity|exfalso].
      specialize (Hk x Hx Ek). rewrite Hxp in Hk.
      assert (Hres : resolves_to m (xs_confs s) p).
      { apply (inv_resolved m _ Hi). simpl. apply in_map_iff. exists x. split; assumption. }
      unfold resolves_to in Hres. rewrite Hn in Hres.
      pose proof (inv_confs m _ Hi) as Hnd. simpl in Hnd.
      rewrite (find_exact m _ _ _ Hnd Hin) in Hres.
      inversion Hres as [[Hcn Hc Hm]]. rewrite <- Hcn in Hk. congruence.
    - intros p Hp. apply in_map_iff in Hp as [x [Hxp Hx]]. apply filter_In in Hx as [Hx _].
      apply (inv_resolved m _ Hi). simpl. apply in_map_iff. exists x. split; assumption.
    - intros p Hp. apply in_map_iff in Hp as [x [Hxp Hx]]. apply filter_In in Hx as [Hx _].
      apply (inv_gens m _ Hi). simpl. apply in_map_iff. exists x. split; assumption.
    - rewrite map_map. apply filter_map_nodup_gen.
      rewrite <- map_map. apply (inv_gens_nodup m _ Hi).
  Qed.

  Lemma xleave_xinv s n : XInv s -> XInv (xleave true s n).
  Proof.
    intros [Hi Hs]. split.
    - unfold xleave. apply remove_inv; [exact Hi|].
      intros x Hx Hk. apply negb_false_iff in Hk. apply andb_true_iff in Hk as [_ Hc].
      unfold closes_idle in Hc. apply andb_true_iff in Hc as [_ Hc]. exact Hc.
    - unfold xleave; simpl. intros x Hx. apply filter_In in Hx as [Hx _]. apply Hs, Hx.
  Qed.

  Lemma deliver_head_settle i x : settle (deliver_path true i x) = settle x.
  Proof.
    unfold deliver_path. destruct (x_queue x) as [|d q] eqn:Eq; simpl; [reflexivity|].
    unfold settle. rewrite set_running_running. simpl. rewrite Eq. reflexivity.
  Qed.

  Lemma xdeliver_xinv s n i : XInv s -> XInv (xdeliver true s n i).
  Proof.
    intros [Hi Hs]. split.
    - rewrite proj_deliver. exact Hi.
    - unfold xdeliver; simpl. intros x' Hx'. apply in_map_iff in Hx' as [x [<- Hx]].
      destruct (str_eqb (p_name (x_p x)) n); [|apply Hs, Hx].
      unfold settled. rewrite deliver_head_settle, deliver_path_xp. apply Hs, Hx.
  Qed.

  Lemma xstep_xinv s o : XInv s -> wf_xop o -> XInv (xstep m mask true true s o).
  Proof.
    intros Hi Hw. destruct o as [nc|n|n|n i]; simpl.
    - apply xreload_xinv; assumption.
    - apply xcreate_xinv, Hi.
    - apply xleave_xinv, Hi.
    - apply xdeliver_xinv, Hi.
  Qed.

  Lemma xrun_xinv h : forall s, XInv s -> Forall wf_xop h -> XInv (xrun m mask true true s h).
  Proof.
    induction h as [|o h IH]; intros s Hi Hw; simpl; [exact Hi|].
    inversion Hw; subst. apply IH; [apply xstep_xinv; assumption|assumption].
  Qed.

  Lemma xempty_xinv : XInv (XST [] [] 0 false).
  Proof. split; [apply empty_inv|intros x []]. Qed.

  Lemma xinit_xinv cs : NoDup (map fst cs) -> XInv (xinit m mask cs).
  Proof. intros H. apply xreload_xinv; [apply xempty_xinv|exact H]. Qed.

  Lemma xreachable_xinv cs h :
    NoDup (map fst cs) -> Forall wf_xop h -> XInv (xrun m mask true true (xinit m mask cs) h).
  Proof. intros Hc Hh. apply xrun_xinv; [apply xinit_xinv, Hc|exact Hh]. Qed.

  (* ---------------------------------------------------------------- consequences *)
  (* the path goroutine runs with exactly what resolution selects for its name *)
  Definition runs_resolved (cs : cs_t) (x : xpath) : Prop :=
    find m cs (p_name (x_p x)) = Found (x_cname x) (x_conf x) (x_matches x).

  Lemma xinv_quiet_path s x : XInv s -> In x (xs_paths s) -> x_queue x = [] -> runs_resolved (xs_confs s) x.
  Proof.
    intros [Hi Hs] Hx Hq. specialize (Hs x Hx). unfold settled, settle in Hs. rewrite Hq in Hs. simpl in Hs.
    unfold x_running, mgr_view in Hs. inversion Hs as [[H1 H2 H3]].
    unfold runs_resolved. rewrite H1, H2, H3.
    apply (inv_resolved m _ Hi). simpl. apply in_map, Hx.
  Qed.

  Lemma quiet_all s : quiet s = true -> forall x, In x (xs_paths s) -> x_queue x = [].
  Proof.
    unfold quiet. rewrite forallb_forall. intros H x Hx. specialize (H x Hx).
    destruct (x_queue x); [reflexivity|discriminate].
  Qed.

  Lemma quiet_applied_view s : XInv s -> quiet s = true -> applied_view s = proj s.
  Proof.
    intros [Hi Hs] Hq. unfold applied_view, proj. f_equal. apply map_ext_in. intros x Hx.
    specialize (Hs x Hx). unfold settled, settle in Hs. rewrite (quiet_all s Hq x Hx) in Hs. simpl in Hs.
    unfold x_running, mgr_view in Hs. inversion Hs as [[H1 H2 H3]].
    unfold running_path. rewrite H1, H2, H3. apply lpath_eta.
  Qed.

  Lemma xinv_quiet_rec s : XInv s -> quiet s = true -> Rec m (applied_view s).
  Proof. intros Hx Hq. rewrite (quiet_applied_view s Hx Hq). apply inv_rec, (xi_inv s Hx). Qed.

  Lemma drain_applied_view s : XInv s -> applied_view (drain s) = proj s.
  Proof.
    intros [Hi Hs]. unfold applied_view, drain, proj; simpl. f_equal. rewrite map_map. apply map_ext_in.
    intros x Hx. specialize (Hs x Hx). unfold settled in Hs.
    unfold running_path, drain_path, set_running; simpl. rewrite Hs. apply lpath_eta.
  Qed.

  Lemma xinv_drain_rec s : XInv s -> Rec m (applied_view (drain s)).
  Proof. intros Hx. rewrite (drain_applied_view s Hx). apply inv_rec, (xi_inv s Hx). Qed.

  (* ---------------------------------------------------------------- drain is a sequence of in-order deliveries *)
  Definition on_name (n : str) (g : xpath -> xpath) (x : xpath) : xpath :=
    if str_eqb (x_name x) n then g x else x.

  Lemma on_name_absent n g l : ~ In n (map x_name l) -> map (on_name n g) l = l.
  Proof.
    induction l as [|x l IH]; simpl; intros H; [reflexivity|].
    rewrite IH by (intros Hin; apply H; right; exact Hin).
    unfold on_name. destruct (str_eqb (x_name x) n) eqn:E; [|reflexivity].
    apply str_eqb_eq in E. exfalso. apply H. left. exact E.
  Qed.

  Lemma deliver_path_name o i x : x_name (deliver_path o i x) = x_name x.
  Proof. unfold x_name. rewrite deliver_path_xp. reflexivity. Qed.

  Lemma iter_deliver_name k x : x_name (Nat.iter k (deliver_path true O) x) = x_name x.
  Proof. induction k as [|k IH]; simpl; [reflexivity|]. rewrite deliver_path_name. exact IH. Qed.

  Lemma xrun_repeat_deliver o g k : forall s n,
    xrun m mask true g s (repeat (XDeliver n o) k)
    = XST (xs_confs s) (map (on_name n (Nat.iter k (deliver_path true o))) (xs_paths s)) (xs_next s) (xs_crashed s).
  Proof.
    induction k as [|k IH]; intros s n; simpl.
    - destruct s as [cs xs nx cr]; simpl. f_equal.
      rewrite <- (map_id xs) at 1. apply map_ext. intros x. unfold on_name. destruct (str_eqb _ n); reflexivity.
    - rewrite IH. unfold xdeliver; simpl. f_equal. rewrite map_map. apply map_ext. intros x.
      unfold on_name, x_name. destruct (str_eqb (p_name (x_p x)) n) eqn:E.
      + rewrite deliver_path_xp, E. rewrite <- iter_succ_r'. reflexivity.
      + rewrite E. reflexivity.
  Qed.

  Lemma iter_deliver_drain p : forall q cn c mt,
    Nat.iter (List.length q) (deliver_path true O) (XP p cn c mt q) = drain_path (XP p cn c mt q).
  Proof.
    induction q as [|d q IH]; intros cn c mt; [reflexivity|].
    cbn [List.length]. rewrite iter_succ_r'.
    assert (E : deliver_path true O (XP p cn c mt (d :: q)) =
                XP p (fst (fst (apply_d (cn, c, mt) d))) (snd (fst (apply_d (cn, c, mt) d)))
                   (snd (apply_d (cn, c, mt) d)) q) by reflexivity.
    rewrite E, IH.
    unfold drain_path, settle, set_running, x_running. cbn [x_p x_cname x_conf x_matches x_queue fold_left].
    rewrite running_eta. reflexivity.
  Qed.

  Lemma drain_path_name x : x_name (drain_path x) = x_name x.
  Proof. reflexivity. Qed.

  Definition ops_of (l : list xpath) : list xop :=
    flat_map (fun x => repeat (XDeliver (p_name (x_p x)) O) (List.length (x_queue x))) l.

  Lemma xrun_app g s a b : xrun m mask true g s (a ++ b) = xrun m mask true g (xrun m mask true g s a) b.
  Proof. unfold xrun. apply fold_left_app. Qed.

  Lemma drain_ops_run g cs nx cr : forall todo done,
    NoDup (map x_name (done ++ todo)) ->
    xrun m mask true g (XST cs (map drain_path done ++ todo) nx cr) (ops_of todo)
    = XST cs (map drain_path (done ++ todo)) nx cr.
  Proof.
    induction todo as [|x todo IH]; intros done Hnd.
    - simpl. rewrite !app_nil_r. reflexivity.
    - cbn [ops_of flat_map]. fold (ops_of todo). rewrite xrun_app, xrun_repeat_deliver. cbn [xs_confs xs_paths xs_next xs_crashed].
      assert (Hx1 : ~ In (x_name x) (map x_name (map drain_path done))).
      { rewrite map_map. rewrite (map_ext _ x_name) by (intros; apply drain_path_name).
        rewrite map_app in Hnd. apply NoDup_remove_2 in Hnd. intros H. apply Hnd. apply in_or_app. left. exact H. }
      assert (Hx2 : ~ In (x_name x) (map x_name todo)).
      { rewrite map_app in Hnd. apply NoDup_remove_2 in Hnd. intros H. apply Hnd. apply in_or_app. right. exact H. }
      rewrite map_app. cbn [map]. rewrite (on_name_absent _ _ _ Hx1), (on_name_absent _ _ _ Hx2).
      unfold on_name at 1. fold (x_name x). rewrite str_eqb_refl.
      destruct x as [p cn c mt q]. cbn [x_queue]. rewrite iter_deliver_drain.
      set (x := XP p cn c mt q) in *.
      specialize (IH (done ++ [x])).
      replace ((done ++ [x]) ++ todo) with (done ++ x :: todo) in IH by (rewrite <- app_assoc; reflexivity).
      replace (map drain_path (done ++ [x]) ++ todo) with (map drain_path done ++ drain_path x :: todo) in IH
        by (rewrite map_app, <- app_assoc; reflexivity).
      apply IH, Hnd.
  Qed.

  Lemma drain_reachable g s :
    NoDup (map p_name (map x_p (xs_paths s))) ->
    xrun m mask true g s (drain_ops s) = drain s.
  Proof.
    intros H. destruct s as [cs xs nx cr]. unfold drain_ops, drain; cbn [xs_confs xs_paths xs_next xs_crashed].
    apply (drain_ops_run g cs nx cr xs []). simpl. rewrite map_map in H. exact H.
  Qed.

  (* ---------------------------------------------------------------- the theorem *)
  Lemma delivery_in_order cs h :
    NoDup (map fst cs) -> Forall wf_xop h ->
    let s := xrun m mask true true (xinit m mask cs) h in
    Rec m (proj s) /\ xs_crashed s = false /\
    (forall x, In x (xs_paths s) -> settle x = mgr_view (x_p x)) /\
    (forall x, In x (xs_paths s) -> x_queue x = [] -> runs_resolved (xs_confs s) x) /\
    (quiet s = true -> Rec m (applied_view s)) /\
    xrun m mask true true s (drain_ops s) = drain s /\ quiet (drain s) = true /\ Rec m (applied_view (drain s)).
  Proof.
    intros Hc Hh s. assert (Hx := xreachable_xinv cs h Hc Hh). fold s in Hx.
    split; [apply inv_rec, (xi_inv s Hx)|]. split; [apply (inv_nocrash m _ (xi_inv s Hx))|].
    split; [apply (xi_settled s Hx)|]. split; [intros x; apply xinv_quiet_path, Hx|].
    split; [apply xinv_quiet_rec, Hx|]. split; [apply drain_reachable, (inv_names m _ (xi_inv s Hx))|].
    split; [|apply xinv_drain_rec, Hx].
    unfold quiet, drain; simpl. apply forallb_forall. intros x Hin. apply in_map_iff in Hin as [y [<- _]]. reflexivity.
  Qed.
End XPM.

(* ---------------------------------------------------------------- unordered hand-overs: the older configuration may land last *)
Definition cvec (i : Z) : conf := map (fun f => if String.eqb f "RecordPath" then i else 0) path_fields.

Definition raced_confs : list (str * conf) := [(n_foo, cvec 0)].
Definition raced_hist : list xop :=
  [XReload [(n_foo, cvec 1)]; XReload [(n_foo, cvec 2)]; XDeliver n_foo 1; XDeliver n_foo 0].

Lemma raced_hot : can_update (cvec 0) (cvec 1) = true /\ can_update (cvec 1) (cvec 2) = true /\
                  conf_eqb (cvec 1) (cvec 2) = false.
Proof. repeat split; vm_compute; reflexivity. Qed.

Lemma raced_unordered_state :
  let s := xrun ex_oracle hot_mask false true (xinit ex_oracle hot_mask raced_confs) raced_hist in
  quiet s = true /\ map (fun x => (p_gen (x_p x), conf_eqb (x_conf x) (cvec 1))) (xs_paths s) = [(0, true)] /\
  xs_confs s = [(n_foo, cvec 2)].
Proof. vm_compute. repeat split; reflexivity. Qed.

Lemma raced_ordered_state :
  let s := xrun ex_oracle hot_mask true true (xinit ex_oracle hot_mask raced_confs) raced_hist in
  quiet s = true /\ map (fun x => (p_gen (x_p x), conf_eqb (x_conf x) (cvec 2))) (xs_paths s) = [(0, true)].
Proof. vm_compute. repeat split; reflexivity. Qed.

Lemma delivery_unordered_refuted :
  exists m cs h, NoDup (map fst cs) /\ Forall wf_xop h /\
    let s := xrun m hot_mask false true (xinit m hot_mask cs) h in
    quiet s = true /\ ~ Rec m (applied_view s).
Proof.
  exists ex_oracle, raced_confs, raced_hist. split; [|split; [|split]].
  - repeat constructor. intros [].
  - repeat constructor; intros [].
  - vm_compute. reflexivity.
  - intros [_ [_ H]].
    set (s := xrun ex_oracle hot_mask false true (xinit ex_oracle hot_mask raced_confs) raced_hist) in *.
    assert (Hp : exists p, In p (st_paths (applied_view s)) /\ p_name p = n_foo /\ conf_eqb (p_conf p) (cvec 1) = true
                           /\ st_confs (applied_view s) = [(n_foo, cvec 2)]).
    { vm_compute. eexists. split; [left; reflexivity|]. repeat split. }
    destruct Hp as [p [Hin [Hn [Hc Hcs]]]]. specialize (H p Hin). unfold resolves_to in H.
    rewrite Hcs, Hn in H. apply conf_eqb_eq in Hc.
    assert (Hf : find ex_oracle [(n_foo, cvec 2)] n_foo = Found n_foo (cvec 2) []) by (vm_compute; reflexivity).
    rewrite Hf in H. inversion H as [[H1 H2 H3]]. rewrite Hc in H2.
    assert (Hne : conf_eqb (cvec 2) (cvec 1) = false) by (vm_compute; reflexivity).
    rewrite H2 in Hne. rewrite (proj2 (conf_eqb_eq _ _) eq_refl) in Hne. discriminate.
Qed.

(* groups of one configuration with the fields of another: hot change under ~^(f)oo$, then a move to ~^f(oo)$,
   received in the opposite order *)
Definition raced_groups_hist : list xop :=
  [XCreate n_foo; XReload [(k_foo1, cvec 1)]; XReload [(k_foo2, cvec 2)]; XDeliver n_foo 1; XDeliver n_foo 0].

Lemma raced_groups_state :
  let s := xrun ex_oracle hot_mask false true (xinit ex_oracle hot_mask [(k_foo1, cvec 0)]) raced_groups_hist in
  map (fun x => (p_confName (x_p x), x_cname x, conf_eqb (x_conf x) (cvec 1), x_matches x, x_queue x)) (xs_paths s)
  = [(k_foo2, k_foo1, true, [n_foo; g_oo], [])].
Proof. vm_compute. reflexivity. Qed.

(* ---------------------------------------------------------------- unguarded idle close: a static configuration loses its path *)
Definition idle_confs : list (str * conf) := [(k_foo1, [])].
Definition idle_hist : list xop := [XCreate n_foo; XReload [(k_foo1, []); (n_foo, [])]; XLeave n_foo].

Lemma idle_close_refuted :
  exists m cs h, NoDup (map fst cs) /\ Forall wf_xop h /\
    ~ Rec m (proj (xrun m hot_mask true false (xinit m hot_mask cs) h)).
Proof.
  exists ex_oracle, idle_confs, idle_hist. split; [|split].
  - repeat constructor. intros [].
  - constructor; [exact I|]. constructor; [|constructor; [exact I|constructor]].
    simpl. constructor; [intros [H0|[]]; vm_compute in H0; discriminate|]. constructor; [intros []|constructor].
  - intros [H _]. destruct (H n_foo [] ) as [p [Hp _]].
    + vm_compute. right. left. reflexivity.
    + vm_compute. reflexivity.
    + vm_compute in Hp. exact Hp.
Qed.

Lemma idle_close_guarded :
  let s := xrun ex_oracle hot_mask true true (xinit ex_oracle hot_mask idle_confs) idle_hist in
  map (fun x => (p_name (x_p x), p_confName (x_p x), x_cname x, List.length (x_queue x))) (xs_paths s)
  = [(n_foo, n_foo, k_foo1, 1%nat)].
Proof. vm_compute. reflexivity. Qed.
