(* Path event loop: the on-demand cycle, step by step (C19: start on first demand, stop after the close delay
   once no reader remains, restart on later demand). No invariant needed: the hypotheses are on the state. *)
From Coq Require Import List ZArith Bool Lia.
Require Import MTX.Lib.Trace MTX.Model.PathSM MTX.Proofs.PathSM MTX.Proofs.PathSM_Thms.
Import ListNotations.
Local Open Scope Z_scope.

Ltac find_in :=
  match goal with
  | |- _ \/ _ => first [left; reflexivity | right; find_in]
  | |- In _ (_ :: _) => first [left; reflexivity | right; find_in]
  | |- In _ (_ ++ _) => apply in_or_app; first [left; find_in | right; find_in]
  end.

Ltac cyc s :=
  destruct s as [cf cl src str ng rd dh rh sst srt sct srun ir pst prt pct hud hua hof sb];
  cbn in *; subst; unfold od_static, od_pub in *.

(* runOnDemand publisher: first demand starts the command, arms the start timer and holds the request *)
Lemma cycle_pub_start fx s q :
  s_closed s = false -> s_stream s = None -> od_static (s_conf s) = false -> od_pub (s_conf s) = true ->
  s_pubState s = OdInitial ->
  let s' := fst (step_gen fx s (Describe q)) in
  s_pubState s' = OdWaiting /\ s_pubReadyT s' = true /\ s_hUnDemand s' = true /\
  In (EOpen HDemand) (snd (step_gen fx s (Describe q))) /\ In q (held s').
Proof.
  intros Hc Hs Ho Hp Hi. cyc s. unfold step_gen, do_describe, od_static, od_pub. cbn. rewrite Ho, Hp. cbn.
  repeat split; try reflexivity; [left; reflexivity|]. unfold held. cbn. apply in_or_app. left. apply in_or_app. right. left; reflexivity.
Qed.

(* the last reader leaves while Ready: the close timer is armed *)
Lemma cycle_pub_schedule_close fx s r :
  s_closed s = false -> od_static (s_conf s) = false -> od_pub (s_conf s) = true ->
  s_pubState s = OdReady -> s_readers s = [r] ->
  let s' := fst (step_gen fx s (RemoveReader r)) in
  s_pubState s' = OdClosing /\ s_pubCloseT s' = true /\ s_readers s' = [].
Proof.
  intros Hc Ho Hp Hr Hrd. cyc s. unfold step_gen, do_remove_reader, whenM, bindM, modify, mem, od_static, od_pub. cbn -[Z.eqb].
  rewrite ?Z.eqb_refl. cbn -[Z.eqb]. rewrite ?Z.eqb_refl. cbn -[Z.eqb]. rewrite ?Ho, ?Hp. cbn. repeat split; reflexivity.
Qed.

(* the close timer expires: the command is stopped and the automaton is back to Initial (restart possible) *)
Lemma cycle_pub_stop fx s :
  s_closed s = false -> s_pubState s = OdClosing -> s_pubCloseT s = true -> s_hUnDemand s = true ->
  let s' := fst (step_gen fx s (TimerFire TPubClose)) in
  s_pubState s' = OdInitial /\ s_pubCloseT s' = false /\ s_hUnDemand s' = false /\
  In (EClose HDemand) (snd (step_gen fx s (TimerFire TPubClose))).
Proof.
  intros Hc Hst Ht Hh. cyc s. unfold step_gen, do_timer. cbn.
  repeat split; try reflexivity. right. left. reflexivity.
Qed.

(* the start timer expires: every held request is answered "timed out", the command is stopped *)
Lemma cycle_pub_timeout fx s q :
  s_closed s = false -> s_pubState s = OdWaiting -> s_pubReadyT s = true -> s_hUnDemand s = true ->
  In q (held s) ->
  let s' := fst (step_gen fx s (TimerFire TPubReady)) in
  s_pubState s' = OdInitial /\ s_hUnDemand s' = false /\ held s' = [] /\
  In (EAnswer q (AErr E_TIMEOUT)) (snd (step_gen fx s (TimerFire TPubReady))).
Proof.
  intros Hc Hst Ht Hh Hin. cyc s. unfold step_gen, do_timer. cbn.
  repeat split; try reflexivity. right. unfold held in Hin. cbn in Hin.
  apply in_or_app. left. apply in_app_or in Hin. apply in_or_app. destruct Hin as [H|H].
  - left. apply in_map_iff. exists q. auto.
  - right. apply in_map_iff in H. destruct H as (qr & E & H). apply in_map_iff. exists qr. subst. auto.
Qed.

(* on-demand static source: the same cycle *)
Lemma cycle_static_start fx s q :
  s_closed s = false -> s_stream s = None -> od_static (s_conf s) = true ->
  s_ssState s = OdInitial -> s_ssRunning s = false ->
  let s' := fst (step_gen fx s (Describe q)) in
  s_ssState s' = OdWaiting /\ s_ssReadyT s' = true /\ s_ssRunning s' = true /\
  In ESrcStart (snd (step_gen fx s (Describe q))) /\ In q (held s').
Proof.
  intros Hc Hs Ho Hi Hr. cyc s. unfold step_gen, do_describe, od_static. cbn. rewrite Ho. cbn.
  repeat split; try reflexivity; [left; reflexivity|]. unfold held. cbn. apply in_or_app. left. apply in_or_app. right. left; reflexivity.
Qed.

Lemma cycle_static_schedule_close fx s r :
  s_closed s = false -> od_static (s_conf s) = true -> s_ssState s = OdReady -> s_readers s = [r] ->
  let s' := fst (step_gen fx s (RemoveReader r)) in
  s_ssState s' = OdClosing /\ s_ssCloseT s' = true /\ s_readers s' = [].
Proof.
  intros Hc Ho Hr Hrd. cyc s. unfold step_gen, do_remove_reader, whenM, bindM, modify, mem, od_static. cbn -[Z.eqb].
  rewrite ?Z.eqb_refl. cbn -[Z.eqb]. rewrite ?Z.eqb_refl. cbn -[Z.eqb]. rewrite ?Ho. cbn. repeat split; reflexivity.
Qed.

Lemma cycle_static_stop fx s g :
  s_closed s = false -> s_ssState s = OdClosing -> s_ssCloseT s = true -> s_ssRunning s = true ->
  s_stream s = Some g -> s_hUnavail s = true ->
  let s' := fst (step_gen fx s (TimerFire TSSClose)) in
  s_ssState s' = OdInitial /\ s_ssCloseT s' = false /\ s_ssRunning s' = false /\ s_stream s' = None /\
  In ESrcStop (snd (step_gen fx s (TimerFire TSSClose))).
Proof.
  intros Hc Hst Ht Hr Hs Hu. cyc s. unfold step_gen, do_timer. cbn. destruct hof; cbn;
  (repeat split; try reflexivity); find_in.
Qed.
