(* Proofs about Model/C35_SessionConc.v, second part: scheduling decisions, runs, the handlers are well-formed, the
   neighbouring statement orders panic. *)
From Coq Require Import List ZArith Bool Arith Lia.
Require Import MTX.Model.C35_PreAuth MTX.Model.C35_SessionConc MTX.Proofs.C35_SessionConc.
Import ListNotations.
Local Open Scope nat_scope.

(* ---- one scheduling decision ------------------------------------------------------------------------------------- *)

Lemma nth_error_upd_some : forall A (l : list A) i k x y,
  nth_error l k = Some y -> exists z, nth_error (upd i x l) k = Some z.
Proof.
  induction l as [|a l IH]; intros [|i] [|k] x y H; simpl in *; try discriminate; eauto.
Qed.

Lemma gch_lock_cases : forall g i ti g', gch g i ti g' ->
  g_lock g' = g_lock g \/ g_lock g' = LThread i \/ g_lock g' = LFree.
Proof. intros g i ti g' H. destruct H; simpl; auto. Qed.

Definition step_post (c : cfg) (g : sess) (ts : list thread) (i : nat) (t : thread) (ch : nat) : Prop :=
  match step c g i t ch with
  | XPanic | XUnprotected => False
  | XBlocked => t_holds t = false
  | XOk g' t' => Inv g' (upd i t' ts)
  end.

Lemma step_sound : forall c g ts i t ch, Inv g ts -> nth_error ts i = Some t -> step_post c g ts i t ch.
Proof.
  intros c g ts i t ch (Hall & Huniq & Hholder & Hg) Hi.
  pose proof (Hall i t Hi) as Hok.
  unfold step_post, step.
  destruct (t_on t) eqn:Eon; simpl.
  2:{ destruct (t_holds t) eqn:Eh; auto. destruct (ok_on _ _ _ Hok Eh). congruence. }
  destruct (t_res t) eqn:Eres.
  { destruct (t_holds t) eqn:Eh; auto. destruct (ok_on _ _ _ Hok Eh). congruence. }
  destruct (t_alt t) as [alt|] eqn:Ealt.
  - (* draft-16 pre-check: nothing shared changes *)
    destruct (ok_alt _ _ _ Hok alt Ealt) as (Hwfalt & Hh & Habs).
    assert (Hok' : thread_ok g i (t_with t (if g_setup g then t_ops t else alt) (t_holds t))).
    { destruct Hok as [Hwf _ HL Hon' HK HKi HTok HTp HTr HKt HRdy HKn].
      constructor; simpl; auto; try discriminate.
      rewrite Hh in *. rewrite Habs in *. destruct (g_setup g); auto. }
    split; [|split; [|split]]; auto.
    + intros j tj Hj. destruct (nth_error_upd_inv _ _ _ _ _ _ _ Hi Hj) as [[-> ->]|[Hne Hj']]; auto.
    + intros j1 j2 t1 t2 H1 H2 Hne Htok.
      destruct (nth_error_upd_inv _ _ _ _ _ _ _ Hi H1) as [[-> ->]|[Hne1 H1']];
      destruct (nth_error_upd_inv _ _ _ _ _ _ _ Hi H2) as [[-> ->]|[Hne2 H2']]; simpl in *; try congruence.
      * eapply (Huniq i j2); eauto.
      * apply (Huniq j1 i t1 t); auto.
      * eapply (Huniq j1 j2); eauto.
    + intros k Hk. destruct (Hholder k Hk) as [y Hy]. eapply nth_error_upd_some; eauto.
  - pose proof (exec_sound c g i t ch Hok Hg Ealt Eon Eres) as Hex. unfold exec_post in Hex.
    destruct (exec c g i t ch) as [g' t'| | |]; auto.
    destruct Hex as (Hch & Hok' & Htok').
    set (a' := ghost_after t t') in *.
    assert (Ea : match t_ops t, t_res t' with
                 | o :: _, None => learn (t_holds t) (t_abs t) o
                 | _, _ => a_set (t_abs t) false false
                 end = a') by reflexivity.
    rewrite Ea.
    split; [|split; [|split]].
    + intros j tj Hj. destruct (nth_error_upd_inv _ _ _ _ _ _ _ Hi Hj) as [[-> ->]|[Hne Hj']]; auto.
      apply (frame g i t g' j tj Hok Hch Hne (Hall j tj Hj')). intros Hn. apply (Huniq i j t tj); auto.
    + assert (Hfresh : a_ki (t_abs t) = true -> forall j tj, nth_error ts j = Some tj -> a_tok (t_abs tj) = None).
      { intros Hki j tj Hj. destruct (ok_ki _ _ _ Hok Hki) as [_ Hidle].
        destruct (a_tok (t_abs tj)) as [s|] eqn:E; auto.
        destruct (ok_tok _ _ _ (Hall j tj Hj) s E). congruence. }
      intros j1 j2 t1 t2 H1 H2 Hne Htok.
      destruct (nth_error_upd_inv _ _ _ _ _ _ _ Hi H1) as [[-> ->]|[Hne1 H1']];
      destruct (nth_error_upd_inv _ _ _ _ _ _ _ Hi H2) as [[-> ->]|[Hne2 H2']]; simpl in *; try congruence.
      * destruct Htok' as [E|[E|E]].
        -- rewrite E in Htok. eapply (Huniq i j2); eauto.
        -- congruence.
        -- eapply Hfresh; eauto.
      * destruct Htok' as [E|[E|E]]; auto.
        -- rewrite E. apply (Huniq j1 i t1 t); auto.
        -- exfalso. apply Htok. eapply Hfresh; eauto.
      * eapply (Huniq j1 j2); eauto.
    + intros k Hk. destruct (gch_lock_cases _ _ _ _ Hch) as [E|[E|E]].
      * rewrite E in Hk. destruct (Hholder k Hk) as [y Hy]. eapply nth_error_upd_some; eauto.
      * rewrite E in Hk. inversion Hk; subst. eapply nth_error_upd_some; eauto.
      * congruence.
    + apply (ginv_gch g i t g' Hok Hg Hch).
Qed.

(* ---- runs ------------------------------------------------------------------------------------------------------------- *)

Definition safe (r : rstate) : Prop := match r with RRun g ts => Inv g ts | _ => False end.

Lemma thread_ok_env : forall g i t on fed eof pm, thread_ok g i t -> (t_on t = true -> on = true) ->
  thread_ok g i (t_env t on fed eof pm).
Proof.
  intros g i t on fed eof pm [Hwf Halt HL Hon HK HKi HTok HTp HTr HKt HRdy HKn] Himp.
  constructor; simpl; auto. intros H. destruct (Hon H). auto.
Qed.

Lemma Inv_env : forall g ts i t on fed eof pm, Inv g ts -> nth_error ts i = Some t -> (t_on t = true -> on = true) ->
  Inv g (upd i (t_env t on fed eof pm) ts).
Proof.
  intros g ts i t on fed eof pm (Hall & Huniq & Hholder & Hg) Hi Himp.
  split; [|split; [|split]]; auto.
  - intros j tj Hj. destruct (nth_error_upd_inv _ _ _ _ _ _ _ Hi Hj) as [[-> ->]|[Hne Hj']]; auto.
    apply thread_ok_env; auto.
  - intros j1 j2 t1 t2 H1 H2 Hne Htok.
    destruct (nth_error_upd_inv _ _ _ _ _ _ _ Hi H1) as [[-> ->]|[Hne1 H1']];
    destruct (nth_error_upd_inv _ _ _ _ _ _ _ Hi H2) as [[-> ->]|[Hne2 H2']]; simpl in *; try congruence.
    + eapply (Huniq i j2); eauto.
    + apply (Huniq j1 i t1 t); auto.
    + eapply (Huniq j1 j2); eauto.
  - intros k Hk. destruct (Hholder k Hk) as [y Hy]. eapply nth_error_upd_some; eauto.
Qed.

(* changes of shared state that no goroutine of the pool makes: ctx cancelled, the mutex taken / released elsewhere *)
Lemma Inv_core : forall g g' ts,
  Inv g ts -> g_setup g' = g_setup g -> g_ready g' = g_ready g -> g_st g' = g_st g -> g_tracks g' = g_tracks g ->
  (g_lock g' = g_lock g \/ (g_lock g = LFree /\ g_lock g' = LEnv) \/ (g_lock g = LEnv /\ g_lock g' = LFree)) ->
  Inv g' ts.
Proof.
  intros g g' ts (Hall & Huniq & Hholder & [G1 G2]) E2 E3 E4 E5 HLk.
  split; [|split; [|split]]; auto.
  - intros j tj Hj. destruct (Hall j tj Hj) as [Hwf Halt HL Hon HK HKi HTok HTp HTr HKt HRdy HKn].
    constructor; rewrite ?E2, ?E3, ?E4, ?E5, ?(ntracks_eq _ _ E5); auto.
    destruct HLk as [E|[[E E']|[E E']]]; rewrite ?E, ?E' in *; auto.
    + split; intros H; [|congruence]. apply HL in H. congruence.
    + split; intros H; [|congruence]. apply HL in H. congruence.
  - intros k Hk. apply Hholder. destruct HLk as [E|[[E E']|[E E']]]; congruence.
  - unfold ginv. rewrite E3, E4, E5. auto.
Qed.

Lemma apply_safe : forall c r l, safe r -> safe (apply c r l).
Proof.
  intros c [g ts| |] l Hs; simpl in *; auto.
  destruct l as [i ch|i|i|i| | | |i b]; simpl.
  8:{ destruct (nth_error ts i) as [t|] eqn:Ei; simpl; auto. eapply Inv_env; eauto. }
  - destruct (nth_error ts i) as [t|] eqn:Ei; simpl; auto.
    pose proof (step_sound c g ts i t ch Hs Ei) as H. unfold step_post in H.
    destruct (step c g i t ch); simpl; auto.
  - destruct (nth_error ts i) as [t|] eqn:Ei; simpl; auto. eapply Inv_env; eauto.
  - destruct (nth_error ts i) as [t|] eqn:Ei; simpl; auto. eapply Inv_env; eauto.
  - destruct (nth_error ts i) as [t|] eqn:Ei; simpl; auto. eapply Inv_env; eauto.
  - eapply Inv_core; eauto.
  - destruct (g_lock g) eqn:El; simpl; auto. eapply Inv_core; eauto; simpl; auto.
  - destruct (g_lock g) eqn:El; simpl; auto. eapply Inv_core; eauto; simpl; auto.
Qed.

Lemma run_safe : forall c ls r, safe r -> safe (run c r ls).
Proof.
  unfold run. intros c ls. induction ls as [|l ls IH]; intros r Hs; simpl; auto.
  apply IH. apply apply_safe. auto.
Qed.

(* ---- the session's handlers obey the discipline ------------------------------------------------------------------- *)

Lemma prog_wf : forall c s, wf false abs0 (prog c AsFound s) = true.
Proof.
  intros [tr ver pm] s.
  destruct s as [|m|cr|a| |m| |]; try reflexivity.
  - destruct m as [sm|sm|tk|cat| |]; try reflexivity. destruct ver; reflexivity.
  - destruct cr as [| |ci]; reflexivity.
  - destruct m as [sm|sm|tk|cat| |]; try reflexivity.
    + destruct tk as [|n|]; try reflexivity.
      * destruct pm; reflexivity.
      * simpl. unfold kt_is. simpl. rewrite Nat.eqb_refl. reflexivity.
    + destruct cat; [destruct pm|]; reflexivity.
Qed.

Lemma alt_wf : forall c s alt, alt_of c AsFound s = Some alt -> wf false abs0 alt = true.
Proof.
  intros [tr ver pm] s alt H. destruct s; simpl in H; try discriminate.
  destruct ver; simpl in H; try discriminate. inversion H; subst.
  destruct m as [sm|sm|tk|cat| |]; reflexivity.
Qed.

Lemma init_safe : forall c name query ss, safe (init c AsFound name query ss).
Proof.
  intros c name query ss. simpl.
  assert (Hnth : forall i t, nth_error (map (thread0 c AsFound) ss) i = Some t -> exists s, t = thread0 c AsFound s).
  { intros i t H. rewrite nth_error_map in H. destruct (nth_error ss i); simpl in H; inversion H; eauto. }
  split; [|split; [|split]].
  - intros i t H. destruct (Hnth i t H) as [s ->].
    constructor; simpl; try discriminate; auto.
    + apply prog_wf.
    + intros alt Ha. split; [|auto]. eapply alt_wf; eauto.
    + split; discriminate.
  - intros i j ti tj Hi Hj _ _. destruct (Hnth j tj Hj) as [s ->]. reflexivity.
  - simpl. discriminate.
  - split; reflexivity.
Qed.

(* ---- the theorems ---------------------------------------------------------------------------------------------------- *)

(* the discipline is sound: a pool that satisfies the invariant never leaves it, whatever happens next *)
Theorem discipline_sound : forall c g ts ls,
  Inv g ts -> exists g' ts', run c (RRun g ts) ls = RRun g' ts' /\ Inv g' ts'.
Proof.
  intros c g ts ls H. pose proof (run_safe c ls (RRun g ts) H) as Hs.
  destruct (run c (RRun g ts) ls) as [g' ts'| |]; simpl in Hs; try contradiction. eauto.
Qed.

(* any number of concurrent streams / API calls on a fresh session, any schedule: no panic, no fatal unlock, no access
   to a guarded field without the mutex *)
Theorem session_no_panic : forall c name query ss ls,
  exists g ts, run c (init c AsFound name query ss) ls = RRun g ts /\ Inv g ts.
Proof.
  intros c name query ss ls. pose proof (run_safe c ls _ (init_safe c name query ss)) as Hs.
  destruct (run c (init c AsFound name query ss) ls) as [g' ts'| |]; simpl in Hs; try contradiction. eauto.
Qed.

(* whoever holds s.mutex can execute its next statement at once: it is not waiting for the client, for another
   goroutine or for the context, so no client can keep the session's mutex (and with it apiItem) blocked *)
Theorem holder_not_blocked : forall c g ts i,
  Inv g ts -> g_lock g = LThread i ->
  exists t, nth_error ts i = Some t /\ forall ch, exists g' t', step c g i t ch = XOk g' t'.
Proof.
  intros c g ts i HI Hl. pose proof HI as (Hall & _ & Hholder & _).
  destruct (Hholder i Hl) as [t Ht]. exists t. split; auto. intros ch.
  pose proof (step_sound c g ts i t ch HI Ht) as H. unfold step_post in H.
  assert (Hh : t_holds t = true) by (apply (ok_lock _ _ _ (Hall i t Ht)); auto).
  destruct (step c g i t ch) as [g' t'| | |]; try contradiction; eauto. congruence.
Qed.

(* a handler that has returned does not hold the mutex, and nobody else believes to hold it *)
Theorem finished_released : forall g ts i t,
  Inv g ts -> nth_error ts i = Some t -> t_res t <> None -> t_holds t = false /\ g_lock g <> LThread i.
Proof.
  intros g ts i t (Hall & _) Ht Hr. pose proof (Hall i t Ht) as Hok.
  assert (Hh : t_holds t = false).
  { destruct (t_holds t) eqn:E; auto. destruct (ok_on _ _ _ Hok E). congruence. }
  split; auto. intros Hl. apply (ok_lock _ _ _ Hok) in Hl. congruence.
Qed.

(* the session's path name is written once: a later SETUP / CLIENT_SETUP cannot change the name the path manager
   will be asked about *)
Lemma exec_name : forall c g i t ch g' t',
  exec c g i t ch = XOk g' t' -> g_name g <> [] -> g_name g' = g_name g /\ g_query g' = g_query g.
Proof.
  intros c g i t ch g' t' H Hn. unfold exec in H.
  destruct (t_ops t) as [|o r]; try discriminate.
  assert (He : emp (g_name g) = false) by (destruct (g_name g); simpl; congruence).
  destruct o; unfold ret in H; simpl in H; rewrite ?He in H;
    repeat (match type of H with
            | context [match ?x with _ => _ end] => destruct x eqn:?
            end; simpl in H; try discriminate);
    inversion H; subst; simpl; auto.
Qed.

Theorem name_write_once : forall c ls g ts g' ts',
  run c (RRun g ts) ls = RRun g' ts' -> g_name g <> [] -> g_name g' = g_name g /\ g_query g' = g_query g.
Proof.
  unfold run. intros c ls. induction ls as [|l ls IH]; intros g ts g' ts' H Hn; cbn [fold_left] in H.
  - inversion H; subst; auto.
  - assert (Hstuck : forall r, (forall g1 ts1, r <> RRun g1 ts1) -> fold_left (apply c) ls r = r).
    { intros r Hr. clear -Hr. induction ls as [|l' ls' IH']; simpl; auto.
      destruct r as [g1 ts1| |]; [exfalso; eapply Hr; eauto| |]; simpl; apply IH'; auto. }
    destruct (apply c (RRun g ts) l) as [g1 ts1|k|k] eqn:Ea.
    + assert (E1 : g_name g1 = g_name g /\ g_query g1 = g_query g).
      { destruct l as [i ch|i|i|i| | | |i b]; simpl in Ea.
        8:{ destruct (nth_error ts i); inversion Ea; subst; auto. }
        - destruct (nth_error ts i) as [t|]; [|inversion Ea; subst; auto].
          unfold step in Ea. destruct (negb (t_on t)); [inversion Ea; subst; auto|].
          destruct (t_res t); [inversion Ea; subst; auto|].
          destruct (t_alt t); [inversion Ea; subst; auto|].
          destruct (exec c g i t ch) as [g2 t2| | |] eqn:Ee; inversion Ea; subst; auto.
          eapply exec_name; eauto.
        - destruct (nth_error ts i); inversion Ea; subst; auto.
        - destruct (nth_error ts i); inversion Ea; subst; auto.
        - destruct (nth_error ts i); inversion Ea; subst; auto.
        - inversion Ea; subst; auto.
        - destruct (g_lock g); inversion Ea; subst; auto.
        - destruct (g_lock g); inversion Ea; subst; auto. }
      destruct E1 as [E1 E2]. destruct (IH g1 ts1 g' ts' H) as [E3 E4]; [congruence|]. split; congruence.
    + rewrite Hstuck in H by (intros; discriminate). discriminate.
    + rewrite Hstuck in H by (intros; discriminate). discriminate.
Qed.

(* ---- the neighbouring statement orders ---------------------------------------------------------------------------- *)

Definition sm0 : setupmsg := {| sm_path := []; sm_auth := false; sm_parse := None |}.
Definition cWT : cfg := {| c_tr := TWebTransport; c_ver := V17; c_pm := PMAuth |}.
Definition cAcc : cfg := {| c_tr := TWebTransport; c_ver := V17; c_pm := PMAccept 0 |}.
Fixpoint steps (i n : nat) : list label := match n with O => [] | S k => LStep i 0 :: steps i k end.
(* every stream accepted, its bytes there, its client side closed *)
Definition startfeed (n : nat) : list label := flat_map (fun i => [LStart i; LFeed i; LEof i]) (seq 0 n).

(* one client, two SETUP messages on two unidirectional streams *)
Definition two_setups : list stream := [UniMsg (QSetup sm0); UniMsg (QSetup sm0)].

(* both goroutines pass the duplicate test, then each locks, closes, unlocks: the second close panics *)
Definition sched_raced_setups : list label := startfeed 2 ++ steps 0 2 ++ steps 1 2 ++ steps 0 4 ++ steps 1 3.
Definition sched_sequential : list label := startfeed 2 ++ steps 0 8 ++ steps 1 8.

Lemma check_then_lock_panics :
  run cWT (init cWT CheckThenLock [99%Z] [] two_setups) sched_raced_setups = RPanic 1.
Proof. vm_compute. reflexivity. Qed.

(* ... while one stream after the other is rejected cleanly, as in the code as found: sequential tests cannot tell *)
Lemma check_then_lock_sequential_ok :
  (match run cWT (init cWT CheckThenLock [99%Z] [] two_setups) sched_sequential with
   | RRun _ ts => map t_res ts | _ => [] end) = [Some ENil; Some EDupSetup]
  /\ (match run cWT (init cWT AsFound [99%Z] [] two_setups) sched_sequential with
      | RRun _ ts => map t_res ts | _ => [] end) = [Some ENil; Some EDupSetup].
Proof. vm_compute. split; reflexivity. Qed.

Lemma check_then_lock_ill_formed : wf false abs0 (prog cWT CheckThenLock (UniMsg (QSetup sm0))) = false.
Proof. reflexivity. Qed.

Definition sched_unlock_then_check : list label := startfeed 2 ++ steps 0 5 ++ steps 1 5 ++ steps 0 1 ++ steps 1 1.
Lemma unlock_then_check_panics :
  run cWT (init cWT UnlockThenCheck [99%Z] [] two_setups) sched_unlock_then_check = RPanic 1.
Proof. vm_compute. reflexivity. Qed.

Definition sched_no_lock : list label := startfeed 2 ++ steps 0 2.
Lemma no_lock_unprotected :
  run cWT (init cWT NoLock [99%Z] [] two_setups) sched_no_lock = RUnprotected 0.
Proof. vm_compute. reflexivity. Qed.

(* two PUBLISH .catalog requests and two catalogs, a path manager that lets the client publish: with the state test
   and the state write in two critical sections both requests get through and both close publishReady *)
Definition two_publishers : list stream :=
  [UniMsg (QSetup sm0); Bidi (QPublish true); Bidi (QPublish true);
   UniCatalog (CatOk (true, 0)); UniCatalog (CatOk (true, 0))].
Definition sched_two_publishers : list label :=
  startfeed 5 ++ steps 0 8 ++ steps 1 5 ++ steps 2 5 ++ steps 1 6 ++ steps 2 6 ++ steps 3 4 ++ steps 1 7
  ++ steps 4 4 ++ steps 2 7.
Lemma split_publish_cas_panics :
  run cAcc (init cAcc SplitPublishCAS [99%Z] [] two_publishers) sched_two_publishers = RPanic 2.
Proof. vm_compute. reflexivity. Qed.

(* SUBSCRIBE of track 0 on a stream without tracks, guard written with `>` *)
Definition subscribe_track0 : list stream :=
  [UniMsg (QSetup sm0); Bidi (QSubscribe TCatalog); Bidi (QSubscribe (TNum 0))].
Definition sched_subscribe_track0 : list label := startfeed 3 ++ steps 0 8 ++ steps 1 20 ++ steps 2 8.
Lemma index_off_by_one_panics :
  run cAcc (init cAcc IndexOffByOne [99%Z] [] subscribe_track0) sched_subscribe_track0 = RPanic 2.
Proof. vm_compute. reflexivity. Qed.

(* non-vacuity: under the code as found the same pools and schedules run to these results *)
Lemma as_found_examples :
  (match run cWT (init cWT AsFound [99%Z] [] two_setups) sched_raced_setups with
   | RRun g ts => (g_setup g, map t_res ts) | _ => (false, []) end) = (true, [None; Some EDupSetup])
  /\ (match run cAcc (init cAcc AsFound [99%Z] [] two_publishers) sched_two_publishers with
      | RRun g ts => (g_ready g, map t_res ts) | _ => (false, []) end)
     = (true, [Some ENil; None; Some EUnexpectedPublish; Some ENil; Some ENil])
  /\ (match run cAcc (init cAcc AsFound [99%Z] [] subscribe_track0) sched_subscribe_track0 with
      | RRun g ts => (g_tracks g, map t_res ts) | _ => (None, []) end)
     = (Some 0, [Some ENil; Some ESubCatalogClosed; Some ETrackRange]).
Proof. vm_compute. repeat split; reflexivity. Qed.

(* ---- pools of arbitrary well-formed programs (the paths generated from session.go) ------------------------------- *)

Definition thread_of (ops : list op) : thread :=
  {| t_ops := ops; t_alt := None; t_on := false; t_holds := false; t_fed := false; t_eof := false; t_pmgo := true;
     t_name := []; t_query := []; t_cat := None; t_pm := None; t_wrote := []; t_snap := None; t_res := None;
     t_abs := abs0 |}.

Lemma pool_safe : forall name query progs,
  forallb (wf false abs0) progs = true -> safe (RRun (sess0 name query) (map thread_of progs)).
Proof.
  intros name query progs Hwf. simpl.
  assert (Hnth : forall i t, nth_error (map thread_of progs) i = Some t ->
                 exists p, t = thread_of p /\ wf false abs0 p = true).
  { intros i t H. rewrite nth_error_map in H. destruct (nth_error progs i) as [p|] eqn:E; simpl in H; inversion H.
    exists p. split; auto. rewrite forallb_forall in Hwf. apply Hwf. eapply nth_error_In; eauto. }
  split; [|split; [|split]].
  - intros i t H. destruct (Hnth i t H) as [p [-> Hp]].
    constructor; simpl; try discriminate; auto. split; discriminate.
  - intros i j ti tj Hi Hj _ _. destruct (Hnth j tj Hj) as [p [-> _]]. reflexivity.
  - simpl. discriminate.
  - split; reflexivity.
Qed.

Theorem wf_pool_no_panic : forall c name query progs ls,
  forallb (wf false abs0) progs = true ->
  exists g ts, run c (RRun (sess0 name query) (map thread_of progs)) ls = RRun g ts /\ Inv g ts.
Proof.
  intros c name query progs ls H. pose proof (run_safe c ls _ (pool_safe name query progs H)) as Hs.
  destruct (run c (RRun (sess0 name query) (map thread_of progs)) ls) as [g' ts'| |]; simpl in Hs; try contradiction.
  eauto.
Qed.

(* picking programs out of a table whose entries are all well-formed *)
Lemma picks_wf : forall (A : Type) (table : list (A * list op)) (d : A) picks,
  forallb (fun p => wf false abs0 (snd p)) table = true ->
  forallb (wf false abs0) (map (fun k => snd (nth k table (d, []))) picks) = true.
Proof.
  intros A table d picks H. apply forallb_forall. intros x Hx. apply in_map_iff in Hx. destruct Hx as [k [<- _]].
  destruct (Nat.lt_ge_cases k (List.length table)) as [Hlt|Hge].
  - rewrite forallb_forall in H. apply (H (nth k table (d, []))). apply nth_In. auto.
  - rewrite nth_overflow by auto. reflexivity.
Qed.

Theorem table_no_panic : forall (table : list (String.string * list op)),
  map fst (filter (fun p => negb (wf false abs0 (snd p))) table) = [] ->
  forall c name query (picks : list nat) ls,
  exists g ts,
    run c (RRun (sess0 name query)
                (map thread_of (map (fun k => snd (nth k table (String.EmptyString, []))) picks))) ls
    = RRun g ts /\ Inv g ts.
Proof.
  intros table Hnil c name query picks ls. apply wf_pool_no_panic. apply picks_wf.
  apply forallb_forall. intros p Hp.
  destruct (wf false abs0 (snd p)) eqn:E; auto.
  assert (Hin : In (fst p) (map fst (filter (fun p => negb (wf false abs0 (snd p))) table))).
  { apply in_map. apply filter_In. split; auto. rewrite E. reflexivity. }
  rewrite Hnil in Hin. destruct Hin.
Qed.
