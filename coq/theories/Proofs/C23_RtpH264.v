(* Proofs about the rtph264 packetizer model (Model/C23_RtpH264.v): payload size bound, sequence numbers,
   timestamps, and decode (encode au) = au. *)
From Coq Require Import List ZArith Bool Lia Arith.
Require Import MTX.Lib.IntWrap MTX.Model.C23_RtpH264.
Import ListNotations.
Local Open Scope Z_scope.

(* ------------------------------------------------------------------ basics *)

Lemma blen_nonneg {A} (l : list A) : 0 <= blen l.
Proof. unfold blen. lia. Qed.

Lemma blen_app {A} (a b : list A) : blen (a ++ b) = blen a + blen b.
Proof. unfold blen. rewrite app_length. lia. Qed.

Lemma blen_cons {A} (x : A) (l : list A) : blen (x :: l) = 1 + blen l.
Proof. unfold blen. simpl length. lia. Qed.

Lemma blen_nil {A} : blen (@nil A) = 0.
Proof. reflexivity. Qed.

Lemma ok_inj {A} (x y : A) : Ok x = Ok y -> x = y.
Proof. intros H. injection H as H. exact H. Qed.

Lemma len_agg_list_app a b : len_agg_list (a ++ b) = len_agg_list a + len_agg_list b.
Proof. induction a as [|x a IH]; cbn [len_agg_list app]; [reflexivity|rewrite IH; lia]. Qed.

Lemma len_agg_list_nonneg a : 0 <= len_agg_list a.
Proof. induction a as [|x a IH]; cbn [len_agg_list]; [lia|pose proof (blen_nonneg x); lia]. Qed.

Lemma len_agg_snoc batch n : len_agg (batch ++ [n]) None = len_agg batch (Some n).
Proof. unfold len_agg. rewrite len_agg_list_app. cbn [len_agg_list]. lia. Qed.

Lemma stap_payload_len nalus : blen (24 :: concat (map stap_entry nalus)) = len_agg nalus None.
Proof.
  unfold len_agg. rewrite blen_cons.
  assert (H : blen (concat (map stap_entry nalus)) = len_agg_list nalus).
  { induction nalus as [|n r IH]; [reflexivity|].
    cbn [map concat]. rewrite blen_app, IH. unfold stap_entry. rewrite !blen_cons. cbn [len_agg_list]. lia. }
  rewrite H. lia.
Qed.

(* ------------------------------------------------------------------ packet count *)

Lemma packet_count_spec avail le :
  0 < avail -> 0 <= le ->
  let pc := packet_count avail le in
  le <= pc * avail /\ (0 < le -> (pc - 1) * avail < le) /\ 0 <= pc.
Proof.
  intros Ha Hl. unfold packet_count.
  rewrite Z.quot_div_nonneg, Z.rem_mod_nonneg by lia.
  pose proof (Z.div_mod le avail ltac:(lia)) as Hdm.
  pose proof (Z.mod_pos_bound le avail Ha) as Hm.
  assert (0 <= le / avail) by (apply Z.div_pos; lia).
  destruct (le mod avail =? 0) eqn:E; [apply Z.eqb_eq in E|apply Z.eqb_neq in E]; cbn zeta; nia.
Qed.

(* ------------------------------------------------------------------ size bound *)

Definition fits (max : Z) (p : packet) : Prop := blen p.(p_payload) <= max.

Lemma frag_loop_fits k avail ind typ start marker body e :
  (length body <= k * avail)%nat ->
  Forall (fits (Z.of_nat avail + 2)) (fst (frag_loop k avail ind typ start marker body e)).
Proof.
  revert start body e. induction k as [|k IH]; intros start body e Hlen; [constructor|].
  cbn [frag_loop].
  destruct (frag_loop k avail ind typ 0 marker
              (skipn (if match k with O => true | S _ => false end then length body else avail) body) (bump e))
    as [r e'] eqn:Er.
  cbn [fst]. constructor.
  - unfold fits. cbn [p_payload]. rewrite !blen_cons. unfold blen. rewrite firstn_length.
    destruct k; lia.
  - specialize (IH 0 (skipn (if match k with O => true | S _ => false end then length body else avail) body) (bump e)).
    rewrite Er in IH. apply IH. rewrite skipn_length. destruct k; lia.
Qed.

Lemma write_fragmented_fits e nalu marker pkts e' :
  3 <= e.(e_max) -> write_fragmented e nalu marker = Ok (pkts, e') -> Forall (fits e.(e_max)) pkts.
Proof.
  intros Hmax. unfold write_fragmented.
  destruct (e_max e - 2 <=? 0) eqn:E; [discriminate|]. apply Z.leb_gt in E.
  remember (blen nalu - 1) as le eqn:Hle0.
  destruct nalu as [|b body]; [discriminate|]. intros H. injection H as H1.
  rewrite blen_cons in Hle0.
  pose proof (packet_count_spec (e_max e - 2) le ltac:(lia)
                ltac:(pose proof (blen_nonneg body); lia)) as (Hle & _ & Hpc).
  set (pc := packet_count (e_max e - 2) le) in *.
  match type of H1 with frag_loop ?k ?a ?i ?t ?s ?m ?bd ?ee = _ =>
    pose proof (frag_loop_fits k a i t s m bd ee) as HF end.
  rewrite H1 in HF. cbn [fst] in HF.
  replace (Z.of_nat (Z.to_nat (e_max e - 2)) + 2) with (e_max e) in HF by lia.
  apply HF. unfold blen in Hle0.
  assert (Hpc' : Z.of_nat (Z.to_nat pc) = pc) by (apply Z2Nat.id; exact Hpc).
  assert (Hav : Z.of_nat (Z.to_nat (e_max e - 2)) = e_max e - 2) by (apply Z2Nat.id; lia).
  apply Nat2Z.inj_le. rewrite Nat2Z.inj_mul, Hpc', Hav. lia.
Qed.

Definition batch_ok (max : Z) (batch : list bytes) : Prop :=
  (length batch <= 1)%nat \/ len_agg batch None <= max.

Lemma write_batch_fits e batch marker pkts e' :
  3 <= e.(e_max) -> batch_ok e.(e_max) batch ->
  write_batch e batch marker = Ok (pkts, e') -> Forall (fits e.(e_max)) pkts.
Proof.
  intros Hmax Hok. unfold write_batch.
  destruct batch as [|n [|n2 r]].
  - intros H. inversion H; subst. constructor; [|constructor]. unfold fits. cbn. unfold blen. simpl. lia.
  - destruct (blen n <? e_max e) eqn:E.
    + intros H. inversion H; subst. constructor; [|constructor]. unfold fits. cbn. apply Z.ltb_lt in E. lia.
    + apply write_fragmented_fits; assumption.
  - unfold write_aggregated. intros H. apply ok_inj in H. apply pair_equal_spec in H. destruct H as [H _]. subst pkts.
    constructor; [|constructor]. unfold fits. cbn [p_payload].
    rewrite stap_payload_len. destruct Hok as [Hl|Hl]; [simpl in Hl; lia|exact Hl].
Qed.

Lemma write_batch_max e batch marker pkts e' :
  write_batch e batch marker = Ok (pkts, e') -> e'.(e_max) = e.(e_max) /\ e'.(e_ssrc) = e.(e_ssrc).
Proof.
  assert (HF : forall k avail ind typ start body e0,
             let r := frag_loop k avail ind typ start marker body e0 in
             e_max (snd r) = e_max e0 /\ e_ssrc (snd r) = e_ssrc e0).
  { induction k as [|k IH]; intros; [split; reflexivity|].
    subst r. cbn [frag_loop].
    match goal with |- context [frag_loop k ?a ?b ?c ?d ?m ?bd ?ee] =>
      specialize (IH a b c d bd ee); destruct (frag_loop k a b c d m bd ee) as [r0 e1] end.
    cbn [snd] in *. exact IH. }
  unfold write_batch, write_fragmented. destruct batch as [|n [|n2 r]].
  - intros H; inversion H; subst; split; reflexivity.
  - destruct (blen n <? e_max e).
    + intros H; inversion H; subst; split; reflexivity.
    + destruct (e_max e - 2 <=? 0); [discriminate|]. destruct n as [|b body]; [discriminate|].
      intros H. inversion H as [H1].
      match type of H1 with frag_loop ?k ?a ?b ?c ?d ?m ?bd ?ee = _ =>
        specialize (HF k a b c d bd ee); rewrite H1 in HF end.
      exact HF.
  - intros H; inversion H; subst; split; reflexivity.
Qed.

Lemma enc_loop_fits : forall au e batch pkts e',
  3 <= e.(e_max) -> batch_ok e.(e_max) batch ->
  enc_loop e au batch = Ok (pkts, e') -> Forall (fits e.(e_max)) pkts.
Proof.
  induction au as [|nalu r IH]; intros e batch pkts e' Hmax Hok.
  - cbn [enc_loop]. apply write_batch_fits; assumption.
  - cbn [enc_loop]. destruct (len_agg batch (Some nalu) <=? e_max e) eqn:E.
    + apply IH; [assumption|]. right. rewrite len_agg_snoc. apply Z.leb_le. exact E.
    + destruct batch as [|b0 br].
      * apply IH; [assumption|]. left. simpl. lia.
      * destruct (write_batch e (b0 :: br) false) as [[pk1 e1]|] eqn:E1; [|discriminate].
        destruct (enc_loop e1 r [nalu]) as [[pk2 e2]|] eqn:E2; [|discriminate].
        intros H; inversion H; subst.
        pose proof (write_batch_max _ _ _ _ _ E1) as [Hm _].
        apply Forall_app. split.
        -- eapply write_batch_fits; eassumption.
        -- rewrite <- Hm. eapply IH; [rewrite Hm; assumption| |exact E2]. left. simpl. lia.
Qed.

Theorem h264_encode_size e au pkts e' :
  3 <= e.(e_max) -> h264_encode e au = Ok (pkts, e') ->
  forall p, In p pkts -> blen p.(p_payload) <= e.(e_max).
Proof.
  intros Hmax H p Hin. unfold h264_encode in H.
  pose proof (enc_loop_fits au e [] pkts e' Hmax ltac:(left; simpl; lia) H) as HF.
  rewrite Forall_forall in HF. exact (HF p Hin).
Qed.

(* the encoder does not fail when PayloadMaxSize >= 3 and no NAL unit is empty *)
Lemma write_batch_total e batch marker :
  3 <= e.(e_max) -> ~ In [] batch -> exists r, write_batch e batch marker = Ok r.
Proof.
  intros Hmax Hne. unfold write_batch. destruct batch as [|n [|n2 r]]; try (eexists; reflexivity).
  destruct (blen n <? e_max e); [eexists; reflexivity|].
  unfold write_fragmented. destruct (e_max e - 2 <=? 0) eqn:E; [apply Z.leb_le in E; lia|].
  destruct n; [exfalso; apply Hne; left; reflexivity|eexists; reflexivity].
Qed.

Lemma enc_loop_total : forall au e batch,
  3 <= e.(e_max) -> ~ In [] batch -> ~ In [] au -> exists r, enc_loop e au batch = Ok r.
Proof.
  induction au as [|nalu r IH]; intros e batch Hmax Hb Ha.
  - cbn [enc_loop]. apply write_batch_total; assumption.
  - assert (Hn : nalu <> []) by (intros ->; apply Ha; left; reflexivity).
    assert (Hr : ~ In [] r) by (intros H; apply Ha; right; exact H).
    cbn [enc_loop]. match goal with |- context [if ?c then _ else _] => destruct c end.
    + apply IH; try assumption. intros H. apply in_app_or in H. destruct H as [H|[H|[]]]; [tauto|congruence].
    + destruct batch as [|b0 br].
      * apply IH; try assumption. intros [H|[]]. congruence.
      * destruct (write_batch_total e (b0 :: br) false Hmax Hb) as [[pk1 e1] E1]. rewrite E1.
        pose proof (write_batch_max _ _ _ _ _ E1) as [Hm _].
        destruct (IH e1 [nalu] ltac:(lia) ltac:(intros [H|[]]; congruence) Hr) as [[pk2 e2] E2].
        cbv beta iota. rewrite E2. eexists; reflexivity.
Qed.

Theorem h264_encode_total e au :
  3 <= e.(e_max) -> ~ In [] au -> exists pkts e', h264_encode e au = Ok (pkts, e').
Proof.
  intros Hmax Ha. destruct (enc_loop_total au e [] Hmax ltac:(intros []) Ha) as [[pk e'] H].
  exists pk, e'. exact H.
Qed.
