(* C27 — the log of the segmenter model, read as system calls on one segment file, is the write log of
   Model/C27_Fmp4Rec.v, so the crash theorems apply to every file the segmenter produces.
   Oracles (Section variables): the encoders of mediacommon / go-mp4 (Init.Marshal, Part.Marshal, the mvhd box). *)
From Coq Require Import List ZArith Bool Lia.
Require Import MTX.Lib.IntWrap MTX.Model.C24_MulDiv MTX.Model.C28_SegRead MTX.Proofs.C28_SegRead
  MTX.Model.C27_Fmp4Rec MTX.Proofs.C27_Fmp4Rec MTX.Model.C27_Segmenter MTX.Proofs.C27_Segmenter.
Import ListNotations.
Local Open Scope Z_scope.

Section Link.
  Variable enc_ftyp : Z -> Z -> Z -> bytes.     (* segment number, start dts, start ntp -> ftyp payload *)
  Variable enc_moov : Z -> Z -> Z -> bytes.     (* ... -> moov payload (mvhd duration 0, tracks, mtxi) *)
  Variable enc_part : opart -> part.            (* fmp4.Part.Marshal: moof and mdat payloads *)
  Variable dur_off : Z -> Z -> Z -> Z.          (* offset of the mvhd box in the file *)
  Variable enc_dur : Z -> bytes.                (* the mvhd box with DurationV0 = uint32(d / ms) *)

  (* one log entry as calls on the file *)
  Definition wops_of (f : segfile) (o : sop) : list wop :=
    match o with
    | SCreate n a b => [WWrite (init_bytes (enc_ftyp n a b) (enc_moov n a b))]
    | SPart _ p => [WWrite (part_bytes (enc_part p))]
    | SClose _ d => [WRewrite (dur_off f.(f_num) f.(f_sdts) f.(f_sntp)) (enc_dur d)]
    end.

  Lemma link_write_log f d : f.(f_closed) = Some d ->
    flat_map (wops_of f) (ops_of_file f) =
    write_log (enc_ftyp f.(f_num) f.(f_sdts) f.(f_sntp)) (enc_moov f.(f_num) f.(f_sdts) f.(f_sntp))
              (map enc_part f.(f_parts)) (dur_off f.(f_num) f.(f_sdts) f.(f_sntp)) (enc_dur d).
  Proof.
    intros Hc. unfold ops_of_file, write_log. rewrite Hc. cbn [flat_map wops_of app]. f_equal.
    rewrite flat_map_app. cbn [flat_map wops_of app]. f_equal.
    induction (f_parts f) as [|p r IH]; [reflexivity|]. cbn. now rewrite IH.
  Qed.

  (* closed or not, the appending writes add up to init ++ parts *)
  Lemma link_appended f :
    appended (flat_map (wops_of f) (ops_of_file f)) =
    init_bytes (enc_ftyp f.(f_num) f.(f_sdts) f.(f_sntp)) (enc_moov f.(f_num) f.(f_sdts) f.(f_sntp))
    ++ parts_bytes (map enc_part f.(f_parts)).
  Proof.
    unfold ops_of_file, appended, parts_bytes. cbn [flat_map wops_of app map concat]. f_equal.
    rewrite flat_map_app, map_app, concat_app.
    assert (Hc : concat (map (fun w => match w with WWrite b => b | WRewrite _ _ => [] end)
                   (flat_map (wops_of f) match f_closed f with Some d => [SClose (f_num f) d] | None => [] end)) = []).
    { destruct (f_closed f); reflexivity. }
    rewrite Hc, app_nil_r. induction (f_parts f) as [|p r IH]; [reflexivity|]. cbn. now rewrite IH.
  Qed.

  (* every file of a recorder run (any sample sequence), cut anywhere and zero-filled: the reader recovers *)
  Lemma link_recover c evs f j z :
    In f (files_of (x_log (run c evs))) -> (forall p, wf_part (enc_part p)) ->
    let ft := enc_ftyp f.(f_num) f.(f_sdts) f.(f_sntp) in
    let mv := enc_moov f.(f_num) f.(f_sdts) f.(f_sntp) in
    let ps := map enc_part f.(f_parts) in
    wf_bytes (crash_image ft mv ps j z) = true ->
    appended (flat_map (wops_of f) (ops_of_file f)) = init_bytes ft mv ++ parts_bytes ps /\
    f.(f_closed) <> None /\
    moof_loop (crash_image ft mv ps j z) (fuel_of_file (crash_image ft mv ps j z)) (len (init_bytes ft mv)) (-1)
    = Ok (expect_last ps (len (init_bytes ft mv)) j (-1)).
  Proof.
    intros Hin Hwf ft mv ps Hb. split; [apply link_appended|]. split.
    - destruct (log_ok_raw c (gate c evs)) as [H1 H2]. fold (run c evs) in H1, H2.
      destruct (files_of_ok _ H1) as (_ & _ & H3). apply H3; auto.
    - apply recover_reader; [|exact Hb]. apply Forall_forall. intros p Hp. apply in_map_iff in Hp.
      destruct Hp as (q & <- & _). apply Hwf.
  Qed.
End Link.

(* ---- statements for Props ---- *)
Lemma zseq_nth : forall k n i x, nth_error (zseq n k) i = Some x -> x = n + Z.of_nat i.
Proof.
  induction k as [|k IH]; intros n i x H; [destruct i; discriminate|]. destruct i as [|i]; cbn in H.
  - injection H as <-. lia.
  - apply IH in H. lia.
Qed.
Lemma numbers_consecutive c evs i f :
  nth_error (files_of (x_log (run c evs))) i = Some f -> f.(f_num) = Z.of_nat i.
Proof.
  intros H. destruct (log_ok_raw c (gate c evs)) as [H1 _]. fold (run c evs) in H1.
  destruct (files_of_ok _ H1) as (_ & Hn & _).
  assert (H2 : nth_error (map f_num (files_of (x_log (run c evs)))) i = Some (f_num f)) by (rewrite nth_error_map, H; reflexivity).
  rewrite Hn in H2. apply zseq_nth in H2. lia.
Qed.
Lemma segmenter_log c evs :
  let L := x_log (run c evs) in
  log_ok None 0 L = true /\ log_open None L = None /\ concat (map ops_of_file (files_of L)) = L /\
  (forall f, In f (files_of L) -> f.(f_closed) <> None).
Proof.
  intros L. destruct (log_ok_raw c (gate c evs)) as [H1 H2]. fold (run c evs) in H1, H2. fold L in H1, H2.
  destruct (files_of_ok _ H1) as (Ha & _ & Hc). auto.
Qed.
Lemma no_sample_lost c evs : log_samples (x_log (run c evs)) = x_acc (run c evs).
Proof. apply no_sample_lost_raw. Qed.
Lemma parts_bounded_all c evs : 0 <= c_max_part c -> parts_bounded c None (x_log (run c evs)) = true.
Proof. apply parts_bounded_raw. Qed.
Lemma parts_bounded_each c evs : 0 <= c_max_part c ->
  (forall k p, In (SPart k p) (x_log (run c evs)) -> part_ok c (o_smps p) = true) /\
  (forall l1 k p k' q l2, x_log (run c evs) = l1 ++ SPart k p :: SPart k' q :: l2 -> c_part_dur c <= span (o_smps p)).
Proof.
  intros Hm. pose proof (parts_bounded_all c evs Hm) as H. split.
  - intros k p Hin. eapply pb_in; eauto.
  - intros l1 k p k' q l2 Hl. eapply pb_adjacent; eauto.
Qed.
Lemma parts_bounded_thm c evs : 0 <= c_max_part c ->
  parts_bounded c None (x_log (run c evs)) = true /\
  (forall k p, In (SPart k p) (x_log (run c evs)) -> part_ok c (o_smps p) = true) /\
  (forall l1 k p k' q l2, x_log (run c evs) = l1 ++ SPart k p :: SPart k' q :: l2 -> c_part_dur c <= span (o_smps p)).
Proof. intros H. split; [exact (parts_bounded_all c evs H)|exact (parts_bounded_each c evs H)]. Qed.
Lemma starts_on_sync c v evs : video_tracks c = [v] ->
  forall f, In f (files_of (x_log (run c evs))) -> first_video_sync (file_samples f) = true.
Proof.
  intros Hv. apply files_sync; [|apply (sync_run c v); exact Hv].
  destruct (log_ok_raw c (gate c evs)) as [H1 _]. exact H1.
Qed.
Lemma log_prefix c evs k :
  exists l', x_log (run c evs) = x_log (run_from c (init_st c) (firstn k (gate c evs))) ++ l'.
Proof. apply log_prefix_raw. Qed.

(* ---- examples ---- *)
Definition ex_cfg : cfg :=
  {| c_tracks := [ {| tc_rate := 90000; tc_video := true |}; {| tc_rate := 48000; tc_video := false |} ];
     c_part_dur := 100000000; c_seg_dur := 300000000; c_max_part := 1000000 |}.
(* 25 fps video, key frame every 5 frames; 20 ms audio frames that start 10 ms after the first key frame *)
Definition ex_vs (i : nat) : smp :=
  {| s_dts := 3600 * Z.of_nat i; s_ntp := 40000000 * Z.of_nat i; s_nonsync := negb (Nat.eqb (Nat.modulo i 5) 0);
     s_size := 100 + Z.of_nat i |}.
Definition ex_au (i : nat) : smp :=
  {| s_dts := 480 + 960 * Z.of_nat i; s_ntp := 10000000 + 20000000 * Z.of_nat i; s_nonsync := false; s_size := 10 |}.
Definition ex_evs : list event :=
  flat_map (fun i => [(0%nat, ex_vs i); (1%nat, ex_au (2 * i)); (1%nat, ex_au (2 * i + 1))]) (seq 0 30).
(* the audio track creates the first segment at 10 ms: the key frame at 0 is discarded as late and the four frames
   of its group with it (fix 2f5314e); three files, all closed, all starting on a sync sample *)
Lemma example_segmenter :
  let x := run ex_cfg ex_evs in
  firstn 16 (x_outs x) = [0; 0; 0; 1; 0; 0; 1; 0; 0; 1; 0; 0; 1; 0; 0; 1] /\
  map (fun f => (f_num f, length (f_parts f), f_closed f, has_video (file_samples f))) (files_of (x_log x))
  = [(0, 5%nat, Some 390000000, true); (1, 5%nat, Some 410000000, true); (2, 5%nat, Some 400000000, true)] /\
  video_tracks ex_cfg = [0%nat] /\ length (log_samples (x_log x)) = 83%nat.
Proof. vm_compute. repeat split. Qed.
(* two video tracks: the key frames of the second track cannot be aligned with the switch *)
Definition ex_cfg2 : cfg :=
  {| c_tracks := [ {| tc_rate := 90000; tc_video := true |}; {| tc_rate := 90000; tc_video := true |} ];
     c_part_dur := 100000000; c_seg_dur := 300000000; c_max_part := 1000000 |}.
Definition ex_vs2 (i : nat) : smp :=
  {| s_dts := 3600 * Z.of_nat i; s_ntp := 40000000 * Z.of_nat i; s_nonsync := negb (Nat.eqb i 0); s_size := 100 + Z.of_nat i |}.
Definition ex_evs2 : list event := flat_map (fun i => [(0%nat, ex_vs i); (1%nat, ex_vs2 i)]) (seq 0 20).
Lemma two_video_refuted :
  exists c evs f, length (video_tracks c) = 2%nat /\ In f (files_of (x_log (run c evs))) /\
                  first_video_sync (file_samples f) = false.
Proof.
  exists ex_cfg2, ex_evs2, (nth 1 (files_of (x_log (run ex_cfg2 ex_evs2))) (Build_segfile 0 0 0 [] None)).
  vm_compute. split; [reflexivity|]. split; [|reflexivity]. right. left. reflexivity.
Qed.
