(* Proofs about the finder's format (Model/C26_Finder.v): substituting %path BEFORE Abs/Clean makes the format
   depend on a valid path name only through its non-empty elements (runs of slashes are irrelevant), exactly
   like the name of the file on disk; the other order is refuted in Props/C26.v. *)
From Coq Require Import List ZArith Bool Lia.
Require Import MTX.Model.C26_RecPath MTX.Model.C26_Finder.
Import ListNotations.
Local Open Scope Z_scope.

(* "the last byte seen is a slash", b before the string *)
Fixpoint ls (b : bool) (a : list Z) : bool :=
  match a with [] => b | c :: r => ls (c =? 47) r end.

Lemma sqf_app : forall a b r, sqf b (a ++ r) = sqf b a ++ sqf (ls b a) r.
Proof.
  induction a as [|c a IH]; intros b r; cbn [app sqf ls]; [reflexivity|].
  destruct (c =? 47) eqn:E.
  - destruct b; rewrite IH; reflexivity.
  - rewrite IH; reflexivity.
Qed.

Lemma ls_sqf : forall a b, ls b (sqf b a) = ls b a.
Proof.
  induction a as [|c a IH]; intros b; cbn [sqf ls]; [reflexivity|].
  destruct (c =? 47) eqn:E.
  - destruct b.
    + apply IH.
    + cbn [ls]. replace (47 =? 47) with true by reflexivity. apply IH.
  - cbn [ls]. rewrite E. apply IH.
Qed.

Lemma sqf_idem : forall a b, sqf b (sqf b a) = sqf b a.
Proof.
  induction a as [|c a IH]; intros b; cbn [sqf]; [reflexivity|].
  destruct (c =? 47) eqn:E.
  - destruct b.
    + apply IH.
    + cbn [sqf]. replace (47 =? 47) with true by reflexivity. rewrite IH. reflexivity.
  - cbn [sqf]. rewrite E, IH. reflexivity.
Qed.

Lemma ls_last : forall a b, a <> [] -> ls b a = (last a 0 =? 47).
Proof.
  induction a as [|c a IH]; intros b Hne; [congruence|].
  destruct a as [|d a']; [reflexivity|].
  change (ls b (c :: d :: a')) with (ls (c =? 47) (d :: a')).
  rewrite IH by discriminate. reflexivity.
Qed.

(* the elements do not see runs of slashes *)
Lemma elems_sqf : forall s cur b, (b = true -> cur = []) -> elems_acc cur (sqf b s) = elems_acc cur s.
Proof.
  induction s as [|c r IH]; intros cur b Hb; cbn [sqf elems_acc]; [reflexivity|].
  destruct (c =? 47) eqn:E.
  - destruct b.
    + rewrite (Hb eq_refl). apply IH. reflexivity.
    + cbn [elems_acc]. replace (47 =? 47) with true by reflexivity.
      destruct cur; rewrite IH; auto.
  - cbn [elems_acc]. rewrite E. apply IH. discriminate.
Qed.

Lemma clean_abs_sqf : forall s, clean_abs (sqf false s) = clean_abs s.
Proof. intros s. unfold clean_abs, elems. rewrite elems_sqf; [reflexivity|discriminate]. Qed.

Lemma clean_abs_congr : forall s s', sqf false s = sqf false s' -> clean_abs s = clean_abs s'.
Proof. intros s s' H. rewrite <- (clean_abs_sqf s), <- (clean_abs_sqf s'), H. reflexivity. Qed.

(* what a valid name gives: it starts with a non-slash and ends with a non-slash *)
Definition ends_ok (p : list Z) : Prop :=
  (exists c r, p = c :: r /\ (c =? 47) = false) /\ ls true p = false.

Lemma valid_ends_ok : forall p, path_name_valid p = true -> ends_ok p.
Proof.
  intros p H. unfold path_name_valid in H.
  apply andb_prop in H as [H _]. apply andb_prop in H as [H _]. apply andb_prop in H as [H1 H2].
  destruct p as [|c r]; [discriminate|].
  split.
  - exists c, r. split; [reflexivity|]. now apply negb_true_iff in H1.
  - rewrite ls_last by discriminate. now apply negb_true_iff in H2.
Qed.

Lemma sqf_name_app : forall p b r, ends_ok p -> sqf b (p ++ r) = sqf false p ++ sqf false r.
Proof.
  intros p b r [[c [p' [-> Hc]]] Hl].
  rewrite sqf_app. f_equal.
  - cbn [sqf]. rewrite Hc. reflexivity.
  - f_equal. cbn [ls] in *. rewrite Hc in *. exact Hl.
Qed.

Lemma squeeze_ends_ok : forall p, ends_ok p -> ends_ok (squeeze p).
Proof.
  intros p [[c [p' [-> Hc]]] Hl]. unfold squeeze. split.
  - cbn [sqf]. rewrite Hc. eauto.
  - cbn [sqf ls] in *. rewrite Hc in *. cbn [ls]. rewrite Hc. rewrite ls_sqf. exact Hl.
Qed.

(* ReplaceAll("%path", name) followed by anything, seen through the slash-run collapse *)
Lemma sqf_repl_squeeze : forall pat p, ends_ok p ->
  forall f skip b tail,
    sqf b (repl pat p skip f ++ tail) = sqf b (repl pat (squeeze p) skip f ++ tail).
Proof.
  intros pat p Hp. pose proof (squeeze_ends_ok p Hp) as Hq.
  induction f as [|c r IH]; intros skip b tail; [reflexivity|].
  cbn [repl]. destruct skip as [|k]; [|apply IH].
  destruct (prefixb pat (c :: r)).
  - rewrite <- !app_assoc. rewrite (sqf_name_app p b _ Hp), (sqf_name_app (squeeze p) b _ Hq).
    unfold squeeze at 1. rewrite sqf_idem. fold (squeeze p). rewrite IH. reflexivity.
  - cbn [app sqf]. destruct (c =? 47); [destruct b|]; rewrite IH; reflexivity.
Qed.

Lemma rooted_repl_squeeze : forall cwd p f ext, ends_ok p ->
  sqf false (rooted cwd (subst_path f p ++ ext)) = sqf false (rooted cwd (subst_path f (squeeze p) ++ ext)).
Proof.
  intros cwd p f ext Hp. unfold subst_path.
  assert (Hrel : forall x y, sqf false x = sqf false y ->
                             sqf false (cwd ++ 47 :: x) = sqf false (cwd ++ 47 :: y)).
  { intros x y H. rewrite !sqf_app. f_equal. cbn [sqf]. replace (47 =? 47) with true by reflexivity.
    assert (H2 : forall z, sqf true z = match sqf false z with c :: t => if c =? 47 then t else c :: t | [] => [] end).
    { intros z. destruct z as [|d z]; [reflexivity|]. cbn [sqf]. destruct (d =? 47) eqn:E.
      - replace (47 =? 47) with true by reflexivity. reflexivity.
      - rewrite E. reflexivity. }
    destruct (ls false cwd); rewrite (H2 x), (H2 y), H; reflexivity. }
  pose proof (sqf_repl_squeeze pathpat p Hp f 0%nat false ext) as Hall.
  destruct f as [|c r]; [reflexivity|].
  cbn [repl] in *. destruct (prefixb pathpat (c :: r)) eqn:Epre.
  - (* the format starts with %path: both names start with the same non-slash byte: relative *)
    destruct Hp as [[c0 [p' [-> Hc]]] Hl].
    unfold squeeze in *. cbn [sqf] in *. rewrite Hc in *. cbn [app rooted] in *. rewrite Hc.
    apply Hrel. exact Hall.
  - cbn [app rooted] in *. destruct (c =? 47); [exact Hall|apply Hrel; exact Hall].
Qed.

(* T-A: the finder's format sees a valid path name only through its non-empty elements *)
Theorem finder_format_squeeze : forall cwd f ext p,
  path_name_valid p = true -> finder_format cwd f ext p = finder_format cwd f ext (squeeze p).
Proof.
  intros cwd f ext p Hv. unfold finder_format, abs_path.
  apply clean_abs_congr, rooted_repl_squeeze, valid_ends_ok, Hv.
Qed.

(* hence asking for site//cam1 and asking for site/cam1 return the same segments, whatever is on disk *)
Theorem find_model_squeeze : forall L cwd f ext p files,
  path_name_valid p = true -> find_model L cwd f ext p files = find_model L cwd f ext (squeeze p) files.
Proof. intros. unfold find_model. rewrite (finder_format_squeeze cwd f ext p) by assumption. reflexivity. Qed.

(* the format is clean: Clean is idempotent on what the finder matches against *)
Lemma squeeze_valid_example : path_name_valid [115;105;116;101;47;47;99;97;109;49] = true
  /\ squeeze [115;105;116;101;47;47;99;97;109;49] = [115;105;116;101;47;99;97;109;49].
Proof. split; reflexivity. Qed.

(* the other order (Abs/Clean on the raw format, then the name): the recorder's own file is not recognised *)
Definition w_cwd : list Z := [47;115;114;118].                                  (* /srv *)
Definition w_fmt : list Z :=                                                    (* ./recordings/%path/%Y-%m-%d_%H-%M-%S-%f *)
  [46;47;114;101;99;111;114;100;105;110;103;115;47;37;112;97;116;104;47;37;89;45;37;109;45;37;100;95;37;72;45;37;77;45;37;83;45;37;102].
Definition w_ext : list Z := [46;109;112;52].
Definition w_name : list Z := [115;105;116;101;47;47;99;97;109;49].             (* site//cam1 *)
Definition w_t : instant := mkI 1710006312 250731000 0.

Lemma cleanfirst_refuted :
  path_name_valid w_name = true /\
  decode 0 (finder_format w_cwd w_fmt w_ext w_name) (walked w_cwd w_fmt w_ext w_name w_t) = Some ([], 1710006312, 250731000) /\
  decode 0 (finder_format_cleanfirst w_cwd w_fmt w_ext w_name) (walked w_cwd w_fmt w_ext w_name w_t) = None /\
  decode 0 (finder_format_cleanfirst w_cwd w_fmt w_ext (squeeze w_name)) (walked w_cwd w_fmt w_ext w_name w_t)
    = Some ([], 1710006312, 250731000).
Proof. vm_compute. repeat split. Qed.
