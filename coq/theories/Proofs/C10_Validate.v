(* Proofs for C10, Conf.Validate / Path.validate: validate g = Ok o -> documented_b o, and the meaning
   of documented_b as propositions. *)
From Coq Require Import String.
From Coq Require Import List ZArith Bool Lia ZifyBool Arith.
Require Import MTX.Model.C10_Load MTX.Proofs.C10_Load.
Import ListNotations.
Local Open Scope Z_scope.

(* ---------------------------------------------------------------- sequencing *)
Lemma chk_none c e : chk c e = None <-> c = false.
Proof. unfold chk. destruct c; split; congruence. Qed.

Lemma when_none c x : when c x = None <-> (c = true -> x = None).
Proof. unfold when. destruct c; split; auto; congruence. Qed.

Lemma orelse_none a b : a ;; b = None <-> a = None /\ b = None.
Proof. unfold orelse. destruct a; split; try tauto; try (intros [? ?]; congruence); congruence. Qed.

Ltac peel H H1 := apply orelse_none in H as [H1 H].

Lemma imp_true a b : imp a b = true <-> (a = true -> b = true).
Proof. unfold imp. destruct a, b; simpl; split; auto; intros H; try discriminate (H eq_refl). Qed.

Lemma opt_eqb_opt_or {A} (eqb : A -> A -> bool) (d : option A) (c : A) :
  (forall x, eqb x x = true) -> opt_eqb eqb d (opt_or d c) = true.
Proof. intros Hr. destruct d; simpl; auto. Qed.

Lemma list_eqb_refl l : list_eqb l l = true.
Proof. apply list_eqb_eq. reflexivity. Qed.

Lemma list_eqb_with_refl {A} (eqb : A -> A -> bool) l : (forall x, eqb x x = true) -> list_eqb_with eqb l l = true.
Proof. intros Hr. induction l as [|x r IH]; simpl; auto. rewrite Hr, IH. reflexivity. Qed.

Lemma beqb_refl b : Bool.eqb b b = true.
Proof. destruct b; reflexivity. Qed.

(* ---------------------------------------------------------------- Path.validate *)
Lemma p_source_finish p r : p_source (finish_path p r) = p_source p.
Proof. reflexivity. Qed.

Lemma is_rtsp_source_finish p r : is_rtsp_source (finish_path p r) = is_rtsp_source p.
Proof. reflexivity. Qed.

Lemma tracks_n_finish p r : tracks_n (finish_path p r) = tracks_n p.
Proof. reflexivity. Qed.

Lemma opt_in_merge o h l :
  opt_in (match o with Some v => Some v | None => h end) l = true ->
  opt_in (match o with Some v => Some v | None => h end) l = true /\
  imp (negb (is_none o)) (ostr_eqb (match o with Some v => Some v | None => h end) o) = true.
Proof. intros H. split; [exact H|]. destruct o; simpl; auto. apply list_eqb_refl. Qed.

Lemma rpi_params_documented sec e rtsp :
  rpi_params_err sec e = None -> rpi_documented_params sec (pext_migrate SRpi rtsp e) = true.
Proof.
  unfold rpi_params_err. intros H.
  peel H H1. peel H H2. peel H H3. peel H H4. peel H H5. peel H H6. peel H H7. peel H H8. peel H H9.
  peel H H10. peel H H11. peel H H12. peel H H13. peel H H14. peel H H15. peel H H16. peel H H17.
  apply chk_none in H1, H2, H4, H5, H6, H7, H8, H9, H10, H11, H12, H13, H14, H15, H16, H17, H.
  apply negb_false_iff in H4, H5, H6, H7, H8, H9, H10, H11, H12, H13, H14, H15, H16, H17, H.
  unfold rpi_documented_params.
  change (mjpeg_dims sec (pext_migrate SRpi rtsp e)) with (mjpeg_dims sec e).
  cbn [pext_migrate src_eqb e_w e_h e_codec e_exposure e_awb e_awb_gains e_denoise e_metering e_afmode e_afrange e_afspeed
       e_profile e_level e_hw_profile e_hw_level e_sw_profile e_sw_level e_h264_profile e_h264_level e_jpeg_q e_mjpeg_q].
  destruct (opt_in_merge _ _ _ H12) as [H12a H12b]. destruct (opt_in_merge _ _ _ H13) as [H13a H13b].
  rewrite H1, H2, H4, H5, H6, H7, H8, H9, H10, H11, H12a, H12b, H13a, H13b, H14, H15, H16, H17, H.
  rewrite (opt_eqb_opt_or Z.eqb _ _ Z.eqb_refl). cbn [negb andb].
  rewrite !andb_true_r. apply imp_true. intros Hm. rewrite Hm in H3. simpl in H3.
  peel H3 Hw. apply chk_none in Hw, H3. unfold dim_bad in *. clear - Hw H3.
  apply orb_false_iff in Hw as [Hw1 Hw2]. apply orb_false_iff in H3 as [Hh1 Hh2].
  apply negb_false_iff in Hw2, Hh2. rewrite Hw2, Hh2.
  apply Z.leb_gt in Hw1, Hh1. apply Z.ltb_lt in Hw1, Hh1. rewrite Hw1, Hh1. reflexivity.
Qed.

Definition rpi_facts (all : list pathc) (taken taken' : list Z) (p : pathc) : Prop :=
  match p_source p with
  | SRpi =>
      if p_secondary p
      then (1 <= primaries_with (p_cam p) all)%nat /\ ~ In (p_cam p) taken /\ taken' = p_cam p :: taken
      else (primaries_with (p_cam p) all <= 1)%nat /\ taken' = taken
  | _ => taken' = taken
  end.

Local Opaque record_path_ok.
Lemma validate_path_ok pb all taken p p' taken' :
  validate_path pb all taken p = Ok (p', taken') ->
  p' = finish_path p (name_is_regex (p_name p)) /\
  path_documented_b pb p' = true /\
  rpi_facts all taken taken' p.
Proof.
  unfold validate_path. destruct (path_err pb all taken p) eqn:Hok; [discriminate|].
  intros H; inversion H; subst p' taken'; clear H.
  split; [reflexivity|].
  unfold path_err in Hok.
  set (re := name_is_regex (p_name p)) in *. set (s := p_source p) in *.
  peel Hok H1. peel Hok H2. peel Hok H3. peel Hok H4. peel Hok H5. peel Hok H6. peel Hok H7.
  peel Hok Hf. peel Hok Hfb. peel Hok H15. peel Hok H9. peel Hok H10a. peel Hok H10b. peel Hok H10c.
  peel Hok H11. peel Hok H12. peel Hok H13.
  apply chk_none in H2, H3, H5, H6, H7, H15, H10a, H10b, H10c, H11, H12, H13, Hok.
  split.
  - unfold path_documented_b.
    rewrite !p_source_finish, is_rtsp_source_finish, tracks_n_finish.
    cbn [p_regex p_name p_record_path p_seg p_del p_on_demand p_srt_read p_secondary
         p_srt_pub p_run_init p_run_demand p_aa p_abs_ts p_redirect p_tracks p_x finish_path].
    fold re. fold s.
    repeat (apply andb_true_iff; split).
    + apply beqb_refl.
    + Local Transparent record_path_ok. unfold record_path_ok. Local Opaque record_path_ok.
      clear - H10a H10b H10c. destruct (rec_has_path (p_record_path p)), (rec_has_ts (p_record_path p)), pb,
        (contains (ph 102) (p_record_path p)); simpl in *; congruence.
    + clear - H11. lia.
    + clear - H12. lia.
    + clear - H6. destruct (p_on_demand p), (is_static s), re; simpl in *; congruence.
    + clear - H5. destruct (p_on_demand p), (src_eqb s SPublisher); simpl in *; congruence.
    + clear - H7. unfold srt_len_ok in *. lia.
    + clear - H2 H4. unfold source_err in H4. fold s in H4.
      destruct s as [| | |[]|]; simpl in *; try (apply chk_none in H4); unfold srt_len_ok in *; try lia.
    + clear - H13. destruct (p_run_init p), re; simpl in *; congruence.
    + clear - Hok. destruct (p_run_demand p), (src_eqb s SPublisher); simpl in *; congruence.
    + clear - H9. destruct (p_aa p); simpl in *; [|reflexivity].
      peel H9 Ha. peel H9 Hb. peel H9 Hc. peel H9 Hd. apply chk_none in Ha, Hb, Hc, H9.
      rewrite Ha, Hb, Hc, H9. reflexivity.
    + clear - H4. unfold source_err in H4. fold s in H4. destruct s; simpl in *; congruence.
    + clear - H4. unfold source_err, p_source in *. subst s.
      destruct (list_eqb (p_source_str p) (bytes "publisher")); [reflexivity|].
      destruct (find_static (p_source_str p)) as [k|].
      * rewrite H4. reflexivity.
      * destruct (list_eqb (p_source_str p) (bytes "redirect")); [reflexivity|].
        destruct (list_eqb (p_source_str p) (bytes "rpiCamera")); reflexivity.
    + clear - H3. destruct (p_redirect p), (src_eqb s SRedirect); simpl in *; congruence.
    + clear - H15. apply negb_false_iff in H15. exact H15.
    + clear - H4. apply imp_true. intros Hs. unfold source_err in H4. fold s in H4.
      destruct s; try discriminate. peel H4 Ha. apply chk_none in Ha. apply negb_false_iff in Ha. exact Ha.
    + clear - H4. apply imp_true. intros Hs. unfold source_err in H4. fold s in H4.
      destruct s; try discriminate. peel H4 Ha. apply rpi_params_documented. exact Ha.
    + clear - H9. apply imp_true. intros Ha. rewrite Ha in H9. simpl in H9.
      peel H9 Hx. peel H9 Hy. peel H9 Hz. peel H9 Hd. clear - Hd.
      cbn [pext_migrate e_aa_file]. destruct (e_aa_file (p_x p)).
      * peel Hd He. apply chk_none in He. apply negb_false_iff in He. exact He.
      * apply chk_none in Hd. rewrite Hd. reflexivity.
    + apply imp_true. intros Hs. cbn [pext_migrate e_dis_pub_override e_override_publisher]. rewrite Hs.
      destruct (e_dis_pub_override (p_x p)); [apply beqb_refl|reflexivity].
    + apply imp_true. intros Hs.
      cbn [pext_migrate e_source_protocol e_rtsp_transport e_source_any_port e_rtsp_any_port e_port_range].
      rewrite Hs. rewrite (opt_eqb_opt_or Z.eqb _ _ Z.eqb_refl), (opt_eqb_opt_or Bool.eqb _ _ beqb_refl), !andb_true_r.
      clear - H4 Hs. unfold source_err in H4. unfold p_source, is_rtsp_source in *.
      destruct (list_eqb (p_source_str p) (bytes "publisher")); [discriminate|].
      destruct (find_static (p_source_str p)) as [[]|]; try discriminate.
      cbn [static_err] in H4. peel H4 Ha. apply chk_none in H4. apply negb_false_iff in H4. exact H4.
    + cbn [pext_migrate e_on_ready e_on_available]. apply opt_eqb_opt_or. apply list_eqb_refl.
    + cbn [pext_migrate e_ready_restart e_available_restart]. apply opt_eqb_opt_or. apply beqb_refl.
    + cbn [pext_migrate e_on_not_ready e_on_unavailable]. apply opt_eqb_opt_or. apply list_eqb_refl.
  - clear - H4. unfold rpi_facts, source_err in *. fold s in H4. fold s.
    destruct s as [| | |ok|]; simpl; try reflexivity.
    peel H4 Hpar.
    destruct (p_secondary p); simpl.
    + peel H4 Ha. apply chk_none in Ha, H4.
      apply Nat.eqb_neq in Ha. repeat split; [lia|].
      intros Hin. assert (Ht : existsb (Z.eqb (p_cam p)) taken = true); [|rewrite Ht in H4; discriminate].
      apply existsb_exists. exists (p_cam p). split; [exact Hin|apply Z.eqb_refl].
    + apply chk_none in H4. apply Nat.ltb_ge in H4. split; [exact H4|reflexivity].
Qed.
Local Transparent record_path_ok.

(* ---------------------------------------------------------------- all paths *)
Definition fill (p : pathc) : pathc := finish_path p (name_is_regex (p_name p)).

Lemma is_primary_fill q : is_primary (fill q) = is_primary q.
Proof. reflexivity. Qed.

Lemma primaries_with_fill c ps : primaries_with c (map fill ps) = primaries_with c ps.
Proof.
  unfold primaries_with. induction ps as [|q r IH]; [reflexivity|].
  cbn [map filter]. rewrite is_primary_fill. change (p_cam (fill q)) with (p_cam q).
  destruct (is_primary q && (p_cam q =? c)); cbn [List.length]; rewrite IH; reflexivity.
Qed.

Lemma sec_cams_fill ps : sec_cams (map fill ps) = sec_cams ps.
Proof.
  unfold sec_cams. induction ps as [|q r IH]; [reflexivity|].
  cbn [map filter]. change (is_sec (fill q)) with (is_sec q). change (p_cam (fill q)) with (p_cam q).
  destruct (is_sec q); cbn [map]; rewrite IH; reflexivity.
Qed.

Lemma nodup_b_of_NoDup l : NoDup l -> nodup_b l = true.
Proof.
  induction 1 as [|x r Hx _ IH]; simpl; auto.
  rewrite IH, andb_true_r. apply negb_true_iff.
  destruct (existsb (Z.eqb x) r) eqn:E; auto.
  apply existsb_exists in E as (y & Hy & Hxy). apply Z.eqb_eq in Hxy. subst. contradiction.
Qed.

Lemma nodup_b_NoDup l : nodup_b l = true -> NoDup l.
Proof.
  induction l as [|x r IH]; simpl; intros H; constructor.
  - apply andb_true_iff in H as [H _]. apply negb_true_iff in H. intros Hin.
    assert (existsb (Z.eqb x) r = true); [|congruence].
    apply existsb_exists. exists x. split; [exact Hin|apply Z.eqb_refl].
  - apply IH. apply andb_true_iff in H as [_ H]. exact H.
Qed.

Definition rpi_one (all : list pathc) (p : pathc) : bool :=
  negb (src_eqb (p_source p) SRpi) ||
  if p_secondary p then Nat.leb 1 (primaries_with (p_cam p) all) else Nat.leb (primaries_with (p_cam p) all) 1.

Lemma validate_paths_ok pb all : forall ps taken ps',
  validate_paths pb all taken ps = Ok ps' ->
  ps' = map fill ps /\
  forallb (path_documented_b pb) ps' = true /\
  forallb (rpi_one all) ps = true /\
  (forall c, In c (sec_cams ps) -> ~ In c taken) /\ NoDup (sec_cams ps).
Proof.
  induction ps as [|p r IH]; intros taken ps' H; cbn [validate_paths] in H.
  - inversion H; subst. repeat split; auto; try constructor; try (intros c Hc; inversion Hc).
  - destruct (validate_path pb all taken p) as [[p1 t1]|] eqn:Hp; [|discriminate].
    destruct (validate_paths pb all t1 r) as [r1|] eqn:Hr; [|discriminate].
    inversion H; subst ps'; clear H.
    destruct (validate_path_ok _ _ _ _ _ _ Hp) as (-> & Hdoc & Hrpi).
    destruct (IH _ _ Hr) as (-> & Hdocs & Hones & Hnot & Hnd).
    split; [reflexivity|]. split; [cbn [forallb]; rewrite Hdoc, Hdocs; reflexivity|].
    unfold rpi_facts in Hrpi. unfold sec_cams, is_sec in *. cbn [forallb filter].
    unfold rpi_one at 1.
    destruct (p_source p) as [| | |ok|] eqn:Hs; cbn [src_eqb negb orb andb]; try (subst t1; repeat split; auto; fail).
    destruct (p_secondary p) eqn:Hsec; cbn [map].
    + destruct Hrpi as (Hge & Hnt & ->).
      split; [|split].
      * rewrite Hones, andb_true_r. destruct (primaries_with (p_cam p) all); [lia|reflexivity].
      * intros c [<-|Hc]; [exact Hnt|]. intros Hin. apply (Hnot c Hc). right; exact Hin.
      * constructor; [|exact Hnd]. intros Hin. apply (Hnot _ Hin). left; reflexivity.
    + destruct Hrpi as (Hle & ->).
      split; [|split; auto].
      rewrite Hones, andb_true_r. destruct (primaries_with (p_cam p) all) as [|[|n]]; try reflexivity; lia.
Qed.

(* ---------------------------------------------------------------- global plain-field checks *)
Lemma nonempty_empty s : empty s = false <-> nonempty s = true.
Proof. unfold empty. destruct (nonempty s); simpl; split; congruence. Qed.

Lemma srv_documented on s : (on && empty (s_addr (srv_migrate s))) = false -> srv_documented_b on (srv_migrate s) = true.
Proof.
  intros H. unfold srv_documented_b. cbn [srv_migrate s_addr s_origin s_origins].
  apply andb_true_iff. split.
  - apply imp_true. intros ->. simpl in H. apply nonempty_empty. exact H.
  - destruct (s_origin s); [|reflexivity]. simpl. rewrite list_eqb_refl. reflexivity.
Qed.

Lemma users_err_documented us : users_err us = None -> forallb user_documented us = true.
Proof.
  induction us as [|u r IH]; [reflexivity|]. cbn [users_err forallb]. intros H.
  peel H Hu. rewrite (IH H), andb_true_r. unfold user_err in Hu. peel Hu Ha. apply chk_none in Ha, Hu.
  unfold user_documented. apply nonempty_empty in Ha. rewrite Ha. simpl. apply imp_true. intros Hany.
  rewrite Hany in Hu. simpl in Hu. unfold empty. rewrite Hu. reflexivity.
Qed.

Lemma auth_plain dep a : auth_err dep (auth_migrate dep a) = None -> auth_plain_b (auth_migrate dep a) = true.
Proof.
  unfold auth_err, auth_plain_b. intros H. peel H H0.
  cbn [auth_migrate a_ext_url a_method a_http_addr a_jwks a_claim a_users] in *.
  repeat (apply andb_true_iff; split).
  - destruct (a_ext_url a); [simpl; apply list_eqb_refl|reflexivity].
  - apply imp_true. intros Hm. rewrite Hm in H.
    destruct (match a_ext_url a with Some _ => 1 | None => a_method a end =? 0) eqn:E0; [lia|].
    peel H Ha. apply chk_none in Ha, H. apply nonempty_empty in Ha. apply negb_false_iff in H. rewrite Ha, H. reflexivity.
  - apply imp_true. intros Hm.
    destruct (match a_ext_url a with Some _ => 1 | None => a_method a end =? 0) eqn:E0; [lia|].
    destruct (match a_ext_url a with Some _ => 1 | None => a_method a end =? 1) eqn:E1; [lia|].
    rewrite Hm in H. peel H Ha. peel H Hb. apply chk_none in Ha, Hb, H.
    apply nonempty_empty in Ha, H. apply negb_false_iff in Hb. rewrite Ha, Hb, H. reflexivity.
Qed.

Lemma auth_users_nodep a :
  auth_err false (auth_migrate false a) = None ->
  imp (a_method (auth_migrate false a) =? 0) (forallb user_documented (a_users (auth_migrate false a))) = true.
Proof.
  unfold auth_err. intros H. peel H H0. apply imp_true. intros Hm. rewrite Hm in H.
  apply users_err_documented. exact H.
Qed.

Lemma rtsp_plain a r : rtsp_err a (rtsp_migrate r) = None -> rtsp_plain_b (rtsp_migrate r) = true.
Proof.
  unfold rtsp_err, rtsp_plain_b. intros H.
  cbn [rtsp_migrate r_disable r_on r_protocols r_transports r_encryption_dep r_encryption r_auth_methods_dep
       r_auth_methods r_cert_dep r_cert r_key_dep r_key r_addr r_rtsps_addr r_rtp r_rtcp r_srtp r_srtcp r_mc_range
       r_mc_rtp r_mc_rtcp r_mc_srtp r_mc_srtcp] in *.
  set (on := match r_disable r with Some d => negb d | None => r_on r end) in *.
  set (tr := opt_or (r_protocols r) (r_transports r)) in *.
  set (enc := opt_or (r_encryption_dep r) (r_encryption r)) in *.
  set (am := opt_or (r_auth_methods_dep r) (r_auth_methods r)) in *.
  repeat (apply andb_true_iff; split).
  - subst on. destruct (r_disable r); [apply beqb_refl|reflexivity].
  - apply opt_eqb_opt_or. intros [[x y] z]. unfold t_eqb. simpl. rewrite !beqb_refl. reflexivity.
  - apply opt_eqb_opt_or. apply Z.eqb_refl.
  - apply opt_eqb_opt_or. intros l. apply list_eqb_with_refl. apply Z.eqb_refl.
  - apply opt_eqb_opt_or. apply list_eqb_refl.
  - apply opt_eqb_opt_or. apply list_eqb_refl.
  - apply imp_true. intros Hon. rewrite Hon in H. cbn [when] in H.
    peel H Hp. peel H Hs. peel H Hm. clear H.
    repeat (apply andb_true_iff; split).
    + apply imp_true. intros He. rewrite He in Hp. cbn [when] in Hp. peel Hp Ha. peel Hp Hu.
      apply chk_none in Ha. apply nonempty_empty in Ha. rewrite Ha. cbn [andb].
      apply andb_true_iff; split; apply imp_true; intros Ht.
      * rewrite Ht in Hu. cbn [when] in Hu. peel Hu Hx. apply chk_none in Hx, Hu.
        apply nonempty_empty in Hx, Hu. rewrite Hx, Hu. reflexivity.
      * rewrite Ht in Hp. cbn [when] in Hp. peel Hp Hx. peel Hp Hy. apply chk_none in Hx, Hy, Hp.
        apply nonempty_empty in Hx. rewrite Hx, Hy, Hp. reflexivity.
    + apply imp_true. intros He. rewrite He in Hs. cbn [when] in Hs. peel Hs Ha. peel Hs Hu.
      apply chk_none in Ha. apply nonempty_empty in Ha. rewrite Ha. cbn [andb].
      apply andb_true_iff; split; apply imp_true; intros Ht.
      * rewrite Ht in Hu. cbn [when] in Hu. peel Hu Hx. apply chk_none in Hx, Hu.
        apply nonempty_empty in Hx, Hu. rewrite Hx, Hu. reflexivity.
      * rewrite Ht in Hs. cbn [when] in Hs. peel Hs Hx. peel Hs Hy. apply chk_none in Hx, Hy, Hs.
        apply nonempty_empty in Hx. rewrite Hx, Hy, Hs. reflexivity.
    + apply chk_none in Hm. destruct am; [discriminate|reflexivity].
Qed.

Lemma rtsp_digest a r :
  rtsp_err a r = None ->
  imp (r_on r && has_digest r) ((a_method a =? 0) && negb (existsb user_hashed (a_users a))) = true.
Proof.
  unfold rtsp_err. intros H. apply imp_true. intros Hd. apply andb_true_iff in Hd as [Hon Hd].
  rewrite Hon in H. cbn [when] in H. peel H H1. peel H H2. peel H H3. rewrite Hd in H. cbn [when] in H.
  peel H Ha. apply chk_none in Ha, H. apply negb_false_iff in Ha. rewrite Ha, H. reflexivity.
Qed.

Lemma ice_eqb_refl x : ice_eqb x x = true.
Proof. unfold ice_eqb. rewrite !list_eqb_refl. reflexivity. Qed.

Lemma skipn_app_exact {A} (a b : list A) : skipn (List.length (a ++ b) - List.length b) (a ++ b) = b.
Proof.
  rewrite app_length. replace (List.length a + List.length b - List.length b)%nat with (List.length a + 0)%nat by lia.
  rewrite skipn_app. rewrite Nat.add_0_r, skipn_all. rewrite Nat.sub_diag. reflexivity.
Qed.

Local Opaque srv_documented_b.
Lemma webrtc_documented w : webrtc_err (webrtc_migrate w) = None -> webrtc_documented_b (webrtc_migrate w) = true.
Proof.
  unfold webrtc_err, webrtc_documented_b. intros H.
  cbn [webrtc_migrate w_disable w_on w_srv w_udp_mux w_local_udp w_tcp_mux w_local_tcp w_nat_ips w_hosts w_ice_dep w_ice
       w_from_ifaces] in *.
  set (on := match w_disable w with Some d => negb d | None => w_on w end) in *.
  set (ice := match w_ice_dep w with Some l => w_ice w ++ map ice_convert l | None => w_ice w end) in *.
  set (udp := opt_or (w_udp_mux w) (w_local_udp w)) in *. set (tcp := opt_or (w_tcp_mux w) (w_local_tcp w)) in *.
  set (hosts := opt_or (w_nat_ips w) (w_hosts w)) in *.
  repeat (apply andb_true_iff; split).
  - subst on. destruct (w_disable w); [apply beqb_refl|reflexivity].
  - apply opt_eqb_opt_or. apply list_eqb_refl.
  - apply opt_eqb_opt_or. apply list_eqb_refl.
  - apply opt_eqb_opt_or. intros l. apply list_eqb_with_refl. apply list_eqb_refl.
  - subst ice. destruct (w_ice_dep w) as [l|]; [|reflexivity].
    rewrite <- (map_length ice_convert l) at 1. rewrite skipn_app_exact.
    apply list_eqb_with_refl. apply ice_eqb_refl.
  - apply srv_documented. destruct on; [|reflexivity]. cbn [when] in H. peel H Ha. apply chk_none in Ha. exact Ha.
  - apply imp_true. intros Hon. rewrite Hon in H. cbn [when] in H.
    peel H Ha. peel H Hb. peel H Hc. apply chk_none in Hb, Hc. apply negb_false_iff in Hb. rewrite Hb. cbn [andb].
    apply andb_true_iff; split.
    + unfold empty in Hc. destruct (nonempty udp), (nonempty tcp), ice; simpl in *; congruence.
    + apply imp_true. intros Hl. rewrite Hl in H. cbn [when] in H. apply chk_none in H.
      destruct (w_from_ifaces w), hosts; simpl in *; congruence.
Qed.

Local Transparent srv_documented_b.
Lemma moq_documented m :
  (m_on (moq_migrate m) && empty (m_quic (moq_migrate m))) = false -> moq_documented_b (moq_migrate m) = true.
Proof.
  unfold moq_documented_b. cbn [moq_migrate m_on m_quic m_https2 m_http2 m_https3 m_http3]. intros H.
  rewrite !(opt_eqb_opt_or list_eqb _ _ list_eqb_refl), !andb_true_r.
  apply imp_true. intros Hon. rewrite Hon in H. apply nonempty_empty. exact H.
Qed.

Lemma rec_documented d : rec_documented_b (rec_migrate d) = true.
Proof.
  unfold rec_documented_b. cbn [rec_migrate d_record d_pd_record d_path d_pd_path d_format d_pd_format d_part d_pd_part
    d_seg d_pd_seg d_del d_pd_del].
  rewrite (opt_eqb_opt_or Bool.eqb _ _ beqb_refl), (opt_eqb_opt_or list_eqb _ _ list_eqb_refl),
    !(opt_eqb_opt_or Z.eqb _ _ Z.eqb_refl). reflexivity.
Qed.

(* everything of gext_documented_b that does not depend on the final list of users *)
Definition gext_plain_b (playback : bool) (x : gext) : bool :=
  auth_plain_b (x_auth x) &&
  srv_documented_b (x_api x) (x_api_srv x) && srv_documented_b (x_metrics x) (x_metrics_srv x) &&
  srv_documented_b (x_pprof x) (x_pprof_srv x) && srv_documented_b playback (x_playback_srv x) &&
  rtsp_plain_b (x_rtsp x) &&
  match x_rtmp_disable x with Some d => Bool.eqb (x_rtmp x) (negb d) | None => true end &&
  imp (x_rtmp x) (nonempty (x_rtmp_addr x)) &&
  match x_hls_disable x with Some d => Bool.eqb (x_hls x) (negb d) | None => true end &&
  srv_documented_b (x_hls x) (x_hls_srv x) &&
  webrtc_documented_b (x_webrtc x) && moq_documented_b (x_moq x) && rec_documented_b (x_rec x).

Lemma gext_plain dep pb x :
  gext_err dep pb (gext_migrate dep x) = None ->
  gext_plain_b pb (gext_migrate dep x) = true /\
  auth_err dep (auth_migrate dep (x_auth x)) = None /\
  rtsp_err (auth_migrate dep (x_auth x)) (rtsp_migrate (x_rtsp x)) = None.
Proof.
  unfold gext_err. intros H.
  cbn [gext_migrate x_auth x_api x_api_srv x_metrics x_metrics_srv x_pprof x_pprof_srv x_playback_srv x_rtsp
       x_rtmp_disable x_rtmp x_rtmp_addr x_hls_disable x_hls x_hls_srv x_hls_secret x_hls_secret_ok x_webrtc x_moq x_rec] in H.
  peel H Hauth. peel H Hapi. peel H Hmet. peel H Hpp. peel H Hpb. peel H Hrtsp. peel H Hrtmp. peel H Hhls.
  peel H Hsec. peel H Hw. apply chk_none in Hapi, Hmet, Hpp, Hpb, Hrtmp, Hhls, H.
  split; [|split; assumption].
  unfold gext_plain_b.
  cbn [gext_migrate x_auth x_api x_api_srv x_metrics x_metrics_srv x_pprof x_pprof_srv x_playback_srv x_rtsp
       x_rtmp_disable x_rtmp x_rtmp_addr x_hls_disable x_hls x_hls_srv x_hls_secret x_hls_secret_ok x_webrtc x_moq x_rec].
  rewrite (auth_plain _ _ Hauth), (srv_documented _ _ Hapi), (srv_documented _ _ Hmet), (srv_documented _ _ Hpp),
    (srv_documented _ _ Hpb), (rtsp_plain _ _ Hrtsp), (srv_documented _ _ Hhls), (webrtc_documented _ Hw),
    (moq_documented _ H), rec_documented.
  cbn [andb]. rewrite !andb_true_r.
  repeat (apply andb_true_iff; split).
  - destruct (x_rtmp_disable x); [apply beqb_refl|reflexivity].
  - apply imp_true. intros Hon. rewrite Hon in Hrtmp. apply nonempty_empty. exact Hrtmp.
  - destruct (x_hls_disable x); [apply beqb_refl|reflexivity].
Qed.

Lemma gext_documented_split dep pb ps x :
  gext_documented_b dep pb ps x = true <->
  gext_plain_b pb x = true /\
  imp (a_method (x_auth x) =? 0) (forallb user_documented (a_users (x_auth x))) = true /\
  imp dep (list_eqb_with user_eqb (a_users (x_auth x)) (base_users ++ flat_map path_users ps)) = true /\
  imp (r_on (x_rtsp x) && has_digest (x_rtsp x))
      ((a_method (x_auth x) =? 0) && negb (existsb user_hashed (a_users (x_auth x)))) = true.
Proof.
  unfold gext_documented_b, gext_plain_b, auth_documented_b, rtsp_documented_b.
  rewrite !andb_true_iff. tauto.
Qed.

Lemma gext_plain_set_users pb x us : gext_plain_b pb (set_users x us) = gext_plain_b pb x.
Proof. reflexivity. Qed.

Lemma user_eqb_refl u : user_eqb u u = true.
Proof.
  unfold user_eqb. rewrite !list_eqb_refl, Z.eqb_refl. simpl.
  apply list_eqb_with_refl. intros [a b]. unfold perm_eqb. simpl. rewrite Z.eqb_refl, list_eqb_refl. reflexivity.
Qed.

Lemma cred_or_nonempty o d : nonempty d = true -> nonempty (cred_or o d) = true.
Proof. intros Hd. unfold cred_or. destruct o as [v|]; [|exact Hd]. destruct (nonempty v) eqn:E; [exact E|exact Hd]. Qed.

Lemma generated_users_documented ps :
  existsb any_with_pass (base_users ++ flat_map path_users ps) = false ->
  forallb user_documented (base_users ++ flat_map path_users ps) = true.
Proof.
  intros H. apply forallb_forall. intros u Hu.
  assert (Hne : nonempty (u_user u) = true).
  { apply in_app_or in Hu as [Hu|Hu].
    - simpl in Hu. destruct Hu as [<-|[<-|[]]]; reflexivity.
    - apply in_flat_map in Hu as (p & _ & Hu). simpl in Hu.
      destruct Hu as [<-|[<-|[]]]; cbn [u_user]; apply cred_or_nonempty; reflexivity. }
  unfold user_documented. rewrite Hne. simpl. apply imp_true. intros Hany.
  destruct (nonempty (u_pass u)) eqn:Hp; [|unfold empty; rewrite Hp; reflexivity].
  exfalso. assert (Ht : existsb any_with_pass (base_users ++ flat_map path_users ps) = true); [|congruence].
  apply existsb_exists. exists u. split; [exact Hu|]. unfold any_with_pass. rewrite Hany, Hp. reflexivity.
Qed.

Lemma has_dep_creds_fill l : existsb has_dep_creds (map fill l) = existsb has_dep_creds l.
Proof.
  induction l as [|q r IH]; [reflexivity|]. cbn [map existsb]. rewrite IH.
  change (has_dep_creds (fill q)) with (has_dep_creds q). reflexivity.
Qed.

Lemma alias_fill l : List.length (filter (fun p => is_alias (p_name p)) (map fill l)) =
                     List.length (filter (fun p => is_alias (p_name p)) l).
Proof.
  induction l as [|q r IH]; [reflexivity|]. cbn [map filter]. change (p_name (fill q)) with (p_name q).
  destruct (is_alias (p_name q)); cbn [List.length]; rewrite IH; reflexivity.
Qed.

(* ---------------------------------------------------------------- Conf.Validate *)
Lemma x_auth_migrate dep x : x_auth (gext_migrate dep x) = auth_migrate dep (x_auth x).
Proof. reflexivity. Qed.
Lemma x_rtsp_migrate dep x : x_rtsp (gext_migrate dep x) = rtsp_migrate (x_rtsp x).
Proof. reflexivity. Qed.
Lemma pd_creds_out (dep : bool) x us :
  a_pd_creds (x_auth (if dep then set_users (gext_migrate dep x) us else gext_migrate dep x)) = a_pd_creds (x_auth x).
Proof. destruct dep; reflexivity. Qed.

Local Opaque gext_migrate gext_documented_b base_users.
Theorem validate_documented g o :
  validate g = Ok o ->
  (match g_read_buffer_count g with Some x => x | None => g_wqs g end) < 2 ^ 63 ->
  documented_b o = true.
Proof.
  unfold validate. intros H Hrange.
  set (wqs := match g_read_buffer_count g with Some x => x | None => g_wqs g end) in *.
  set (dep := dep_mode g) in *. set (x := gext_migrate dep (g_x g)) in *.
  match type of H with match ?c with _ => _ end = _ => destruct c eqn:Hc; [discriminate|] end.
  destruct (validate_paths (g_playback g) (g_paths g) [] (g_paths g)) as [ps|] eqn:Hps; [|discriminate].
  set (us := base_users ++ flat_map path_users ps) in *.
  destruct (when dep (dep_users_err x us)) eqn:Hus; [discriminate|].
  inversion H; subst o; clear H.
  peel Hc H1. peel Hc H2. peel Hc H3. peel Hc H4. peel Hc H5. peel Hc H6.
  apply chk_none in H1, H2, H3, H4, H5, Hc.
  destruct (validate_paths_ok _ _ _ _ _ Hps) as (Eps & Hdocs & Hones & _ & Hnd).
  assert (Hdep : dep_mode {| g_read_to := g_read_to g; g_write_to := g_write_to g; g_wqs := wqs;
                             g_read_buffer_count := g_read_buffer_count g; g_udp := g_udp g; g_playback := g_playback g;
                             g_x := if dep then set_users x us else x; g_paths := ps |} = dep).
  { unfold dep_mode at 1. cbn [g_x g_paths]. rewrite Eps, has_dep_creds_fill.
    subst x. rewrite pd_creds_out. reflexivity. }
  unfold documented_b. rewrite Hdep. cbn [g_read_to g_write_to g_wqs g_udp g_paths g_playback g_x].
  repeat (apply andb_true_iff; split).
  - lia.
  - lia.
  - apply land_check_is_pow2; [lia|]. apply negb_false_iff in H4. apply Z.eqb_eq in H4. exact H4.
  - lia.
  - apply Nat.leb_le. apply Nat.ltb_ge in Hc. rewrite Eps, alias_fill. exact Hc.
  - exact Hdocs.
  - rewrite Eps. rewrite forallb_forall in *. intros q Hq. apply in_map_iff in Hq as (q0 & <- & Hq0).
    specialize (Hones q0 Hq0). unfold rpi_one in Hones.
    change (p_source (fill q0)) with (p_source q0). change (p_secondary (fill q0)) with (p_secondary q0).
    change (p_cam (fill q0)) with (p_cam q0). rewrite primaries_with_fill. exact Hones.
  - rewrite Eps, sec_cams_fill. apply nodup_b_of_NoDup. exact Hnd.
  - destruct (gext_plain _ _ _ H6) as (Hplain & Hauth & Hrtsp). fold x in Hplain.
    apply gext_documented_split.
    assert (Ea : x_auth x = auth_migrate dep (x_auth (g_x g))).
    { subst x. apply x_auth_migrate. }
    assert (Er : x_rtsp x = rtsp_migrate (x_rtsp (g_x g))).
    { subst x. apply x_rtsp_migrate. }
    pose proof (rtsp_digest _ _ Hrtsp) as Hdig. rewrite <- Ea, <- Er in Hdig.
    destruct dep.
    + cbn [when] in Hus. unfold dep_users_err in Hus. peel Hus Hany.
      split; [rewrite gext_plain_set_users; exact Hplain|].
      change (x_auth (set_users x us)) with
        {| a_ext_url := a_ext_url (x_auth x); a_method := a_method (x_auth x); a_http_addr := a_http_addr (x_auth x);
           a_pd_creds := a_pd_creds (x_auth x); a_users_custom := a_users_custom (x_auth x); a_users := us;
           a_jwks := a_jwks (x_auth x); a_claim := a_claim (x_auth x) |}.
      change (x_rtsp (set_users x us)) with (x_rtsp x).
      cbn [a_method a_users].
      split; [|split].
      * apply imp_true. intros Hm. rewrite Hm in Hany. cbn [when] in Hany. apply chk_none in Hany.
        apply generated_users_documented. exact Hany.
      * apply imp_true. intros _. apply list_eqb_with_refl. apply user_eqb_refl.
      * apply imp_true. intros Hd. rewrite Hd in Hus. cbn [when] in Hus. apply chk_none in Hus.
        rewrite imp_true in Hdig. specialize (Hdig Hd). apply andb_true_iff in Hdig as [Hm _].
        rewrite Hm, Hus. reflexivity.
    + split; [exact Hplain|]. split; [|split].
      * rewrite Ea. apply auth_users_nodep. exact Hauth.
      * reflexivity.
      * exact Hdig.
Qed.
Local Transparent gext_migrate gext_documented_b base_users.

(* ---------------------------------------------------------------- what documented_b means *)
Definition has (pat s : list Z) : Prop := exists a b, s = a ++ pat ++ b.

Theorem documented_meaning g : documented_b g = true ->
  0 < g_read_to g /\ 0 < g_write_to g /\
  (exists k, 0 <= k /\ g_wqs g = 2 ^ k) /\
  g_udp g <= 1472 /\
  (List.length (filter (fun p => is_alias (p_name p)) (g_paths g)) <= 1)%nat /\
  NoDup (sec_cams (g_paths g)) /\
  forall p, In p (g_paths g) ->
    (p_regex p = true <-> (p_name p = s_all \/ p_name p = s_all_others \/ exists r, p_name p = 126 :: r)) /\
    has ph_path (p_record_path p) /\
    (has (ph 115) (p_record_path p) \/
     (has (ph 89) (p_record_path p) /\ has (ph 109) (p_record_path p) /\ has (ph 100) (p_record_path p) /\
      has (ph 72) (p_record_path p) /\ has (ph 77) (p_record_path p) /\ has (ph 83) (p_record_path p))) /\
    (g_playback g = true -> has (ph 102) (p_record_path p)) /\
    p_seg p <= day_ns /\ (p_del p = 0 \/ p_seg p <= p_del p) /\
    (p_regex p = true -> p_source p <> SPublisher -> p_source p <> SRedirect -> p_on_demand p = true) /\
    (p_on_demand p = true -> p_source p <> SPublisher) /\
    (p_source p = SRpi -> p_secondary p = false -> (primaries_with (p_cam p) (g_paths g) <= 1)%nat) /\
    (p_source p = SRpi -> p_secondary p = true -> (1 <= primaries_with (p_cam p) (g_paths g))%nat) /\
    (forall t, In t (p_tracks p) -> track_ok t = true).
Proof.
  unfold documented_b. intros H.
  apply andb_true_iff in H as [H _].
  apply andb_true_iff in H as [H Hrpi]. apply andb_true_iff in H as [H Hpaths].
  apply andb_true_iff in H as [H Halias]. apply andb_true_iff in H as [H Hudp].
  apply andb_true_iff in H as [H Hpow]. apply andb_true_iff in H as [Hr Hw].
  unfold rpi_documented_b in Hrpi. apply andb_true_iff in Hrpi as [Hone Hnd].
  split; [lia|]. split; [lia|]. split; [eapply is_pow2_fuel_sound; exact Hpow|]. split; [lia|].
  split; [apply Nat.leb_le; exact Halias|]. split; [apply nodup_b_NoDup; exact Hnd|].
  intros p Hp. rewrite forallb_forall in Hpaths, Hone. specialize (Hpaths p Hp). specialize (Hone p Hp).
  clear Hr Hw Hpow Hudp Halias Hnd.
  unfold path_documented_b in Hpaths.
  do 8 (apply andb_true_iff in Hpaths as [Hpaths _]).
  apply andb_true_iff in Hpaths as [Hpaths Ho].
  apply andb_true_iff in Hpaths as [Hpaths Hn]. apply andb_true_iff in Hpaths as [Hpaths Hm].
  apply andb_true_iff in Hpaths as [Hpaths Hl]. apply andb_true_iff in Hpaths as [Hpaths Hk].
  apply andb_true_iff in Hpaths as [Hpaths Hj]. apply andb_true_iff in Hpaths as [Hpaths Hi].
  apply andb_true_iff in Hpaths as [Hpaths Hh]. apply andb_true_iff in Hpaths as [Hpaths Hg].
  apply andb_true_iff in Hpaths as [Hpaths Hf]. apply andb_true_iff in Hpaths as [Hpaths He].
  apply andb_true_iff in Hpaths as [Hpaths Hd]. apply andb_true_iff in Hpaths as [Hpaths Hc].
  apply andb_true_iff in Hpaths as [Ha Hb].
  clear Hn Hm Hl Hk Hj Hi Hh Hg.
  unfold record_path_ok, rec_has_path, rec_has_ts in Hb.
  apply andb_true_iff in Hb as [Hb Hb3]. apply andb_true_iff in Hb as [Hb1 Hb2].
  split.
  { clear - Ha. apply eqb_prop in Ha. rewrite Ha. unfold name_is_regex.
    rewrite !orb_true_iff, !list_eqb_eq. split.
    - intros [[H1|H1]|H1]; auto. destruct (p_name p) as [|c r]; [discriminate|].
      right; right. destruct (Z.eq_dec c 126) as [->|Hne]; [eexists; reflexivity|].
      exfalso. destruct (Z.eqb_spec c 126) as [|Hx]; [contradiction|].
      destruct c as [|c|c]; try discriminate.
      do 8 (destruct c as [c|c|]; try discriminate; try (apply Hne; reflexivity)).
    - intros [H1|[H1|(r & H1)]]; auto. right. rewrite H1. reflexivity. }
  split; [apply contains_spec; exact Hb1|].
  split.
  { clear - Hb2. apply orb_true_iff in Hb2 as [Hx|Hx]; [left; apply contains_spec; exact Hx|]. right.
    apply andb_true_iff in Hx as [Hx H6]. apply andb_true_iff in Hx as [Hx H5].
    apply andb_true_iff in Hx as [Hx H4]. apply andb_true_iff in Hx as [Hx H3].
    apply andb_true_iff in Hx as [H1 H2].
    repeat split; apply contains_spec; assumption. }
  split.
  { clear - Hb3. intros Hpb. rewrite Hpb in Hb3. simpl in Hb3. apply contains_spec; exact Hb3. }
  split; [clear - Hc; lia|]. split; [clear - Hd; lia|].
  split.
  { clear - He. intros Hre Hnp Hnr. rewrite Hre in He.
    destruct (p_source p); simpl in He; try congruence; exact He. }
  split.
  { clear - Hf. intros Hod Hs. rewrite Hod, Hs in Hf. discriminate. }
  clear - Hone Ho.
  split; [|split]; [intros Hs Hsec; rewrite Hs, Hsec in Hone; simpl in Hone ..|].
  - destruct (primaries_with (p_cam p) (g_paths g)) as [|[|n]]; try discriminate; lia.
  - destruct (primaries_with (p_cam p) (g_paths g)) as [|n]; try discriminate; lia.
  - rewrite forallb_forall in Ho. exact Ho.
Qed.

(* ---- the plain-field constraints, in words *)
Definition starts (p s : list Z) : Prop := exists t, s = p ++ t.

Lemma nonempty_true s : nonempty s = true <-> s <> [].
Proof. destruct s; simpl; split; congruence. Qed.

Lemma str_in_In s l : str_in s l = true <-> In s l.
Proof.
  unfold str_in. rewrite existsb_exists. split.
  - intros (y & Hy & E). apply list_eqb_eq in E. subst. exact Hy.
  - intros H. exists s. split; [exact H|apply list_eqb_refl].
Qed.

Lemma http_url_starts s : http_url s = true -> starts (bytes "http://") s \/ starts (bytes "https://") s.
Proof. unfold http_url. intros H. apply orb_true_iff in H as [H|H]; apply prefix_b_spec in H; [left|right]; exact H. Qed.

Lemma forallb_user_documented us :
  forallb user_documented us = true -> forall u, In u us -> u_user u <> [] /\ (u_user u = s_any -> u_pass u = []).
Proof.
  intros H u Hu. rewrite forallb_forall in H. specialize (H u Hu). unfold user_documented in H.
  apply andb_true_iff in H as [H1 H2]. split; [apply nonempty_true; exact H1|].
  intros E. rewrite imp_true in H2. rewrite E, list_eqb_refl in H2. specialize (H2 eq_refl).
  unfold empty in H2. destruct (u_pass u); [reflexivity|discriminate].
Qed.

Ltac zb := match goal with
 | H : (?a =? ?b) = true |- ?a = ?b => apply Z.eqb_eq; exact H
 | H : (?a =? ?b) = true |- ?b = ?a => symmetry; apply Z.eqb_eq; exact H
 | H : negb (?a =? ?b) = true |- ?a <> ?b => apply Z.eqb_neq; apply negb_true_iff; exact H
 | H : (?a <? ?b) = true |- ?a < ?b => apply Z.ltb_lt; exact H
 | H : ?a = ?b |- (?a =? ?b) = true => apply Z.eqb_eq; exact H
 end.
Ltac enc_or He := destruct He as [He|He]; rewrite He; reflexivity.

Ltac imp_hyp pat tac :=
  match goal with H : imp pat _ = true |- _ => let H' := fresh in pose proof H as H'; rewrite imp_true in H'; tac H' end.

Theorem documented_meaning_ext g : documented_b g = true ->
  let x := g_x g in let a := x_auth x in let r := x_rtsp x in let w := x_webrtc x in
  (* authentication *)
  (a_method a = 0 -> forall u, In u (a_users a) -> u_user u <> [] /\ (u_user u = s_any -> u_pass u = [])) /\
  (a_method a = 1 -> a_http_addr a <> [] /\ (starts (bytes "http://") (a_http_addr a) \/ starts (bytes "https://") (a_http_addr a))) /\
  (a_method a = 2 -> a_jwks a <> [] /\ (starts (bytes "http://") (a_jwks a) \/ starts (bytes "https://") (a_jwks a)) /\ a_claim a <> []) /\
  (forall u, a_ext_url a = Some u -> a_method a = 1 /\ a_http_addr a = u) /\
  (* listeners *)
  (x_api x = true -> s_addr (x_api_srv x) <> []) /\
  (x_metrics x = true -> s_addr (x_metrics_srv x) <> []) /\
  (x_pprof x = true -> s_addr (x_pprof_srv x) <> []) /\
  (g_playback g = true -> s_addr (x_playback_srv x) <> []) /\
  (x_rtmp x = true -> x_rtmp_addr x <> []) /\
  (x_hls x = true -> s_addr (x_hls_srv x) <> []) /\
  (w_on w = true -> s_addr (w_srv w) <> []) /\
  (m_on (x_moq x) = true -> m_quic (x_moq x) <> []) /\
  (* RTSP *)
  (r_on r = true ->
     (r_encryption r = 0 \/ r_encryption r = 1 ->
        r_addr r <> [] /\ (t_udp (r_transports r) = true -> r_rtp r <> [] /\ r_rtcp r <> []) /\
        (t_mc (r_transports r) = true -> r_mc_range r <> [] /\ r_mc_rtp r <> 0 /\ r_mc_rtcp r <> 0)) /\
     (r_encryption r = 1 \/ r_encryption r = 2 ->
        r_rtsps_addr r <> [] /\ (t_udp (r_transports r) = true -> r_srtp r <> [] /\ r_srtcp r <> []) /\
        (t_mc (r_transports r) = true -> r_mc_range r <> [] /\ r_mc_srtp r <> 0 /\ r_mc_srtcp r <> 0)) /\
     r_auth_methods r <> [] /\
     (In 1 (r_auth_methods r) -> a_method a = 0 /\ forall u, In u (a_users a) -> user_hashed u = false)) /\
  (* WebRTC *)
  (w_on w = true ->
     (forall s, In s (w_ice w) -> ice_url_ok (fst (fst s)) = true) /\
     (w_local_udp w <> [] \/ w_local_tcp w <> [] \/ w_ice w <> []) /\
     (w_local_udp w <> [] \/ w_local_tcp w <> [] -> w_from_ifaces w = true \/ w_hosts w <> [])) /\
  (* deprecated parameters: the replacement has the value of the deprecated one *)
  (forall d, r_disable r = Some d -> r_on r = negb d) /\
  (forall v, r_encryption_dep r = Some v -> r_encryption r = v) /\
  (forall v, w_udp_mux w = Some v -> w_local_udp w = v) /\
  (forall v, d_path (x_rec x) = Some v -> d_pd_path (x_rec x) = v) /\
  (* paths *)
  forall p, In p (g_paths g) ->
    (p_source p = SRpi ->
       let e := p_x p in
       e_w e <> 0 /\ e_h e <> 0 /\ In (e_exposure e) l_exposure /\ In (e_awb e) l_awb /\ e_awb_gains e = 2 /\
       In (e_denoise e) l_denoise /\ In (e_metering e) l_metering /\ In (e_afmode e) l_afmode /\
       In (e_afrange e) l_afrange /\ In (e_afspeed e) l_afspeed /\ In (e_h264_profile e) l_profile4 /\
       In (e_h264_level e) l_level /\ In (e_codec e) l_codec /\
       (mjpeg_dims (p_secondary p) e = true -> e_w e < 2048 /\ e_w e mod 8 = 0 /\ e_h e < 2048 /\ e_h e mod 8 = 0) /\
       (forall v, e_jpeg_q e = Some v -> e_mjpeg_q e = v)) /\
    (p_source p = SRedirect -> p_redirect p = true) /\
    (p_aa p = true -> if e_aa_file (p_x p) then p_tracks p = [] else p_tracks p <> []) /\
    (forall v, e_on_ready (p_x p) = Some v -> e_on_available (p_x p) = v).
Proof.
  intros H x a r w.
  unfold documented_b in H. apply andb_true_iff in H as [H Hx]. apply andb_true_iff in H as [H _].
  apply andb_true_iff in H as [_ Hpaths].
  unfold gext_documented_b, auth_documented_b, auth_plain_b, srv_documented_b, rtsp_documented_b, rtsp_plain_b,
    webrtc_documented_b, srv_documented_b, moq_documented_b, rec_documented_b in Hx.
  fold x in Hx. fold a in Hx. fold r in Hx. fold w in Hx.
  rewrite !andb_true_iff in Hx. decompose [and] Hx. clear Hx.
  repeat match goal with |- _ /\ _ => split end.
  - intros Hm. imp_hyp (a_method a =? 0) ltac:(fun K => apply forallb_user_documented; apply K; zb).
  - intros Hm. imp_hyp (a_method a =? 1) ltac:(fun K => assert (K' := K ltac:(zb)); apply andb_true_iff in K' as [K1 K2]).
    split; [apply nonempty_true; assumption|apply http_url_starts; assumption].
  - intros Hm. imp_hyp (a_method a =? 2) ltac:(fun K => assert (K' := K ltac:(zb)); apply andb_true_iff in K' as [K1 K3];
      apply andb_true_iff in K1 as [K1 K2]).
    split; [apply nonempty_true; assumption|]. split; [apply http_url_starts; assumption|apply nonempty_true; assumption].
  - intros u Hu. match goal with K : match a_ext_url a with _ => _ end = true |- _ => rewrite Hu in K;
      apply andb_true_iff in K as [K1 K2]; apply list_eqb_eq in K2 end. split; [zb|assumption].
  - intros Hon. imp_hyp (x_api x) ltac:(fun K => apply nonempty_true; apply K; exact Hon).
  - intros Hon. imp_hyp (x_metrics x) ltac:(fun K => apply nonempty_true; apply K; exact Hon).
  - intros Hon. imp_hyp (x_pprof x) ltac:(fun K => apply nonempty_true; apply K; exact Hon).
  - intros Hon. imp_hyp (g_playback g) ltac:(fun K => apply nonempty_true; apply K; exact Hon).
  - intros Hon. imp_hyp (x_rtmp x) ltac:(fun K => apply nonempty_true; apply K; exact Hon).
  - intros Hon. imp_hyp (x_hls x) ltac:(fun K => apply nonempty_true; apply K; exact Hon).
  - intros Hon. match goal with K : imp (w_on w) (nonempty _) = true |- _ => rewrite imp_true in K;
      apply nonempty_true; apply K; exact Hon end.
  - intros Hon. imp_hyp (m_on (x_moq x)) ltac:(fun K => apply nonempty_true; apply K; exact Hon).
  - intros Hon.
    match goal with K : imp (r_on r) _ = true |- _ => rewrite imp_true in K; specialize (K Hon);
      rewrite !andb_true_iff in K; destruct K as [[K1 K2] K3] end.
    match goal with K : imp (r_on r && has_digest r) _ = true |- _ => rename K into K4 end.
    split; [|split; [|split]].
    + intros He. rewrite imp_true in K1. assert (K := K1 ltac:(enc_or He)). rewrite !andb_true_iff in K.
      destruct K as [[Ka Kb] Kc]. split; [apply nonempty_true; exact Ka|]. split; intros Ht.
      * rewrite imp_true in Kb. specialize (Kb Ht). apply andb_true_iff in Kb as [? ?].
        split; apply nonempty_true; assumption.
      * rewrite imp_true in Kc. specialize (Kc Ht). rewrite !andb_true_iff in Kc. destruct Kc as [[? ?] ?].
        split; [apply nonempty_true; assumption|split; zb].
    + intros He. rewrite imp_true in K2. assert (K := K2 ltac:(enc_or He)). rewrite !andb_true_iff in K.
      destruct K as [[Ka Kb] Kc]. split; [apply nonempty_true; exact Ka|]. split; intros Ht.
      * rewrite imp_true in Kb. specialize (Kb Ht). apply andb_true_iff in Kb as [? ?].
        split; apply nonempty_true; assumption.
      * rewrite imp_true in Kc. specialize (Kc Ht). rewrite !andb_true_iff in Kc. destruct Kc as [[? ?] ?].
        split; [apply nonempty_true; assumption|split; zb].
    + destruct (r_auth_methods r); [discriminate|discriminate].
    + intros Hd. rewrite imp_true in K4. rewrite Hon in K4. unfold has_digest in K4.
      assert (Hex : existsb (Z.eqb 1) (r_auth_methods r) = true).
      { apply existsb_exists. exists 1. split; [exact Hd|reflexivity]. }
      rewrite Hex in K4. specialize (K4 eq_refl). apply andb_true_iff in K4 as [Km Kh].
      split; [zb|]. intros u Hu. apply negb_true_iff in Kh.
      destruct (user_hashed u) eqn:E; [|reflexivity].
      assert (Hc' : existsb user_hashed (a_users a) = true); [|rewrite Hc' in Kh; discriminate].
      apply existsb_exists. exists u. split; assumption.
  - intros Hon.
    match goal with K : imp (w_on w) (forallb _ _ && _ && _) = true |- _ => rewrite imp_true in K; specialize (K Hon);
      rewrite !andb_true_iff in K; destruct K as [[K1 K2] K3] end.
    split; [|split].
    + intros s Hs. rewrite forallb_forall in K1. apply K1. exact Hs.
    + rewrite !orb_true_iff in K2. destruct K2 as [[K|K]|K]; [left|right; left|right; right]; try (apply nonempty_true; exact K).
      destruct (w_ice w); [discriminate|discriminate].
    + intros Hl. rewrite imp_true in K3. rewrite orb_true_iff in K3.
      assert (K : w_from_ifaces w || match w_hosts w with [] => false | _ => true end = true).
      { apply K3. destruct Hl as [Hl|Hl]; apply nonempty_true in Hl; [left|right]; exact Hl. }
      apply orb_true_iff in K as [K|K]; [left; exact K|right]. destruct (w_hosts w); [discriminate|discriminate].
  - intros d Hd. match goal with K : match r_disable r with _ => _ end = true |- _ => rewrite Hd in K; apply eqb_prop in K; exact K end.
  - intros v Hv. match goal with K : opt_eqb Z.eqb (r_encryption_dep r) _ = true |- _ => rewrite Hv in K; simpl in K end. zb.
  - intros v Hv. match goal with K : opt_eqb list_eqb (w_udp_mux w) _ = true |- _ => rewrite Hv in K; simpl in K;
      apply list_eqb_eq in K; symmetry; exact K end.
  - intros v Hv. match goal with K : opt_eqb list_eqb (d_path (x_rec x)) _ = true |- _ => rewrite Hv in K; simpl in K;
      apply list_eqb_eq in K; symmetry; exact K end.
  - intros p Hp. rewrite forallb_forall in Hpaths. specialize (Hpaths p Hp). clear - Hpaths.
    unfold path_documented_b in Hpaths. rewrite !andb_true_iff in Hpaths. decompose [and] Hpaths. clear Hpaths.
    split; [|split; [|split]].
    + intros Hs e.
      match goal with K : imp (src_eqb (p_source p) SRpi) _ = true |- _ => rewrite imp_true in K; rewrite Hs in K;
        specialize (K eq_refl); unfold rpi_documented_params in K; fold e in K; rewrite !andb_true_iff in K;
        decompose [and] K; clear K end.
      repeat match goal with |- _ /\ _ => split end; try (apply str_in_In; assumption); try zb.
      * intros Hm. match goal with K : imp (mjpeg_dims _ _) _ = true |- _ => rewrite imp_true in K; specialize (K Hm);
          rewrite !andb_true_iff in K; decompose [and] K end. repeat split; try zb.
      * intros v Hv. match goal with K : opt_eqb Z.eqb (e_jpeg_q e) _ = true |- _ => rewrite Hv in K; simpl in K end. zb.
    + intros Hs. match goal with K : imp (src_eqb (p_source p) SRedirect) _ = true |- _ => rewrite imp_true in K;
        rewrite Hs in K; exact (K eq_refl) end.
    + intros Ha. match goal with K : imp (p_aa p) _ = true |- _ => rewrite imp_true in K; specialize (K Ha);
        clear - K; unfold tracks_n in K; destruct (e_aa_file (p_x p)), (p_tracks p); simpl in *; try congruence; try lia end.
    + intros v Hv. match goal with K : opt_eqb list_eqb (e_on_ready (p_x p)) _ = true |- _ => rewrite Hv in K; simpl in K;
        apply list_eqb_eq in K; symmetry; exact K end.
Qed.
