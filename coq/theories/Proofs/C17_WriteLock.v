(* Proofs for Model/C17_WriteLock.v: with the code's order (RLock, then the currency comparison) every schedule of the
   split WriteUnit calls is a schedule of the coarse LTS in which each call is ONE Write label, placed where the call
   finishes; with the comparison made before the lock, a stale unit can reach a reader. *)
From Coq Require Import List ZArith Bool Arith Lia.
Require Import MTX.Model.C17_StreamSM MTX.Model.C17_WriteLock MTX.Proofs.C17_StreamSM.
Import ListNotations.

(* what is known about a call in progress: its format exists; once it has compared, it holds the read lock and the
   outcome of the comparison is still what a comparison made now would give *)
Definition call_ok (s : state) (c : wcall) : Prop :=
  memK (w_k c) (s_formats s) = true /\
  match w_pass c with
  | Some b => w_locked c = true /\ b = opt_eqb (s_cur s) (w_ss c)
  | None => True
  end.

Definition winv (s : state) (ws : calls) : Prop := Forall (fun e => call_ok s (snd e)) ws.

Lemma find_call_In w ws c : find_call w ws = Some c -> In (w, c) ws.
Proof.
  induction ws as [|[w' c'] t IH]; simpl; [discriminate|].
  destruct (Z.eqb_spec w' w) as [->|_]; [intros H; inversion H; left; reflexivity|auto].
Qed.

Lemma winv_find s ws w c : winv s ws -> find_call w ws = Some c -> call_ok s c.
Proof.
  intros Hw Hf. unfold winv in Hw. rewrite Forall_forall in Hw. apply (Hw (w, c)), find_call_In, Hf.
Qed.

Lemma winv_set s ws w c : winv s ws -> call_ok s c -> winv s (set_call w c ws).
Proof.
  intros Hw Hc. unfold winv, set_call. rewrite Forall_map. eapply Forall_impl; [|exact Hw].
  intros e He. destruct (fst e =? w)%Z; [exact Hc|exact He].
Qed.

Lemma winv_del s ws w : winv s ws -> winv s (del_call w ws).
Proof.
  intros Hw. unfold winv, del_call in *. rewrite Forall_forall in *. intros e He. apply filter_In in He. apply Hw, He.
Qed.

Lemma winv_state s s' ws :
  s_formats s' = s_formats s -> s_cur s' = s_cur s -> winv s ws -> winv s' ws.
Proof.
  intros Hf Hc Hw. unfold winv in *. eapply Forall_impl; [|exact Hw]. intros e [H1 H2].
  split; [rewrite Hf; exact H1|rewrite Hc; exact H2].
Qed.

Lemma none_locked s ws s' :
  any_locked ws = false -> s_formats s' = s_formats s -> winv s ws -> winv s' ws.
Proof.
  intros Hn Hf Hw. unfold winv, any_locked in *. rewrite Forall_forall in *. intros e He.
  destruct (Hw e He) as [H1 H2]. split; [rewrite Hf; exact H1|].
  destruct (w_pass (snd e)) as [b|]; [|exact I]. destruct H2 as [Hl _]. exfalso.
  assert (Hx : existsb (fun e => w_locked (snd e)) ws = true) by (apply existsb_exists; exists e; auto).
  congruence.
Qed.

Lemma step_cur s l s' : step s l = Some s' -> (forall ss, l <> NewSub ss) -> s_cur s' = s_cur s.
Proof.
  intros Hst Hl. destruct l as [ss f u|r|r ok|r m0 f0|r|r|r|r|ss]; simpl in Hst.
  - destruct (memK f (s_formats s)); simpl in Hst; [|discriminate].
    destruct (opt_eqb (s_cur s) ss); inversion Hst; reflexivity.
  - destruct (s_readers s r) as [rd|]; [|discriminate]. destruct (r_go rd); try discriminate.
    destruct (rb_pull (r_buf rd)); try discriminate; inversion Hst; reflexivity.
  - destruct (s_readers s r) as [rd|]; [|discriminate]. destruct (r_go rd); try discriminate.
    inversion Hst; reflexivity.
  - destruct (s_readers s r) as [rd|]; [discriminate|]. inversion Hst; reflexivity.
  - destruct (s_readers s r) as [rd|]; [discriminate|].
    destruct (forallb (fun f => memK f (s_formats s)) (keys_of (s_prep s r))); [|discriminate].
    inversion Hst; reflexivity.
  - destruct (s_readers s r) as [rd|]; [|discriminate]. destruct (r_phase rd); try discriminate.
    inversion Hst; reflexivity.
  - destruct (s_readers s r) as [rd|]; [|discriminate]. destruct (r_phase rd); try discriminate.
    inversion Hst; reflexivity.
  - destruct (s_readers s r) as [rd|]; [|discriminate]. destruct (r_phase rd); try discriminate.
    destruct (r_go rd); try discriminate. inversion Hst; reflexivity.
  - exfalso. apply (Hl ss). reflexivity.
Qed.

(* one micro step of the code's order = the coarse labels it emits, and the knowledge about the calls is kept *)
Lemma micro_step_sound s ws l s1 ws1 tr :
  winv s ws -> micro_step LockThenCheck s ws l = Some (s1, ws1, tr) -> run s tr = Some s1 /\ winv s1 ws1.
Proof.
  intros Hw Hst. destruct l as [w ss k u|w|w|w|l]; simpl in Hst.
  - destruct (find_call w ws); [discriminate|]. destruct (memK k (s_formats s)) eqn:Ek; [|discriminate].
    inversion Hst; subst; clear Hst. split; [reflexivity|]. constructor; [|exact Hw]. split; [exact Ek|exact I].
  - destruct (find_call w ws) as [c|] eqn:Ef; [|discriminate]. destruct (w_locked c) eqn:El; [discriminate|].
    inversion Hst; subst; clear Hst. split; [reflexivity|]. apply winv_set; [exact Hw|].
    destruct (winv_find _ _ _ _ Hw Ef) as [H1 H2]. split; [exact H1|]. simpl.
    destruct (w_pass c); [|exact I]. destruct H2 as [H2 _]. congruence.
  - destruct (find_call w ws) as [c|] eqn:Ef; [|discriminate]. destruct (w_pass c) eqn:Ep; [discriminate|].
    destruct (w_locked c) eqn:El; simpl in Hst; [|discriminate].
    inversion Hst; subst; clear Hst. split; [reflexivity|]. apply winv_set; [exact Hw|].
    destruct (winv_find _ _ _ _ Hw Ef) as [H1 _]. split; [exact H1|]. simpl. split; reflexivity.
  - destruct (find_call w ws) as [c|] eqn:Ef; [|discriminate].
    destruct (winv_find _ _ _ _ Hw Ef) as [H1 H2].
    destruct (w_pass c) as [[|]|] eqn:Ep; [| |discriminate].
    + destruct (w_locked c); [|discriminate]. inversion Hst; subst; clear Hst. destruct H2 as [_ H2]. split.
      * simpl. rewrite H1, <- H2. reflexivity.
      * apply winv_del. eapply winv_state; [| |exact Hw]; reflexivity.
    + inversion Hst; subst; clear Hst. destruct H2 as [_ H2]. split.
      * simpl. rewrite H1, <- H2. reflexivity.
      * apply winv_del, Hw.
  - destruct (is_write_label l) eqn:Ew; [discriminate|].
    destruct (needs_lock l && any_locked ws) eqn:En; [discriminate|].
    destruct (step s l) as [s'|] eqn:Es; [|discriminate]. inversion Hst; subst; clear Hst.
    split; [simpl; rewrite Es; reflexivity|].
    destruct (step_qsize _ _ _ Es) as [_ Hf].
    destruct l as [ss f u|r|r ok|r m0 f0|r|r|r|r|ss];
      try (eapply winv_state; [exact Hf|apply (step_cur _ _ _ Es); intros ss0; discriminate|exact Hw]).
    simpl in En. eapply none_locked; [exact En|exact Hf|exact Hw].
Qed.

Theorem write_call_atomic ls : forall s ws s' ws' tr,
  winv s ws -> micro_run LockThenCheck s ws ls = Some (s', ws', tr) -> run s tr = Some s' /\ winv s' ws'.
Proof.
  induction ls as [|l t IH]; intros s ws s' ws' tr Hw Hrun; simpl in Hrun.
  - inversion Hrun; subst. split; [reflexivity|exact Hw].
  - destruct (micro_step LockThenCheck s ws l) as [[[s1 ws1] tr1]|] eqn:E1; [|discriminate].
    destruct (micro_run LockThenCheck s1 ws1 t) as [[[s2 ws2] tr2]|] eqn:E2; [|discriminate].
    inversion Hrun; subst; clear Hrun.
    destruct (micro_step_sound _ _ _ _ _ _ Hw E1) as [Hr1 Hw1].
    destruct (IH _ _ _ _ _ Hw1 E2) as [Hr2 Hw2]. split; [|exact Hw2].
    eapply run_app; eassumption.
Qed.

(* from the initial state: the emitted labels are an executable history of the coarse LTS ending in the same state,
   so every theorem about histories applies to the fine-grained schedules of the code's order *)
Theorem lock_then_check_refines fmts n ls s ws tr :
  micro_run LockThenCheck (init fmts n) [] ls = Some (s, ws, tr) -> run (init fmts n) tr = Some s.
Proof. intros H. apply (write_call_atomic ls _ [] _ _ _ (Forall_nil _) H). Qed.

Theorem lock_then_check_order fmts n ls s ws tr r rd :
  0 < n -> micro_run LockThenCheck (init fmts n) [] ls = Some (s, ws, tr) -> s_readers s r = Some rd ->
  exists q, ring_holds (r_buf rd) q /\ subseq (r_delivered rd ++ inflight rd ++ q) (offered r tr).
Proof.
  intros Hn H Hrd. apply (order_queue fmts n tr s r rd Hn (lock_then_check_refines _ _ _ _ _ _ H) Hrd).
Qed.

(* the forced schedule of the driver, in the code's order: the call of the replaced publisher gets the lock only
   after the switch, compares, and returns; the reader has nothing *)
Definition race_fmts : list fkey := [(0, 0)]%Z.
Definition race_prefix : list mlabel :=
  [ MOther (NewSub 1); MOther (OnData 1 0 0); MOther (AddReader 1) ]%Z.
Definition race_good : list mlabel :=
  race_prefix ++ [ MStart 7 1 (0, 0) 50; MOther (NewSub 2); MLock 7; MCheck 7; MFinish 7 ]%Z.
(* the comparison first: it is made while publisher 1 is still the current one, the lock is obtained after the switch *)
Definition race_bad : list mlabel :=
  race_prefix ++ [ MStart 7 1 (0, 0) 50; MCheck 7; MOther (NewSub 2); MLock 7; MFinish 7 ]%Z.

Lemma race_good_run :
  match micro_run LockThenCheck (init race_fmts 2) [] race_good with
  | Some (s, ws, tr) =>
      tr = [NewSub 1; OnData 1 0 0; AddReader 1; NewSub 2; Write 1 (0, 0) 50]%Z /\ ws = [] /\
      offered 1%Z tr = [] /\
      match s_readers s 1%Z with Some rd => occupancy (r_buf rd) = 0 | None => False end
  | None => False
  end.
Proof. vm_compute. repeat split; reflexivity. Qed.

(* the same schedule is not even executable in the code's order when the comparison is attempted before the lock *)
Lemma race_bad_not_in_code_order : micro_run LockThenCheck (init race_fmts 2) [] race_bad = None.
Proof. vm_compute. reflexivity. Qed.

Theorem check_then_lock_refuted :
  exists ls s ws tr rd,
    micro_run CheckThenLock (init race_fmts 2) [] ls = Some (s, ws, tr) /\
    s_readers s 1%Z = Some rd /\
    offered 1%Z tr = [] /\                                     (* nothing was written for reader 1 by a current publisher *)
    slot (r_buf rd) 0 = Some ((0, 0), 50)%Z /\                  (* yet the replaced publisher's unit is in its queue *)
    run (init race_fmts 2) tr <> Some s.
Proof.
  destruct (micro_run CheckThenLock (init race_fmts 2) [] race_bad) as [[[s ws] tr]|] eqn:E;
    [|vm_compute in E; discriminate].
  destruct (s_readers s 1%Z) as [rd|] eqn:Erd.
  - exists race_bad, s, ws, tr, rd. split; [exact E|]. split; [exact Erd|].
    vm_compute in E. inversion E; subst; clear E. vm_compute in Erd. inversion Erd; subst; clear Erd.
    split; [vm_compute; reflexivity|]. split; [vm_compute; reflexivity|].
    intros H. vm_compute in H. inversion H as [H1]. 
    apply (f_equal (fun f => match f 1%Z with Some rd => occupancy (r_buf rd) | None => 7 end)) in H1.
    vm_compute in H1. discriminate.
  - vm_compute in E. inversion E; subst. vm_compute in Erd. discriminate.
Qed.
