(* Proofs about Model/C21_ExtCmd.v *)
From Coq Require Import List ZArith Lia Bool ZifyBool.
Require Import MTX.Model.C21_ExtCmd.
Import ListNotations.
Local Open Scope Z_scope.

(* ---------------- small facts ---------------- *)

Lemma bytes_eqb_eq a : forall b, bytes_eqb a b = true <-> a = b.
Proof.
  induction a as [|x a IH]; intros [|y b]; simpl; split; intros H; try reflexivity; try discriminate.
  - apply andb_true_iff in H. destruct H as [H1 H2]. apply Z.eqb_eq in H1. apply IH in H2. congruence.
  - inversion H; subst. apply andb_true_iff. split; [apply Z.eqb_refl | now apply IH].
Qed.

Lemma bytes_eqb_refl a : bytes_eqb a a = true.
Proof. now apply bytes_eqb_eq. Qed.

Lemma bytes_eqb_neq a b : a <> b -> bytes_eqb a b = false.
Proof. intros H. destruct (bytes_eqb a b) eqn:E; [apply bytes_eqb_eq in E; contradiction | reflexivity]. Qed.

Lemma memb_in k l : memb k l = true <-> In k l.
Proof.
  induction l as [|x l IH]; simpl; [split; [discriminate | intros []]|].
  rewrite orb_true_iff, IH, bytes_eqb_eq. split; intros [H|H]; auto.
Qed.

(* ---------------- word splitting is a function of the template alone ---------------- *)

Lemma argv_words t env base av :
  argv t env base = inr av ->
  exists ws, shell_split t = inr ws /\ av = map (os_expand (lookup env base)) ws.
Proof.
  unfold argv. destruct (shell_split t) as [e|ws]; [discriminate|].
  intros H; inversion H; subst. exists ws. split; reflexivity.
Qed.

Lemma argv_length t env base av ws :
  argv t env base = inr av -> shell_split t = inr ws -> length av = length ws.
Proof.
  intros H Hs. apply argv_words in H. destruct H as (ws' & Hs' & ->).
  rewrite Hs in Hs'. inversion Hs'; subst. apply map_length.
Qed.

Lemma argv_nth t env base av ws i :
  argv t env base = inr av -> shell_split t = inr ws -> (i < length ws)%nat ->
  nth i av [] = os_expand (lookup env base) (nth i ws []).
Proof.
  intros H Hs Hi. apply argv_words in H. destruct H as (ws' & Hs' & ->).
  rewrite Hs in Hs'. inversion Hs'; subst ws'.
  rewrite (nth_indep _ [] (os_expand (lookup env base) [])) by (rewrite map_length; exact Hi).
  apply map_nth.
Qed.

Lemma argv_same_shape t env1 base1 env2 base2 :
  match argv t env1 base1, argv t env2 base2 with
  | inl e1, inl e2 => e1 = e2
  | inr a1, inr a2 => length a1 = length a2
  | _, _ => False
  end.
Proof.
  unfold argv. destruct (shell_split t) as [e|ws]; [reflexivity|]. now rewrite !map_length.
Qed.

(* ---------------- os.Expand: the result is the template's pieces rendered, values never rescanned ------- *)

Lemma expand_parse m : forall s k, expand m k s = concat (map (render m) (parse k s)).
Proof.
  induction s as [|c r IH]; intros k; [reflexivity|].
  simpl. destruct k as [|k]; [|apply IH].
  destruct ((c =? 36) && negb (is_nil r)) eqn:E.
  - unfold dollar_pieces. destruct (get_shell_name r) as [name w].
    rewrite map_app, concat_app, <- IH. f_equal.
    destruct name as [|n0 nr]; [destruct (0 <? w)%nat; reflexivity|]. simpl. now rewrite app_nil_r.
  - simpl. now rewrite IH.
Qed.

Lemma os_expand_pieces m s : os_expand m s = concat (map (render m) (parse 0 s)).
Proof. apply expand_parse. Qed.

Lemma expand_skip m u : forall s, expand m (length u) (u ++ s) = expand m 0 s.
Proof. induction u as [|c u IH]; intros s; [reflexivity|]. simpl. apply IH. Qed.

Definition dollar_free (s : bytes) : Prop := Forall (fun c => c <> 36) s.

Lemma expand_dollar_free m pre : dollar_free pre -> forall s, expand m 0 (pre ++ s) = pre ++ expand m 0 s.
Proof.
  induction pre as [|c pre IH]; intros Hf s; [reflexivity|].
  inversion Hf as [|? ? Hc Hr]; subst. simpl.
  assert (c =? 36 = false) as -> by lia. simpl. now rewrite IH.
Qed.

(* a name as the server uses them: letters, digits, underscore, not starting with a digit *)
Definition valid_name (n : bytes) : Prop :=
  match n with
  | [] => False
  | c :: _ => is_digit c = false /\ Forall (fun x => is_alnum x = true) n
  end.

Definition not_alnum_start (s : bytes) : Prop :=
  match s with [] => True | c :: _ => is_alnum c = false end.

Lemma take_while_all p n post :
  Forall (fun x => p x = true) n -> match post with [] => True | c :: _ => p c = false end ->
  take_while p (n ++ post) = n.
Proof.
  induction n as [|x n IH]; intros Hn Hp; simpl.
  - destruct post as [|c post]; [reflexivity|]. simpl. now rewrite Hp.
  - inversion Hn; subst. rewrite H1. f_equal. now apply IH.
Qed.

Lemma alnum_not_special c : is_alnum c = true -> is_digit c = false -> is_special_var c = false /\ c =? 123 = false.
Proof. unfold is_alnum, is_special_var, is_digit. intros H1 H2. lia. Qed.

Lemma get_shell_name_plain n post :
  valid_name n -> not_alnum_start post -> get_shell_name (n ++ post) = (n, length n).
Proof.
  intros Hn Hp. destruct n as [|c n']; [destruct Hn|]. destruct Hn as [Hd Ha].
  assert (is_alnum c = true) as Hc by (inversion Ha; assumption).
  destruct (alnum_not_special c Hc Hd) as [Hs Hb].
  change ((c :: n') ++ post) with (c :: (n' ++ post)). unfold get_shell_name.
  rewrite Hb, Hs.
  change (c :: n' ++ post) with ((c :: n') ++ post).
  rewrite (take_while_all is_alnum (c :: n') post Ha Hp). reflexivity.
Qed.

Lemma expand_dollar_step m r name w :
  r <> [] -> get_shell_name r = (name, w) -> name <> [] ->
  expand m 0 (36 :: r) = m name ++ expand m w r.
Proof.
  intros Hr Hg Hn. destruct r as [|z r]; [congruence|].
  remember (z :: r) as zr eqn:Ezr.
  assert (expand m 0 (36 :: zr) =
          (let '(name, w) := get_shell_name zr in
           match name with [] => if (0 <? w)%nat then [] else [36] | _ => m name end ++ expand m w zr)) as ->.
  { subst zr. reflexivity. }
  rewrite Hg. destruct name; [congruence | reflexivity].
Qed.

Lemma expand_var_in_context m pre n post :
  dollar_free pre -> valid_name n -> not_alnum_start post ->
  os_expand m (pre ++ 36 :: n ++ post) = pre ++ m n ++ os_expand m post.
Proof.
  intros Hpre Hn Hpost. unfold os_expand. rewrite expand_dollar_free by exact Hpre. f_equal.
  assert (n <> []) as Hne by (destruct n; [destruct Hn | discriminate]).
  rewrite (expand_dollar_step m (n ++ post) n (length n)).
  - f_equal. apply expand_skip.
  - destruct n; [congruence | discriminate].
  - now apply get_shell_name_plain.
  - exact Hne.
Qed.

Lemma expand_whole_var m n : valid_name n -> os_expand m (36 :: n) = m n.
Proof.
  intros Hn. pose proof (expand_var_in_context m [] n [] (Forall_nil _) Hn I) as H.
  simpl in H. rewrite app_nil_r in H. rewrite H. unfold os_expand. simpl. apply app_nil_r.
Qed.

(* braces: any non-empty name without a closing brace *)
Lemma index_of_app_first c n post : Forall (fun x => x <> c) n -> index_of c (n ++ c :: post) = Some (length n).
Proof.
  induction n as [|x n IH]; intros Hn; simpl; [now rewrite Z.eqb_refl|].
  inversion Hn; subst. assert (x =? c = false) as -> by lia. now rewrite IH.
Qed.

Lemma firstn_app_exact {A} (a b : list A) : firstn (length a) (a ++ b) = a.
Proof. induction a; simpl; [now destruct b | now f_equal]. Qed.

Lemma get_shell_name_braced n post :
  n <> [] -> Forall (fun x => x <> 125) n ->
  get_shell_name (123 :: n ++ 125 :: post) = (n, (length n + 2)%nat).
Proof.
  intros Hne Hn. unfold get_shell_name. rewrite Z.eqb_refl.
  assert (scan_brace (n ++ 125 :: post) = (n, (length n + 2)%nat)) as Hscan.
  { unfold scan_brace. rewrite index_of_app_first by exact Hn.
    destruct n as [|c n']; [congruence|]. cbn [length]. now rewrite <- (firstn_app_exact (c :: n') (125 :: post)) at 2. }
  destruct n as [|c1 n']; [congruence|]. cbn [app].
  destruct n' as [|c2 n'']; cbn [app].
  - (* one-byte name: either branch gives the same answer *)
    rewrite Z.eqb_refl, andb_true_r. destruct (is_special_var c1); [reflexivity | exact Hscan].
  - inversion Hn as [|? ? _ Hn']; subst. inversion Hn' as [|? ? Hc2 _]; subst.
    assert (c2 =? 125 = false) as -> by lia. rewrite andb_false_r. exact Hscan.
Qed.

Lemma expand_braced_in_context m pre n post :
  dollar_free pre -> n <> [] -> Forall (fun x => x <> 125) n ->
  os_expand m (pre ++ 36 :: 123 :: n ++ 125 :: post) = pre ++ m n ++ os_expand m post.
Proof.
  intros Hpre Hne Hn. unfold os_expand. rewrite expand_dollar_free by exact Hpre. f_equal.
  rewrite (expand_dollar_step m (123 :: n ++ 125 :: post) n (length n + 2)%nat).
  - f_equal.
    replace (123 :: n ++ 125 :: post) with ((123 :: n ++ [125]) ++ post)
      by (simpl; rewrite <- app_assoc; reflexivity).
    replace (length n + 2)%nat with (length (123 :: n ++ [125]))
      by (simpl; rewrite app_length; simpl; lia).
    apply expand_skip.
  - discriminate.
  - now apply get_shell_name_braced.
  - exact Hne.
Qed.

(* a word that is one whole reference becomes exactly the value: one argument, whatever bytes it holds *)
Lemma argv_whole_var_word t env base av ws i n :
  argv t env base = inr av -> shell_split t = inr ws -> (i < length ws)%nat ->
  nth i ws [] = 36 :: n -> valid_name n ->
  nth i av [] = lookup env base n.
Proof.
  intros H Hs Hi Hw Hn. rewrite (argv_nth t env base av ws i H Hs Hi), Hw. now apply expand_whole_var.
Qed.

(* ---------------- the mapping: the command's Env first ---------------- *)

Lemma lookup_env env base n v : assoc n env = Some v -> lookup env base n = v.
Proof. unfold lookup. now intros ->. Qed.

(* ---------------- the child's environment ---------------- *)

Definition valid_key (k : bytes) : Prop := k <> [] /\ Forall (fun c => c <> 61 /\ c <> 0) k.

Lemma has_nul_app a b : has_nul (a ++ b) = has_nul a || has_nul b.
Proof. unfold has_nul. apply existsb_app. Qed.

Lemma valid_key_no_nul k : valid_key k -> has_nul k = false.
Proof.
  intros [_ H]. unfold has_nul. induction H as [|c k [_ Hc] _ IH]; [reflexivity|]. simpl.
  assert (c =? 0 = false) as -> by lia. exact IH.
Qed.

Lemma env_key_entry k v : valid_key k -> env_key (entry (k, v)) = Some k.
Proof.
  intros [Hne H]. unfold env_key, entry. cbn [fst snd].
  rewrite index_of_app_first by (eapply Forall_impl; [|exact H]; intros c [Hc _]; exact Hc).
  destruct k as [|c k']; [congruence|]. cbn [length].
  now rewrite <- (firstn_app_exact (c :: k') (61 :: v)) at 2.
Qed.

Lemma dedup_rev_in l : forall saw e, In e (dedup_rev saw l) -> In e l.
Proof.
  induction l as [|x l IH]; intros saw e H; [destruct H|]. simpl in H.
  destruct (has_nul x); [right; eauto|].
  destruct (env_key x) as [k|].
  - destruct (memb k saw); [right; eauto|]. destruct H as [->|H]; [now left | right; eauto].
  - destruct (is_nil x); [right; eauto|]. destruct H as [->|H]; [now left | right; eauto].
Qed.

(* a key that was seen is never emitted again *)
Lemma dedup_rev_seen l : forall saw k e,
  memb k saw = true -> In e (dedup_rev saw l) -> env_key e <> Some k.
Proof.
  induction l as [|x l IH]; intros saw k e Hk H; [destruct H|]. simpl in H.
  destruct (has_nul x); [eauto|].
  destruct (env_key x) as [kx|] eqn:Ex.
  - destruct (memb kx saw) eqn:Em; [eauto|].
    destruct H as [->|H].
    + rewrite Ex. intros Heq. inversion Heq; subst. congruence.
    + apply (IH (kx :: saw) k e); [|exact H]. simpl. rewrite Hk. apply orb_true_r.
  - destruct (is_nil x); [eauto|]. destruct H as [->|H]; [rewrite Ex; discriminate | eauto].
Qed.

Lemma dedup_rev_unique l : forall saw e e' k,
  In e (dedup_rev saw l) -> In e' (dedup_rev saw l) ->
  env_key e = Some k -> env_key e' = Some k -> e = e'.
Proof.
  induction l as [|x l IH]; intros saw e e' k H H' Hk Hk'; [destruct H|]. simpl in H, H'.
  destruct (has_nul x); [eauto|].
  destruct (env_key x) as [kx|] eqn:Ex.
  - destruct (memb kx saw) eqn:Em; [eauto|].
    assert (forall y, In y (dedup_rev (kx :: saw) l) -> env_key y <> Some kx) as Hseen.
    { intros y Hy. apply (dedup_rev_seen l (kx :: saw) kx y); [|exact Hy]. simpl. now rewrite bytes_eqb_refl. }
    destruct H as [->|H]; destruct H' as [->|H']; try reflexivity.
    + exfalso. apply (Hseen e' H'). congruence.
    + exfalso. apply (Hseen e H). congruence.
    + eauto.
  - destruct (is_nil x); [eauto|].
    destruct H as [->|H]; [congruence|]. destruct H' as [->|H']; [congruence|]. eauto.
Qed.

(* the first entry with a key is kept *)
Lemma dedup_rev_first l1 : forall saw e l2 k,
  env_key e = Some k -> has_nul e = false -> memb k saw = false ->
  (forall x, In x l1 -> env_key x <> Some k) ->
  In e (dedup_rev saw (l1 ++ e :: l2)).
Proof.
  induction l1 as [|x l1 IH]; intros saw e l2 k Hk Hn Hs Hl1; simpl.
  - rewrite Hn, Hk, Hs. now left.
  - assert (forall y, In y l1 -> env_key y <> Some k) as Hl1' by (intros y Hy; apply Hl1; now right).
    destruct (has_nul x); [now apply (IH saw e l2 k)|].
    destruct (env_key x) as [kx|] eqn:Ex.
    + destruct (memb kx saw); [now apply (IH saw e l2 k)|]. right.
      apply (IH (kx :: saw) e l2 k); try assumption. simpl. rewrite Hs, orb_false_r.
      apply bytes_eqb_neq. intros ->. apply (Hl1 x (or_introl eq_refl)). exact Ex.
    + destruct (is_nil x); [now apply (IH saw e l2 k) | right; now apply (IH saw e l2 k)].
Qed.

Lemma env_verbatim base extra k v :
  Forall (fun kv => valid_key (fst kv)) extra -> NoDup (map fst extra) ->
  In (k, v) extra -> has_nul v = false ->
  In (entry (k, v)) (child_environ base extra) /\
  (forall e, In e (child_environ base extra) -> env_key e = Some k -> e = entry (k, v)).
Proof.
  intros Hvalid Hnd Hin Hnv.
  assert (valid_key k) as Hk by (rewrite Forall_forall in Hvalid; apply (Hvalid (k, v) Hin)).
  unfold child_environ, dedup.
  destruct (in_split _ _ Hin) as (a & b & ->).
  assert (In (entry (k, v))
            (dedup_rev [] (rev (map entry base ++ map entry (a ++ (k, v) :: b))))) as Hkept.
  { rewrite map_app, rev_app_distr. cbn [map]. rewrite rev_app_distr. cbn [rev].
    rewrite <- !app_assoc. cbn [app].
    apply (dedup_rev_first (rev (map entry b)) [] (entry (k, v)) _ k).
    - now apply env_key_entry.
    - unfold entry. cbn [fst snd]. rewrite has_nul_app. rewrite (valid_key_no_nul k Hk).
      simpl. exact Hnv.
    - reflexivity.
    - intros x Hx. apply in_rev in Hx. apply in_map_iff in Hx. destruct Hx as ([k' v'] & <- & Hb).
      assert (valid_key k') as Hk'.
      { rewrite Forall_forall in Hvalid. apply (Hvalid (k', v')). apply in_or_app. right. now right. }
      rewrite env_key_entry by exact Hk'. intros Heq. inversion Heq; subst k'.
      rewrite map_app in Hnd. apply NoDup_remove_2 in Hnd. apply Hnd.
      apply in_or_app. right. apply (in_map fst _ _ Hb). }
  split.
  - apply -> in_rev. exact Hkept.
  - intros e He Hke. apply in_rev in He.
    apply (dedup_rev_unique _ [] e (entry (k, v)) k He Hkept Hke). now apply env_key_entry.
Qed.

(* ---------------- exit status ---------------- *)

Lemma report_nonzero restart c : c <> 0 -> run_report restart (Exited c) = Some c.
Proof. intros H. unfold run_report, report, wait_code. assert (c =? 0 = false) as -> by lia. reflexivity. Qed.

Lemma report_zero : run_report false (Exited 0) = None /\ run_report true (Exited 0) = Some 0.
Proof. split; reflexivity. Qed.

Lemma report_signal restart : run_report restart Signaled = Some (-1).
Proof. reflexivity. Qed.

(* the pinned snapshot: nothing is ever reported without Restart *)
Lemma snapshot_reports_nothing w : run_report_snapshot false w = None.
Proof. reflexivity. Qed.

Lemma snapshot_refuted : ~ (forall c, c <> 0 -> run_report_snapshot false (Exited c) = Some c).
Proof. intros H. specialize (H 3 ltac:(lia)). discriminate. Qed.

(* ---------------- Split on simple templates ---------------- *)

Definition plain_byte (c : Z) : bool :=
  negb (is_split_char c) && negb (c =? 39) && negb (c =? 34) && negb (c =? 92).

Definition plain_word (w : bytes) : Prop := w <> [] /\ Forall (fun c => plain_byte c = true) w.

Fixpoint join_sp (ws : list bytes) : bytes :=
  match ws with
  | [] => []
  | [w] => w
  | w :: r => w ++ 32 :: join_sp r
  end.

Lemma raw_plain w : forall buf words s,
  Forall (fun c => plain_byte c = true) w ->
  split_run SRaw buf words (w ++ s) = split_run SRaw (rev w ++ buf) words s.
Proof.
  induction w as [|c w IH]; intros buf words s Hw; [reflexivity|].
  inversion Hw as [|? ? Hc Hr]; subst. cbn [app split_run].
  unfold plain_byte in Hc.
  assert (c =? 39 = false) as -> by lia. assert (c =? 34 = false) as -> by lia.
  assert (c =? 92 = false) as -> by lia. assert (is_split_char c = false) as -> by lia.
  rewrite IH by exact Hr. cbn [rev]. now rewrite <- app_assoc.
Qed.

Lemma top_plain w words s :
  plain_word w -> split_run STop [] words (w ++ s) = split_run SRaw (rev w) words s.
Proof.
  intros [Hne Hw]. destruct w as [|c w]; [congruence|].
  inversion Hw as [|? ? Hc Hr]; subst. cbn [app split_run].
  unfold plain_byte in Hc.
  assert (c =? 39 = false) as -> by lia. assert (c =? 34 = false) as -> by lia.
  assert (c =? 92 = false) as -> by lia. assert (is_split_char c = false) as -> by lia.
  rewrite raw_plain by exact Hr. reflexivity.
Qed.

Lemma split_plain_words ws : forall words,
  ws <> [] -> Forall plain_word ws ->
  split_run STop [] words (join_sp ws) = inr (rev words ++ ws).
Proof.
  induction ws as [|w ws IH]; intros words Hne Hall; [congruence|].
  inversion Hall as [|? ? Hw Hr]; subst.
  destruct ws as [|w2 ws'].
  - cbn [join_sp]. rewrite <- (app_nil_r w) at 1. rewrite top_plain by exact Hw.
    cbn [split_run]. rewrite rev_involutive. cbn [rev]. reflexivity.
  - change (join_sp (w :: w2 :: ws')) with (w ++ 32 :: join_sp (w2 :: ws')).
    rewrite top_plain by exact Hw. cbn [split_run]. cbn [Z.eqb is_split_char orb].
    rewrite rev_involutive. rewrite IH by (try discriminate; exact Hr).
    cbn [rev]. now rewrite <- app_assoc.
Qed.

Lemma shell_split_plain ws : ws <> [] -> Forall plain_word ws -> shell_split (join_sp ws) = inr ws.
Proof. intros H1 H2. unfold shell_split. now rewrite split_plain_words. Qed.

Lemma single_run w : forall buf words s,
  Forall (fun c => c <> 39) w ->
  split_run SSingle buf words (w ++ s) = split_run SSingle (rev w ++ buf) words s.
Proof.
  induction w as [|c w IH]; intros buf words s Hw; [reflexivity|].
  inversion Hw as [|? ? Hc Hr]; subst. cbn [app split_run].
  assert (c =? 39 = false) as -> by lia. rewrite IH by exact Hr. cbn [rev]. now rewrite <- app_assoc.
Qed.

(* anything without a single quote is protected by single quotes *)
Lemma shell_split_single_quoted w : Forall (fun c => c <> 39) w -> shell_split (39 :: w ++ [39]) = inr [w].
Proof.
  intros Hw. unfold shell_split. cbn [split_run]. cbn [is_split_char Z.eqb orb].
  rewrite single_run by exact Hw. cbn [split_run]. rewrite Z.eqb_refl. cbn [split_run].
  rewrite app_nil_r, rev_involutive. reflexivity.
Qed.
