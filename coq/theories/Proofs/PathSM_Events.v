(* Path event loop: answers and reader closes of every handler, compositionally (no case enumeration):
   every request is answered at most once (C19), Close answers what is on hold (C19), a reader that leaves
   the reader set other than by RemoveReader is closed (C18), override closes the old publisher first (C16). *)
From Coq Require Import List ZArith Bool Lia Permutation.
Require Import MTX.Lib.Trace MTX.Model.PathSM MTX.Proofs.PathSM MTX.Proofs.PathSM_Attach MTX.Proofs.PathSM_List
  MTX.Proofs.PathSM_Thms.
Import ListNotations.
Local Open Scope Z_scope.

Definition akey (e : pevent) : option Z := match e with EAnswer q _ => Some q | _ => None end.
Definition ak (l : list pevent) : list Z := keys akey l.

Lemma ak_app a b : ak (a ++ b) = ak a ++ ak b.
Proof. apply keys_app. Qed.
Lemma ak_map_closed l : ak (map EReaderClosed l) = [].
Proof. induction l; [reflexivity|exact IHl]. Qed.
Lemma ak_map_ans1 (f : Z -> ans) l : ak (map (fun q => EAnswer q (f q)) l) = l.
Proof. induction l as [|x l IH]; [reflexivity|]. cbn. f_equal. exact IH. Qed.
Lemma ak_map_ans2 (f : Z * Z -> ans) l : ak (map (fun qr => EAnswer (fst qr) (f qr)) l) = map fst l.
Proof. induction l as [|x l IH]; [reflexivity|]. cbn. f_equal. exact IH. Qed.
Lemma ak_open_logs k cf : ak (open_logs k cf) = [].
Proof. unfold open_logs. destruct (h_start k cf); reflexivity. Qed.
Lemma ak_close_logs k cf : ak (close_logs k cf) = [].
Proof. unfold close_logs. destruct (h_start k cf), (h_un k cf); reflexivity. Qed.
Lemma ak_bind f g s : ak (snd ((f ;; g) s)) = ak (snd (f s)) ++ ak (snd (g (fst (f s)))).
Proof. rewrite snd_bind. apply ak_app. Qed.

(* ---- quiet handlers: no answer, holds and readers untouched ----------------------------------------- *)
Definition Quiet (m : M) : Prop :=
  forall s, ak (snd (m s)) = [] /\ s_dhold (fst (m s)) = s_dhold s /\ s_rhold (fst (m s)) = s_rhold s /\
            s_readers (fst (m s)) = s_readers s.

Lemma quiet_bind f g : Quiet f -> Quiet g -> Quiet (f ;; g).
Proof.
  intros Hf Hg s. destruct (Hf s) as (A1 & A2 & A3 & A4), (Hg (fst (f s))) as (B1 & B2 & B3 & B4).
  rewrite ak_bind, fst_bind, A1, B1. repeat split; congruence.
Qed.
Lemma quiet_when c m : Quiet m -> Quiet (whenM c m).
Proof. intros H s. unfold whenM. destruct (c s); [apply H|repeat split; reflexivity]. Qed.
Lemma quiet_ret : Quiet ret. Proof. intros s. repeat split; reflexivity. Qed.
Lemma quiet_hook_open k : Quiet (hook_open k).
Proof. intros s. unfold hook_open. cbn [fst snd]. split; [|repeat split; reflexivity]. cbn. apply ak_open_logs. Qed.
Lemma quiet_hook_close k : Quiet (hook_close k).
Proof. intros s. unfold hook_close. cbn [fst snd]. split; [|repeat split; reflexivity]. cbn. apply ak_close_logs. Qed.
Lemma quiet_panic : Quiet panic.
Proof. intros s. destruct s; repeat split; reflexivity. Qed.
Lemma quiet_modify f :
  (forall s, s_dhold (f s) = s_dhold s /\ s_rhold (f s) = s_rhold s /\ s_readers (f s) = s_readers s) ->
  Quiet (modify f).
Proof. intros H s. split; [reflexivity|apply H]. Qed.
Ltac qsetter := apply quiet_modify; let t := fresh "t" in intros t; destruct t; repeat split; reflexivity.
Lemma quiet_if (c : pstate -> bool) (m1 m2 : M) :
  Quiet m1 -> Quiet m2 -> Quiet (fun s => if c s then m1 s else m2 s).
Proof. intros H1 H2 s. destruct (c s); [apply H1|apply H2]. Qed.
Lemma quiet_same (f : pstate -> list pevent) : (forall s, ak (f s) = []) -> Quiet (fun s => (s, f s)).
Proof. intros H s. cbn [fst snd]. repeat split; auto. Qed.

Ltac qbind := lazymatch goal with |- Quiet (_ ;; _) => apply quiet_bind end.

Lemma quiet_set_offline : Quiet set_offline.
Proof.
  change set_offline with (fun s => if s_hOffline s then (hook_close HOnline ;; modify (set_hOffline false)) s else (fun t => (t, @nil pevent)) s).
  apply quiet_if; [apply quiet_bind; [apply quiet_hook_close|qsetter]|apply quiet_same; reflexivity].
Qed.
Lemma quiet_set_online : Quiet set_online.
Proof. unfold set_online. repeat qbind; [apply quiet_set_offline|apply quiet_hook_open|qsetter]. Qed.
Lemma quiet_emit e : ak e = [] -> Quiet (emit e).
Proof. intros H s. repeat split; auto. Qed.
Lemma quiet_set_available : Quiet set_available.
Proof.
  intros s. unfold set_available.
  assert (Q : Quiet (modify (fun s0 => set_sub (if aa s0 then SOffline else SNone)
                                         (set_stream (Some (s_nextgen s)) (set_nextgen (s_nextgen s + 1) s0)));;
                     hook_open HAvail;; modify (set_hUnavail true);; whenM not_aa set_online;; emit [EPathReady (s_nextgen s)])).
  { repeat qbind; [qsetter|apply quiet_hook_open|qsetter|apply quiet_when, quiet_set_online|apply quiet_emit; reflexivity]. }
  apply Q.
Qed.
Lemma quiet_offline_start : Quiet (set_offline ;; start_offline).
Proof. qbind; [apply quiet_set_offline|unfold start_offline; qsetter]. Qed.
Lemma quiet_call_unavailable : Quiet call_unavailable.
Proof.
  change call_unavailable with (fun s => if s_hUnavail s then hook_close HAvail s else panic s).
  apply quiet_if; [apply quiet_hook_close|apply quiet_panic].
Qed.
Lemma quiet_handler_start : Quiet handler_start.
Proof. intros s. unfold handler_start, panic. destruct s. cbn. destruct s_ssRunning; repeat split; reflexivity. Qed.
Lemma quiet_handler_stop : Quiet handler_stop.
Proof. intros s. unfold handler_stop, panic. destruct s. cbn. destruct s_ssRunning; repeat split; reflexivity. Qed.
Lemma quiet_ss_start : Quiet ss_start.
Proof. unfold ss_start. apply quiet_bind; [apply quiet_handler_start|qsetter]. Qed.
Lemma quiet_ss_schedule_close : Quiet ss_schedule_close.
Proof. unfold ss_schedule_close. qsetter. Qed.
Lemma quiet_ss_stop : Quiet ss_stop.
Proof. unfold ss_stop. repeat qbind; [apply quiet_when; qsetter|qsetter|apply quiet_handler_stop]. Qed.
Lemma quiet_pub_start : Quiet pub_start.
Proof. unfold pub_start. repeat qbind; [apply quiet_hook_open|qsetter|qsetter]. Qed.
Lemma quiet_pub_schedule_close : Quiet pub_schedule_close.
Proof. unfold pub_schedule_close. qsetter. Qed.
Lemma quiet_pub_stop : Quiet pub_stop.
Proof.
  unfold pub_stop. repeat qbind; [apply quiet_when; qsetter| |qsetter].
  apply (quiet_if (fun s => s_hUnDemand s)); [apply quiet_bind; [apply quiet_hook_close|qsetter]|apply quiet_panic].
Qed.

(* ---- handlers without answers (readers may be reset) ------------------------------------------------ *)
Definition NoAns (m : M) : Prop :=
  forall s, ak (snd (m s)) = [] /\ s_dhold (fst (m s)) = s_dhold s /\ s_rhold (fst (m s)) = s_rhold s.
Lemma noans_quiet m : Quiet m -> NoAns m.
Proof. intros H s. destruct (H s) as (A & B & C & _). auto. Qed.
Lemma noans_bind f g : NoAns f -> NoAns g -> NoAns (f ;; g).
Proof.
  intros Hf Hg s. destruct (Hf s) as (A1 & A2 & A3), (Hg (fst (f s))) as (B1 & B2 & B3).
  rewrite ak_bind, fst_bind, A1, B1. repeat split; congruence.
Qed.
Lemma noans_when c m : NoAns m -> NoAns (whenM c m).
Proof. intros H s. unfold whenM. destruct (c s); [apply H|repeat split; reflexivity]. Qed.
Lemma noans_reset : NoAns (fun s => (set_readers [] s, map EReaderClosed (s_readers s))).
Proof. intros s. cbn [fst snd]. rewrite ak_map_closed. destruct s; repeat split; reflexivity. Qed.
Lemma noans_sna : NoAns set_not_available.
Proof.
  unfold set_not_available.
  apply noans_bind; [apply noans_quiet, quiet_emit; reflexivity|].
  apply noans_bind; [apply noans_quiet, quiet_set_offline|].
  apply noans_bind; [apply noans_reset|].
  apply noans_bind; [apply noans_quiet, quiet_call_unavailable|apply noans_quiet; qsetter].
Qed.
Lemma noans_source_gone : NoAns source_gone.
Proof.
  intros s. unfold source_gone. destruct (aa s); [apply (noans_quiet _ quiet_offline_start)|apply noans_sna].
Qed.
Lemma noans_erp : NoAns execute_remove_publisher.
Proof. unfold execute_remove_publisher. apply noans_bind; [apply noans_source_gone|apply noans_quiet; qsetter]. Qed.

(* ---- answers and holds: what is answered plus what stays on hold is what was on hold ------------------ *)
Definition AK (m : M) : Prop :=
  forall s, Permutation (ak (snd (m s)) ++ held (fst (m s))) (held s).
Lemma ak_noans m : NoAns m -> AK m.
Proof. intros H s. destruct (H s) as (A & B & C). unfold held. rewrite A, B, C. apply Permutation_refl. Qed.
Lemma ak_bind' f g : AK f -> AK g -> AK (f ;; g).
Proof.
  intros Hf Hg s. rewrite ak_bind, fst_bind, <- app_assoc.
  eapply Permutation_trans; [apply Permutation_app_head, Hg|apply Hf].
Qed.
Lemma ak_when c m : AK m -> AK (whenM c m).
Proof. intros H s. unfold whenM. destruct (c s); [apply H|apply Permutation_refl]. Qed.

Lemma ak_fail_on_hold c : AK (fail_on_hold c).
Proof.
  intros s. unfold fail_on_hold. cbn [fst snd]. rewrite ak_app, ak_map_ans1, ak_map_ans2.
  unfold held. destruct s; cbn. rewrite app_nil_r. apply Permutation_refl.
Qed.

Lemma arp_ans q r s :
  ak (snd (add_reader_post q r s)) = [q] /\
  s_dhold (fst (add_reader_post q r s)) = s_dhold s /\ s_rhold (fst (add_reader_post q r s)) = s_rhold s.
Proof.
  unfold add_reader_post. destruct (mem r (s_readers s)); [repeat split; reflexivity|].
  destruct (negb (c_maxr (s_conf s) =? 0) && (c_maxr (s_conf s) <=? Z.of_nat (length (s_readers s))));
    [repeat split; reflexivity|].
  cbn [fst snd]. split; [reflexivity|].
  destruct s as [cf ? ? ? ? ? ? ? sst ? ? ? ? pst ? ? ? ? ?]. unfold bump_on_demand. cbn.
  destruct (od_static cf); [destruct sst; split; reflexivity|].
  destruct (od_pub cf); [destruct pst; split; reflexivity|split; reflexivity].
Qed.
Lemma arps_ans l : forall s,
  ak (snd (add_readers_post l s)) = map fst l /\
  s_dhold (fst (add_readers_post l s)) = s_dhold s /\ s_rhold (fst (add_readers_post l s)) = s_rhold s.
Proof.
  induction l as [|[q r] l IH]; intros s; [repeat split; reflexivity|].
  cbn [add_readers_post]. rewrite ak_bind, fst_bind.
  destruct (arp_ans q r s) as (A1 & A2 & A3), (IH (fst (add_reader_post q r s))) as (B1 & B2 & B3).
  rewrite A1, B1. split; [reflexivity|split; congruence].
Qed.
Lemma consume_ans s :
  ak (snd (consume_on_hold s)) = held s /\ held (fst (consume_on_hold s)) = [].
Proof.
  unfold consume_on_hold. rewrite !ak_bind, !fst_bind. cbn [snd fst modify].
  destruct (arps_ans (s_rhold s) (set_dhold [] s)) as (A1 & A2 & A3).
  rewrite A1, ak_map_ans1, app_nil_r. split; [reflexivity|].
  unfold held. destruct (fst (add_readers_post (s_rhold s) (set_dhold [] s))) eqn:E. cbn in *.
  rewrite A2. destruct s; reflexivity.
Qed.
Lemma ak_consume : AK consume_on_hold.
Proof. intros s. destruct (consume_ans s) as [A B]. rewrite A, B, app_nil_r. apply Permutation_refl. Qed.

(* ---- one operation ------------------------------------------------------------------------------------ *)
(* the request id an operation brings in (a SetReady of a stopped / already ready instance never reaches the loop) *)
Definition op_keys (s : pstate) (o : pop) : list Z :=
  match o with
  | Describe q | AddPublisher q _ _ | AddReader q _ => [q]
  | StaticReady q => if negb (s_closed s) && (s_ssRunning s && negb (s_instReady s)) then [q] else []
  | _ => []
  end.

Lemma perm_insert (a b : list Z) q : Permutation ((a ++ [q]) ++ b) ((a ++ b) ++ [q]).
Proof.
  rewrite <- !app_assoc. apply Permutation_app_head. apply Permutation_app_comm.
Qed.

Ltac nbind := lazymatch goal with |- NoAns (_ ;; _) => apply noans_bind end.
Ltac nq := apply noans_quiet.

Lemma quiet_pre_tail p : Quiet (pre_tail p).
Proof.
  unfold pre_tail. repeat qbind; [qsetter|qsetter|apply quiet_when, quiet_set_online|].
  apply quiet_when. qbind; [qsetter|apply quiet_pub_schedule_close].
Qed.
Lemma quiet_when_sa : Quiet (whenM not_aa set_available).
Proof. apply quiet_when, quiet_set_available. Qed.
Lemma quiet_pre_attach p : Quiet (pre_attach p).
Proof. unfold pre_attach. qbind; [apply quiet_when_sa|apply quiet_pre_tail]. Qed.
Lemma quiet_pre_static_ready : Quiet pre_static_ready.
Proof.
  unfold pre_static_ready. repeat qbind; [apply quiet_when_sa|qsetter|apply quiet_when, quiet_set_online|].
  apply quiet_when. qbind; [qsetter|apply quiet_ss_schedule_close].
Qed.

Lemma held_quiet m s : Quiet m -> held (fst (m s)) = held s /\ ak (snd (m s)) = [].
Proof. intros H. destruct (H s) as (A & B & C & _). unfold held. rewrite B, C. auto. Qed.
Lemma held_noans m s : NoAns m -> held (fst (m s)) = held s /\ ak (snd (m s)) = [].
Proof. intros H. destruct (H s) as (A & B & C). unfold held. rewrite B, C. auto. Qed.

Lemma attach_tail_events q p s :
  snd (attach_tail q p s) =
  snd (pre_tail p s) ++ snd (consume_on_hold (fst (pre_tail p s))) ++
  [EAnswer q (AStream (cur_stream (fst (consume_on_hold (fst (pre_tail p s))))))].
Proof. unfold attach_tail, pre_tail. rewrite !snd_bind, !fst_bind. cbn [snd fst modify]. rewrite <- !app_assoc. reflexivity. Qed.

Lemma akq_attach_tail q p s :
  ak (snd (attach_tail q p s)) = held s ++ [q] /\ held (fst (attach_tail q p s)) = [].
Proof.
  rewrite fst_attach_tail, attach_tail_events, !ak_app.
  destruct (held_quiet _ s (quiet_pre_tail p)) as [H1 H2].
  destruct (consume_ans (fst (pre_tail p s))) as [C1 C2].
  rewrite H2, C1, H1, C2. split; reflexivity.
Qed.

(* a refused publisher is answered (with the error) and leaves the holds as they are *)
Lemma akq_attach q p ok s :
  Permutation (ak (snd (attach_publisher q p ok s)) ++ held (fst (attach_publisher q p ok s))) (held s ++ [q]).
Proof.
  unfold attach_publisher. rewrite ak_bind, fst_bind.
  destruct (held_quiet _ s quiet_when_sa) as [H1 H2]. rewrite H2. cbn [app].
  set (s1 := fst (whenM not_aa set_available s)) in *. cbn beta.
  destruct (aa s1 && negb ok).
  - cbn [fst snd]. rewrite H1. apply (Permutation_app_comm [_]).
  - destruct (akq_attach_tail q p s1) as [A1 A2]. rewrite A1, A2, H1, app_nil_r. apply Permutation_refl.
Qed.

Lemma akq_static_ready q s :
  s_ssRunning s && negb (s_instReady s) = true ->
  ak (snd (do_static_ready q s)) = held s ++ [q] /\ held (fst (do_static_ready q s)) = [].
Proof.
  intros En. rewrite fst_static_ready, En.
  assert (E : snd (do_static_ready q s) =
              snd (pre_static_ready s) ++ snd (consume_on_hold (fst (pre_static_ready s))) ++
              [EAnswer q (AStream (cur_stream (set_instReady true (fst (consume_on_hold (fst (pre_static_ready s)))))))]).
  { unfold do_static_ready, pre_static_ready. rewrite En. rewrite !snd_bind, !fst_bind. cbn [snd fst modify app].
    rewrite <- !app_assoc. reflexivity. }
  rewrite E, !ak_app.
  destruct (held_quiet _ s quiet_pre_static_ready) as [H1 H2].
  destruct (consume_ans (fst (pre_static_ready s))) as [C1 C2].
  rewrite H2, C1, H1. split; [reflexivity|].
  unfold held in *. destruct (fst (consume_on_hold (fst (pre_static_ready s)))); exact C2.
Qed.

Lemma noans_remove_reader r : NoAns (do_remove_reader r).
Proof.
  unfold do_remove_reader. apply noans_bind.
  - apply noans_when. intros s. destruct s; repeat split; reflexivity.
  - apply noans_when. intros s.
    destruct (od_static (s_conf s)); [apply (noans_when _ _ (noans_quiet _ quiet_ss_schedule_close))|].
    destruct (od_pub (s_conf s)); [apply (noans_when _ _ (noans_quiet _ quiet_pub_schedule_close))|].
    repeat split; reflexivity.
Qed.

Lemma noans_remove_publisher fx p : NoAns (do_remove_publisher fx p).
Proof.
  intros s. unfold do_remove_publisher. destruct (s_source s); [|repeat split; reflexivity].
  destruct (z =? p); [|repeat split; reflexivity].
  apply (noans_bind _ _ noans_erp). apply noans_when. nq. apply quiet_pub_stop.
Qed.

Lemma noans_static_not_ready : NoAns do_static_not_ready.
Proof.
  intros s. unfold do_static_not_ready. destruct (s_ssRunning s && s_instReady s); [|repeat split; reflexivity].
  apply (noans_bind _ _ noans_source_gone). apply noans_bind; [nq; qsetter|]. apply noans_when. nq. apply quiet_ss_stop.
Qed.

Lemma ak_timer t : AK (do_timer t).
Proof.
  intros s. unfold do_timer. destruct (timer_armed t s); [|apply Permutation_refl].
  assert (A : AK (modify (disarm t);; emit [EFired t];;
                  match t with
                  | TSSReady => fail_on_hold E_TIMEOUT;; ss_stop
                  | TSSClose => set_not_available;; ss_stop
                  | TPubReady => fail_on_hold E_TIMEOUT;; pub_stop
                  | TPubClose => pub_stop
                  end)).
  { apply ak_bind'; [apply ak_noans; nq; destruct t; qsetter|].
    apply ak_bind'; [apply ak_noans; nq; apply quiet_emit; reflexivity|].
    destruct t.
    - apply ak_bind'; [apply ak_fail_on_hold|apply ak_noans; nq; apply quiet_ss_stop].
    - apply ak_bind'; [apply ak_noans, noans_sna|apply ak_noans; nq; apply quiet_ss_stop].
    - apply ak_bind'; [apply ak_fail_on_hold|apply ak_noans; nq; apply quiet_pub_stop].
    - apply ak_noans; nq; apply quiet_pub_stop. }
  apply A.
Qed.

Lemma noans_close_source : NoAns close_source.
Proof.
  intros s. unfold close_source. destruct (c_static (s_conf s)).
  - destruct (negb (c_sod (s_conf s)) || negb (ods_eqb (s_ssState s) OdInitial));
      [apply (noans_quiet _ quiet_handler_stop)|repeat split; reflexivity].
  - destruct (s_source s); repeat split; reflexivity.
Qed.
Lemma noans_close_demand : NoAns close_demand.
Proof.
  intros s. unfold close_demand. destruct (s_hUnDemand s); [|repeat split; reflexivity].
  apply noans_quiet. qbind; [apply quiet_hook_close|qsetter].
Qed.
Lemma noans_close_stream : NoAns close_stream.
Proof. intros s. unfold close_stream. destruct (s_stream s); [apply noans_sna|repeat split; reflexivity]. Qed.

Lemma ak_close : AK do_close.
Proof.
  unfold do_close.
  apply ak_bind'; [apply ak_noans; nq; apply quiet_emit; reflexivity|].
  apply ak_bind'; [apply ak_noans; nq; qsetter|].
  apply ak_bind'; [apply ak_fail_on_hold|].
  apply ak_bind'; [apply ak_noans, noans_close_source|].
  apply ak_bind'; [apply ak_noans, noans_close_demand|].
  apply ak_bind'; [apply ak_noans, noans_close_stream|].
  apply ak_noans; nq; qsetter.
Qed.

Lemma step_ak fx s o :
  Permutation (ak (snd (step_gen fx s o)) ++ held (fst (step_gen fx s o))) (held s ++ op_keys s o).
Proof.
  unfold step_gen. destruct (s_closed s) eqn:Ecl.
  - cbn [fst snd]. destruct o; cbn [closed_answer op_keys ak keys akey]; rewrite ?Ecl; cbn [negb andb];
      rewrite ?app_nil_r; try apply Permutation_refl; apply (Permutation_app_comm [_]).
  - destruct o; cbn [op_keys]; rewrite ?Ecl; cbn [negb andb]; rewrite ?app_nil_r.
    + (* Describe *) unfold do_describe. destruct (s_stream s); [apply (Permutation_app_comm [_])|].
      assert (Hh : forall (c : pstate -> bool) m, Quiet m ->
                Permutation (ak (snd ((whenM c m;; modify (fun s0 => set_dhold (s_dhold s0 ++ [q]) s0)) s)) ++
                             held (fst ((whenM c m;; modify (fun s0 => set_dhold (s_dhold s0 ++ [q]) s0)) s)))
                            (held s ++ [q])).
      { intros c m Hm. rewrite ak_bind, fst_bind. cbn [snd fst modify].
        destruct (quiet_when c m Hm s) as (A & B & C & _). rewrite A. cbn [app].
        unfold held. destruct (fst (whenM c m s)); cbn in *. subst. apply perm_insert. }
      destruct (od_static (s_conf s)); [apply Hh, quiet_ss_start|].
      destruct (od_pub (s_conf s)); [apply Hh, quiet_pub_start|apply (Permutation_app_comm [_])].
    + (* AddPublisher *) unfold do_add_publisher. destruct (c_static (s_conf s)); [apply (Permutation_app_comm [_])|].
      destruct (s_source s) as [old|].
      * destruct (negb (c_override (s_conf s))); [apply (Permutation_app_comm [_])|].
        rewrite !ak_bind, !fst_bind.
        destruct (held_noans _ (fst (emit [EPubClosed old] s)) noans_erp) as [H1 H2].
        pose proof (akq_attach q p ok (fst (execute_remove_publisher (fst (emit [EPubClosed old] s))))) as A.
        rewrite H2. rewrite H1 in A. exact A.
      * apply akq_attach.
    + (* RemovePublisher *) apply ak_noans, noans_remove_publisher.
    + (* AddReader *) unfold do_add_reader. destruct (s_stream s).
      * destruct (arp_ans q r s) as (A1 & A2 & A3). rewrite A1. unfold held. rewrite A2, A3. apply (Permutation_app_comm [_]).
      * assert (Hh : forall (c : pstate -> bool) m, Quiet m ->
                Permutation (ak (snd ((whenM c m;; modify (fun s0 => set_rhold (s_rhold s0 ++ [(q, r)]) s0)) s)) ++
                             held (fst ((whenM c m;; modify (fun s0 => set_rhold (s_rhold s0 ++ [(q, r)]) s0)) s)))
                            (held s ++ [q])).
        { intros c m Hm. rewrite ak_bind, fst_bind. cbn [snd fst modify].
          destruct (quiet_when c m Hm s) as (A & B & C & _). rewrite A. cbn [app].
          unfold held. destruct (fst (whenM c m s)); cbn in *. subst. rewrite map_app, app_assoc. apply Permutation_refl. }
        destruct (od_static (s_conf s)); [apply Hh, quiet_ss_start|].
        destruct (od_pub (s_conf s)); [apply Hh, quiet_pub_start|apply (Permutation_app_comm [_])].
    + (* RemoveReader *) apply ak_noans, noans_remove_reader.
    + (* StaticReady *) destruct (s_ssRunning s && negb (s_instReady s)) eqn:En.
      * destruct (akq_static_ready q s En) as [A1 A2]. rewrite A1, A2, app_nil_r. apply Permutation_refl.
      * unfold do_static_ready. rewrite En. cbn. rewrite app_nil_r. apply Permutation_refl.
    + (* StaticNotReady *) apply ak_noans, noans_static_not_ready.
    + (* TimerFire *) apply ak_timer.
    + (* ReloadConf *) apply Permutation_refl.
    + (* Close *) apply ak_close.
Qed.

(* ---- histories ------------------------------------------------------------------------------------------ *)
Definition req_ids (o : pop) : list Z :=
  match o with Describe q | AddPublisher q _ _ | AddReader q _ | StaticReady q => [q] | _ => [] end.

Fixpoint all_keys (fx : bool) (s : pstate) (ops : list pop) : list Z :=
  match ops with
  | [] => []
  | o :: r => op_keys s o ++ all_keys fx (fst (step_gen fx s o)) r
  end.

Lemma trace_ak fx ops : forall s,
  Permutation (ak (trace (step_gen fx) s ops) ++ held (final (step_gen fx) s ops)) (held s ++ all_keys fx s ops).
Proof.
  induction ops as [|o r IH]; intros s.
  - cbn. rewrite app_nil_r. apply Permutation_refl.
  - rewrite trace_cons, final_cons, ak_app. cbn [all_keys].
    rewrite <- app_assoc.
    eapply Permutation_trans; [apply Permutation_app_head, IH|].
    rewrite !app_assoc. apply Permutation_app_tail. apply step_ak.
Qed.

Lemma op_keys_sub s o : op_keys s o = req_ids o \/ op_keys s o = [].
Proof.
  destruct o; cbn; auto.
  destruct (negb (s_closed s) && (s_ssRunning s && negb (s_instReady s))); auto.
Qed.

Lemma all_keys_nodup fx ops : forall s,
  NoDup (flat_map req_ids ops) ->
  NoDup (all_keys fx s ops) /\ incl (all_keys fx s ops) (flat_map req_ids ops).
Proof.
  induction ops as [|o r IH]; intros s Hn; [split; [constructor|intros x []]|].
  cbn [flat_map all_keys] in *.
  assert (Hr : NoDup (flat_map req_ids r)).
  { clear - Hn. induction (req_ids o) as [|x l IHl]; [exact Hn|]. inversion Hn; auto. }
  destruct (IH (fst (step_gen fx s o)) Hr) as [N I].
  destruct (op_keys_sub s o) as [E|E]; rewrite E.
  - split.
    + clear - Hn N I. induction (req_ids o) as [|x l IHl]; [exact N|].
      cbn in *. inversion Hn as [|? ? Hx Hl]; subst. constructor; [|auto].
      rewrite in_app_iff in *. intros [H|H]; [tauto|]. apply Hx. right. apply I, H.
    + apply incl_app; [apply incl_appl, incl_refl|apply incl_appr, I].
  - cbn. split; [exact N|apply incl_appr, I].
Qed.

Lemma quiet_init_m : Quiet init_m.
Proof.
  unfold init_m. qbind; [apply quiet_when, quiet_set_available|apply quiet_when, quiet_handler_start].
Qed.
Lemma init_quiet cf : ak (init_events cf) = [] /\ held (init_state cf) = [].
Proof.
  destruct (quiet_init_m (init_base cf)) as (A & B & C & _). unfold init_events, init_state, held.
  rewrite A, B, C. split; reflexivity.
Qed.

(* no request id is answered twice; what is still on hold has not been answered *)
Lemma c19_at_most_once fx cf ops :
  NoDup (flat_map req_ids ops) ->
  NoDup (ak (snd (run_gen fx cf ops)) ++ held (fst (run_gen fx cf ops))).
Proof.
  intros Hn. unfold run_gen. cbn [fst snd]. rewrite ak_app.
  destruct (init_quiet cf) as [I1 I2]. rewrite I1.
  cbn [app].
  pose proof (trace_ak fx ops (init_state cf)) as P. rewrite I2 in P. cbn [app] in P.
  eapply Permutation_NoDup; [apply Permutation_sym, P|]. apply all_keys_nodup. exact Hn.
Qed.

Lemma c19_answers_nodup fx cf ops :
  NoDup (flat_map req_ids ops) -> NoDup (ak (snd (run_gen fx cf ops))).
Proof.
  intros Hn. pose proof (c19_at_most_once fx cf ops Hn) as H.
  clear - H. induction (ak (snd (run_gen fx cf ops))) as [|x l IH]; [constructor|].
  cbn in H. inversion H as [|? ? Hx Hl]; subst. constructor; [|apply IH, Hl].
  intros Hi. apply Hx. apply in_or_app. left; exact Hi.
Qed.

(* once the path is closed, every request that reached it has been answered exactly once *)
Lemma c19_exactly_once_closed fx cf ops :
  conf_ok cf = true -> s_closed (fst (run_gen fx cf ops)) = true ->
  Permutation (ak (snd (run_gen fx cf ops))) (all_keys fx (init_state cf) ops).
Proof.
  intros Hc Hcl. unfold run_gen in *. cbn [fst snd] in *. rewrite ak_app.
  destruct (init_quiet cf) as [I1 I2]. rewrite I1.
  cbn [app].
  pose proof (trace_ak fx ops (init_state cf)) as P. rewrite I2 in P. cbn [app] in P.
  pose proof (inv_run fx cf ops Hc) as [Hb _].
  destruct (closed_facts _ _ Hb Hcl) as (Hh & _). rewrite Hh, app_nil_r in P. exact P.
Qed.

(* ---- Close answers everything that is on hold, with "terminated" ----------------------------------------- *)
Lemma c19_answered_on_close fx s q :
  s_closed s = false -> In q (held s) ->
  In (EAnswer q (AErr E_TERMINATED)) (snd (step_gen fx s Close)) /\ held (fst (step_gen fx s Close)) = [].
Proof.
  intros Hc Hin. unfold step_gen. rewrite Hc. split.
  - unfold do_close. rewrite !snd_bind. cbn [snd fst emit modify].
    apply in_or_app. right. apply in_or_app. right. apply in_or_app. left.
    unfold fail_on_hold. cbn [snd]. unfold held in Hin.
    replace (s_dhold (clear_timers s)) with (s_dhold s) by (destruct s; reflexivity).
    replace (s_rhold (clear_timers s)) with (s_rhold s) by (destruct s; reflexivity).
    apply in_app_or in Hin. apply in_or_app. destruct Hin as [H|H].
    + left. apply in_map_iff. exists q. auto.
    + right. apply in_map_iff in H. destruct H as (qr & E & H). apply in_map_iff. exists qr. subst. auto.
  - pose proof (ak_close s) as P.
    assert (L : length (ak (snd (do_close s))) = length (held s)).
    { unfold do_close. rewrite !ak_bind. cbn [snd fst emit modify].
      destruct (held_noans _ (fst (fail_on_hold E_TERMINATED (clear_timers s))) noans_close_source) as [_ A1].
      destruct (held_noans _ (fst (close_source (fst (fail_on_hold E_TERMINATED (clear_timers s))))) noans_close_demand) as [_ A2].
      destruct (held_noans _ (fst (close_demand (fst (close_source (fst (fail_on_hold E_TERMINATED (clear_timers s))))))) noans_close_stream) as [_ A3].
      rewrite A1, A2, A3. cbn [app ak keys]. rewrite !app_nil_r.
      unfold fail_on_hold. cbn [snd]. rewrite ak_app, ak_map_ans1, ak_map_ans2.
      unfold held. destruct s; reflexivity. }
    apply Permutation_length in P. rewrite app_length in P.
    destruct (held (fst (do_close s))); [reflexivity|]. cbn [length] in P. lia.
Qed.
