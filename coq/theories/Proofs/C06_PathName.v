(* Proofs for C06 (Model/C06_PathName.v, Lib/PathClean.v; reuses the token machinery of
   Proofs/C26_RecPath.v for the sequential strings.ReplaceAll passes). *)
From Coq Require Import List ZArith Bool Lia.
Require Import MTX.Lib.Civil MTX.Lib.PathClean MTX.Model.C26_RecPath MTX.Proofs.C26_RecPath MTX.Model.C06_PathName.
Import ListNotations.
Local Open Scope Z_scope.

(* ------------------------------------------------------------------ small facts *)

Lemma forallb_no37 s : no_pct s = true -> no37 s.
Proof.
  unfold no_pct, no37. rewrite forallb_forall, Forall_forall. intros H c Hc. specialize (H c Hc).
  destruct (Z.eqb_spec c 37); [discriminate|assumption].
Qed.

Lemma path_char_cases c : path_char c = true -> c <> 37 /\ c <> 92 /\ c <> 10.
Proof. unfold path_char. lia. Qed.

Lemma valid_parts n : valid n = true ->
  n <> [] /\ rooted n = false /\ last n 0 <> 47 /\ forallb path_char n = true
  /\ existsb (fun g => is_dot g || is_dd g) (split47 n) = false.
Proof.
  unfold valid, is_valid_path_name. destruct n as [|c0 r]; [discriminate|].
  destruct (Z.eqb_spec c0 47); [discriminate|].
  destruct (Z.eqb_spec (last (c0 :: r) 0) 47); [discriminate|].
  destruct (forallb path_char (c0 :: r)); [|discriminate]. cbn [negb].
  destruct (existsb _ (split47 (c0 :: r))); [discriminate|]. intros _.
  repeat split; try assumption; try discriminate. cbn [rooted]. now apply Z.eqb_neq.
Qed.

Lemma valid_no37 n : valid n = true -> no37 n.
Proof.
  intros H. destruct (valid_parts n H) as (_ & _ & _ & Hc & _). unfold no37. apply Forall_forall.
  rewrite forallb_forall in Hc. intros c Hin. specialize (Hc c Hin). now apply path_char_cases in Hc.
Qed.

(* ------------------------------------------------------------------ the shape of valid names *)

Lemma join47_split47 s : join47 (split47 s) = s.
Proof.
  induction s as [|c r IH]; [reflexivity|]. cbn [split47].
  destruct (Z.eqb_spec c 47) as [->|Hc].
  - rewrite join47_cons by apply split47_nonnil. now rewrite IH.
  - destruct (split47 r) as [|g gs] eqn:E; [now apply split47_nonnil in E|].
    destruct gs as [|g' gs'].
    + cbn [join47] in *. now rewrite IH.
    + rewrite join47_cons in * by discriminate. cbn [app]. now rewrite IH.
Qed.

(* the segments of s: the only non-empty list of '/'-free strings whose join is s *)
Lemma segments_unique s segs : segs <> [] -> Forall no47 segs -> join47 segs = s -> segs = split47 s.
Proof. intros Hne Hno <-. symmetry. now apply split47_join47. Qed.

Lemma last_cons_ne {A} (c : A) r d : r <> [] -> last (c :: r) d = last r d.
Proof. destruct r; [contradiction|reflexivity]. Qed.

Definition allowed (c : Z) : Prop :=
  (48 <= c <= 57) \/ (65 <= c <= 90) \/ (97 <= c <= 122) \/ c = 95 \/ c = 45 \/ c = 46 \/ c = 47.

Theorem valid_shape n :
  valid n = true <->
  n <> [] /\ (forall c, In c n -> allowed c) /\ hd 0 n <> 47 /\ last n 0 <> 47
  /\ (forall segs, segs <> [] -> Forall no47 segs -> join47 segs = n -> ~ In [46] segs /\ ~ In [46; 46] segs).
Proof.
  split.
  - intros H. destruct (valid_parts n H) as (Hne & Hr & Hl & Hc & Hd).
    repeat split; try assumption.
    + intros c Hin. rewrite forallb_forall in Hc. specialize (Hc c Hin). unfold path_char in Hc. unfold allowed. lia.
    + destruct n as [|c0 r]; [contradiction|]. cbn [hd rooted] in *. now apply Z.eqb_neq.
    + intros Hin. rewrite (segments_unique n segs H0 H1 H2) in Hin.
      assert (existsb (fun g => is_dot g || is_dd g) (split47 n) = true); [|congruence].
      apply existsb_exists. exists [46]. split; [assumption|reflexivity].
    + intros Hin. rewrite (segments_unique n segs H0 H1 H2) in Hin.
      assert (existsb (fun g => is_dot g || is_dd g) (split47 n) = true); [|congruence].
      apply existsb_exists. exists [46; 46]. split; [assumption|reflexivity].
  - intros (Hne & Hc & Hh & Hl & Hs). unfold valid, is_valid_path_name.
    destruct n as [|c0 r]; [contradiction|]. cbn [hd] in Hh.
    destruct (Z.eqb_spec c0 47); [contradiction|].
    destruct (Z.eqb_spec (last (c0 :: r) 0) 47); [contradiction|].
    assert (Hf : forallb path_char (c0 :: r) = true).
    { apply forallb_forall. intros c Hin. specialize (Hc c Hin). unfold allowed in Hc. unfold path_char. lia. }
    rewrite Hf. cbn [negb].
    destruct (existsb _ (split47 (c0 :: r))) eqn:E; [|reflexivity].
    apply existsb_exists in E. destruct E as (g & Hin & Hg).
    destruct (Hs (split47 (c0 :: r)) (split47_nonnil _) (split47_segs_no47 _) (join47_split47 _)) as [H1 H2].
    apply orb_true_iff in Hg. destruct Hg as [Hg|Hg]; apply bytes_eqb_eq in Hg; subst g; contradiction.
Qed.

(* ------------------------------------------------------------------ ReplaceAll passes, token-wise *)

Lemma flat_app a b : flat (a ++ b) = flat a ++ flat b.
Proof. unfold flat. apply flat_map_app. Qed.

Lemma fold_items p t : no37 p -> forall ks its, Forall item_ok its -> Forall (fun k => is_lit k = false) ks ->
  fold_left (fun s k => repl (tok_src k) (tok_text p t k) 0 s) ks (flat its) =
  flat (fold_left (fun its k => map (pass1 k (tok_text p t k)) its) ks its).
Proof.
  intros Hp. induction ks as [|k ks IHk]; intros its Hok Hks; [reflexivity|].
  inversion Hks as [|? ? Hk Hks']; subst. cbn [fold_left]. rewrite repl_items by assumption.
  apply IHk; [|exact Hks'].
  apply Forall_forall. intros i Hi. apply in_map_iff in Hi. destruct Hi as (j & <- & Hj).
  apply pass1_ok; [apply tok_text_no37; [exact Hp|destruct k; discriminate]|].
  rewrite Forall_forall in Hok. now apply Hok.
Qed.

Lemma fold_map_items (g : tok -> list Z) ks : forall its,
  fold_left (fun its k => map (pass1 k (g k)) its) ks its =
  map (fun i => fold_left (fun i k => pass1 k (g k) i) ks i) its.
Proof.
  induction ks as [|k ks IH]; intros its; [now rewrite map_id|].
  cbn [fold_left]. rewrite IH, map_map. reflexivity.
Qed.

(* stage 1: only %path is substituted *)
Definition text1 (n : list Z) (k : tok) : list Z := match k with TPath => n | _ => tok_src k end.

Definition stage1 (n : list Z) (ts : list tok) : list item := map (pass1 TPath n) (items_of ts).

Lemma stage1_ok n ts : no37 n -> forallb (fun k => negb (tok_eqb k (TLit 37))) ts = true ->
  Forall item_ok (stage1 n ts).
Proof.
  intros Hn Hts. apply Forall_forall. intros i Hi. apply in_map_iff in Hi. destruct Hi as (j & <- & Hj).
  apply pass1_ok; [exact Hn|]. pose proof (items_of_ok ts Hts) as H. rewrite Forall_forall in H. now apply H.
Qed.

Lemma stage1_flat n ts : flat (stage1 n ts) = flat_map (text1 n) ts.
Proof.
  unfold stage1, items_of, flat. induction ts as [|k ts IH]; [reflexivity|].
  cbn [map flat_map]. rewrite IH. f_equal. destruct k; reflexivity.
Qed.

Theorem expand_tokens f ts n : pct_ok f = true -> no37 n ->
  expand_path f ts n = flat_map (text1 n) (tokenize f) ++ ext ts.
Proof.
  intros Hf Hn. unfold expand_path, src_path. f_equal.
  rewrite <- (detokenize f) at 1. rewrite <- flat_items_of.
  rewrite repl_items; [|reflexivity|now apply items_of_ok]. apply stage1_flat.
Qed.

Lemma ext_no37 ts : no37 (ext ts).
Proof. destruct ts; repeat constructor; lia. Qed.

Theorem segment_file_tokens f ts n t : pct_ok f = true -> no37 n ->
  segment_file f ts n t = render (tokenize f) n t ++ ext ts.
Proof.
  intros Hf Hn. unfold segment_file, encode_go.
  assert (E : expand_path f ts n = flat (stage1 n (tokenize f) ++ [IX (ext ts)])).
  { rewrite flat_app, stage1_flat. unfold flat at 1. cbn [flat_map item_text]. rewrite app_nil_r.
    now apply expand_tokens. }
  rewrite E. rewrite fold_items; [|constructor| |unfold ptoks; repeat constructor].
  2:{ apply Forall_app. split; [now apply stage1_ok|]. constructor; [apply ext_no37|constructor]. }
  rewrite fold_map_items, map_app, flat_app. cbn [map]. unfold flat at 2. cbn [flat_map].
  replace (item_text (fold_left (fun i k => pass1 k (tok_text [] t k) i) ptoks (IX (ext ts)))) with (ext ts)
    by reflexivity.
  rewrite app_nil_r. f_equal.
  unfold stage1, items_of, flat, render. rewrite !map_map. clear E Hf.
  induction (tokenize f) as [|k l IH]; [reflexivity|]. cbn [map flat_map]. rewrite IH. f_equal.
  destruct k; reflexivity.
Qed.

(* literal (no '%') prefixes pass through tokenisation and rendering *)
Lemma token_at_no37 c s : c <> 37 -> token_at (c :: s) = None.
Proof.
  intros Hc. unfold token_at, ptoks. cbn [find tok_src prefixb].
  destruct (Z.eqb_spec 37 c); [lia|]. reflexivity.
Qed.

Lemma tokenize_lit L : no37 L -> forall r, tokenize (L ++ r) = map TLit L ++ tokenize r.
Proof.
  intros H r. induction H as [|c L Hc HL IH]; [reflexivity|].
  unfold tokenize in *. cbn [app tokenize_aux map]. rewrite token_at_no37 by assumption. now rewrite IH.
Qed.

Lemma flat_map_lit (g : tok -> list Z) L : (forall c, g (TLit c) = [c]) -> flat_map g (map TLit L) = L.
Proof. intros Hg. induction L as [|c L IH]; [reflexivity|]. cbn [map flat_map]. now rewrite Hg, IH. Qed.

(* ------------------------------------------------------------------ no ".." segment is created *)

Definition live_text (x : list Z) : Prop := forall s, s <> SBad -> scan s x = SX.

Lemma plain_live x : x <> [] -> Forall (fun c => c <> 47 /\ c <> 46) x -> live_text x.
Proof. intros Hne H s Hs. now apply scan_plain. Qed.

Lemma bytes_eqb_neq a b : bytes_eqb a b = false <-> a <> b.
Proof.
  split.
  - intros H E. apply bytes_eqb_eq in E. congruence.
  - intros H. destruct (bytes_eqb a b) eqn:E; [apply bytes_eqb_eq in E; contradiction|reflexivity].
Qed.

Lemma seg_plain_iff x : seg_plain x = true <-> x <> [] /\ x <> [46] /\ x <> [46; 46].
Proof.
  unfold seg_plain, is_dot, is_dd. rewrite !andb_true_iff, !negb_true_iff, !bytes_eqb_neq.
  destruct x; cbn [is_nil]; split; intros H; repeat split; try tauto; try discriminate.
  destruct H as [[H _] _]. discriminate.
Qed.

(* a segment text that is not empty, "." or "..", glued after at most two bytes *)
Lemma glue_plain p g : (length p <= 2)%nat -> g <> [] -> is_dot g = false -> is_dd g = false ->
  seg_plain (p ++ g) = true /\ is_dd (p ++ g) = false.
Proof.
  unfold is_dot, is_dd. rewrite !bytes_eqb_neq. intros Hl Hne H1 H2.
  assert (H : p ++ g <> [] /\ p ++ g <> [46] /\ p ++ g <> [46; 46]).
  { destruct p as [|a [|b [|d p']]]; cbn [app length] in *; try lia.
    - tauto.
    - repeat split; try discriminate; intros E; inversion E; subst; congruence.
    - repeat split; try discriminate. intros E; inversion E; subst; congruence. }
  split; [now apply seg_plain_iff|]. tauto.
Qed.

(* a valid name, glued to whatever precedes it in its segment, leaves the scanner in SX *)
Lemma valid_live n : valid n = true -> live_text n.
Proof.
  intros Hv s Hs. destruct (valid_parts n Hv) as (Hne & Hr & Hl & _ & Hd).
  destruct (live_state s Hs) as (p & Hp & <- & Hlen).
  apply scan_segments; [exact Hp|].
  destruct (split47 n) as [|g gs] eqn:E; [now apply split47_nonnil in E|].
  cbn [existsb] in Hd. apply orb_false_iff in Hd. destruct Hd as [Hg Hgs].
  apply orb_false_iff in Hg. destruct Hg as [Hg1 Hg2].
  (* the first segment is not empty: the name does not begin with '/' *)
  assert (Hgne : g <> []).
  { intros ->. destruct n as [|c r]; [contradiction|]. cbn [split47] in E. cbn [rooted] in Hr.
    rewrite Hr in E. destruct (split47 r); discriminate. }
  (* the last segment is not empty: the name does not end with '/' *)
  assert (Hlast : last (g :: gs) [] <> []).
  { clear - E Hl Hne. revert g gs E Hne Hl. induction n as [|c r IH]; intros g gs E Hne Hl; [contradiction|].
    cbn [split47] in E. destruct r as [|c' r'].
    - cbn [last] in Hl. destruct (Z.eqb_spec c 47); [contradiction|]. cbn in E. inversion E; subst. discriminate.
    - rewrite last_cons_ne in Hl by discriminate.
      destruct (split47 (c' :: r')) as [|g' gs'] eqn:E'; [now apply split47_nonnil in E'|].
      specialize (IH g' gs' eq_refl ltac:(discriminate) Hl).
      destruct (c =? 47); inversion E; subst.
      + exact IH.
      + match goal with |- last (_ :: ?G) [] <> [] => destruct G end; [cbn [last]; discriminate|exact IH]. }
  assert (Hsegs : forall x, In x gs -> is_dot x = false /\ is_dd x = false).
  { intros x Hx. assert (Hf : (fun g0 => is_dot g0 || is_dd g0) x = false).
    { destruct ((fun g0 => is_dot g0 || is_dd g0) x) eqn:Ex; [|reflexivity].
      assert (existsb (fun g0 => is_dot g0 || is_dd g0) gs = true) by (apply existsb_exists; now exists x).
      congruence. }
    now apply orb_false_iff in Hf. }
  destruct (glue_plain p g Hlen Hgne Hg1 Hg2) as [Hpl Hndd].
  split.
  - cbn [existsb]. apply orb_false_iff. split; [exact Hndd|].
    destruct (existsb is_dd gs) eqn:Ex; [|reflexivity]. apply existsb_exists in Ex.
    destruct Ex as (x & Hx & Hxd). destruct (Hsegs x Hx). congruence.
  - destruct gs as [|g' gs'].
    + cbn [last]. exact Hpl.
    + rewrite last_cons_ne by discriminate. rewrite last_cons_ne in Hlast by discriminate.
      assert (Hin : In (last (g' :: gs') []) (g' :: gs')).
      { clear. revert g'. induction gs' as [|y gs' IH]; intros g'; [left; reflexivity|right; apply IH]. }
      destruct (Hsegs _ Hin) as [H1 H2]. apply seg_plain_iff.
      unfold is_dot, is_dd in H1, H2. rewrite bytes_eqb_neq in H1, H2. tauto.
Qed.

(* texts of the time placeholders: non-empty, digits / sign / 'Z' only *)
Definition tchar (c : Z) : Prop := c <> 47 /\ c <> 46.

Lemma fmt_fuel_ne f n : fmt_fuel (S f) n <> [].
Proof.
  cbn [fmt_fuel]. destruct (n <? 10); [discriminate|]. intros E. apply app_eq_nil in E. destruct E; discriminate.
Qed.

Lemma digits_tchar l : forallb is_digit l = true -> Forall tchar l.
Proof.
  intros H. apply Forall_forall. intros c Hc. rewrite forallb_forall in H. specialize (H c Hc).
  unfold is_digit, tchar in *. lia.
Qed.

Lemma format_int_live n : format_int n <> [] /\ Forall tchar (format_int n).
Proof.
  unfold format_int. destruct (Z.ltb_spec n 0).
  - split; [discriminate|]. constructor; [unfold tchar; lia|]. apply digits_tchar, fmt_fuel_digits. lia.
  - split; [|apply digits_tchar, fmt_fuel_digits; assumption].
    change 40%nat with (S 39). apply fmt_fuel_ne.
Qed.

Lemma leading_zeros_live v k : leading_zeros v k <> [] /\ Forall tchar (leading_zeros v k).
Proof.
  unfold leading_zeros. destruct (format_int_live v) as [Hne Hall].
  destruct (k <=? length (format_int v))%nat; [now split|]. split.
  - destruct (repeat 48 (k - length (format_int v))); [exact Hne|discriminate].
  - apply Forall_app. split; [|exact Hall]. apply Forall_forall. intros c Hc. apply repeat_spec in Hc. subst.
    unfold tchar. lia.
Qed.

Lemma zone_text_live off : zone_text off <> [] /\ Forall tchar (zone_text off).
Proof.
  unfold zone_text. destruct (off =? 0); [split; [discriminate|repeat constructor; unfold tchar; lia]|].
  split; [discriminate|]. constructor; [unfold tchar; destruct (0 <? off); lia|].
  apply Forall_app. split; apply leading_zeros_live.
Qed.

Lemma time_text_live p t k : is_lit k = false -> k <> TPath -> live_text (tok_text p t k).
Proof.
  intros Hk Hp. apply plain_live; destruct k; try discriminate; try contradiction; cbn [tok_text];
    first [apply format_int_live | apply leading_zeros_live | apply zone_text_live].
Qed.

Lemma src_live k : is_lit k = false -> live_text (tok_src k).
Proof.
  intros Hk. apply plain_live; destruct k; try discriminate; cbn [tok_src]; try discriminate;
    repeat constructor; lia.
Qed.

(* the relation kept between the scan of the format text and the scan of what it renders to *)
Definition srel (sf sr : sst) : Prop := sf = SBad \/ sr = sf \/ sr = SX.

Lemma srel_step sf sr c : srel sf sr -> srel (sstep sf c) (sstep sr c).
Proof.
  intros H. destruct H as [H|[H|H]]; subst; [left; reflexivity|right; left; reflexivity|].
  unfold srel, sstep. destruct (c =? 47); [destruct sf; auto|]. destruct (c =? 46); destruct sf; auto.
Qed.

Section Simulation.
  Variable g : tok -> list Z.
  Hypothesis g_lit : forall c, g (TLit c) = [c].
  Hypothesis g_live : forall k, is_lit k = false -> live_text (g k).

  Lemma sim_tokens ts : forall sf sr, srel sf sr ->
    srel (scan sf (flat_map tok_src ts)) (scan sr (flat_map g ts)).
  Proof.
    induction ts as [|k ts IH]; intros sf sr H; [exact H|].
    cbn [flat_map]. rewrite !scan_app. apply IH.
    destruct k as [c| | | | | | | | | |]; try (
      match goal with |- srel (scan sf (tok_src ?k)) _ =>
        destruct H as [ -> | H' ]; [rewrite scan_bad; left; reflexivity|];
        assert (Hr : sr <> SBad \/ sf = SBad) by (destruct H' as [ -> | -> ]; [destruct sf; auto; left; discriminate|left; discriminate]);
        destruct Hr as [ Hr | -> ]; [|rewrite scan_bad; left; reflexivity];
        right; right; apply (g_live k eq_refl); exact Hr
      end).
    rewrite g_lit. cbn [tok_src]. now apply srel_step.
  Qed.

  Lemma no_dd_tokens ts tail : has_dd (flat_map tok_src ts) = false -> live_text tail ->
    has_dd (flat_map g ts ++ tail) = false.
  Proof.
    unfold has_dd. intros H Ht. rewrite scan_app.
    pose proof (sim_tokens ts S0 S0 (or_intror (or_introl eq_refl))) as R.
    destruct R as [R|[R|R]].
    - rewrite R in H. discriminate.
    - rewrite Ht; [reflexivity|]. rewrite R. intros E. rewrite E in H. discriminate.
    - rewrite Ht; [reflexivity|]. rewrite R. discriminate.
  Qed.
End Simulation.

Lemma ext_live ts : live_text (ext ts).
Proof.
  intros s Hs. assert (H : sstep s 46 <> SBad) by (destruct s; try discriminate; contradiction).
  destruct ts; cbn [ext].
  - change (scan s [46; 116; 115]) with (scan (sstep s 46) [116; 115]).
    apply scan_plain; [exact H|discriminate|repeat constructor; lia].
  - change (scan s [46; 109; 112; 52]) with (scan (sstep s 46) [109; 112; 52]).
    apply scan_plain; [exact H|discriminate|repeat constructor; lia].
Qed.

(* ------------------------------------------------------------------ renderings *)

Record rend_ok (g : tok -> list Z) : Prop := {
  ro_lit : forall c, g (TLit c) = [c];
  ro_live : forall k, is_lit k = false -> live_text (g k);
  ro_head : forall k, is_lit k = false -> g k <> [] /\ rooted (g k) = false }.

Lemma tchar_head x : x <> [] -> Forall tchar x -> x <> [] /\ rooted x = false.
Proof.
  intros Hne H. split; [exact Hne|]. destruct H as [|c l [Hc _] _]; [contradiction|]. cbn [rooted]. now apply Z.eqb_neq.
Qed.

Lemma text1_ok n : valid n = true -> rend_ok (text1 n).
Proof.
  intros Hv. destruct (valid_parts n Hv) as (Hne & Hr & _). split.
  - reflexivity.
  - intros k Hk. destruct k; try discriminate; cbn [text1]; try (apply src_live; reflexivity). now apply valid_live.
  - intros k Hk. destruct k; try discriminate; cbn [text1 tok_src rooted]; try (split; [discriminate|reflexivity]).
    now split.
Qed.

Lemma tok_text_ok n t : valid n = true -> rend_ok (tok_text n t).
Proof.
  intros Hv. destruct (valid_parts n Hv) as (Hne & Hr & _). split.
  - reflexivity.
  - intros k Hk. destruct k; try discriminate; try (apply time_text_live; [reflexivity|discriminate]).
    cbn [tok_text]. now apply valid_live.
  - intros k Hk. destruct k; try discriminate; cbn [tok_text]; try (now split);
      apply tchar_head; first [apply format_int_live | apply leading_zeros_live | apply zone_text_live].
Qed.

Lemma render_split g L r : (forall c, g (TLit c) = [c]) -> no37 L ->
  flat_map g (tokenize (L ++ r)) = L ++ flat_map g (tokenize r).
Proof. intros Hg HL. rewrite tokenize_lit by assumption. rewrite flat_map_app, flat_map_lit by assumption. reflexivity. Qed.

Lemma tokenize_head c r : exists k ks, tokenize (c :: r) = k :: ks /\ (is_lit k = true -> k = TLit c).
Proof.
  unfold tokenize. cbn [tokenize_aux]. destruct (token_at (c :: r)) as [k|] eqn:E.
  - eexists _, _. split; [reflexivity|]. intros Hl. apply token_at_some in E. destruct E as [E _]. congruence.
  - eexists _, _. split; [reflexivity|]. reflexivity.
Qed.

Lemma render_not_rooted g f tail : rend_ok g -> rooted f = false -> rooted tail = false ->
  rooted (flat_map g (tokenize f) ++ tail) = false.
Proof.
  intros [Hl _ Hh] Hf Ht. destruct f as [|c r]; [exact Ht|].
  destruct (tokenize_head c r) as (k & ks & E & Hk). rewrite E. cbn [flat_map].
  destruct (is_lit k) eqn:El.
  - rewrite (Hk eq_refl), Hl. exact Hf.
  - destruct (Hh k El) as [Hne Hr]. destruct (g k); [contradiction|exact Hr].
Qed.

Lemma ext_not_rooted ts : rooted (ext ts) = false.
Proof. destruct ts; reflexivity. Qed.

Lemma has_dd_render g f tail : rend_ok g -> has_dd f = false -> live_text tail ->
  has_dd (flat_map g (tokenize f) ++ tail) = false.
Proof.
  intros [Hl Hv _] Hf Ht. apply no_dd_tokens; try assumption. now rewrite detokenize.
Qed.

Lemma no_backslash_ok s : no_backslash s = true -> Forall (fun c => c <> 92) s.
Proof.
  unfold no_backslash. rewrite forallb_forall, Forall_forall. intros H c Hc. specialize (H c Hc).
  destruct (Z.eqb_spec c 92); [discriminate|assumption].
Qed.

(* the base directory and a rendered path, as cleaned absolute paths x and x/e with e free of ".." *)
Lemma decomp g cwd f ts : rend_ok g -> format_ok f = true -> cwd_ok cwd = true ->
  exists x e, rooted x = true /\ no37 x /\ abs cwd (common_path f) = clean x /\
              abs cwd (flat_map g (tokenize f) ++ ext ts) = clean (x ++ 47 :: e) /\ has_dd e = false.
Proof.
  intros Hg Hf Hcwd. unfold format_ok in Hf. apply andb_true_iff in Hf. destruct Hf as [Hf Hc].
  apply andb_true_iff in Hf. destruct Hf as [Hpct Hbs].
  unfold cwd_ok in Hcwd. apply andb_true_iff in Hcwd. destruct Hcwd as [Hcwd _].
  apply andb_true_iff in Hcwd. destruct Hcwd as [Hroot Hcpct]. apply forallb_no37 in Hcpct.
  destruct (common_path f) as [|c0 c'] eqn:Ec.
  - apply andb_true_iff in Hc. destruct Hc as [Hrel Hdd]. apply negb_true_iff in Hrel, Hdd.
    exists cwd, (flat_map g (tokenize f) ++ ext ts). repeat split; try assumption.
    + unfold abs. cbn [rooted]. now apply clean_trailing_slash.
    + unfold abs. rewrite render_not_rooted; [reflexivity|assumption|assumption|apply ext_not_rooted].
    + apply has_dd_render; [assumption|assumption|apply ext_live].
  - set (c := c0 :: c') in *. apply andb_true_iff in Hc. destruct Hc as [Hc Hdd].
    apply andb_true_iff in Hc. destruct Hc as [Hpre Hnp]. apply negb_true_iff in Hdd. apply forallb_no37 in Hnp.
    apply is_prefix_iff in Hpre. destruct Hpre as [r Hr].
    assert (Hskip : skipn (length c + 1) f = r).
    { rewrite Hr. apply skipn_app_exact. rewrite app_length. reflexivity. }
    rewrite Hskip in Hdd.
    assert (HL : no37 (c ++ [47])) by (apply Forall_app; split; [assumption|repeat constructor; lia]).
    assert (E : flat_map g (tokenize f) ++ ext ts = c ++ 47 :: (flat_map g (tokenize r) ++ ext ts)).
    { rewrite Hr. rewrite render_split; [|apply Hg|exact HL]. rewrite <- !app_assoc. reflexivity. }
    rewrite E. set (e := flat_map g (tokenize r) ++ ext ts).
    assert (He : has_dd e = false) by (apply has_dd_render; [assumption|assumption|apply ext_live]).
    destruct (rooted c) eqn:Hrc.
    + exists c, e. repeat split; try assumption.
      * unfold abs. now rewrite Hrc.
      * unfold abs. now rewrite (rooted_app c (47 :: e) Hrc).
    + exists (cwd ++ 47 :: c), e. repeat split; try assumption.
      * now apply rooted_app.
      * apply Forall_app. split; [assumption|]. constructor; [lia|assumption].
      * unfold abs. now rewrite Hrc.
      * unfold abs. assert (Hre : rooted (c ++ 47 :: e) = false) by exact Hrc. rewrite Hre.
        now rewrite <- app_assoc.
Qed.

Lemma format_ok_pct f : format_ok f = true -> pct_ok f = true.
Proof. unfold format_ok. intros H. apply andb_true_iff in H. destruct H as [H _]. apply andb_true_iff in H. tauto. Qed.

(* ------------------------------------------------------------------ containment *)

Theorem containment_file cwd f ts n t : valid n = true -> format_ok f = true -> cwd_ok cwd = true ->
  path_under (abs cwd (common_path f)) (abs cwd (segment_file f ts n t)) = true.
Proof.
  intros Hv Hf Hc. rewrite segment_file_tokens; [|now apply format_ok_pct|now apply valid_no37].
  unfold render. destruct (decomp (tok_text n t) cwd f ts (tok_text_ok n t Hv) Hf Hc) as (x & e & Hx & _ & -> & -> & He).
  now apply clean_under.
Qed.

Theorem containment_expand cwd f ts n : valid n = true -> format_ok f = true -> cwd_ok cwd = true ->
  path_under (abs cwd (common_path f)) (find_record_path cwd f ts n) = true.
Proof.
  intros Hv Hf Hc. unfold find_record_path. rewrite expand_tokens; [|now apply format_ok_pct|now apply valid_no37].
  destruct (decomp (text1 n) cwd f ts (text1_ok n Hv) Hf Hc) as (x & e & Hx & _ & -> & -> & He).
  now apply clean_under.
Qed.

Lemma path_under_prefix base p : path_under base p = true -> is_prefix base p = true.
Proof.
  unfold path_under. intros H. apply orb_true_iff in H. destruct H as [H|H].
  - apply bytes_eqb_eq in H. subst. rewrite <- (app_nil_r base) at 2. apply is_prefix_app.
  - destruct (bytes_eqb base [47]); [exact H|].
    apply is_prefix_trans with (b := base ++ [47]); [apply is_prefix_app|exact H].
Qed.

(* what Decode accepts begins with the literal head of the format *)
Lemma fill_lit L : forall K caps, fill (map TLit L ++ K) caps = L ++ fill K caps.
Proof. induction L as [|c L IH]; intros K caps; [reflexivity|]. cbn [map app fill]. now rewrite IH. Qed.

Lemma decode_head loff L r v res : no37 L -> decode loff (L ++ r) v = Some res -> is_prefix L v = true.
Proof.
  intros HL H. apply whole_name in H. destruct H as (caps & -> & _). rewrite tokenize_lit by assumption.
  rewrite fill_lit. apply is_prefix_app.
Qed.

Theorem containment_find loff cwd f ts n v : format_ok f = true -> cwd_ok cwd = true ->
  find_candidate loff cwd f ts n v = true -> path_under (abs cwd (common_path f)) v = true.
Proof.
  intros Hf Hc H. unfold find_candidate in H. apply andb_true_iff in H. destruct H as [Hv Hd].
  destruct (decode loff (find_record_path cwd f ts n) v) as [res|] eqn:Ed; [|discriminate]. clear Hd.
  unfold find_record_path in Ed. rewrite expand_tokens in Ed; [|now apply format_ok_pct|now apply valid_no37].
  destruct (decomp (text1 n) cwd f ts (text1_ok n Hv) Hf Hc) as (x & e & Hx & Hx37 & -> & Hy & He).
  rewrite Hy in Ed. destruct (clean_app_form x e Hx He) as [EB EY]. rewrite EY in Ed.
  assert (HB : no37 (clean x)) by (apply clean_forall; [lia|lia|exact Hx37]).
  rewrite EB in *. set (A := rev (cstack true x)) in *. set (T := filter keeps (split47 e)) in *.
  unfold path_under. apply orb_true_iff.
  destruct T as [|t0 T'].
  - left. rewrite app_nil_r in Ed. rewrite <- (app_nil_r (47 :: join47 A)) in Ed.
    pose proof Ed as Ed'. apply whole_name in Ed'. destruct Ed' as (caps & -> & _).
    rewrite tokenize_lit by exact HB. rewrite fill_lit. cbn [tokenize tokenize_aux fill]. rewrite app_nil_r.
    apply bytes_eqb_refl.
  - right. destruct A as [|a0 A'].
    + change (join47 []) with (@nil Z) in *. cbn [app] in Ed. rewrite (bytes_eqb_refl [47]).
      change (47 :: join47 (t0 :: T')) with ([47] ++ join47 (t0 :: T')) in Ed.
      apply decode_head in Ed; [exact Ed|repeat constructor; lia].
    + rewrite join47_app in Ed by discriminate.
      assert (Ed2 : decode loff (((47 :: join47 (a0 :: A')) ++ [47]) ++ join47 (t0 :: T')) v = Some res).
      { rewrite <- app_assoc. exact Ed. }
      apply decode_head in Ed2; [|apply Forall_app; split; [exact HB|repeat constructor; lia]].
      destruct (bytes_eqb (47 :: join47 (a0 :: A')) [47]); [|exact Ed2].
      apply is_prefix_trans with (b := (47 :: join47 (a0 :: A')) ++ [47]); [apply is_prefix_app|exact Ed2].
Qed.

(* ------------------------------------------------------------------ the API guard, entry points *)

Theorem inside_guard cwd base cand p : inside cwd base cand = Some p ->
  p = abs cwd (clean cand) /\ is_prefix (abs cwd (clean base)) p = true.
Proof.
  unfold inside. destruct (is_prefix (abs cwd (clean base)) (abs cwd (clean cand))) eqn:E; [|discriminate].
  intros H; inversion H; subst. now split.
Qed.

Theorem delete_guarded cwd f ts found n t p : delete_segment cwd f ts found n t = DRemove p ->
  valid n = true /\ found = true /\ is_prefix (abs cwd (clean (common_path f))) p = true.
Proof.
  unfold delete_segment. destruct (valid n); [|discriminate]. destruct found; [|discriminate]. cbn [negb].
  destruct (inside cwd (common_path f) (expand_path f ts n)) as [pf|]; [|discriminate].
  destruct (inside cwd (common_path f) (encode_go pf [] t)) as [q|] eqn:E; [|discriminate].
  intros H; inversion H; subst. apply inside_guard in E. tauto.
Qed.

Theorem pm_accepts_valid n r : pm_accepts n r = true -> valid n = true.
Proof. unfold pm_accepts. intros H. apply andb_true_iff in H. tauto. Qed.

(* the guard in terms of filepath.Abs alone (Abs(Clean(x)) = Abs(x)) *)
Theorem inside_guard_abs cwd base cand p : rooted cwd = true -> inside cwd base cand = Some p ->
  p = abs cwd cand /\ is_prefix (abs cwd base) p = true.
Proof.
  intros Hc H. apply inside_guard in H. rewrite !abs_clean in H by exact Hc. exact H.
Qed.

Lemma cwd_ok_rooted cwd : cwd_ok cwd = true -> rooted cwd = true.
Proof. unfold cwd_ok. intros H. apply andb_true_iff in H. destruct H as [H _]. apply andb_true_iff in H. tauto. Qed.

(* for an accepted name and a covered format the first guard of the delete handler lets the record path through *)
Theorem guard_passes cwd f ts n : valid n = true -> format_ok f = true -> cwd_ok cwd = true ->
  inside cwd (common_path f) (expand_path f ts n) = Some (find_record_path cwd f ts n).
Proof.
  intros Hv Hf Hc. pose proof (cwd_ok_rooted cwd Hc) as Hr. unfold inside. rewrite !abs_clean by exact Hr.
  pose proof (path_under_prefix _ _ (containment_expand cwd f ts n Hv Hf Hc)) as Hp.
  unfold find_record_path in *. now rewrite Hp.
Qed.
