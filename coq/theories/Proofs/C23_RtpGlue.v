(* Proofs about the writeUnitInner glue model (Model/C23_RtpGlue.v): when a unit is re-encoded, which encoder,
   which timestamps; and the H.264 instance combined with the packetizer theorems. *)
From Coq Require Import List ZArith Bool Lia Arith.
Require Import MTX.Lib.IntWrap MTX.Model.C23_RtpH264 MTX.Model.C23_RtpGlue.
Require Import MTX.Proofs.C23_RtpH264 MTX.Proofs.C23_RtpH264Seq MTX.Proofs.C23_RtpH264Rt MTX.Proofs.C23_RtpH264Rt2.
Import ListNotations.
Local Open Scope Z_scope.

Definition has_enc (g : gstate) : bool := match g.(g_enc) with Some _ => true | None => false end.

Section Glue.
  Variable P : Type.
  Variable encode : enc -> P -> res (list packet * enc) + enc.

  (* the encoder and offset in force when the unit is encoded: the existing ones, or the ones created from the
     first oversized incoming packet *)
  Definition effective (max : Z) (avail : bool) (g : gstate) (pts : Z) (inp : list packet) (e0 : enc) (off0 : Z) : Prop :=
    (g.(g_enc) = Some e0 /\ off0 = g.(g_off))
    \/ (g.(g_enc) = None /\ avail = true /\
        exists pkt, first_oversized max inp = Some pkt
                    /\ e0 = enc_init max pkt.(p_ssrc) pkt.(p_seq)
                    /\ off0 = wrapu32 (pkt.(p_ts) - wrapu32 pts)).

  Lemma glue_encode_inv g pts inp deliv g' out :
    glue_encode P encode g pts inp deliv = GOk g' out ->
    (g.(g_enc) = None /\ g' = g /\ out = inp)
    \/ (exists e0, g.(g_enc) = Some e0 /\
         ((deliv = None /\ out = inp /\ g' = g)
          \/ (exists p pkts e', deliv = Some p /\ encode e0 p = inl (Ok (pkts, e'))
                                /\ out = stamp_all g.(g_off) pts pkts /\ g' = mkg (Some e') g.(g_off)))).
  Proof.
    unfold glue_encode. destruct deliv as [p|].
    - destruct (g_enc g) as [e0|] eqn:Ee.
      + destruct (encode e0 p) as [[[pkts e']|]|] eqn:Ep; try discriminate.
        intros H. injection H as H1 H2. subst. right. exists e0. split; [reflexivity|]. right.
        exists p, pkts, e'. repeat split. exact Ep.
      + intros H. injection H as H1 H2. subst. left. repeat split.
    - intros H. injection H as H1 H2. subst. destruct (g_enc g') as [e0|] eqn:Ee.
      + right. exists e0. split; [reflexivity|]. left. repeat split.
      + left. repeat split.
  Qed.

  Theorem glue_write_inv max avail g pts inp decerr deliv g' out :
    glue_write P encode max avail g pts inp decerr deliv = GOk g' out ->
    (g.(g_enc) = None /\ g' = g /\ out = inp /\ first_oversized max inp = None)
    \/ (exists e0 off0, effective max avail g pts inp e0 off0 /\
         ((deliv = None /\ out = [] /\ g' = mkg (Some e0) off0)
          \/ (exists p pkts e', deliv = Some p /\ encode e0 p = inl (Ok (pkts, e'))
                                /\ out = stamp_all off0 pts pkts /\ g' = mkg (Some e') off0))).
  Proof.
    unfold glue_write. intros H.
    assert (Hexisting : forall e0, g_enc g = Some e0 ->
              glue_encode P encode g pts [] deliv = GOk g' out ->
              exists e1 off0, effective max avail g pts inp e1 off0 /\
                ((deliv = None /\ out = [] /\ g' = mkg (Some e1) off0)
                 \/ (exists p pkts e', deliv = Some p /\ encode e1 p = inl (Ok (pkts, e'))
                                       /\ out = stamp_all off0 pts pkts /\ g' = mkg (Some e') off0))).
    { intros e0 Ee Hg. apply glue_encode_inv in Hg. destruct Hg as [(Hn & _)|(e1 & He1 & Hg)]; [congruence|].
      exists e1, (g_off g). split; [left; split; [exact He1|reflexivity]|].
      destruct Hg as [(A & B & C)|Hg]; [left|right; exact Hg].
      repeat split; try assumption. subst g'. destruct g as [ge go]. cbn in *. congruence. }
    destruct inp as [|p0 pr].
    - destruct (g_enc g) as [e0|] eqn:Ee.
      + right. eapply Hexisting; [reflexivity|exact H].
      + apply glue_encode_inv in H. destruct H as [(_ & A & B)|(e1 & He1 & _)]; [|congruence].
        left. repeat split; assumption.
    - destruct decerr; [discriminate|].
      destruct (g_enc g) as [e0|] eqn:Ee.
      + right. eapply Hexisting; [reflexivity|exact H].
      + destruct (first_oversized max (p0 :: pr)) as [pkt|] eqn:Ef.
        * destruct avail; [|discriminate].
          apply glue_encode_inv in H. cbn [g_enc g_off] in H.
          destruct H as [(Hn & _)|(e1 & He1 & Hg)]; [discriminate|]. injection He1 as He1.
          right. exists e1, (wrapu32 (p_ts pkt - wrapu32 pts)). split.
          -- right. repeat split; try assumption. exists pkt. repeat split; congruence.
          -- destruct Hg as [(A & B & C)|Hg]; [left|right; exact Hg].
             repeat split; try assumption. subst. reflexivity.
        * apply glue_encode_inv in H. destruct H as [(_ & A & B)|(e1 & He1 & _)]; [|congruence].
          left. repeat split; assumption.
  Qed.

  Lemma find_existsb (f : packet -> bool) l : existsb f l = match find f l with Some _ => true | None => false end.
  Proof. induction l as [|x l IH]; [reflexivity|]. cbn. destruct (f x); [reflexivity|exact IH]. Qed.

  (* a unit is re-encoded iff an encoder existed or some incoming payload exceeds the maximum *)
  Theorem glue_trigger max avail g pts inp decerr deliv g' out :
    glue_write P encode max avail g pts inp decerr deliv = GOk g' out ->
    has_enc g' = has_enc g || existsb (oversized max) inp.
  Proof.
    intros H. apply glue_write_inv in H. rewrite find_existsb. fold (first_oversized max inp).
    destruct H as [(A & B & C & D)|(e0 & off0 & He & Hr)].
    - subst g'. rewrite D. unfold has_enc. rewrite A. reflexivity.
    - assert (Hg' : has_enc g' = true).
      { destruct Hr as [(_ & _ & ->)|(p & pkts & e' & _ & _ & _ & ->)]; reflexivity. }
      rewrite Hg'. destruct He as [(A & _)|(A & _ & pkt & B & _)].
      + unfold has_enc. rewrite A. reflexivity.
      + rewrite B. symmetry. apply orb_true_r.
  Qed.

  (* without an encoder the packets are forwarded untouched, and none of them is oversized *)
  Theorem glue_passthrough max avail g pts inp decerr deliv g' out :
    glue_write P encode max avail g pts inp decerr deliv = GOk g' out -> has_enc g' = false ->
    out = inp /\ g' = g /\ forallb (fun p => negb (oversized max p)) out = true.
  Proof.
    intros H Hn. apply glue_write_inv in H.
    destruct H as [(A & B & C & D)|(e0 & off0 & _ & Hr)].
    - subst. repeat split. unfold first_oversized in D. clear -D.
      induction inp as [|x l IH]; [reflexivity|]. cbn in *. destruct (oversized max x); [discriminate|]. apply IH, D.
    - destruct Hr as [(_ & _ & ->)|(p & pkts & e' & _ & _ & _ & ->)]; discriminate.
  Qed.

  (* an oversized packet of a format without encoder is never forwarded: the unit is dropped with an error *)
  Theorem glue_no_encoder max g pts inp deliv pkt :
    g.(g_enc) = None -> first_oversized max inp = Some pkt ->
    glue_write P encode max false g pts inp false deliv = GErr g.
  Proof.
    intros Hn Hf. unfold glue_write. destruct inp as [|p0 pr]; [discriminate|]. rewrite Hn, Hf. reflexivity.
  Qed.
End Glue.

(* ------------------------------------------------------------------ H.264 instance *)

Lemma wrapu32_idem z : wrapu32 (wrapu32 z) = wrapu32 z.
Proof. unfold wrapu32. apply Z.mod_mod. unfold two32. lia. Qed.

Lemma stamp_all_ts off pts pkts :
  Forall (fun p => p.(p_ts) = 0) pkts ->
  Forall (fun p => p.(p_ts) = wrapu32 (off + wrapu32 pts)) (stamp_all off pts pkts).
Proof.
  intros H. unfold stamp_all. rewrite Forall_forall in *. intros q Hq. apply in_map_iff in Hq.
  destruct Hq as (p & <- & Hp). cbn [stamp p_ts]. rewrite (H p Hp), Z.add_0_l. apply wrapu32_idem.
Qed.

(* all packets of one re-encoded unit carry offset + PTS (mod 2^32); the offset never changes once an encoder
   exists; when the encoder is created from an oversized packet the offset reproduces that packet's timestamp *)
Theorem h264_glue_ts max avail g pts inp decerr deliv g' out :
  h264_glue_write max avail g pts inp decerr deliv = GOk g' out -> has_enc g' = true ->
  Forall (fun p => p.(p_ts) = wrapu32 (g'.(g_off) + wrapu32 pts)) out
  /\ (has_enc g = true -> g'.(g_off) = g.(g_off))
  /\ (has_enc g = false -> exists pkt, first_oversized max inp = Some pkt
                                       /\ g'.(g_off) = wrapu32 (pkt.(p_ts) - wrapu32 pts)
                                       /\ (0 <= pkt.(p_ts) < two32 -> wrapu32 (g'.(g_off) + wrapu32 pts) = pkt.(p_ts))).
Proof.
  intros H Hg'. unfold h264_glue_write in H. apply glue_write_inv in H.
  destruct H as [(A & B & C & D)|(e0 & off0 & He & Hr)].
  { subst g'. unfold has_enc in Hg'. rewrite A in Hg'. discriminate. }
  assert (Hoff : g_off g' = off0).
  { destruct Hr as [(_ & _ & ->)|(p & pkts & e' & _ & _ & _ & ->)]; reflexivity. }
  split; [|split].
  - destruct Hr as [(_ & -> & _)|(p & pkts & e' & _ & Henc & -> & _)]; [constructor|].
    rewrite Hoff. apply stamp_all_ts. unfold h264_enc_fn in Henc. injection Henc as Henc.
    apply h264_encode_post in Henc. destruct Henc as (_ & _ & F3 & _).
    rewrite Forall_forall in *. intros q Hq. apply (F3 q Hq).
  - intros Hg. rewrite Hoff. destruct He as [(_ & ->)|(A & _)]; [reflexivity|].
    unfold has_enc in Hg. rewrite A in Hg. discriminate.
  - intros Hg. destruct He as [(A & _)|(_ & _ & pkt & B & _ & C)].
    { unfold has_enc in Hg. rewrite A in Hg. discriminate. }
    exists pkt. rewrite Hoff. split; [exact B|split; [exact C|]]. intros Hr0. subst off0.
    unfold wrapu32 in *. unfold two32 in *. rewrite Zplus_mod_idemp_l.
    replace (p_ts pkt - pts mod 4294967296 + pts mod 4294967296) with (p_ts pkt) by lia.
    apply Z.mod_small. exact Hr0.
Qed.

(* the encoder in the glue state always has PayloadMaxSize = the configured maximum (3 <= max) *)
Definition enc_max_ok (max : Z) (g : gstate) : Prop :=
  match g.(g_enc) with Some e => e.(e_max) = max /\ 0 <= e.(e_seq) < 65536 | None => True end.

Theorem h264_glue_size max avail g pts inp decerr deliv g' out :
  3 <= max -> enc_max_ok max g -> Forall (fun p => 0 <= p.(p_seq) < 65536) inp ->
  h264_glue_write max avail g pts inp decerr deliv = GOk g' out -> has_enc g' = true ->
  Forall (fun p => blen p.(p_payload) <= max) out /\ enc_max_ok max g'.
Proof.
  intros Hmax Hok Hin H Hg'. unfold h264_glue_write in H. apply glue_write_inv in H.
  destruct H as [(A & B & C & D)|(e0 & off0 & He & Hr)].
  { subst g'. unfold has_enc in Hg'. rewrite A in Hg'. discriminate. }
  assert (He0 : e_max e0 = max /\ 0 <= e_seq e0 < 65536).
  { destruct He as [(A & _)|(_ & _ & pkt & B & -> & _)].
    - unfold enc_max_ok in Hok. rewrite A in Hok. exact Hok.
    - unfold enc_init. cbn [e_max e_seq]. destruct (max =? 0) eqn:E; [apply Z.eqb_eq in E; lia|].
      split; [reflexivity|]. unfold first_oversized in B. apply find_some in B. destruct B as [B _].
      rewrite Forall_forall in Hin. exact (Hin pkt B). }
  destruct Hr as [(_ & -> & ->)|(p & pkts & e' & _ & Henc & -> & ->)].
  - split; [constructor|exact He0].
  - unfold h264_enc_fn in Henc. injection Henc as Henc. destruct He0 as [Hm Hs].
    pose proof (h264_encode_size e0 p pkts e' ltac:(lia) Henc) as Hsz.
    pose proof (h264_encode_seq e0 p pkts e' Hs Henc) as (_ & Hseq & _).
    pose proof (h264_encode_post _ _ _ _ Henc) as (_ & _ & _ & Hm' & _).
    split.
    + unfold stamp_all. rewrite Forall_forall. intros q Hq. apply in_map_iff in Hq.
      destruct Hq as (q0 & <- & Hq0). cbn [stamp p_payload]. rewrite <- Hm. apply Hsz, Hq0.
    + unfold enc_max_ok. cbn [g_enc]. split; [congruence|]. rewrite Hseq. apply Z.mod_pos_bound. lia.
Qed.
