(* Proofs about the section logic of onMetrics (Model/C36_Sections.v): every body the handler can write parses back
   to exactly the declarative list of samples; every labelled sample belongs to an entity passing the active filters. *)
From Coq Require Import String.
From Coq Require Import List ZArith Bool Lia ZifyBool DecimalZ DecimalPos.
Require Import MTX.Lib.IntWrap MTX.Model.C36_Metrics MTX.Model.C36_Sections MTX.Proofs.C36_Metrics.
Import ListNotations.
Local Open Scope Z_scope.

Arguments is_ident : simpl never.

(* ---------------- value tokens ---------------- *)

Definition tok_ok (t : bytes) : Prop := t <> [] /\ no_nl t.

Lemma tok_okb_ok t : tok_okb t = true -> tok_ok t.
Proof.
  unfold tok_okb. intros H. apply andb_prop in H. destruct H as [H1 H2]. split.
  - destruct t; [discriminate|discriminate].
  - apply no_nl_small. exact H2.
Qed.

Lemma digits_no_nl u : no_nl (digits u).
Proof. unfold no_nl. induction u; simpl; intros H; try contradiction; destruct H as [H|H]; try lia; auto. Qed.

Lemma digits_nonnil u : u <> Decimal.Nil -> digits u <> [].
Proof. destruct u; simpl; intros H; try discriminate. congruence. Qed.

Lemma to_int_nonnil z : match Z.to_int z with Decimal.Pos u | Decimal.Neg u => u <> Decimal.Nil end.
Proof. destruct z; simpl; try discriminate; apply DecimalPos.Unsigned.to_uint_nonnil. Qed.

Lemma format_int_ok z : tok_ok (format_int z).
Proof.
  unfold format_int, tok_ok. pose proof (to_int_nonnil z) as Hn. destruct (Z.to_int z) as [u|u].
  - split; [apply digits_nonnil; exact Hn|apply digits_no_nl].
  - split; [discriminate|]. intros [H|H]; [lia|]. exact (digits_no_nl u H).
Qed.

(* ---------------- the table is well formed (checked by computation) ---------------- *)

Definition identb (s : bytes) : bool := negb (isnil s) && forallb is_ident s.

Lemma identb_ident s : identb s = true -> ident s.
Proof.
  unfold identb, ident. intros H. apply andb_prop in H. destruct H as [H1 H2]. split; [|exact H2].
  destruct s; discriminate.
Qed.

Definition kind_okb (k : kind) : bool :=
  forallb (fun g : group => no_nlb (fst g) && forallb (fun m => identb (m_name m)) (snd g)) (k_groups (spec k))
  && forallb (fun g : zgroup => no_nlb (fst g) && forallb identb (snd g)) (k_zero (spec k))
  && forallb (fun ks : bytes * lsrc => identb (fst ks)) (k_labels (spec k)).

Lemma table_ok : forallb kind_okb all_kinds = true.
Proof. vm_compute. reflexivity. Qed.

Lemma all_kinds_complete k : In k all_kinds.
Proof. destruct k; unfold all_kinds, server_kinds; simpl; tauto. Qed.

Lemma kind_ok k : kind_okb k = true.
Proof. pose proof table_ok as H. rewrite forallb_forall in H. apply H. apply all_kinds_complete. Qed.

Lemma reader_key_ident : ident (bs "readerType").
Proof. apply identb_ident. vm_compute. reflexivity. Qed.

Lemma group_ok k g : In g (k_groups (spec k)) ->
  no_nl (fst g) /\ forall m, In m (snd g) -> ident (m_name m).
Proof.
  intros Hg. pose proof (kind_ok k) as H. unfold kind_okb in H.
  apply andb_prop in H. destruct H as [H _]. apply andb_prop in H. destruct H as [H _].
  rewrite forallb_forall in H. specialize (H g Hg). apply andb_prop in H. destruct H as [H1 H2]. split.
  - apply no_nl_small. exact H1.
  - intros m Hm. rewrite forallb_forall in H2. apply identb_ident. apply H2. exact Hm.
Qed.

Lemma zgroup_ok k g : In g (k_zero (spec k)) ->
  no_nl (fst g) /\ forall n, In n (snd g) -> ident n.
Proof.
  intros Hg. pose proof (kind_ok k) as H. unfold kind_okb in H.
  apply andb_prop in H. destruct H as [H _]. apply andb_prop in H. destruct H as [_ H].
  rewrite forallb_forall in H. specialize (H g Hg). apply andb_prop in H. destruct H as [H1 H2]. split.
  - apply no_nl_small. exact H1.
  - intros m Hm. rewrite forallb_forall in H2. apply identb_ident. apply H2. exact Hm.
Qed.

Lemma label_keys_ok k e : Forall (fun kv : label => ident (fst kv)) (entity_labels k e).
Proof.
  pose proof (kind_ok k) as H. unfold kind_okb in H. apply andb_prop in H. destruct H as [_ H].
  rewrite forallb_forall in H. unfold entity_labels. apply Forall_map. apply Forall_forall.
  intros ks Hks. cbn [fst]. apply identb_ident. apply H. exact Hks.
Qed.

(* ---------------- sorting keeps what is there ---------------- *)

Lemma insert_label_Forall (P : label -> Prop) kv l : P kv -> Forall P l -> Forall P (insert_label kv l).
Proof.
  intros Hk Hl. induction Hl as [|h t Hh Ht IH]; simpl; [constructor; [exact Hk|constructor]|].
  destruct (bytes_leb (fst kv) (fst h)).
  - constructor; [exact Hk|]. constructor; assumption.
  - constructor; assumption.
Qed.

Lemma sort_labels_Forall (P : label -> Prop) l : Forall P l -> Forall P (sort_labels l).
Proof.
  unfold sort_labels. induction 1 as [|h t Hh Ht IH]; simpl; [constructor|].
  apply insert_label_Forall; assumption.
Qed.

Lemma insert_label_In kv x l : In x (insert_label kv l) <-> x = kv \/ In x l.
Proof.
  induction l as [|h t IH]; simpl; [intuition|].
  destruct (bytes_leb (fst kv) (fst h)); simpl; [intuition|]. rewrite IH. intuition.
Qed.

Lemma sort_labels_In x l : In x (sort_labels l) <-> In x l.
Proof.
  unfold sort_labels. induction l as [|h t IH]; simpl; [tauto|].
  rewrite insert_label_In, IH. intuition.
Qed.

(* ---------------- well-formed states: float tokens ---------------- *)

(* every float token the driver / FormatFloat supplies is a non-empty token without newline *)
Definition wf_state (st : state) : Prop :=
  forall k l e, entities st k = Ents l -> In e l -> wf_entityb k e = true.

Lemma wf_stateb_wf st : wf_stateb st = true -> wf_state st.
Proof.
  unfold wf_stateb, wf_state. intros H k l e Ha Hin. rewrite forallb_forall in H.
  specialize (H k (all_kinds_complete k)). rewrite Ha in H. rewrite forallb_forall in H. exact (H e Hin).
Qed.

Lemma msamples_wf k e g m : In g (k_groups (spec k)) -> In m (snd g) -> wf_entityb k e = true ->
  Forall wf_sample (msamples k e m).
Proof.
  intros Hg Hm Hw. destruct (group_ok k g Hg) as [_ Hn]. specialize (Hn m Hm).
  pose proof (label_keys_ok k e) as Hl.
  unfold wf_entityb in Hw. rewrite forallb_forall in Hw. specialize (Hw g Hg).
  rewrite forallb_forall in Hw. specialize (Hw m Hm).
  unfold msamples, mvalues. destruct (m_src m) as [|f|f|] eqn:Es.
  - constructor; [|constructor]. split; [exact Hn|]. cbn [s_tags s_value fst snd].
    split; [apply sort_labels_Forall; exact Hl|]. split; [discriminate|apply no_nl_small; reflexivity].
  - constructor; [|constructor]. split; [exact Hn|]. cbn [s_tags s_value fst snd].
    split; [apply sort_labels_Forall; exact Hl|]. apply format_int_ok.
  - constructor; [|constructor]. split; [exact Hn|]. cbn [s_tags s_value fst snd].
    split; [apply sort_labels_Forall; exact Hl|]. apply tok_okb_ok. exact Hw.
  - assert (Hx : forall t, Forall (fun kv : label => ident (fst kv)) (entity_labels k e ++ [(bs "readerType", t)])).
    { intros t. apply Forall_app. split; [exact Hl|]. constructor; [exact reader_key_ident|constructor]. }
    destruct (readers_by_type (e_readers e)) as [|tc rl].
    + constructor; [|constructor]. split; [exact Hn|]. cbn [s_tags s_value fst snd].
      split; [apply sort_labels_Forall; apply Hx|]. split; [discriminate|apply no_nl_small; reflexivity].
    + apply Forall_map. apply Forall_map. apply Forall_forall. intros x _. split; [exact Hn|]. cbn [s_tags s_value fst snd].
      split; [apply sort_labels_Forall; apply Hx|]. apply format_int_ok.
Qed.

Lemma entity_section_wf k ents : (forall e, In e ents -> wf_entityb k e = true) ->
  Forall wf_item (entity_section k ents).
Proof.
  intros He. unfold entity_section. apply Forall_flat_map. apply Forall_forall. intros g Hg.
  destruct (group_ok k g Hg) as [Ht _]. constructor; [exact Ht|].
  apply Forall_app. split; [|constructor; [exact I|constructor]].
  apply Forall_flat_map. apply Forall_forall. intros e Hin.
  unfold sample_items. apply Forall_flat_map. apply Forall_forall. intros m Hm.
  apply Forall_map. exact (msamples_wf k e g m Hg Hm (He e Hin)).
Qed.

Lemma zero_section_wf k : Forall wf_item (zero_section k).
Proof.
  unfold zero_section. apply Forall_flat_map. apply Forall_forall. intros g Hg.
  destruct (zgroup_ok k g Hg) as [Ht Hn]. constructor; [exact Ht|].
  apply Forall_app. split; [|constructor; [exact I|constructor]].
  apply Forall_map. apply Forall_forall. intros n Hin. split; [exact (Hn n Hin)|].
  cbn. split; [exact I|]. split; [discriminate|apply no_nl_small; reflexivity].
Qed.

(* ---------------- samples of the sections ---------------- *)

Lemma samples_of_app a b : samples_of (a ++ b) = samples_of a ++ samples_of b.
Proof. induction a as [|[c| |s] a IH]; simpl; rewrite ?IH; reflexivity. Qed.

Lemma samples_of_flat_map {A} (f : A -> list item) l :
  samples_of (flat_map f l) = flat_map (fun x => samples_of (f x)) l.
Proof. induction l as [|x l IH]; simpl; [reflexivity|]. rewrite samples_of_app, IH. reflexivity. Qed.

Lemma samples_of_map_Sample l : samples_of (map Sample l) = l.
Proof. induction l as [|s l IH]; simpl; [reflexivity|]. rewrite IH. reflexivity. Qed.

Lemma flat_map_ext_in {A B} (f g : A -> list B) l : (forall x, In x l -> f x = g x) -> flat_map f l = flat_map g l.
Proof.
  induction l as [|x l IH]; simpl; intros H; [reflexivity|].
  rewrite (H x (or_introl eq_refl)), IH; [reflexivity|]. intros y Hy. apply H. right. exact Hy.
Qed.

Lemma flat_map_nil {A B} (f : A -> list B) (l : list A) : (forall x, f x = []) -> flat_map f l = [].
Proof. intros H. induction l as [|x l IH]; simpl; [reflexivity|]. rewrite H, IH. reflexivity. Qed.

Lemma samples_sample_items k e ms : samples_of (sample_items k e ms) = flat_map (msamples k e) ms.
Proof.
  unfold sample_items. rewrite samples_of_flat_map. apply flat_map_ext. intros m. apply samples_of_map_Sample.
Qed.

Lemma samples_entity_section k ents :
  samples_of (entity_section k ents)
  = flat_map (fun g : group => flat_map (fun e => flat_map (msamples k e) (snd g)) ents) (k_groups (spec k)).
Proof.
  unfold entity_section. rewrite samples_of_flat_map. apply flat_map_ext. intros g.
  cbn [samples_of]. rewrite samples_of_app. cbn [samples_of]. rewrite app_nil_r.
  rewrite samples_of_flat_map. apply flat_map_ext. intros e. apply samples_sample_items.
Qed.

Lemma samples_zero_section k : samples_of (zero_section k) = map zero_sample (zero_names k).
Proof.
  unfold zero_section, zero_names. induction (k_zero (spec k)) as [|g r IH]; [reflexivity|].
  cbn [flat_map]. rewrite samples_of_app, IH, map_app. f_equal.
  cbn [samples_of]. rewrite samples_of_app. cbn [samples_of]. rewrite app_nil_r.
  rewrite <- (map_map zero_sample Sample). apply samples_of_map_Sample.
Qed.

(* ---------------- filters ---------------- *)

Lemma own_filter_off_passes q k e : own_filter q k = false -> passes q k e = true.
Proof.
  unfold own_filter, passes. induction (k_filters (spec k)) as [|pf r IH]; simpl; [reflexivity|].
  intros H. apply orb_false_elim in H. destruct H as [H1 H2]. rewrite (IH H2).
  unfold filter_set in H1. destruct (isnil (qget q (fst pf))); [reflexivity|discriminate].
Qed.

Lemma filter_all {A} (f : A -> bool) l : (forall x, In x l -> f x = true) -> filter f l = l.
Proof.
  induction l as [|x l IH]; simpl; intros H; [reflexivity|].
  rewrite (H x (or_introl eq_refl)), IH; [reflexivity|]. intros y Hy. apply H. right. exact Hy.
Qed.

(* ---------------- the shared section shape ---------------- *)

Definition list_of (l : option (list entity)) : list entity := match l with Some x => x | None => [] end.

Lemma listed_samples q k l : k_zero_needs_type (spec k) = false ->
  samples_of (listed_section q k l) = avail_samples q k (Ents (list_of l)).
Proof.
  intros Hz. unfold listed_section, avail_samples. destruct (sec_on q k); [|reflexivity].
  assert (Hzero : samples_of (if own_filter q k then [] else zero_section k)
                  = if zero_ok q k then map zero_sample (zero_names k) else []).
  { unfold zero_ok. rewrite Hz. destruct (own_filter q k); [reflexivity|]. apply samples_zero_section. }
  destruct l as [[|x r]|]; cbn [list_of]; try exact Hzero.
  apply samples_entity_section.
Qed.

Lemma listed_wf q k l : (forall e, In e (list_of l) -> wf_entityb k e = true) ->
  Forall wf_item (listed_section q k l).
Proof.
  intros Hw. unfold listed_section. destruct (sec_on q k); [|constructor].
  assert (Hzero : Forall wf_item (if own_filter q k then [] else zero_section k)).
  { destruct (own_filter q k); [constructor|apply zero_section_wf]. }
  destruct l as [[|x r]|]; try exact Hzero.
  apply entity_section_wf. intros e He. apply filter_In in He. destruct He as [He _]. apply Hw. exact He.
Qed.

(* ---------------- protocol servers ---------------- *)

Definition is_server (k : kind) : bool := match k with KPaths | KForward => false | _ => true end.

Lemma server_kinds_server k : In k server_kinds -> is_server k = true.
Proof. unfold server_kinds. simpl. intros H. repeat (destruct H as [H|H]; [subst k; reflexivity|]). contradiction. Qed.

Lemma server_no_zero_type k : is_server k = true -> k_zero_needs_type (spec k) = false.
Proof. destruct k; try discriminate; reflexivity. Qed.

Lemma server_entities st k : is_server k = true ->
  entities st k = match st_srv st k with Absent => NotThere | Failed => Ents [] | Listed l => Ents l end.
Proof. destruct k; try discriminate; reflexivity. Qed.

Lemma srv_samples st q k : is_server k = true -> samples_of (srv_section q st k) = kind_samples st q k.
Proof.
  intros Hs. unfold kind_samples. rewrite (server_entities st k Hs). unfold srv_section.
  pose proof (server_no_zero_type k Hs) as Hz.
  destruct (st_srv st k) as [| |l].
  - unfold avail_samples. destruct (sec_on q k); reflexivity.
  - apply (listed_samples q k None Hz).
  - apply (listed_samples q k (Some l) Hz).
Qed.

Lemma srv_wf st q k : is_server k = true -> wf_state st -> Forall wf_item (srv_section q st k).
Proof.
  intros Hs Hw. unfold srv_section. pose proof (server_entities st k Hs) as He.
  destruct (st_srv st k) as [| |l].
  - constructor.
  - apply listed_wf. intros e [].
  - apply listed_wf. cbn [list_of]. intros e Hin. exact (Hw k l e He Hin).
Qed.

(* ---------------- forward destinations ---------------- *)

Lemma gs_with_path_path name it : gs (with_path name it) (bs "(path)") = name.
Proof. reflexivity. Qed.
Lemma gs_with_path_id name it : gs (with_path name it) (bs "ID") = gs it (bs "ID").
Proof. reflexivity. Qed.

Definition fwd_path_ok (q : query) (name : bytes) : bool :=
  isnil (qget q (bs "path")) || beqb (qget q (bs "path")) name.
Definition fwd_id_ok (q : query) (it : entity) : bool :=
  isnil (qget q (bs "forward_dest")) || beqb (qget q (bs "forward_dest")) (gs it (bs "ID")).

Lemma passes_fwd q name it : passes q KForward (with_path name it) = fwd_path_ok q name && fwd_id_ok q it.
Proof.
  unfold passes, fwd_path_ok, fwd_id_ok.
  change (k_filters (spec KForward)) with [ (bs "path", bs "(path)"); (bs "forward_dest", bs "ID") ].
  cbn [forallb fst snd]. rewrite gs_with_path_path, gs_with_path_id, andb_true_r. reflexivity.
Qed.

Lemma filter_fwd_items q name items :
  filter (passes q KForward) (map (with_path name) items)
  = if fwd_path_ok q name then map (with_path name) (filter (fwd_id_ok q) items) else [].
Proof.
  induction items as [|it r IH]; cbn [map filter]; [destruct (fwd_path_ok q name); reflexivity|].
  rewrite passes_fwd, IH. destruct (fwd_path_ok q name); cbn [andb]; [|reflexivity].
  destruct (fwd_id_ok q it); reflexivity.
Qed.

Lemma all_forwards_cons st pa r :
  all_forwards st (pa :: r)
  = match st_fwd st (gs pa (bs "Name")) with None => [] | Some items => map (with_path (gs pa (bs "Name"))) items end
    ++ all_forwards st r.
Proof. reflexivity. Qed.

Lemma fwd_collect_cons q st pa r :
  fwd_collect q st (pa :: r)
  = if negb (fwd_path_ok q (gs pa (bs "Name"))) then fwd_collect q st r
    else match st_fwd st (gs pa (bs "Name")) with
         | None => fwd_collect q st r
         | Some items => map (with_path (gs pa (bs "Name"))) (filter (fwd_id_ok q) items) ++ fwd_collect q st r
         end.
Proof.
  cbn [fwd_collect]. unfold fwd_path_ok, fwd_id_ok.
  destruct (isnil (qget q (bs "path"))), (beqb (qget q (bs "path")) (gs pa (bs "Name"))); reflexivity.
Qed.

Lemma fwd_collect_filter q st ps : fwd_collect q st ps = filter (passes q KForward) (all_forwards st ps).
Proof.
  induction ps as [|pa r IH]; [reflexivity|].
  rewrite fwd_collect_cons, all_forwards_cons, filter_app, <- IH.
  destruct (st_fwd st (gs pa (bs "Name"))) as [items|].
  - rewrite filter_fwd_items. destruct (fwd_path_ok q (gs pa (bs "Name"))); reflexivity.
  - destruct (fwd_path_ok q (gs pa (bs "Name"))); reflexivity.
Qed.

Lemma fwd_samples st q : samples_of (fwd_section q st) = kind_samples st q KForward.
Proof.
  unfold fwd_section, kind_samples, avail_samples. cbn [entities].
  destruct (sec_on q KForward); [|reflexivity].
  destruct (st_paths st) as [ps|]; [|reflexivity].
  rewrite fwd_collect_filter. set (A := all_forwards st ps).
  assert (Hzk : zero_ok q KForward = beqb (typ q) (k_type (spec KForward)) && negb (own_filter q KForward)).
  { unfold zero_ok. change (k_zero_needs_type (spec KForward)) with true. cbn [negb orb]. apply andb_comm. }
  destruct (filter (passes q KForward) A) as [|y r] eqn:Ef.
  - destruct A as [|x A'].
    + rewrite Hzk. destruct (beqb (typ q) (k_type (spec KForward)) && negb (own_filter q KForward));
        [apply samples_zero_section|reflexivity].
    + cbv beta iota. rewrite (flat_map_nil _ (k_groups (spec KForward))) by (intros g; reflexivity).
      destruct (own_filter q KForward) eqn:Eo; [rewrite andb_false_r; reflexivity|].
      exfalso. rewrite filter_all in Ef; [discriminate|]. intros e _. apply own_filter_off_passes. exact Eo.
  - destruct A as [|x A']; [discriminate|]. cbv beta iota. apply samples_entity_section.
Qed.

Lemma fwd_wf st q : wf_state st -> Forall wf_item (fwd_section q st).
Proof.
  intros Hw. unfold fwd_section. destruct (sec_on q KForward); [|constructor].
  destruct (st_paths st) as [ps|] eqn:Ep; [|constructor].
  rewrite fwd_collect_filter.
  destruct (filter (passes q KForward) (all_forwards st ps)) as [|y r] eqn:Ef.
  - destruct (beqb (typ q) (k_type (spec KForward)) && negb (own_filter q KForward)); [apply zero_section_wf|constructor].
  - apply entity_section_wf. intros e He. rewrite <- Ef in He. apply filter_In in He. destruct He as [He _].
    apply (Hw KForward (all_forwards st ps) e); [|exact He]. cbn [entities]. rewrite Ep. reflexivity.
Qed.

(* ---------------- the whole body ---------------- *)

Lemma paths_samples st q : samples_of (listed_section q KPaths (st_paths st)) = kind_samples st q KPaths.
Proof. unfold kind_samples. cbn [entities]. apply listed_samples. reflexivity. Qed.

Lemma samples_items_of st q : samples_of (items_of st q) = expected_samples st q.
Proof.
  unfold items_of, expected_samples, all_kinds. cbn [flat_map].
  rewrite !samples_of_app, paths_samples, fwd_samples, samples_of_flat_map. f_equal. f_equal.
  apply flat_map_ext_in. intros k Hk. apply srv_samples. apply server_kinds_server. exact Hk.
Qed.

Lemma items_of_wf st q : wf_state st -> Forall wf_item (items_of st q).
Proof.
  intros Hw. unfold items_of. apply Forall_app. split; [|apply Forall_app; split].
  - apply listed_wf. intros e He. apply (Hw KPaths (list_of (st_paths st)) e); [reflexivity|exact He].
  - apply fwd_wf. exact Hw.
  - apply Forall_flat_map. apply Forall_forall. intros k Hk. apply srv_wf; [apply server_kinds_server; exact Hk|exact Hw].
Qed.

(* the body of every scrape parses back to exactly the declarative samples *)
Theorem faithful st q : wf_state st -> parse (body_of st q) = Some (expected_samples st q).
Proof.
  intros Hw. unfold body_of. rewrite (parse_render _ (items_of_wf st q Hw)). rewrite samples_items_of. reflexivity.
Qed.

(* ---------------- where a sample comes from ---------------- *)

Lemma in_entity_groups k (l : list entity) s :
  In s (flat_map (fun g : group => flat_map (fun e => flat_map (msamples k e) (snd g)) l) (k_groups (spec k)))
  <-> exists e, In e l /\ In s (entity_samples k e).
Proof.
  unfold entity_samples. rewrite in_flat_map. split.
  - intros (g & Hg & Hs). apply in_flat_map in Hs. destruct Hs as (e & He & Hs).
    exists e. split; [exact He|]. apply in_flat_map. exists g. split; assumption.
  - intros (e & He & Hs). apply in_flat_map in Hs. destruct Hs as (g & Hg & Hs).
    exists g. split; [exact Hg|]. apply in_flat_map. exists e. split; assumption.
Qed.

Definition from_entity (q : query) (k : kind) (a : avail) (s : sample) : Prop :=
  exists l e, a = Ents l /\ In e l /\ passes q k e = true /\ In s (entity_samples k e).
Definition from_zero (q : query) (k : kind) (a : avail) (s : sample) : Prop :=
  a = Ents [] /\ zero_ok q k = true /\ exists n, In n (zero_names k) /\ s = zero_sample n.

Lemma in_avail_samples q k a s :
  In s (avail_samples q k a) <-> sec_on q k = true /\ (from_entity q k a s \/ from_zero q k a s).
Proof.
  unfold avail_samples, from_entity, from_zero. destruct (sec_on q k).
  2:{ split; [intros []|intros [H _]; discriminate]. }
  destruct a as [|[|x l]].
  - split; [intros []|]. intros [_ [(l & e & H & _)|(H & _)]]; discriminate.
  - split.
    + intros H. split; [reflexivity|]. right. destruct (zero_ok q k); [|destruct H].
      split; [reflexivity|]. split; [reflexivity|]. apply in_map_iff in H. destruct H as (n & Hn & Hin).
      exists n. split; [exact Hin|symmetry; exact Hn].
    + intros [_ [(l & e & H & Hin & _)|(_ & Hz & n & Hn & Hs)]].
      * inversion H; subst l. destruct Hin.
      * rewrite Hz. subst s. apply in_map. exact Hn.
  - rewrite in_entity_groups. split.
    + intros (e & He & Hs). apply filter_In in He. destruct He as [He Hp]. split; [reflexivity|]. left.
      exists (x :: l), e. repeat split; assumption.
    + intros [_ [(l' & e & H & Hin & Hp & Hs)|(H & _)]]; [|discriminate].
      inversion H; subst l'. exists e. split; [|exact Hs]. apply filter_In. split; assumption.
Qed.

(* declarative reading, as a membership statement *)
Theorem expected_iff st q s :
  In s (expected_samples st q) <->
  exists k, sec_on q k = true /\ (from_entity q k (entities st k) s \/ from_zero q k (entities st k) s).
Proof.
  unfold expected_samples. rewrite in_flat_map. split.
  - intros (k & _ & H). exists k. apply in_avail_samples. exact H.
  - intros (k & H). exists k. split; [apply all_kinds_complete|]. apply in_avail_samples. exact H.
Qed.

Lemma entity_sample_tagged k e s : In s (entity_samples k e) -> s_tags s <> None.
Proof.
  unfold entity_samples. intros H. apply in_flat_map in H. destruct H as (g & _ & H).
  apply in_flat_map in H. destruct H as (m & _ & H). unfold msamples in H. apply in_map_iff in H.
  destruct H as (lv & Hs & _). subst s. discriminate.
Qed.

(* no sample of an entity that does not pass the active filters: every labelled sample of the body is a sample
   of an existing entity of a selected kind that passes all filters of its kind *)
Theorem filter_sound st q ss : wf_state st -> parse (body_of st q) = Some ss ->
  forall s, In s ss -> s_tags s <> None ->
  exists k l e, sec_on q k = true /\ entities st k = Ents l /\ In e l /\ passes q k e = true /\ In s (entity_samples k e).
Proof.
  intros Hw Hp s Hs Ht. rewrite (faithful st q Hw) in Hp. inversion Hp; subst ss.
  apply expected_iff in Hs. destruct Hs as (k & Hon & [(l & e & Ha & Hin & Hpass & Hs)|(_ & _ & n & _ & Hs)]).
  - exists k, l, e. repeat split; assumption.
  - subst s. exfalso. apply Ht. reflexivity.
Qed.

(* the unlabelled samples are the zero lines of a selected kind that has no entity and no filter *)
Theorem zero_sound st q ss : wf_state st -> parse (body_of st q) = Some ss ->
  forall s, In s ss -> s_tags s = None ->
  exists k, sec_on q k = true /\ entities st k = Ents [] /\ own_filter q k = false /\ In (s_name s) (zero_names k) /\ s_value s = [48].
Proof.
  intros Hw Hp s Hs Ht. rewrite (faithful st q Hw) in Hp. inversion Hp; subst ss.
  apply expected_iff in Hs. destruct Hs as (k & Hon & [(l & e & Ha & Hin & Hpass & Hs)|(Ha & Hz & n & Hn & Hs)]).
  - exfalso. exact (entity_sample_tagged k e s Hs Ht).
  - exists k. subst s. unfold zero_ok in Hz. apply andb_prop in Hz. destruct Hz as [Hz _].
    repeat split; try assumption. destruct (own_filter q k); [discriminate|reflexivity].
Qed.

(* ---------------- what a sample of an entity says ---------------- *)

(* the labels of a sample are the entity's label fields (plus readerType for paths_readers), its value the field
   of the metric *)
Lemma entity_sample_labels k e s : In s (entity_samples k e) ->
  exists ls, s_tags s = Some ls /\ forall key src, In (key, src) (k_labels (spec k)) -> In (key, label_value e src) ls.
Proof.
  unfold entity_samples. intros H. apply in_flat_map in H. destruct H as (g & _ & H).
  apply in_flat_map in H. destruct H as (m & _ & H). unfold msamples in H. apply in_map_iff in H.
  destruct H as (lv & Hs & Hlv). subst s. cbn [s_tags]. eexists. split; [reflexivity|].
  intros key src Hk. apply sort_labels_In.
  assert (He : In (key, label_value e src) (entity_labels k e)).
  { unfold entity_labels. apply in_map_iff. exists (key, src). split; [reflexivity|exact Hk]. }
  unfold mvalues in Hlv. destruct (m_src m).
  - destruct Hlv as [Hlv|[]]. subst lv. exact He.
  - destruct Hlv as [Hlv|[]]. subst lv. exact He.
  - destruct Hlv as [Hlv|[]]. subst lv. exact He.
  - destruct (readers_by_type (e_readers e)) as [|tc rl].
    + destruct Hlv as [Hlv|[]]. subst lv. cbn [fst]. apply in_or_app. left. exact He.
    + apply in_map_iff in Hlv. destruct Hlv as (x & Hx & _). subst lv. cbn [fst]. apply in_or_app. left. exact He.
Qed.

(* value faithfulness: the sample of a counter metric carries FormatInt(int64(counter)), which reads back as the
   counter when it is below 2^63 *)
Lemma counter_value_reads_back v : 0 <= v < two63 -> parse_int (format_int (wrap64 v)) = Some v.
Proof.
  intros Hv. rewrite wrap64_id; [apply parse_format_int|]. unfold in_int64. unfold two63 in *. lia.
Qed.

(* ---------------- filters, read on the labels ---------------- *)

Lemma beqb_eq a : forall b, beqb a b = true -> a = b.
Proof.
  induction a as [|x a IH]; intros [|y b] H; simpl in H; try discriminate; [reflexivity|].
  apply andb_prop in H. destruct H as [H1 H2]. apply Z.eqb_eq in H1. subst y. rewrite (IH b H2). reflexivity.
Qed.

(* the label key that carries the entity field a filter parameter is compared with *)
Definition filter_key (k : kind) (field : bytes) : option bytes :=
  option_map fst (find (fun ks : bytes * lsrc => match snd ks with LField f => beqb f field | LReady => false end)
                       (k_labels (spec k))).

Lemma filter_key_label k field key : filter_key k field = Some key -> In (key, LField field) (k_labels (spec k)).
Proof.
  unfold filter_key. destruct (find _ (k_labels (spec k))) as [[key' src]|] eqn:Ef; [|discriminate].
  cbn [option_map fst]. intros H. inversion H; subst key'. apply find_some in Ef. destruct Ef as [Hin Hb].
  cbn [snd] in Hb. destruct src as [f|]; [|discriminate]. apply beqb_eq in Hb. subst f. exact Hin.
Qed.

(* with ?param=v (v non-empty), every labelled sample of the body belongs to a kind for which each of its own
   filter parameters that is set appears as a label with exactly the filter's value *)
Theorem filter_label st q ss : wf_state st -> parse (body_of st q) = Some ss ->
  forall s ls, In s ss -> s_tags s = Some ls ->
  exists k, sec_on q k = true /\
    forall param field key, In (param, field) (k_filters (spec k)) -> filter_key k field = Some key ->
                            qget q param <> [] -> In (key, qget q param) ls.
Proof.
  intros Hw Hp s ls Hs Ht.
  destruct (filter_sound st q ss Hw Hp s Hs) as (k & l & e & Hon & _ & _ & Hpass & Hes); [rewrite Ht; discriminate|].
  exists k. split; [exact Hon|]. intros param field key Hpf Hk Hq.
  destruct (entity_sample_labels k e s Hes) as (ls' & Ht' & Hl). rewrite Ht in Ht'. inversion Ht'; subst ls'.
  specialize (Hl key (LField field) (filter_key_label k field key Hk)). cbn [label_value] in Hl.
  unfold passes in Hpass. rewrite forallb_forall in Hpass. specialize (Hpass (param, field) Hpf). cbn [fst snd] in Hpass.
  destruct (qget q param) as [|c r] eqn:Eq; [contradiction Hq; reflexivity|]. cbn [isnil orb] in Hpass.
  apply beqb_eq in Hpass. rewrite Hpass. exact Hl.
Qed.
