(* C40, HLS muxer level: proofs about Model/C40_HlsMux.v *)
From Coq Require Import List Arith Bool Lia.
Import ListNotations.
Require Import MTX.Model.C40_HlsMux.
Import HM.

(* ---- every exit path of runInner releases the mutex: the code loaded for ANY event and muxer kind is well-typed
   from "nothing held" to "nothing held" (the start-up events after initialize()'s Lock) ------------------------- *)
Lemma load_wf : forall k e,
  wfc MN (if is_init e then ILock :: fst (load Code k e) else fst (load Code k e)) = true.
Proof. intros k e; destruct k, e as [| [|] [|] | [|] | [|] | | [|] |]; reflexivity. Qed.

Lemma prog_wf : forall o, wfc MN (prog o) = true.
Proof. destruct o; reflexivity. Qed.

Lemma wfc_step : forall m i r, wfc m (i :: r) = true -> wfc (apply_mode m i) r = true.
Proof. intros m i r; destruct m, i; simpl; auto; discriminate. Qed.

Lemma wfc_nil : forall m, wfc m [] = true -> m = MN.
Proof. destruct m; simpl; auto; discriminate. Qed.

Definition always_en (i : instr) : bool :=
  match i with IUnlock | IRUnlock | ITouch | IRead => true | _ => false end.

Lemma holder_head : forall m c, mode_free m = false -> wfc m c = true ->
  exists i r, c = i :: r /\ always_en i = true.
Proof.
  intros m c Hm Hw; destruct c as [|i r].
  - simpl in Hw; congruence.
  - exists i, r; split; auto. destruct m, i; simpl in *; auto; discriminate.
Qed.

Lemma always_en_enabled : forall s i, always_en i = true -> enabled s i = true /\ i <> ICloseWait.
Proof. intros s i; destruct i; simpl; intros; try discriminate; split; auto; discriminate. Qed.

(* ---- lists ---- *)
Lemma forallb_nth : forall (f : cl -> bool) l p c, forallb f l = true -> nth_error l p = Some c -> f c = true.
Proof. intros f l p c H Hn; rewrite forallb_forall in H; apply H; eapply nth_error_In; eauto. Qed.

Lemma forallb_set_nth : forall (f : cl -> bool) l p c, forallb f l = true -> f c = true -> forallb f (set_nth p c l) = true.
Proof.
  intros f l; induction l as [|x t IH]; intros p c H Hc; destruct p; simpl in *; auto.
  - apply andb_true_iff in H; destruct H as [_ H]; rewrite Hc, H; auto.
  - apply andb_true_iff in H; destruct H as [Hx H]; rewrite Hx; simpl; auto.
Qed.

Lemma cls_measure_set_nth : forall l p c c', nth_error l p = Some c ->
  cls_measure (set_nth p c' l) + length (c_code c) = cls_measure l + length (c_code c').
Proof.
  induction l as [|x t IH]; intros p c c' H; destruct p; simpl in *; try discriminate.
  - inversion H; subst; lia.
  - specialize (IH _ _ c' H); lia.
Qed.

Lemma cls_measure_app : forall a b, cls_measure (a ++ b) = cls_measure a + cls_measure b.
Proof. induction a; simpl; intros; auto. rewrite IHa; lia. Qed.

(* ---- every internal step costs one unit of the measure: every schedule is finite (all variants, all states) ---- *)
Theorem mux_measure_decreases : forall v s l s',
  internal l = true -> step v s l = Some s' -> measure s' < measure s.
Proof.
  intros v s l s' Hi H; destruct l; try discriminate; unfold step in H.
  - destruct (mx s) as [m|] eqn:Em; try discriminate.
    destruct (m_code m) as [|i r] eqn:Ec; try discriminate.
    match type of H with (if ?b then _ else _) = _ => destruct b end; try discriminate.
    inversion H; subst; unfold measure; simpl; rewrite Em; unfold mux_measure; simpl; rewrite Ec; simpl; lia.
  - destruct (mx s) as [m|] eqn:Em; try discriminate.
    destruct (waiting m && cancelled s) eqn:Ew; try discriminate.
    apply andb_true_iff in Ew; destruct Ew as [Ew Ecn].
    unfold waiting in Ew. destruct (m_phase m) eqn:Ep; try discriminate. destruct (m_code m) eqn:Ec; try discriminate.
    assert (load v (m_kind m) ECtxDone = (tail, PExit)) as Hl by (unfold load, handler; destruct v; reflexivity).
    rewrite Hl in H; inversion H; subst; unfold measure; simpl; rewrite Em, Ecn; unfold mux_measure; simpl.
    rewrite Ep, Ec; simpl; lia.
  - destruct (nth_error (cls s) p) as [c|] eqn:En; try discriminate.
    destruct (c_code c) as [|i r] eqn:Ec; try discriminate.
    destruct (enabled s i) eqn:Ee; try discriminate.
    assert (forall md, measure (mkState (mx s) (set_nth p (mkCl md r) (cls s)) (cancelled s)) < measure s) as Hpop.
    { intros md; unfold measure; simpl.
      pose proof (cls_measure_set_nth _ _ _ (mkCl md r) En) as Hm; rewrite Ec in Hm; simpl in Hm; lia. }
    destruct i; try (inversion H; subst; apply Hpop).
    destruct (gone s) eqn:Eg.
    + inversion H; subst; apply Hpop.
    + simpl in Ee; rewrite Eg in Ee; simpl in Ee. inversion H; subst; unfold measure; simpl.
      destruct (cancelled s); simpl in *; try discriminate; lia.
Qed.

(* ---- the lock discipline is kept by every step of the pinned code ---- *)
Lemma inv_step : forall s l s', inv s = true -> step Code s l = Some s' -> inv s' = true.
Proof.
  intros s l s' Hinv H; unfold inv in Hinv; apply andb_true_iff in Hinv; destruct Hinv as [Hm Hc].
  destruct l; unfold step in H.
  - destruct (gone s && is_init e) eqn:Eg; try discriminate.
    apply andb_true_iff in Eg; destruct Eg as [_ Ei].
    pose proof (load_wf k e) as Hl; rewrite Ei in Hl.
    destruct (load Code k e) as [c ph]; inversion H; subst; unfold inv; simpl in *; rewrite Hc.
    rewrite andb_true_r; exact Hl.
  - destruct (mx s) as [m|] eqn:Em; try discriminate.
    destruct (waiting m && negb (is_init e)) eqn:Ew; try discriminate.
    apply andb_true_iff in Ew; destruct Ew as [Ew Ei]; apply negb_true_iff in Ei.
    unfold waiting in Ew; destruct (m_phase m); try discriminate; destruct (m_code m) eqn:Ec; try discriminate.
    apply wfc_nil in Hm. pose proof (load_wf (m_kind m) e) as Hl; rewrite Ei in Hl.
    destruct (load Code (m_kind m) e) as [c ph]; inversion H; subst; unfold inv; simpl in *; rewrite Hc, Hm, Hl; auto.
  - inversion H; subst; unfold inv; simpl; rewrite Hm; simpl.
    rewrite forallb_app, Hc; simpl; rewrite prog_wf; auto.
  - destruct (mx s) as [m|] eqn:Em; try discriminate.
    destruct (m_code m) as [|i r] eqn:Ec; try discriminate.
    match type of H with (if ?b then _ else _) = _ => destruct b end; try discriminate.
    inversion H; subst; unfold inv; simpl; rewrite Hc, andb_true_r; apply wfc_step; auto.
  - destruct (mx s) as [m|] eqn:Em; try discriminate.
    destruct (waiting m && cancelled s) eqn:Ew; try discriminate.
    apply andb_true_iff in Ew; destruct Ew as [Ew _].
    unfold waiting in Ew; destruct (m_phase m); try discriminate; destruct (m_code m) eqn:Ec; try discriminate.
    apply wfc_nil in Hm. pose proof (load_wf (m_kind m) ECtxDone) as Hl; simpl is_init in Hl; cbv iota in Hl.
    destruct (load Code (m_kind m) ECtxDone) as [c ph]; inversion H; subst; unfold inv; simpl in *; rewrite Hc, Hm, Hl; auto.
  - destruct (nth_error (cls s) p) as [c|] eqn:En; try discriminate.
    destruct (c_code c) as [|i r] eqn:Ec; try discriminate.
    destruct (enabled s i) eqn:Ee; try discriminate.
    pose proof (forallb_nth _ _ _ _ Hc En) as Hw; simpl in Hw; rewrite Ec in Hw.
    assert (inv (mkState (mx s) (set_nth p (mkCl (apply_mode (c_mode c) i) r) (cls s)) (cancelled s)) = true) as Hpop.
    { unfold inv; simpl; rewrite Hm; simpl; apply forallb_set_nth; auto; simpl; apply wfc_step; auto. }
    destruct i; try (inversion H; subst; exact Hpop).
    destruct (gone s).
    + inversion H; subst; exact Hpop.
    + inversion H; subst; unfold inv; simpl; rewrite Hm, Hc; auto.
Qed.

Theorem mux_inv_reachable : forall s, reachable Code s -> inv s = true.
Proof. induction 1; auto. eapply inv_step; eauto. Qed.

(* ---- progress: a state of the pinned code in which no goroutine can move is quiescent ---- *)
Lemma stuck_none : forall v s l, stuckb v s = true -> In l (candidates s) -> step v s l = None.
Proof.
  intros v s l H Hin; unfold stuckb in H; rewrite forallb_forall in H; specialize (H _ Hin).
  destruct (step v s l); auto; discriminate.
Qed.

Lemma cand_cl : forall s p c, nth_error (cls s) p = Some c -> In (LCl p) (candidates s).
Proof.
  intros s p c H; unfold candidates; right; right; apply in_map; apply in_seq; split; [lia|].
  simpl; apply nth_error_Some; congruence.
Qed.

Lemma free_nw : forall m, mode_free m = true -> mode_nw m = true.
Proof. destruct m; auto. Qed.

Lemma wfree_rfree : forall s, wfree s = true -> rfree s = true.
Proof.
  intros s H; unfold wfree, rfree in *; apply andb_true_iff in H; destruct H as [H1 H2].
  rewrite (free_nw _ H1); simpl. rewrite forallb_forall in *; intros x Hx; apply free_nw; auto.
Qed.

Lemma stuck_wfree : forall s, inv s = true -> stuckb Code s = true -> wfree s = true.
Proof.
  intros s Hinv Hst; unfold inv in Hinv; apply andb_true_iff in Hinv; destruct Hinv as [Hm Hc].
  unfold wfree; apply andb_true_iff; split.
  - unfold mux_mode; destruct (mx s) as [m|] eqn:Em; auto.
    destruct (mode_free (m_mode m)) eqn:Ef; auto.
    destruct (holder_head _ _ Ef Hm) as (i & r & Ec & Ha).
    destruct (always_en_enabled s i Ha) as [He _].
    pose proof (stuck_none _ _ LMux Hst (or_introl eq_refl)) as Hn.
    unfold step in Hn; rewrite Em, Ec in Hn. rewrite He in Hn. destruct i; discriminate.
  - apply forallb_forall; intros c Hin.
    destruct (mode_free (c_mode c)) eqn:Ef; auto.
    destruct (In_nth_error _ _ Hin) as [p Hp].
    pose proof (forallb_nth _ _ _ _ Hc Hp) as Hw; simpl in Hw.
    destruct (holder_head _ _ Ef Hw) as (i & r & Ec & Ha).
    destruct (always_en_enabled s i Ha) as [He Hne].
    pose proof (stuck_none _ _ _ Hst (cand_cl _ _ _ Hp)) as Hn.
    unfold step in Hn; rewrite Hp, Ec, He in Hn. destruct i; try discriminate; congruence.
Qed.

Theorem mux_progress : forall s, inv s = true -> stuckb Code s = true -> quiescentb s = true.
Proof.
  intros s Hinv Hst.
  pose proof (stuck_wfree _ Hinv Hst) as Hwf. pose proof (wfree_rfree _ Hwf) as Hrf.
  (* the muxer has no instruction left *)
  assert (match mx s with Some m => m_code m = [] | None => True end) as Hmc.
  { destruct (mx s) as [m|] eqn:Em; auto. destruct (m_code m) as [|i r] eqn:Ec; auto.
    pose proof (stuck_none _ _ LMux Hst (or_introl eq_refl)) as Hn.
    unfold step in Hn; rewrite Em, Ec in Hn. destruct i; simpl in Hn; rewrite ?Hwf, ?Hrf in Hn; discriminate. }
  (* it does not wait with a cancelled context *)
  assert (match mx s with Some m => mgone m || (waiting m && negb (cancelled s)) = true | None => True end) as Hmq.
  { destruct (mx s) as [m|] eqn:Em; auto.
    pose proof (stuck_none _ _ LWake Hst (or_intror (or_introl eq_refl))) as Hn.
    unfold step in Hn; rewrite Em in Hn. unfold mgone, waiting in *; rewrite Hmc in *.
    destruct (m_phase m); auto; simpl in *. destruct (cancelled s); auto; simpl in Hn.
    destruct (load Code (m_kind m) ECtxDone); discriminate. }
  unfold quiescentb; apply andb_true_iff; split.
  - apply forallb_forall; intros c Hin. destruct (c_code c) as [|i r] eqn:Ec; auto.
    destruct (In_nth_error _ _ Hin) as [p Hp].
    pose proof (stuck_none _ _ _ Hst (cand_cl _ _ _ Hp)) as Hn.
    unfold step in Hn; rewrite Hp, Ec in Hn.
    destruct i; simpl in Hn; rewrite ?Hwf, ?Hrf in Hn; try discriminate.
    (* Server.Close() waiting: then the muxer is not gone and the context is cancelled: the muxer can wake up *)
    unfold gone in Hn. destruct (mx s) as [m|] eqn:Em; [|discriminate].
    destruct (mgone m) eqn:Eg; simpl in *; [discriminate|].
    destruct (cancelled s); simpl in *; [|discriminate].
    rewrite andb_false_r in Hmq; discriminate.
  - destruct (mx s); auto.
Qed.

(* ---- refuted: one exit path leaves with the mutex held ---- *)
Definition stuck_not_quiescent (v : variant) (ls : list label) : bool :=
  match run v init ls with
  | Some s => stuckb v s && negb (quiescentb s) && negb (wfree s) && negb (gone s)
  | None => false
  end.

(* the seeded class: a client-requested muxer whose instance fails; then an API request and Server.Close() *)
Definition sched_crash : list label :=
  [LSpawnMux Client (ECreate true false); LMux; LMux; LMux; LEvent (ECrash false); LMux; LMux;
   LSpawn OpApi; LSpawn OpClose; LCl 1].
Definition sched_adderr : list label := [LSpawnMux Client EAddErr; LMux; LSpawn OpApi; LSpawn OpClose; LCl 1].
Definition sched_createerr : list label :=
  [LSpawnMux Always (ECreate false true); LMux; LSpawn OpApi; LSpawn OpClose; LCl 1].
Definition sched_cleanup : list label :=
  [LSpawnMux Always (ECreate true false); LMux; LMux; LMux; LEvent ECleanup; LMux; LMux;
   LSpawn OpApi; LSpawn OpClose; LCl 1; LWake].

Theorem mux_leaks_refuted :
  stuck_not_quiescent LeakCrash sched_crash = true /\ stuck_not_quiescent LeakAddErr sched_adderr = true
  /\ stuck_not_quiescent LeakCreateErr sched_createerr = true /\ stuck_not_quiescent LeakCleanup sched_cleanup = true
  /\ stuck_not_quiescent Code sched_crash = false /\ stuck_not_quiescent Code sched_adderr = false
  /\ stuck_not_quiescent Code sched_createerr = false /\ stuck_not_quiescent Code sched_cleanup = false.
Proof. vm_compute; repeat split. Qed.

Lemma not_stuck_step : forall v s, stuckb v s = false ->
  exists l s', internal l = true /\ step v s l = Some s'.
Proof.
  intros v s H; unfold stuckb in H.
  assert (forall l, In l (candidates s) -> internal l = true) as Hint.
  { intros l [<-|[<-|Hl]]; auto. apply in_map_iff in Hl; destruct Hl as (x & <- & _); auto. }
  revert H Hint; generalize (candidates s); induction l as [|a t IH]; simpl; intros H Hint; [discriminate|].
  destruct (step v s a) eqn:E.
  - exists a, s0; split; auto.
  - simpl in H; apply IH; auto.
Qed.

Lemma quiescent_closed_gone : forall s, quiescentb s = true -> cancelled s = true -> gone s = true.
Proof.
  intros s H Hc; unfold quiescentb in H; apply andb_true_iff in H; destruct H as [_ H]; unfold gone.
  destruct (mx s); auto. rewrite Hc in H; simpl in H; rewrite andb_false_r, orb_false_r in H; auto.
Qed.
