(* Call-site layer of C24: every timestamp the MPEG-TS writer path writes is the exact conversion of the position of
   the frame it belongs to; conversion does not distribute over the sum position = unit timestamp + i * frame length. *)
From Coq Require Import ZArith Lia ZifyBool List Bool.
Require Import MTX.Lib.IntWrap MTX.Model.C24_MulDiv MTX.Proofs.C24_MulDiv MTX.Model.C24_TsOut.
Local Open Scope Z_scope.

(* the side condition of the rate-to-rate call sites (90000 and a clock rate: NEITHER factor is time.Second, so
   muldiv_exact's scale_ok does not apply): the product of the two factors stays below 2^62 *)
Definition scale_rates (m d : Z) : Prop := 1 <= m <= two32 /\ 1 <= d <= two32 /\ m * d <= 2 ^ 62.

Lemma muldiv_nonneg_rates v m d : scale_rates m d -> 0 <= v < two63 -> (v * m) / d < two63 ->
  muldiv_w v m d = (v * m) / d.
Proof.
  intros (Hm & Hd & Hn) Hv Hr. unfold muldiv_w.
  rewrite Z.quot_div_nonneg, Z.rem_mod_nonneg by lia.
  pose proof (Z.mod_pos_bound v d ltac:(lia)) as Hmod.
  assert (0 <= v / d) as Hq by (apply Z.div_pos; lia).
  assert (v / d <= v) as Hqle by (apply Z.div_le_upper_bound; nia).
  pose proof (div_split v m d ltac:(lia) ltac:(lia) ltac:(lia)) as Hsplit.
  assert (0 <= (v mod d) * m < 2 ^ 62) as Hdm by (unfold two32 in *; nia).
  assert (0 <= (v mod d * m) / d) as Hq2 by (apply Z.div_pos; lia).
  assert ((v mod d * m) / d <= v mod d * m) as Hq2le by (apply Z.div_le_upper_bound; nia).
  assert (0 <= v / d * m) as Hsm by nia.
  rewrite (wrap64_id (v / d)) by (unfold in_int64, two63 in *; lia).
  rewrite (wrap64_id (v mod d)) by (unfold in_int64, two63, two32 in *; lia).
  rewrite (wrap64_id (v mod d * m)) by (unfold in_int64, two63 in *; lia).
  rewrite Z.quot_div_nonneg by lia.
  rewrite (wrap64_id (v mod d * m / d)) by (unfold in_int64, two63 in *; lia).
  rewrite (wrap64_id (v / d * m)) by (unfold in_int64, two63 in *; lia).
  rewrite wrap64_id by (unfold in_int64, two63 in *; lia). lia.
Qed.

Lemma muldiv_neg_rates v m d : scale_rates m d -> - two63 <= v < 0 -> - two63 <= Z.quot (v * m) d ->
  muldiv_w v m d = Z.quot (v * m) d.
Proof.
  intros (Hm & Hd & Hn) Hv Hr. unfold muldiv_w.
  assert (exists u, v = - u /\ 0 < u <= two63) as [u [-> Hu]] by (exists (- v); lia).
  rewrite Z.quot_opp_l, Z.rem_opp_l by lia.
  replace (- u * m) with (- (u * m)) in * by ring. rewrite Z.quot_opp_l in * by lia.
  rewrite !Z.quot_div_nonneg in * by nia. rewrite Z.rem_mod_nonneg by lia.
  pose proof (Z.mod_pos_bound u d ltac:(lia)) as Hmod.
  assert (0 <= u / d) as Hq by (apply Z.div_pos; lia).
  assert (u / d <= u) as Hqle by (apply Z.div_le_upper_bound; nia).
  pose proof (div_split u m d ltac:(lia) ltac:(lia) ltac:(lia)) as Hsplit.
  assert (0 <= (u mod d) * m < 2 ^ 62) as Hdm by (unfold two32 in *; nia).
  assert (0 <= (u mod d * m) / d) as Hq2 by (apply Z.div_pos; lia).
  assert ((u mod d * m) / d <= u mod d * m) as Hq2le by (apply Z.div_le_upper_bound; nia).
  assert (0 <= u / d * m) as Hsm by nia.
  rewrite (wrap64_id (- (u / d))) by (unfold in_int64, two63 in *; lia).
  rewrite (wrap64_id (- (u mod d))) by (unfold in_int64, two63, two32 in *; lia).
  replace (- (u mod d) * m) with (- (u mod d * m)) by ring.
  rewrite (wrap64_id (- (u mod d * m))) by (unfold in_int64, two63 in *; lia).
  rewrite Z.quot_opp_l by lia. rewrite Z.quot_div_nonneg by lia.
  rewrite (wrap64_id (- (u mod d * m / d))) by (unfold in_int64, two63 in *; lia).
  replace (- (u / d) * m) with (- (u / d * m)) by ring.
  rewrite (wrap64_id (- (u / d * m))) by (unfold in_int64, two63 in *; lia).
  rewrite (Z.quot_div_nonneg (u * m) d) by nia.
  rewrite wrap64_id by (unfold in_int64, two63 in *; lia). lia.
Qed.

(* rate-to-rate scaling is exact for ALL int64 values whose exact result is representable *)
Lemma muldiv_exact_rates v m d : scale_rates m d -> in_int64 v -> in_int64 (Z.quot (v * m) d) ->
  muldiv_w v m d = Z.quot (v * m) d.
Proof.
  intros Hs Hv Hr. unfold in_int64 in *. destruct (Z_lt_le_dec v 0) as [Hneg|Hpos].
  - apply muldiv_neg_rates; [exact Hs|lia|lia].
  - pose proof Hs as (Hm & Hd & Hn). rewrite (Z.quot_div_nonneg (v * m) d) in * by nia.
    apply muldiv_nonneg_rates; [exact Hs|lia|lia].
Qed.

Lemma scale_rates_ts rate : 1 <= rate <= two32 -> scale_rates ts_rate rate.
Proof. unfold scale_rates, ts_rate, two32. intros H. lia. Qed.

(* ---- the property of the writer path ---- *)
(* for every branch, every clock rate in 1..2^32 the branch's format can have, every unit timestamp and frame index
   such that the frame position and its exact conversion are representable: the written timestamp IS the exact
   conversion of the frame position to 90 kHz *)
Theorem ts_written_exact k rate pts i :
  branch_rate_ok k rate = true -> 0 <= i -> in_int64 pts -> in_int64 (i * branch_spf k) ->
  in_int64 (frame_pos k pts i) -> in_int64 (conv (frame_pos k pts i) rate ts_rate) ->
  ts_written muldiv_w k rate pts i = conv (frame_pos k pts i) rate ts_rate.
Proof.
  intros Hrate Hi Hp Hs Hpos Hres. unfold conv, frame_pos in *.
  destruct k; cbn [ts_written branch_spf branch_rate_ok] in *;
    try (rewrite Z.mul_0_r, Z.add_0_r in *).
  - apply muldiv_exact_rates; [apply scale_rates_ts; unfold two32; lia | assumption | assumption].
  - apply Z.eqb_eq in Hrate. subst rate.
    apply muldiv_exact_rates; [apply scale_rates_ts; unfold two32, ts_rate; lia | assumption | assumption].
  - apply muldiv_exact_rates; [apply scale_rates_ts; unfold two32; lia | assumption | assumption].
  - apply muldiv_exact_rates; [apply scale_rates_ts; unfold two32; lia | assumption | assumption].
  - apply Z.eqb_eq in Hrate. subst rate. unfold ts_rate. rewrite Z.quot_mul by lia. reflexivity.
  - rewrite (wrap64_id (i * ac3_spf)) by assumption. rewrite wrap64_id by assumption.
    apply muldiv_exact_rates; [apply scale_rates_ts; unfold two32; lia | assumption | assumption].
Qed.

(* consecutive frames of a unit never share or swap timestamps as long as a frame lasts at least one 90 kHz tick *)
Lemma conv_monotone v w rate : 0 < rate -> v <= w -> conv v rate ts_rate <= conv w rate ts_rate.
Proof.
  intros Hr Hvw. unfold conv, ts_rate.
  destruct (Z_lt_le_dec v 0) as [Hv|Hv]; destruct (Z_lt_le_dec w 0) as [Hw|Hw].
  - replace (v * 90000) with (- (- v * 90000)) by ring. replace (w * 90000) with (- (- w * 90000)) by ring.
    rewrite !Z.quot_opp_l by lia. rewrite !Z.quot_div_nonneg by lia.
    apply Z.opp_le_mono. rewrite !Z.opp_involutive. apply Z.div_le_mono; lia.
  - replace (v * 90000) with (- (- v * 90000)) by ring. rewrite Z.quot_opp_l by lia.
    rewrite !Z.quot_div_nonneg by lia.
    assert (0 <= - v * 90000 / rate) by (apply Z.div_pos; lia).
    assert (0 <= w * 90000 / rate) by (apply Z.div_pos; lia). lia.
  - lia.
  - rewrite !Z.quot_div_nonneg by lia. apply Z.div_le_mono; lia.
Qed.

(* ---- conversion of a sum is NOT the sum of conversions ---- *)
(* the hoisted form (convert u.PTS and the frame length once, add i times) differs from the exact conversion: AC-3 at
   44.1 kHz, unit timestamp 441007, frame 2 is written one tick early (6268 instead of 6269 after the first frame) *)
Lemma hoisted_refuted : exists rate pts i,
  branch_rate_ok TsAC3 rate = true /\ 0 <= i /\
  hoisted_written muldiv_w ac3_spf rate pts i <> conv (frame_pos TsAC3 pts i) rate ts_rate /\
  hoisted_written muldiv_w ac3_spf rate pts i = conv (frame_pos TsAC3 pts i) rate ts_rate - 1.
Proof. exists 44100, 441007, 2. vm_compute. repeat split; discriminate. Qed.

(* already the second frame of a unit stamped 0 is one tick early with 3 frames: 1536*90000/44100 = 3134.69 *)
Lemma hoisted_refuted_from_zero : exists i,
  hoisted_written muldiv_w ac3_spf 44100 0 i = conv (frame_pos TsAC3 0 i) 44100 ts_rate - 1.
Proof. exists 2. vm_compute. reflexivity. Qed.

(* accumulating the truncated frame length drifts without bound: after 1000 frames 693 ticks (7.7 ms) *)
Lemma accumulated_refuted :
  conv (frame_pos TsAC3 0 1000) 44100 ts_rate - accumulated_written muldiv_w ac3_spf 44100 0 1000 = 693.
Proof. vm_compute. reflexivity. Qed.

(* where the frame length IS a whole number of 90 kHz ticks (48 kHz: 2880, 32 kHz: 4320) and the unit timestamp is a
   multiple of the clock rate the hoisted form agrees, which is why only 44.1 kHz style rates expose such an edit;
   in general the error of the hoisted form is bounded by the frame index *)
Lemma hoisted_agrees_48k_example :
  hoisted_written muldiv_w ac3_spf 48000 480007 3 = conv (frame_pos TsAC3 480007 3) 48000 ts_rate.
Proof. vm_compute. reflexivity. Qed.

(* general algebraic statement: truncated quotients are sub-additive on non-negative values, with slack *)
Lemma conv_sum_le a b rate : 0 < rate -> 0 <= a -> 0 <= b ->
  conv a rate ts_rate + conv b rate ts_rate <= conv (a + b) rate ts_rate <= conv a rate ts_rate + conv b rate ts_rate + 1.
Proof.
  intros Hr Ha Hb. unfold conv, ts_rate. rewrite !Z.quot_div_nonneg by lia.
  replace ((a + b) * 90000) with (a * 90000 + b * 90000) by ring.
  pose proof (Z.div_mod (a * 90000) rate ltac:(lia)) as Ea.
  pose proof (Z.div_mod (b * 90000) rate ltac:(lia)) as Eb.
  pose proof (Z.mod_pos_bound (a * 90000) rate Hr) as Ma.
  pose proof (Z.mod_pos_bound (b * 90000) rate Hr) as Mb.
  set (qa := a * 90000 / rate) in *. set (qb := b * 90000 / rate) in *.
  set (ra := (a * 90000) mod rate) in *. set (rb := (b * 90000) mod rate) in *.
  rewrite Ea, Eb.
  replace (rate * qa + ra + (rate * qb + rb)) with ((qa + qb) * rate + (ra + rb)) by ring.
  rewrite Z.div_add_l by lia.
  assert (0 <= (ra + rb) / rate) by (apply Z.div_pos; lia).
  assert ((ra + rb) / rate < 2) by (apply Z.div_lt_upper_bound; lia).
  lia.
Qed.

(* non-vacuity of ts_written_exact at a non-trivial point: AC-3 44.1 kHz, negative unit timestamp, fourth frame *)
Lemma ts_written_example :
  ts_written muldiv_w TsAC3 44100 (-1099511627776 - 777) 3 = -2243901273357 /\
  conv (frame_pos TsAC3 (-1099511627776 - 777) 3) 44100 ts_rate = -2243901273357.
Proof. vm_compute. split; reflexivity. Qed.

(* RTMP writer path: the branches that derive one timestamp per frame convert the frame's position (unit timestamp pts +
   adv, the lengths of the earlier frames of the unit) to nanoseconds with timestampToDuration *)
Lemma dur_frame_exact rate pts adv :
  1 <= rate <= two32 -> in_int64 (pts + adv) -> in_int64 (conv (pts + adv) rate nanos) ->
  (fun t r => muldiv_w t nanos r) (wrap64 (pts + adv)) rate = conv (pts + adv) rate nanos.
Proof.
  intros Hr Hp He. cbv beta. rewrite wrap64_id by assumption. unfold conv in *.
  apply muldiv_exact; try assumption. unfold scale_ok, nanos, two32 in *. repeat split; lia.
Qed.
