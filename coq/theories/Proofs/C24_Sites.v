(* Every translated site (gen/C24_Sites.v, regenerated from the Go sources on every run) has the proved shape.
   `exact muldiv_exact` succeeds only if the site's body is convertible to muldiv_w: an edited helper breaks this file. *)
From Coq Require Import ZArith List Lia.
Require Import MTX.Lib.IntWrap MTX.Model.C24_MulDiv MTX.Proofs.C24_MulDiv MTXGen.C24_Sites.
Import ListNotations.
Local Open Scope Z_scope.

Definition exact3 (f : Z -> Z -> Z -> Z) : Prop :=
  forall v m d, scale_ok m d -> in_int64 v -> in_int64 (Z.quot (v * m) d) -> f v m d = Z.quot (v * m) d.

(* ticks -> nanoseconds: t * 10^9 / rate *)
Definition exact_to_nanos (f : Z -> Z -> Z) : Prop :=
  forall t rate, 1 <= rate <= two32 -> in_int64 t -> in_int64 (Z.quot (t * nanos) rate) ->
  f t rate = Z.quot (t * nanos) rate.

(* nanoseconds -> ticks: d * rate / 10^9 *)
Definition exact_from_nanos (f : Z -> Z -> Z) : Prop :=
  forall d rate, 1 <= rate <= two32 -> in_int64 d -> in_int64 (Z.quot (d * rate) nanos) ->
  f d rate = Z.quot (d * rate) nanos.

Lemma to_nanos_exact : exact_to_nanos (fun t rate => muldiv_w t nanos rate).
Proof.
  intros t rate Hr Ht Hres. apply muldiv_exact; try assumption.
  unfold scale_ok, nanos, two32 in *. split; [lia|]. split; [lia|]. left; reflexivity.
Qed.

Lemma from_nanos_exact : exact_from_nanos (fun d rate => muldiv_w d rate nanos).
Proof.
  intros d rate Hr Hd Hres. apply muldiv_exact; try assumption.
  unfold scale_ok, nanos, two32 in *. split; [lia|]. split; [lia|]. right; reflexivity.
Qed.

Lemma sites_muldiv3_exact : Forall exact3 sites_muldiv3.
Proof. unfold sites_muldiv3. repeat (apply Forall_cons; [exact muldiv_exact|]). apply Forall_nil. Qed.

Lemma sites_to_nanos_exact : Forall exact_to_nanos sites_to_nanos.
Proof. unfold sites_to_nanos. repeat (apply Forall_cons; [exact to_nanos_exact|]). apply Forall_nil. Qed.

Lemma sites_from_nanos_exact : Forall exact_from_nanos sites_from_nanos.
Proof. unfold sites_from_nanos. repeat (apply Forall_cons; [exact from_nanos_exact|]). apply Forall_nil. Qed.

(* the translator found something: the lists are not empty (non-vacuity of the three Forall statements) *)
Lemma sites_nonempty : sites_muldiv3 <> [] /\ sites_to_nanos <> [] /\ sites_from_nanos <> [] /\
  Z.of_nat (length sites_muldiv3 + length sites_to_nanos + length sites_from_nanos) = site_count.
Proof. repeat split; discriminate. Qed.
