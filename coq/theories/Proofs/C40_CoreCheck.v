(* C40 — the enabledness test of the Core-level correspondence check (Check.C40.ksettled) is complete. *)
From Coq Require Import List Arith Bool Lia ZArith.
Require Import MTX.Model.C40_CoreLoop MTX.Proofs.C40_CoreLoop MTX.Check.C40.
Import ListNotations.

Definition krep (l : klabel) : klabel :=
  match l with
  | QHBody h _ => QHBody h true
  | QCoRecv h _ _ => QCoRecv h true true
  | QCoConf _ _ => QCoConf true true
  | QCoRest _ _ => QCoRest true true
  | _ => l
  end.

Lemma krep_involves l : kinvolves (krep l) = kinvolves l.
Proof. destruct l; reflexivity. Qed.

Lemma krep_enabled s l s' : kstep true s l = Some s' -> kenabledb s (krep l) = true.
Proof.
  unfold kenabledb. intros H. destruct l; try (simpl krep; rewrite H; reflexivity); simpl in *.
  - destruct (hd s h); try discriminate. reflexivity.
  - destruct (co s); try discriminate. destruct (is_send (hd s h)); try discriminate. reflexivity.
  - destruct (co s); try discriminate. destruct (wt s); try discriminate. reflexivity.
  - destruct (co s); try discriminate. destruct fin; [reflexivity|]. destruct (api_up s); reflexivity.
Qed.

Lemma krep_candidate s l s' : KInv s -> kinternal l = true -> kstep true s l = Some s' -> In (krep l) (kcandidates s).
Proof.
  intros I Hi Hs. unfold kcandidates.
  assert (Hh : forall h, hd s h <> HdNone -> In h (seq 0 (nh s))).
  { intros h Hn. apply in_seq. pose proof (live_lt s h I Hn). lia. }
  assert (Hflat : forall h l0, hd s h <> HdNone ->
            In l0 [QHBody h true; QHEsc h; QHRet h; QCoRecv h true true; QCoRefRecv h] ->
            In l0 (flat_map (fun h => [QHBody h true; QHEsc h; QHRet h; QCoRecv h true true; QCoRefRecv h]) (seq 0 (nh s)))).
  { intros h l0 Hn Hin. apply in_flat_map. exists h. split; [now apply Hh|exact Hin]. }
  destruct l; simpl in Hi; try discriminate; simpl krep;
    try (apply in_or_app; left; simpl; tauto); apply in_or_app; right; simpl in Hs.
  - apply (Hflat h); [|simpl; tauto]. destruct (hd s h); discriminate.
  - apply (Hflat h); [|simpl; tauto]. destruct (hd s h); discriminate.
  - apply (Hflat h); [|simpl; tauto]. destruct (hd s h); discriminate.
  - apply (Hflat h); [|simpl; tauto]. destruct (co s); try discriminate. destruct (hd s h); discriminate.
  - apply (Hflat h); [|simpl; tauto]. destruct (co s); try discriminate. destruct (hd s h); discriminate.
Qed.

Lemma ksettled_sound s fr l s' : KInv s -> ksettled s fr = true -> kinternal l = true -> kstep true s l = Some s' ->
  exists q, In q (kinvolves l) /\ existsb (kproc_eqb q) fr = true.
Proof.
  intros I Hset Hi Hs. unfold ksettled in Hset. rewrite forallb_forall in Hset.
  specialize (Hset (krep l) (krep_candidate s l s' I Hi Hs)).
  rewrite (krep_enabled s l s' Hs) in Hset. simpl in Hset. rewrite krep_involves in Hset.
  apply existsb_exists in Hset. destruct Hset as [q [Hin Hq]]. eauto.
Qed.

Lemma ksettled_nothing_frozen s l : KInv s -> ksettled s [] = true -> kinternal l = true -> kstep true s l = None.
Proof.
  intros I Hset Hi. destruct (kstep true s l) as [s'|] eqn:E; [|reflexivity].
  destruct (ksettled_sound s [] l s' I Hset Hi E) as [q [_ Hq]]. discriminate.
Qed.
