(* Proofs about the running components (Model/C13_Reload.v, section Live): the invariant
   "every running component is built from the current configuration, is present exactly when its creation
   condition holds, and holds the current instance of every component handed to it" is established by New and
   preserved by every successful reloadConf, for every table satisfying five decidable conditions. *)
From Coq Require Import List String ZArith Bool Lia.
Require Import MTX.Model.C13_Reload MTX.Proofs.C13_Reload.
Import ListNotations.
Local Open Scope string_scope.
Local Open Scope list_scope.

(* ---------- lists of rows with pairwise different component names ---------- *)

Lemma well_ordered_nodup : forall rows seen, well_ordered seen rows = true ->
  NoDup (map comp rows) /\ forall c, In c (map comp rows) -> ~ In c seen.
Proof.
  induction rows as [|r rs IH]; intros seen H; simpl in *.
  - split; [constructor|intros c []].
  - apply andb_true_iff in H. destruct H as [H Hrs]. apply andb_true_iff in H. destruct H as [Hn _].
    destruct (IH _ Hrs) as [Hnd Hout]. split.
    + constructor; [|exact Hnd]. intros Hin. apply (Hout _ Hin). left. reflexivity.
    + intros c [Hc|Hc].
      * subst c. intros Hin. apply mem_In in Hin. rewrite Hin in Hn. discriminate.
      * intros Hin. apply (Hout _ Hc). right. exact Hin.
Qed.

Lemma nodup_row_eq : forall l r r', NoDup (map comp l) -> In r l -> In r' l -> comp r = comp r' -> r = r'.
Proof.
  induction l as [|a l IH]; intros r r' Hnd Hr Hr' He; simpl in *; [contradiction|].
  inversion Hnd as [|x xs Hnotin Hnd']; subst.
  destruct Hr as [Hr|Hr]; destruct Hr' as [Hr'|Hr'].
  - congruence.
  - subst a. exfalso. apply Hnotin. rewrite He. apply in_map. exact Hr'.
  - subst a. exfalso. apply Hnotin. rewrite <- He. apply in_map. exact Hr.
  - apply IH; assumption.
Qed.

Lemma find_row : forall l r, NoDup (map comp l) -> In r l ->
  find (fun r0 => String.eqb (comp r0) (comp r)) l = Some r.
Proof.
  induction l as [|a l IH]; intros r Hnd Hr; [contradiction|].
  simpl. destruct (String.eqb_spec (comp a) (comp r)) as [E|E].
  - f_equal. apply (nodup_row_eq (a :: l)); [exact Hnd|left; reflexivity|exact Hr|exact E].
  - destruct Hr as [Hr|Hr]; [subst; contradiction|].
    inversion Hnd; subst. apply IH; assumption.
Qed.

Lemma nodup_app_disj {A} : forall (l1 l2 : list A) x, NoDup (l1 ++ l2) -> In x l1 -> ~ In x l2.
Proof.
  induction l1 as [|a l1 IH]; intros l2 x Hnd Hin; simpl in *; [contradiction|].
  inversion Hnd as [|y ys Hnotin Hnd']; subst. destruct Hin as [Hin|Hin].
  - subst a. intros H2. apply Hnotin. apply in_or_app. right. exact H2.
  - apply IH; assumption.
Qed.

Lemma misordered_spec : forall pre seen r post d,
  misordered seen (pre ++ r :: post) = [] -> In d (refs r) -> In d seen \/ In d (map comp pre).
Proof.
  induction pre as [|a pre IH]; intros seen r post d H Hd; simpl in H.
  - apply app_eq_nil in H. destruct H as [H _].
    destruct (mem d seen) eqn:E; [left; apply mem_In; exact E|].
    exfalso.
    assert (In (comp r, d) (map (fun d0 => (comp r, d0)) (filter (fun d0 => negb (mem d0 seen)) (refs r)))) as Hin.
    { apply in_map. apply filter_In. split; [exact Hd|rewrite E; reflexivity]. }
    rewrite H in Hin. contradiction.
  - apply app_eq_nil in H. destruct H as [_ H].
    destruct (IH _ _ _ _ H Hd) as [[Hs|Hs]|Hp].
    + right. left. exact Hs.
    + left. exact Hs.
    + right. right. exact Hp.
Qed.

Section Live.
Variable atomv : string -> string -> Z -> bool.

Lemma geval_ext : forall e c1 c2, (forall f, In f (gfields e) -> val (c1 f) = val (c2 f)) ->
  geval atomv c1 e = geval atomv c2 e.
Proof.
  induction e as [|f t|a IHa b IHb|a IHa b IHb|a IHa]; intros c1 c2 H; simpl in *.
  - reflexivity.
  - rewrite (H f); [reflexivity|left; reflexivity].
  - rewrite (IHa c1 c2), (IHb c1 c2); [reflexivity| |]; intros f Hf; apply H; apply in_or_app; [right|left]; exact Hf.
  - rewrite (IHa c1 c2), (IHb c1 c2); [reflexivity| |]; intros f Hf; apply H; apply in_or_app; [right|left]; exact Hf.
  - rewrite (IHa c1 c2); [reflexivity|exact H].
Qed.

(* ---------- the construction pass ---------- *)

Lemma create_app n new : forall l1 l2 s,
  create atomv n new (l1 ++ l2) s = create atomv n new l2 (create atomv n new l1 s).
Proof. induction l1 as [|r l1 IH]; intros l2 s; simpl; [reflexivity|apply IH]. Qed.

Lemma create_other n new : forall l s c, ~ In c (map comp l) -> create atomv n new l s c = s c.
Proof.
  induction l as [|r l IH]; intros s c Hc; simpl in *; [reflexivity|].
  rewrite IH; [|intros H; apply Hc; right; exact H].
  assert (comp r <> c) as Hne by (intros E; apply Hc; left; exact E).
  destruct (s (comp r)); [reflexivity|]. destruct (enabled atomv r new); [|reflexivity].
  unfold upd. destruct (String.eqb_spec c (comp r)); [congruence|reflexivity].
Qed.

Lemma create_at n new pre r post s : NoDup (map comp (pre ++ r :: post)) ->
  create atomv n new (pre ++ r :: post) s (comp r) =
    match s (comp r) with
    | Some i => Some i
    | None => if enabled atomv r new then Some (fresh n new (create atomv n new pre s)) else None
    end.
Proof.
  intros Hnd. rewrite map_app in Hnd. simpl in Hnd.
  assert (~ In (comp r) (map comp pre)) as Hpre.
  { intros H. apply (nodup_app_disj _ _ _ Hnd H). left. reflexivity. }
  assert (~ In (comp r) (map comp post)) as Hpost.
  { apply NoDup_remove_2 in Hnd. intros H. apply Hnd. apply in_or_app. right. exact H. }
  rewrite create_app. simpl. rewrite (create_other n new post _ _ Hpost).
  pose proof (create_other n new pre s _ Hpre) as Hs. rewrite <- Hs.
  destruct (create atomv n new pre s (comp r)) eqn:E; [exact E|].
  destruct (enabled atomv r new); [|exact E].
  unfold upd. rewrite String.eqb_refl. reflexivity.
Qed.

Lemma create_stable n new pre r post s d : NoDup (map comp (pre ++ r :: post)) -> In d (map comp pre) ->
  create atomv n new (pre ++ r :: post) s d = create atomv n new pre s d.
Proof.
  intros Hnd Hd. rewrite create_app. apply create_other.
  rewrite map_app in Hnd. exact (nodup_app_disj _ _ _ Hnd Hd).
Qed.

(* ---------- one reload ---------- *)

Variable tbl : list row.
Variable ptrs : list string.
Hypothesis Hwo : well_ordered [] tbl = true.

Lemma tbl_nodup : NoDup (map comp tbl).
Proof. exact (proj1 (well_ordered_nodup tbl [] Hwo)). Qed.

Lemma close_pass_at old new s r : In r tbl ->
  close_pass tbl ptrs old new s (comp r) =
    match s (comp r) with
    | None => None
    | Some i => if closes_eval tbl ptrs old new (comp r) then None else Some (push old new r i)
    end.
Proof. intros Hr. unfold close_pass. rewrite (find_row tbl r tbl_nodup Hr). reflexivity. Qed.

(* what stands in Core for a component after reloadConf: kept (with the in-place pushes), constructed, or absent *)
Lemma reload_cases n old new s r : In r tbl ->
  let s' := reload atomv n tbl ptrs old new s in
  (exists i0, s (comp r) = Some i0 /\ closes_eval tbl ptrs old new (comp r) = false /\
              s' (comp r) = Some (push old new r i0))
  \/ ((s (comp r) = None \/ closes_eval tbl ptrs old new (comp r) = true) /\
      ((enabled atomv r new = false /\ s' (comp r) = None) \/
       (enabled atomv r new = true /\ exists pre post, tbl = pre ++ r :: post /\
          s' (comp r) = Some (fresh n new (create atomv n new pre (close_pass tbl ptrs old new s)))))).
Proof.
  intros Hr s'. destruct (in_split _ _ Hr) as [pre [post Htbl]].
  assert (s' (comp r) = match close_pass tbl ptrs old new s (comp r) with
                        | Some i => Some i
                        | None => if enabled atomv r new
                                  then Some (fresh n new (create atomv n new pre (close_pass tbl ptrs old new s))) else None
                        end) as Hs'.
  { unfold s', reload. pose proof tbl_nodup as Hnd. rewrite Htbl in Hnd.
    rewrite Htbl at 1. apply create_at. exact Hnd. }
  rewrite (close_pass_at old new s r Hr) in Hs'.
  destruct (s (comp r)) as [i0|] eqn:Es.
  - destruct (closes_eval tbl ptrs old new (comp r)) eqn:Ec.
    + right. split; [right; reflexivity|].
      destruct (enabled atomv r new); [right|left]; (split; [reflexivity|]); [|exact Hs'].
      exists pre, post. split; [exact Htbl|exact Hs'].
    + left. exists i0. repeat split. exact Hs'.
  - right. split; [left; reflexivity|].
    destruct (enabled atomv r new); [right|left]; (split; [reflexivity|]); [|exact Hs'].
    exists pre, post. split; [exact Htbl|exact Hs'].
Qed.

(* ---------- the invariant ---------- *)

Definition Inv (n : Z) (cur : conf) (s : state) : Prop :=
  forall r, In r tbl ->
    (s (comp r) = None <-> enabled atomv r cur = false) /\
    (forall i, s (comp r) = Some i ->
       (0 < gen i < n)%Z /\
       (forall f, In f (uses r) -> hval i f = val (cur f)) /\
       (forall d, In d (refs r) -> href i d = gen_of (s d))).

Hypothesis Hinc : incomplete tbl = [].
Hypothesis Hdang : dangling tbl = [].
Hypothesis Hung : unguarded tbl = [].
Hypothesis Hord : misordered [] tbl = [].

Lemma refs_before pre r post d : tbl = pre ++ r :: post -> In d (refs r) -> In d (map comp pre).
Proof.
  intros Htbl Hd. pose proof Hord as H. rewrite Htbl in H.
  destruct (misordered_spec _ _ _ _ _ H Hd) as [[]|Hp]. exact Hp.
Qed.

Lemma fresh_ok n new s0 pre r post : tbl = pre ++ r :: post ->
  forall d, In d (refs r) ->
  href (fresh n new (create atomv n new pre s0)) d = gen_of (create atomv n new tbl s0 d).
Proof.
  intros Htbl d Hd. simpl. f_equal. rewrite Htbl at 1. symmetry. apply create_stable.
  - rewrite <- Htbl. exact tbl_nodup.
  - eapply refs_before; eassumption.
Qed.

Lemma Inv_start c0 : Inv 2 c0 (start atomv tbl c0).
Proof.
  intros r Hr. destruct (in_split _ _ Hr) as [pre [post Htbl]].
  assert (start atomv tbl c0 (comp r) =
          if enabled atomv r c0 then Some (fresh 1 c0 (create atomv 1 c0 pre no_components)) else None) as Hs.
  { unfold start. pose proof tbl_nodup as Hnd. rewrite Htbl in Hnd. rewrite Htbl at 1.
    rewrite (create_at 1 c0 pre r post no_components Hnd). reflexivity. }
  rewrite Hs. destruct (enabled atomv r c0) eqn:Een.
  - split; [split; discriminate|].
    intros i Hi. injection Hi as Hi. subst i. split; [simpl; lia|]. split; [reflexivity|].
    intros d Hd. unfold start. eapply fresh_ok; eassumption.
  - split; [split; reflexivity|]. intros i Hi. discriminate.
Qed.

Section Step.
Variables old new : conf.
Hypothesis Hwf : ptr_wf old new.

Let cl := closes_eval tbl ptrs old new.

Lemma unguarded_reach r f : In r tbl -> In f (gfields (gexp r)) ->
  In f (reach_fields (S (List.length tbl)) tbl (comp r)).
Proof.
  intros Hr Hf.
  assert (In f (guard r)) as Hg.
  { destruct (mem f (guard r)) eqn:E; [apply mem_In; exact E|]. exfalso.
    assert (In (comp r, f) (unguarded tbl)) as Hin.
    { unfold unguarded. apply in_flat_map. exists r. split; [exact Hr|]. apply in_map. apply in_or_app. right.
      apply filter_In. split; [exact Hf|rewrite E; reflexivity]. }
    rewrite Hung in Hin. contradiction. }
  destruct (mem f (reach_fields (S (List.length tbl)) tbl (comp r))) eqn:E; [apply mem_In; exact E|]. exfalso.
  assert (In (comp r, f) (unguarded tbl)) as Hin.
  { unfold unguarded. apply in_flat_map. exists r. split; [exact Hr|]. apply in_map. apply in_or_app. left.
    apply filter_In. split; [exact Hg|rewrite E; reflexivity]. }
  rewrite Hung in Hin. contradiction.
Qed.

(* F1: a component that is not closed has an unchanged creation condition *)
Lemma kept_guard r : In r tbl -> cl (comp r) = false -> enabled atomv r old = enabled atomv r new.
Proof.
  intros Hr Hc. unfold enabled. apply geval_ext. intros f Hf.
  destruct (Z.eq_dec (val (old f)) (val (new f))) as [E|E]; [exact E|]. exfalso.
  assert (Closes tbl ptrs old new (comp r)) as HC.
  { eapply reach_fields_sound; [eapply unguarded_reach; eassumption|exact Hwf|exact E]. }
  apply (closes_eval_correct ptrs old new tbl (comp r) Hwo) in HC. unfold cl in Hc. congruence.
Qed.

(* F2: a component that is not closed holds the new value of every field it is built from *)
Lemma kept_values r i f : In r tbl -> cl (comp r) = false -> In f (uses r) ->
  hval i f = val (old f) -> hval (push old new r i) f = val (new f).
Proof.
  intros Hr Hc Hf Hh. simpl.
  destruct (Z.eqb_spec (val (old f)) (val (new f))) as [E|E].
  - rewrite andb_false_r. congruence.
  - assert (In f (params r)) as Hp by (unfold params; apply in_or_app; left; exact Hf).
    destruct (applied tbl ptrs old new Hinc Hwf r f Hr Hp E) as [HC|Hrl].
    + apply (closes_eval_correct ptrs old new tbl (comp r) Hwo) in HC. unfold cl in Hc. congruence.
    + apply mem_In in Hrl. rewrite Hrl. reflexivity.
Qed.

(* F3: the components handed to a component that is not closed are not closed either *)
Lemma kept_refs r d : In r tbl -> cl (comp r) = false -> In d (refs r) -> cl d = false.
Proof.
  intros Hr Hc Hd. destruct (cl d) eqn:E; [|reflexivity]. exfalso.
  apply (closes_eval_correct ptrs old new tbl d Hwo) in E.
  pose proof (dependents tbl ptrs old new Hdang r d Hr Hd E) as HC.
  apply (closes_eval_correct ptrs old new tbl (comp r) Hwo) in HC. unfold cl in Hc. congruence.
Qed.

Lemma Inv_step n s : (0 < n)%Z -> Inv n old s -> Inv (n + 1) new (reload atomv n tbl ptrs old new s).
Proof.
  intros Hn HI r Hr. destruct (HI r Hr) as [Hpres Hrun].
  destruct (reload_cases n old new s r Hr) as [[i0 [Hs [Hc Hs']]]|[Hgone [[Hen Hs']|[Hen [pre [post [Htbl Hs']]]]]]].
  - (* kept *)
    destruct (Hrun i0 Hs) as [Hg [Hv Hrf]].
    assert (enabled atomv r old = true) as Hold.
    { apply not_false_is_true. intros E. apply Hpres in E. congruence. }
    split.
    + rewrite Hs'. split; [discriminate|]. intros E. rewrite <- (kept_guard r Hr Hc) in E. congruence.
    + intros i Hi. rewrite Hs' in Hi. injection Hi as Hi. subst i. split; [simpl; lia|]. split.
      * intros f Hf. apply kept_values; [exact Hr|exact Hc|exact Hf|apply Hv; exact Hf].
      * intros d Hd. simpl. rewrite (Hrf d Hd).
        (* the held component is in the table, before r, and is not closed *)
        destruct (in_split _ _ Hr) as [pre [post Htbl]].
        pose proof (refs_before pre r post d Htbl Hd) as Hdp.
        apply in_map_iff in Hdp. destruct Hdp as [rd [Hrd Hin]].
        assert (In rd tbl) as Hrdt by (rewrite Htbl; apply in_or_app; left; exact Hin).
        pose proof (kept_refs r d Hr Hc Hd) as Hcd. subst d.
        destruct (HI rd Hrdt) as [Hpd _].
        destruct (reload_cases n old new s rd Hrdt) as [[j [Hsd [_ Hsd']]]|[[Hsd|Hcd'] Hrest]].
        -- rewrite Hsd, Hsd'. reflexivity.
        -- assert (enabled atomv rd new = false) as Hend.
           { rewrite <- (kept_guard rd Hrdt Hcd). apply Hpd. exact Hsd. }
           destruct Hrest as [[_ Hsd']|[Hen' _]]; [|congruence]. rewrite Hsd, Hsd'. reflexivity.
        -- unfold cl in Hcd. congruence.
  - (* absent *)
    split; [rewrite Hs'; split; [intros _; exact Hen|reflexivity]|].
    intros i Hi. rewrite Hs' in Hi. discriminate.
  - (* constructed *)
    split; [rewrite Hs'; split; [discriminate|congruence]|].
    intros i Hi. rewrite Hs' in Hi. injection Hi as Hi. subst i. split; [simpl; lia|]. split; [reflexivity|].
    intros d Hd. unfold reload. eapply fresh_ok; eassumption.
Qed.

(* the two halves of the property's last sentence and of its first, on one reload *)
Lemma keeps_running n s r i : In r tbl -> s (comp r) = Some i -> ~ Closes tbl ptrs old new (comp r) ->
  exists i', reload atomv n tbl ptrs old new s (comp r) = Some i' /\ gen i' = gen i /\ href i' = href i.
Proof.
  intros Hr Hs HnC.
  destruct (reload_cases n old new s r Hr) as [[i0 [Hs0 [_ Hs']]]|[[Hs0|Hc] _]].
  - exists (push old new r i0). split; [exact Hs'|]. rewrite Hs in Hs0. injection Hs0 as E. subst i0. split; reflexivity.
  - congruence.
  - exfalso. apply HnC. apply (closes_eval_correct ptrs old new tbl (comp r) Hwo). exact Hc.
Qed.

Lemma recreated_fresh n s r : In r tbl -> Closes tbl ptrs old new (comp r) ->
  match reload atomv n tbl ptrs old new s (comp r) with
  | Some i' => gen i' = n /\ forall f, hval i' f = val (new f)
  | None => enabled atomv r new = false
  end.
Proof.
  intros Hr HC. apply (closes_eval_correct ptrs old new tbl (comp r) Hwo) in HC.
  destruct (reload_cases n old new s r Hr) as [[i0 [_ [Hc _]]]|[_ [[Hen Hs']|[Hen [pre [post [_ Hs']]]]]]].
  - congruence.
  - rewrite Hs'. exact Hen.
  - rewrite Hs'. split; [reflexivity|]. intros f. reflexivity.
Qed.
End Step.

(* ---------- histories ---------- *)

Fixpoint chain_wf (cur : conf) (hist : list conf) : Prop :=
  match hist with
  | [] => True
  | c :: h => ptr_wf cur c /\ chain_wf c h
  end.

Lemma last_cons {A} : forall (h : list A) c d, last (c :: h) d = last h c.
Proof.
  induction h as [|a t IH]; intros c d; [reflexivity|].
  change (last (c :: a :: t) d) with (last (a :: t) d). rewrite (IH a d), (IH a c). reflexivity.
Qed.

Lemma Inv_run : forall hist n cur s, (0 < n)%Z -> chain_wf cur hist -> Inv n cur s ->
  Inv (n + Z.of_nat (List.length hist)) (last hist cur) (run atomv n tbl ptrs cur s hist).
Proof.
  induction hist as [|c h IH]; intros n cur s Hn Hch HI.
  - simpl. rewrite Z.add_0_r. exact HI.
  - destruct Hch as [Hwf Hch].
    replace (n + Z.of_nat (List.length (c :: h)))%Z with ((n + 1) + Z.of_nat (List.length h))%Z
      by (simpl List.length; lia).
    rewrite last_cons.
    simpl run. apply IH; [lia|exact Hch|]. apply Inv_step; assumption.
Qed.

Lemma history c0 hist : chain_wf c0 hist ->
  Inv (2 + Z.of_nat (List.length hist)) (last hist c0) (run atomv 2 tbl ptrs c0 (start atomv tbl c0) hist).
Proof. intros Hch. apply Inv_run; [lia|exact Hch|apply Inv_start]. Qed.

End Live.
