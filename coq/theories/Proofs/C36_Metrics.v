From Coq Require Import List ZArith Bool Lia ZifyBool DecimalZ DecimalPos.
Require Import MTX.Model.C36_Metrics.
Import ListNotations.
Local Open Scope Z_scope.

Arguments is_ident : simpl never.

Definition ident (s : bytes) : Prop := s <> [] /\ forallb is_ident s = true.
Definition no_nl (s : bytes) : Prop := ~ In 10 s.

Definition wf_sample (s : sample) : Prop :=
  ident (s_name s) /\
  (match s_tags s with Some ls => Forall (fun kv => ident (fst kv)) ls | None => True end) /\
  s_value s <> [] /\ no_nl (s_value s).

Definition wf_item (i : item) : Prop :=
  match i with Comment c => no_nl c | Blank => True | Sample s => wf_sample s end.

(* ---------------- identifiers ---------------- *)

Lemma take_ident_app a rest : forallb is_ident a = true ->
  (forall c r, rest = c :: r -> is_ident c = false) -> take_ident (a ++ rest) = (a, rest).
Proof.
  intros Ha Hr. induction a as [|x a IH]; simpl.
  - destruct rest as [|c r]; [reflexivity|]. cbn [take_ident]. rewrite (Hr c r eq_refl). reflexivity.
  - simpl in Ha. apply andb_prop in Ha. destruct Ha as [Hx Ha]. cbn [take_ident]. rewrite Hx, (IH Ha). reflexivity.
Qed.

Lemma ident_head_not c k x : ident k -> is_ident c = false -> starts_with c (k ++ x) = false.
Proof.
  intros [Hne Hk] Hc. destruct k as [|d k]; [congruence|]. simpl in *.
  apply andb_prop in Hk. destruct Hk as [Hd _].
  destruct (Z.eqb_spec d c); [subst; congruence|reflexivity].
Qed.

(* ---------------- label values ---------------- *)

Lemma read_value_escape v : forall rest, read_value (escape_label v ++ 34 :: rest) = Some (v, rest).
Proof.
  induction v as [|c v IH]; intros rest.
  - simpl. reflexivity.
  - unfold escape_label in *. cbn [flat_map]. unfold escape_byte at 1.
    destruct (Z.eqb_spec c 92) as [->|N92].
    { cbn [app]. cbn [read_value]. change (92 =? 34) with false. change (92 =? 10) with false. change (92 =? 92) with true.
      cbv iota. rewrite IH. reflexivity. }
    destruct (Z.eqb_spec c 10) as [->|N10].
    { cbn [app]. cbn [read_value]. change (92 =? 34) with false. change (92 =? 10) with false. change (92 =? 92) with true.
      change (110 =? 92) with false. change (110 =? 110) with true. cbv iota. rewrite IH. reflexivity. }
    destruct (Z.eqb_spec c 34) as [->|N34].
    { cbn [app]. cbn [read_value]. change (92 =? 34) with false. change (92 =? 10) with false. change (92 =? 92) with true.
      change (34 =? 92) with false. change (34 =? 110) with false. change (34 =? 34) with true. cbv iota. rewrite IH. reflexivity. }
    cbn [app]. cbn [read_value].
    destruct (Z.eqb_spec c 34); [contradiction|]. destruct (Z.eqb_spec c 10); [contradiction|].
    destruct (Z.eqb_spec c 92); [contradiction|]. rewrite IH. reflexivity.
Qed.

(* ---------------- label lists ---------------- *)

Lemma render_labels_cons esc k v l2 r :
  render_labels esc ((k, v) :: l2 :: r) = k ++ [61; 34] ++ esc v ++ [34; 44] ++ render_labels esc (l2 :: r).
Proof. destruct l2. reflexivity. Qed.

Lemma render_labels_starts k v r x : ident k ->
  starts_with 125 (render_labels escape_label ((k, v) :: r) ++ x) = false.
Proof.
  intros Hk. destruct r as [|l2 r].
  - simpl render_labels. rewrite <- app_assoc. apply ident_head_not; [exact Hk|reflexivity].
  - rewrite render_labels_cons, <- app_assoc. apply ident_head_not; [exact Hk|reflexivity].
Qed.

Lemma parse_labels_render ls : forall fuel rest,
  Forall (fun kv => ident (fst kv)) ls -> (length ls < fuel)%nat ->
  parse_labels fuel (render_labels escape_label ls ++ 125 :: rest) = Some (ls, rest).
Proof.
  induction ls as [|[k v] r IH]; intros fuel rest Hwf Hf.
  - destruct fuel; [simpl in Hf; lia|]. simpl. reflexivity.
  - destruct fuel as [|f]; [simpl in Hf; lia|]. inversion Hwf as [|? ? Hk Hwf']; subst. simpl in Hk.
    cbn [parse_labels]. rewrite (render_labels_starts k v r _ Hk).
    destruct r as [|l2 r'].
    + simpl render_labels. repeat rewrite <- app_assoc. simpl app at 2.
      rewrite take_ident_app; [|apply Hk|intros c q E; inversion E; reflexivity].
      destruct k as [|k0 k']; [destruct Hk; congruence|].
      change (61 =? 61) with true. change (34 =? 34) with true. cbv iota. simpl andb. cbv iota.
      simpl app. rewrite <- (app_assoc (escape_label v)). cbn [app]. rewrite read_value_escape. change (125 =? 125) with true. cbv iota. reflexivity.
    + rewrite render_labels_cons. repeat rewrite <- app_assoc. simpl app at 2.
      rewrite take_ident_app; [|apply Hk|intros c q E; inversion E; reflexivity].
      destruct k as [|k0 k']; [destruct Hk; congruence|].
      change (61 =? 61) with true. change (34 =? 34) with true. simpl andb. cbv iota.
      replace ([34; 44] ++ render_labels escape_label (l2 :: r') ++ 125 :: rest)
        with (34 :: 44 :: (render_labels escape_label (l2 :: r') ++ 125 :: rest)) by reflexivity.
      rewrite read_value_escape. change (44 =? 125) with false. change (44 =? 44) with true. cbv iota.
      destruct l2 as [k2 v2]. inversion Hwf' as [|? ? Hk2 _]; subst. simpl in Hk2.
      rewrite (render_labels_starts k2 v2 r' _ Hk2). simpl andb. cbv iota.
      rewrite IH; [reflexivity|exact Hwf'|simpl in *; lia].
Qed.

Lemma render_labels_length ls : Forall (fun kv => ident (fst kv)) ls ->
  (length ls <= length (render_labels escape_label ls))%nat.
Proof.
  induction 1 as [|[k v] r Hk _ IH]; [simpl; lia|].
  destruct r as [|l2 r'].
  - simpl. rewrite !app_length. simpl. lia.
  - rewrite render_labels_cons. rewrite !app_length. simpl in *. lia.
Qed.

(* ---------------- one sample line ---------------- *)

Definition sample_line (s : sample) : bytes := s_name s ++ render_tags escape_label (s_tags s) ++ [32] ++ s_value s.

Lemma parse_sample_render s : wf_sample s -> parse_sample (sample_line s) = Some s.
Proof.
  destruct s as [n t v]. unfold wf_sample, sample_line. simpl. intros (Hn & Ht & Hv & _).
  unfold parse_sample. destruct t as [ls|]; simpl render_tags.
  - rewrite take_ident_app; [|apply Hn|intros c q E; inversion E; reflexivity].
    destruct n as [|n0 n']; [destruct Hn; congruence|].
    replace ((123 :: render_labels escape_label ls ++ [125]) ++ 32 :: v)
      with (123 :: (render_labels escape_label ls ++ 125 :: 32 :: v))
      by (simpl; rewrite <- app_assoc; reflexivity).
    cbv beta match.
    set (fuel := S (length (render_labels escape_label ls ++ 125 :: 32 :: v))).
    assert (length ls < fuel)%nat as Hfuel.
    { unfold fuel. pose proof (render_labels_length ls Ht). rewrite app_length. cbn [length]. unfold label, bytes in *. lia. }
    clearbody fuel. change (123 =? 123) with true. cbv beta match.
    rewrite parse_labels_render; [|exact Ht|exact Hfuel].
    change (32 =? 32) with true. destruct v as [|v0 v']; [congruence|]. reflexivity.
  - rewrite app_nil_l. simpl app.
    rewrite take_ident_app; [|apply Hn|intros c q E; inversion E; reflexivity].
    destruct n as [|n0 n']; [destruct Hn; congruence|].
    change (32 =? 123) with false. change (32 =? 32) with true. cbv iota.
    destruct v as [|v0 v']; [congruence|]. reflexivity.
Qed.

(* ---------------- lines ---------------- *)

Definition line_of (i : item) : bytes :=
  match i with Comment c => 35 :: 32 :: c | Blank => [] | Sample s => sample_line s end.

Lemma render_item_line i : render_item escape_label i = line_of i ++ [10].
Proof.
  destruct i as [c| |s]; simpl; try reflexivity. unfold sample_line. repeat rewrite <- app_assoc. reflexivity.
Qed.

Lemma split_lines_line l : forall cur rest, no_nl l ->
  split_lines cur (l ++ 10 :: rest) =
  match split_lines [] rest with Some ls => Some ((rev cur ++ l) :: ls) | None => None end.
Proof.
  induction l as [|c l IH]; intros cur rest Hl; simpl.
  - rewrite app_nil_r. reflexivity.
  - destruct (Z.eqb_spec c 10) as [->|N]; [exfalso; apply Hl; left; reflexivity|].
    rewrite IH by (intros H; apply Hl; right; exact H). simpl. rewrite <- app_assoc. reflexivity.
Qed.

Lemma escape_no_nl v : no_nl (escape_label v).
Proof.
  unfold no_nl, escape_label. induction v as [|c v IH]; simpl; [intros []|].
  intros H. apply in_app_or in H. destruct H as [H|H]; [|contradiction].
  unfold escape_byte in H. destruct (Z.eqb_spec c 92); [simpl in H; intuition lia|].
  destruct (Z.eqb_spec c 10); [simpl in H; intuition lia|]. destruct (Z.eqb_spec c 34); simpl in H; intuition lia.
Qed.

Lemma ident_no_nl k : forallb is_ident k = true -> no_nl k.
Proof.
  intros H Hin. rewrite forallb_forall in H. specialize (H 10 Hin). discriminate.
Qed.

Lemma no_nl_app a b : no_nl a -> no_nl b -> no_nl (a ++ b).
Proof. unfold no_nl. intros Ha Hb H. apply in_app_or in H. tauto. Qed.

Lemma no_nl_small l : forallb (fun c => negb (c =? 10)) l = true -> no_nl l.
Proof.
  intros H Hin. rewrite forallb_forall in H. specialize (H 10 Hin). discriminate.
Qed.

Lemma render_labels_no_nl ls : Forall (fun kv => ident (fst kv)) ls -> no_nl (render_labels escape_label ls).
Proof.
  induction 1 as [|[k v] r [_ Hk] _ IH]; [intros []|]. simpl in Hk.
  destruct r as [|l2 r'].
  - change (render_labels escape_label [(k, v)]) with (k ++ [61; 34] ++ escape_label v ++ [34]).
    repeat apply no_nl_app; try (apply no_nl_small; reflexivity).
    + eapply ident_no_nl; exact Hk.
    + apply escape_no_nl.
  - rewrite render_labels_cons. repeat apply no_nl_app; try (apply no_nl_small; reflexivity).
    + eapply ident_no_nl; exact Hk.
    + apply escape_no_nl.
    + exact IH.
Qed.

Lemma line_no_nl i : wf_item i -> no_nl (line_of i).
Proof.
  destruct i as [c| |s]; simpl; intros Hw.
  - change (35 :: 32 :: c) with ([35; 32] ++ c). apply no_nl_app; [apply no_nl_small; reflexivity|exact Hw].
  - intros [].
  - destruct s as [n t v]. destruct Hw as ([_ Hn] & Ht & _ & Hv). unfold sample_line. cbn [s_name s_tags s_value] in *.
    repeat apply no_nl_app; try (apply no_nl_small; reflexivity).
    + eapply ident_no_nl; exact Hn.
    + destruct t as [ls|]; cbn [render_tags]; [|intros []].
      repeat apply no_nl_app; try (apply no_nl_small; reflexivity). apply render_labels_no_nl. exact Ht.
    + exact Hv.
Qed.

Lemma split_render items : Forall wf_item items ->
  split_lines [] (render escape_label items) = Some (map line_of items).
Proof.
  induction 1 as [|i r Hi _ IH]; [reflexivity|].
  unfold render in *. simpl flat_map. rewrite render_item_line, <- app_assoc. simpl app at 2.
  rewrite split_lines_line by (apply line_no_nl; exact Hi). rewrite IH. reflexivity.
Qed.

Lemma parse_lines_render items : Forall wf_item items ->
  parse_lines (map line_of items) = Some (samples_of items).
Proof.
  induction 1 as [|i r Hi _ IH]; [reflexivity|]. simpl map. cbn [parse_lines].
  destruct i as [c| |s]; simpl line_of.
  - simpl. exact IH.
  - simpl. exact IH.
  - assert (((match sample_line s with [] => true | _ => false end) || starts_with 35 (sample_line s)) = false) as E.
    { destruct s as [n t v]. destruct Hi as ([Hne Hn] & _). unfold sample_line. simpl in *.
      destruct n as [|n0 n']; [congruence|]. simpl. simpl in Hn. apply andb_prop in Hn. destruct Hn as [H0 _].
      destruct (Z.eqb_spec n0 35); [subst; discriminate|reflexivity]. }
    rewrite E. rewrite (parse_sample_render s Hi), IH. reflexivity.
Qed.

(* the exposition parses back to exactly the samples that were rendered, for ALL label values *)
Lemma parse_render items : Forall wf_item items -> parse (render escape_label items) = Some (samples_of items).
Proof. intros H. unfold parse. rewrite (split_render items H). apply parse_lines_render. exact H. Qed.

(* ---------------- FormatInt ---------------- *)

Fixpoint undigits (s : bytes) : option Decimal.uint :=
  match s with
  | [] => Some Decimal.Nil
  | c :: r =>
      match undigits r with
      | None => None
      | Some u =>
          if c =? 48 then Some (Decimal.D0 u) else if c =? 49 then Some (Decimal.D1 u) else if c =? 50 then Some (Decimal.D2 u)
          else if c =? 51 then Some (Decimal.D3 u) else if c =? 52 then Some (Decimal.D4 u) else if c =? 53 then Some (Decimal.D5 u)
          else if c =? 54 then Some (Decimal.D6 u) else if c =? 55 then Some (Decimal.D7 u) else if c =? 56 then Some (Decimal.D8 u)
          else if c =? 57 then Some (Decimal.D9 u) else None
      end
  end.

Definition parse_int (s : bytes) : option Z :=
  match s with
  | [] => None
  | c :: r => if c =? 45 then match r with [] => None | _ => option_map (fun u => Z.of_int (Decimal.Neg u)) (undigits r) end
              else option_map (fun u => Z.of_int (Decimal.Pos u)) (undigits s)
  end.

Lemma undigits_digits u : undigits (digits u) = Some u.
Proof. induction u; simpl; try reflexivity; rewrite IHu; reflexivity. Qed.

Lemma digits_head u c r : digits u = c :: r -> 48 <= c <= 57.
Proof. destruct u; simpl; intros H; inversion H; lia. Qed.

(* the value token of an integer sample reads back as the integer *)
Lemma parse_format_int z : parse_int (format_int z) = Some z.
Proof.
  unfold format_int. pose proof (DecimalZ.of_to z) as Hz. destruct (Z.to_int z) as [u|u] eqn:E.
  - unfold parse_int. destruct (digits u) as [|c r] eqn:Ed.
    + destruct u; simpl in Ed; try discriminate. simpl in Hz.
      (* Z.to_int never yields the empty numeral *)
      exfalso. clear Hz. unfold Z.to_int in E. destruct z as [|p|p]; simpl in E; try discriminate;
        inversion E as [E']; pose proof (DecimalPos.Unsigned.to_uint_nonnil p); congruence.
    + pose proof (digits_head u c r Ed). destruct (Z.eqb_spec c 45); [lia|].
      rewrite <- Ed, undigits_digits. cbn [option_map]. rewrite Hz. reflexivity.
  - unfold parse_int. change (45 =? 45) with true. cbv iota.
    destruct (digits u) as [|c r] eqn:Ed.
    + exfalso. destruct u; simpl in Ed; try discriminate.
      unfold Z.to_int in E. destruct z as [|p|p]; simpl in E; try discriminate;
        inversion E as [E']; pose proof (DecimalPos.Unsigned.to_uint_nonnil p); congruence.
    + rewrite <- Ed, undigits_digits. cbn [option_map]. rewrite Hz. reflexivity.
Qed.

(* ---------------- the code before the fix ---------------- *)

Definition raw (v : bytes) : bytes := v.

Lemma parse_render_raw_refuted : exists items, Forall wf_item items /\
  parse (render raw items) <> Some (samples_of items).
Proof.
  (* path name  a"} 1\nx{y="  *)
  exists [Sample {| s_name := [112]; s_tags := Some [([110], [97; 34; 125; 32; 49; 10; 120; 123; 121; 61; 34])]; s_value := [49] |}].
  split.
  - constructor; [|constructor]. repeat split; simpl; try discriminate; try reflexivity.
    + constructor; [|constructor]. split; [discriminate|reflexivity].
    + intros [H|[]]; discriminate.
  - vm_compute. discriminate.
Qed.
