(* Path event loop: the finite invariant across doAddPublisher / doSourceStaticSetReady (which run
   consumeOnHoldRequests), and for every operation. *)
From Coq Require Import List ZArith Bool Lia.
Require Import MTX.Lib.Trace MTX.Model.PathSM MTX.Proofs.PathSM.
Import ListNotations.
Local Open Scope Z_scope.
(* the state after attach_publisher, refused publishers included *)
Definition attached (p : Z) (ok : bool) (s : pstate) : pstate :=
  if aa s && negb ok then s else fst (consume_on_hold (fst (pre_attach p s))).

Lemma fst_add_publisher q p ok s :
  fst (do_add_publisher q p ok s) =
  if c_static (s_conf s) then s
  else match s_source s with
       | Some old =>
           if negb (c_override (s_conf s)) then s
           else attached p ok (fst (execute_remove_publisher s))
       | None => attached p ok s
       end.
Proof.
  unfold do_add_publisher, attached. destruct (c_static (s_conf s)); [reflexivity|].
  destruct (s_source s) as [old|].
  - destruct (negb (c_override (s_conf s))); [reflexivity|].
    rewrite !fst_bind, fst_attach. reflexivity.
  - apply fst_attach.
Qed.

Lemma fst_static_ready q s :
  fst (do_static_ready q s) =
  if s_ssRunning s && negb (s_instReady s)
  then set_instReady true (fst (consume_on_hold (fst (pre_static_ready s))))
  else s.
Proof.
  unfold do_static_ready, pre_static_ready. destruct (s_ssRunning s && negb (s_instReady s)); [|reflexivity].
  rewrite !fst_bind. reflexivity.
Qed.

(* reduction of the state only: the invariant stays folded *)
Ltac red_state :=
  lazy beta iota zeta delta [fst snd
     step_gen pre_attach pre_tail pre_static_ready execute_remove_publisher clear_timers close_source close_demand close_stream
     source_gone start_offline aa not_aa attached
     set_not_available set_available set_online set_offline call_unavailable hook_open hook_close panic
     handler_start handler_stop ss_start ss_schedule_close ss_stop pub_start pub_schedule_close pub_stop
     bump_on_demand fail_on_hold whenM bindM modify emit ret timer_armed disarm cur_stream
     set_closed set_source set_stream set_nextgen set_readers set_dhold set_rhold set_ssState set_ssReadyT
     set_ssCloseT set_ssRunning set_instReady set_pubState set_pubReadyT set_pubCloseT set_hUnDemand
     set_hUnavail set_hOffline set_sub
     s_conf s_closed s_source s_stream s_nextgen s_readers s_dhold s_rhold s_ssState s_ssReadyT s_ssCloseT
     s_ssRunning s_instReady s_pubState s_pubReadyT s_pubCloseT s_hUnDemand s_hUnavail s_hOffline s_sub
     PathSM.c_static PathSM.c_sod PathSM.c_override PathSM.c_maxr PathSM.c_hAvail PathSM.c_hUnavail
     PathSM.c_hOnline PathSM.c_hOffline PathSM.c_hDemand PathSM.c_hUnDemand PathSM.c_aa
     od_static od_pub ods_eqb andb orb negb].

Ltac after_consume :=
  lazymatch goal with
  | |- context [consume_on_hold ?S4] =>
      let E := fresh "E" in let rd' := fresh "rd'" in let Hne := fresh "Hne" in
      change (let (x, _) := consume_on_hold S4 in x) with (fst (consume_on_hold S4));
      destruct (consume_cases S4) as [E|(rd' & Hne & E)]; rewrite E; clear E;
      [|destruct rd' as [|? ?]; [congruence|]]; red_goal; rewrite ?Z.eqb_refl; reflexivity
  | |- _ => red_goal; rewrite ?Z.eqb_refl; reflexivity
  end.

Lemma inv_weaken fx s : inv_b fx s = true -> inv_b false s = true.
Proof.
  intros H. destruct fx; [|exact H]. start s. destruct cl; [exact H|].
  enum H; red_goal; rewrite ?Z.eqb_refl; reflexivity.
Qed.

(* executeRemovePublisher is what RemovePublisher did before the repair *)
Lemma fin_erp s p :
  inv_b false s = true -> s_closed s = false -> s_source s = Some p ->
  inv_b false (fst (execute_remove_publisher s)) = true.
Proof.
  intros H Hc Hs. pose proof (fin_remove_publisher false s p H) as H1.
  unfold step_gen, do_remove_publisher in H1. rewrite Hc, Hs, Z.eqb_refl in H1.
  rewrite fst_bind in H1. exact H1.
Qed.

Lemma erp_fields s :
  s_source (fst (execute_remove_publisher s)) = None /\
  s_closed (fst (execute_remove_publisher s)) = (s_closed s || (negb (aa s) && negb (s_hUnavail s))) /\
  s_conf (fst (execute_remove_publisher s)) = s_conf s.
Proof.
  destruct s as [[? ? ? ? ? ? ? ? ? ? a] cl ? ? ? ? ? ? ? ? ? ? ? ? ? ? ? hua hof ?].
  destruct a, hof, hua, cl; repeat split; reflexivity.
Qed.

Lemma fin_attach fx s p ok :
  inv_b false s = true -> s_closed s = false -> s_source s = None -> c_static (s_conf s) = false ->
  inv_b fx (attached p ok s) = true.
Proof.
  intros H Hc Hs Hst. start s. cbn in Hc, Hs, Hst. subst.
  destruct fx, ok; enum H; red_state; after_consume.
Qed.

Lemma fin_add_publisher fx s q p ok : inv_b fx s = true -> inv_b fx (fst (step_gen fx s (AddPublisher q p ok))) = true.
Proof.
  intros H. unfold step_gen. destruct (s_closed s) eqn:Ecl; [exact H|]. rewrite fst_add_publisher.
  destruct (c_static (s_conf s)) eqn:Est; [exact H|].
  pose proof (inv_weaken _ _ H) as Hw.
  destruct (s_source s) as [old|] eqn:Esrc.
  - destruct (negb (c_override (s_conf s))); [exact H|].
    destruct (erp_fields s) as (F1 & F2 & F3).
    assert (Hua : s_hUnavail s = true).
    { clear - H Ecl Est Esrc. start s. cbn in *. subst. enum H; reflexivity. }
    apply fin_attach.
    + apply fin_erp with (p := old); assumption.
    + rewrite F2, Ecl, Hua, andb_false_r. reflexivity.
    + exact F1.
    + rewrite F3. exact Est.
  - apply fin_attach; assumption.
Qed.

Lemma fin_static_ready fx s q : inv_b fx s = true -> inv_b fx (fst (step_gen fx s (StaticReady q))) = true.
Proof.
  intros H. unfold step_gen. destruct (s_closed s) eqn:Ecl; [exact H|]. rewrite fst_static_ready.
  start s. cbn in Ecl. subst cl.
  enum H; red_state; after_consume.
Qed.

Lemma fin_step fx s o : inv_b fx s = true -> inv_b fx (fst (step_gen fx s o)) = true.
Proof.
  destruct o.
  - apply fin_describe.
  - apply fin_add_publisher.
  - apply fin_remove_publisher.
  - apply fin_add_reader.
  - apply fin_remove_reader.
  - apply fin_static_ready.
  - apply fin_static_not_ready.
  - apply fin_timer.
  - intros H. unfold step_gen. destruct (s_closed s); exact H.
  - apply fin_close.
Qed.
