(* decode (encode au) = au, part 2: FU-A fragments, one batch, the whole access unit, sequences of units. *)
From Coq Require Import List ZArith Bool Lia Arith.
Require Import MTX.Lib.IntWrap MTX.Model.C23_RtpH264 MTX.Proofs.C23_RtpH264 MTX.Proofs.C23_RtpH264Seq
               MTX.Proofs.C23_RtpH264Rt.
Import ListNotations.
Local Open Scope Z_scope.

Lemma au_size_nonneg a : 0 <= au_size a.
Proof. induction a as [|x a IH]; cbn [au_size]; [lia|pose proof (blen_nonneg x); lia]. Qed.

(* ------------------------------------------------------------------ FU-A packets, one at a time *)

Lemma fu_first d seq ts m ssrc b chunk :
  0 <= b < 128 ->
  decode d (mkpkt seq ts m ssrc (fu_ind b :: fu_hdr 1 0 b :: chunk))
  = (set_first (set_frags d (b :: chunk) (blen (fu_hdr 1 0 b :: chunk)) (wrapu16 (seq + 1))), DMore).
Proof.
  intros Hb. destruct (fu_facts b 1 0 Hb (or_intror eq_refl) (or_introl eq_refl)) as (H1 & H2 & H3 & H4).
  unfold decode, decode_nalus. cbn [p_payload p_seq]. cbv zeta.
  rewrite H1. change (28 =? 28) with true. cbv iota.
  rewrite H2. change (1 =? 1) with true. cbv iota.
  rewrite H3. change (negb (0 =? 0)) with false. cbv iota.
  rewrite H4. reflexivity.
Qed.

Lemma fu_mid d seq ts m ssrc b chunk :
  0 <= b < 128 -> 0 < d.(d_fsize) -> seq = d.(d_next) -> d.(d_fsize) + blen chunk <= max_au_size ->
  decode d (mkpkt seq ts m ssrc (fu_ind b :: fu_hdr 0 0 b :: chunk))
  = (set_frags d (d.(d_frags) ++ chunk) (d.(d_fsize) + blen chunk) (wrapu16 (d.(d_next) + 1)), DMore).
Proof.
  intros Hb Hfs Hseq Hsz. destruct (fu_facts b 0 0 Hb (or_introl eq_refl) (or_introl eq_refl)) as (H1 & H2 & H3 & H4).
  unfold decode, decode_nalus. cbn [p_payload p_seq]. cbv zeta.
  rewrite H1. change (28 =? 28) with true. cbv iota.
  rewrite H2. change (0 =? 1) with false. cbv iota.
  destruct (d_fsize d =? 0) eqn:E0; [apply Z.eqb_eq in E0; lia|].
  rewrite Hseq, Z.eqb_refl. cbn [negb].
  destruct (d_fsize d + blen chunk >? max_au_size) eqn:E1; [apply Z.gtb_lt in E1; lia|].
  rewrite H3. change (negb (0 =? 1)) with true. cbv iota. reflexivity.
Qed.

Lemma fu_last d seq ts m ssrc b chunk F :
  0 <= b < 128 -> 0 < d.(d_fsize) -> seq = d.(d_next) -> d.(d_fsize) + blen chunk <= max_au_size ->
  no_sc (d.(d_frags) ++ chunk) -> d.(d_frags) <> [] -> fbstate d F ts ->
  blen F + 1 <= max_nalus -> au_size F + blen (d.(d_frags) ++ chunk) <= max_au_size ->
  exists d2, decode d (mkpkt seq ts m ssrc (fu_ind b :: fu_hdr 0 1 b :: chunk))
             = (d2, last_out m (F ++ [d.(d_frags) ++ chunk]))
             /\ fbstate d2 (if m then [] else F ++ [d.(d_frags) ++ chunk]) ts.
Proof.
  intros Hb Hfs Hseq Hsz Hsc Hne Hst Hl1 Hl2.
  destruct (fu_facts b 0 1 Hb (or_introl eq_refl) (or_intror eq_refl)) as (H1 & H2 & H3 & H4).
  assert (Hne2 : d_frags d ++ chunk <> []).
  { intros H. apply app_eq_nil in H. destruct H; congruence. }
  assert (Hdn : exists d1, decode_nalus d (mkpkt seq ts m ssrc (fu_ind b :: fu_hdr 0 1 b :: chunk))
                           = (d1, inl [d_frags d ++ chunk]) /\ fbstate d1 F ts).
  { unfold decode_nalus. cbn [p_payload p_seq]. cbv zeta.
    rewrite H1. change (28 =? 28) with true. cbv iota.
    rewrite H2. change (0 =? 1) with false. cbv iota.
    destruct (d_fsize d =? 0) eqn:E0; [apply Z.eqb_eq in E0; lia|].
    rewrite Hseq, Z.eqb_refl. cbn [negb].
    destruct (d_fsize d + blen chunk >? max_au_size) eqn:E1; [apply Z.gtb_lt in E1; lia|].
    rewrite H3. change (negb (1 =? 1)) with false. cbv iota.
    cbn [set_frags d_frags]. rewrite (split_nalus_one _ Hne2 Hsc).
    unfold remove_annexb. destruct Hst as (Hab & Hrest).
    cbn [reset_frags set_frags d_annexb]. rewrite Hab, (no_sc_no4 _ Hsc). cbn [negb andb].
    cbn [reset_frags set_frags d_annexb]. rewrite Hab.
    eexists. split; [reflexivity|]. split; [exact Hab|exact Hrest]. }
  destruct Hdn as (d1 & Hdn & Hst1).
  pose proof (decode_of_nalus d (mkpkt seq ts m ssrc (fu_ind b :: fu_hdr 0 1 b :: chunk)) d1
                [d_frags d ++ chunk] F Hdn) as H.
  cbn [p_ts p_marker] in H. apply H; try assumption.
  - discriminate.
  - cbn [au_size]. lia.
Qed.

(* ------------------------------------------------------------------ the rest of a fragmented NAL unit *)

Lemma stamp_mk delta seq m ssrc pl :
  stamp delta (mkpkt seq 0 m ssrc pl) = mkpkt seq (wrapu32 (0 + delta)) m ssrc pl.
Proof. reflexivity. Qed.

(* one step of the loop when it is not the last one *)
Lemma frag_loop_SS k avail ind typ start marker body e :
  frag_loop (S (S k)) avail ind typ start marker body e =
  let '(r, e') := frag_loop (S k) avail ind typ 0 marker (skipn avail body) (bump e) in
  (mkpkt (e_seq e) 0 (false && marker) (e_ssrc e)
         (ind :: Z.lor (Z.lor (Z.shiftl start 7) (Z.shiftl 0 6)) typ :: firstn avail body) :: r, e').
Proof. reflexivity. Qed.

Lemma frag_rest : forall k avail b marker body e d delta F,
  0 <= b < 128 -> 0 < d.(d_fsize) -> d.(d_next) = e.(e_seq) ->
  d.(d_fsize) + blen body <= max_au_size -> no_sc (d.(d_frags) ++ body) -> d.(d_frags) <> [] ->
  fbstate d F (wrapu32 (0 + delta)) ->
  blen F + 1 <= max_nalus -> au_size F + blen (d.(d_frags) ++ body) <= max_au_size ->
  exists d2,
    decode_run d (map (stamp delta) (fst (frag_loop (S k) avail (fu_ind b) (Z.land b 31) 0 marker body e)))
    = (outs (S k) (last_out marker (F ++ [d.(d_frags) ++ body])), d2)
    /\ fbstate d2 (if marker then [] else F ++ [d.(d_frags) ++ body]) (wrapu32 (0 + delta)).
Proof.
  induction k as [|k IH]; intros avail b marker body e d delta F Hb Hfs Hnx Hsz Hsc Hne Hst Hl1 Hl2.
  - cbn [frag_loop fst map andb].
    change (Z.lor (Z.lor (Z.shiftl 0 7) (Z.shiftl 1 6)) (Z.land b 31)) with (fu_hdr 0 1 b).
    rewrite stamp_mk, firstn_all. cbn [decode_run].
    destruct (fu_last d (e_seq e) (wrapu32 (0 + delta)) marker (e_ssrc e) b body F Hb Hfs (eq_sym Hnx) Hsz Hsc Hne Hst Hl1 Hl2)
      as (d2 & Hd & Hst2).
    rewrite Hd. exists d2. split; [reflexivity|exact Hst2].
  - rewrite frag_loop_SS.
    match goal with |- context [frag_loop (S k) ?a ?i ?t ?s ?m ?bd ?ee] =>
      specialize (IH a b m bd ee); destruct (frag_loop (S k) a i t s m bd ee) as [r0 e1] eqn:Er end.
    cbn [fst map andb] in *.
    change (Z.lor (Z.lor (Z.shiftl 0 7) (Z.shiftl 0 6)) (Z.land b 31)) with (fu_hdr 0 0 b).
    rewrite stamp_mk. cbn [decode_run].
    assert (Hchunk : blen (firstn avail body) + blen (skipn avail body) = blen body).
    { rewrite <- blen_app, firstn_skipn. reflexivity. }
    pose proof (blen_nonneg (firstn avail body)). pose proof (blen_nonneg (skipn avail body)).
    rewrite (fu_mid d (e_seq e) (wrapu32 (0 + delta)) false (e_ssrc e) b (firstn avail body) Hb Hfs (eq_sym Hnx))
      by lia.
    set (d1 := set_frags d (d_frags d ++ firstn avail body) (d_fsize d + blen (firstn avail body))
                         (wrapu16 (d_next d + 1))).
    assert (Hfr : d_frags d1 ++ skipn avail body = d_frags d ++ body).
    { subst d1. cbn [set_frags d_frags]. rewrite <- app_assoc, firstn_skipn. reflexivity. }
    destruct (IH d1 delta F Hb) as (d2 & Hrun & Hst2).
    + subst d1. cbn [set_frags d_fsize]. lia.
    + subst d1. cbn [set_frags d_next bump e_seq]. rewrite Hnx. reflexivity.
    + subst d1. cbn [set_frags d_fsize]. lia.
    + rewrite Hfr. exact Hsc.
    + subst d1. cbn [set_frags d_frags]. intros Hx. apply app_eq_nil in Hx. destruct Hx; congruence.
    + subst d1. apply fbstate_set_frags, Hst.
    + exact Hl1.
    + rewrite Hfr. exact Hl2.
    + rewrite Hrun. rewrite Hfr in *. exists d2. split; [|exact Hst2].
      rewrite outs_cons by lia. reflexivity.
Qed.

(* ------------------------------------------------------------------ a fragmented NAL unit *)

Lemma fragmented_decode e n marker pkts e' d delta F :
  3 <= e.(e_max) -> nal_ok n -> e.(e_max) <= blen n ->
  write_fragmented e n marker = Ok (pkts, e') -> fbstate d F (wrapu32 (0 + delta)) ->
  blen F + 1 <= max_nalus -> au_size F + blen n <= max_au_size ->
  exists d2, decode_run d (map (stamp delta) pkts) = (outs (length pkts) (last_out marker (F ++ [n])), d2)
             /\ fbstate d2 (if marker then [] else F ++ [n]) (wrapu32 (0 + delta)) /\ (1 <= length pkts)%nat.
Proof.
  intros Hmax Hok Hbig Hw Hst Hl1 Hl2.
  destruct n as [|b body]; [destruct Hok|]. destruct Hok as (Hb & _ & Hsc).
  unfold write_fragmented in Hw.
  destruct (e_max e - 2 <=? 0) eqn:E; [discriminate|]. apply Z.leb_gt in E.
  remember (blen (b :: body) - 1) as le eqn:Hle0. rewrite blen_cons in Hle0, Hbig.
  apply ok_inj in Hw.
  pose proof (packet_count_spec (e_max e - 2) le ltac:(lia) ltac:(pose proof (blen_nonneg body); lia))
    as (Hle & _ & Hpc).
  set (pc := packet_count (e_max e - 2) le) in *.
  assert (Hpc2 : 2 <= pc) by nia.
  destruct (Z.to_nat pc) as [|[|k]] eqn:Ek; [lia|lia|].
  change (Z.lor (Z.shiftl (Z.land (Z.shiftr b 5) 3) 5) 28) with (fu_ind b) in Hw.
  set (avail := Z.to_nat (e_max e - 2)) in *.
  pose proof (frag_loop_post (S (S k)) avail (fu_ind b) (Z.land b 31) 1 marker body e) as [_ Hlen].
  rewrite Hw in Hlen. cbn [fst] in Hlen.
  rewrite frag_loop_SS in Hw.
  destruct (frag_loop (S k) avail (fu_ind b) (Z.land b 31) 0 marker (skipn avail body) (bump e)) as [r0 e1] eqn:Er.
  apply pair_equal_spec in Hw. destruct Hw as [Hp _]. subst pkts.
  cbn [map andb].
  change (Z.lor (Z.lor (Z.shiftl 1 7) (Z.shiftl 0 6)) (Z.land b 31)) with (fu_hdr 1 0 b).
  rewrite stamp_mk. cbn [decode_run].
  rewrite (fu_first d (e_seq e) (wrapu32 (0 + delta)) false (e_ssrc e) b (firstn avail body) Hb).
  set (d1 := set_first (set_frags d (b :: firstn avail body) (blen (fu_hdr 1 0 b :: firstn avail body))
                                  (wrapu16 (e_seq e + 1)))).
  assert (Hfr : d_frags d1 ++ skipn avail body = b :: body).
  { subst d1. cbn [set_first set_frags d_frags app]. rewrite firstn_skipn. reflexivity. }
  assert (Hchunk : blen (firstn avail body) + blen (skipn avail body) = blen body).
  { rewrite <- blen_app, firstn_skipn. reflexivity. }
  pose proof (blen_nonneg (firstn avail body)). pose proof (blen_nonneg (skipn avail body)).
  pose proof (au_size_nonneg F).
  pose proof (frag_rest k avail b marker (skipn avail body) (bump e) d1 delta F Hb) as HR.
  rewrite Er in HR. cbn [fst] in HR.
  destruct HR as (d2 & Hrun & Hst2).
  - subst d1. cbn [set_first set_frags d_fsize]. rewrite blen_cons. lia.
  - subst d1. cbn [set_first set_frags d_next bump e_seq]. reflexivity.
  - subst d1. cbn [set_first set_frags d_fsize]. rewrite blen_cons. rewrite blen_cons in Hl2. lia.
  - rewrite Hfr. exact Hsc.
  - subst d1. cbn [set_first set_frags d_frags]. discriminate.
  - subst d1. apply fbstate_set_first, fbstate_set_frags, Hst.
  - exact Hl1.
  - rewrite Hfr. exact Hl2.
  - rewrite Hrun. rewrite Hfr in *. exists d2. split; [|split; [exact Hst2|cbn [length]; lia]].
    cbn [length] in Hlen. assert (Hr0 : length r0 = S k) by lia. cbn [length]. rewrite Hr0.
    rewrite outs_cons by lia. reflexivity.
Qed.

(* ------------------------------------------------------------------ one batch *)

Lemma len_agg_list_in n batch : In n batch -> 2 + blen n <= len_agg_list batch.
Proof.
  induction batch as [|x r IH]; [intros []|]. intros [->|H]; cbn [len_agg_list].
  - pose proof (len_agg_list_nonneg r). lia.
  - specialize (IH H). pose proof (blen_nonneg x). lia.
Qed.

Lemma write_batch_decode e batch marker pkts e' d delta F :
  3 <= e.(e_max) < 65536 -> batch <> [] -> Forall nal_ok batch -> batch_ok e.(e_max) batch ->
  write_batch e batch marker = Ok (pkts, e') -> fbstate d F (wrapu32 (0 + delta)) ->
  blen F + blen batch <= max_nalus -> au_size F + au_size batch <= max_au_size ->
  exists d2, decode_run d (map (stamp delta) pkts) = (outs (length pkts) (last_out marker (F ++ batch)), d2)
             /\ fbstate d2 (if marker then [] else F ++ batch) (wrapu32 (0 + delta)) /\ (1 <= length pkts)%nat.
Proof.
  intros Hmax Hne Hok Hbok Hw Hst Hl1 Hl2. unfold write_batch in Hw.
  destruct batch as [|n [|n2 r]]; [congruence| |].
  - inversion Hok as [|? ? Hn _]; subst. cbn [au_size] in Hl2. unfold blen at 2 in Hl1. cbn [length] in Hl1.
    destruct (blen n <? e_max e) eqn:E.
    + unfold write_single in Hw. apply ok_inj, pair_equal_spec in Hw. destruct Hw as [Hp _]. subst pkts.
      cbn [map]. rewrite stamp_mk. cbn [decode_run length].
      destruct (single_decode d (e_seq e) (wrapu32 (0 + delta)) marker (e_ssrc e) n F Hn Hst ltac:(lia) ltac:(lia))
        as (d2 & Hd & Hst2).
      rewrite Hd. exists d2. split; [reflexivity|split; [exact Hst2|lia]].
    + apply Z.ltb_ge in E.
      eapply fragmented_decode; try eassumption; lia.
  - unfold write_aggregated in Hw. apply ok_inj, pair_equal_spec in Hw. destruct Hw as [Hp _]. subst pkts.
    rewrite map_cons. change (map (stamp delta) []) with (@nil packet).
    rewrite stamp_mk. cbn [decode_run length].
    destruct Hbok as [Hb|Hb]; [simpl in Hb; lia|]. unfold len_agg in Hb.
    assert (Hall : Forall (fun n => n <> [] /\ blen n < 65536) (n :: n2 :: r)).
    { rewrite Forall_forall in *. intros x Hx. split; [apply nal_ok_nonempty, Hok, Hx|].
      pose proof (len_agg_list_in x _ Hx). lia. }
    destruct (stap_decode d (e_seq e) (wrapu32 (0 + delta)) marker (e_ssrc e) (n :: n2 :: r) F
                ltac:(simpl; lia) Hall Hst Hl1 Hl2) as (d2 & Hd & Hst2).
    rewrite Hd. exists d2. split; [reflexivity|split; [exact Hst2|lia]].
Qed.

(* ------------------------------------------------------------------ the whole access unit *)

Lemma enc_loop_decode : forall au e batch pkts e' d delta F,
  3 <= e.(e_max) < 65536 -> batch ++ au <> [] -> Forall nal_ok (batch ++ au) -> batch_ok e.(e_max) batch ->
  enc_loop e au batch = Ok (pkts, e') -> fbstate d F (wrapu32 (0 + delta)) ->
  blen F + blen (batch ++ au) <= max_nalus -> au_size F + au_size (batch ++ au) <= max_au_size ->
  exists d2, decode_run d (map (stamp delta) pkts) = (outs (length pkts) (DOk (F ++ batch ++ au)), d2)
             /\ fbstate d2 [] (wrapu32 (0 + delta)) /\ (1 <= length pkts)%nat.
Proof.
  induction au as [|nalu r IH]; intros e batch pkts e' d delta F Hmax Hne Hok Hbok Hw Hst Hl1 Hl2.
  - rewrite app_nil_r in *. cbn [enc_loop] in Hw.
    exact (write_batch_decode e batch true pkts e' d delta F Hmax Hne Hok Hbok Hw Hst Hl1 Hl2).
  - cbn [enc_loop] in Hw.
    match type of Hw with (if ?c then _ else _) = _ => destruct c eqn:E end.
    + replace (batch ++ nalu :: r) with ((batch ++ [nalu]) ++ r) in * by (rewrite <- app_assoc; reflexivity).
      eapply IH; try eassumption.
      right. rewrite len_agg_snoc. apply Z.leb_le. exact E.
    + destruct batch as [|b0 br].
      * cbn [app] in *. change (nalu :: r) with ([nalu] ++ r) in *.
        eapply IH; try eassumption. left. simpl. lia.
      * destruct (write_batch e (b0 :: br) false) as [[pk1 e1]|] eqn:E1; [|discriminate].
        destruct (enc_loop e1 r [nalu]) as [[pk2 e2]|] eqn:E2; [|discriminate].
        apply ok_inj, pair_equal_spec in Hw. destruct Hw as [Hp _]. subst pkts.
        pose proof (write_batch_max _ _ _ _ _ E1) as [Hm _].
        rewrite Forall_app in Hok. destruct Hok as [Hok1 Hok2].
        rewrite blen_app in Hl1. rewrite au_size_app in Hl2.
        pose proof (blen_nonneg (nalu :: r)). pose proof (au_size_nonneg (nalu :: r)).
        destruct (write_batch_decode e (b0 :: br) false pk1 e1 d delta F Hmax ltac:(discriminate) Hok1 Hbok E1 Hst
                    ltac:(lia) ltac:(lia)) as (d1 & Hrun1 & Hst1 & Hlen1).
        destruct (IH e1 [nalu] pk2 e2 d1 delta (F ++ b0 :: br)) as (d2 & Hrun2 & Hst2 & Hlen2); try assumption.
        -- rewrite Hm. exact Hmax.
        -- discriminate.
        -- left. simpl. lia.
        -- rewrite blen_app. cbn [app]. lia.
        -- rewrite au_size_app. cbn [app]. lia.
        -- rewrite map_app, decode_run_app, Hrun1, Hrun2. exists d2. split; [|split; [exact Hst2|rewrite app_length; lia]].
           unfold last_out. rewrite outs_app by assumption. rewrite app_length.
           rewrite <- app_assoc. reflexivity.
Qed.

Definition clean (d : dec) : Prop :=
  d.(d_annexb) = false /\ d.(d_fb) = None /\ d.(d_fblen) = 0 /\ d.(d_fbsize) = 0.

Lemma clean_fbstate d ts : clean d <-> fbstate d [] ts.
Proof.
  unfold clean, fbstate. cbn. split.
  - intros (A & B & C & D). repeat split; try assumption. congruence.
  - intros (A & B & C & D & _). repeat split; assumption.
Qed.

Lemma dec_init_clean : clean dec_init.
Proof. repeat split. Qed.

Theorem h264_roundtrip e au pkts e' d delta :
  3 <= e.(e_max) < 65536 -> au <> [] -> Forall nal_ok au ->
  blen au <= max_nalus -> au_size au <= max_au_size ->
  h264_encode e au = Ok (pkts, e') -> clean d ->
  exists d', decode_run d (map (stamp delta) pkts) = (repeat DMore (length pkts - 1) ++ [DOk au], d')
             /\ clean d' /\ (1 <= length pkts)%nat.
Proof.
  intros Hmax Hne Hok Hl1 Hl2 Hw Hc.
  destruct (enc_loop_decode au e [] pkts e' d delta [] Hmax Hne Hok ltac:(left; simpl; lia) Hw
              (proj1 (clean_fbstate d _) Hc) ltac:(cbn [app]; unfold blen at 1; simpl; lia)
              ltac:(cbn [app au_size]; lia)) as (d2 & Hrun & Hst & Hlen).
  exists d2. split; [exact Hrun|split; [apply (clean_fbstate d2 (wrapu32 (0 + delta))), Hst|exact Hlen]].
Qed.

(* a sequence of access units, each stamped with its own timestamp delta: every unit comes back *)
Fixpoint stamp_units (deltas : list Z) (pkss : list (list packet)) : list packet :=
  match deltas, pkss with
  | dl :: dr, pk :: pr => map (stamp dl) pk ++ stamp_units dr pr
  | _, _ => []
  end.

Fixpoint dok_units (outs : list dout) : list (list bytes) :=
  match outs with
  | [] => []
  | DOk au :: r => au :: dok_units r
  | _ :: r => dok_units r
  end.

Lemma dok_units_app a b : dok_units (a ++ b) = dok_units a ++ dok_units b.
Proof. induction a as [|x a IH]; [reflexivity|]. destruct x; cbn [app dok_units]; rewrite IH; reflexivity. Qed.

Lemma dok_units_more n : dok_units (repeat DMore n) = [].
Proof. induction n; [reflexivity|exact IHn]. Qed.

Theorem h264_roundtrip_run : forall aus e pkss e' d deltas,
  3 <= e.(e_max) < 65536 ->
  Forall (fun au => au <> [] /\ Forall nal_ok au /\ blen au <= max_nalus /\ au_size au <= max_au_size) aus ->
  length deltas = length aus ->
  h264_encode_run e aus = Ok (pkss, e') -> clean d ->
  dok_units (fst (decode_run d (stamp_units deltas pkss))) = aus
  /\ ~ In DErr (fst (decode_run d (stamp_units deltas pkss)))
  /\ clean (snd (decode_run d (stamp_units deltas pkss))).
Proof.
  induction aus as [|au r IH]; intros e pkss e' d deltas Hmax Hall Hlen Hw Hc.
  - cbn in Hw. apply ok_inj, pair_equal_spec in Hw. destruct Hw; subst.
    destruct deltas; cbn; repeat split; try tauto; apply Hc.
  - cbn [h264_encode_run] in Hw.
    destruct (h264_encode e au) as [[pk1 e1]|] eqn:E1; [|discriminate].
    destruct (h264_encode_run e1 r) as [[rest e2]|] eqn:E2; [|discriminate].
    apply ok_inj, pair_equal_spec in Hw. destruct Hw as [Hp _]. subst pkss.
    destruct deltas as [|dl dr]; [discriminate|]. cbn [length] in Hlen.
    inversion Hall as [|? ? (H1 & H2 & H3 & H4) Hall']; subst.
    destruct (h264_roundtrip e au pk1 e1 d dl Hmax H1 H2 H3 H4 E1 Hc) as (d1 & Hrun & Hc1 & _).
    pose proof (h264_encode_post _ _ _ _ E1) as (_ & _ & _ & Hm & _).
    specialize (IH e1 rest e2 d1 dr ltac:(rewrite Hm; exact Hmax) Hall' ltac:(lia) E2 Hc1).
    cbn [stamp_units]. rewrite decode_run_app, Hrun.
    destruct (decode_run d1 (stamp_units dr rest)) as [os d2]. cbn [fst snd] in *.
    destruct IH as (I1 & I2 & I3). split; [|split; [|exact I3]].
    + rewrite !dok_units_app, dok_units_more. cbn [dok_units app]. rewrite I1. reflexivity.
    + intros Hin. apply in_app_or in Hin. destruct Hin as [Hin|Hin]; [|exact (I2 Hin)].
      apply in_app_or in Hin. destruct Hin as [Hin|[Hin|[]]]; [|discriminate].
      apply repeat_spec in Hin. discriminate.
Qed.
