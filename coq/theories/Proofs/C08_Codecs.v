(* C08 — round-trip proofs for StringSize (repaired marshaller), the enum tables, RTSPTransports and
   IPv4 networks. *)
From Coq Require Import List ZArith Bool Lia.
Require Import MTX.Lib.IntWrap MTX.Lib.Utf8 MTX.Model.C08_Scalars MTX.Proofs.C08_Dec.
Import ListNotations.
Local Open Scope Z_scope.

Lemma str_eqb_eq a b : str_eqb a b = true <-> a = b.
Proof. apply list_eqb_eq. Qed.

(* ------------------------------------------------------------------ finite ranges by computation *)

Lemma in_range_list (N : nat) k : 0 <= k < Z.of_nat N -> In k (map Z.of_nat (seq 0 N)).
Proof.
  intros H. apply in_map_iff. exists (Z.to_nat k). split; [lia|]. apply in_seq. lia.
Qed.

Lemma range_forallb (N : nat) (p : Z -> bool) :
  forallb p (map Z.of_nat (seq 0 N)) = true -> forall k, 0 <= k < Z.of_nat N -> p k = true.
Proof. intros H k Hk. rewrite forallb_forall in H. apply H, in_range_list, Hk. Qed.

(* ------------------------------------------------------------------ StringSize *)

Lemma trim_left_id s : forallb (fun c => negb (is_space c)) s = true -> trim_left s = s.
Proof.
  destruct s as [|c r]; [reflexivity|]. simpl. intros H. apply andb_true_iff in H as [Hc _].
  apply negb_true_iff in Hc. rewrite Hc. reflexivity.
Qed.

Lemma trim_space_id s : forallb (fun c => negb (is_space c)) s = true -> trim_space s = s.
Proof.
  intros H. unfold trim_space. rewrite (trim_left_id s H), trim_left_id, rev_involutive; [reflexivity|].
  rewrite forallb_forall in *. intros x Hx. apply H, in_rev, Hx.
Qed.

Definition size_char (c : Z) : bool := is_digit c || (c =? 66).

Lemma size_char_nospace s : forallb size_char s = true -> forallb (fun c => negb (is_space c)) s = true.
Proof.
  intros H. rewrite forallb_forall in *. intros c Hc. specialize (H c Hc).
  unfold size_char, is_digit, is_space in *. lia.
Qed.

Lemma size_char_upper s : forallb size_char s = true -> map upper s = s.
Proof.
  induction s as [|c r IH]; [reflexivity|]. simpl. intros H. apply andb_true_iff in H as [Hc Hr].
  rewrite IH by exact Hr. f_equal. unfold size_char, is_digit, upper in *.
  destruct ((97 <=? c) && (c <=? 122)) eqn:E; [lia|reflexivity].
Qed.

Lemma digits_size_char s : forallb is_digit s = true -> forallb size_char s = true.
Proof.
  intros H. rewrite forallb_forall in *. intros c Hc. unfold size_char. rewrite (H c Hc). reflexivity.
Qed.

Lemma parse_uint64_dec n : 0 <= n < two64 -> parse_uint64 (dec n) = Some n.
Proof.
  intros Hn. assert (Hr : dec_range n) by (apply dec_range_u64; lia).
  unfold parse_uint64. pose proof (dec_nonempty n) as Hne.
  destruct (dec n) as [|c r] eqn:E; [congruence|]. rewrite <- E.
  rewrite (dec_digits n Hr), (dec_val n Hr).
  replace (n <? two64) with true by (symmetry; apply Z.ltb_lt; lia). reflexivity.
Qed.

(* the exact form "<n>B" is decoded exactly, whatever the library parser does *)
Lemma parse_size_bytes_form tobytes n : 0 <= n < two64 -> parse_size tobytes (dec n ++ [66]) = TBVal n.
Proof.
  intros Hn. assert (Hr : dec_range n) by (apply dec_range_u64; lia).
  assert (Hsc : forallb size_char (dec n ++ [66]) = true).
  { rewrite forallb_app, (digits_size_char _ (dec_digits n Hr)). reflexivity. }
  unfold parse_size. rewrite (trim_space_id _ (size_char_nospace _ Hsc)), (size_char_upper _ Hsc).
  unfold cut_suffix_B. rewrite rev_app_distr. cbn [rev app]. rewrite rev_involutive.
  rewrite (parse_uint64_dec n Hn). reflexivity.
Qed.

(* the repaired StringSize codec: for ANY formatter and ANY library parser *)
Theorem size_roundtrip (bytesize : Z -> list Z) (tobytes : list Z -> tb_result) n :
  0 <= n < two64 -> parse_size tobytes (size_marshal bytesize tobytes n) = TBVal n.
Proof.
  intros Hn. unfold size_marshal.
  destruct (tb_eqb (parse_size tobytes (bytesize n)) n) eqn:E.
  - unfold tb_eqb in E. destruct (parse_size tobytes (bytesize n)) as [| |v]; try discriminate.
    apply Z.eqb_eq in E. subst v. reflexivity.
  - apply parse_size_bytes_form, Hn.
Qed.

Corollary size_roundtrip_model n : 0 <= n < two64 -> size_unmarshal_m (size_marshal_m n) = TBVal n.
Proof. apply size_roundtrip. Qed.

(* today's text is kept whenever it decodes to the same size *)
Lemma size_marshal_keeps n :
  tb_eqb (size_unmarshal_m (byte_size n)) n = true -> size_marshal_m n = byte_size n.
Proof. intros H. unfold size_marshal_m, size_marshal. unfold size_unmarshal_m in H. rewrite H. reflexivity. Qed.

(* before the repair the round trip fails: 1537 -> "1.5K" -> 1536 *)
Lemma size_roundtrip_old_refuted :
  exists n, 0 <= n < two64 /\ size_unmarshal_old (size_marshal_old n) <> TBVal n.
Proof. exists 1537. split; [unfold two64; lia|]. vm_compute. discriminate. Qed.

Lemma size_old_witnesses :
  size_marshal_old 1537 = [49; 46; 53; 75] /\ size_unmarshal_old [49; 46; 53; 75] = TBVal 1536 /\
  size_unmarshal_old (size_marshal_old 123456789) = TBVal 123417395 /\
  size_unmarshal_old (size_marshal_old (2 ^ 53 + 1)) = TBVal (2 ^ 53) /\
  size_marshal_m 1537 = [49; 53; 51; 55; 66] /\ size_marshal_m 1536 = [49; 46; 53; 75] /\
  size_marshal_m (two64 - 1) = dec (two64 - 1) ++ [66].
Proof. vm_compute. repeat split. Qed.

(* ------------------------------------------------------------------ enums *)

Lemma eval_eqb_eq a b : eval_eqb a b = true -> a = b.
Proof.
  destruct a, b; simpl; try discriminate; intros H.
  - apply Z.eqb_eq in H. congruence.
  - apply str_eqb_eq in H. congruence.
  - reflexivity.
  - apply str_eqb_eq in H. congruence.
Qed.

Definition enum_rt_ok (e : enum_id) (v : eval) : bool :=
  match enum_unmarshal e (enum_marshal e v) with Some v' => eval_eqb v' v | None => false end.

Lemma enum_sweep : forallb (fun e => forallb (enum_rt_ok e) (enum_values e)) all_enums = true.
Proof. vm_compute. reflexivity. Qed.

Lemma all_enums_complete e : In e all_enums.
Proof. destruct e; simpl; tauto. Qed.

Theorem enum_roundtrip e v : In v (enum_values e) -> enum_unmarshal e (enum_marshal e v) = Some v.
Proof.
  intros Hv. pose proof enum_sweep as H. rewrite forallb_forall in H.
  specialize (H e (all_enums_complete e)). rewrite forallb_forall in H. specialize (H v Hv).
  unfold enum_rt_ok in H. destruct (enum_unmarshal e (enum_marshal e v)) as [v'|]; [|discriminate].
  apply eval_eqb_eq in H. congruence.
Qed.

(* enum_values really is the set of values a decoder can return *)
Lemma one_of_in s l : one_of s l = true -> In s l.
Proof.
  unfold one_of. intros H. apply existsb_exists in H as (x & Hx & He). apply str_eqb_eq in He. subst. exact Hx.
Qed.

Theorem enum_values_complete e s v : enum_unmarshal e s = Some v -> In v (enum_values e).
Proof.
  intros H.
  assert (Hs : In s (enum_texts e)).
  { destruct e; cbn [enum_unmarshal] in H; cbn [enum_texts];
    repeat match type of H with
           | context [str_eqb s ?c] =>
               let E := fresh "E" in destruct (str_eqb s c) eqn:E;
               [apply str_eqb_eq in E; subst s; simpl; tauto|]
           end;
    try discriminate;
    try (cbn [orb] in H);
    match type of H with
    | (if one_of ?x ?l then _ else _) = _ =>
        let E := fresh "E" in destruct (one_of x l) eqn:E; [|discriminate];
        apply one_of_in in E; simpl in E; simpl; tauto
    end. }
  unfold enum_values. apply in_flat_map. exists s. split; [exact Hs|]. rewrite H. left. reflexivity.
Qed.

Example enum_examples :
  enum_unmarshal EEncryption s_yes = Some (EStr s_strict) /\ enum_marshal ELogLevel (EInt 3) = s_warn /\
  enum_unmarshal ERTSPTransport s_automatic = Some ENone /\ length (flat_map enum_values all_enums) = 39%nat.
Proof. vm_compute. repeat split. Qed.

Theorem transports_roundtrip (s : pset) :
  transports_unmarshal (transports_marshal s) (false, false, false) = Some s.
Proof. destruct s as [[[|] [|]] [|]]; vm_compute; reflexivity. Qed.

(* ------------------------------------------------------------------ IPv4 networks *)

Fixpoint oct_scan (ds : list Z) (val diglen : Z) : option (Z * Z) :=
  match ds with
  | [] => Some (val, diglen)
  | c :: r =>
      if (diglen =? 1) && (val =? 0) then None
      else let v := val * 10 + (c - 48) in if v >? 255 then None else oct_scan r v (diglen + 1)
  end.

Lemma ipv4_fields_digits ds : forall rest first prev val dl pos acc,
  forallb is_digit ds = true -> ds <> [] ->
  ipv4_fields (ds ++ rest) first prev val dl pos acc =
  match oct_scan ds val dl with
  | Some (v, d) => ipv4_fields rest false false v d pos acc
  | None => None
  end.
Proof.
  induction ds as [|c ds IH]; intros rest first prev val dl pos acc Hd Hne; [congruence|].
  simpl in Hd. apply andb_true_iff in Hd as [Hc Hds].
  cbn [app ipv4_fields oct_scan]. rewrite Hc.
  destruct ((dl =? 1) && (val =? 0)); [reflexivity|].
  destruct (val * 10 + (c - 48) >? 255); [reflexivity|].
  destruct ds as [|c' ds']; [reflexivity|].
  apply IH; [exact Hds|discriminate].
Qed.

Lemma octet_sweep :
  forallb (fun k => match oct_scan (dec k) 0 0 with Some (v, _) => v =? k | None => false end)
          (map Z.of_nat (seq 0 256)) = true.
Proof. vm_compute. reflexivity. Qed.

Lemma octet_scan b : 0 <= b <= 255 -> exists d, oct_scan (dec b) 0 0 = Some (b, d).
Proof.
  intros Hb. pose proof (range_forallb 256 _ octet_sweep b ltac:(lia)) as H. cbv beta in H.
  destruct (oct_scan (dec b) 0 0) as [[v d]|]; [|discriminate]. apply Z.eqb_eq in H. subst. eauto.
Qed.

Lemma prefix_sweep :
  forallb (fun k => match dtoi (dec k) 0 with Some v => v =? k | None => false end)
          (map Z.of_nat (seq 0 33)) = true.
Proof. vm_compute. reflexivity. Qed.

Lemma dtoi_dec k : 0 <= k <= 32 -> dtoi (dec k) 0 = Some k.
Proof.
  intros Hk. pose proof (range_forallb 33 _ prefix_sweep k ltac:(lia)) as H. cbv beta in H.
  destruct (dtoi (dec k) 0) as [v|]; [|discriminate]. apply Z.eqb_eq in H. congruence.
Qed.

Definition addr_char (c : Z) : bool := is_digit c || (c =? 46).

Lemma cut_slash_app p : forall q, forallb addr_char p = true -> cut_slash (p ++ 47 :: q) = Some (p, q).
Proof.
  induction p as [|c p IH]; intros q Hp; simpl in *; [reflexivity|].
  apply andb_true_iff in Hp as [Hc Hp].
  replace (c =? 47) with false by (symmetry; unfold addr_char, is_digit in Hc; lia).
  rewrite IH by exact Hp. reflexivity.
Qed.

Lemma addr_kind_digits ds : forall r, forallb is_digit ds = true -> addr_kind_of (ds ++ 46 :: r) = AKv4.
Proof.
  induction ds as [|c ds IH]; intros r Hd; simpl in *; [reflexivity|].
  apply andb_true_iff in Hd as [Hc Hd]. unfold is_digit in Hc.
  replace (c =? 46) with false by lia. replace (c =? 58) with false by lia. replace (c =? 37) with false by lia.
  apply IH, Hd.
Qed.

Lemma octet_range ip : forallb (fun b => (0 <=? b) && (b <=? 255)) ip = true -> Forall (fun b => 0 <= b <= 255) ip.
Proof.
  intros H. apply Forall_forall. intros b Hb. rewrite forallb_forall in H. specialize (H b Hb). lia.
Qed.

Lemma dec_addr_char b : 0 <= b <= 255 -> forallb addr_char (dec b) = true.
Proof.
  intros Hb. assert (Hr : dec_range b) by (apply dec_range_u64; unfold two64; lia).
  pose proof (dec_digits b Hr) as H. rewrite forallb_forall in *. intros c Hc. unfold addr_char. rewrite (H c Hc). reflexivity.
Qed.

Theorem ipnet4_roundtrip ip ones :
  ipnet4_wf ip ones = true -> ipnet_unmarshal (ipnet4_string ip ones) = NVal ip ones.
Proof.
  unfold ipnet4_wf. intros H.
  apply andb_true_iff in H as [H Hm]. apply andb_true_iff in H as [H Ho2]. apply andb_true_iff in H as [H Ho1].
  apply andb_true_iff in H as [Hl Hb]. apply Nat.eqb_eq in Hl. apply octet_range in Hb.
  apply str_eqb_eq in Hm. apply Z.leb_le in Ho1, Ho2.
  destruct ip as [|a [|b [|c [|d [|? ?]]]]]; try discriminate.
  inversion Hb as [|? ? Ha Hb1]; subst. inversion Hb1 as [|? ? Hbb Hb2]; subst.
  inversion Hb2 as [|? ? Hc Hb3]; subst. inversion Hb3 as [|? ? Hd _]; subst.
  assert (Hra : dec_range a) by (apply dec_range_u64; unfold two64; lia).
  assert (Hrb : dec_range b) by (apply dec_range_u64; unfold two64; lia).
  assert (Hrc : dec_range c) by (apply dec_range_u64; unfold two64; lia).
  assert (Hrd : dec_range d) by (apply dec_range_u64; unfold two64; lia).
  set (addr := dec a ++ 46 :: dec b ++ 46 :: dec c ++ 46 :: dec d).
  assert (Htext : ipnet4_string [a; b; c; d] ones = addr ++ 47 :: dec ones).
  { unfold ipnet4_string, join_dots, addr. cbn [map flat_map app]. rewrite app_nil_r.
    rewrite <- !app_assoc. cbn [app]. rewrite <- !app_assoc. reflexivity. }
  assert (Haddr : forallb addr_char addr = true).
  { unfold addr. repeat (rewrite forallb_app; cbn [forallb]).
    rewrite !dec_addr_char by lia. reflexivity. }
  assert (Hkind : addr_kind_of addr = AKv4) by (apply addr_kind_digits, dec_digits, Hra).
  assert (Hparse : parse_ipv4 addr = Some [a; b; c; d]).
  { unfold parse_ipv4, addr.
    destruct (octet_scan a Ha) as [da Ea]. destruct (octet_scan b Hbb) as [db Eb].
    destruct (octet_scan c Hc) as [dc Ec]. destruct (octet_scan d Hd) as [dd Ed].
    rewrite ipv4_fields_digits, Ea by (try apply dec_digits; try apply dec_nonempty; assumption).
    cbn [ipv4_fields]. replace (is_digit 46) with false by reflexivity. cbn [Z.eqb orb Z.add app].
    change (46 =? 46) with true. cbn iota. change (0 =? 3) with false. cbn iota.
    rewrite ipv4_fields_digits, Eb by (try apply dec_digits; try apply dec_nonempty; assumption).
    cbn [ipv4_fields]. replace (is_digit 46) with false by reflexivity.
    change (46 =? 46) with true. cbn [orb]. cbn iota. change (0 + 1 =? 3) with false. cbn iota.
    rewrite ipv4_fields_digits, Ec by (try apply dec_digits; try apply dec_nonempty; assumption).
    cbn [ipv4_fields]. replace (is_digit 46) with false by reflexivity.
    change (46 =? 46) with true. cbn [orb]. cbn iota. change (0 + 1 + 1 =? 3) with false. cbn iota.
    rewrite <- (app_nil_r (dec d)).
    rewrite ipv4_fields_digits, Ed by (try apply dec_digits; try apply dec_nonempty; assumption).
    cbn [ipv4_fields]. change (0 + 1 + 1 + 1 <? 3) with false. cbn iota. reflexivity. }
  rewrite Htext. unfold ipnet_unmarshal. rewrite (cut_slash_app addr (dec ones) Haddr), Hkind, Hparse.
  pose proof (dec_nonempty ones) as Hne. destruct (dec ones) as [|m0 mr] eqn:Em; [congruence|]. rewrite <- Em.
  rewrite (dtoi_dec ones ltac:(lia)). replace (ones <=? 32) with true by lia.
  rewrite Hm. reflexivity.
Qed.

Example ipnet4_example :
  ipnet4_wf [10; 1; 0; 0] 16 = true /\ ipnet4_string [10; 1; 0; 0] 16 = [49;48;46;49;46;48;46;48;47;49;54] /\
  ipnet_unmarshal [49;48;46;49;46;50;46;51;47;49;54] = NVal [10; 1; 0; 0] 16 /\
  ipnet4_wf [10; 1; 2; 3] 16 = false.
Proof. vm_compute. repeat split. Qed.
